(* Journey.v -- T2 for C03 (journey continuity) on the engine model.  The HISTORY is the concatenation of the logs of all
   events so far; `an i` is the node where customer i arrived from outside (a ghost, read off the run: the customers
   created by an arrival event of state s arrive at a_next_node (arr s)).  At every event boundary, for every
   configuration, every state satisfying the invariants, every oracle of draws and any number of events:
     (o)   the first record of a customer is at the node where it arrived;
     (i)   the records of one customer, in order, form one connected journey: every record that has a successor is a
           service record, names the node of the next record as its destination and ends at the instant the next one
           begins; the successor is a service record as well (so a baulk / rejection record is its customer's ONLY record);
     (ii)  a customer that is in a node k either has no record yet and k is where it arrived, or its last record is a
           service record with destination k whose exit date is the customer's arrival date at k; the customer's own
           record counter is the number of its records in the history (one record per completed visit);
     (iii) a customer at the exit has a last record, and that record is terminal: a service record with destination -1, or
           a baulk / rejection record; conversely (with conservation) a customer whose last record is terminal is at the exit;
     (iv)  records only name customers that have been created.
   What makes it true: `release` writes the one service record of the visit (r_node = the node whose queue held the
   customer, r_dest = i_dest, r_exit = now, r_arr = i_arr) and hands the customer to `accept` of the destination in the
   same event, which stamps i_arr = now; in the unblocking cascade the destination of the released customer is the node
   that unblocks it (Blocking.Who: every entry (from, y) of the blocked queue of d has i_dest y = Some d), and the customer
   finish_service picks is in no blocked queue (Blocking.NextOk), so its freshly drawn destination is the one recorded.
   No hypothesis on the draws is needed. *)
From Coq Require Import ZArith List Bool Lia Permutation.
From RecordUpdate Require Import RecordUpdate.
From CiwV Require Import Sx Prelude Routing.
From CiwV.Engine Require Import State Engine Codec.
From CiwV.Inv Require Import Frame Conserve ConserveRun ExitGrows Capacity SysCap CapacityRun Blocking.
Import ListNotations.
Open Scope Z_scope.

Local Arguments Z.mul : simpl never.
Local Arguments Z.add : simpl never.
Local Arguments Z.sub : simpl never.

(* ====================================================================================================================
   1. Histories
   ==================================================================================================================== *)
Definition recs_of (i : Z) (h : list rec) : list rec := filter (fun r => r_id r =? i) h.

Fixpoint last_opt {A} (l : list A) : option A :=
  match l with [] => None | a :: t => match last_opt t with None => Some a | Some b => Some b end end.
Definition last_of (i : Z) (h : list rec) : option rec := last_opt (recs_of i h).

Lemma last_opt_snoc {A} (l : list A) a : last_opt (l ++ [a]) = Some a.
Proof. induction l as [|b t IH]; cbn; [reflexivity|]. rewrite IH. reflexivity. Qed.
Lemma last_opt_split {A} (l : list A) a : last_opt l = Some a -> exists l', l = l' ++ [a].
Proof.
  revert a; induction l as [|b t IH]; intros a H; cbn in H; [discriminate|].
  destruct (last_opt t) as [c|] eqn:E.
  - injection H as <-. destruct (IH c eq_refl) as [l' ->]. exists (b :: l'). reflexivity.
  - injection H as <-. destruct t as [|c t']; [exists []; reflexivity|]. cbn in E. destruct (last_opt t'); discriminate.
Qed.
Lemma last_opt_None {A} (l : list A) : last_opt l = None -> l = [].
Proof. destruct l as [|a t]; [reflexivity|]. cbn. destruct (last_opt t); discriminate. Qed.

Lemma recs_of_app i a b : recs_of i (a ++ b) = recs_of i a ++ recs_of i b.
Proof. apply filter_app. Qed.
Lemma recs_of_snoc_same i h r : r_id r = i -> recs_of i (h ++ [r]) = recs_of i h ++ [r].
Proof. intros E. rewrite recs_of_app. cbn. apply Z.eqb_eq in E. rewrite E. reflexivity. Qed.
Lemma recs_of_snoc_other i h r : r_id r <> i -> recs_of i (h ++ [r]) = recs_of i h.
Proof. intros E. rewrite recs_of_app. cbn. apply Z.eqb_neq in E. rewrite E. apply app_nil_r. Qed.
Lemma recs_of_In i h r : In r (recs_of i h) <-> In r h /\ r_id r = i.
Proof. unfold recs_of. rewrite filter_In, Z.eqb_eq. reflexivity. Qed.
Lemma recs_of_none i h : (forall r, In r h -> r_id r <> i) -> recs_of i h = [].
Proof.
  intros H. destruct (recs_of i h) as [|r t] eqn:E; [reflexivity|]. exfalso.
  assert (Hin : In r (recs_of i h)) by (rewrite E; left; reflexivity). apply recs_of_In in Hin as [A B]. exact (H r A B).
Qed.

(* r1 is directly followed by r2 in the journey of one customer *)
Definition link (r1 r2 : rec) : Prop :=
  r_type r1 = 0 /\ r_dest r1 = Some (r_node r2) /\ r_exit r1 = r_arr r2 /\ r_type r2 = 0.
Fixpoint chain (l : list rec) : Prop :=
  match l with [] => True | r1 :: t => match t with [] => True | r2 :: _ => link r1 r2 end /\ chain t end.

Lemma chain_snoc l r : chain l -> (forall r1, last_opt l = Some r1 -> link r1 r) -> chain (l ++ [r]).
Proof.
  induction l as [|a t IH]; cbn [app chain]; [auto|]. intros [H1 H2] Hl. split.
  - destruct t as [|b t']; cbn [app]; [apply Hl; reflexivity|exact H1].
  - apply IH; [exact H2|]. intros r1 Hr1. apply Hl. cbn [last_opt]. rewrite Hr1. reflexivity.
Qed.
Lemma chain_mid l1 r1 r2 l2 : chain (l1 ++ r1 :: r2 :: l2) -> link r1 r2.
Proof. induction l1 as [|a t IH]; cbn [app chain]; [tauto|]. intros [_ H]. exact (IH H). Qed.
Lemma chain_only l r : chain l -> In r l -> r_type r <> 0 -> l = [r].
Proof.
  induction l as [|a t IH]; intros Hc Hin Hty; [destruct Hin|]. cbn [chain] in Hc. destruct Hc as [H1 H2].
  destruct t as [|b t'].
  - destruct Hin as [->|[]]. reflexivity.
  - exfalso. destruct H1 as (Ta & _ & _ & Tb). destruct Hin as [->|Hin]; [exact (Hty Ta)|].
    specialize (IH H2 Hin Hty). injection IH as -> _. exact (Hty Tb).
Qed.

(* a terminal record: the customer left for the exit, or never entered *)
Definition term (r : rec) : Prop := (r_type r = 0 /\ r_dest r = Some (-1)) \/ r_type r = 3 \/ r_type r = 4.
(* the last record of a customer that is now in node k with arrival date a *)
Definition lastok (k : Z) (a : option Z) (o : option rec) : Prop :=
  match o with None => True | Some r => r_type r = 0 /\ r_dest r = Some k /\ r_exit r = a end.
(* ---- from here on `an i` is the node where customer i arrived from outside (a ghost: the engine does not store it;
   section 4 says how it is read off the run: the customers created by an arrival event arrive at a_next_node) ---- *)
Section Ghost.
Variable an : Z -> option Z.

(* what the table says about customer i, in node k, given the history H *)
Definition good (k i : Z) (x : ind) (H : list rec) : Prop :=
  i_node x = Some k /\ lastok k (i_arr x) (last_of i H) /\ i_nrec x = zlen (recs_of i H) /\
  (recs_of i H = [] -> an i = Some k).

(* the journey invariant proper, for a history H *)
Record JH (H : list rec) (s : sim) : Prop := mkJH {
  j_node : forall k i, bk_at_node s k i -> exists x, find_ind i (inds s) = Some x /\ good k i x H;
  j_exit : forall i, In i (exit_ids s) -> exists r, last_of i H = Some r /\ term r;
  j_chain : forall i, chain (recs_of i H);
  j_first : forall i r l, recs_of i H = r :: l -> an i = Some (r_node r);
  j_ids : forall r, In r H -> r_id r <= a_created (arr s)
}.
(* during an event: the history is what was there before plus the log of the event *)
Definition JI (h : list rec) (s : sim) : Prop := JH (h ++ log s) s.

(* the views of a customer record the invariants look at *)
Definition jv3 (x : ind) := (i_node x, i_arr x, i_nrec x).
Definition jv (x : ind) := (i_node x, i_arr x, i_nrec x, i_dest x).
Lemma jv_jv3 a b : option_map jv a = option_map jv b -> option_map jv3 a = option_map jv3 b.
Proof. destruct a, b; cbn; intros H; try discriminate; [|reflexivity]. unfold jv in H. unfold jv3. injection H as -> -> -> _. reflexivity. Qed.

Lemma omap_jv3 (o : option ind) x : option_map jv3 o = Some (jv3 x) -> exists x', o = Some x' /\ jv3 x' = jv3 x.
Proof. destruct o as [x'|]; cbn; intros H; [|discriminate]. exists x'. split; [reflexivity|congruence]. Qed.
Lemma good_jv3 k i x x' H : jv3 x' = jv3 x -> good k i x H -> good k i x' H.
Proof. unfold jv3, good. intros E. injection E as -> -> ->. auto. Qed.

(* customer i is in no node and not at the exit (it is in flight) *)
Definition Away (i : Z) (s : sim) : Prop := (forall k, ~ bk_at_node s k i) /\ ~ In i (exit_ids s).
Lemma WFx_away i fl s : WFx (i :: fl) s -> Away i s.
Proof.
  intros HW. split.
  - intros k (nd & Hn & Hin). exact (WFx_inflight _ _ _ _ _ HW Hn Hin).
  - intros Hin. pose proof (WFx_ids _ _ HW) as Hnd. apply NoDup_remove_2 in Hnd. apply Hnd.
    apply in_or_app. left. apply in_or_app. right. exact Hin.
Qed.

Lemma nodeZ_shape s s' k nd' : shp s' = shp s -> nodeZ s' k = Some nd' -> exists nd, nodeZ s k = Some nd /\ n_queues nd = n_queues nd'.
Proof.
  intros Hs Hn. unfold nodeZ, nthZ in *. destruct (k - 1 <? 0); [discriminate|].
  pose proof (nodes_shape_nth s s' (Z.to_nat (k - 1)) Hs) as E. rewrite Hn in E. cbn in E.
  destruct (nth_error (nodes s) (Z.to_nat (k - 1))) as [nd|]; [|discriminate]. cbn in E. exists nd. split; [reflexivity|].
  unfold nshape in E. injection E as _ _ E. symmetry. exact E.
Qed.
Lemma at_shape s s' k y : shp s' = shp s -> bk_at_node s' k y -> bk_at_node s k y.
Proof.
  intros Hs (nd' & Hn & Hin). destruct (nodeZ_shape _ _ _ _ Hs Hn) as (nd & Hn0 & Eq). exists nd. split; [exact Hn0|].
  unfold all_individuals in *. rewrite Eq. exact Hin.
Qed.
Lemma shp_exit s s' : shp s' = shp s -> exit_ids s' = exit_ids s /\ a_created (arr s') = a_created (arr s).
Proof. unfold shp. intros H. injection H as _ A _ B. auto. Qed.
Lemma Away_shape i s s' : shp s' = shp s -> Away i s -> Away i s'.
Proof.
  intros Hs [A B]. split.
  - intros k Hk. apply (A k). eapply at_shape; eauto.
  - rewrite (proj1 (shp_exit _ _ Hs)). exact B.
Qed.

(* ---------- how JH changes ---------- *)
(* nobody new in a node, the customers in nodes keep their view, same history *)
Lemma JH_mono H s s' : JH H s ->
  (forall k y, bk_at_node s' k y -> bk_at_node s k y) ->
  (forall k y, bk_at_node s' k y -> option_map jv3 (find_ind y (inds s')) = option_map jv3 (find_ind y (inds s))) ->
  exit_ids s' = exit_ids s -> a_created (arr s) <= a_created (arr s') -> JH H s'.
Proof.
  intros [A B C F D] Hat Hv He Hc. constructor.
  - intros k i Hk. destruct (A k i (Hat _ _ Hk)) as (x & Hx & Hg). specialize (Hv _ _ Hk). rewrite Hx in Hv. cbn in Hv.
    apply omap_jv3 in Hv as (x' & Hx' & Hv). exists x'. split; [exact Hx'|]. eapply good_jv3; [|exact Hg]. exact Hv.
  - intros i Hi. rewrite He in Hi. exact (B i Hi).
  - exact C.
  - exact F.
  - intros r Hr. specialize (D r Hr). lia.
Qed.

(* a record for a customer in flight is appended to the history *)
Lemma JH_log H s r : JH H s -> Away (r_id r) s -> r_id r <= a_created (arr s) ->
  (forall r1, last_of (r_id r) H = Some r1 -> link r1 r) -> (recs_of (r_id r) H = [] -> an (r_id r) = Some (r_node r)) ->
  JH (H ++ [r]) s.
Proof.
  intros [A B C F D] [Aw1 Aw2] Hle Hl Hfst. constructor.
  - intros k i Hk. destruct (A k i Hk) as (x & Hx & Hg). exists x. split; [exact Hx|].
    assert (Hne : r_id r <> i) by (intros E; rewrite E in Aw1; exact (Aw1 k Hk)).
    unfold good, last_of in *. rewrite (recs_of_snoc_other _ _ _ Hne). exact Hg.
  - intros i Hi. assert (Hne : r_id r <> i) by (intros E; rewrite E in Aw2; exact (Aw2 Hi)).
    unfold last_of. rewrite (recs_of_snoc_other _ _ _ Hne). exact (B i Hi).
  - intros i. destruct (Z.eq_dec (r_id r) i) as [E|Hne].
    + rewrite (recs_of_snoc_same _ _ _ E). apply chain_snoc; [apply C|]. rewrite <- E. exact Hl.
    + rewrite (recs_of_snoc_other _ _ _ Hne). apply C.
  - intros i r0 l. destruct (Z.eq_dec (r_id r) i) as [E|Hne].
    + rewrite (recs_of_snoc_same _ _ _ E). destruct (recs_of i H) as [|r1 l1] eqn:E1.
      * cbn. intros E2. injection E2 as <- _. rewrite <- E. apply Hfst. rewrite E. exact E1.
      * cbn. intros E2. injection E2 as <- _. exact (F i r1 l1 E1).
    + rewrite (recs_of_snoc_other _ _ _ Hne). apply F.
  - intros r' Hr'. apply in_app_or in Hr' as [Hr'|[<-|[]]]; [exact (D r' Hr')|exact Hle].
Qed.

(* the customer in flight lands in node d *)
Lemma JH_land H s s' i d x : JH H s -> Away i s ->
  (forall k y, bk_at_node s' k y -> (k = d /\ y = i) \/ bk_at_node s k y) ->
  (forall y, y <> i -> option_map jv3 (find_ind y (inds s')) = option_map jv3 (find_ind y (inds s))) ->
  find_ind i (inds s') = Some x -> good d i x H ->
  exit_ids s' = exit_ids s -> a_created (arr s) <= a_created (arr s') -> JH H s'.
Proof.
  intros [A B C F D] [Aw1 Aw2] Hat Hv Hx Hg He Hc. constructor.
  - intros k y Hk. destruct (Hat _ _ Hk) as [[-> ->]|Hk0]; [exists x; auto|].
    assert (Hne : y <> i) by (intros ->; exact (Aw1 k Hk0)).
    destruct (A k y Hk0) as (x0 & Hx0 & Hg0). specialize (Hv y Hne). rewrite Hx0 in Hv. cbn in Hv.
    apply omap_jv3 in Hv as (x' & Hx' & Hv). exists x'. split; [exact Hx'|]. eapply good_jv3; [|exact Hg0]. exact Hv.
  - intros y Hy. rewrite He in Hy. exact (B y Hy).
  - exact C.
  - exact F.
  - intros r Hr. specialize (D r Hr). lia.
Qed.

(* the customer in flight reaches the exit *)
Lemma JH_exit H s s' i : JH H s -> Away i s -> (exists r, last_of i H = Some r /\ term r) ->
  (forall k y, bk_at_node s' k y -> bk_at_node s k y) ->
  (forall y, y <> i -> option_map jv3 (find_ind y (inds s')) = option_map jv3 (find_ind y (inds s))) ->
  exit_ids s' = exit_ids s ++ [i] -> a_created (arr s) <= a_created (arr s') -> JH H s'.
Proof.
  intros [A B C F D] [Aw1 Aw2] Hr Hat Hv He Hc. constructor.
  - intros k y Hk. specialize (Hat _ _ Hk).
    assert (Hne : y <> i) by (intros ->; exact (Aw1 k Hat)).
    destruct (A k y Hat) as (x0 & Hx0 & Hg0). specialize (Hv y Hne). rewrite Hx0 in Hv. cbn in Hv.
    apply omap_jv3 in Hv as (x' & Hx' & Hv). exists x'. split; [exact Hx'|]. eapply good_jv3; [|exact Hg0]. exact Hv.
  - intros y Hy. rewrite He in Hy. apply in_app_or in Hy as [Hy|[<-|[]]]; [exact (B y Hy)|exact Hr].
  - exact C.
  - exact F.
  - intros r Hr'. specialize (D r Hr'). lia.
Qed.

(* ====================================================================================================================
   2. Frame: actions that leave the clock, the log, the exit and the views of all customers alone
   ==================================================================================================================== *)
Definition indsame (s s' : sim) : Prop := forall y, option_map jv (find_ind y (inds s')) = option_map jv (find_ind y (inds s)).
Definition qrel (s s' : sim) : Prop := now s' = now s /\ log s' = log s /\ indsame s s'.
Lemma qrel_refl s : qrel s s.
Proof. split; [reflexivity|]. split; [reflexivity|]. intros y. reflexivity. Qed.
Lemma qrel_trans a b c : qrel a b -> qrel b c -> qrel a c.
Proof. intros (A1 & A2 & A3) (B1 & B2 & B3). split; [congruence|]. split; [congruence|]. intros y. rewrite B3. apply A3. Qed.
Lemma qrel_inds s s' : now s' = now s -> log s' = log s -> inds s' = inds s -> qrel s s'.
Proof. intros A B C. split; [exact A|]. split; [exact B|]. intros y. rewrite C. reflexivity. Qed.

Definition qj {A} (m : M A) : Prop := forall s a s', m s = Ok (a, s') -> qrel s s'.
Lemma qj_ro {A} (m : M A) : ro m -> qj m.
Proof. intros Hm s a s' H. apply Hm in H. rewrite H. apply qrel_refl. Qed.
Lemma qj_ret {A} (a : A) : qj (ret a). Proof. apply qj_ro, ro_ret. Qed.
Lemma qj_fail {A} e : qj (@fail A e). Proof. intros s a s' H. discriminate. Qed.
Lemma qj_gets {A} (f : sim -> A) : qj (gets f). Proof. apply qj_ro, ro_gets. Qed.
Lemma qj_lift {A} e (o : option A) : qj (lift e o). Proof. apply qj_ro, ro_lift. Qed.
Lemma qj_get_node j : qj (get_node j). Proof. apply qj_ro, ro_get_node. Qed.
Lemma qj_get_ind i : qj (get_ind i). Proof. apply qj_ro, ro_get_ind. Qed.
Lemma qj_bind {A B} (m : M A) (f : A -> M B) : qj m -> (forall a, qj (f a)) -> qj (bind m f).
Proof.
  intros Hm Hf s b s' H. unfold bind in H. destruct (m s) as [[a s1]| |] eqn:E; try discriminate.
  eapply qrel_trans; [eapply Hm; eauto|eapply Hf; eauto].
Qed.
Lemma qj_modify (f : sim -> sim) : (forall s, now (f s) = now s /\ log (f s) = log s /\ inds (f s) = inds s) -> qj (modify f).
Proof. intros Hf s a s' H. inversion H. destruct (Hf s) as (A1 & A2 & A3). apply qrel_inds; assumption. Qed.
Lemma qj_put_node nd : qj (put_node nd). Proof. apply qj_modify. intros s. repeat split; reflexivity. Qed.
Lemma qj_draw_arr : qj draw_arr.
Proof. intros s a s' H. unfold draw_arr in H. destruct (d_arr (dr s)); inversion H. apply qrel_inds; reflexivity. Qed.
Lemma qj_draw_batch : qj draw_batch.
Proof. intros s a s' H. unfold draw_batch in H. destruct (d_batch (dr s)); inversion H. apply qrel_inds; reflexivity. Qed.
Lemma qj_draw_svc : qj draw_svc.
Proof. intros s a s' H. unfold draw_svc in H. destruct (d_svc (dr s)); inversion H. apply qrel_inds; reflexivity. Qed.
Lemma qj_draw_unif : qj draw_unif.
Proof. intros s a s' H. unfold draw_unif in H. destruct (d_unif (dr s)); inversion H. apply qrel_inds; reflexivity. Qed.

Ltac qj_step :=
  first
    [ apply qj_ret | apply qj_fail | apply qj_gets | apply qj_lift | apply qj_get_node | apply qj_get_ind | apply qj_put_node
    | apply qj_draw_arr | apply qj_draw_batch | apply qj_draw_svc | apply qj_draw_unif
    | (apply qj_bind; [|intros])
    | match goal with
      | |- qj (if ?b then _ else _) => destruct b
      | |- qj (match ?x with _ => _ end) => destruct x
      | |- qj (let '(_, _) := ?x in _) => destruct x
      end ].

(* the record of customer i is replaced by one with the same view *)
Lemma indsame_put l l' i x x' : find_ind i l = Some x -> i_id x' = i -> jv x' = jv x -> l' = put_ind_l x' l ->
  forall y, option_map jv (find_ind y l') = option_map jv (find_ind y l).
Proof.
  intros Hx Hid Hv -> y. destruct (Z.eq_dec y i) as [->|Hne].
  - rewrite Hx. rewrite <- Hid. rewrite find_put_same. cbn. rewrite Hv. reflexivity.
  - rewrite find_put_other by congruence. reflexivity.
Qed.
Lemma qj_upd_ind i (g : ind -> ind) : (forall x, i_id (g x) = i_id x /\ jv (g x) = jv x) -> qj (x <- get_ind i ;; put_ind (g x)).
Proof.
  intros Hg s a s' H. unfold bind in H. destruct (get_ind i s) as [[x s1]| |] eqn:E; try discriminate.
  apply bk_get_ind_spec in E as [-> Hx]. unfold put_ind, modify in H. inversion H. subst s'. clear H.
  split; [reflexivity|]. split; [reflexivity|]. destruct (Hg x) as [G1 G2]. intros y.
  apply (indsame_put (inds s) _ i x (g x)); [exact Hx|rewrite G1; eapply find_ind_id; eauto|exact G2|reflexivity].
Qed.

Section QJ.
  Variable cf : config.
  Lemma qj_ncfg_of j : qj (ncfg_of cf j). Proof. apply qj_lift. Qed.
  Lemma qj_is_inf j : qj (is_inf cf j). Proof. apply qj_ro, ro_is_inf. Qed.
  Lemma qj_choice_uniform {A} (l : list A) : qj (choice_uniform l). Proof. unfold choice_uniform. repeat qj_step. Qed.
  Lemma qj_choice_weighted den P : qj (choice_weighted den P). Proof. unfold choice_weighted. repeat qj_step. Qed.
  Lemma qj_choose_next_customer nd : qj (choose_next_customer cf nd).
  Proof. unfold choose_next_customer. repeat first [apply qj_ncfg_of | apply qj_choice_uniform | qj_step]. Qed.
  Lemma qj_start_service j i srv : qj (start_service j i srv).
  Proof.
    unfold start_service. apply qj_bind; [apply qj_gets|]. intros t.
    intros s a s' H. unfold bind in H at 1. destruct (get_ind i s) as [[x s1]| |] eqn:E; try discriminate.
    apply bk_get_ind_spec in E as [-> Hx].
    unfold bind in H at 1. destruct (draw_svc s) as [[st s1]| |] eqn:E; try discriminate.
    pose proof (qj_draw_svc _ _ _ E) as Q1. assert (Ei : inds s1 = inds s) by (unfold draw_svc in E; destruct (d_svc (dr s)); inversion E; reflexivity).
    unfold bind in H at 1.
    match type of H with match put_ind ?x' s1 with _ => _ end = _ => set (x1 := x') in * end.
    destruct (put_ind x1 s1) as [[u s2]| |] eqn:E2; try discriminate.
    assert (Q2 : qrel s1 s2).
    { unfold put_ind, modify in E2. inversion E2. split; [reflexivity|]. split; [reflexivity|]. intros y.
      apply (indsame_put (inds s1) _ i x x1); [rewrite Ei; exact Hx|exact (find_ind_id _ _ _ Hx)|reflexivity|reflexivity]. }
    assert (Q3 : qrel s2 s') by (revert H; generalize s2 a s'; repeat qj_step).
    eapply qrel_trans; [exact Q1|]. eapply qrel_trans; eauto.
  Qed.
  Lemma qj_bsip_release j freed : qj (begin_service_if_possible_release cf j freed).
  Proof. unfold begin_service_if_possible_release. repeat first [apply qj_choose_next_customer | apply qj_start_service | qj_step]. Qed.
  Lemma qj_block_individual j i d : qj (block_individual j i d).
  Proof.
    unfold block_individual.
    assert (H1 : qj (x <- get_ind i ;; put_ind (x <| i_blocked := true |>))) by (apply qj_upd_ind; intros x; split; reflexivity).
    intros s a s' H. unfold bind in H. unfold bind in H1.
    destruct (get_ind i s) as [[x s1]| |] eqn:E; try discriminate.
    destruct (put_ind (x <| i_blocked := true |>) s1) as [[u s2]| |] eqn:E2; try discriminate.
    assert (Q1 : qrel s s2) by (eapply (H1 s u s2); rewrite E; exact E2).
    eapply qrel_trans; [exact Q1|]. revert H. generalize s2 a s'. change (qj (dn <- get_node d ;; put_node (dn <| n_bq := n_bq dn ++ [(j, i)] |> <| n_lenbq := n_lenbq dn + 1 |>))).
    repeat qj_step.
  Qed.
  Lemma qj_update_next_event_date j : qj (update_next_event_date cf j).
  Proof. unfold update_next_event_date. repeat first [apply qj_is_inf | qj_step]. Qed.
  Lemma qj_update_all js : qj (update_all cf js).
  Proof. induction js as [|j r IH]; cbn [update_all]; [apply qj_ret|]. apply qj_bind; [apply qj_update_next_event_date|intros; exact IH]. Qed.
  Lemma qj_find_next_event_date : qj find_next_event_date.
  Proof. apply qj_modify. intros s. destruct (find_min_dates 1 (a_dates (arr s)) (None, 0, 0)) as [[d j] c]. repeat split; reflexivity. Qed.
End QJ.

(* ====================================================================================================================
   3. Walking through the engine
   ==================================================================================================================== *)
Definition bqsame (s s' : sim) : Prop := forall k, option_map n_bq (nodeZ s' k) = option_map n_bq (nodeZ s k).
Definition oth (i : Z) (s s' : sim) : Prop :=
  forall y, y <> i -> option_map jv (find_ind y (inds s')) = option_map jv (find_ind y (inds s)).
(* what every step inside the release of customer i does to the rest of the world *)
Definition stepR (i : Z) (s s' : sim) : Prop := now s' = now s /\ bqsame s s' /\ oth i s s'.
Lemma stepR_refl i s : stepR i s s.
Proof. split; [reflexivity|]. split; intros k; reflexivity. Qed.
Lemma stepR_trans i a b c : stepR i a b -> stepR i b c -> stepR i a c.
Proof.
  intros (A1 & A2 & A3) (B1 & B2 & B3). split; [congruence|]. split.
  - intros k. rewrite B2. apply A2.
  - intros y Hy. rewrite (B3 y Hy). apply A3. exact Hy.
Qed.
Lemma bqsame_nodes s s' : nodes s' = nodes s -> bqsame s s'.
Proof. intros E k. unfold nodeZ. rewrite E. reflexivity. Qed.
Lemma oth_indsame i s s' : indsame s s' -> oth i s s'.
Proof. intros H y _. apply H. Qed.

Lemma JI_shape h s s' : shp s' = shp s -> qrel s s' -> JI h s -> JI h s'.
Proof.
  intros Hs (_ & Hl & Hi) HJ. unfold JI in *. rewrite Hl. destruct (shp_exit _ _ Hs) as [He Hc].
  apply (JH_mono _ s s' HJ); [intros k y; apply at_shape; exact Hs| |exact He|lia].
  intros k y _. apply jv_jv3. apply Hi.
Qed.

Lemma put_ind_facts x s u s' : put_ind x s = Ok (u, s') ->
  inds s' = put_ind_l x (inds s) /\ nodes s' = nodes s /\ arr s' = arr s /\ shp s' = shp s /\ log s' = log s /\ now s' = now s /\ exit_ids s' = exit_ids s.
Proof. unfold put_ind, modify. intros H. inversion H. repeat split; reflexivity. Qed.
Lemma put_node_misc nd s u s' : put_node nd s = Ok (u, s') ->
  log s' = log s /\ now s' = now s /\ exit_ids s' = exit_ids s /\ inds s' = inds s /\ arr s' = arr s.
Proof. unfold put_node, modify. intros H. inversion H. repeat split; reflexivity. Qed.

(* the table entry of a customer that is away is (re)written *)
Lemma JI_put_away h i x s s' : Away i s -> JI h s -> put_ind x s = Ok (tt, s') -> i_id x = i ->
  JI h s' /\ stepR i s s' /\ log s' = log s.
Proof.
  intros [Aw1 Aw2] HJ H Hid. destruct (put_ind_facts _ _ _ _ H) as (Ei & En & Ea & Es & El & Et & Ee).
  assert (Hat : forall k y, bk_at_node s' k y -> bk_at_node s k y) by (intros k y (nd & Hn & Hin); exists nd; unfold nodeZ in *; rewrite <- En; auto).
  split; [|split; [|exact El]].
  - unfold JI in *. rewrite El. apply (JH_mono _ s s' HJ Hat); [|exact Ee|rewrite Ea; lia].
    intros k y Hk. assert (Hne : y <> i_id x) by (rewrite Hid; intros ->; exact (Aw1 k (Hat _ _ Hk))).
    rewrite Ei, find_put_other by exact Hne. reflexivity.
  - split; [exact Et|]. split; [apply bqsame_nodes; exact En|]. intros y Hy. rewrite Ei, find_put_other by congruence. reflexivity.
Qed.

(* a node is written back into its slot *)
Lemma put_node_at nd' nd s s' j : Idx s -> nodeZ s j = Some nd -> put_node nd' s = Ok (tt, s') -> n_id nd' = n_id nd ->
  (forall y, In y (all_individuals nd') -> In y (all_individuals nd)) ->
  forall k y, bk_at_node s' k y -> bk_at_node s k y.
Proof.
  intros HI Hn H Hid Hsub k y (n & Hnn & Hin). destruct (put_facts nd' nd s s' j HI Hn H Hid) as (Hput & _).
  rewrite Hput in Hnn. destruct (Z.eqb_spec k j) as [->|Hne]; [injection Hnn as <-; exists nd; auto|exists n; auto].
Qed.
Lemma put_node_bq nd' nd s s' j : Idx s -> nodeZ s j = Some nd -> put_node nd' s = Ok (tt, s') -> n_id nd' = n_id nd ->
  n_bq nd' = n_bq nd -> bqsame s s'.
Proof.
  intros HI Hn H Hid Hb k. destruct (put_facts nd' nd s s' j HI Hn H Hid) as (Hput & _).
  rewrite Hput. destruct (Z.eqb_spec k j) as [->|Hne]; [rewrite Hn; cbn; rewrite Hb|]; reflexivity.
Qed.

Lemma In_concat_updZ_snoc_inv (qs : list (list Z)) p q i y :
  nthZ qs p = Some q -> In y (concat (updZ qs p (q ++ [i]))) -> y = i \/ In y (concat qs).
Proof.
  intros Hq Hy. destruct (nthZ_nat _ _ _ Hq) as (k & -> & Hk). rewrite updZ_nat in Hy.
  eapply Permutation_in in Hy; [|apply (concat_upd_perm qs k q (q ++ [i]) i Hk); rewrite Permutation_app_comm; reflexivity].
  destruct Hy as [<-|Hy]; auto.
Qed.

(* ---------- what Blocking.Who gives us about blocked queues, in the form the cascade needs ---------- *)
Record Lq (s : sim) : Prop := mkLq {
  l_ent : forall d from y, entry s d from y -> exists x, find_ind y (inds s) = Some x /\ i_dest x = Some d;
  l_nd : forall d nd, nodeZ s d = Some nd -> NoDup (map snd (n_bq nd))
}.
Lemma Lq_of_Wh cf ex s : Wh cf ex s -> Lq s.
Proof.
  intros HWw. constructor.
  - intros d from y He. destruct (w_ent _ _ _ HWw d from y He) as (x & Hx & _ & Hd & _). eauto.
  - exact (w_bqnd _ _ _ HWw).
Qed.
Lemma entry_bqsame s s' d from y : bqsame s s' -> entry s' d from y -> entry s d from y.
Proof. intros Hb. apply entry_nodes. intros j. symmetry. apply Hb. Qed.
Lemma N0_bqsame s s' i : bqsame s s' -> NoEntry s i -> NoEntry s' i.
Proof. intros Hb. apply N0_nodes. exact Hb. Qed.
Lemma omap_jv (o : option ind) x : option_map jv o = Some (jv x) -> exists x', o = Some x' /\ jv x' = jv x.
Proof. destruct o as [x'|]; cbn; intros H; [|discriminate]. exists x'. split; [reflexivity|congruence]. Qed.
Lemma Lq_step i s s' : Lq s -> NoEntry s i -> bqsame s s' -> oth i s s' -> Lq s'.
Proof.
  intros [A B] HN Hb Ho. constructor.
  - intros d from y He. apply (entry_bqsame _ _ _ _ _ Hb) in He.
    assert (Hne : y <> i) by (intros ->; exact (HN d from He)).
    destruct (A d from y He) as (x & Hx & Hd). specialize (Ho y Hne). rewrite Hx in Ho. cbn in Ho.
    apply omap_jv in Ho as (x' & Hx' & Hv). exists x'. split; [exact Hx'|]. unfold jv in Hv. injection Hv as _ _ _ Hv. congruence.
  - intros d nd' Hn'. specialize (Hb d). rewrite Hn' in Hb. destruct (nodeZ s d) as [nd|] eqn:En; [|discriminate]. cbn in Hb.
    injection Hb as Hb. rewrite Hb. exact (B d nd En).
Qed.

Ltac jstep H :=
  match type of H with
  | bind ?m ?f ?s = Ok _ =>
    let a := fresh "a" in let s1 := fresh "s" in let E := fresh "E" in
    unfold bind in H at 1; destruct (m s) as [[a s1]| |] eqn:E; [|discriminate H|discriminate H];
    first [ (apply gets_spec in E as [-> ->])
          | (let Hl := fresh "Hl" in apply lift_spec in E as [-> Hl])
          | (apply bk_is_inf_spec in E as [-> ->])
          | (let Hn := fresh "Hn" in apply get_node_spec in E as [-> Hn])
          | (let Hf := fresh "Hf" in apply bk_get_ind_spec in E as [-> Hf])
          | idtac ]
  end.

Section Walk.
  Variable cf : config.
  Variable h : list rec.            (* the history before the current event *)

  (* an action that keeps the shape, the blocked queues, the clock, the log and the views *)
  Lemma sil_step {A} (m : M A) i s a s' : presI m -> keepI m -> qj m -> Idx s -> JI h s -> m s = Ok (a, s') ->
    JI h s' /\ stepR i s s' /\ log s' = log s.
  Proof.
    intros P1 P2 P3 HI HJ H.
    pose proof (P1 _ _ _ HI H) as Es. pose proof (P2 _ _ _ HI H) as Eb. pose proof (P3 _ _ _ H) as Q.
    split; [eapply JI_shape; eauto|]. destruct Q as (Q1 & Q2 & Q3).
    split; [|exact Q2]. split; [exact Q1|]. split; [intros k; apply nodeZ_BV; exact Eb|apply oth_indsame; exact Q3].
  Qed.

  (* begin_service_if_possible_accept after it has stamped the arrival date *)
  Definition bsip_tail (j i : Z) : M unit :=
    inf <- is_inf cf j ;;
    nd <- get_node j ;;
    cand <- (if inf then ret (Some i) else choose_next_customer cf nd) ;;
    match cand with
    | None => ret tt
    | Some c =>
      if inf then start_service j c None
      else match find_free_server (n_servers nd) with
           | Some sv => start_service j c (Some sv)
           | None => ret tt
           end
    end.
  Lemma bsip_accept_unfold j i :
    begin_service_if_possible_accept cf j i = (t <- gets now ;; x <- get_ind i ;; put_ind (x <| i_arr := Some t |>) ;;; bsip_tail j i).
  Proof. reflexivity. Qed.
  Lemma presI_bsip_tail j i : presI (bsip_tail j i).
  Proof.
    unfold bsip_tail.
    apply presI_bind; [apply pres_presI, pres_is_inf|]. intros inf.
    apply presI_bind; [apply pres_presI, pres_get_node|]. intros nd.
    apply presI_bind; [apply pres_presI; destruct inf; [apply pres_ret|apply pres_choose_next_customer]|]. intros cand.
    destruct cand as [c|]; [|apply pres_presI, pres_ret].
    destruct inf; [apply presI_start_service|].
    destruct (find_free_server (n_servers nd)); [apply presI_start_service|apply pres_presI, pres_ret].
  Qed.
  Lemma keepI_bsip_tail j i : keepI (bsip_tail j i).
  Proof. unfold bsip_tail. repeat first [apply bk_k_is_inf | apply bk_k_choose_next_customer | apply bk_k_start_service | bk_k_step]. Qed.
  Lemma qj_bsip_tail j i : qj (bsip_tail j i).
  Proof. unfold bsip_tail. repeat first [apply qj_is_inf | apply qj_choose_next_customer | apply qj_start_service | qj_step]. Qed.

  (* ---------- accept: the customer in flight lands in node d, its arrival date there is the clock ---------- *)
  Lemma accept_J d x fl s s' : WFx (i_id x :: fl) s -> JI h s ->
    lastok d (Some (now s)) (last_of (i_id x) (h ++ log s)) -> i_nrec x = zlen (recs_of (i_id x) (h ++ log s)) ->
    (recs_of (i_id x) (h ++ log s) = [] -> an (i_id x) = Some d) ->
    accept cf d x s = Ok (tt, s') -> JI h s' /\ stepR (i_id x) s s' /\ log s' = log s.
  Proof.
    intros HW HJ Hlast Hnrec Han H. pose proof (WFx_away _ _ _ HW) as Aw. pose proof (WFx_Idx _ _ HW) as I0.
    unfold accept in H.
    jstep H.
    match goal with Hx : nthZ (nodes s) (d - 1) = Some ?ndx |- _ => rename ndx into nd; rename Hx into Hn end.
    jstep H.
    match goal with E : put_ind ?x' s = Ok (?u, ?sa) |- _ =>
      destruct u; set (x1 := x') in *; destruct (put_ind_facts _ _ _ _ E) as (Ei1 & En1 & Ea1 & Es1 & El1 & Et1 & Ee1); rename sa into s1; clear E end.
    jstep H. jstep H.
    match goal with Hx : match nthZ (n_queues nd) ?p with _ => _ end = Some ?qs |- _ =>
      destruct (nthZ (n_queues nd) p) as [q|] eqn:Eq; [injection Hx as Hx|discriminate Hx]; rename Hx into Hqs end.
    match goal with E : put_node ?nd' s1 = Ok (?u, ?sa) |- _ => destruct u; rename sa into s2; rename E into Eput; set (nd1 := nd') in * end.
    assert (Hn1 : nodeZ s1 d = Some nd) by (unfold nodeZ; rewrite En1; exact Hn).
    assert (I1 : Idx s1) by (intros k n Hk; rewrite En1 in Hk; exact (I0 k n Hk)).
    destruct (put_facts nd1 nd s1 s2 d I1 Hn1 Eput eq_refl) as (Hput & Ei2 & Ea2).
    destruct (put_node_misc _ _ _ _ Eput) as (El2 & Et2 & Ee2 & _ & _).
    assert (I2 : Idx s2) by (eapply Idx_put; [exact Eput|exact I1|cbn; rewrite (Idx_get _ _ _ I1 Hn1); eauto]).
    rewrite bsip_accept_unfold in H.
    jstep H. jstep H.
    match goal with Hx : find_ind (i_id x) (inds s2) = Some ?xx |- _ => rename xx into x0; rename Hx into Hf end.
    assert (x0 = x1) by (rewrite Ei2, Ei1 in Hf; change (i_id x) with (i_id x1) in Hf; rewrite find_put_same in Hf; congruence). subst x0.
    jstep H.
    match goal with E : put_ind ?x' s2 = Ok (?u, ?sa) |- _ =>
      destruct u; set (x2 := x') in *; destruct (put_ind_facts _ _ _ _ E) as (Ei3 & En3 & Ea3 & Es3 & El3 & Et3 & Ee3); rename sa into s3; clear E end.
    assert (I3 : Idx s3) by (intros k n Hk; rewrite En3 in Hk; exact (I2 k n Hk)).
    assert (Hfo : forall y, y <> i_id x -> find_ind y (inds s3) = find_ind y (inds s)).
    { intros y Hy. rewrite Ei3, Ei2, Ei1. rewrite find_put_other by exact Hy. rewrite find_put_other by exact Hy. reflexivity. }
    assert (J3 : JI h s3).
    { unfold JI in *. replace (log s3) with (log s) by congruence.
      apply (JH_land _ s s3 (i_id x) d x2 HJ Aw).
      - intros k y (n & Hnn & Hin). unfold nodeZ in Hnn. rewrite En3 in Hnn. fold (nodeZ s2 k) in Hnn. rewrite Hput in Hnn.
        destruct (Z.eqb_spec k d) as [->|Hne].
        + injection Hnn as <-. unfold all_individuals, nd1 in Hin. cbn in Hin. rewrite <- Hqs in Hin.
          apply (In_concat_updZ_snoc_inv _ _ _ _ _ Eq) in Hin as [->|Hin]; [left; auto|right; exists nd; auto].
        + right. exists n. unfold nodeZ in *. rewrite <- En1. auto.
      - intros y Hy. rewrite (Hfo y Hy). reflexivity.
      - rewrite Ei3. change (i_id x) with (i_id x2). apply find_put_same.
      - split; [reflexivity|]. split; [cbn; rewrite Et2, Et1; exact Hlast|]. split; [exact Hnrec|exact Han].
      - congruence.
      - rewrite Ea3, Ea2, Ea1. lia. }
    assert (R3 : stepR (i_id x) s s3).
    { split; [congruence|]. split.
      - intros k. unfold nodeZ at 1. rewrite En3. fold (nodeZ s2 k). rewrite Hput. destruct (Z.eqb_spec k d) as [->|Hne].
        + unfold nodeZ. rewrite Hn. reflexivity.
        + unfold nodeZ. rewrite En1. reflexivity.
      - intros y Hy. rewrite (Hfo y Hy). reflexivity. }
    destruct (sil_step _ (i_id x) _ _ _ (presI_bsip_tail d (i_id x)) (keepI_bsip_tail d (i_id x)) (qj_bsip_tail d (i_id x)) I3 J3 H) as (J4 & R4 & El4).
    split; [exact J4|]. split; [eapply stepR_trans; eauto|congruence].
  Qed.

  (* ---------- exit_accept: the customer in flight reaches the exit; its last record must be terminal ---------- *)
  Lemma exit_accept_J x c fl s s' : WFx (i_id x :: fl) s -> JI h s ->
    (exists r, last_of (i_id x) (h ++ log s) = Some r /\ term r) ->
    exit_accept x c s = Ok (tt, s') -> JI h s' /\ stepR (i_id x) s s' /\ log s' = log s.
  Proof.
    intros HW HJ Hr H. pose proof (WFx_away _ _ _ HW) as Aw.
    unfold exit_accept, bind, del_ind, modify in H. injection H as <-.
    split; [|split; [|reflexivity]].
    - unfold JI in *. cbn [log]. apply (JH_exit _ s _ (i_id x) HJ Aw Hr); [intros k y Hk; exact Hk| |reflexivity|cbn; lia].
      intros y Hy. cbn. rewrite find_del_other by exact Hy. reflexivity.
    - split; [reflexivity|]. split; [intros k; reflexivity|]. intros y Hy. cbn. rewrite find_del_other by exact Hy. reflexivity.
  Qed.

  (* ---------- the service record ---------- *)
  Definition svc_rec (j : Z) (x : ind) : rec :=
    mkRec (i_id x) (i_pcls x) (i_ocls x) j 0 (i_arr x) (opt_sub (i_sst x) (i_arr x)) (i_sst x) (opt_sub (i_send x) (i_sst x))
          (i_send x) (opt_sub (i_exit x) (i_send x)) (i_exit x) (i_dest x) (i_qa x) (i_qd x) (if infb cf j then None else i_server x).
  Lemma wir_facts j x s s' : write_individual_record cf j x s = Ok (tt, s') ->
    log s' = log s ++ [svc_rec j x] /\ inds s' = put_ind_l (x <| i_nrec := i_nrec x + 1 |>) (inds s) /\
    nodes s' = nodes s /\ arr s' = arr s /\ now s' = now s /\ shp s' = shp s.
  Proof.
    intros H. unfold write_individual_record in H. jstep H.
    unfold bind, log_rec, put_ind, modify in H. injection H as <-. repeat split; reflexivity.
  Qed.
  Lemma wbr_facts j x ty s s' : write_br_record j x ty s = Ok (tt, s') ->
    exists r, log s' = log s ++ [r] /\ r_id r = i_id x /\ r_type r = ty /\ r_node r = j /\
    inds s' = inds s /\ nodes s' = nodes s /\ arr s' = arr s /\ now s' = now s /\ shp s' = shp s.
  Proof.
    intros H. unfold write_br_record in H. jstep H. jstep H.
    unfold log_rec, modify in H. injection H as <-. eexists. split; [reflexivity|]. repeat split; reflexivity.
  Qed.

  (* a record is appended to the log of the event *)
  Lemma JI_log r s s' : JI h s -> Away (r_id r) s -> r_id r <= a_created (arr s) ->
    (forall r1, last_of (r_id r) (h ++ log s) = Some r1 -> link r1 r) ->
    (recs_of (r_id r) (h ++ log s) = [] -> an (r_id r) = Some (r_node r)) ->
    log s' = log s ++ [r] -> shp s' = shp s -> oth (r_id r) s s' -> JI h s'.
  Proof.
    intros HJ Aw Hle Hl Hfst El Es Hi. unfold JI in *. rewrite El, app_assoc.
    pose proof (JH_log _ _ r HJ Aw Hle Hl Hfst) as HJ1. destruct (shp_exit _ _ Es) as [He Hc].
    apply (JH_mono _ s s' HJ1); [intros k y; apply at_shape; exact Es| |exact He|lia].
    intros k y Hk. apply jv_jv3. apply Hi. intros ->. exact (proj1 Aw k (at_shape _ _ _ _ Es Hk)).
  Qed.

  (* ---------- release and the unblocking cascade ---------- *)
  Definition dz (d : Z) : Z := if d =? 0 then -1 else d.

  Lemma release_J : forall f j i d s s',
    WFx [] s -> JI h s -> Lq s -> NoEntry s i ->
    (exists x, find_ind i (inds s) = Some x /\ i_dest x = Some (dz d)) ->
    release cf f j i d s = Ok (tt, s') -> JI h s'.
  Proof.
    induction f as [|f IH]; intros j i d s s' HW HJ HL HN0 Hd H; [discriminate|].
    cbn [release] in H.
    jstep H. jstep H. jstep H. jstep H. jstep H.
    match goal with Hx : find_ind i (inds s) = Some ?xx |- _ => rename xx into x; rename Hx into Hf end.
    match goal with Hx : nthZ (nodes s) (j - 1) = Some ?ndx |- _ => rename ndx into nd; rename Hx into Hn end.
    match goal with Hx : nthZ (n_queues nd) (i_pprio x) = Some ?qq |- _ => rename qq into q; rename Hx into Hq end.
    match goal with Hx : remove_first i q = Some ?qq |- _ => rename qq into q'; rename Hx into Hq' end.
    destruct Hd as (xd & Hxd & Hdest). assert (Exd : xd = x) by congruence. rewrite Exd in Hdest. clear xd Hxd Exd.
    pose proof (WFx_Idx _ _ HW) as I0. pose proof (find_ind_id _ _ _ Hf) as Hidx.
    assert (Hiq : In i q) by (apply (Permutation_in _ (Permutation_sym (remove_first_perm _ _ _ Hq'))); left; reflexivity).
    assert (Hat : bk_at_node s j i).
    { exists nd. split; [exact Hn|]. unfold all_individuals. apply in_concat. exists q. split; [|exact Hiq].
      destruct (nthZ_nat _ _ _ Hq) as (kp & _ & Hk). eapply nth_error_In; eauto. }
    destruct (j_node _ _ HJ j i Hat) as (x0 & Hx0 & Gnode & Glast & Gnrec & Gan).
    assert (Ex0 : x0 = x) by congruence. rewrite Ex0 in *. clear x0 Hx0 Ex0.
    (* the customer leaves its queue *)
    jstep H.
    match goal with E : put_node ?nd' s = Ok (?u, ?sa) |- _ => destruct u; rename sa into s0; rename E into Eput; set (nd1 := nd') in * end.
    destruct (put_facts nd1 nd s s0 j I0 Hn Eput eq_refl) as (Hput & Ei0 & Ea0).
    destruct (put_node_misc _ _ _ _ Eput) as (El0 & Et0 & Ee0 & _ & _).
    assert (Hperm : Permutation (i :: all_individuals nd1) (all_individuals nd)).
    { destruct (nthZ_nat _ _ _ Hq) as (kp & Hkp & Hqk). unfold all_individuals, nd1. cbn. rewrite Hkp, updZ_nat.
      eapply concat_upd_perm_rm; [exact Hqk|]. apply remove_first_perm. exact Hq'. }
    assert (X0 : WFx [i] s0).
    { destruct (nthZ_nat _ _ _ Hn) as (k & Hk & Hnk). pose proof (Idx_get _ _ _ I0 Hn) as Hid.
      assert (Hsh := shp_put_node _ _ _ k nd Eput ltac:(cbn; lia) Hnk).
      unfold WFx. rewrite Hsh. unfold WFx, shp in HW.
      eapply WFsh_rm; [exact HW|rewrite nth_error_map, Hnk; reflexivity|reflexivity|reflexivity|]. cbn. symmetry. exact Hperm. }
    assert (J0 : JI h s0).
    { unfold JI in *. rewrite El0. apply (JH_mono _ s s0 HJ); [|intros k y _; rewrite Ei0; reflexivity|exact Ee0|rewrite Ea0; lia].
      apply (put_node_at nd1 nd s s0 j I0 Hn Eput eq_refl). intros y Hy. apply (Permutation_in _ Hperm). right. exact Hy. }
    assert (R0 : stepR i s s0).
    { split; [exact Et0|]. split; [apply (put_node_bq nd1 nd s s0 j I0 Hn Eput eq_refl eq_refl)|intros y _; rewrite Ei0; reflexivity]. }
    (* its record *)
    jstep H.
    match goal with E : put_ind ?x' s0 = Ok (?u, ?sa) |- _ => destruct u; set (x1 := x') in *; rename sa into s1; rename E into Ep1 end.
    destruct (JI_put_away h i x1 s0 s1 (WFx_away _ _ _ X0) J0 Ep1 Hidx) as (J1 & R1 & El1).
    destruct (put_ind_facts _ _ _ _ Ep1) as (Ei1 & En1 & Ea1 & Es1 & _ & Et1 & _).
    assert (X1 : WFx [i] s1) by (eapply WFx_shape; eauto).
    jstep H.
    match goal with E : write_individual_record cf j x1 s1 = Ok (?u, ?sa) |- _ => destruct u; rename sa into s2; rename E into Ew end.
    destruct (wir_facts _ _ _ _ Ew) as (El2 & Ei2 & En2 & Ea2 & Et2 & Es2).
    assert (X2 : WFx [i] s2) by (eapply WFx_shape; eauto).
    assert (Hlog1 : log s1 = log s) by congruence.
    assert (Hidr : r_id (svc_rec j x1) = i) by exact Hidx.
    assert (O2 : oth i s1 s2).
    { intros y Hy. rewrite Ei2, find_put_other; [reflexivity|]. intros E. apply Hy. rewrite E. exact Hidx. }
    assert (J2 : JI h s2).
    { apply (JI_log (svc_rec j x1) s1 s2 J1); [rewrite Hidr; exact (WFx_away _ _ _ X1)| | | |exact El2|exact Es2|rewrite Hidr; exact O2].
      - rewrite Hidr. exact (WFx_inflight_le _ _ _ X1).
      - rewrite Hidr, Hlog1. intros r1 Hr1. unfold lastok in Glast. rewrite Hr1 in Glast. destruct Glast as (T1 & D1 & E1).
        split; [exact T1|]. split; [exact D1|]. split; [exact E1|reflexivity].
      - rewrite Hidr, Hlog1. exact Gan. }
    assert (R2 : stepR i s1 s2) by (split; [exact Et2|]; split; [apply bqsame_nodes; exact En2|exact O2]).
    assert (Hf2 : find_ind i (inds s2) = Some (x1 <| i_nrec := i_nrec x1 + 1 |>)).
    { rewrite Ei2. rewrite <- Hidx at 1. change (i_id x) with (i_id (x1 <| i_nrec := i_nrec x1 + 1 |>)). apply find_put_same. }
    assert (Hrecs2 : recs_of i (h ++ log s2) = recs_of i (h ++ log s) ++ [svc_rec j x1]).
    { rewrite El2, Hlog1, app_assoc. apply recs_of_snoc_same. exact Hidr. }
    assert (Hlast2 : last_of i (h ++ log s2) = Some (svc_rec j x1)) by (unfold last_of; rewrite Hrecs2; apply last_opt_snoc).
    jstep H.
    (* its server is freed *)
    jstep H.
    match goal with E : (if infb cf j then _ else _) s2 = Ok (?fr, ?sa) |- _ => rename fr into freed; rename sa into s3; rename E into Efree end.
    assert (F3 : WFx [i] s3 /\ JI h s3 /\ stepR i s2 s3 /\ log s3 = log s2 /\ inds s3 = inds s2).
    { revert Efree. destruct (infb cf j); intros Efree.
      - apply ret_spec in Efree as [-> _]. split; [exact X2|]. split; [exact J2|]. split; [apply stepR_refl|auto].
      - jstep Efree. jstep Efree. jstep Efree. jstep Efree. jstep Efree.
        match goal with Hx : nthZ (nodes s2) (j - 1) = Some ?ndx |- _ => rename ndx into nd2; rename Hx into Hn2 end.
        match goal with E : put_node ?nd' s2 = Ok (?u, ?sa) |- _ => destruct u; rename E into Eput2; rename sa into sF end.
        apply ret_spec in Efree as [-> _].
        pose proof (WFx_Idx _ _ X2) as I2.
        destruct (put_node_misc _ _ _ _ Eput2) as (El3 & Et3 & Ee3 & Ei3 & Ea3).
        assert (Es3 : shp sF = shp s2) by (eapply put_node_shape; [exact Eput2|cbn; rewrite (Idx_get _ _ _ I2 Hn2); exact Hn2|reflexivity]).
        split; [eapply WFx_shape; eauto|]. split; [eapply JI_shape; [exact Es3|exact (qj_put_node _ _ _ _ Eput2)|exact J2]|].
        split; [|auto]. split; [exact Et3|]. split; [apply (put_node_bq _ nd2 s2 sF j I2 Hn2 Eput2 eq_refl eq_refl)|intros y _; rewrite Ei3; reflexivity]. }
    destruct F3 as (X3 & J3 & R3 & El3 & Ei3). clear Efree.
    jstep H.
    match goal with Hx : find_ind i (inds s3) = Some ?xx |- _ => rename xx into x2; rename Hx into Hf3 end.
    assert (Hx2 : x2 = x1 <| i_nrec := i_nrec x1 + 1 |>) by (rewrite Ei3, Hf2 in Hf3; congruence).
    jstep H.
    match goal with E : put_ind ?x' s3 = Ok (?u, ?sa) |- _ => destruct u; set (x3 := x') in *; rename sa into s4; rename E into Ep4 end.
    assert (Hid3 : i_id x3 = i) by (exact (find_ind_id _ _ _ Hf3)).
    destruct (JI_put_away h i x3 s3 s4 (WFx_away _ _ _ X3) J3 Ep4 Hid3) as (J4 & R4 & El4).
    assert (X4 : WFx [i] s4) by (eapply WFx_pres; [apply pres_put_ind|exact X3|exact Ep4]).
    (* the freed server takes the next customer *)
    jstep H.
    match goal with E : begin_service_if_possible_release cf j freed s4 = Ok (?u, ?sa) |- _ => destruct u; rename sa into s5; rename E into Eb end.
    destruct (sil_step _ i _ _ _ (presI_bsip_release cf j freed) (bk_k_bsip_release cf j freed) (qj_bsip_release cf j freed) (WFx_Idx _ _ X4) J4 Eb) as (J5 & R5 & El5).
    assert (X5 : WFx [i] s5) by (eapply WFx_presI; [apply presI_bsip_release|exact X4|exact Eb]).
    assert (R05 : stepR i s s5) by (repeat (eapply stepR_trans; [eassumption|]); apply stepR_refl).
    assert (Hlog5 : log s5 = log s2) by congruence.
    assert (Hnow5 : now s5 = now s) by (destruct R05 as (T & _); exact T).
    (* the customer lands *)
    jstep H.
    match goal with E : (if d =? 0 then _ else _) s5 = Ok (?u, ?sa) |- _ => destruct u; rename sa into s6; rename E into EL end.
    assert (L6 : WFx [] s6 /\ JI h s6 /\ stepR i s5 s6).
    { rewrite <- Hid3 in X5. revert EL. unfold dz in Hdest. destruct (d =? 0) eqn:Ed; intros EL.
      - destruct (exit_accept_J x3 true [] s5 s6 X5 J5) as (J6 & R6 & _); [|exact EL|].
        + rewrite Hid3, Hlog5. exists (svc_rec j x1). split; [exact Hlast2|]. left. split; [reflexivity|exact Hdest].
        + split; [eapply exit_accept_spec; eauto|]. rewrite Hid3 in R6. auto.
      - destruct (accept_J d x3 [] s5 s6 X5 J5) as (J6 & R6 & _); [| | |exact EL|].
        + rewrite Hid3, Hlog5, Hlast2. split; [reflexivity|]. split; [exact Hdest|]. rewrite Hnow5. reflexivity.
        + rewrite Hid3, Hlog5, Hrecs2. unfold zlen in *. rewrite app_length, Nat2Z.inj_add, <- Gnrec. subst x3. rewrite Hx2. reflexivity.
        + rewrite Hid3, Hlog5, Hrecs2. intros E0. destruct (recs_of i (h ++ log s)); discriminate E0.
        + split; [eapply accept_spec; eauto|]. rewrite Hid3 in R6. auto. }
    destruct L6 as (X6 & J6 & R6).
    assert (R06 : stepR i s s6) by (eapply stepR_trans; eauto).
    (* release_blocked_individual of node j *)
    jstep H. jstep H.
    match goal with Hx : nthZ (nodes s6) (j - 1) = Some ?ndx |- _ => rename ndx into nd3; rename Hx into Hn3 end.
    match type of H with (if ?c then _ else _) _ = _ => destruct c end; [|apply ret_spec in H as [-> _]; exact J6].
    destruct (n_bq nd3) as [|[from y] rest] eqn:Ebq; [discriminate|].
    jstep H. jstep H.
    match goal with E : (if ?b then ret tt else _) ?sa = Ok (_, ?sb) |- _ =>
      assert (Hsb : sb = sa) by (destruct b; [inversion E; reflexivity|discriminate E]); rewrite Hsb in *; clear E Hsb end.
    jstep H.
    match goal with E : put_node ?nd' s6 = Ok (?u, ?sa) |- _ => destruct u; rename sa into sP; rename E into Eput7 end.
    pose proof (WFx_Idx _ _ X6) as I6.
    destruct (put_facts _ nd3 s6 sP j I6 Hn3 Eput7 eq_refl) as (Hput7 & Ei7 & Ea7).
    assert (Es7 : shp sP = shp s6) by (eapply put_node_shape; [exact Eput7|cbn; rewrite (Idx_get _ _ _ I6 Hn3); exact Hn3|reflexivity]).
    assert (L6 : Lq s6) by (destruct R06 as (_ & B6 & O6); exact (Lq_step i s s6 HL HN0 B6 O6)).
    assert (He : entry s6 j from y) by (exists nd3; rewrite Ebq; split; [exact Hn3|left; reflexivity]).
    destruct (l_ent _ L6 j from y He) as (xy & Hxy & Hdy).
    eapply IH; [eapply WFx_shape; [exact Es7|exact X6]|eapply JI_shape; [exact Es7|exact (qj_put_node _ _ _ _ Eput7)|exact J6]| | | |exact H].
    - constructor.
      + intros d' fr y' (n & Hnn & Hin). rewrite Ei7. apply (l_ent _ L6 d' fr y'). rewrite Hput7 in Hnn. destruct (Z.eqb_spec d' j) as [->|Hne].
        * injection Hnn as <-. cbn in Hin. exists nd3. split; [exact Hn3|rewrite Ebq; right; exact Hin].
        * exists n. auto.
      + intros d' n Hnn. rewrite Hput7 in Hnn. destruct (Z.eqb_spec d' j) as [->|Hne].
        * injection Hnn as <-. cbn. pose proof (l_nd _ L6 j nd3 Hn3) as Hnd. rewrite Ebq in Hnd. cbn in Hnd. apply NoDup_cons_iff in Hnd as [_ Hnd]. exact Hnd.
        * exact (l_nd _ L6 d' n Hnn).
    - intros d' fr (n & Hnn & Hin). rewrite Hput7 in Hnn. destruct (Z.eqb_spec d' j) as [->|Hne].
      + injection Hnn as <-. cbn in Hin. pose proof (l_nd _ L6 j nd3 Hn3) as Hnd. rewrite Ebq in Hnd. cbn in Hnd.
        apply NoDup_cons_iff in Hnd as [Hnd _]. apply Hnd. apply in_map_iff. exists (fr, y). auto.
      + destruct (l_ent _ L6 d' fr y (ex_intro _ n (conj Hnn Hin))) as (xy' & Hxy' & Hdy'). congruence.
    - exists xy. rewrite Ei7. split; [exact Hxy|]. unfold dz. destruct (Z.eqb_spec j 0) as [Hj0|_]; [|exact Hdy].
      exfalso. rewrite Hj0 in Hn3. unfold nthZ in Hn3. cbn in Hn3. discriminate Hn3.
  Qed.

  (* ---------- helpers for the steps that touch neither nodes nor customers ---------- *)
  Lemma quiet_step {A} (m : M A) s a s' : quiet m -> qj m -> JI h s -> m s = Ok (a, s') ->
    JI h s' /\ inds s' = inds s /\ nodes s' = nodes s /\ shp s' = shp s /\ log s' = log s.
  Proof.
    intros Q1 Q2 HJ H. destruct (Q1 _ _ _ H) as (Ei & En & Ec & Ee & Ex).
    assert (Es : shp s' = shp s) by (unfold shp; rewrite En, Ec, Ee, Ex; reflexivity).
    split; [eapply JI_shape; [exact Es|exact (Q2 _ _ _ H)|exact HJ]|]. destruct (Q2 _ _ _ H) as (_ & El & _). auto.
  Qed.

  Lemma JI_put_same i x x' s s' : find_ind i (inds s) = Some x -> i_id x' = i -> jv3 x' = jv3 x ->
    put_ind x' s = Ok (tt, s') -> JI h s -> JI h s'.
  Proof.
    intros Hx Hid Hv H HJ. destruct (put_ind_facts _ _ _ _ H) as (Ei & En & Ea & Es & El & Et & Ee).
    unfold JI in *. rewrite El. apply (JH_mono _ s s' HJ); [intros k y; apply at_shape; exact Es| |exact Ee|rewrite Ea; lia].
    intros k y _. rewrite Ei. destruct (Z.eq_dec y i) as [->|Hne].
    - rewrite Hx. rewrite <- Hid. rewrite find_put_same. cbn. rewrite Hv. reflexivity.
    - rewrite find_put_other by congruence. reflexivity.
  Qed.

  (* ---------- finish_service ---------- *)
  Lemma finish_service_J j s s' : Who cf s -> JI h s -> finish_service cf j s = Ok (tt, s') -> JI h s'.
  Proof.
    intros [[HW HWw] HN1] HJ H. unfold finish_service in H.
    jstep H.
    match goal with Hx : nthZ (nodes s) (j - 1) = Some ?ndx |- _ => rename ndx into nd; rename Hx into Hn end.
    jstep H.
    match goal with E : _ s = Ok (?ii, ?sa) |- _ => rename ii into i; rename sa into sA; rename E into Epick end.
    pose proof (pick_In _ _ _ _ Epick) as Hi.
    destruct (HN1 j nd i Hn Hi) as (Hin & x0 & Hx0 & Hb0).
    assert (N0 : NoEntry s i) by (eapply N0_unblocked; eauto).
    match type of Epick with ?m s = _ =>
      assert (Hq : quiet m) by (repeat first [apply q_choice_uniform | bk_q_step]);
      assert (Hq2 : qj m) by (repeat first [apply qj_choice_uniform | qj_step]) end.
    destruct (quiet_step _ _ _ _ Hq Hq2 HJ Epick) as (JA & EiA & EnA & EsA & _). clear Epick Hq Hq2.
    jstep H.
    match goal with Hx : find_ind i (inds sA) = Some ?xx |- _ => rename xx into x; rename Hx into Hf end.
    assert (Exx : x = x0) by (rewrite EiA in Hf; congruence). rewrite Exx in *. clear x Exx.
    jstep H.
    (* change_customer_class *)
    jstep H.
    match goal with E : _ sA = Ok (?xx, ?sa) |- _ => rename xx into x1; rename sa into sB; rename E into Ecc end.
    assert (CB : JI h sB /\ inds sB = inds sA /\ nodes sB = nodes sA /\ shp sB = shp sA /\ i_id x1 = i /\ jv3 x1 = jv3 x0).
    { pose proof (find_ind_id _ _ _ Hf) as Hid0. revert Ecc.
      match goal with |- match nc_ccm ?ncx with _ => _ end _ = _ -> _ => destruct (nc_ccm ncx) as [m|]; intros Ecc end.
      - jstep Ecc. jstep Ecc.
        match goal with E : choice_weighted _ _ sA = Ok (_, ?sa) |- _ =>
          destruct (quiet_step _ _ _ _ (q_choice_weighted _ _) (qj_choice_weighted _ _) JA E) as (JB & A1 & A2 & A3 & _) end.
        jstep Ecc. apply ret_spec in Ecc as [-> ->].
        split; [exact JB|]. split; [exact A1|]. split; [exact A2|]. split; [exact A3|]. split; [exact Hid0|reflexivity].
      - apply ret_spec in Ecc as [-> ->].
        split; [exact JA|]. split; [reflexivity|]. split; [reflexivity|]. split; [reflexivity|]. split; [exact Hid0|reflexivity]. }
    destruct CB as (JB & EiB & EnB & EsB & Hid1 & Hv1). clear Ecc.
    jstep H. jstep H.
    jstep H.
    match goal with E : choice_weighted _ _ sB = Ok (?kk, ?sa) |- _ =>
      destruct (quiet_step _ _ _ _ (q_choice_weighted _ _) (qj_choice_weighted _ _) JB E) as (JC & EiC & EnC & EsC & _);
      rename kk into k; rename sa into sC; clear E end.
    match type of H with context [if Nat.ltb k (length ?row) then ?u else ?v] => set (D := if Nat.ltb k (length row) then u else v) in * end.
    (* the destination is recorded *)
    jstep H.
    match goal with E : put_ind ?x' sC = Ok (?u, ?sa) |- _ => destruct u; set (x2 := x') in *; rename sa into sD; rename E into Eput end.
    assert (HfC : find_ind i (inds sC) = Some x0) by (rewrite EiC, EiB; exact Hf).
    assert (JD : JI h sD) by (apply (JI_put_same i x0 x2 sC sD HfC Hid1 Hv1 Eput JC)).
    destruct (put_ind_facts _ _ _ _ Eput) as (EiD & EnD & EaD & EsD & ElD & EtD & EeD).
    assert (HfD : find_ind i (inds sD) = Some x2) by (rewrite EiD; rewrite <- Hid1 at 1; change (i_id x1) with (i_id x2); apply find_put_same).
    assert (WD : WFx [] sD) by (eapply WFx_shape; [|exact HW]; congruence).
    jstep H.
    (* the server's end-of-service date is erased *)
    jstep H.
    match goal with E : (if infb cf j then _ else _) sD = Ok (?u, ?sa) |- _ => destruct u; rename sa into sE; rename E into Esv end.
    assert (EE : WFx [] sE /\ JI h sE /\ inds sE = inds sD /\ bqsame sD sE).
    { revert Esv. destruct (infb cf j); intros Esv.
      - apply ret_spec in Esv as [-> _]. split; [exact WD|]. split; [exact JD|]. split; [reflexivity|intros k0; reflexivity].
      - jstep Esv. jstep Esv. jstep Esv.
        match goal with Hx : nthZ (nodes sD) (j - 1) = Some ?ndx |- _ => rename ndx into ndD; rename Hx into HnD end.
        pose proof (WFx_Idx _ _ WD) as ID.
        destruct (put_node_misc _ _ _ _ Esv) as (El & Et & Ee & Ei & Ea).
        assert (Es : shp sE = shp sD) by (eapply put_node_shape; [exact Esv|cbn; rewrite (Idx_get _ _ _ ID HnD); exact HnD|reflexivity]).
        split; [eapply WFx_shape; eauto|]. split; [eapply JI_shape; [exact Es|exact (qj_put_node _ _ _ _ Esv)|exact JD]|]. split; [exact Ei|].
        apply (put_node_bq _ ndD sD sE j ID HnD Esv eq_refl eq_refl). }
    destruct EE as (WE & JE & EiE & BqE). clear Esv.
    assert (Bq : bqsame s sE) by (intros k0; rewrite BqE; unfold nodeZ; rewrite EnD, EnC, EnB, EnA; reflexivity).
    assert (Ot : oth i s sE).
    { intros y Hy. rewrite EiE, EiD, EiC, EiB, EiA. rewrite find_put_other; [reflexivity|]. change (i_id x2) with (i_id x1). congruence. }
    (* is there space at the destination? *)
    jstep H.
    match goal with E : (if D =? 0 then ret true else _) sE = Ok (?sp, ?sb) |- _ =>
      assert (Hsp : sb = sE) by (revert E; destruct (D =? 0); intros E; [apply ret_spec in E as [-> _]; reflexivity|jstep E; jstep E; apply ret_spec in E as [-> _]; reflexivity]);
      rewrite Hsp in *; clear E Hsp end.
    match type of H with (if ?sp then _ else _) _ = _ => destruct sp end.
    - jstep H. eapply release_J; [exact WE|exact JE|exact (Lq_step i s sE (Lq_of_Wh _ _ _ HWw) N0 Bq Ot)|exact (N0_bqsame _ _ _ Bq N0)| |exact H].
      exists x2. rewrite EiE. split; [exact HfD|reflexivity].
    - eapply JI_shape; [exact (presI_block_individual j i D sE tt s' (WFx_Idx _ _ WE) H)|exact (qj_block_individual j i D _ _ _ H)|exact JE].
  Qed.

  (* ---------- the arrival node: a fresh customer is rejected, baulks, or enters its first node ---------- *)
  Lemma release_individual_J j x fl s s' : WFx (i_id x :: fl) s -> JI h s ->
    recs_of (i_id x) (h ++ log s) = [] -> i_nrec x = 0 -> an (i_id x) = Some j ->
    release_individual cf j x s = Ok (tt, s') -> JI h s'.
  Proof.
    intros HW HJ Hfresh Hnrec Han H. unfold release_individual in H.
    jstep H. jstep H. jstep H.
    try match goal with E : sys_population ?sa = Ok (_, ?sb) |- _ =>
      assert (Hsb : sb = sa) by (unfold sys_population, bind, gets, ret in E; inversion E; reflexivity); rewrite Hsb in *; clear E Hsb end.
    jstep H.
    match goal with E : put_ind x s = Ok (?u, ?sa) |- _ => destruct u; rename sa into s1; rename E into Ep end.
    destruct (JI_put_away h (i_id x) x s s1 (WFx_away _ _ _ HW) HJ Ep eq_refl) as (J1 & R1 & El1).
    destruct (put_ind_facts _ _ _ _ Ep) as (Ei1 & En1 & Ea1 & Es1 & _ & Et1 & _).
    assert (X1 : WFx (i_id x :: fl) s1) by (eapply WFx_shape; eauto).
    (* a baulk / rejection record, then the exit *)
    assert (Hbr : forall ty sa sb sc, (ty = 3 \/ ty = 4) -> WFx (i_id x :: fl) sa -> JI h sa -> log sa = log s ->
              write_br_record j x ty sa = Ok (tt, sb) -> exit_accept x false sb = Ok (tt, sc) -> JI h sc).
    { intros ty sa sb sc Hty Xa Ja Ela Ew Ex.
      destruct (wbr_facts _ _ _ _ _ Ew) as (r & Elb & Hrid & Hrty & Hrnd & Eib & Enb & Eab & Etb & Esb).
      assert (Hrecs : recs_of (i_id x) (h ++ log sa) = []) by (rewrite Ela; exact Hfresh).
      assert (Jb : JI h sb).
      { apply (JI_log r sa sb Ja); [rewrite Hrid; exact (WFx_away _ _ _ Xa)|rewrite Hrid; exact (WFx_inflight_le _ _ _ Xa)| | |exact Elb|exact Esb|intros y _; rewrite Eib; reflexivity].
        - rewrite Hrid. unfold last_of. rewrite Hrecs. discriminate.
        - rewrite Hrid, Hrnd. intros _. exact Han. }
      assert (Xb : WFx (i_id x :: fl) sb) by (eapply WFx_shape; eauto).
      destruct (exit_accept_J x false fl sb sc Xb Jb) as (Jc & _); [|exact Ex|exact Jc].
      exists r. unfold last_of. rewrite Elb, app_assoc, (recs_of_snoc_same _ _ _ Hrid), Hrecs. split; [reflexivity|]. right. rewrite Hrty. exact Hty. }
    (* or the customer is accepted by its first node *)
    assert (Hacc : forall sa sc, WFx (i_id x :: fl) sa -> JI h sa -> log sa = log s ->
              (modify (fun s0 => s0 <| arr := arr s0 <| a_accepted := a_accepted (arr s0) + 1 |> |>) ;;; accept cf j x) sa = Ok (tt, sc) -> JI h sc).
    { intros sa sc Xa Ja Ela Hm. jstep Hm.
      match goal with E : modify ?f sa = Ok (_, ?sb) |- _ =>
        assert (Q1 : quiet (modify f)) by (apply quiet_modify; intros ?; repeat split; reflexivity);
        assert (Q2 : qj (modify f)) by (apply qj_modify; intros ?; repeat split; reflexivity);
        destruct (quiet_step _ _ _ _ Q1 Q2 Ja E) as (JM & EiM & EnM & EsM & ElM); rename sb into sM end.
      destruct (accept_J j x fl sM sc) as (Jb & _); [eapply WFx_shape; [exact EsM|exact Xa]|exact JM| | | |exact Hm|exact Jb].
      - rewrite ElM, Ela. unfold last_of. rewrite Hfresh. exact I.
      - rewrite ElM, Ela, Hfresh. exact Hnrec.
      - intros _. exact Han. }
    match type of H with (if ?b then _ else _) _ = _ => destruct b end.
    - jstep H. match goal with E : write_br_record j x ?ty ?sa = Ok (?u, ?sb) |- _ => destruct u; exact (Hbr ty sa sb s' ltac:(auto) X1 J1 El1 E H) end.
    - jstep H. jstep H.
      match type of H with (match ?t with _ => _ end) _ = _ => destruct t as [tb|] end.
      + jstep H.
        match goal with E : draw_unif s1 = Ok (_, ?sa) |- _ =>
          destruct (quiet_step _ _ _ _ quiet_draw_unif qj_draw_unif J1 E) as (JU & EiU & EnU & EsU & ElU); rename sa into sU; clear E end.
        assert (XU : WFx (i_id x :: fl) sU) by (eapply WFx_shape; eauto).
        match type of H with (if ?b then _ else _) _ = _ => destruct b end.
        * jstep H. match goal with E : write_br_record j x ?ty ?sa = Ok (?u, ?sb) |- _ => destruct u; exact (Hbr ty sa sb s' ltac:(auto) XU JU ltac:(congruence) E H) end.
        * eapply Hacc; [exact XU|exact JU|congruence|exact H].
      + eapply Hacc; [exact X1|exact J1|exact El1|exact H].
  Qed.

  Lemma batch_loop_J : forall n j c p s s', WFx [] s -> JI h s -> (forall i, a_created (arr s) < i -> an i = Some j) ->
    batch_loop cf n j c p s = Ok (tt, s') -> JI h s'.
  Proof.
    induction n as [|n IH]; intros j c p s s' HW HJ Han H; cbn [batch_loop] in H; [apply ret_spec in H as [-> _]; exact HJ|].
    jstep H.
    match goal with E : modify _ s = Ok (_, ?sa) |- _ => apply modify_spec in E; rename sa into s0; rename E into E0 end.
    assert (W1 : WFx [a_created (arr s) + 1] s0) by (rewrite E0; unfold WFx, shp in *; cbn; apply WFsh_spawn; exact HW).
    assert (Ec : a_created (arr s0) = a_created (arr s) + 1) by (rewrite E0; reflexivity).
    assert (El0 : log s0 = log s) by (rewrite E0; reflexivity).
    assert (J0 : JI h s0).
    { unfold JI in *. rewrite El0. apply (JH_mono _ s s0 HJ); [| |rewrite E0; reflexivity|lia].
      - intros k y Hk. rewrite E0 in Hk. exact Hk.
      - intros k y _. rewrite E0. reflexivity. }
    jstep H.
    jstep H.
    match goal with E : release_individual cf j ?x s0 = Ok (?u, ?sa) |- _ => destruct u; rename sa into s1; rename E into Er end.
    rewrite Ec in Er.
    assert (J1 : JI h s1).
    { apply (release_individual_J j (new_ind (a_created (arr s) + 1) c p) [] s0 s1 W1 J0); [|reflexivity| |exact Er].
      - cbn [new_ind i_id]. rewrite El0. apply recs_of_none. intros r Hr. pose proof (j_ids _ _ HJ r Hr). lia.
      - cbn [new_ind i_id]. apply Han. lia. }
    assert (W2 : WFx [] s1) by (eapply release_individual_spec; [|exact Er]; exact W1).
    assert (Ec1 : a_created (arr s) <= a_created (arr s1)).
    { destruct (g_release_individual cf j _ _ _ _ Er) as [_ Hle]. lia. }
    eapply IH; [exact W2|exact J1| |exact H]. intros i Hi. apply Han. lia.
  Qed.

  Lemma arrival_have_event_J s s' : WFx [] s -> JI h s -> (forall i, a_created (arr s) < i -> an i = Some (a_next_node (arr s))) ->
    arrival_have_event cf s = Ok (tt, s') -> JI h s'.
  Proof.
    intros HW HJ Han H. unfold arrival_have_event in H.
    jstep H.
    jstep H.
    match goal with E : draw_batch s = Ok (_, ?sa) |- _ =>
      destruct (quiet_step _ _ _ _ quiet_draw_batch qj_draw_batch HJ E) as (J1 & _ & _ & Es1 & _); rename sa into s1; clear E end.
    assert (W1 : WFx [] s1) by (eapply WFx_shape; eauto).
    jstep H.
    match goal with E : (if ?b then _ else _) ?s0 = Ok (_, ?sb) |- _ =>
      assert (Hsb : sb = s0) by (destruct b; [discriminate E|apply ret_spec in E as [-> _]; reflexivity]); rewrite Hsb in *; clear E Hsb end.
    jstep H.
    jstep H.
    match goal with E : batch_loop cf _ _ _ _ s1 = Ok (?u, ?sa) |- _ =>
      destruct u; rename sa into s2; rename E into Eb end.
    assert (J2 : JI h s2).
    { eapply (batch_loop_J _ _ _ _ _ _ W1 J1); [|exact Eb]. intros i Hi. apply Han. destruct (shp_exit _ _ Es1) as [_ Ec1]. lia. }
    pose proof (batch_loop_spec cf _ _ _ _ _ _ W1 Eb) as W2. clear Eb.
    jstep H.
    match goal with E : draw_arr s2 = Ok (_, ?sa) |- _ =>
      destruct (quiet_step _ _ _ _ quiet_draw_arr qj_draw_arr J2 E) as (J3 & _ & _ & Es3 & _); rename sa into s3; clear E end.
    jstep H. jstep H. jstep H.
    jstep H.
    match goal with E : modify ?f s3 = Ok (_, ?sa) |- _ =>
      assert (Q1 : quiet (modify f)) by (apply quiet_modify; intros ?; repeat split; reflexivity);
      assert (Q2 : qj (modify f)) by (apply qj_modify; intros ?; repeat split; reflexivity);
      destruct (quiet_step _ _ _ _ Q1 Q2 J3 E) as (J4 & _); rename sa into s4; clear E end.
    exact (proj1 (quiet_step _ _ _ _ q_find_next_event_date qj_find_next_event_date J4 H)).
  Qed.

  (* ---------- one event ---------- *)
  Lemma fnan_log s u s' : find_next_active_node s = Ok (u, s') -> log s' = log s.
  Proof.
    unfold find_next_active_node. intros H. jstep H.
    destruct (scan_active 0 (a_next_date (arr s) :: map n_next_date (nodes s)) None [] true) as [d cands].
    jstep H.
    match goal with E : ?m s = Ok (_, ?sa) |- _ =>
      assert (Q2 : qj m) by (repeat first [apply qj_choice_uniform | qj_step]); destruct (Q2 _ _ _ E) as (_ & El & _) end.
    unfold modify in H. inversion H. cbn. exact El.
  Qed.

  Lemma event_step_JI s s' : Who cf s -> JH h s ->
    (next_active s = 0 -> forall i, a_created (arr s) < i -> an i = Some (a_next_node (arr s))) ->
    event_step cf s = Ok (tt, s') -> JI h s'.
  Proof.
    intros HWho HJ Han H. unfold event_step in H.
    jstep H.
    match goal with E : modify _ s = Ok (_, ?sa) |- _ => apply modify_spec in E; rename sa into s0; rename E into E0 end.
    assert (HW0 : Who cf s0).
    { destruct HWho as [HQ HN1]. rewrite E0. split; [eapply Q_same; [| | | | |exact HQ]; reflexivity|eapply N1_same; [| |exact HN1]; reflexivity]. }
    assert (J0 : JI h s0).
    { unfold JI. rewrite E0. cbn [log]. rewrite app_nil_r. apply (JH_mono _ s _ HJ); [intros k y Hk; exact Hk|intros; reflexivity|reflexivity|cbn; lia]. }
    jstep H.
    jstep H.
    match goal with E : (if ?b then _ else _) s0 = Ok (?u, ?sa) |- _ =>
      destruct u;
      assert (J1 : JI h sa) by (destruct b eqn:Eb; [eapply arrival_have_event_J; [exact (proj1 (proj1 HW0))|exact J0|rewrite E0; apply Han; apply Z.eqb_eq in Eb; rewrite E0 in Eb; exact Eb|exact E]|eapply finish_service_J; eauto]);
      assert (W1 : WFx [] sa) by (destruct b; [eapply arrival_have_event_spec; [exact (proj1 (proj1 HW0))|exact E]|eapply finish_service_spec; [exact (proj1 (proj1 HW0))|exact E]]);
      rename sa into s1; clear E end.
    jstep H.
    jstep H.
    match goal with E : update_all cf _ s1 = Ok (?u, ?sa) |- _ =>
      destruct u; destruct (sil_step _ 0 _ _ _ (presI_update_all cf _) (bk_k_update_all cf _) (qj_update_all cf _) (WFx_Idx _ _ W1) J1 E) as (J2 & _ & _);
      pose proof (presI_update_all cf _ _ _ _ (WFx_Idx _ _ W1) E) as Es2; rename sa into s2; clear E end.
    destruct (q_find_next_active_node _ _ _ H) as (Ei & En & Ec & Ee & Ex). pose proof (fnan_log _ _ _ H) as El.
    unfold JI in *. rewrite El. apply (JH_mono _ s2 s' J2); [| |exact Ee|lia].
    - intros k y (nd & Hn & Hin). exists nd. unfold nodeZ in *. rewrite <- En. auto.
    - intros k y _. rewrite Ei. reflexivity.
  Qed.
End Walk.
End Ghost.

(* ====================================================================================================================
   4. The theorems
   ==================================================================================================================== *)
(* the invariant at event boundaries: Blocking.Who (conservation, who is blocked where, who may finish next) and the
   journey invariant for the history h and the arrival nodes an *)
Definition Jrn (cf : config) (an : Z -> option Z) (s : sim) (h : list rec) : Prop := Who cf s /\ JH an h s.

(* how the ghost is read off the run: the customers created by an arrival event (next_active = 0) of state s are those
   with an identifier above the creation counter of s, and they arrive at the node the arrival node had chosen *)
Definition an_step (s : sim) (an : Z -> option Z) : Z -> option Z :=
  fun i => if (next_active s =? 0) && (a_created (arr s) <? i) then Some (a_next_node (arr s)) else an i.
Lemma an_step_old s an i : i <= a_created (arr s) -> an_step s an i = an i.
Proof. intros H. unfold an_step. destruct (a_created (arr s) <? i) eqn:E; [apply Z.ltb_lt in E; lia|]. rewrite andb_false_r. reflexivity. Qed.
Lemma an_step_new s an i : next_active s = 0 -> a_created (arr s) < i -> an_step s an i = Some (a_next_node (arr s)).
Proof. intros H0 H. unfold an_step. rewrite H0. apply Z.ltb_lt in H. rewrite H. reflexivity. Qed.
Lemma an_step_service s an i : next_active s <> 0 -> an_step s an i = an i.
Proof. intros H0. unfold an_step. apply Z.eqb_neq in H0. rewrite H0. reflexivity. Qed.

(* the invariant only looks at the ghost of customers that exist *)
Lemma JH_an_ext cf an an' H s : Who cf s -> (forall i, i <= a_created (arr s) -> an' i = an i) -> JH an H s -> JH an' H s.
Proof.
  intros [[HW HWw] _] He [A B C F D]. constructor.
  - intros k i Hk. destruct (A k i Hk) as (x & Hx & Gn & Gl & Gc & Ga). exists x. split; [exact Hx|].
    split; [exact Gn|]. split; [exact Gl|]. split; [exact Gc|]. intros E. rewrite He; [exact (Ga E)|].
    pose proof (w_le _ _ _ HWw x (find_In _ _ _ Hx)) as Hle. rewrite (find_ind_id _ _ _ Hx) in Hle. exact Hle.
  - exact B.
  - exact C.
  - intros i r l E. rewrite He; [exact (F i r l E)|].
    assert (Hin : In r (recs_of i H)) by (rewrite E; left; reflexivity). apply recs_of_In in Hin as [Hin <-]. exact (D r Hin).
  - exact D.
Qed.

(* T2 for C03, one event: the history is extended by the records of the event *)
Theorem event_step_jrn cf an s s' h : Jrn cf an s h -> event_step cf s = Ok (tt, s') -> Jrn cf (an_step s an) s' (h ++ log s').
Proof.
  intros [A B] H. split; [eapply event_step_who; eauto|].
  apply (event_step_JI (an_step s an) cf h s s' A); [|intros H0 i Hi; apply an_step_new; assumption|exact H].
  apply (JH_an_ext cf an _ _ _ A); [|exact B]. intros i Hi. apply an_step_old. exact Hi.
Qed.

(* any number of events, each with its own draws, accumulating the history (and the ghost) *)
Fixpoint run_hist (cf : config) (s : sim) (h : list rec) (an : Z -> option Z) (ds : list draws) : res (sim * list rec * (Z -> option Z)) :=
  match ds with
  | [] => Ok (s, h, an)
  | d :: r => match event_step cf (s <| dr := d |>) with
              | Ok (_, s1) => run_hist cf s1 (h ++ log s1) (an_step s an) r
              | Err e => Err e
              | OutOfFuel => OutOfFuel
              end
  end.

Lemma run_hist_many cf : forall ds s h an s' h' an', run_hist cf s h an ds = Ok (s', h', an') -> run_many cf s ds = Ok s'.
Proof.
  induction ds as [|d r IH]; intros s h an s' h' an' H; cbn [run_hist run_many] in *; [inversion H; reflexivity|].
  destruct (event_step cf (s <| dr := d |>)) as [[u s1]| |]; try discriminate. eapply IH; eauto.
Qed.
Lemma run_many_hist cf : forall ds s h an s', run_many cf s ds = Ok s' -> exists h' an', run_hist cf s h an ds = Ok (s', h', an').
Proof.
  induction ds as [|d r IH]; intros s h an s' H; cbn [run_hist run_many] in *; [inversion H; eauto|].
  destruct (event_step cf (s <| dr := d |>)) as [[u s1]| |]; try discriminate. eapply IH; eauto.
Qed.
Lemma run_hist_grows cf : forall ds s h an s' h' an', run_hist cf s h an ds = Ok (s', h', an') -> exists t, h' = h ++ t.
Proof.
  induction ds as [|d r IH]; intros s h an s' h' an' H; cbn [run_hist] in *; [inversion H; exists []; rewrite app_nil_r; reflexivity|].
  destruct (event_step cf (s <| dr := d |>)) as [[u s1]| |]; try discriminate.
  destruct (IH _ _ _ _ _ _ H) as [t ->]. exists (log s1 ++ t). rewrite app_assoc. reflexivity.
Qed.

Lemma Jrn_dr cf an s h d : Jrn cf an s h -> Jrn cf an (s <| dr := d |>) h.
Proof.
  intros [[HQ HN1] HJ]. split; [split; [eapply Q_same; [| | | | |exact HQ]; reflexivity|eapply N1_same; [| |exact HN1]; reflexivity]|].
  apply (JH_mono _ _ s _ HJ); [intros k y Hk; exact Hk|intros; reflexivity|reflexivity|cbn; lia].
Qed.

Theorem run_hist_jrn cf : forall ds s h an s' h' an', Jrn cf an s h -> run_hist cf s h an ds = Ok (s', h', an') -> Jrn cf an' s' h'.
Proof.
  induction ds as [|d r IH]; intros s h an s' h' an' HJ H; cbn [run_hist] in H; [injection H as <- <- <-; exact HJ|].
  destruct (event_step cf (s <| dr := d |>)) as [[u s1]| |] eqn:E; try discriminate. destruct u.
  eapply IH; [|exact H]. exact (event_step_jrn cf an _ s1 h (Jrn_dr _ _ _ _ d HJ) E).
Qed.
(* the same for Codec.run_many: the final state satisfies the invariant for the accumulated history *)
Theorem run_many_jrn cf ds s h an s' : Jrn cf an s h -> run_many cf s ds = Ok s' ->
  exists h' an', run_hist cf s h an ds = Ok (s', h', an') /\ Jrn cf an' s' h' /\ exists t, h' = h ++ t.
Proof.
  intros HJ H. destruct (run_many_hist cf ds s h an s' H) as (h' & an' & Hh). exists h', an'. split; [exact Hh|].
  split; [eapply run_hist_jrn; eauto|eapply run_hist_grows; eauto].
Qed.

(* ---------- in the words of the property ---------- *)
Theorem Jrn_means cf an s h : Jrn cf an s h ->
  (* (0) the first record of a customer is at the node where it arrived *)
  (forall i r l, recs_of i h = r :: l -> an i = Some (r_node r)) /\
  (* (1) the records of one customer, in order, are one connected journey: a record that has a successor is a service
         record, names the node of the next record as destination and ends when the next one begins; the successor is a
         service record too *)
  (forall i l1 r1 r2 l2, recs_of i h = l1 ++ r1 :: r2 :: l2 ->
     r_type r1 = 0 /\ r_type r2 = 0 /\ r_dest r1 = Some (r_node r2) /\ r_exit r1 = r_arr r2) /\
  (* (2) a baulk / rejection record (anything that is not a service record) is its customer's only record *)
  (forall r, In r h -> r_type r <> 0 -> recs_of (r_id r) h = [r]) /\
  (* (3) a customer in node k+1 is recorded there; either it has no record yet and k+1 is where it arrived, or its last
         record is a service record that names k+1 as destination and ended at the customer's arrival date here; it
         has as many records as it has completed visits (its own counter) *)
  (forall k nd i, nth_error (nodes s) k = Some nd -> In i (all_individuals nd) ->
     exists x, find_ind i (inds s) = Some x /\ i_node x = Some (Z.of_nat k + 1) /\ i_nrec x = zlen (recs_of i h) /\
       ((recs_of i h = [] /\ an i = Some (Z.of_nat k + 1)) \/
        exists l r, recs_of i h = l ++ [r] /\ r_type r = 0 /\ r_dest r = Some (Z.of_nat k + 1) /\ r_exit r = i_arr x)) /\
  (* (4) a customer is at the exit exactly when its last record names destination -1 or is a baulk / rejection record *)
  (forall i, 1 <= i <= a_created (arr s) ->
     (In i (exit_ids s) <-> exists l r, recs_of i h = l ++ [r] /\ (r_dest r = Some (-1) \/ r_type r <> 0))) /\
  (* (5) records only name customers that exist *)
  (forall r, In r h -> r_id r <= a_created (arr s)).
Proof.
  intros [[[HW HWw] _] [A B C F D]].
  assert (P3 : forall k nd i, nth_error (nodes s) k = Some nd -> In i (all_individuals nd) ->
     exists x, find_ind i (inds s) = Some x /\ i_node x = Some (Z.of_nat k + 1) /\ i_nrec x = zlen (recs_of i h) /\
       ((recs_of i h = [] /\ an i = Some (Z.of_nat k + 1)) \/
        exists l r, recs_of i h = l ++ [r] /\ r_type r = 0 /\ r_dest r = Some (Z.of_nat k + 1) /\ r_exit r = i_arr x)).
  { intros k nd i Hk Hin. destruct (A (Z.of_nat k + 1) i) as (x & Hx & Gn & Gl & Gc & Ga); [exists nd; rewrite nodeZ_of_nat; auto|].
    exists x. split; [exact Hx|]. split; [exact Gn|]. split; [exact Gc|].
    unfold last_of in Gl. destruct (last_opt (recs_of i h)) as [r|] eqn:El.
    - right. destruct (last_opt_split _ _ El) as [l Hl]. exists l, r. split; [exact Hl|exact Gl].
    - left. apply last_opt_None in El. auto. }
  split; [exact F|]. split; [|split; [|split; [exact P3|split; [|exact D]]]].
  - intros i l1 r1 r2 l2 E. pose proof (C i) as Hc. rewrite E in Hc. apply chain_mid in Hc. destruct Hc as (T1 & D1 & E1 & T2). auto.
  - intros r Hr Hty. apply (chain_only _ r (C (r_id r))); [apply recs_of_In; auto|exact Hty].
  - intros i Hi. split.
    + intros Hin. destruct (B i Hin) as (r & Hl & Ht). destruct (last_opt_split _ _ Hl) as [l El]. exists l, r. split; [exact El|].
      destruct Ht as [[_ Hd]|[Ht|Ht]]; [left; exact Hd|right; lia|right; lia].
    + intros (l & r & El & Hr).
      destruct (WFx_means _ HW) as (HP & _).
      assert (Hin : In i (ids_of s)) by (eapply Permutation_in; [symmetry; exact HP|]; apply zseq_In; lia).
      unfold ids_of in Hin. apply in_app_or in Hin as [Hin|Hin]; [exfalso|exact Hin].
      apply in_concat in Hin as (q & Hq & Hiq). apply in_map_iff in Hq as (nd & <- & Hnd).
      apply In_nth_error in Hnd as (k & Hk).
      destruct (P3 k nd i Hk Hiq) as (x & _ & _ & _ & [[E0 _]|(l' & r' & El' & T' & D' & _)]).
      * rewrite E0 in El. destruct l; discriminate El.
      * rewrite El in El'. apply app_inj_tail in El' as [_ <-]. destruct Hr as [Hr|Hr]; [|exact (Hr T')].
        rewrite Hr in D'. injection D' as D'. lia.
Qed.

(* ---------- an executable test of the invariant ---------- *)
Definition ozeqb (a b : option Z) : bool :=
  match a, b with Some x, Some y => x =? y | None, None => true | _, _ => false end.
Lemma ozeqb_eq a b : ozeqb a b = true -> a = b.
Proof. destruct a, b; cbn; intros H; try discriminate; [apply Z.eqb_eq in H; congruence|reflexivity]. Qed.
Definition lastok_b (k : Z) (a : option Z) (o : option rec) : bool :=
  match o with None => true | Some r => (r_type r =? 0) && ozeqb (r_dest r) (Some k) && ozeqb (r_exit r) a end.
Definition term_b (r : rec) : bool := ((r_type r =? 0) && ozeqb (r_dest r) (Some (-1))) || (r_type r =? 3) || (r_type r =? 4).
Definition link_b (r1 r2 : rec) : bool :=
  (r_type r1 =? 0) && ozeqb (r_dest r1) (Some (r_node r2)) && ozeqb (r_exit r1) (r_arr r2) && (r_type r2 =? 0).
Fixpoint chain_b (l : list rec) : bool :=
  match l with [] => true | r1 :: t => match t with [] => true | r2 :: _ => link_b r1 r2 end && chain_b t end.
Definition first_b (an : Z -> option Z) (i : Z) (l : list rec) : bool :=
  match l with r :: _ => ozeqb (an i) (Some (r_node r)) | [] => true end.
Definition good_b (an : Z -> option Z) (k i : Z) (x : ind) (H : list rec) : bool :=
  ozeqb (i_node x) (Some k) && lastok_b k (i_arr x) (last_of i H) && (i_nrec x =? zlen (recs_of i H))
  && match recs_of i H with [] => ozeqb (an i) (Some k) | _ => true end.
Definition jh_b (an : Z -> option Z) (s : sim) (H : list rec) : bool :=
  forallb (fun nd => forallb (fun i => match find_ind i (inds s) with Some x => good_b an (n_id nd) i x H | None => false end)
                             (all_individuals nd)) (nodes s)
  && forallb (fun i => match last_of i H with Some r => term_b r | None => false end) (exit_ids s)
  && forallb (fun r => chain_b (recs_of (r_id r) H)) H
  && forallb (fun r => first_b an (r_id r) (recs_of (r_id r) H)) H
  && forallb (fun r => r_id r <=? a_created (arr s)) H.
Definition jrn_b (cf : config) (an : Z -> option Z) (s : sim) (h : list rec) : bool := who_b cf s && jh_b an s h.

Lemma lastok_b_sound k a o : lastok_b k a o = true -> lastok k a o.
Proof.
  destruct o as [r|]; cbn; [|auto]. intros H. apply andb_true_iff in H as [H H3]. apply andb_true_iff in H as [H1 H2].
  apply Z.eqb_eq in H1. apply ozeqb_eq in H2, H3. auto.
Qed.
Lemma term_b_sound r : term_b r = true -> term r.
Proof.
  unfold term_b, term. intros H. apply orb_true_iff in H as [H|H]; [apply orb_true_iff in H as [H|H]|].
  - apply andb_true_iff in H as [H1 H2]. apply Z.eqb_eq in H1. apply ozeqb_eq in H2. auto.
  - apply Z.eqb_eq in H. auto.
  - apply Z.eqb_eq in H. auto.
Qed.
Lemma chain_b_sound l : chain_b l = true -> chain l.
Proof.
  induction l as [|a t IH]; cbn [chain_b chain]; [auto|]. intros H. apply andb_true_iff in H as [H1 H2]. split; [|auto].
  destruct t as [|b t']; [exact I|]. unfold link_b in H1. unfold link.
  apply andb_true_iff in H1 as [H1 T2]. apply andb_true_iff in H1 as [H1 E1]. apply andb_true_iff in H1 as [T1 D1].
  apply Z.eqb_eq in T1, T2. apply ozeqb_eq in D1, E1. auto.
Qed.

Theorem jh_b_sound an s H : Idx s -> jh_b an s H = true -> JH an H s.
Proof.
  intros HI Hb. unfold jh_b in Hb.
  apply andb_true_iff in Hb as [Hb B5]. apply andb_true_iff in Hb as [Hb B4]. apply andb_true_iff in Hb as [Hb B3]. apply andb_true_iff in Hb as [B1 B2].
  rewrite forallb_forall in B1, B2, B3, B4, B5. constructor.
  - intros k i (nd & Hn & Hin). pose proof (B1 nd (nodeZ_In _ _ _ Hn)) as E. rewrite forallb_forall in E. specialize (E i Hin).
    destruct (find_ind i (inds s)) as [x|]; [|discriminate]. exists x. split; [reflexivity|].
    rewrite (Idx_get _ _ _ HI Hn) in E. unfold good_b in E.
    apply andb_true_iff in E as [E E4]. apply andb_true_iff in E as [E E3]. apply andb_true_iff in E as [E1 E2].
    split; [apply ozeqb_eq; exact E1|]. split; [apply lastok_b_sound; exact E2|]. split; [apply Z.eqb_eq; exact E3|].
    intros E0. rewrite E0 in E4. apply ozeqb_eq. exact E4.
  - intros i Hi. specialize (B2 i Hi). destruct (last_of i H) as [r|]; [|discriminate]. exists r. split; [reflexivity|apply term_b_sound; exact B2].
  - intros i. destruct (recs_of i H) as [|r t] eqn:E; [exact I|].
    assert (Hin : In r (recs_of i H)) by (rewrite E; left; reflexivity). apply recs_of_In in Hin as [Hin Hid].
    rewrite <- E, <- Hid. apply chain_b_sound. exact (B3 r Hin).
  - intros i r l E. assert (Hin : In r (recs_of i H)) by (rewrite E; left; reflexivity). apply recs_of_In in Hin as [Hin Hid].
    specialize (B4 r Hin). rewrite Hid, E in B4. cbn in B4. apply ozeqb_eq. exact B4.
  - intros r Hr. apply Z.leb_le. exact (B5 r Hr).
Qed.

Theorem jrn_b_sound cf an s h : jrn_b cf an s h = true -> Jrn cf an s h.
Proof.
  unfold jrn_b. intros H. apply andb_true_iff in H as [H1 H2]. pose proof (who_b_sound cf s H1) as HW.
  split; [exact HW|]. apply jh_b_sound; [|exact H2]. exact (WFx_Idx _ _ (proj1 (proj1 HW))).
Qed.

(* L [cfg; state] -> A 1 when the snapshot, with the empty history and nobody arrived yet, satisfies Jrn *)
Definition run_jrnb (inp : sx) : sx :=
  match inp with
  | L [c; s] =>
    match dec_cfg c, dec_sim s (L [L []; L []; L []; L []]) with
    | Some cf, Some st => A (if jrn_b cf (fun _ => None) st [] then 1 else 0)
    | _, _ => A (-1)
    end
  | _ => A (-1)
  end.

(* ---------- everything together ---------- *)
Theorem engine_journey cf ds s h an s' h' an' : Jrn cf an s h -> run_hist cf s h an ds = Ok (s', h', an') ->
  run_many cf s ds = Ok s' /\ (exists t, h' = h ++ t) /\ Jrn cf an' s' h'.
Proof.
  intros HJ H. split; [eapply run_hist_many; eauto|]. split; [eapply run_hist_grows; eauto|eapply run_hist_jrn; eauto].
Qed.

(* ---------- non-vacuity: the two-node tandem of Blocking.v (node 2 has room for one customer) ---------- *)
Definition jrnex_view (r : rec) := (r_id r, r_node r, r_type r, r_arr r, r_exit r, r_dest r).
Definition jrnex_an : Z -> option Z := fun i => if i =? 1 then Some 1 else if i =? 2 then Some 2 else None.
(* the start: customer 1 in node 1, customer 2 in node 2 (that is where they arrived), no record yet *)
Example jrnex_start : jrn_b c07ex_cf jrnex_an c07ex_s0 [] = true.
Proof. vm_compute. reflexivity. Qed.
Example jrnex_Jrn : Jrn c07ex_cf jrnex_an c07ex_s0 [].
Proof. apply jrn_b_sound. vm_compute. reflexivity. Qed.
(* six events later: customer 1 has visited node 1 (blocked there until 6) and node 2 and is at the exit; customer 3 has
   left node 1 for node 2, where it is now, since the instant its record ends; customer 4 has no record yet *)
Example jrnex_run : exists s6 h6 an6, run_hist c07ex_cf c07ex_s0 [] jrnex_an (repeat c07ex_d 6) = Ok (s6, h6, an6) /\
  map jrnex_view h6 = [(2, 2, 0, Some 1, Some 6, Some (-1)); (1, 1, 0, Some 0, Some 6, Some 2); (1, 2, 0, Some 6, Some 8, Some (-1));
                       (3, 1, 0, Some 4, Some 10, Some 2)] /\
  map all_individuals (nodes s6) = [[4]; [3]] /\ exit_ids s6 = [2; 1] /\
  map (fun x => (i_id x, i_node x, i_arr x, i_nrec x)) (inds s6) = [(3, Some 2, Some 10, 1); (4, Some 1, Some 9, 0)] /\
  map an6 [1; 2; 3; 4] = [Some 1; Some 2; Some 1; Some 1] /\
  jrn_b c07ex_cf an6 s6 h6 = true.
Proof. eexists. eexists. eexists. split; [vm_compute; reflexivity|]. vm_compute. auto 7. Qed.
(* the same state satisfies the invariant by the theorem (not by computation) *)
Example jrnex_thm : forall s6 h6 an6, run_hist c07ex_cf c07ex_s0 [] jrnex_an (repeat c07ex_d 6) = Ok (s6, h6, an6) -> Jrn c07ex_cf an6 s6 h6.
Proof. intros s6 h6 an6 H. exact (run_hist_jrn c07ex_cf _ _ _ _ _ _ _ jrnex_Jrn H). Qed.

Print Assumptions event_step_jrn.
Print Assumptions run_hist_jrn.
Print Assumptions run_many_jrn.
Print Assumptions engine_journey.
Print Assumptions Jrn_means.
Print Assumptions jrn_b_sound.
Print Assumptions jrnex_run.
Print Assumptions jrnex_thm.

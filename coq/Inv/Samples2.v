(* Samples2.v -- T2 for C10 (sampled inputs honoured) on the STAGE-2 engine model (State2 / Engine2 / Codec2): routers, reneging,
   priority pre-emption, server schedules (pre-emptive or not), slotted services, class change while waiting included.
   Partial correctness: nothing is said about calls / runs that return Err / OutOfFuel.  No scope restriction on the
   configuration and no hypothesis on the draws anywhere in this file.

   Part 1  kr Rel m: "m relates the state before to the state after by Rel", for ANY reflexive transitive Rel that the primitive
           writes respect; one line per engine function (every function of Engine2 up to node_have_event, update_all,
           find_next_active_node, release_individual).  Instances: RelArr (arrival node untouched), RelCd (creation counter and
           date table untouched), RelLog (the log only grows at its end), RelT / RelI (clock / customer records untouched).
   Part 2  (a) arrivals.  arrival_have_event_spec: the event reads the NEXT batch-size sample b (>= 0) and creates exactly b
           customers, reads the NEXT inter-arrival sample ia and moves the date of the stream that fired, and of no other, on by
           exactly ia.  negative_batch_is_an_error / negative_batch_stops_the_run: b < 0 is Err E_Batch.  node_event_keeps_arrivals
           (+ finish_service_ / renege_ / change_shift_ / slotted_service_ / class_change_ / accept_ / release_keeps_arrivals):
           no other engine function touches the arrival node's state or the unread arrival / batch draws.  event_step_arrivals,
           stream_moves_by_its_sample: per executed event; a stream's date moves only when it fires and then by its own sample,
           i.e. arrivals of a stream are at the partial sums of its samples.
   Part 3  (b) service starts (hypothesis Idx = Preempt2.Idx, node identities are positions, executable Preempt2.Idx_b).
           start_fresh_spec / start_fresh_stamps (begin_service_if_possible_accept): start = now, service time = the NEXT service
           sample, no marker, end = start + sample on the customer; customer, busy and the same end date on its server.
           start_give_stamps, start_preemptor_stamps, start_give_fresh (+ given_fresh / _assigned / _resume / _restart /
           _resample / _marker): the blocks that go through give_individual_a_service_time: the NEXT sample for a customer
           without service time, an assigned time is kept, time_left / original service time / a fresh sample for the markers
           resume / restart / resample, any other marker is an error.  Re-exported from Preempt2.v: resume_gives_time_left,
           restart_gives_original, resample_gives_fresh, give_after_*, interrupted_restart_spec.
   Part 4  (c) over runs, EVERY configuration.  gw_event_step: a Hoare-style walk over the whole engine for any per-customer
           predicate R that depends on the four service stamps (start date, service time, end date, marker) only, holds of a
           customer without start date and holds of a customer started at the current time with end = start + service time.
           The one place that can break such an R -- release_blocked_individual gives an interrupted customer whose blocking ends
           its ORIGINAL start date and end date back -- is followed at once by the release of that customer, which clears the
           stamps (hq: release with the released customer excepted).  Two instances:
           SvcInv (executable SvcInv_b, SvcInv_b_sound; in words SvcInv_means, run_keeps_end_date): record identifiers are
           distinct and every customer with marker 0, a start date and a service time has end = start + service time;
           event_step_SvcInv, run_many_SvcInv (Preempt2.SvcInv needed the scope "no pre-emptive schedule / slot").
           stamps_persist: during an event the four stamps of a customer stay as they are, or it is (re)started at that event
           (start date = the clock of the event), or its start date is cleared: a service in progress is never altered.
   Part 5  (d) records.  write_individual_record_spec, release_writes_record: the service record written when a customer leaves a
           node shows start and end as stamped, exit = now, service_time = end - start = the stamped service time.
           write_interruption_record_spec, interrupt_service_record: interruption records show the start date and the service
           time of the stint that is cut short, exit = the interruption.  node_event_log_grows.
   Part 6  closed examples (pre-emptive schedule feeding a node with capacity 1); service_time_nonneg_refuted: finding F-02b
           (known) -- "the stamped service time is a sample, hence >= 0" and "end >= start" are FALSE of the model: a BLOCKED
           customer interrupted by a pre-emptive shift change is restarted with service time = time_left = -5, start 10, end 5
           (all draws >= 0, from the empty system); interrupted_blocked_customer_released: the path through
           release_blocked_individual described under Part 4.
   Samples other than batch sizes are not range-checked by the engine (Ciw checks them when sampling, outside the model). *)
From Coq Require Import ZArith List Bool Lia.
From RecordUpdate Require Import RecordUpdate.
From CiwV Require Import Sx Prelude Routing Sched.
From CiwV.Engine Require Import State2 Engine2 Codec2.
From CiwV.Inv Require Route2 Preempt2.
Import ListNotations.
Open Scope Z_scope.

Local Arguments Z.mul : simpl never.
Local Arguments Z.add : simpl never.
Local Arguments Z.sub : simpl never.
Local Arguments Z.ltb : simpl never.
Local Arguments Z.leb : simpl never.
Local Arguments Z.eqb : simpl never.
Local Arguments Z.to_nat : simpl never.
Local Arguments Z.of_nat : simpl never.
Local Arguments Z.modulo : simpl never.
Local Arguments nth_error : simpl never.

(* ================================================================================================================ *)
(* Part 0: the monad                                                                                                *)
(* ================================================================================================================ *)
Lemma bind_ok {X Y} (m : M X) (k : X -> M Y) s b s' :
  bind m k s = Ok (b, s') -> exists a s1, m s = Ok (a, s1) /\ k a s1 = Ok (b, s').
Proof. unfold bind. destruct (m s) as [[a s1]| |]; try discriminate. intros H. exists a, s1. split; [reflexivity|exact H]. Qed.
Lemma ret_ok {X} (a : X) s b s' : ret a s = Ok (b, s') -> b = a /\ s' = s.
Proof. unfold ret. intros H. inversion H. split; reflexivity. Qed.
Lemma gets_ok {X} (f : sim -> X) s b s' : gets f s = Ok (b, s') -> b = f s /\ s' = s.
Proof. unfold gets. intros H. inversion H. split; reflexivity. Qed.
Lemma modify_ok (f : sim -> sim) s b s' : modify f s = Ok (b, s') -> s' = f s.
Proof. unfold modify. intros H. inversion H. reflexivity. Qed.
Lemma lift_ok {X} e (o : option X) s b s' : lift e o s = Ok (b, s') -> o = Some b /\ s' = s.
Proof. destruct o as [a|]; cbn; intros H; inversion H. split; reflexivity. Qed.
Lemma get_node_ok j s nd s' : get_node j s = Ok (nd, s') -> s' = s /\ 1 <= j /\ nthZ (nodes s) (j - 1) = Some nd.
Proof.
  unfold get_node. destruct (j <? 1) eqn:E; [discriminate|]. apply Z.ltb_ge in E.
  destruct (nthZ (nodes s) (j - 1)) as [x|]; [|discriminate]. intros H. injection H as <- <-. auto.
Qed.
Lemma get_ind_ok i s x s' : get_ind i s = Ok (x, s') -> s' = s /\ find_ind i (inds s) = Some x.
Proof. unfold get_ind. destruct (find_ind i (inds s)) as [y|]; intros H; inversion H. split; reflexivity. Qed.
Lemma tnow_ok s t s' : tnow s = Ok (t, s') -> t = now s /\ s' = s.
Proof. unfold tnow. apply gets_ok. Qed.

(* ================================================================================================================ *)
(* Part 1: one walk over the whole engine for any reflexive, transitive relation between the state before and the   *)
(*         state after that every primitive write respects                                                          *)
(* ================================================================================================================ *)
Create HintDb s2krdb.
Section KR.
  Variable Rel : sim -> sim -> Prop.
  Hypothesis Rrefl : forall s, Rel s s.
  Hypothesis Rtrans : forall a b c, Rel a b -> Rel b c -> Rel a c.
  Definition kr {A} (m : M A) : Prop := forall s a s', m s = Ok (a, s') -> Rel s s'.

  Lemma kr_ret {A} (a : A) : kr (ret a). Proof. intros s b s' H. apply ret_ok in H as [_ ->]. apply Rrefl. Qed.
  Lemma kr_fail {A} e : kr (@fail A e). Proof. intros s a s' H. discriminate. Qed.
  Lemma kr_oof {A} : kr (@oof A). Proof. intros s a s' H. discriminate. Qed.
  Lemma kr_bind {A B} (m : M A) (f : A -> M B) : kr m -> (forall a, kr (f a)) -> kr (bind m f).
  Proof. intros Hm Hf s b s' H. apply bind_ok in H as (a & s1 & E & H). eapply Rtrans; [eapply Hm; exact E|eapply Hf; exact H]. Qed.
  Lemma kr_gets {A} (f : sim -> A) : kr (gets f). Proof. intros s a s' H. apply gets_ok in H as [_ ->]. apply Rrefl. Qed.
  Lemma kr_lift {A} e (o : option A) : kr (lift e o). Proof. destruct o; [apply kr_ret|apply kr_fail]. Qed.
  Lemma kr_modify (g : sim -> sim) : (forall s, Rel s (g s)) -> kr (modify g).
  Proof. intros Hg s a s' H. apply modify_ok in H. subst s'. apply Hg. Qed.
  Lemma kr_get_node j : kr (get_node j). Proof. intros s a s' H. apply get_node_ok in H as [-> _]. apply Rrefl. Qed.
  Lemma kr_get_ind i : kr (get_ind i). Proof. intros s a s' H. apply get_ind_ok in H as [-> _]. apply Rrefl. Qed.
  Lemma kr_mapM {A B} (f : A -> M B) l : (forall a, kr (f a)) -> kr (mapM f l).
  Proof. intros Hf. induction l as [|a r IH]; cbn [mapM]; [apply kr_ret|]. apply kr_bind; [apply Hf|]. intros b. apply kr_bind; [exact IH|]. intros bs. apply kr_ret. Qed.
  Lemma kr_forM {A} (f : A -> M unit) l : (forall a, kr (f a)) -> kr (forM_ l f).
  Proof. intros Hf. induction l as [|a r IH]; cbn [forM_]; [apply kr_ret|]. apply kr_bind; [apply Hf|]. intros _. exact IH. Qed.

  (* what the relation has to respect: writes to the nodes, the customer records, the log (appending), the exit, the Cycle
     counters, the clock / next active node, and the consumption of service, uniform, patience and class-change-time draws *)
  Hypothesis Hnodes : forall s v, Rel s (s <| nodes := v |>).
  Hypothesis Hinds : forall s v, Rel s (s <| inds := v |>).
  Hypothesis Hlog : forall s r, Rel s (s <| log := log s ++ [r] |>).
  Hypothesis Hexit : forall s a b c, Rel s (s <| exit_ids := a |> <| exit_n := b |> <| exit_completed := c |>).
  Hypothesis Hcyc : forall s v, Rel s (s <| cyc := v |>).
  Hypothesis Hclock : forall s k t, Rel s (s <| next_active := k |> <| now := t |>).
  Hypothesis Hsvc : forall s r, Rel s (s <| dr := dr s <| d_svc := r |> |>).
  Hypothesis Hunif : forall s r, Rel s (s <| dr := dr s <| d_unif := r |> |>).
  Hypothesis Hren : forall s r, Rel s (s <| dr := dr s <| d_ren := r |> |>).
  Hypothesis Hcct : forall s r, Rel s (s <| dr := dr s <| d_cct := r |> |>).

  Lemma kr_put_node nd : kr (put_node nd). Proof. apply kr_modify. intros s. apply Hnodes. Qed.
  Lemma kr_put_ind x : kr (put_ind x). Proof. apply kr_modify. intros s. apply Hinds. Qed.
  Lemma kr_del_ind i : kr (del_ind i). Proof. apply kr_modify. intros s. apply Hinds. Qed.
  Lemma kr_log_rec r : kr (log_rec r). Proof. apply kr_modify. intros s. apply Hlog. Qed.
  Lemma kr_draw_svc : kr draw_svc. Proof. intros s a s' H. unfold draw_svc in H. destruct (d_svc (dr s)); inversion H. apply Hsvc. Qed.
  Lemma kr_draw_unif : kr draw_unif. Proof. intros s a s' H. unfold draw_unif in H. destruct (d_unif (dr s)); inversion H. apply Hunif. Qed.
  Lemma kr_draw_ren : kr draw_ren. Proof. intros s a s' H. unfold draw_ren in H. destruct (d_ren (dr s)); inversion H. apply Hren. Qed.
  Lemma kr_draw_cct : kr draw_cct. Proof. intros s a s' H. unfold draw_cct in H. destruct (d_cct (dr s)); inversion H. apply Hcct. Qed.
  Lemma kr_upd_ind i f : kr (upd_ind i f). Proof. unfold upd_ind. apply kr_bind; [apply kr_get_ind|]. intros x. apply kr_put_ind. Qed.
  Lemma kr_upd_node j f : kr (upd_node j f). Proof. unfold upd_node. apply kr_bind; [apply kr_get_node|]. intros x. apply kr_put_node. Qed.
  Lemma kr_tnow : kr tnow. Proof. apply kr_gets. Qed.

  #[local] Hint Resolve kr_ret kr_fail kr_oof kr_gets kr_lift kr_get_node kr_get_ind kr_put_node kr_put_ind kr_del_ind kr_log_rec
    kr_draw_svc kr_draw_unif kr_draw_ren kr_draw_cct kr_upd_ind kr_upd_node kr_tnow : s2krdb.

  Ltac kr1 :=
    first
      [ solve [auto 1 with s2krdb nocore]
      | (apply kr_bind; [|intros])
      | (apply kr_mapM; intros) | (apply kr_forM; intros)
      | match goal with
        | |- kr (if ?b then _ else _) => destruct b
        | |- kr (match ?x with _ => _ end) => destruct x
        | |- kr (let '(_, _) := ?x in _) => destruct x
        end ].
  Ltac krw := repeat kr1.

  Variable cf : config.
  Lemma kr_ncfg_of j : kr (ncfg_of cf j). Proof. apply kr_lift. Qed.
  #[local] Hint Resolve kr_ncfg_of : s2krdb.
  Lemma kr_choice_uniform {A} (l : list A) : kr (choice_uniform l). Proof. unfold choice_uniform. krw. Qed.
  Lemma kr_choice_weighted den Pw : kr (choice_weighted den Pw). Proof. unfold choice_weighted. krw. Qed.
  #[local] Hint Resolve kr_choice_uniform kr_choice_weighted : s2krdb.
  Lemma kr_exit_accept i c : kr (exit_accept i c).
  Proof. unfold exit_accept. apply kr_bind; [apply kr_del_ind|]. intros _. apply kr_modify. intros s. apply Hexit. Qed.
  Lemma kr_choose_next_customer j : kr (choose_next_customer cf j). Proof. unfold choose_next_customer. krw. Qed.
  Lemma kr_upd_server j sid f : kr (upd_server j sid f). Proof. unfold upd_server. krw. Qed.
  #[local] Hint Resolve kr_exit_accept kr_choose_next_customer kr_upd_server : s2krdb.
  Lemma kr_find_next_class_change j : kr (find_next_class_change j). Proof. unfold find_next_class_change. krw. Qed.
  #[local] Hint Resolve kr_find_next_class_change : s2krdb.
  Lemma kr_cct_loop : forall row b best bc, kr (cct_loop row b best bc).
  Proof. induction row as [|h r IH]; intros b best bc; cbn [cct_loop]; [apply kr_ret|]. destruct h; [|apply IH]. apply kr_bind; [apply kr_draw_cct|]. intros t. destruct (date_lt (Some t) best); apply IH. Qed.
  #[local] Hint Resolve kr_cct_loop : s2krdb.
  Lemma kr_decide_class_change j i : kr (decide_class_change cf j i). Proof. unfold decide_class_change. krw. Qed.
  Lemma kr_reset_class_change j i : kr (reset_class_change cf j i). Proof. unfold reset_class_change. krw. Qed.
  Lemma kr_stime_num x : kr (stime_num x). Proof. unfold stime_num. krw. Qed.
  Lemma kr_gstap i : kr (give_service_time_after_preemption i). Proof. unfold give_service_time_after_preemption. krw. Qed.
  #[local] Hint Resolve kr_decide_class_change kr_reset_class_change kr_stime_num kr_gstap : s2krdb.
  Lemma kr_giast i : kr (give_individual_a_service_time i). Proof. unfold give_individual_a_service_time. krw. Qed.
  Lemma kr_attach_server j sid i : kr (attach_server j sid i). Proof. unfold attach_server. krw. Qed.
  Lemma kr_set_next_end j sid d : kr (set_next_end j sid d). Proof. unfold set_next_end. krw. Qed.
  Lemma kr_kill_server j sid : kr (kill_server j sid). Proof. unfold kill_server. krw. Qed.
  #[local] Hint Resolve kr_giast kr_attach_server kr_set_next_end kr_kill_server : s2krdb.
  Lemma kr_detatch_server j sid i : kr (detatch_server j sid i). Proof. unfold detatch_server. krw. Qed.
  Lemma kr_bump_rec i : kr (bump_rec i). Proof. unfold bump_rec. krw. Qed.
  #[local] Hint Resolve kr_detatch_server kr_bump_rec : s2krdb.
  Lemma kr_write_individual_record j i : kr (write_individual_record cf j i). Proof. unfold write_individual_record. krw. Qed.
  Lemma kr_write_interruption_record j i d : kr (write_interruption_record cf j i d). Proof. unfold write_interruption_record. krw. Qed.
  Lemma kr_write_reneging_record j i : kr (write_reneging_record j i). Proof. unfold write_reneging_record. krw. Qed.
  Lemma kr_write_br_record j i ty : kr (write_br_record j i ty). Proof. unfold write_br_record. krw. Qed.
  Lemma kr_reset_individual_attributes i : kr (reset_individual_attributes i). Proof. unfold reset_individual_attributes. krw. Qed.
  #[local] Hint Resolve kr_write_individual_record kr_write_interruption_record kr_write_reneging_record kr_write_br_record kr_reset_individual_attributes : s2krdb.
  Lemma kr_valid_dest d : kr (valid_dest d). Proof. unfold valid_dest. krw. Qed.
  Lemma kr_jsq_loop lb : forall ds best acc, kr (jsq_loop lb ds best acc).
  Proof. induction ds as [|d r IH]; intros best acc; cbn [jsq_loop]; [apply kr_ret|]. apply kr_bind; [apply kr_get_node|]. intros nd. cbv zeta. destruct (date_eqb _ _); [apply IH|]. destruct (date_lt _ _); apply IH. Qed.
  #[local] Hint Resolve kr_valid_dest kr_jsq_loop : s2krdb.
  Lemma kr_jsq_next lb ds o : kr (jsq_next lb ds o). Proof. unfold jsq_next. krw. Qed.
  Lemma kr_get_cyc c j : kr (get_cyc c j). Proof. unfold get_cyc. krw. Qed.
  Lemma kr_bump_cyc c j : kr (bump_cyc c j).
  Proof. unfold bump_cyc. apply kr_modify. intros s. destruct (nthZ (cyc s) c) as [row|]; [|apply Rrefl]. destruct (nthZ row (j - 1)); [apply Hcyc|apply Rrefl]. Qed.
  #[local] Hint Resolve kr_jsq_next kr_get_cyc kr_bump_cyc : s2krdb.
  Lemma kr_node_router_next r c j : kr (node_router_next r c j). Proof. unfold node_router_next. krw. Qed.
  #[local] Hint Resolve kr_node_router_next : s2krdb.
  Lemma kr_next_node_for mode j i : kr (next_node_for cf mode j i). Proof. unfold next_node_for. krw. Qed.
  #[local] Hint Resolve kr_next_node_for : s2krdb.
  Lemma kr_start_fresh j i osid c : kr (start_fresh cf j i osid c). Proof. unfold start_fresh. krw. Qed.
  Lemma kr_start_give j i sid : kr (start_give cf j i sid). Proof. unfold start_give. krw. Qed.
  Lemma kr_start_preemptor j i sid : kr (start_preemptor cf j i sid). Proof. unfold start_preemptor. krw. Qed.
  Lemma kr_biis j sid : kr (begin_interrupted_individuals_service j sid). Proof. unfold begin_interrupted_individuals_service. krw. Qed.
  #[local] Hint Resolve kr_start_fresh kr_start_give kr_start_preemptor kr_biis : s2krdb.
  Lemma kr_serve_with j sid : kr (serve_with cf j sid). Proof. unfold serve_with. krw. Qed.
  #[local] Hint Resolve kr_serve_with : s2krdb.
  Lemma kr_bsipr j freed : kr (begin_service_if_possible_release cf j freed). Proof. unfold begin_service_if_possible_release. krw. Qed.
  Lemma kr_get_reneging_date j i : kr (get_reneging_date cf j i). Proof. unfold get_reneging_date. krw. Qed.
  Lemma kr_block_individual j i d : kr (block_individual j i d). Proof. unfold block_individual. krw. Qed.
  Lemma kr_preempt_victim j i : kr (preempt_victim cf j i). Proof. unfold preempt_victim. krw. Qed.
  #[local] Hint Resolve kr_bsipr kr_get_reneging_date kr_block_individual kr_preempt_victim : s2krdb.

  Lemma kr_release_body acc rbi j i d rr : (forall d' i', kr (acc d' i')) -> (forall j', kr (rbi j')) -> kr (Route2.release_body cf acc rbi j i d rr).
  Proof. intros Ha Hr. unfold Route2.release_body. krw; first [apply Ha|apply Hr]. Qed.
  Lemma kr_rbi_body rel j : (forall a b c e, kr (rel a b c e)) -> kr (Route2.rbi_body cf rel j).
  Proof. intros Hr. unfold Route2.rbi_body. krw; apply Hr. Qed.
  Lemma kr_accept_body pre j i : (forall a b c, kr (pre a b c)) -> kr (Route2.accept_body cf pre j i).
  Proof. intros Hp. unfold Route2.accept_body. krw; apply Hp. Qed.
  Lemma kr_preempt_body rel j v i : (forall a b c e, kr (rel a b c e)) -> kr (Route2.preempt_body cf rel j v i).
  Proof. intros Hr. unfold Route2.preempt_body. krw; apply Hr. Qed.
  Lemma kr_core : forall f, (forall j i d rr, kr (release cf f j i d rr)) /\ (forall j, kr (release_blocked_individual cf f j)) /\
                            (forall j i, kr (accept cf f j i)) /\ (forall j v i, kr (preempt cf f j v i)).
  Proof.
    induction f as [|f (IH1 & IH2 & IH3 & IH4)]; [repeat split; intros; apply kr_oof|].
    split; [|split; [|split]]; intros.
    - rewrite Route2.release_S. apply kr_release_body; assumption.
    - rewrite Route2.rbi_S. apply kr_rbi_body; assumption.
    - rewrite Route2.accept_S. apply kr_accept_body; assumption.
    - rewrite Route2.preempt_S. apply kr_preempt_body; assumption.
  Qed.
  Lemma kr_release f j i d rr : kr (release cf f j i d rr). Proof. apply kr_core. Qed.
  Lemma kr_rbi f j : kr (release_blocked_individual cf f j). Proof. apply kr_core. Qed.
  Lemma kr_accept f j i : kr (accept cf f j i). Proof. apply kr_core. Qed.
  Lemma kr_preempt f j v i : kr (preempt cf f j v i). Proof. apply kr_core. Qed.
  #[local] Hint Resolve kr_release kr_rbi kr_accept kr_preempt : s2krdb.

  Lemma kr_decide_between l : kr (decide_between l). Proof. unfold decide_between. krw. Qed.
  Lemma kr_has_space d : kr (has_space cf d). Proof. unfold has_space. krw. Qed.
  Lemma kr_change_customer_class j i : kr (change_customer_class cf j i). Proof. unfold change_customer_class. krw. Qed.
  #[local] Hint Resolve kr_decide_between kr_has_space kr_change_customer_class : s2krdb.
  Lemma kr_finish_service j : kr (finish_service cf j). Proof. unfold finish_service. krw. Qed.
  Lemma kr_renege j : kr (renege cf j). Proof. unfold renege. krw. Qed.
  Lemma kr_interrupt_service f j i pre : kr (interrupt_service cf f j i pre). Proof. unfold interrupt_service. krw. Qed.
  Lemma kr_keyed l : kr (keyed l). Proof. unfold keyed. krw. Qed.
  #[local] Hint Resolve kr_finish_service kr_renege kr_interrupt_service kr_keyed : s2krdb.
  Lemma kr_sort_interrupted_individuals j : kr (sort_interrupted_individuals j). Proof. unfold sort_interrupted_individuals. krw. Qed.
  Lemma kr_off_duty_loop : forall k f j idx pre se, kr (off_duty_loop cf k f j idx pre se).
  Proof. induction k as [|k IH]; intros f j idx pre se; cbn [off_duty_loop]; [apply kr_ret|]. krw; try apply IH. Qed.
  #[local] Hint Resolve kr_sort_interrupted_individuals kr_off_duty_loop : s2krdb.
  Lemma kr_take_servers_off_duty f j pre : kr (take_servers_off_duty cf f j pre). Proof. unfold take_servers_off_duty. krw. Qed.
  Lemma kr_add_new_servers : forall k j, kr (add_new_servers k j).
  Proof. induction k as [|k IH]; intros j; cbn [add_new_servers]; [apply kr_ret|]. krw; try apply IH. Qed.
  Lemma kr_bsipcs j : kr (begin_service_if_possible_change_shift cf j). Proof. unfold begin_service_if_possible_change_shift. krw. Qed.
  #[local] Hint Resolve kr_take_servers_off_duty kr_add_new_servers kr_bsipcs : s2krdb.
  Lemma kr_change_shift j : kr (change_shift cf j). Proof. unfold change_shift. krw. Qed.
  Lemma kr_slot_loop : forall k j, kr (slot_loop cf k j).
  Proof. induction k as [|k IH]; intros j; cbn [slot_loop]; [apply kr_ret|]. krw; try apply IH. Qed.
  #[local] Hint Resolve kr_change_shift kr_slot_loop : s2krdb.
  Lemma kr_slotted_service j : kr (slotted_service cf j). Proof. unfold slotted_service. krw. Qed.
  Lemma kr_ccww j : kr (change_customer_class_while_waiting cf j). Proof. unfold change_customer_class_while_waiting. krw. Qed.
  #[local] Hint Resolve kr_slotted_service kr_ccww : s2krdb.
  (* every event of a service node: service completion, shift change, renege, class change while waiting, slotted service *)
  Lemma kr_node_have_event j : kr (node_have_event cf j). Proof. unfold node_have_event. krw. Qed.
  Lemma kr_update_next_event_date j : kr (update_next_event_date cf j). Proof. unfold update_next_event_date. krw. Qed.
  #[local] Hint Resolve kr_update_next_event_date : s2krdb.
  Lemma kr_update_all : forall js, kr (update_all cf js).
  Proof. induction js as [|j r IH]; cbn [update_all]; [apply kr_ret|]. krw. Qed.
  Lemma kr_find_next_active_node : kr find_next_active_node.
  Proof. unfold find_next_active_node. krw. apply kr_modify. intros s0. apply Hclock. Qed.
  Lemma kr_sys_population : kr sys_population. Proof. unfold sys_population. krw. Qed.
  Lemma kr_route_of i c : kr (route_of cf i c). Proof. unfold route_of. krw. Qed.
  #[local] Hint Resolve kr_sys_population kr_route_of : s2krdb.

  (* the arrival node's own functions: the relation also has to respect the count of accepted customers *)
  Hypothesis Hacc : forall s v, Rel s (s <| arr := arr s <| a_accepted := v |> |>).
  Lemma kr_send_individual j i : kr (send_individual cf j i).
  Proof. unfold send_individual. krw. apply kr_modify. intros s. apply Hacc. Qed.
  #[local] Hint Resolve kr_send_individual : s2krdb.
  Lemma kr_release_individual j i : kr (release_individual cf j i). Proof. unfold release_individual. krw. Qed.
End KR.

(* ================================================================================================================ *)
(* Part 2: (a) arrivals -- the sampled batch size and the sampled inter-arrival time, and nothing else, move the     *)
(*         arrival node's state                                                                                     *)
(* ================================================================================================================ *)
(* the arrival node's whole state and the unread inter-arrival / batch-size draws are left alone *)
Definition RelArr (s s' : sim) : Prop :=
  arr s' = arr s /\ d_arr (dr s') = d_arr (dr s) /\ d_batch (dr s') = d_batch (dr s).
(* the creation counter, the table of next arrival dates and the unread inter-arrival / batch-size draws are left alone *)
Definition RelCd (s s' : sim) : Prop :=
  a_created (arr s') = a_created (arr s) /\ a_dates (arr s') = a_dates (arr s) /\
  a_next_node (arr s') = a_next_node (arr s) /\ a_next_cls (arr s') = a_next_cls (arr s) /\
  d_arr (dr s') = d_arr (dr s) /\ d_batch (dr s') = d_batch (dr s).
(* the log only grows at its end *)
Definition RelLog (s s' : sim) : Prop := exists rest, log s' = log s ++ rest.

Lemma RelArr_refl s : RelArr s s. Proof. repeat split; reflexivity. Qed.
Lemma RelArr_trans a b c : RelArr a b -> RelArr b c -> RelArr a c.
Proof. intros (A1 & A2 & A3) (B1 & B2 & B3). repeat split; congruence. Qed.
Lemma RelCd_refl s : RelCd s s. Proof. repeat split; reflexivity. Qed.
Lemma RelCd_trans a b c : RelCd a b -> RelCd b c -> RelCd a c.
Proof. intros (A1 & A2 & A3 & A4 & A5 & A6) (B1 & B2 & B3 & B4 & B5 & B6). repeat split; congruence. Qed.
Lemma RelLog_refl s : RelLog s s. Proof. exists []. symmetry. apply app_nil_r. Qed.
Lemma RelLog_trans a b c : RelLog a b -> RelLog b c -> RelLog a c.
Proof. intros (r1 & E1) (r2 & E2). exists (r1 ++ r2). rewrite E2, E1, app_assoc. reflexivity. Qed.

Ltac rel_arr := first [apply RelArr_refl | apply RelArr_trans | (intros; repeat split; reflexivity)].
Ltac rel_cd := first [apply RelCd_refl | apply RelCd_trans | (intros; repeat split; reflexivity)].
Ltac rel_log := first [apply RelLog_refl | apply RelLog_trans | (intros; exists []; symmetry; apply app_nil_r) | (intros; eexists; reflexivity)].

Definition stream_date (s : sim) (j c : Z) : option (option Z) :=
  match nthZ (a_dates (arr s)) (j - 1) with Some row => nthZ row c | None => None end.

Section Arrivals.
  Variable cf : config.

  (* no event of a service node touches the arrival node: next arrival dates, creation counter, unread arrival draws *)
  Theorem node_event_keeps_arrivals j s s' : node_have_event cf j s = Ok (tt, s') -> RelArr s s'.
  Proof. apply (kr_node_have_event RelArr); rel_arr. Qed.
  Theorem finish_service_keeps_arrivals j s s' : finish_service cf j s = Ok (tt, s') -> RelArr s s'.
  Proof. apply (kr_finish_service RelArr); rel_arr. Qed.
  Theorem renege_keeps_arrivals j s s' : renege cf j s = Ok (tt, s') -> RelArr s s'.
  Proof. apply (kr_renege RelArr); rel_arr. Qed.
  Theorem change_shift_keeps_arrivals j s s' : change_shift cf j s = Ok (tt, s') -> RelArr s s'.
  Proof. apply (kr_change_shift RelArr); rel_arr. Qed.
  Theorem slotted_service_keeps_arrivals j s s' : slotted_service cf j s = Ok (tt, s') -> RelArr s s'.
  Proof. apply (kr_slotted_service RelArr); rel_arr. Qed.
  Theorem class_change_keeps_arrivals j s s' : change_customer_class_while_waiting cf j s = Ok (tt, s') -> RelArr s s'.
  Proof. apply (kr_ccww RelArr); rel_arr. Qed.
  (* nor does anything a customer does once it has been created: accept, release, pre-emption, the release of blocked customers *)
  Theorem accept_keeps_arrivals f j i s s' : accept cf f j i s = Ok (tt, s') -> RelArr s s'.
  Proof. apply (kr_accept RelArr); rel_arr. Qed.
  Theorem release_keeps_arrivals f j i d rr s s' : release cf f j i d rr s = Ok (tt, s') -> RelArr s s'.
  Proof. apply (kr_release RelArr); rel_arr. Qed.
  (* nor the recomputation of the nodes' next event dates and the choice of the next active node *)
  Lemma update_all_keeps_arrivals js s s' : update_all cf js s = Ok (tt, s') -> RelArr s s'.
  Proof. apply (kr_update_all RelArr); rel_arr. Qed.
  Lemma find_next_active_node_keeps_arrivals s s' : find_next_active_node s = Ok (tt, s') -> RelArr s s'.
  Proof. apply (kr_find_next_active_node RelArr); rel_arr. Qed.

  Lemma release_individual_cd j i s s' : release_individual cf j i s = Ok (tt, s') -> RelCd s s'.
  Proof. apply (kr_release_individual RelCd); rel_cd. Qed.

  (* the batch loop creates exactly n customers *)
  Lemma batch_loop_spec : forall n j c p s s', batch_loop cf n j c p s = Ok (tt, s') ->
    a_created (arr s') = a_created (arr s) + Z.of_nat n /\ a_dates (arr s') = a_dates (arr s) /\
    a_next_node (arr s') = a_next_node (arr s) /\ a_next_cls (arr s') = a_next_cls (arr s) /\
    d_arr (dr s') = d_arr (dr s) /\ d_batch (dr s') = d_batch (dr s).
  Proof.
    induction n as [|n IH]; intros j c p s s' H; cbn [batch_loop] in H.
    - apply ret_ok in H as [_ ->]. rewrite Z.add_0_r. repeat split; reflexivity.
    - apply bind_ok in H as (u0 & s1 & E & H). apply modify_ok in E. subst s1.
      apply bind_ok in H as (i & s1 & E & H). apply gets_ok in E as [-> ->].
      apply bind_ok in H as (u1 & s1 & E & H).
      assert (s1 = s <| arr := arr s <| a_created := a_created (arr s) + 1 |> |>) as ->
        by (destruct (1 <=? j); [apply ret_ok in E as [_ ->]; reflexivity|discriminate E]).
      apply bind_ok in H as (nd & s1 & E1 & H). apply get_node_ok in E1 as [-> _].
      apply bind_ok in H as (r & s1 & E1 & H). apply (kr_route_of RelCd RelCd_refl RelCd_trans) in E1.
      apply bind_ok in H as (u2 & s2 & E2 & H). apply modify_ok in E2. subst s2.
      apply bind_ok in H as (u3 & s3 & E3 & H). destruct u3. apply release_individual_cd in E3.
      destruct (IH _ _ _ _ _ H) as (A1 & A2 & A3 & A4 & A5 & A6).
      destruct E1 as (B1 & B2 & B3 & B4 & B5 & B6). destruct E3 as (C1 & C2 & C3 & C4 & C5 & C6).
      cbn in B1, B2, B3, B4, B5, B6, C1, C2, C3, C4, C5, C6.
      rewrite A1, A2, A3, A4, A5, A6, C1, C2, C3, C4, C5, C6, B1, B2, B3, B4, B5, B6.
      rewrite Nat2Z.inj_succ. repeat split; lia.
  Qed.

  (* C10, arrivals.  An arrival event
     - reads the next batch-size sample b, which must be >= 0 (otherwise negative_batch_is_an_error), and creates exactly b customers;
     - reads the next inter-arrival sample ia and moves the stream that fired, and no other, on by exactly ia
       (a stream whose date is "never" stays there). *)
  Theorem arrival_have_event_spec s s' : arrival_have_event cf s = Ok (tt, s') ->
    exists b ia row old,
      d_batch (dr s) = b :: d_batch (dr s') /\ 0 <= b /\ a_created (arr s') = a_created (arr s) + b /\
      d_arr (dr s) = ia :: d_arr (dr s') /\
      nthZ (a_dates (arr s)) (a_next_node (arr s) - 1) = Some row /\ nthZ row (a_next_cls (arr s)) = Some old /\
      a_dates (arr s') = updZ (a_dates (arr s)) (a_next_node (arr s) - 1)
                           (updZ row (a_next_cls (arr s)) (match old with Some o => Some (o + ia) | None => None end)).
  Proof.
    unfold arrival_have_event. intros H.
    apply bind_ok in H as (a & s0 & E & H). apply gets_ok in E as [-> ->].
    apply bind_ok in H as (b & s1 & E & H). unfold draw_batch in E. destruct (d_batch (dr s)) as [|b0 br] eqn:Eb; [discriminate E|].
    injection E as <- <-.
    apply bind_ok in H as (u0 & s1 & E & H). destruct (b0 <? 0) eqn:Eneg; [discriminate E|]. apply ret_ok in E as [_ ->]. apply Z.ltb_ge in Eneg.
    apply bind_ok in H as (p & s1 & E & H). apply lift_ok in E as [_ ->].
    apply bind_ok in H as (u1 & s2 & E & H). destruct u1. apply batch_loop_spec in E as (C1 & C2 & C3 & C4 & C5 & C6).
    cbn in C1, C2, C3, C4, C5, C6. rewrite Z2Nat.id in C1 by exact Eneg.
    apply bind_ok in H as (ia & s3 & E & H). unfold draw_arr in E. destruct (d_arr (dr s2)) as [|ia0 ir] eqn:Ea; [discriminate E|].
    injection E as <- <-.
    apply bind_ok in H as (a' & s3 & E & H). apply gets_ok in E as [-> ->].
    apply bind_ok in H as (row & s3 & E & H). apply lift_ok in E as [Er ->].
    apply bind_ok in H as (old & s3 & E & H). apply lift_ok in E as [Eo ->].
    apply bind_ok in H as (u2 & s3 & E & H). apply modify_ok in E. subst s3.
    unfold find_next_event_date in H. apply modify_ok in H. subst s'.
    cbn in Er. rewrite C2 in Er.
    exists b0, ia0, row, old. cbn. destruct (find_min_dates _ _ _) as [[dd jj] cc]. cbn.
    split; [rewrite C6; reflexivity|]. split; [exact Eneg|]. split; [exact C1|].
    split; [symmetry; exact C5|]. split; [exact Er|]. split; [exact Eo|]. rewrite C2. reflexivity.
  Qed.

  (* a batch size that is not a non-negative integer is an error, not a silently corrupted run *)
  Theorem negative_batch_is_an_error s b r : d_batch (dr s) = b :: r -> b < 0 -> arrival_have_event cf s = Err E_Batch.
  Proof.
    intros Hb Hn. unfold arrival_have_event, bind, gets, draw_batch. rewrite Hb. cbn.
    destruct (b <? 0) eqn:E; [reflexivity|apply Z.ltb_ge in E; lia].
  Qed.
  Theorem negative_batch_stops_the_run s b r : next_active s = 0 -> d_batch (dr s) = b :: r -> b < 0 -> event_step cf s = Err E_Batch.
  Proof.
    intros Hk Hb Hn. unfold event_step. unfold bind at 1. unfold modify at 1. unfold bind at 1. unfold gets at 1.
    match goal with |- context [next_active ?x =? 0] => change (next_active x) with (next_active s) end.
    rewrite Hk. change (0 =? 0) with true. cbv iota.
    unfold bind at 1. erewrite negative_batch_is_an_error; [reflexivity|exact Hb|exact Hn].
  Qed.

  (* one whole event: either it is an event of a service node and nothing of the arrival node moves, or it is an arrival event
     with the sampled batch size and the sampled inter-arrival time *)
  Theorem event_step_arrivals s s' : event_step cf s = Ok (tt, s') ->
    (next_active s <> 0 /\ RelArr s s') \/
    (next_active s = 0 /\ exists b ia row old,
       d_batch (dr s) = b :: d_batch (dr s') /\ 0 <= b /\ a_created (arr s') = a_created (arr s) + b /\
       d_arr (dr s) = ia :: d_arr (dr s') /\
       nthZ (a_dates (arr s)) (a_next_node (arr s) - 1) = Some row /\ nthZ row (a_next_cls (arr s)) = Some old /\
       a_dates (arr s') = updZ (a_dates (arr s)) (a_next_node (arr s) - 1)
                            (updZ row (a_next_cls (arr s)) (match old with Some o => Some (o + ia) | None => None end))).
  Proof.
    unfold event_step. intros H.
    apply bind_ok in H as (u0 & s0 & E & H). apply modify_ok in E.
    assert (Hk0 : next_active s0 = next_active s) by (rewrite E; reflexivity).
    assert (R0 : RelArr s s0) by (rewrite E; repeat split; reflexivity). clear E.
    apply bind_ok in H as (k & s00 & E & H). apply gets_ok in E as [-> ->]. rewrite Hk0 in H.
    apply bind_ok in H as (u1 & s1 & E1 & H). destruct u1.
    apply bind_ok in H as (ns & s2 & E & H). apply gets_ok in E as [-> ->].
    apply bind_ok in H as (u2 & s2 & E2 & H). destruct u2. apply update_all_keeps_arrivals in E2.
    apply find_next_active_node_keeps_arrivals in H. pose proof (RelArr_trans _ _ _ E2 H) as (T1 & T2 & T3).
    destruct (next_active s =? 0) eqn:Ek.
    - right. apply Z.eqb_eq in Ek. split; [exact Ek|].
      apply arrival_have_event_spec in E1 as (b & ia & row & old & A1 & A2 & A3 & A4 & A5 & A6 & A7).
      destruct R0 as (R1 & R2 & R3). rewrite R1 in A3, A5, A6, A7. rewrite R2 in A4. rewrite R3 in A1.
      exists b, ia, row, old. rewrite T1, T2, T3. repeat split; assumption.
    - left. apply Z.eqb_neq in Ek. split; [exact Ek|]. apply node_event_keeps_arrivals in E1.
      eapply RelArr_trans; [exact R0|]. eapply RelArr_trans; [exact E1|]. split; [exact T1|split; [exact T2|exact T3]].
  Qed.

  (* in the words of C10: the next arrival date of a stream changes only when that stream fires, and then by exactly the
     inter-arrival time sampled at that event -- so the arrival dates of a stream are the partial sums of its samples *)
  Corollary stream_moves_by_its_sample s s' j c o : event_step cf s = Ok (tt, s') -> stream_date s j c = Some (Some o) ->
    stream_date s' j c = Some (Some o) \/
    (next_active s = 0 /\ j = a_next_node (arr s) /\ c = a_next_cls (arr s) /\
     exists ia, hd_error (d_arr (dr s)) = Some ia /\ stream_date s' j c = Some (Some (o + ia))).
  Proof.
    intros H Hd. apply event_step_arrivals in H as [[_ (E & _)]|(Hk & b & ia & row & old & A1 & A2 & A3 & A4 & A5 & A6 & A7)].
    - left. unfold stream_date. rewrite E. exact Hd.
    - unfold stream_date in *. rewrite A7.
      destruct (Z.eq_dec (j - 1) (a_next_node (arr s) - 1)) as [Ej|Ej].
      + rewrite Ej in Hd |- *. rewrite A5 in Hd. rewrite (Preempt2.nthZ_updZ_eq _ _ _ _ A5).
        destruct (Z.eq_dec c (a_next_cls (arr s))) as [Ec|Ec].
        * right. split; [exact Hk|]. split; [lia|]. split; [exact Ec|]. exists ia. split; [rewrite A4; reflexivity|].
          rewrite Ec in Hd |- *. rewrite (Preempt2.nthZ_updZ_eq _ _ _ _ A6). rewrite A6 in Hd. injection Hd as ->. reflexivity.
        * left. rewrite Preempt2.nthZ_updZ_neq by (intros E; apply Ec; symmetry; exact E). exact Hd.
      + left. rewrite Preempt2.nthZ_updZ_neq by (intros E; apply Ej; symmetry; exact E). exact Hd.
  Qed.
End Arrivals.

(* ================================================================================================================ *)
(* Part 3: (b) a service start stamps start = now, the service time, end = start + service time on the customer and *)
(*         the same end date on its server                                                                          *)
(* ================================================================================================================ *)
Notation Idx := Preempt2.Idx.
Notation node_at := Preempt2.node_at.
Notation oind := Preempt2.oind.
Notation onode := Preempt2.onode.
Notation ecc_ind := Preempt2.ecc_ind.
Notation ecc_node := Preempt2.ecc_node.
Notation srv_upd := Preempt2.srv_upd.
Notation serving := Preempt2.serving.
Notation given := Preempt2.given.
Notation set_ind := Preempt2.set_ind.
Notation set_node := Preempt2.set_node.

(* the customer after a fresh start (begin_service_if_possible_accept; osid = None at a node with infinitely many servers) *)
Definition fresh_started (osid : option Z) (t st : Z) (x : ind) : ind :=
  x <| i_server := match osid with Some sid => Some sid | None => i_server x end |>
    <| i_sst := Some t |> <| i_stime := Some st |> <| i_smark := 0 |> <| i_send := Some (t + st) |>.
Definition fresh_servers (osid : option Z) (i t st : Z) (l : list server) : list server :=
  match osid with Some sid => srv_upd sid (serving i t st) l | None => l end.

Section Starts.
  Variable cf : config.

  Lemma ind_eta_server x : x <| i_server := i_server x |> = x. Proof. destruct x. reflexivity. Qed.

  (* start_fresh, exactly (up to the class-change-while-waiting bookkeeping fields, as everywhere in Preempt2.v): the NEXT
     service-time draw st is consumed, the customer gets start = now, service time = st, no marker, end = now + st (and the
     server, if there is one); the server gets the customer, busy, next end = now + st; number_in_service is counted *)
  Theorem start_fresh_spec j i osid count s u s' x nd : start_fresh cf j i osid count s = Ok (u, s') -> Idx s ->
    find_ind i (inds s) = Some x -> node_at s j = Some nd ->
    exists st, d_svc (dr s) = st :: d_svc (dr s') /\ now s' = now s /\ log s' = log s /\ Idx s' /\
      (forall k, oind s' k = if k =? i then Some (ecc_ind (fresh_started osid (now s) st x)) else oind s k) /\
      (forall k, onode s' k = if k =? j
         then Some (ecc_node (nd <| n_servers := fresh_servers osid i (now s) st (n_servers nd) |>
                                 <| n_insvc := if count then n_insvc nd + 1 else n_insvc nd |>))
         else onode s k).
  Proof.
    intros H HI Hx Hn. pose proof (Preempt2.find_ind_id _ _ _ Hx) as Hid. pose proof (HI _ _ Hn) as Hnid. unfold start_fresh in H.
    apply bind_ok in H as (u0 & sb & E & H).
    set (xb := x <| i_server := match osid with Some sid => Some sid | None => i_server x end |>).
    set (nda := nd <| n_servers := match osid with Some sid => srv_upd sid (fun sv => sv <| sv_cust := Some i |> <| sv_busy := true |>) (n_servers nd) | None => n_servers nd end |>).
    assert (Hb : (forall k, find_ind k (inds sb) = if k =? i then Some xb else find_ind k (inds s)) /\
                 (forall k, node_at sb k = if k =? j then Some nda else node_at s k) /\
                 now sb = now s /\ log sb = log s /\ dr sb = dr s /\ Idx sb).
    { destruct osid as [sid|].
      - unfold attach_server in E. apply bind_ok in E as (u1 & sa & Ea & E).
        destruct (Preempt2.upd_server_obs _ _ _ _ _ _ _ Ea HI Hn) as (Ia & Ta & La & Da & HIa & Na).
        apply Preempt2.upd_ind_ok in E as (x0 & Hx0 & ->). rewrite Ia, Hx in Hx0. injection Hx0 as <-.
        split; [|split; [exact Na|split; [exact Ta|split; [exact La|split; [exact Da|exact HIa]]]]].
        intros k. rewrite Preempt2.find_set_ind. change (i_id (x <| i_server := Some sid |>)) with (i_id x). rewrite Hid, Ia. reflexivity.
      - apply ret_ok in E as [_ ->]. subst xb nda. rewrite ind_eta_server, Preempt2.node_eta_servers.
        split; [intros k; destruct (k =? i) eqn:Ek; [apply Z.eqb_eq in Ek; rewrite Ek; exact Hx|reflexivity]|].
        split; [intros k; destruct (k =? j) eqn:Ek; [apply Z.eqb_eq in Ek; rewrite Ek; exact Hn|reflexivity]|].
        split; [reflexivity|]. split; [reflexivity|]. split; [reflexivity|exact HI]. }
    destruct Hb as (Fb & Nb & Tb & Lb & Db & HIb). clear E.
    apply bind_ok in H as (t & s0 & E & H). apply tnow_ok in E as [-> ->]. rewrite Tb in H.
    apply bind_ok in H as (st & sc & E & H). apply Preempt2.draw_svc_ok in E as (r & Hd & Esc).
    assert (Fc : forall k, find_ind k (inds sc) = if k =? i then Some xb else find_ind k (inds s)) by (rewrite Esc; exact Fb).
    assert (Nc : forall k, node_at sc k = if k =? j then Some nda else node_at s k) by (rewrite Esc; exact Nb).
    assert (Tc : now sc = now s) by (rewrite Esc; exact Tb).
    assert (Lc : log sc = log s) by (rewrite Esc; exact Lb).
    assert (Dc : d_svc (dr sc) = r) by (rewrite Esc; reflexivity).
    assert (HIc : Idx sc) by (rewrite Esc; exact HIb).
    rewrite Db in Hd. clear Esc Fb Nb Tb Lb Db HIb. clear sb.
    apply bind_ok in H as (u2 & sd & E & H). apply Preempt2.upd_ind_ok in E as (x0 & Hx0 & Esd).
    rewrite Fc, Z.eqb_refl in Hx0. injection Hx0 as <-.
    assert (Fd : forall k, find_ind k (inds sd) = if k =? i then Some (fresh_started osid (now s) st x) else find_ind k (inds s)).
    { intros k. rewrite Esd, Preempt2.find_set_ind.
      change (i_id (xb <| i_sst := Some (now s) |> <| i_stime := Some st |> <| i_smark := 0 |> <| i_send := Some (now s + st) |>)) with (i_id x).
      rewrite Hid. destruct (k =? i) eqn:Ek; [reflexivity|]. rewrite Fc, Ek. reflexivity. }
    assert (Nd : forall k, node_at sd k = if k =? j then Some nda else node_at s k) by (rewrite Esd; exact Nc).
    assert (Td : now sd = now s) by (rewrite Esd; exact Tc).
    assert (Ld : log sd = log s) by (rewrite Esd; exact Lc).
    assert (Dd : d_svc (dr sd) = r) by (rewrite Esd; exact Dc).
    assert (HId : Idx sd) by (rewrite Esd; exact HIc).
    clear Esd Fc Nc Tc Lc Dc HIc. clear sc.
    set (ndf := nda <| n_insvc := if count then n_insvc nd + 1 else n_insvc nd |>).
    assert (Hf : exists sf, (reset_class_change cf j i ;;; match osid with Some sid => set_next_end j sid (Some (now s + st)) | None => ret tt end) sf = Ok (u, s') /\
               inds sf = inds sd /\ now sf = now s /\ log sf = log s /\ d_svc (dr sf) = r /\ Idx sf /\
               forall k, node_at sf k = if k =? j then Some ndf else node_at s k).
    { destruct count.
      - apply bind_ok in H as (u5 & sf & E & H). apply Preempt2.upd_node_ok in E as (n0 & Hn0 & ->).
        rewrite Nd, Z.eqb_refl in Hn0. injection Hn0 as <-. exists (set_node (nda <| n_insvc := n_insvc nda + 1 |>) sd).
        assert (Hne : node_at sd (n_id (nda <| n_insvc := n_insvc nda + 1 |>)) <> None)
          by (change (node_at sd (n_id nd) <> None); rewrite Hnid, Nd, Z.eqb_refl; discriminate).
        split; [exact H|]. split; [reflexivity|]. split; [exact Td|]. split; [exact Ld|]. split; [exact Dd|].
        split; [apply Preempt2.Idx_set_node; assumption|]. intros k. rewrite (Preempt2.node_at_set_node _ _ _ Hne).
        change (n_id (nda <| n_insvc := n_insvc nda + 1 |>)) with (n_id nd). rewrite Hnid. destruct (k =? j) eqn:Ek; [reflexivity|].
        rewrite Nd, Ek. reflexivity.
      - apply bind_ok in H as (u5 & sf & E & H). apply ret_ok in E as [_ ->]. exists sd.
        split; [exact H|]. split; [reflexivity|]. split; [exact Td|]. split; [exact Ld|]. split; [exact Dd|]. split; [exact HId|].
        intros k. rewrite Nd. destruct (k =? j); [|reflexivity]. subst ndf nda. destruct nd; reflexivity. }
    destruct Hf as (sf & Hrun & If & Tf & Lf & Df & HIf & Nf).
    apply bind_ok in Hrun as (u6 & sg & E & Hrun). apply (Preempt2.reset_class_change_cc _ _ _ _ _ _ HIf) in E.
    destruct E as (Tg & Lg & Dg & Og & Ng & HIg).
    assert (Hndg : exists ndg, node_at sg j = Some ndg /\ ecc_node ndg = ecc_node ndf).
    { specialize (Ng j). unfold Preempt2.onode in Ng. rewrite Nf, Z.eqb_refl in Ng. destruct (node_at sg j) as [ndg|]; [|discriminate Ng].
      exists ndg. split; [reflexivity|]. change (Some (ecc_node ndg) = Some (ecc_node ndf)) in Ng. apply Preempt2.Some_inj in Ng. exact Ng. }
    destruct Hndg as (ndg & Hndg & Endg).
    assert (Og' : forall k, oind sg k = if k =? i then Some (ecc_ind (fresh_started osid (now s) st x)) else oind s k).
    { intros k. rewrite Og. unfold Preempt2.oind at 1. rewrite If, Fd. destruct (k =? i); reflexivity. }
    destruct osid as [sid|].
    - unfold set_next_end in Hrun. destruct (Preempt2.upd_server_obs _ _ _ _ _ _ _ Hrun HIg Hndg) as (Ih & Th & Lh & Dh & HIh & Nh).
      exists st. split; [rewrite Dh, Dg, Df; exact Hd|]. split; [congruence|]. split; [congruence|]. split; [exact HIh|]. split.
      + intros k. unfold Preempt2.oind at 1. rewrite Ih. fold (oind sg k). apply Og'.
      + intros k. unfold Preempt2.onode at 1. rewrite Nh. destruct (k =? j) eqn:Ek.
        * cbn [option_map]. f_equal.
          change (ecc_node (ndg <| n_servers := srv_upd sid (fun sv => sv <| sv_next_end := Some (now s + st) |>) (n_servers ndg) |>))
            with ((ecc_node ndg) <| n_servers := srv_upd sid (fun sv => sv <| sv_next_end := Some (now s + st) |>) (n_servers (ecc_node ndg)) |>).
          rewrite Endg.
          change (n_servers (ecc_node ndf)) with (srv_upd sid (fun sv => sv <| sv_cust := Some i |> <| sv_busy := true |>) (n_servers nd)).
          rewrite Preempt2.srv_upd_comp by (intros sv; reflexivity).
          subst ndf nda. unfold fresh_servers. destruct nd; reflexivity.
        * fold (onode sg k). rewrite Ng. unfold Preempt2.onode. rewrite Nf, Ek. reflexivity.
    - apply ret_ok in Hrun as [_ ->].
      exists st. split; [rewrite Dg, Df; exact Hd|]. split; [congruence|]. split; [congruence|]. split; [exact HIg|]. split; [exact Og'|].
      intros k. rewrite Ng. unfold Preempt2.onode. rewrite Nf. destruct (k =? j); [|reflexivity].
      subst ndf nda. unfold fresh_servers. destruct nd; reflexivity.
  Qed.

  (* reading the two equations of the specifications in plain fields *)
  Lemma oind_fields s' i y : oind s' i = Some (ecc_ind y) ->
    exists x', find_ind i (inds s') = Some x' /\ i_sst x' = i_sst y /\ i_stime x' = i_stime y /\ i_smark x' = i_smark y /\
      i_send x' = i_send y /\ i_server x' = i_server y /\ i_interrupted x' = i_interrupted y /\ i_tleft x' = i_tleft y /\ i_ost x' = i_ost y.
  Proof.
    unfold Preempt2.oind. destruct (find_ind i (inds s')) as [x'|]; [|discriminate]. cbn [option_map]. intros H. apply Preempt2.Some_inj in H.
    exists x'. split; [reflexivity|].
    split; [exact (f_equal i_sst H)|]. split; [exact (f_equal i_stime H)|]. split; [exact (f_equal i_smark H)|].
    split; [exact (f_equal i_send H)|]. split; [exact (f_equal i_server H)|]. split; [exact (f_equal i_interrupted H)|].
    split; [exact (f_equal i_tleft H)|exact (f_equal i_ost H)].
  Qed.
  Lemma onode_server s' j n0 sid i t st l sv : onode s' j = Some (ecc_node n0) -> n_servers n0 = srv_upd sid (serving i t st) l ->
    find_server sid l = Some sv ->
    exists nd' sv', node_at s' j = Some nd' /\ find_server sid (n_servers nd') = Some sv' /\
      sv_cust sv' = Some i /\ sv_busy sv' = true /\ sv_next_end sv' = Some (t + st).
  Proof.
    unfold Preempt2.onode. destruct (node_at s' j) as [nd'|]; [|discriminate]. cbn [option_map]. intros H Hs Hf. apply Preempt2.Some_inj in H.
    exists nd', (serving i t st sv). split; [reflexivity|].
    assert (E : n_servers nd' = n_servers n0) by exact (f_equal n_servers H). rewrite E, Hs. unfold Preempt2.srv_upd. rewrite Hf.
    split; [|split; [reflexivity|split; reflexivity]].
    apply (Preempt2.find_put_server _ _ _ _ Hf). change (sv_id (serving i t st sv)) with (sv_id sv). eapply Preempt2.find_server_id. exact Hf.
  Qed.

  (* C10, service times, fresh start (Node.begin_service_if_possible_accept): the customer is stamped with start = now, the NEXT
     service-time sample, end = start + sample; the server it is given (finite node) carries the same end date *)
  Theorem start_fresh_stamps j i osid count s u s' x nd : start_fresh cf j i osid count s = Ok (u, s') -> Idx s ->
    find_ind i (inds s) = Some x -> node_at s j = Some nd ->
    exists st x', d_svc (dr s) = st :: d_svc (dr s') /\ find_ind i (inds s') = Some x' /\
      i_sst x' = Some (now s) /\ i_stime x' = Some st /\ i_smark x' = 0 /\ i_send x' = Some (now s + st) /\
      forall sid sv, osid = Some sid -> find_server sid (n_servers nd) = Some sv ->
        i_server x' = Some sid /\
        exists nd' sv', node_at s' j = Some nd' /\ find_server sid (n_servers nd') = Some sv' /\
          sv_cust sv' = Some i /\ sv_busy sv' = true /\ sv_next_end sv' = Some (now s + st).
  Proof.
    intros H HI Hx Hn. destruct (start_fresh_spec _ _ _ _ _ _ _ _ _ H HI Hx Hn) as (st & Hd & _ & _ & _ & Oi & On).
    specialize (Oi i). rewrite Z.eqb_refl in Oi. apply oind_fields in Oi as (x' & Hx' & F1 & F2 & F3 & F4 & F5 & _).
    exists st, x'. split; [exact Hd|]. split; [exact Hx'|]. split; [exact F1|]. split; [exact F2|]. split; [exact F3|]. split; [exact F4|].
    intros sid sv -> Hf. split; [exact F5|]. specialize (On j). rewrite Z.eqb_refl in On.
    eapply onode_server; [exact On|reflexivity|exact Hf].
  Qed.

  (* the blocks that start a service through give_individual_a_service_time (begin_service_if_possible_release / _change_shift:
     start_give; preempt: start_preemptor): the service time is `given x draws` (Preempt2.v): a customer without marker and
     without service time gets the NEXT sample; one that already carries a service time keeps it; marker resume / restart /
     resample: time_left / original service time / the next sample (Preempt2.resume_gives_time_left, restart_gives_original,
     resample_gives_fresh, re-exported below) *)
  Theorem start_give_stamps j i sid s u s' x nd : start_give cf j i sid s = Ok (u, s') -> Idx s ->
    find_ind i (inds s) = Some x -> node_at s j = Some nd ->
    exists st x', given x (d_svc (dr s)) = Some (st, d_svc (dr s')) /\ find_ind i (inds s') = Some x' /\
      i_sst x' = Some (now s) /\ i_stime x' = Some st /\ i_smark x' = 0 /\ i_send x' = Some (now s + st) /\ i_server x' = Some sid /\
      forall sv, find_server sid (n_servers nd) = Some sv ->
        exists nd' sv', node_at s' j = Some nd' /\ find_server sid (n_servers nd') = Some sv' /\
          sv_cust sv' = Some i /\ sv_busy sv' = true /\ sv_next_end sv' = Some (now s + st).
  Proof.
    intros H HI Hx Hn. destruct (Preempt2.start_give_spec _ _ _ _ _ _ _ _ _ H HI Hx Hn) as (st & Hg & _ & _ & _ & Oi & On).
    specialize (Oi i). rewrite Z.eqb_refl in Oi. apply oind_fields in Oi as (x' & Hx' & F1 & F2 & F3 & F4 & F5 & _).
    exists st, x'. split; [exact Hg|]. split; [exact Hx'|]. split; [exact F1|]. split; [exact F2|]. split; [exact F3|]. split; [exact F4|].
    split; [exact F5|]. intros sv Hf. specialize (On j). rewrite Z.eqb_refl in On. eapply onode_server; [exact On|reflexivity|exact Hf].
  Qed.
  Theorem start_preemptor_stamps j i sid s u s' x nd : start_preemptor cf j i sid s = Ok (u, s') -> Idx s ->
    find_ind i (inds s) = Some x -> node_at s j = Some nd ->
    exists st x', given x (d_svc (dr s)) = Some (st, d_svc (dr s')) /\ find_ind i (inds s') = Some x' /\
      i_sst x' = Some (now s) /\ i_stime x' = Some st /\ i_smark x' = 0 /\ i_send x' = Some (now s + st) /\ i_server x' = Some sid /\
      forall sv, find_server sid (n_servers nd) = Some sv ->
        exists nd' sv', node_at s' j = Some nd' /\ find_server sid (n_servers nd') = Some sv' /\
          sv_cust sv' = Some i /\ sv_busy sv' = true /\ sv_next_end sv' = Some (now s + st).
  Proof.
    intros H HI Hx Hn. destruct (Preempt2.start_preemptor_spec _ _ _ _ _ _ _ _ _ H HI Hx Hn) as (st & Hg & _ & _ & _ & Oi & On).
    specialize (Oi i). rewrite Z.eqb_refl in Oi. apply oind_fields in Oi as (x' & Hx' & F1 & F2 & F3 & F4 & F5 & _).
    exists st, x'. split; [exact Hg|]. split; [exact Hx'|]. split; [exact F1|]. split; [exact F2|]. split; [exact F3|]. split; [exact F4|].
    split; [exact F5|]. intros sv Hf. specialize (On j). rewrite Z.eqb_refl in On. eapply onode_server; [exact On|reflexivity|exact Hf].
  Qed.

  (* `given`, case by case *)
  Lemma given_fresh x d st d' : i_smark x = 0 -> i_stime x = None -> given x d = Some (st, d') -> d = st :: d'.
  Proof. unfold Preempt2.given. intros -> ->. cbn. destruct d as [|a r]; [discriminate|]. intros H. injection H as <- <-. reflexivity. Qed.
  Lemma given_assigned x d st d' o : i_smark x = 0 -> i_stime x = Some o -> given x d = Some (st, d') -> st = o /\ d' = d.
  Proof. unfold Preempt2.given. intros -> ->. cbn. intros H. injection H as <- <-. split; reflexivity. Qed.
  Lemma given_resume x d st d' : i_smark x = 1 -> given x d = Some (st, d') -> i_tleft x = Some st /\ d' = d.
  Proof. unfold Preempt2.given. intros ->. cbn. destruct (i_tleft x); [|discriminate]. cbn. intros H. injection H as <- <-. split; reflexivity. Qed.
  Lemma given_restart x d st d' : i_smark x = 2 -> given x d = Some (st, d') -> i_ost x = Some st /\ d' = d.
  Proof. unfold Preempt2.given. intros ->. cbn. destruct (i_ost x); [|discriminate]. cbn. intros H. injection H as <- <-. split; reflexivity. Qed.
  Lemma given_resample x d st d' : i_smark x = 3 -> given x d = Some (st, d') -> d = st :: d'.
  Proof. unfold Preempt2.given. intros ->. cbn. destruct d as [|a r]; [discriminate|]. intros H. injection H as <- <-. reflexivity. Qed.
  (* any other marker is a Python TypeError (arithmetic on a string), never a silently wrong service time *)
  Lemma given_marker x d : i_smark x <> 0 -> i_smark x <> 1 -> i_smark x <> 2 -> i_smark x <> 3 -> given x d = None.
  Proof. unfold Preempt2.given. intros H0 H1 H2 H3. apply Z.eqb_neq in H0, H1, H2, H3. rewrite H0, H1, H2, H3. reflexivity. Qed.

  (* the fresh branch of give_individual_a_service_time: a customer that starts its first service at this node after waiting
     is stamped with the NEXT service-time sample *)
  Corollary start_give_fresh j i sid s u s' x nd : start_give cf j i sid s = Ok (u, s') -> Idx s ->
    find_ind i (inds s) = Some x -> node_at s j = Some nd -> i_smark x = 0 -> i_stime x = None ->
    exists st x', d_svc (dr s) = st :: d_svc (dr s') /\ find_ind i (inds s') = Some x' /\
      i_sst x' = Some (now s) /\ i_stime x' = Some st /\ i_smark x' = 0 /\ i_send x' = Some (now s + st) /\ i_server x' = Some sid /\
      forall sv, find_server sid (n_servers nd) = Some sv ->
        exists nd' sv', node_at s' j = Some nd' /\ find_server sid (n_servers nd') = Some sv' /\
          sv_cust sv' = Some i /\ sv_busy sv' = true /\ sv_next_end sv' = Some (now s + st).
  Proof.
    intros H HI Hx Hn Hm Hs. destruct (start_give_stamps _ _ _ _ _ _ _ _ H HI Hx Hn) as (st & x' & Hg & R).
    exists st, x'. split; [eapply given_fresh; eassumption|exact R].
  Qed.
End Starts.

(* the three ways a service time is given back after an interruption, and the restart of a customer interrupted by a schedule
   (proved in Preempt2.v) *)
Definition resume_gives_time_left := Preempt2.resume_gives_time_left.
Definition restart_gives_original := Preempt2.restart_gives_original.
Definition resample_gives_fresh := Preempt2.resample_gives_fresh.
Definition give_after_resume := Preempt2.give_after_resume.
Definition give_after_restart := Preempt2.give_after_restart.
Definition give_after_resample := Preempt2.give_after_resample.
Definition give_after_needs_attr := Preempt2.give_after_needs_attr.
Definition give_individual_given := Preempt2.give_individual_ok.
Definition interrupted_restart_spec := Preempt2.biis_spec.

(* ================================================================================================================ *)
(* Part 4: (c) the stamps over runs -- EVERY configuration                                                          *)
(*         one Hoare-style walk over the whole engine for any per-customer predicate R that depends on the four      *)
(*         service stamps only, holds of a customer without start date, and holds of a customer started now          *)
(* ================================================================================================================ *)
Notation hoare := Preempt2.hoare.
Notation FA := Preempt2.FA.

Definition RelT (s s' : sim) : Prop := now s' = now s.
Lemma RelT_refl s : RelT s s. Proof. reflexivity. Qed.
Lemma RelT_trans a b c : RelT a b -> RelT b c -> RelT a c. Proof. unfold RelT. congruence. Qed.
Definition RelI (s s' : sim) : Prop := inds s' = inds s.
Lemma RelI_refl s : RelI s s. Proof. reflexivity. Qed.
Lemma RelI_trans a b c : RelI a b -> RelI b c -> RelI a c. Proof. unfold RelI. congruence. Qed.

Create HintDb s2ipdb.
Section GW.
  Variable cf : config.
  Variable t0 : Z.                      (* the clock during the event *)
  Variable R : ind -> Prop.
  Hypothesis Hext : forall x y, i_id y = i_id x -> i_sst y = i_sst x -> i_stime y = i_stime x -> i_send y = i_send x ->
    i_smark y = i_smark x -> R x -> R y.
  Hypothesis Hclear : forall y, i_sst y = None -> R y.
  Hypothesis Hstart : forall y, i_sst y = Some t0 -> i_smark y = 0 -> i_send y = Some (t0 + numo (i_stime y)) -> R y.

  (* record identifiers are distinct, every record satisfies P, and the clock stands at t0 *)
  Definition J (P : ind -> Prop) (s : sim) : Prop := FA P s /\ now s = t0.
  Definition ip {X} (mm : M X) : Prop := hoare (J R) mm (fun _ => J R).

  (* ---------- generic rules ---------- *)
  Lemma h_frame {X} (P : ind -> Prop) (mm : M X) : (forall s a s', mm s = Ok (a, s') -> inds s' = inds s /\ now s' = now s) ->
    hoare (J P) mm (fun _ => J P).
  Proof. intros Hm s a s' HP H. destruct (Hm _ _ _ H) as [E1 E2]. unfold J, Preempt2.FA. rewrite E1, E2. exact HP. Qed.
  Lemma h_lift_now {X} (P Q : ind -> Prop) (mm : M X) : hoare (FA P) mm (fun _ => FA Q) -> kr RelT mm -> hoare (J P) mm (fun _ => J Q).
  Proof. intros Hm Hn s a s' [HP HN] H. split; [eapply Hm; eassumption|]. rewrite (Hn _ _ _ H). exact HN. Qed.
  Lemma h_get_ind_bind {Y} (P : ind -> Prop) i (k : ind -> M Y) (Post : Y -> sim -> Prop) :
    (forall x, P x -> i_id x = i -> hoare (J P) (k x) Post) -> hoare (J P) (bind (get_ind i) k) Post.
  Proof.
    intros Hk s b s' HP H. apply bind_ok in H as (x & s1 & E & H). apply get_ind_ok in E as [-> Hx].
    eapply Hk; [| |exact HP|exact H].
    - destruct HP as [[_ HF] _]. rewrite Forall_forall in HF. apply HF. eapply Preempt2.find_ind_In. exact Hx.
    - eapply Preempt2.find_ind_id. exact Hx.
  Qed.
  Lemma h_tnow_bind {Y} (P : ind -> Prop) (k : Z -> M Y) (Post : Y -> sim -> Prop) :
    hoare (J P) (k t0) Post -> hoare (J P) (bind tnow k) Post.
  Proof. intros Hk s b s' HP H. apply bind_ok in H as (t & s1 & E & H). apply tnow_ok in E as [-> ->]. rewrite (proj2 HP) in H. eapply Hk; eassumption. Qed.
  Lemma h_put_ind (P Q : ind -> Prop) y : Q y -> (forall z, P z -> i_id z <> i_id y -> Q z) -> hoare (J P) (put_ind y) (fun _ => J Q).
  Proof. intros Hy Hz. apply h_lift_now; [apply Preempt2.h_put_ind; assumption|]. apply kr_modify. intros s. reflexivity. Qed.
  Lemma h_give_after (P Q : ind -> Prop) i : (forall x, P x -> Q x) ->
    (forall x st, P x -> i_id x = i -> Q (x <| i_stime := Some st |> <| i_smark := 0 |>)) ->
    hoare (J P) (give_service_time_after_preemption i) (fun _ => J Q).
  Proof.
    intros H1 H2. apply h_lift_now; [apply Preempt2.h_give_after; assumption|].
    apply (kr_gstap RelT RelT_refl RelT_trans); intros; reflexivity.
  Qed.
  Lemma h_give_individual (P : ind -> Prop) i :
    (forall x st, P x -> i_id x = i -> P (x <| i_stime := Some st |>)) ->
    (forall x st, P x -> i_id x = i -> P (x <| i_stime := Some st |> <| i_smark := 0 |>)) ->
    hoare (J P) (give_individual_a_service_time i) (fun _ => J P).
  Proof.
    intros H1 H2. apply h_lift_now; [apply Preempt2.h_give_individual; assumption|].
    apply (kr_giast RelT RelT_refl RelT_trans); intros; reflexivity.
  Qed.
  Lemma J_weaken (P Q : ind -> Prop) s : (forall x, P x -> Q x) -> J P s -> J Q s.
  Proof. intros H [HP HN]. split; [eapply Preempt2.FA_weaken; eassumption|exact HN]. Qed.

  (* ---------- the rules specialised to R ---------- *)
  Lemma ip_ret {X} (a : X) : ip (ret a). Proof. intros s b s' HP H. apply ret_ok in H as [_ ->]. exact HP. Qed.
  Lemma ip_fail {X} e : ip (@fail X e). Proof. intros s b s' _ H. discriminate H. Qed.
  Lemma ip_oof {X} : ip (@oof X). Proof. intros s a s' _ H. discriminate H. Qed.
  Lemma ip_bind {X Y} (mm : M X) (k : X -> M Y) : ip mm -> (forall a, ip (k a)) -> ip (bind mm k).
  Proof. intros Hm Hk. eapply Preempt2.h_bind; [exact Hm|exact Hk]. Qed.
  Lemma ip_tnow_bind {Y} (k : Z -> M Y) : ip (k t0) -> ip (bind tnow k). Proof. apply h_tnow_bind. Qed.
  Lemma ip_gets {X} (f : sim -> X) : ip (gets f).
  Proof. apply h_frame. intros s a s' H. apply gets_ok in H as [_ ->]. split; reflexivity. Qed.
  Lemma ip_lift {X} e (o : option X) : ip (lift e o).
  Proof. apply h_frame. intros s a s' H. apply lift_ok in H as [_ ->]. split; reflexivity. Qed.
  Lemma ip_lift_bind {X Y} e (o : option X) (k : X -> M Y) : (forall a, o = Some a -> ip (k a)) -> ip (bind (lift e o) k).
  Proof. intros Hk s b s' HP H. apply bind_ok in H as (a & s1 & E & H). apply lift_ok in E as [E ->]. eapply Hk; eassumption. Qed.
  Lemma ip_modify (f : sim -> sim) : (forall s, inds (f s) = inds s /\ now (f s) = now s) -> ip (modify f).
  Proof. intros Hf. apply h_frame. intros s a s' H. apply modify_ok in H. rewrite H. apply Hf. Qed.
  Lemma ip_get_node j : ip (get_node j).
  Proof. apply h_frame. intros s a s' H. apply get_node_ok in H as [-> _]. split; reflexivity. Qed.
  Lemma ip_get_ind i : ip (get_ind i).
  Proof. apply h_frame. intros s a s' H. apply get_ind_ok in H as [-> _]. split; reflexivity. Qed.
  Lemma ip_put_node nd : ip (put_node nd). Proof. apply ip_modify. intros s. split; reflexivity. Qed.
  Lemma ip_log_rec r : ip (log_rec r). Proof. apply ip_modify. intros s. split; reflexivity. Qed.
  Lemma ip_draw_arr : ip draw_arr. Proof. apply h_frame. intros s a s' H. unfold draw_arr in H. destruct (d_arr (dr s)); inversion H; split; reflexivity. Qed.
  Lemma ip_draw_batch : ip draw_batch. Proof. apply h_frame. intros s a s' H. unfold draw_batch in H. destruct (d_batch (dr s)); inversion H; split; reflexivity. Qed.
  Lemma ip_draw_svc : ip draw_svc. Proof. apply h_frame. intros s a s' H. unfold draw_svc in H. destruct (d_svc (dr s)); inversion H; split; reflexivity. Qed.
  Lemma ip_draw_unif : ip draw_unif. Proof. apply h_frame. intros s a s' H. unfold draw_unif in H. destruct (d_unif (dr s)); inversion H; split; reflexivity. Qed.
  Lemma ip_draw_ren : ip draw_ren. Proof. apply h_frame. intros s a s' H. unfold draw_ren in H. destruct (d_ren (dr s)); inversion H; split; reflexivity. Qed.
  Lemma ip_draw_cct : ip draw_cct. Proof. apply h_frame. intros s a s' H. unfold draw_cct in H. destruct (d_cct (dr s)); inversion H; split; reflexivity. Qed.
  Lemma ip_del_ind i : ip (del_ind i).
  Proof. apply h_lift_now; [apply Preempt2.h_del_ind|]. apply kr_modify. intros s. reflexivity. Qed.
  Lemma ip_get_ind_bind {Y} i (k : ind -> M Y) : (forall x, R x -> i_id x = i -> ip (k x)) -> ip (bind (get_ind i) k).
  Proof. apply h_get_ind_bind. Qed.
  Lemma ip_put_ind y : R y -> ip (put_ind y).
  Proof. intros Hy. apply h_put_ind; [exact Hy|]. intros z Hz _. exact Hz. Qed.
  Lemma ip_upd_ind i f : (forall x, R x -> R (f x)) -> ip (upd_ind i f).
  Proof. intros Hf. unfold upd_ind. apply ip_get_ind_bind. intros x Hx _. apply ip_put_ind. apply Hf. exact Hx. Qed.
  Lemma ip_upd_node j f : ip (upd_node j f).
  Proof. unfold upd_node. apply ip_bind; [apply ip_get_node|]. intros nd. apply ip_put_node. Qed.
  Lemma ip_mapM {X Y} (f : X -> M Y) l : (forall a, ip (f a)) -> ip (mapM f l).
  Proof. intros Hf. induction l as [|a r IH]; cbn [mapM]; [apply ip_ret|]. apply ip_bind; [apply Hf|]. intros b. apply ip_bind; [exact IH|]. intros bs. apply ip_ret. Qed.
  Lemma ip_forM {X} (f : X -> M unit) l : (forall a, ip (f a)) -> ip (forM_ l f).
  Proof. intros Hf. induction l as [|a r IH]; cbn [forM_]; [apply ip_ret|]. apply ip_bind; [apply Hf|]. intros _. exact IH. Qed.
  Lemma ip_tnow : ip tnow. Proof. apply ip_gets. Qed.
  Lemma ip_ncfg_of j : ip (ncfg_of cf j). Proof. apply ip_lift. Qed.

  #[local] Hint Resolve ip_ret ip_fail ip_oof ip_gets ip_lift ip_get_node ip_get_ind ip_put_node ip_upd_node ip_log_rec ip_del_ind
    ip_draw_arr ip_draw_batch ip_draw_svc ip_draw_unif ip_draw_ren ip_draw_cct ip_tnow ip_ncfg_of : s2ipdb.

  (* a record written back: the four stamps untouched / the start date cleared / a start at the current time *)
  Ltac solveR :=
    first
      [ match goal with
        | HR : R ?x |- R _ => apply (Hext x); [reflexivity|reflexivity|reflexivity|reflexivity|reflexivity|exact HR]
        end
      | (apply Hclear; reflexivity)
      | (apply Hstart; reflexivity) ].

  Ltac ip1 :=
    first
      [ solve [auto 1 with s2ipdb nocore]
      | (apply ip_modify; intros ?; split; reflexivity)
      | (apply ip_tnow_bind; cbv beta)
      | (apply ip_get_ind_bind; intros ? ? ?)
      | (apply ip_put_ind; solveR)
      | (apply ip_upd_ind; intros ? ?; solveR)
      | (apply ip_lift_bind; intros ? ?)
      | (apply ip_bind; [|intros])
      | (apply ip_mapM; intros) | (apply ip_forM; intros)
      | match goal with
        | |- ip (if ?b then _ else _) => destruct b
        | |- ip (match ?x with _ => _ end) => destruct x
        | |- ip (let '(_, _) := ?x in _) => destruct x
        end ].
  Ltac ip_go := repeat ip1.

  Lemma ip_choice_uniform {X} (l : list X) : ip (choice_uniform l). Proof. unfold choice_uniform. ip_go. Qed.
  Lemma ip_choice_weighted den Pw : ip (choice_weighted den Pw). Proof. unfold choice_weighted. ip_go. Qed.
  #[local] Hint Resolve ip_choice_uniform ip_choice_weighted : s2ipdb.
  Lemma ip_exit_accept i c : ip (exit_accept i c). Proof. unfold exit_accept. ip_go. Qed.
  Lemma ip_choose_next_customer j : ip (choose_next_customer cf j). Proof. unfold choose_next_customer. ip_go. Qed.
  Lemma ip_upd_server j sid f : ip (upd_server j sid f). Proof. unfold upd_server. ip_go. Qed.
  Lemma ip_find_next_class_change j : ip (find_next_class_change j). Proof. unfold find_next_class_change. ip_go. Qed.
  #[local] Hint Resolve ip_exit_accept ip_choose_next_customer ip_upd_server ip_find_next_class_change : s2ipdb.
  Lemma ip_cct_loop : forall row b best bc, ip (cct_loop row b best bc).
  Proof. induction row as [|h r IH]; intros b best bc; cbn [cct_loop]; [apply ip_ret|]. ip_go; apply IH. Qed.
  #[local] Hint Resolve ip_cct_loop : s2ipdb.
  Lemma ip_decide_class_change j i : ip (decide_class_change cf j i). Proof. unfold decide_class_change. ip_go. Qed.
  Lemma ip_reset_class_change j i : ip (reset_class_change cf j i). Proof. unfold reset_class_change. ip_go. Qed.
  #[local] Hint Resolve ip_decide_class_change ip_reset_class_change : s2ipdb.
  Lemma ip_attach_server j sid i : ip (attach_server j sid i). Proof. unfold attach_server. ip_go. Qed.
  Lemma ip_set_next_end j sid d : ip (set_next_end j sid d). Proof. unfold set_next_end. ip_go. Qed.
  Lemma ip_kill_server j sid : ip (kill_server j sid). Proof. unfold kill_server. ip_go. Qed.
  #[local] Hint Resolve ip_attach_server ip_set_next_end ip_kill_server : s2ipdb.
  Lemma ip_detatch_server j sid i : ip (detatch_server j sid i). Proof. unfold detatch_server. ip_go. Qed.
  Lemma ip_bump_rec i : ip (bump_rec i). Proof. unfold bump_rec. ip_go. Qed.
  #[local] Hint Resolve ip_detatch_server ip_bump_rec : s2ipdb.
  Lemma ip_write_individual_record j i : ip (write_individual_record cf j i). Proof. unfold write_individual_record. ip_go. Qed.
  Lemma ip_write_interruption_record j i d : ip (write_interruption_record cf j i d). Proof. unfold write_interruption_record. ip_go. Qed.
  Lemma ip_write_reneging_record j i : ip (write_reneging_record j i). Proof. unfold write_reneging_record. ip_go. Qed.
  Lemma ip_write_br_record j i ty : ip (write_br_record j i ty). Proof. unfold write_br_record. ip_go. Qed.
  Lemma ip_reset_individual_attributes i : ip (reset_individual_attributes i). Proof. unfold reset_individual_attributes. ip_go. Qed.
  #[local] Hint Resolve ip_write_individual_record ip_write_interruption_record ip_write_reneging_record ip_write_br_record ip_reset_individual_attributes : s2ipdb.
  Lemma ip_valid_dest d : ip (valid_dest d). Proof. unfold valid_dest. ip_go. Qed.
  Lemma ip_jsq_loop lb : forall ds best acc, ip (jsq_loop lb ds best acc).
  Proof. induction ds as [|d r IH]; intros best acc; cbn [jsq_loop]; [apply ip_ret|]. apply ip_bind; [apply ip_get_node|]. intros nd. cbv zeta. destruct (date_eqb _ _); [apply IH|]. destruct (date_lt _ _); apply IH. Qed.
  #[local] Hint Resolve ip_valid_dest ip_jsq_loop : s2ipdb.
  Lemma ip_jsq_next lb ds order : ip (jsq_next lb ds order). Proof. unfold jsq_next. ip_go. Qed.
  Lemma ip_get_cyc c j : ip (get_cyc c j). Proof. unfold get_cyc. ip_go. Qed.
  Lemma ip_bump_cyc c j : ip (bump_cyc c j).
  Proof. unfold bump_cyc. apply ip_modify. intros s. destruct (nthZ (cyc s) c) as [row|]; [destruct (nthZ row (j - 1))|]; split; reflexivity. Qed.
  #[local] Hint Resolve ip_jsq_next ip_get_cyc ip_bump_cyc : s2ipdb.
  Lemma ip_node_router_next r c j : ip (node_router_next r c j). Proof. unfold node_router_next. ip_go. Qed.
  #[local] Hint Resolve ip_node_router_next : s2ipdb.
  Lemma ip_next_node_for mode j i : ip (next_node_for cf mode j i). Proof. unfold next_node_for. ip_go. Qed.
  #[local] Hint Resolve ip_next_node_for : s2ipdb.
  Lemma ip_start_fresh j i osid count : ip (start_fresh cf j i osid count). Proof. unfold start_fresh. ip_go. Qed.
  #[local] Hint Resolve ip_start_fresh : s2ipdb.

  (* ---------- the blocks in which the invariant is suspended for one customer ---------- *)
  Definition Qp (i : Z) (x : ind) : Prop := (i_id x <> i -> R x) /\ (i_id x = i -> i_sst x = Some t0).
  Definition Qb (i : Z) (x : ind) : Prop := i_id x <> i -> R x.

  (* service start through give_individual_a_service_time (start_give, start_preemptor, slot_loop) *)
  Lemma ip_core i (g : ind -> Z -> ind) (rest : Z -> M unit) :
    (forall x st, i_id (g x st) = i_id x) ->
    (forall x, i_sst x = Some t0 -> i_smark x = 0 -> R (g x (numo (i_stime x)))) ->
    (forall st, ip (rest st)) ->
    ip (upd_ind i (fun x => x <| i_sst := Some t0 |>) ;;; give_individual_a_service_time i ;;;
        x <- get_ind i ;; st <- stime_num x ;; put_ind (g x st) ;;; rest st).
  Proof.
    intros Hgid Hg Hrest. eapply Preempt2.h_bind with (Mid := fun _ => J (Qp i)).
    { unfold upd_ind. apply h_get_ind_bind. intros x Hx Hid. apply h_put_ind.
      - split; [intros Hne; contradiction Hne|intros _; reflexivity].
      - intros z Hz Hne. change (i_id (x <| i_sst := Some t0 |>)) with (i_id x) in Hne. rewrite Hid in Hne.
        split; [intros _; exact Hz|intros E; contradiction]. }
    intros _. eapply Preempt2.h_bind with (Mid := fun _ => J (Qp i)).
    { apply h_give_individual; intros x st (Hb & Hc) Hid; (split; [intros Hne; exfalso; apply Hne; exact Hid|intros _; apply Hc; exact Hid]). }
    intros _. apply h_get_ind_bind. intros x (_ & Hxs) Hid. specialize (Hxs Hid).
    unfold stime_num. destruct (i_smark x =? 0) eqn:E0; [|intros s a s' _ H; discriminate H].
    apply Z.eqb_eq in E0. intros s b s' HP H. apply bind_ok in H as (st & s1 & E & H). apply ret_ok in E as [-> ->].
    revert s b s' HP H. change (hoare (J (Qp i)) (put_ind (g x (numo (i_stime x))) ;;; rest (numo (i_stime x))) (fun _ => J R)).
    eapply Preempt2.h_bind with (Mid := fun _ => J R); [|intros _; apply Hrest].
    apply h_put_ind; [apply Hg; assumption|]. intros z (Hz & _) Hne. apply Hz. rewrite Hgid, Hid in Hne. exact Hne.
  Qed.

  (* restart of a customer interrupted by a schedule (begin_interrupted_individuals_service) *)
  Lemma ip_core_biis i (rest : Z -> Z -> M unit) : (forall st, ip (rest t0 st)) ->
    ip (give_service_time_after_preemption i ;;; t <- tnow ;; x1 <- get_ind i ;; st <- stime_num x1 ;;
        put_ind (x1 <| i_sst := Some t |> <| i_send := Some (t + st) |> <| i_interrupted := false |>) ;;; rest t st).
  Proof.
    intros Hrest. eapply Preempt2.h_bind with (Mid := fun _ => J (Qb i)).
    { apply h_give_after.
      - intros x Hx _. exact Hx.
      - intros x st Hx Hid Hne. contradiction Hne. }
    intros _. apply h_tnow_bind. apply h_get_ind_bind. intros x _ Hid.
    unfold stime_num. destruct (i_smark x =? 0) eqn:E0; [|intros s a s' _ H; discriminate H].
    apply Z.eqb_eq in E0. intros s b s' HP H. apply bind_ok in H as (st & s1 & E & H). apply ret_ok in E as [-> ->].
    revert s b s' HP H.
    change (hoare (J (Qb i)) (put_ind (x <| i_sst := Some t0 |> <| i_send := Some (t0 + numo (i_stime x)) |> <| i_interrupted := false |>) ;;; rest t0 (numo (i_stime x))) (fun _ => J R)).
    eapply Preempt2.h_bind with (Mid := fun _ => J R); [|intros _; apply Hrest].
    apply h_put_ind.
    - apply Hstart; [reflexivity|exact E0|reflexivity].
    - intros z Hz Hne. apply Hz. change (i_id z <> i_id x) in Hne. rewrite Hid in Hne. exact Hne.
  Qed.

  Lemma ip_start_body bump j i sid : ip (Preempt2.start_body cf bump j i sid).
  Proof.
    unfold Preempt2.start_body. apply ip_bind; [apply ip_attach_server|]. intros _. apply ip_tnow_bind.
    apply ip_core.
    - intros x st. reflexivity.
    - intros x Hs Hm. apply Hstart; [exact Hs|exact Hm|reflexivity].
    - intros st. destruct bump; ip_go.
  Qed.
  Lemma ip_start_give j i sid : ip (start_give cf j i sid). Proof. rewrite Preempt2.start_give_body. apply ip_start_body. Qed.
  Lemma ip_start_preemptor j i sid : ip (start_preemptor cf j i sid). Proof. rewrite Preempt2.start_preemptor_body. apply ip_start_body. Qed.
  #[local] Hint Resolve ip_start_give ip_start_preemptor : s2ipdb.
  Lemma ip_biis j sid : ip (begin_interrupted_individuals_service j sid).
  Proof.
    unfold begin_interrupted_individuals_service.
    apply ip_bind; [apply ip_get_node|]. intros nd. apply ip_bind; [apply ip_lift|]. intros i.
    apply ip_get_ind_bind. intros x Hx Hid. apply ip_bind; [ip_go|]. intros _.
    apply ip_bind; [apply ip_attach_server|]. intros _. apply ip_core_biis. intros st. ip_go.
  Qed.
  #[local] Hint Resolve ip_biis : s2ipdb.
  Lemma ip_serve_with j sid : ip (serve_with cf j sid). Proof. unfold serve_with. ip_go. Qed.
  #[local] Hint Resolve ip_serve_with : s2ipdb.
  Lemma ip_bsipr j freed : ip (begin_service_if_possible_release cf j freed). Proof. unfold begin_service_if_possible_release. ip_go. Qed.
  Lemma ip_get_reneging_date j i : ip (get_reneging_date cf j i). Proof. unfold get_reneging_date. ip_go. Qed.
  Lemma ip_preempt_victim j i : ip (preempt_victim cf j i). Proof. unfold preempt_victim. ip_go. Qed.
  Lemma ip_block_individual j i d : ip (block_individual j i d). Proof. unfold block_individual. ip_go. Qed.
  #[local] Hint Resolve ip_bsipr ip_get_reneging_date ip_preempt_victim ip_block_individual : s2ipdb.

  (* ---------- the release of one customer i whose record is excepted from the invariant ---------- *)
  (* (this is what makes the invariants hold in EVERY configuration: when the blocking of a customer that a pre-emptive schedule
     has interrupted ends, release_blocked_individual gives it back its original start date and an end date computed from its
     original service time -- possibly inconsistent with a service time it carries -- and releases it at once; release clears
     the stamps before anything else can look at them) *)
  Definition iq (i : Z) {X} (mm : M X) : Prop := hoare (J (Qb i)) mm (fun _ => J (Qb i)).
  Definition hq (i : Z) {X} (mm : M X) : Prop := hoare (J (Qb i)) mm (fun _ => J R).
  Lemma J_Qb i s : J R s -> J (Qb i) s.
  Proof. apply J_weaken. intros x Hx _. exact Hx. Qed.
  Lemma iq_frame i {X} (mm : M X) : (forall s a s', mm s = Ok (a, s') -> inds s' = inds s /\ now s' = now s) -> iq i mm.
  Proof. apply h_frame. Qed.
  Lemma iq_bind i {X Y} (mm : M X) (k : X -> M Y) : iq i mm -> (forall a, iq i (k a)) -> iq i (bind mm k).
  Proof. intros Hm Hk. eapply Preempt2.h_bind; [exact Hm|exact Hk]. Qed.
  Lemma iq_ret i {X} (a : X) : iq i (ret a). Proof. intros s b s' HP H. apply ret_ok in H as [_ ->]. exact HP. Qed.
  Lemma iq_fail i {X} e : iq i (@fail X e). Proof. intros s b s' _ H. discriminate H. Qed.
  Lemma iq_gets i {X} (f : sim -> X) : iq i (gets f).
  Proof. apply iq_frame. intros s a s' H. apply gets_ok in H as [_ ->]. split; reflexivity. Qed.
  Lemma iq_lift i {X} e (o : option X) : iq i (lift e o).
  Proof. apply iq_frame. intros s a s' H. apply lift_ok in H as [_ ->]. split; reflexivity. Qed.
  Lemma iq_get_node i j : iq i (get_node j).
  Proof. apply iq_frame. intros s a s' H. apply get_node_ok in H as [-> _]. split; reflexivity. Qed.
  Lemma iq_modify i (f : sim -> sim) : (forall s, inds (f s) = inds s /\ now (f s) = now s) -> iq i (modify f).
  Proof. intros Hf. apply iq_frame. intros s a s' H. apply modify_ok in H. rewrite H. apply Hf. Qed.
  Lemma iq_put_node i nd : iq i (put_node nd). Proof. apply iq_modify. intros s. split; reflexivity. Qed.
  Lemma iq_log_rec i r : iq i (log_rec r). Proof. apply iq_modify. intros s. split; reflexivity. Qed.
  Lemma iq_tnow i : iq i tnow. Proof. apply iq_gets. Qed.
  Lemma iq_ncfg_of i j : iq i (ncfg_of cf j). Proof. apply iq_lift. Qed.
  Lemma iq_get_ind_bind i {Y} (k : ind -> M Y) : (forall x, i_id x = i -> iq i (k x)) -> iq i (bind (get_ind i) k).
  Proof. intros Hk. apply h_get_ind_bind. intros x _ Hid. apply Hk. exact Hid. Qed.
  Lemma iq_put_ind i y : i_id y = i -> iq i (put_ind y).
  Proof. intros Hy. apply h_put_ind; [intros Hne; contradiction|]. intros z Hz _. exact Hz. Qed.
  Lemma iq_upd_ind i f : (forall x, i_id (f x) = i_id x) -> iq i (upd_ind i f).
  Proof. intros Hf. unfold upd_ind. apply iq_get_ind_bind. intros x Hid. apply iq_put_ind. rewrite Hf. exact Hid. Qed.
  Lemma iq_bump_rec i : iq i (bump_rec i). Proof. unfold bump_rec. apply iq_upd_ind. reflexivity. Qed.
  Lemma iq_write_individual_record i j : iq i (write_individual_record cf j i).
  Proof.
    unfold write_individual_record. apply iq_get_ind_bind. intros x Hid. apply iq_bind; [apply iq_get_node|]. intros nd.
    apply iq_bind; [apply iq_ncfg_of|]. intros nc. apply iq_bind.
    { destruct (_ || _); [apply iq_ret|]. apply iq_bind; [apply iq_lift|]. intros sid. apply iq_ret. }
    intros sid. apply iq_bind; [apply iq_log_rec|]. intros _. apply iq_bump_rec.
  Qed.
  Lemma iq_kill_server i j sid : iq i (kill_server j sid).
  Proof.
    unfold kill_server. apply iq_bind; [apply iq_tnow|]. intros t. apply iq_bind; [apply iq_get_node|]. intros nd.
    apply iq_bind; [apply iq_lift|]. intros sv. apply iq_put_node.
  Qed.
  Lemma iq_detatch_server i j sid : iq i (detatch_server j sid i).
  Proof.
    unfold detatch_server. apply iq_bind; [apply iq_tnow|]. intros t. apply iq_bind; [apply iq_get_node|]. intros nd.
    apply iq_get_ind_bind. intros x Hid. apply iq_bind; [apply iq_put_ind; exact Hid|]. intros _.
    destruct (find_server _ _) as [sv|]; [|apply iq_ret]. apply iq_bind; [apply iq_put_node|]. intros _.
    destruct (sv_offduty sv); [apply iq_kill_server|apply iq_ret].
  Qed.
  Lemma hq_reset i : hq i (reset_individual_attributes i).
  Proof.
    unfold reset_individual_attributes, upd_ind. apply h_get_ind_bind. intros x _ Hid. apply h_put_ind.
    - apply Hclear. reflexivity.
    - intros z Hz Hne. apply Hz. change (i_id z <> i_id x) in Hne. rewrite Hid in Hne. exact Hne.
  Qed.
  Lemma hq_bind_q i {X Y} (mm : M X) (k : X -> M Y) : iq i mm -> (forall a, hq i (k a)) -> hq i (bind mm k).
  Proof. intros Hm Hk. eapply Preempt2.h_bind; [exact Hm|exact Hk]. Qed.
  Lemma hq_bind_p i {X Y} (mm : M X) (k : X -> M Y) : hq i mm -> (forall a, ip (k a)) -> hq i (bind mm k).
  Proof. intros Hm Hk. eapply Preempt2.h_bind; [exact Hm|exact Hk]. Qed.
  Lemma hq_ip i {X} (mm : M X) : hq i mm -> ip mm.
  Proof. intros H s a s' HP E. eapply H; [apply J_Qb; exact HP|exact E]. Qed.

  (* ---------- the recursive core ---------- *)
  Lemma hq_release_body acc rbi j i d rr : (forall d' i', ip (acc d' i')) -> (forall j', ip (rbi j')) -> hq i (Route2.release_body cf acc rbi j i d rr).
  Proof.
    intros Ha Hr. unfold Route2.release_body.
    apply hq_bind_q; [apply iq_tnow|]. intros t. unfold hq. apply h_get_ind_bind. intros x _ Hid.
    apply hq_bind_q; [apply iq_get_node|]. intros nd. apply hq_bind_q; [apply iq_ncfg_of|]. intros nc.
    apply hq_bind_q; [apply iq_lift|]. intros q. apply hq_bind_q; [apply iq_lift|]. intros q'.
    apply hq_bind_q; [apply iq_put_node|]. intros _. apply hq_bind_q; [apply iq_put_ind; exact Hid|]. intros _.
    apply hq_bind_q; [destruct rr; [apply iq_ret|apply iq_write_individual_record]|]. intros _.
    apply hq_bind_q.
    { destruct (_ && _); [|apply iq_ret]. apply iq_get_ind_bind. intros x1 Hid1. apply iq_bind; [apply iq_lift|]. intros sid.
      apply iq_bind; [apply iq_detatch_server|]. intros _. apply iq_ret. }
    intros freed. apply hq_bind_q; [destruct (nc_slotted nc); [apply iq_upd_ind; reflexivity|apply iq_ret]|]. intros _.
    apply hq_bind_p; [apply hq_reset|]. intros _.
    apply ip_bind; [destruct rr; [apply ip_ret|apply ip_bsipr]|]. intros _.
    apply ip_bind; [destruct (d =? -1); [apply ip_exit_accept|apply Ha]|]. intros _.
    destruct rr; [apply ip_ret|apply Hr].
  Qed.
  Lemma ip_rbi_body rel j : (forall a b c e, hq b (rel a b c e)) -> ip (Route2.rbi_body cf rel j).
  Proof.
    intros Hr. unfold Route2.rbi_body. apply ip_bind; [apply ip_get_node|]. intros nd. apply ip_bind; [apply ip_ncfg_of|]. intros nc.
    destruct (_ && _); [|apply ip_ret]. destruct (n_bq nd) as [|[from y] rest]; [apply ip_fail|].
    apply ip_bind; [apply ip_get_node|]. intros fnd. apply ip_bind; [destruct (memZ _ _); [apply ip_ret|apply ip_fail]|]. intros _.
    apply ip_bind; [apply ip_put_node|]. intros _. unfold ip. apply h_get_ind_bind. intros yx Hyx Hid.
    eapply Preempt2.h_bind with (Mid := fun _ => J (Qb y)); [|intros _; apply Hr].
    destruct (i_interrupted yx).
    - eapply Preempt2.h_bind with (Mid := fun _ => J R); [apply ip_lift|]. intros os.
      eapply Preempt2.h_bind with (Mid := fun _ => J R); [apply ip_lift|]. intros ot.
      eapply Preempt2.h_bind with (Mid := fun _ => J (Qb y)).
      { apply h_put_ind; [intros Hne; contradiction Hne|]. intros z Hz _ _. exact Hz. }
      intros _. apply (iq_bind y); [apply iq_get_node|]. intros fnd2. apply (iq_bind y); [apply iq_lift|]. intros l'. apply iq_put_node.
    - intros s a s' HP H. apply ret_ok in H as [_ ->]. apply J_Qb. exact HP.
  Qed.
  Lemma ip_accept_body pre j i : (forall a b c, ip (pre a b c)) -> ip (Route2.accept_body cf pre j i).
  Proof. intros Hp. unfold Route2.accept_body. ip_go; apply Hp. Qed.
  Lemma ip_preempt_body rel j v i : (forall a b c e, ip (rel a b c e)) -> ip (Route2.preempt_body cf rel j v i).
  Proof. intros Hr. unfold Route2.preempt_body. ip_go; apply Hr. Qed.
  Lemma ip_core4 : forall f, (forall j i d rr, hq i (release cf f j i d rr)) /\ (forall j, ip (release_blocked_individual cf f j)) /\
                             (forall j i, ip (accept cf f j i)) /\ (forall j v i, ip (preempt cf f j v i)).
  Proof.
    induction f as [|f (IH1 & IH2 & IH3 & IH4)].
    - split; [|split; [|split]]; intros; [intros s a s' _ H; discriminate H|apply ip_oof|apply ip_oof|apply ip_oof].
    - split; [|split; [|split]]; intros.
      + rewrite Route2.release_S. apply hq_release_body; assumption.
      + rewrite Route2.rbi_S. apply ip_rbi_body. exact IH1.
      + rewrite Route2.accept_S. apply ip_accept_body; assumption.
      + rewrite Route2.preempt_S. apply ip_preempt_body. intros a b c e. eapply hq_ip. apply IH1.
  Qed.
  Lemma ip_release f j i d rr : ip (release cf f j i d rr). Proof. eapply hq_ip. apply ip_core4. Qed.
  Lemma ip_rbi f j : ip (release_blocked_individual cf f j). Proof. apply ip_core4. Qed.
  Lemma ip_accept f j i : ip (accept cf f j i). Proof. apply ip_core4. Qed.
  Lemma ip_preempt f j v i : ip (preempt cf f j v i). Proof. apply ip_core4. Qed.
  #[local] Hint Resolve ip_release ip_rbi ip_accept ip_preempt : s2ipdb.

  (* ---------- the events ---------- *)
  Lemma ip_decide_between l : ip (decide_between l). Proof. unfold decide_between. ip_go. Qed.
  Lemma ip_change_customer_class j i : ip (change_customer_class cf j i). Proof. unfold change_customer_class. ip_go. Qed.
  Lemma ip_has_space d : ip (has_space cf d). Proof. unfold has_space. ip_go. Qed.
  #[local] Hint Resolve ip_decide_between ip_change_customer_class ip_has_space : s2ipdb.
  Lemma ip_finish_service j : ip (finish_service cf j). Proof. unfold finish_service. ip_go. Qed.
  Lemma ip_renege j : ip (renege cf j). Proof. unfold renege. ip_go. Qed.
  Lemma ip_interrupt_service f j i pre : ip (interrupt_service cf f j i pre). Proof. unfold interrupt_service. ip_go. Qed.
  Lemma ip_keyed l : ip (keyed l). Proof. unfold keyed. ip_go. Qed.
  #[local] Hint Resolve ip_finish_service ip_renege ip_interrupt_service ip_keyed : s2ipdb.
  Lemma ip_sort_interrupted_individuals j : ip (sort_interrupted_individuals j). Proof. unfold sort_interrupted_individuals. ip_go. Qed.
  Lemma ip_off_duty_loop : forall k f j idx pre se, ip (off_duty_loop cf k f j idx pre se).
  Proof. induction k as [|k IH]; intros f j idx pre se; cbn [off_duty_loop]; [apply ip_ret|]. ip_go; try apply IH. Qed.
  #[local] Hint Resolve ip_sort_interrupted_individuals ip_off_duty_loop : s2ipdb.
  Lemma ip_take_servers_off_duty f j pre : ip (take_servers_off_duty cf f j pre). Proof. unfold take_servers_off_duty. ip_go. Qed.
  Lemma ip_add_new_servers : forall k j, ip (add_new_servers k j).
  Proof. induction k as [|k IH]; intros j; cbn [add_new_servers]; [apply ip_ret|]. ip_go; try apply IH. Qed.
  Lemma ip_bsipcs j : ip (begin_service_if_possible_change_shift cf j). Proof. unfold begin_service_if_possible_change_shift. ip_go. Qed.
  #[local] Hint Resolve ip_take_servers_off_duty ip_add_new_servers ip_bsipcs : s2ipdb.
  Lemma ip_change_shift j : ip (change_shift cf j). Proof. unfold change_shift. ip_go. Qed.
  Lemma ip_slot_loop : forall k j, ip (slot_loop cf k j).
  Proof.
    induction k as [|k IH]; intros j; cbn [slot_loop]; [apply ip_ret|].
    apply ip_tnow_bind. apply ip_bind; [apply ip_get_node|]. intros nd.
    apply ip_bind; [ip_go|]. intros cand. apply ip_bind; [|intros _; apply IH].
    destruct cand as [i|]; [|apply ip_ret]. apply ip_core.
    - intros x st. reflexivity.
    - intros x Hs Hm. apply Hstart; [exact Hs|exact Hm|reflexivity].
    - intros st. ip_go.
  Qed.
  #[local] Hint Resolve ip_change_shift ip_slot_loop : s2ipdb.
  Lemma ip_slotted_service j : ip (slotted_service cf j). Proof. unfold slotted_service. ip_go. Qed.
  Lemma ip_ccww j : ip (change_customer_class_while_waiting cf j). Proof. unfold change_customer_class_while_waiting. ip_go. Qed.
  #[local] Hint Resolve ip_slotted_service ip_ccww : s2ipdb.
  Lemma ip_node_have_event j : ip (node_have_event cf j). Proof. unfold node_have_event. ip_go. Qed.
  Lemma ip_update_next_event_date j : ip (update_next_event_date cf j). Proof. unfold update_next_event_date. ip_go. Qed.
  Lemma ip_find_next_event_date : ip find_next_event_date.
  Proof. unfold find_next_event_date. apply ip_modify. intros s. destruct (find_min_dates 1 (a_dates (arr s)) (None, 0, 0)) as [[d j] c]. split; reflexivity. Qed.
  Lemma ip_sys_population : ip sys_population. Proof. unfold sys_population. ip_go. Qed.
  Lemma ip_route_of i c : ip (route_of cf i c). Proof. unfold route_of. ip_go. Qed.
  #[local] Hint Resolve ip_node_have_event ip_update_next_event_date ip_find_next_event_date ip_sys_population ip_route_of : s2ipdb.
  Lemma ip_send_individual j i : ip (send_individual cf j i). Proof. unfold send_individual. ip_go. Qed.
  #[local] Hint Resolve ip_send_individual : s2ipdb.
  Lemma ip_release_individual j i : ip (release_individual cf j i). Proof. unfold release_individual. ip_go. Qed.
  #[local] Hint Resolve ip_release_individual : s2ipdb.
  Lemma ip_batch_loop : forall n j c p, ip (batch_loop cf n j c p).
  Proof. induction n as [|n IH]; intros j c p; cbn [batch_loop]; [apply ip_ret|]. ip_go. Qed.
  #[local] Hint Resolve ip_batch_loop : s2ipdb.
  Lemma ip_arrival_have_event : ip (arrival_have_event cf). Proof. unfold arrival_have_event. ip_go. Qed.
  Lemma ip_update_all js : ip (update_all cf js).
  Proof. induction js as [|j r IH]; cbn [update_all]; [apply ip_ret|]. ip_go. Qed.
  #[local] Hint Resolve ip_arrival_have_event ip_update_all : s2ipdb.

  (* one executed event: the predicate holds of every record afterwards (the clock has then moved on) *)
  Lemma h_seq_ip {X Y} (mm : M X) (k : X -> M Y) (Post : Y -> sim -> Prop) :
    ip mm -> (forall a, hoare (J R) (k a) Post) -> hoare (J R) (bind mm k) Post.
  Proof. intros Hm Hk. eapply Preempt2.h_bind; [exact Hm|exact Hk]. Qed.
  Theorem gw_event_step : hoare (J R) (event_step cf) (fun _ s' => FA R s').
  Proof.
    unfold event_step.
    apply h_seq_ip; [ip_go|]. intros _. apply h_seq_ip; [ip_go|]. intros k. apply h_seq_ip; [ip_go|]. intros _.
    apply h_seq_ip; [ip_go|]. intros ns. apply h_seq_ip; [ip_go|]. intros _.
    intros s a s' [HP _] H. apply (kr_find_next_active_node RelI RelI_refl RelI_trans) in H; [|intros; reflexivity|intros; reflexivity].
    unfold Preempt2.FA. rewrite H. exact HP.
  Qed.
End GW.

(* ---------- instance 1: end = start + service time ---------- *)
(* per customer: whenever it carries a numeric service time (no resume / restart / resample marker) and a start date, its
   end date is their sum *)
Definition SvcP (x : ind) : Prop :=
  i_smark x = 0 -> forall a st, i_sst x = Some a -> i_stime x = Some st -> i_send x = Some (a + st).
(* the invariant: customer records have distinct identifiers and each satisfies SvcP *)
Definition SvcInv (s : sim) : Prop := FA SvcP s.

Section Inv.
  Variable cf : config.
  (* C10, service times, over runs.  EVERY configuration, every oracle, no hypothesis. *)
  Theorem event_step_SvcInv s s' : SvcInv s -> event_step cf s = Ok (tt, s') -> SvcInv s'.
  Proof.
    intros HI E. refine (gw_event_step cf (now s) SvcP _ _ _ s tt s' (conj HI eq_refl) E).
    - intros x y _ E1 E2 E3 E4 Hx. unfold SvcP. rewrite E1, E2, E3, E4. exact Hx.
    - intros y E1 _ a st Ha. rewrite E1 in Ha. discriminate Ha.
    - intros y E1 E2 E3 _ a st Ha Hs. rewrite E3, Hs. rewrite E1 in Ha. injection Ha as <-. reflexivity.
  Qed.
  Theorem run_many_SvcInv : forall ds s s', SvcInv s -> run_many cf s ds = Ok s' -> SvcInv s'.
  Proof.
    induction ds as [|d r IH]; intros s s' HI H; cbn [run_many] in H; [inversion H; subst; exact HI|].
    destruct (event_step cf (s <| dr := d |>)) as [[[] s1]| |] eqn:E; try discriminate.
    eapply IH; [|exact H]. eapply event_step_SvcInv; [|exact E]. exact HI.
  Qed.

  (* ---------- instance 2: the stamps of a service in progress are never altered ---------- *)
  (* during one event the four service stamps of a customer (start date, service time, end date, marker) either stay as they are,
     or the customer is (re)started at this very event (start date = the clock of the event; Part 3 says with what), or its
     start date is cleared (pre-empted, interrupted, released, reneged).  EVERY configuration; only distinct identifiers needed. *)
  Lemma find_ind_nodup : forall l i y, NoDup (map i_id l) -> In y l -> i_id y = i -> find_ind i l = Some y.
  Proof.
    induction l as [|z r IH]; intros i y Hd Hin Hid; [destruct Hin|]. cbn. inversion Hd as [|? ? Hn Hd']; subst.
    destruct Hin as [->|Hin]; [rewrite Z.eqb_refl; reflexivity|].
    destruct (i_id z =? i_id y) eqn:E; [|apply IH; auto]. apply Z.eqb_eq in E. exfalso. apply Hn. rewrite E. apply in_map. exact Hin.
  Qed.
  Theorem stamps_persist s s' i x x' : NoDup (map i_id (inds s)) -> event_step cf s = Ok (tt, s') ->
    find_ind i (inds s) = Some x -> find_ind i (inds s') = Some x' ->
    (i_sst x' = i_sst x /\ i_stime x' = i_stime x /\ i_send x' = i_send x /\ i_smark x' = i_smark x) \/
    i_sst x' = Some (now s) \/ i_sst x' = None.
  Proof.
    intros Hd E Hx Hx'.
    set (K := fun y : ind => i_id y = i ->
      (i_sst y = i_sst x /\ i_stime y = i_stime x /\ i_send y = i_send x /\ i_smark y = i_smark x) \/ i_sst y = Some (now s) \/ i_sst y = None).
    assert (HK : FA K s').
    { refine (gw_event_step cf (now s) K _ _ _ s tt s' (conj (conj Hd _) eq_refl) E).
      - intros a b E0 E1 E2 E3 E4 Ha Hb. rewrite E0 in Hb. rewrite E1, E2, E3, E4. exact (Ha Hb).
      - intros y E1 _. right. right. exact E1.
      - intros y E1 _ _ _. right. left. exact E1.
      - rewrite Forall_forall. intros y Hy Hid. left. rewrite (find_ind_nodup _ _ _ Hd Hy Hid) in Hx. injection Hx as ->. repeat split; reflexivity. }
    destruct HK as [_ HF]. rewrite Forall_forall in HF. apply (HF x' (Preempt2.find_ind_In _ _ _ Hx')). eapply Preempt2.find_ind_id. exact Hx'.
  Qed.
End Inv.

(* in the words of C10: whoever carries a start date and a numeric service time ends exactly at start + that service time
   (the service time is the one stamped at the start: Part 3) *)
Theorem SvcInv_means s x a st : SvcInv s -> In x (inds s) -> i_smark x = 0 -> i_sst x = Some a -> i_stime x = Some st ->
  i_send x = Some (a + st).
Proof. intros [_ HF] Hin Hm Ha Hs. rewrite Forall_forall in HF. exact (HF x Hin Hm a st Ha Hs). Qed.
Corollary run_keeps_end_date cf ds s s' i x a st : SvcInv s -> run_many cf s ds = Ok s' -> find_ind i (inds s') = Some x ->
  i_smark x = 0 -> i_sst x = Some a -> i_stime x = Some st -> i_send x = Some (a + st).
Proof. intros HI H Hx. eapply SvcInv_means; [eapply run_many_SvcInv; eassumption|eapply Preempt2.find_ind_In; exact Hx]. Qed.

(* the executable form of the invariant *)
Definition SvcP_b (x : ind) : bool :=
  if i_smark x =? 0 then
    match i_sst x, i_stime x with
    | Some a, Some st => match i_send x with Some e => e =? a + st | None => false end
    | _, _ => true
    end
  else true.
Definition SvcInv_b (s : sim) : bool := Preempt2.nodupZ_b (map i_id (inds s)) && forallb SvcP_b (inds s).
Lemma SvcP_b_sound x : SvcP_b x = true -> SvcP x.
Proof.
  unfold SvcP_b, SvcP. intros H Hm a st Ha Hs. rewrite Hm, Ha, Hs in H. cbn in H. destruct (i_send x) as [e|]; [|discriminate H].
  apply Z.eqb_eq in H. rewrite H. reflexivity.
Qed.
Theorem SvcInv_b_sound s : SvcInv_b s = true -> SvcInv s.
Proof.
  unfold SvcInv_b. intros H. apply andb_true_iff in H as [H1 H2]. split; [apply Preempt2.nodupZ_b_sound; exact H1|].
  rewrite forallb_forall in H2. rewrite Forall_forall. intros x Hx. apply SvcP_b_sound, H2, Hx.
Qed.

(* ================================================================================================================ *)
(* Part 5: (d) the records                                                                                          *)
(* ================================================================================================================ *)
Section Records.
  Variable cf : config.

  (* the service record: service start and end as stamped, service_time = end - start, which is the stamped service time *)
  Theorem write_individual_record_spec j i s s' : write_individual_record cf j i s = Ok (tt, s') ->
    exists x r, find_ind i (inds s) = Some x /\ log s' = log s ++ [r] /\ now s' = now s /\
      r_id r = i_id x /\ r_node r = j /\ r_type r = 0 /\
      r_arr r = i_arr x /\ r_sst r = i_sst x /\ r_send r = i_send x /\ r_exit r = i_exit x /\
      r_stime r = Some (numo (i_send x) - numo (i_sst x)) /\
      (SvcP x -> i_smark x = 0 -> forall a st, i_sst x = Some a -> i_stime x = Some st -> r_stime r = Some st).
  Proof.
    unfold write_individual_record. intros H.
    apply bind_ok in H as (x & s0 & E & H). apply get_ind_ok in E as [-> Hx].
    apply bind_ok in H as (nd & s0 & E & H). apply get_node_ok in E as [-> _].
    apply bind_ok in H as (nc & s0 & E & H). apply lift_ok in E as [_ ->].
    apply bind_ok in H as (sid & s0 & E & H).
    assert (s0 = s) as ->.
    { destruct (_ || _); [apply ret_ok in E as [_ ->]; reflexivity|].
      apply bind_ok in E as (s1 & s2 & E1 & E). apply lift_ok in E1 as [_ ->]. apply ret_ok in E as [_ ->]. reflexivity. }
    apply bind_ok in H as (u & s1 & E1 & H). unfold log_rec in E1. apply modify_ok in E1. subst s1.
    unfold bump_rec in H. apply Preempt2.upd_ind_ok in H as (x0 & _ & ->).
    eexists x, _. split; [exact Hx|]. split; [reflexivity|]. split; [reflexivity|]. cbn.
    split; [reflexivity|]. split; [reflexivity|]. split; [reflexivity|]. split; [reflexivity|]. split; [reflexivity|].
    split; [reflexivity|]. split; [reflexivity|]. split; [reflexivity|].
    intros HP Hm a st Ha Hs. rewrite (HP Hm a st Ha Hs), Ha. cbn. f_equal. lia.
  Qed.

  (* the record of an interrupted service: start of the stint, exit date = the interruption, service time = what
     original_service_time holds, which preempt / interrupt_service have just set to the stint's service time *)
  Theorem write_interruption_record_spec j i dest s s' : write_interruption_record cf j i dest s = Ok (tt, s') ->
    exists x r, find_ind i (inds s) = Some x /\ log s' = log s ++ [r] /\
      r_id r = i_id x /\ r_node r = j /\ r_type r = 1 /\ r_arr r = i_arr x /\ r_sst r = i_sst x /\ r_stime r = i_ost x /\
      r_send r = None /\ r_exit r = Some (now s) /\ r_dest r = dest.
  Proof.
    intros H. apply Preempt2.write_interruption_record_ok in H as (x & nc & Hx & _ & ->).
    eexists x, _. split; [exact Hx|]. split; [reflexivity|]. cbn. repeat split; reflexivity.
  Qed.

  (* a service interrupted by a shift change or a capacitated slot (every option but reroute): one record, with the start date
     and the service time of the stint that is cut short *)
  Theorem interrupt_service_record f j i pre s s' x : interrupt_service cf f j i pre s = Ok (tt, s') -> pre <> 4 ->
    find_ind i (inds s) = Some x ->
    exists r, log s' = log s ++ [r] /\ r_id r = i /\ r_node r = j /\ r_type r = 1 /\
      r_sst r = i_sst x /\ r_stime r = i_stime x /\ r_exit r = Some (now s) /\ r_send r = None.
  Proof.
    intros H Hpre Hx. pose proof (Preempt2.find_ind_id _ _ _ Hx) as Hid. unfold interrupt_service in H.
    apply bind_ok in H as (t & s0 & E & H). apply tnow_ok in E as [-> ->].
    apply bind_ok in H as (u1 & s1 & E & H). apply Preempt2.upd_ind_ok in E as (x0 & Hx0 & ->). rewrite Hx in Hx0. injection Hx0 as <-.
    apply Z.eqb_neq in Hpre. rewrite Hpre in H.
    apply bind_ok in H as (u2 & s2 & E & H). apply Preempt2.upd_node_ok in E as (nd & _ & ->).
    apply bind_ok in H as (u3 & s3 & E & H). apply Preempt2.upd_ind_ok in E as (x1 & Hx1 & ->).
    change (inds (set_node _ ?z)) with (inds z) in Hx1. rewrite Preempt2.find_set_ind in Hx1.
    change (i_id (x <| i_ost := i_stime x |>)) with (i_id x) in Hx1. rewrite Hid, Z.eqb_refl in Hx1. injection Hx1 as <-.
    apply bind_ok in H as (u4 & s4 & E & H). destruct u4. apply write_interruption_record_spec in E as (x2 & r & Hx2 & Hl & R1 & R2 & R3 & _ & R5 & R6 & R7 & R8 & _).
    rewrite Preempt2.find_set_ind in Hx2. change (i_id (x <| i_ost := i_stime x |> <| i_interrupted := true |>)) with (i_id x) in Hx2.
    rewrite Hid, Z.eqb_refl in Hx2. injection Hx2 as <-.
    apply bind_ok in H as (u5 & s5 & E & H). apply Preempt2.upd_ind_ok in E as (x3 & _ & ->).
    apply Preempt2.upd_node_ok in H as (nd2 & _ & ->).
    exists r. split; [exact Hl|]. split; [rewrite R1; exact Hid|]. split; [exact R2|]. split; [exact R3|].
    split; [exact R5|]. split; [exact R6|]. split; [exact R8|exact R7].
  Qed.

  (* nothing in the engine takes a record back: within an event the log only grows at its end *)
  Lemma log_detatch_server j sid i s u s' : detatch_server j sid i s = Ok (u, s') -> RelLog s s'.
  Proof. apply (kr_detatch_server RelLog); rel_log. Qed.
  Lemma log_upd_ind i f s u s' : upd_ind i f s = Ok (u, s') -> RelLog s s'.
  Proof. apply (kr_upd_ind RelLog); rel_log. Qed.
  Lemma log_reset i s u s' : reset_individual_attributes i s = Ok (u, s') -> RelLog s s'.
  Proof. apply (kr_reset_individual_attributes RelLog); rel_log. Qed.
  Lemma log_bsipr j freed s u s' : begin_service_if_possible_release cf j freed s = Ok (u, s') -> RelLog s s'.
  Proof. apply (kr_bsipr RelLog); rel_log. Qed.
  Lemma log_exit_accept i c s u s' : exit_accept i c s = Ok (u, s') -> RelLog s s'.
  Proof. apply (kr_exit_accept RelLog); rel_log. Qed.
  Lemma log_accept f j i s u s' : accept cf f j i s = Ok (u, s') -> RelLog s s'.
  Proof. apply (kr_accept RelLog); rel_log. Qed.
  Lemma log_rbi f j s u s' : release_blocked_individual cf f j s = Ok (u, s') -> RelLog s s'.
  Proof. apply (kr_rbi RelLog); rel_log. Qed.
  Theorem node_event_log_grows j s s' : node_have_event cf j s = Ok (tt, s') -> RelLog s s'.
  Proof. apply (kr_node_have_event RelLog); rel_log. Qed.

  (* C10, last part: a customer that leaves a node after a service (release, not the rerouting of a pre-empted customer) gets
     exactly one service record at that moment, the first thing appended to the log: start and end as stamped, exit date = now,
     service_time = end - start = the stamped service time *)
  Theorem release_writes_record f j i d s s' x : release cf (S f) j i d false s = Ok (tt, s') -> find_ind i (inds s) = Some x ->
    exists r rest, log s' = log s ++ r :: rest /\ r_id r = i /\ r_node r = j /\ r_type r = 0 /\
      r_arr r = i_arr x /\ r_sst r = i_sst x /\ r_send r = i_send x /\ r_exit r = Some (now s) /\
      r_stime r = Some (numo (i_send x) - numo (i_sst x)) /\
      (SvcP x -> i_smark x = 0 -> forall a st, i_sst x = Some a -> i_stime x = Some st -> r_stime r = Some st).
  Proof.
    intros H Hx. pose proof (Preempt2.find_ind_id _ _ _ Hx) as Hid. rewrite Route2.release_S in H. unfold Route2.release_body in H.
    apply bind_ok in H as (t & s0 & E & H). apply tnow_ok in E as [-> ->].
    apply bind_ok in H as (x0 & s0 & E & H). apply get_ind_ok in E as [-> Hx0]. rewrite Hx in Hx0. injection Hx0 as <-.
    apply bind_ok in H as (nd & s0 & E & H). apply get_node_ok in E as [-> _].
    apply bind_ok in H as (nc & s0 & E & H). apply lift_ok in E as [_ ->].
    apply bind_ok in H as (q & s0 & E & H). apply lift_ok in E as [_ ->].
    apply bind_ok in H as (q' & s0 & E & H). apply lift_ok in E as [_ ->].
    apply bind_ok in H as (u1 & s1 & E & H). apply Preempt2.put_node_ok in E. subst s1.
    apply bind_ok in H as (u2 & s2 & E & H). apply Preempt2.put_ind_ok in E. subst s2.
    apply bind_ok in H as (u3 & s3 & E & H). destruct u3.
    apply write_individual_record_spec in E as (x1 & r & Hx1 & Hl & _ & R1 & R2 & R3 & R4 & R5 & R6 & R7 & R8 & R9).
    rewrite Preempt2.find_set_ind in Hx1. cbn [i_id] in Hx1.
    match type of Hx1 with (if ?i0 =? i_id ?y then _ else _) = _ => change (i_id y) with (i_id x) in Hx1 end.
    rewrite Hid, Z.eqb_refl in Hx1. injection Hx1 as <-.
    assert (K : RelLog s3 s').
    { apply bind_ok in H as (freed & s4 & E4 & H).
      assert (K4 : RelLog s3 s4).
      { destruct (_ && _); [|apply ret_ok in E4 as [_ ->]; apply RelLog_refl].
        apply bind_ok in E4 as (x2 & s0 & E & E4). apply get_ind_ok in E as [-> _].
        apply bind_ok in E4 as (sid & s0 & E & E4). apply lift_ok in E as [_ ->].
        apply bind_ok in E4 as (u4 & s0 & E & E4). apply ret_ok in E4 as [_ ->]. eapply log_detatch_server. exact E. }
      apply bind_ok in H as (u5 & s5 & E5 & H).
      assert (K5 : RelLog s4 s5) by (destruct (nc_slotted nc); [eapply log_upd_ind; exact E5|apply ret_ok in E5 as [_ ->]; apply RelLog_refl]).
      apply bind_ok in H as (u6 & s6 & E6 & H). apply log_reset in E6.
      apply bind_ok in H as (u7 & s7 & E7 & H). apply log_bsipr in E7.
      apply bind_ok in H as (u8 & s8 & E8 & H).
      assert (K8 : RelLog s7 s8) by (destruct (d =? -1); [eapply log_exit_accept; exact E8|eapply log_accept; exact E8]).
      apply log_rbi in H.
      eapply RelLog_trans; [exact K4|]. eapply RelLog_trans; [exact K5|]. eapply RelLog_trans; [exact E6|].
      eapply RelLog_trans; [exact E7|]. eapply RelLog_trans; [exact K8|exact H]. }
    destruct K as (rest & K). exists r, rest. split; [rewrite K, Hl, <- app_assoc; reflexivity|].
    split; [rewrite R1; exact Hid|]. split; [exact R2|]. split; [exact R3|]. split; [exact R4|]. split; [exact R5|].
    split; [exact R6|]. split; [exact R7|]. split; [exact R8|exact R9].
  Qed.
End Records.

(* ================================================================================================================ *)
(* Part 6: closed examples; what is NOT true (finding F-02b)                                                        *)
(* ================================================================================================================ *)
(* two nodes, one class.  Node 1: a PRE-EMPTIVE schedule (option resume): one server until 10, then v2 servers until b2; node 2:
   one server, no waiting room (capacity 1).  Every customer goes 1 -> 2 -> exit.  Initially empty, first shift change at 0. *)
Definition ex_cf (b2 v2 : Z) : config :=
  mkCfg 1 [mkNcfg None None 0 (SSched (mkSched [10; b2] [1; v2] 0 1)) 0 false [false] 0;
           mkNcfg (Some 1) None 0 SFixed 0 false [false] 0]
        [0] 1 None [RtNR [RDirect 2; RLeave]] [[None; None]] false [[false]].
Definition ex_n1 : node := mkNode 1 0 0 [[]] [] [] 0 (Some 0) [] (Some 0) 0 [] 0 [] [] [] 1 (Some 0) 0 None None.
Definition ex_n2 : node :=
  mkNode 2 0 0 [[]] [mkServer 1 None false None 0 None 0 false 0 None] [] 0 None [] (Some 1) 1 [] 0 [] [] [] 0 None 0 None None.
Definition no_draws : draws := mkDraws [] [] [] [] [] [].
Definition ex_s0 : sim := mkSim 0 1 (mkArr 0 0 [[Some 1]; [None]] 1 0 (Some 1)) [ex_n1; ex_n2] [] 0 0 [] no_draws [] [[0; 0]].
(* 0: shift change (server 1 comes).  1: customer 1 arrives (batch 1, next arrival after 1), service 2.  2: customer 2 arrives
   (batch 1, next arrival after 1000), waits.  3: customer 1 finishes, customer 2 starts (service 2), customer 1 starts at node 2
   (service 100).  5: customer 2 finishes, node 2 is full: BLOCKED.  10: shift change at node 1: the blocked customer 2 is
   interrupted.  Then either a new server comes at once (v2 = 1) or none does (v2 = 0) and customer 2 waits for node 2. *)
Definition ex_ds : list draws :=
  [ no_draws; mkDraws [1] [1] [2] [] [] []; mkDraws [1000] [1] [] [] [] []; mkDraws [] [] [2; 100] [] [] []; no_draws; no_draws;
    mkDraws [] [] [7] [] [] []; no_draws ].

Definition stamps (s : sim) : list (Z * option Z * option Z * option Z) := map (fun x => (i_id x, i_sst x, i_stime x, i_send x)) (inds s).
Definition svc_records (s : sim) : list (Z * Z * Z * option Z * option Z * option Z * option Z) :=
  map (fun r => (r_id r, r_node r, r_type r, r_sst r, r_stime r, r_send r, r_exit r)) (log s).
Definition after (cf : config) (s : sim) (ds : list draws) : sim := match run_many cf s ds with Ok s' => s' | _ => s end.
Definition ran (cf : config) (s : sim) (ds : list draws) : bool := match run_many cf s ds with Ok _ => true | _ => false end.
Definition nonneg_b (s : sim) : bool := forallb (fun x => match i_stime x with Some st => 0 <=? st | None => true end) (inds s).
Definition ordered_b (s : sim) : bool := forallb (fun x => match i_sst x, i_send x with Some a, Some e => a <=? e | _, _ => true end) (inds s).
Definition draws_nonneg_b (ds : list draws) : bool :=
  forallb (fun d => forallb (Z.leb 0) (d_arr d) && forallb (Z.leb 0) (d_batch d) && forallb (Z.leb 0) (d_svc d) &&
                    forallb (Z.leb 0) (d_unif d) && forallb (Z.leb 0) (d_ren d) && forallb (Z.leb 0) (d_cct d)) ds.

Definition ex_s2 : sim := Eval vm_compute in after (ex_cf 20 1) ex_s0 (firstn 2 ex_ds).
Definition ex_s4 : sim := Eval vm_compute in after (ex_cf 20 1) ex_s0 (firstn 4 ex_ds).
Definition ex_s6 : sim := Eval vm_compute in after (ex_cf 20 1) ex_s0 (firstn 6 ex_ds).

(* the invariant is satisfiable and the theorems apply: the initial state; an arrival event (batch 1, inter-arrival 1: the
   stream moves from 1 to 2, one customer created, stamped 1 / 2 / 3); two customers in service after four events *)
Example invariant_satisfiable :
  SvcInv_b ex_s0 = true /\ Preempt2.Idx_b ex_s0 = true /\
  run_many (ex_cf 20 1) ex_s0 (firstn 2 ex_ds) = Ok ex_s2 /\
  a_dates (arr ex_s2) = [[Some 2]; [None]] /\ a_created (arr ex_s2) = 1 /\ stamps ex_s2 = [(1, Some 1, Some 2, Some 3)] /\
  run_many (ex_cf 20 1) ex_s0 (firstn 4 ex_ds) = Ok ex_s4 /\
  SvcInv_b ex_s4 = true /\ stamps ex_s4 = [(1, Some 3, Some 100, Some 103); (2, Some 3, Some 2, Some 5)].
Proof. vm_compute. repeat split; reflexivity. Qed.
Example invariant_after_run : SvcInv ex_s4 /\ SvcInv ex_s6.
Proof.
  assert (H0 : SvcInv ex_s0) by (apply SvcInv_b_sound; vm_compute; reflexivity).
  split; [apply (run_many_SvcInv (ex_cf 20 1) (firstn 4 ex_ds) ex_s0)|apply (run_many_SvcInv (ex_cf 20 1) (firstn 6 ex_ds) ex_s0)];
    try exact H0; vm_compute; reflexivity.
Qed.

(* Finding F-02b (known).  "end = start + service time" holds in every configuration, but "the stamped service time is a sample,
   hence >= 0" and "end >= start" do not: from the empty system, with all draws >= 0, the pre-emptive shift change at 10 interrupts
   customer 2 while it is BLOCKED (its service ended at 5), stores time_left = 5 - 10 = -5, and the new server restarts it at once
   with service time -5: start 10, end 5.  (The clock then goes back to 5.) *)
Theorem service_time_nonneg_refuted :
  exists cf s ds s', SvcInv_b s = true /\ Preempt2.Idx_b s = true /\ inds s = [] /\ draws_nonneg_b ds = true /\
    run_many cf s ds = Ok s' /\ SvcInv_b s' = true /\ nonneg_b s' = false /\ ordered_b s' = false /\
    stamps s' = [(1, Some 3, Some 100, Some 103); (2, Some 10, Some (-5), Some 5)] /\ now s' = 5.
Proof. exists (ex_cf 20 1), ex_s0, (firstn 6 ex_ds), ex_s6. vm_compute. repeat split; reflexivity. Qed.

(* the other way out for an interrupted blocked customer (no new server at 10): it stays interrupted until node 2 has room at 103;
   release_blocked_individual then gives it back its original start date 3 and the end date 3 + 2 = 5 and releases it: its service
   record shows start 3, service time 2, end 5, exit 103; the invariant holds before, in between and after *)
Example interrupted_blocked_customer_released :
  let cf := ex_cf 5000 0 in
  ran cf ex_s0 ex_ds = true /\
  SvcInv_b (after cf ex_s0 (firstn 6 ex_ds)) = true /\
  map (fun x => (i_id x, i_blocked x, i_interrupted x, i_smark x, i_tleft x)) (inds (after cf ex_s0 (firstn 6 ex_ds)))
    = [(1, false, false, 0, None); (2, true, true, 1, Some (-5))] /\
  SvcInv_b (after cf ex_s0 (firstn 7 ex_ds)) = true /\
  svc_records (after cf ex_s0 (firstn 7 ex_ds)) = [(1, 2, 0, Some 3, Some 100, Some 103, Some 103); (2, 1, 0, Some 3, Some 2, Some 5, Some 103)] /\
  stamps (after cf ex_s0 (firstn 7 ex_ds)) = [(2, Some 103, Some 7, Some 110)] /\
  SvcInv_b (after cf ex_s0 ex_ds) = true /\
  svc_records (after cf ex_s0 ex_ds) = [(2, 2, 0, Some 103, Some 7, Some 110, Some 110)].
Proof. vm_compute. repeat split; reflexivity. Qed.

Print Assumptions node_event_keeps_arrivals.
Print Assumptions accept_keeps_arrivals.
Print Assumptions release_keeps_arrivals.
Print Assumptions arrival_have_event_spec.
Print Assumptions negative_batch_is_an_error.
Print Assumptions negative_batch_stops_the_run.
Print Assumptions event_step_arrivals.
Print Assumptions stream_moves_by_its_sample.
Print Assumptions start_fresh_spec.
Print Assumptions start_fresh_stamps.
Print Assumptions start_give_stamps.
Print Assumptions start_preemptor_stamps.
Print Assumptions start_give_fresh.
Print Assumptions resume_gives_time_left.
Print Assumptions restart_gives_original.
Print Assumptions resample_gives_fresh.
Print Assumptions interrupted_restart_spec.
Print Assumptions event_step_SvcInv.
Print Assumptions run_many_SvcInv.
Print Assumptions gw_event_step.
Print Assumptions stamps_persist.
Print Assumptions SvcInv_means.
Print Assumptions run_keeps_end_date.
Print Assumptions SvcInv_b_sound.
Print Assumptions write_individual_record_spec.
Print Assumptions write_interruption_record_spec.
Print Assumptions interrupt_service_record.
Print Assumptions node_event_log_grows.
Print Assumptions release_writes_record.
Print Assumptions invariant_satisfiable.
Print Assumptions invariant_after_run.
Print Assumptions service_time_nonneg_refuted.
Print Assumptions interrupted_blocked_customer_released.

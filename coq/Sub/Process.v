(* Process.v -- the object-sharing model behind C15.  A Python process holds a global random stream, Network objects
   (parameters plus their STATEFUL members: cursors of Sequential distributions, positions of Cycle routers, Schedule
   state, ...) and Simulation objects.  Building a simulation either COPIES the network's members (what
   Simulation.__init__ does with deepcopy for every member after the fix: commits of findings F-15a/c/d) or SHARES them
   (what it did before for routers, reneging / class-change distributions and schedules).  The engine itself is abstract:
   any deterministic function of (parameters, members, engine state, random stream). *)
From Coq Require Import ZArith List Bool Lia.
Import ListNotations.

Section Process.
  Variables P M E R Out : Type.           (* parameters, member state, engine state, random stream, observable outcome *)
  Variable init : P -> E.
  Variable step : P -> M * E * R -> M * E * R.       (* one event: may advance members and consume the random stream *)
  Variable obs : E -> Out.
  Variable seed : Z -> R.

  Inductive mref := Own (m : M) | Shared (net : nat).
  Record sim := mkSim { s_par : P; s_mem : mref; s_eng : E }.
  Record net := mkNet { n_par : P; n_mem : M }.
  Record proc := mkProc { rng : R; nets : list net; sims : list sim }.

  Inductive op :=
  | Seed (z : Z)
  | NewNet (p : P) (m : M)
  | Build (share : bool) (n : nat)
  | Run (i : nat) (k : nat).

  Fixpoint iter (k : nat) (p : P) (x : M * E * R) : M * E * R :=
    match k with O => x | S j => iter j p (step p x) end.

  Fixpoint set_nth {X} (l : list X) (i : nat) (x : X) : list X :=
    match l, i with
    | [], _ => []
    | _ :: r, O => x :: r
    | y :: r, S j => y :: set_nth r j x
    end.

  Definition exec (pr : proc) (o : op) : proc :=
    match o with
    | Seed z => mkProc (seed z) (nets pr) (sims pr)
    | NewNet p m => mkProc (rng pr) (nets pr ++ [mkNet p m]) (sims pr)
    | Build share n =>
      match nth_error (nets pr) n with
      | Some nt => mkProc (rng pr) (nets pr)
                     (sims pr ++ [mkSim (n_par nt) (if share then Shared n else Own (n_mem nt)) (init (n_par nt))])
      | None => pr
      end
    | Run i k =>
      match nth_error (sims pr) i with
      | Some s =>
        match s_mem s with
        | Own m =>
          let '(m', e', r') := iter k (s_par s) (m, s_eng s, rng pr) in
          mkProc r' (nets pr) (set_nth (sims pr) i (mkSim (s_par s) (Own m') e'))
        | Shared n =>
          match nth_error (nets pr) n with
          | Some nt =>
            let '(m', e', r') := iter k (s_par s) (n_mem nt, s_eng s, rng pr) in
            mkProc r' (set_nth (nets pr) n (mkNet (n_par nt) m')) (set_nth (sims pr) i (mkSim (s_par s) (Shared n) e'))
          | None => pr
          end
        end
      | None => pr
      end
    end.
  Definition execs (pr : proc) (ops : list op) : proc := fold_left exec ops pr.

  (* the reference: seed, build from a pristine network (p, m), run k events *)
  Definition reference (p : P) (m : M) (z : Z) (k : nat) : Out :=
    let '(_, e, _) := iter k p (m, init p, seed z) in obs e.

  Definition copying (o : op) : bool := match o with Build true _ => false | _ => true end.

  Lemma set_nth_own : forall (l : list sim) j x,
    (forall y, In y l -> exists m0, s_mem y = Own m0) -> (exists m0, s_mem x = Own m0) ->
    forall y, In y (set_nth l j x) -> exists m0, s_mem y = Own m0.
  Proof.
    induction l as [|a l IHl]; intros j x Hl Hx y Hy; [destruct Hy|].
    destruct j as [|j]; cbn [set_nth] in Hy; destruct Hy as [Hy|Hy].
    - subst y. exact Hx.
    - apply Hl. right. exact Hy.
    - subst y. apply Hl. left. reflexivity.
    - apply (IHl j x); auto. intros z Hz. apply Hl. right. exact Hz.
  Qed.

  (* networks are never written as long as every simulation was built by copying *)
  Lemma nets_stable : forall ops pr, forallb copying ops = true ->
    (forall s, In s (sims pr) -> exists m, s_mem s = Own m) ->
    (forall n nt, nth_error (nets pr) n = Some nt -> nth_error (nets (execs pr ops)) n = Some nt) /\
    (forall s, In s (sims (execs pr ops)) -> exists m, s_mem s = Own m).
  Proof.
    induction ops as [|o r IH]; intros pr Hc Hs; [split; auto|].
    cbn in Hc. apply andb_true_iff in Hc as [Ho Hr]. cbn [execs fold_left]. fold (execs (exec pr o) r).
    assert (Step : (forall n nt, nth_error (nets pr) n = Some nt -> nth_error (nets (exec pr o)) n = Some nt) /\
                   (forall s, In s (sims (exec pr o)) -> exists m, s_mem s = Own m)).
    { destruct o as [z|p m|share n|i k]; cbn [exec].
      - split; auto.
      - split; [|auto]. intros n nt H. cbn. rewrite nth_error_app1; [exact H|apply nth_error_Some; congruence].
      - destruct share; [discriminate|]. destruct (nth_error (nets pr) n) as [nt|]; [|split; auto].
        split; [auto|]. cbn. intros s Hin. apply in_app_or in Hin. destruct Hin as [Hin|[<-|[]]]; [auto|cbn; eauto].
      - destruct (nth_error (sims pr) i) as [s|] eqn:Es; [|split; auto].
        destruct (Hs s (nth_error_In _ _ Es)) as [m Hm]. rewrite Hm.
        destruct (iter k (s_par s) (m, s_eng s, rng pr)) as [[m' e'] r'].
        split; [auto|]. cbn. intros s' Hin.
        apply (set_nth_own (sims pr) i (mkSim (s_par s) (Own m') e')); [exact Hs|cbn; eauto|exact Hin]. }
    destruct Step as [S1 S2]. destruct (IH (exec pr o) Hr S2) as [A B]. split; auto.
  Qed.

  Lemma nth_error_snoc {X} (l : list X) (x : X) : nth_error (l ++ [x]) (length l) = Some x.
  Proof. induction l; cbn; auto. Qed.
  Lemma set_nth_snoc {X} (l : list X) (x y : X) : set_nth (l ++ [x]) (length l) y = l ++ [y].
  Proof. induction l; cbn; [reflexivity|f_equal; assumption]. Qed.

  (* C15: whatever was built and simulated before in the process (by copying constructors), seeding, building a simulation
     of network n and running it k events gives exactly the reference outcome of a freshly built (p, m) *)
  Theorem copy_reproducible : forall pre pr0 n p m z k,
    forallb copying pre = true -> sims pr0 = [] ->
    nth_error (nets pr0) n = Some (mkNet p m) ->
    let pr := execs pr0 pre in
    let pr' := execs pr [Seed z; Build false n; Run (length (sims pr)) k] in
    option_map (fun s => obs (s_eng s)) (nth_error (sims pr') (length (sims pr))) = Some (reference p m z k).
  Proof.
    intros pre pr0 n p m z k Hc Hs0 Hn pr pr'.
    assert (Hown0 : forall s, In s (sims pr0) -> exists m0, s_mem s = Own m0) by (rewrite Hs0; intros s []).
    destruct (nets_stable pre pr0 Hc Hown0) as [Hst _].
    specialize (Hst n _ Hn). fold pr in Hst.
    unfold pr', execs. cbn [fold_left]. cbn [exec nets sims rng]. rewrite Hst. cbn [n_par n_mem rng sims nets exec].
    rewrite nth_error_snoc. cbn [s_mem s_par s_eng].
    unfold reference.
    destruct (iter k p (m, init p, seed z)) as [[m' e'] r']. cbn [sims].
    rewrite set_nth_snoc, nth_error_snoc. reflexivity.
  Qed.
End Process.

(* the sharing constructor refutes reproducibility: a toy engine whose only member is the cursor of a Sequential
   distribution [3; 5] and whose outcome is the first value drawn.  Finding F-15a/c/d before the fix. *)
Definition toy_step (p : unit) (x : nat * list nat * unit) : nat * list nat * unit :=
  let '(m, e, r) := x in (S m, e ++ [nth (Nat.modulo m 2) [3; 5] 0], r).
Example share_refuted :
  let pr0 := mkProc unit nat (list nat) unit tt [mkNet unit nat tt 0] [] in
  let run b := execs unit nat (list nat) unit (fun _ => []) toy_step (fun _ => tt) pr0
                 [Build unit nat b 0; Run unit nat 0 1;                          (* an earlier simulation of the same Network *)
                  Seed unit nat 7; Build unit nat b 0; Run unit nat 1 1] in
  option_map (s_eng unit nat (list nat)) (nth_error (sims unit nat (list nat) unit (run true)) 1) = Some [5] /\
  option_map (s_eng unit nat (list nat)) (nth_error (sims unit nat (list nat) unit (run false)) 1) = Some [3] /\
  reference unit nat (list nat) unit (list nat) (fun _ => []) toy_step (fun e => e) (fun _ => tt) tt 0 7 1 = [3].
Proof. cbv zeta. vm_compute. auto. Qed.

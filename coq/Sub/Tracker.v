(* Tracker.v -- model of ciw/trackers/state_tracker.py.
   Part 1: the value of hash_state() of the seven built-in trackers, and the TRUE state
           computed from raw configuration facts (who is where, class, blocked flag,
           destination) plus, for MatrixBlocking, the ghost global blocking order.
   Part 2: the history discipline of timestamp().
   Part 3: state_probabilities over Q, transcribed statement by statement, its
           specification (exact time shares) under the precise guard, and the
           refutations outside the guard (F-17b). *)
From Coq Require Import ZArith QArith Qreduction List Bool Lia Lqa Permutation.
From CiwV Require Import Sx Prelude.
Import ListNotations.
Open Scope Z_scope.

(* ------------------------------------------------------------------ Part 1: states *)

(* hash_state() values: an integer (SystemPopulation), a tuple of integers (NodePopulation,
   NodePopulationSubset, GroupedNodePopulation), a tuple of tuples (NodeClassMatrix,
   NaiveBlocking), or (matrix of tuples, tuple) (MatrixBlocking). *)
Inductive tstate : Type :=
| TSys (n : Z)
| TVec (v : list Z)
| TMat (m : list (list Z))
| TBlk (m : list (list (list Z))) (v : list Z).

Fixpoint leqb {X} (e : X -> X -> bool) (a b : list X) : bool :=
  match a, b with
  | [], [] => true
  | x :: r, y :: s => e x y && leqb e r s
  | _, _ => false
  end.
Lemma leqb_eq {X} (e : X -> X -> bool) :
  (forall x y, e x y = true <-> x = y) -> forall a b, leqb e a b = true <-> a = b.
Proof.
  intros He. induction a as [|x r IH]; intros [|y s]; cbn; split; intros H; try congruence; try discriminate.
  - apply andb_true_iff in H as [H1 H2]. apply He in H1. apply IH in H2. congruence.
  - injection H as -> ->. apply andb_true_iff; split; [apply He|apply IH]; reflexivity.
Qed.

Definition l1eqb := leqb Z.eqb.
Definition l2eqb := leqb l1eqb.
Definition l3eqb := leqb l2eqb.
Lemma l1eqb_eq a b : l1eqb a b = true <-> a = b.
Proof. apply leqb_eq. intros; apply Z.eqb_eq. Qed.
Lemma l2eqb_eq a b : l2eqb a b = true <-> a = b.
Proof. apply leqb_eq. apply l1eqb_eq. Qed.
Lemma l3eqb_eq a b : l3eqb a b = true <-> a = b.
Proof. apply leqb_eq. apply l2eqb_eq. Qed.

Definition tstate_eqb (a b : tstate) : bool :=
  match a, b with
  | TSys x, TSys y => x =? y
  | TVec x, TVec y => l1eqb x y
  | TMat x, TMat y => l2eqb x y
  | TBlk m v, TBlk m' v' => l3eqb m m' && l1eqb v v'
  | _, _ => false
  end.
Lemma tstate_eqb_eq a b : tstate_eqb a b = true <-> a = b.
Proof.
  destruct a, b; cbn; try (split; [discriminate|congruence]).
  - rewrite Z.eqb_eq. split; congruence.
  - rewrite l1eqb_eq. split; congruence.
  - rewrite l2eqb_eq. split; congruence.
  - rewrite andb_true_iff, l3eqb_eq, l1eqb_eq. split; [intros [-> ->]; reflexivity|]. intros H; injection H; auto.
Qed.
Lemma tstate_eqb_refl a : tstate_eqb a a = true.
Proof. apply tstate_eqb_eq. reflexivity. Qed.
Lemma tstate_eqb_neq a b : tstate_eqb a b = false <-> a <> b.
Proof.
  split.
  - intros H E. apply tstate_eqb_eq in E. congruence.
  - intros H. destruct (tstate_eqb a b) eqn:E; [apply tstate_eqb_eq in E; contradiction|reflexivity].
Qed.

(* every integer appearing in a state *)
Definition ts_atoms (s : tstate) : list Z :=
  match s with
  | TSys n => [n]
  | TVec v => v
  | TMat m => concat m
  | TBlk m v => concat (concat m) ++ v
  end.

(* raw configuration facts about one customer, as read from the object graph:
   id, current class, class it was admitted to this node under (the class its record at this
   node is written under), blocked flag, destination node id (1-based; 0 = none) *)
Record cust := mkC { cid : Z; ccls : Z; cpcls : Z; cblk : bool; cdst : Z }.

(* the class a customer counts under at its node: a customer that has finished service, drawn
   its class change and is blocked still belongs to the class it was served in *)
Definition class_at (x : cust) : Z := if cblk x then cpcls x else ccls x.

Definition count {X} (p : X -> bool) (l : list X) : Z := zlen (filter p l).
Lemma count_nonneg {X} (p : X -> bool) l : 0 <= count p l.
Proof. unfold count, zlen. lia. Qed.
Lemma zlen_nonneg {X} (l : list X) : 0 <= zlen l.
Proof. unfold zlen. lia. Qed.

(* the seven trackers and their parameters (node indices are 0-based as in Ciw) *)
Inductive kind : Type :=
| KSys | KNode | KSubset (obs : list Z) | KGroup (gs : list (list Z)) | KClass (k : nat) | KNaive | KMatrix.

Definition raw := list (list cust).          (* per node, customers in queue order *)

Definition pop (r : raw) (j : Z) : Z := zlen (nth (Z.to_nat j) r []).

(* ghost global blocking order: ids of the currently blocked customers, longest-blocked first;
   the number MatrixBlocking shows for a customer is its 1-based position in this list *)
Definition ranked (ghost : list Z) : list (Z * Z) := combine ghost (zseq 1 (length ghost)).
Definition blocked_from_to (q : list cust) (c : Z) (x : Z) : bool :=
  existsb (fun y => (cid y =? x) && cblk y && (cdst y =? c)) q.
Definition cell (q : list cust) (ghost : list Z) (c : Z) : list Z :=
  map snd (filter (fun p => blocked_from_to q c (fst p)) (ranked ghost)).

Definition true_state (k : kind) (r : raw) (ghost : list Z) : tstate :=
  match k with
  | KSys => TSys (zlen (concat r))
  | KNode => TVec (map (fun q => zlen q) r)
  | KSubset obs => TVec (map (pop r) obs)
  | KGroup gs => TVec (map (fun g => zsum (map (pop r) g)) gs)
  | KClass k => TMat (map (fun q => map (fun c => count (fun x => class_at x =? c) q) (zseq 0 k)) r)
  | KNaive => TMat (map (fun q => [count (fun x => negb (cblk x)) q; count cblk q]) r)
  | KMatrix => TBlk (map (fun q => map (fun c => cell q ghost c) (zseq 1 (length r))) r) (map (fun q => zlen q) r)
  end.

Lemma Forall_concat {X} (P : X -> Prop) (ls : list (list X)) :
  Forall (Forall P) ls -> Forall P (concat ls).
Proof. induction 1; cbn; [constructor|]. apply Forall_app; auto. Qed.

Lemma zsum_nonneg l : Forall (fun z => 0 <= z) l -> 0 <= zsum l.
Proof. unfold zsum. induction 1; cbn; lia. Qed.

Lemma ranked_pos ghost : Forall (fun p => 1 <= snd p) (ranked ghost).
Proof.
  unfold ranked. apply Forall_forall. intros [x rk] Hin. apply in_combine_r in Hin.
  apply zseq_In in Hin. cbn. lia.
Qed.

Lemma cell_pos q ghost c : Forall (fun z => 0 <= z) (cell q ghost c).
Proof.
  unfold cell. apply Forall_forall. intros z Hin. apply in_map_iff in Hin as [p [<- Hp]].
  apply filter_In in Hp as [Hp _]. pose proof (ranked_pos ghost) as H.
  rewrite Forall_forall in H. specialize (H _ Hp). lia.
Qed.

(* counts are never negative: every integer of a true state is >= 0 *)
Theorem true_state_nonneg k r ghost : Forall (fun z => 0 <= z) (ts_atoms (true_state k r ghost)).
Proof.
  destruct k; cbn [true_state ts_atoms].
  - constructor; [apply zlen_nonneg|constructor].
  - apply Forall_forall. intros z Hin. apply in_map_iff in Hin as [q [<- _]]. apply zlen_nonneg.
  - apply Forall_forall. intros z Hin. apply in_map_iff in Hin as [q [<- _]]. apply zlen_nonneg.
  - apply Forall_forall. intros z Hin. apply in_map_iff in Hin as [g [<- _]]. apply zsum_nonneg.
    apply Forall_forall. intros y Hy. apply in_map_iff in Hy as [j [<- _]]. apply zlen_nonneg.
  - apply Forall_concat. apply Forall_forall. intros row Hin. apply in_map_iff in Hin as [q [<- _]].
    apply Forall_forall. intros z Hz. apply in_map_iff in Hz as [c [<- _]]. apply count_nonneg.
  - apply Forall_concat. apply Forall_forall. intros row Hin. apply in_map_iff in Hin as [q [<- _]].
    repeat constructor; apply count_nonneg.
  - apply Forall_app. split.
    + apply Forall_concat. apply Forall_concat. apply Forall_forall. intros row Hin.
      apply in_map_iff in Hin as [q [<- _]]. apply Forall_forall. intros cl Hc.
      apply in_map_iff in Hc as [c [<- _]]. apply cell_pos.
    + apply Forall_forall. intros z Hin. apply in_map_iff in Hin as [q [<- _]]. apply zlen_nonneg.
Qed.

(* relations between the trackers' true states (sanity of the definitions) *)
Lemma filter_split_len {X} (p : X -> bool) l :
  (length (filter p l) + length (filter (fun x => negb (p x)) l) = length l)%nat.
Proof. induction l as [|x r IH]; cbn; [reflexivity|]. destruct (p x); cbn; lia. Qed.

Lemma naive_row_sums_to_population (q : list cust) :
  count (fun x => negb (cblk x)) q + count cblk q = zlen q.
Proof. unfold count, zlen. pose proof (filter_split_len cblk q). lia. Qed.

Lemma system_is_sum_of_nodes (r : raw) : zlen (concat r) = zsum (map (fun q => zlen q) r).
Proof.
  unfold zlen, zsum. induction r as [|q r IH]; cbn; [reflexivity|].
  rewrite app_length, Nat2Z.inj_add, IH. reflexivity.
Qed.

(* Block / Unblock C-events maintain the ghost order *)
Inductive bev : Type := Blk (x : Z) | Unb (x : Z).
Fixpoint remove_first (x : Z) (l : list Z) : list Z :=
  match l with [] => [] | y :: r => if y =? x then r else y :: remove_first x r end.
Definition ghost_step (g : list Z) (e : bev) : list Z :=
  match e with Blk x => g ++ [x] | Unb x => remove_first x g end.
Definition ghost_run (g : list Z) (es : list bev) : list Z := fold_left ghost_step es g.

Definition blocked_ids (r : raw) : list Z := map cid (filter cblk (concat r)).

Fixpoint strictly_incr (l : list Z) : bool :=
  match l with
  | x :: ((y :: _) as r) => (x <? y) && strictly_incr r
  | _ => true
  end.
Lemma strictly_incr_NoDup l : strictly_incr l = true -> NoDup l.
Proof.
  assert (H : forall l, strictly_incr l = true -> NoDup l /\ forall x y, hd_error l = Some x -> In y (tl l) -> x < y).
  { induction l0 as [|x r IH]; intros Hs.
    - split; [constructor|]. intros; discriminate.
    - destruct r as [|y r'].
      + split; [constructor; [intros []|constructor]|]. intros ? ? _ [].
      + cbn [strictly_incr] in Hs. apply andb_true_iff in Hs as [Hxy Hs]. apply Z.ltb_lt in Hxy.
        destruct (IH Hs) as [Hnd Hlt].
        assert (Hall : forall z, In z (y :: r') -> x < z).
        { intros z [<-|Hz]; [exact Hxy|]. specialize (Hlt y z eq_refl Hz). lia. }
        split.
        * constructor; [|exact Hnd]. intros Hin. specialize (Hall _ Hin). lia.
        * intros x0 y0 E Hy0. cbn in E. injection E as <-. apply Hall. exact Hy0. }
  intros Hs. apply H. exact Hs.
Qed.

(* the ghost order lists exactly the customers whose blocked flag is set, each once *)
Definition ghost_ok (r : raw) (g : list Z) : bool :=
  list_eqb (isort g) (isort (blocked_ids r)) && strictly_incr (isort g).
Lemma ghost_ok_spec r g : ghost_ok r g = true -> NoDup g /\ Permutation g (blocked_ids r).
Proof.
  unfold ghost_ok. intros H. apply andb_true_iff in H as [H1 H2]. apply list_eqb_eq in H1.
  apply strictly_incr_NoDup in H2. split.
  - eapply Permutation_NoDup; [apply isort_perm|exact H2].
  - rewrite <- (isort_perm g), H1. apply isort_perm.
Qed.

(* ------------------------------------------------------------------ Part 2: history *)
(* timestamp(): after every event, append [current_time, state] iff state differs from the last
   entry.  [changes prev l] is the list of (time, state) of exactly those frames of l whose state
   differs from the state of the frame before (prev for the first). *)
Section History.
Context {T : Type}.
Fixpoint changes (prev : tstate) (l : list (T * tstate)) : list (T * tstate) :=
  match l with
  | [] => []
  | (t, s) :: r => if tstate_eqb s prev then changes s r else (t, s) :: changes s r
  end.

Fixpoint adj_differ (prev : tstate) (l : list (T * tstate)) : Prop :=
  match l with [] => True | (_, s) :: r => s <> prev /\ adj_differ s r end.

Lemma changes_adj_differ : forall l prev, adj_differ prev (changes prev l).
Proof.
  induction l as [|[t s] r IH]; intros prev; cbn; [exact I|].
  destruct (tstate_eqb s prev) eqn:E.
  - apply tstate_eqb_eq in E. subst. apply IH.
  - cbn. split; [apply tstate_eqb_neq; exact E|apply IH].
Qed.

(* non-recursive reading: pair every frame with the state before it and keep those that differ *)
Lemma changes_filter : forall l prev,
  changes prev l =
  map snd (filter (fun p => negb (tstate_eqb (snd (snd p)) (fst p))) (combine (prev :: map snd l) l)).
Proof.
  induction l as [|[t s] r IH]; intros prev; [reflexivity|].
  cbn [changes map combine filter snd fst]. destruct (tstate_eqb s prev); cbn [negb map snd]; rewrite IH; reflexivity.
Qed.

(* the state recorded last is always the current one *)
Definition last_state (prev : tstate) (l : list (T * tstate)) : tstate := last (map snd l) prev.
Lemma changes_last_state : forall l prev, last_state prev (changes prev l) = last_state prev l.
Proof.
  unfold last_state. induction l as [|[t s] r IH]; intros prev; [reflexivity|].
  cbn [changes]. destruct (tstate_eqb s prev) eqn:E.
  - apply tstate_eqb_eq in E. subst. rewrite IH. cbn [map snd]. rewrite last_cons. reflexivity.
  - cbn [map snd]. rewrite !last_cons. apply IH.
Qed.
End History.

Fixpoint sorted_from (t : Z) (l : list Z) : Prop :=
  match l with [] => True | x :: r => t <= x /\ sorted_from x r end.
Lemma sorted_from_weaken : forall l t t', t' <= t -> sorted_from t l -> sorted_from t' l.
Proof. destruct l; cbn; intros; [exact I|]. split; [lia|tauto]. Qed.
Lemma changes_sorted : forall (l : list (Z * tstate)) prev t,
  sorted_from t (map fst l) -> sorted_from t (map fst (changes prev l)).
Proof.
  induction l as [|[x s] r IH]; intros prev t H; [exact I|].
  cbn in H. destruct H as [H1 H2]. cbn [changes]. destruct (tstate_eqb s prev).
  - apply IH. eapply sorted_from_weaken; eauto.
  - cbn. split; [exact H1|apply IH; exact H2].
Qed.

(* ------------------------------------------------------------------ Part 3: state_probabilities *)
Open Scope Q_scope.
Local Arguments Qred : simpl never.

Definition qmax (x y : Q) : Q := if Qlt_le_dec x y then y else x.     (* Python max: either when equal *)
Definition qmin (x y : Q) : Q := if Qlt_le_dec x y then x else y.
Definition Qltb (x y : Q) : bool := negb (Qle_bool y x).
Lemma Qltb_lt x y : Qltb x y = true <-> x < y.
Proof.
  unfold Qltb. rewrite negb_true_iff. split.
  - intros H. apply Qnot_le_lt. intros Hle. apply Qle_bool_iff in Hle. congruence.
  - intros H. destruct (Qle_bool y x) eqn:E; [|reflexivity]. apply Qle_bool_iff in E. lra.
Qed.
Lemma Qltb_ge x y : Qltb x y = false <-> y <= x.
Proof.
  split.
  - intros H. apply Qnot_lt_le. intros Hlt. apply Qltb_lt in Hlt. congruence.
  - intros H. destruct (Qltb x y) eqn:E; [|reflexivity]. apply Qltb_lt in E. lra.
Qed.

Ltac qcases := unfold qmax, qmin in *; repeat (destruct (Qlt_le_dec _ _)); try lra.

(* a history: (timestamp, state id); the dictionary of the Python code keeps insertion order *)
Definition hist := list (Q * Z).
Definition dict := list (Z * Q).

(* values are kept in lowest terms (Qred) so that the extracted code stays fast; Qred q == q *)
Fixpoint dadd (d : dict) (k : Z) (v : Q) : dict :=
  match d with
  | [] => [(k, Qred v)]
  | (k', v') :: r => if (k' =? k)%Z then (k', Qred (v' + v)) :: r else (k', v') :: dadd r k v
  end.
Fixpoint dget (d : dict) (k : Z) : Q :=
  match d with [] => 0 | (k', v') :: r => if (k' =? k)%Z then v' else dget r k end.
Fixpoint dsum (d : dict) : Q :=
  match d with [] => 0 | (_, v) :: r => Qred (v + dsum r) end.
Definition dnorm (d : dict) (tot : Q) : dict := map (fun p => (fst p, Qred (snd p / tot))) d.

Definition ind (k s : Z) (v : Q) : Q := if (k =? s)%Z then v else 0.

Lemma dget_dadd d k v s : dget (dadd d k v) s == dget d s + ind k s v.
Proof.
  unfold ind. induction d as [|[k' v'] r IH]; cbn.
  - destruct (k =? s)%Z; rewrite ?Qred_correct; lra.
  - destruct (k' =? k)%Z eqn:E; cbn.
    + apply Z.eqb_eq in E. subst k'. destruct (k =? s)%Z; rewrite ?Qred_correct; lra.
    + destruct (k' =? s)%Z eqn:E2; [|exact IH].
      destruct (k =? s)%Z eqn:E3; [|lra].
      apply Z.eqb_eq in E2, E3. apply Z.eqb_neq in E. congruence.
Qed.
Lemma dsum_dadd d k v : dsum (dadd d k v) == dsum d + v.
Proof.
  induction d as [|[k' v'] r IH]; cbn.
  - rewrite !Qred_correct. lra.
  - destruct (k' =? k)%Z; cbn; rewrite !Qred_correct; [lra|]. rewrite IH. lra.
Qed.
Lemma dget_dnorm d tot s : dget (dnorm d tot) s == dget d s / tot.
Proof.
  induction d as [|[k' v'] r IH]; cbn.
  - unfold Qdiv. lra.
  - destruct (k' =? s)%Z; [apply Qred_correct|exact IH].
Qed.
Lemma dsum_dnorm d tot : dsum (dnorm d tot) == dsum d / tot.
Proof.
  induction d as [|[k' v'] r IH]; cbn.
  - unfold Qdiv. lra.
  - rewrite !Qred_correct, IH. unfold Qdiv. ring.
Qed.
Lemma dnorm_keys d tot : map fst (dnorm d tot) = map fst d.
Proof. unfold dnorm. rewrite map_map. reflexivity. Qed.
Lemma dadd_keys_NoDup d k v : NoDup (map fst d) -> NoDup (map fst (dadd d k v)).
Proof.
  assert (Hin : forall d x, In x (map fst (dadd d k v)) -> x = k \/ In x (map fst d)).
  { induction d0 as [|[k' v'] r IH]; cbn; intros x H.
    - destruct H as [H|[]]; auto.
    - destruct (k' =? k)%Z; cbn in H; [destruct H; auto|].
      destruct H as [H|H]; [auto|]. apply IH in H. tauto. }
  induction d as [|[k' v'] r IH]; cbn; intros H.
  - constructor; [intros []|constructor].
  - inversion H; subst. destruct (k' =? k)%Z eqn:E; cbn; [constructor; assumption|].
    constructor; [|auto]. intros Hx. apply Hin in Hx as [->|Hx]; [|contradiction].
    rewrite Z.eqb_refl in E. discriminate.
Qed.

(* the loop  `for event in self.history`  with its local variables
   (steady_state_dictionary, prev_date, prev_state, date_diff); the window end is
   None for float("Inf") *)
Definition after_end (b : option Q) (t : Q) : bool := match b with Some e => Qltb e t | None => false end.
Definition before_end (b : option Q) (t : Q) : bool := match b with Some e => Qltb t e | None => true end.

Fixpoint sp_loop (a : Q) (b : option Q) (h : hist) (pd : Q) (ps : Z) (dd : Q) (d : dict) : dict * Q * Z * Q :=
  match h with
  | [] => (d, pd, ps, dd)
  | (t, s) :: r =>
    if after_end b t then (d, pd, ps, dd)                                   (* if date > end: break *)
    else
      let dd' := t - qmax pd a in                                           (* date - max(prev_date, start) *)
      let d' := if Qltb a t && before_end b t then dadd d ps dd' else d in  (* if start < date < end *)
      sp_loop a b r t s dd' d'
  end.

Inductive sp_result : Type :=
| SpOk (d : dict)
| SpIndexError        (* empty history *)
| SpValueError        (* start < 0 or end <= start *)
| SpZeroDivision.     (* the accumulated durations sum to zero *)

Definition state_probabilities (h : hist) (a : Q) (b : option Q) : sp_result :=
  match h with
  | [] => SpIndexError
  | (t0, s0) :: _ =>
    if Qltb a 0 || (match b with Some e => Qle_bool e a | None => false end) then SpValueError
    else
      let '(d, pd, ps, dd) := sp_loop a b h t0 s0 0 [] in
      let dd' := match b with Some e => e - pd | None => dd end in          (* if end != inf: date_diff = end - prev_date *)
      let d' := dadd d ps dd' in
      let tot := dsum d' in
      if Qeq_bool tot 0 then SpZeroDivision else SpOk (dnorm d' tot)
  end.

(* ---- specification: exact time shares ---- *)
Fixpoint qsorted_from (t : Q) (l : list Q) : Prop :=
  match l with [] => True | x :: r => t <= x /\ qsorted_from x r end.

(* length of [x, y) /\ [lo, b] *)
Definition clip (lo b x y : Q) : Q := qmax 0 (qmin y b - qmax x lo).
(* total time within [lo, b] during which the current state of the history is s;
   the last entry's state lasts for ever *)
Fixpoint time_in (lo b : Q) (s : Z) (h : hist) : Q :=
  match h with
  | [] => 0
  | (t, s') :: r =>
    ind s' s (match r with [] => qmax 0 (b - qmax t lo) | (t', _) :: _ => clip lo b t t' end) + time_in lo b s r
  end.

Lemma time_in_beyond lo b s : forall r t s', b <= t -> qsorted_from t (map fst r) -> time_in lo b s ((t, s') :: r) == 0.
Proof.
  induction r as [|[t' s''] r IH]; intros t s' Hb Hs.
  - cbn. unfold ind. destruct (s' =? s)%Z; qcases.
  - cbn in Hs. destruct Hs as [H1 H2].
    change (time_in lo b s ((t, s') :: (t', s'') :: r)) with (ind s' s (clip lo b t t') + time_in lo b s ((t', s'') :: r)).
    rewrite IH; [|lra|exact H2]. unfold ind, clip. destruct (s' =? s)%Z; qcases.
Qed.

(* the final  `dict[prev_state] += end - prev_date`  followed by normalisation, for a loop that stopped at (pd, ps) *)
Lemma final_add_spec a b lo d pd ps s :
  a < b -> pd < b -> a <= lo -> lo < b -> (lo <= pd \/ lo == a) -> 0 <= dsum d -> (pd < a -> d = []) ->
  let df := dadd d ps (b - pd) in
  0 < dsum df /\
  dget df s / dsum df == (dget d s + ind ps s (qmax 0 (b - qmax pd lo))) / (dsum d + (b - qmax pd lo)).
Proof.
  intros Hab Hpb Hal Hlb Hlo Hd Hemp df. unfold df. split; [rewrite dsum_dadd; lra|].
  rewrite dget_dadd, dsum_dadd.
  destruct (Qlt_le_dec pd a) as [Hlt|Hge].
  - rewrite (Hemp Hlt). cbn [dget dsum]. assert (El : lo == a) by (destruct Hlo; lra).
    unfold ind. destruct (ps =? s)%Z.
    + assert (E1 : qmax 0 (b - qmax pd lo) == b - a) by qcases.
      assert (E2 : qmax pd lo == a) by qcases.
      rewrite E1, E2. field. split; lra.
    + unfold Qdiv. lra.
  - assert (E2 : qmax pd lo == pd) by (destruct Hlo; qcases).
    assert (E1 : qmax 0 (b - qmax pd lo) == b - pd) by (destruct Hlo; qcases).
    apply Qdiv_comp.
    + unfold ind. destruct (ps =? s)%Z; rewrite ?E1; lra.
    + rewrite E2. lra.
Qed.

Lemma sp_loop_spec a b lo s : a < b -> a <= lo -> lo < b ->
  forall r pd ps dd d,
  pd < b -> (lo <= pd \/ lo == a) -> qsorted_from pd (map fst r) ->
  (forall t, In t (map fst r) -> ~ t == b) -> 0 <= dsum d -> (pd < a -> d = []) ->
  let '(d1, pd1, ps1, _) := sp_loop a (Some b) r pd ps dd d in
  let df := dadd d1 ps1 (b - pd1) in
  0 < dsum df /\
  dget df s / dsum df == (dget d s + time_in lo b s ((pd, ps) :: r)) / (dsum d + (b - qmax pd lo)).
Proof.
  intros Hab Hal Hlb. induction r as [|[t s'] r IH]; intros pd ps dd d Hpb Hlo Hs Hnb Hd Hemp.
  - cbn [sp_loop time_in]. rewrite Qplus_0_r. apply (final_add_spec a b lo d pd ps s); assumption.
  - cbn [map fst qsorted_from] in Hs. destruct Hs as [Hpt Hs].
    assert (Htb : ~ t == b) by (apply Hnb; left; reflexivity).
    cbn [sp_loop after_end before_end].
    change (time_in lo b s ((pd, ps) :: (t, s') :: r)) with (ind ps s (clip lo b pd t) + time_in lo b s ((t, s') :: r)).
    destruct (Qltb b t) eqn:Ebt.
    + (* date > end: break *)
      apply Qltb_lt in Ebt. rewrite (time_in_beyond lo b s r t s'); [|lra|exact Hs].
      destruct (final_add_spec a b lo d pd ps s Hab Hpb Hal Hlb Hlo Hd Hemp) as [F1 F2]. split; [exact F1|].
      rewrite F2. apply Qdiv_comp; [|reflexivity].
      assert (E : clip lo b pd t == qmax 0 (b - qmax pd lo)) by (unfold clip; qcases).
      unfold ind. destruct (ps =? s)%Z; rewrite ?E; lra.
    + apply Qltb_ge in Ebt. assert (Htlt : t < b) by (destruct (Qlt_le_dec t b); [assumption|exfalso; apply Htb; lra]).
      assert (Hlo' : lo <= t \/ lo == a) by (destruct Hlo; [left; lra|right; assumption]).
      assert (Hnb' : forall t0, In t0 (map fst r) -> ~ t0 == b) by (intros t0 H0; apply Hnb; right; exact H0).
      destruct (Qltb a t) eqn:Eat; cbn [andb].
      * apply Qltb_lt in Eat. assert (Etb : Qltb t b = true) by (apply Qltb_lt; exact Htlt). rewrite Etb.
        assert (Hd' : 0 <= dsum (dadd d ps (t - qmax pd a))) by (rewrite dsum_dadd; qcases).
        specialize (IH t s' (t - qmax pd a) (dadd d ps (t - qmax pd a)) Htlt Hlo' Hs Hnb' Hd').
        destruct (sp_loop a (Some b) r t s' (t - qmax pd a) (dadd d ps (t - qmax pd a))) as [[[d1 pd1] ps1] dd1].
        destruct IH as [I1 I2]; [intros; lra|]. split; [exact I1|]. rewrite I2.
        assert (E : clip lo b pd t == t - qmax pd a) by (unfold clip; destruct Hlo; qcases).
        apply Qdiv_comp.
        -- rewrite dget_dadd. unfold ind. destruct (ps =? s)%Z; rewrite ?E; lra.
        -- rewrite dsum_dadd. destruct Hlo; qcases.
      * apply Qltb_ge in Eat.
        assert (Hemp' : t < a -> d = []) by (intros; apply Hemp; lra).
        specialize (IH t s' (t - qmax pd a) d Htlt Hlo' Hs Hnb' Hd Hemp').
        destruct (sp_loop a (Some b) r t s' (t - qmax pd a) d) as [[[d1 pd1] ps1] dd1].
        destruct IH as [I1 I2]. split; [exact I1|]. rewrite I2.
        assert (E : clip lo b pd t == 0) by (unfold clip; qcases).
        apply Qdiv_comp.
        -- unfold ind. destruct (ps =? s)%Z; rewrite ?E; lra.
        -- qcases.
Qed.

Lemma sp_loop_keys a b : forall r pd ps dd d, NoDup (map fst d) ->
  NoDup (map fst (fst (fst (fst (sp_loop a b r pd ps dd d))))).
Proof.
  induction r as [|[t s'] r IH]; intros pd ps dd d H; cbn [sp_loop]; [exact H|].
  destruct (after_end b t); [exact H|]. apply IH.
  destruct (Qltb a t && before_end b t); [apply dadd_keys_NoDup|]; exact H.
Qed.

(* state_probabilities_spec: for a history with non-decreasing timestamps, a window 0 <= a < b with b
   finite, the first timestamp before b and no timestamp equal to b, the function returns for every
   state its exact share of the time in [max a t0, b] -- (time spent in the state) / (b - max a t0) --
   states that never occur get no key (share 0), keys are distinct, and the shares sum to 1. *)
Theorem state_probabilities_spec : forall t0 s0 r a b,
  qsorted_from t0 (map fst r) -> 0 <= a -> a < b -> t0 < b ->
  (forall t, In t (map fst ((t0, s0) :: r)) -> ~ t == b) ->
  exists d, state_probabilities ((t0, s0) :: r) a (Some b) = SpOk d /\
    (forall s, dget d s == time_in (qmax a t0) b s ((t0, s0) :: r) / (b - qmax a t0)) /\
    dsum d == 1 /\ NoDup (map fst d).
Proof.
  intros t0 s0 r a b Hs Ha Hab Ht0 Hnb.
  unfold state_probabilities.
  assert (E1 : Qltb a 0 = false) by (apply Qltb_ge; exact Ha). rewrite E1.
  assert (E2 : Qle_bool b a = false).
  { destruct (Qle_bool b a) eqn:E; [|reflexivity]. apply Qle_bool_iff in E. lra. }
  rewrite E2. cbn [orb].
  set (lo := qmax a t0).
  assert (Hal : a <= lo) by (unfold lo; qcases).
  assert (Hlb : lo < b) by (unfold lo; qcases).
  assert (Hlo : lo <= t0 \/ lo == a) by (unfold lo; qcases).
  pose proof (sp_loop_keys a (Some b) ((t0, s0) :: r) t0 s0 0 [] (NoDup_nil _)) as Hk.
  assert (Hsort : qsorted_from t0 (map fst ((t0, s0) :: r))) by (cbn; split; [lra|exact Hs]).
  assert (Hspec : forall s,
    let '(d1, pd1, ps1, _) := sp_loop a (Some b) ((t0, s0) :: r) t0 s0 0 [] in
    let df := dadd d1 ps1 (b - pd1) in
    0 < dsum df /\ dget df s / dsum df == (dget [] s + time_in lo b s ((t0, s0) :: (t0, s0) :: r)) / (dsum [] + (b - qmax t0 lo))).
  { intros s. apply (sp_loop_spec a b lo s Hab Hal Hlb ((t0, s0) :: r) t0 s0 0 []); auto.
    cbn. lra. }
  destruct (sp_loop a (Some b) ((t0, s0) :: r) t0 s0 0 []) as [[[d1 pd1] ps1] dd1]. cbn [fst] in Hk.
  set (df := dadd d1 ps1 (b - pd1)) in *.
  assert (Hpos : 0 < dsum df) by (destruct (Hspec s0); assumption).
  assert (E3 : Qeq_bool (dsum df) 0 = false).
  { destruct (Qeq_bool (dsum df) 0) eqn:E; [|reflexivity]. apply Qeq_bool_iff in E. lra. }
  rewrite E3. exists (dnorm df (dsum df)). split; [reflexivity|]. split; [|split].
  - intros s. rewrite dget_dnorm. destruct (Hspec s) as [_ H]. rewrite H.
    change (time_in lo b s ((t0, s0) :: (t0, s0) :: r)) with (ind s0 s (clip lo b t0 t0) + time_in lo b s ((t0, s0) :: r)).
    assert (Ec : clip lo b t0 t0 == 0) by (unfold clip, lo; qcases).
    apply Qdiv_comp.
    + cbn [dget]. unfold ind. destruct (s0 =? s)%Z; rewrite ?Ec; lra.
    + cbn [dsum]. unfold lo. qcases.
  - rewrite dsum_dnorm. field. lra.
  - rewrite dnorm_keys. unfold df. apply dadd_keys_NoDup. exact Hk.
Qed.

(* the total of the time shares' numerators is the window length (time_in is a measure) *)
Fixpoint time_all (lo b : Q) (h : hist) : Q :=
  match h with
  | [] => 0
  | (t, _) :: r => (match r with [] => qmax 0 (b - qmax t lo) | (t', _) :: _ => clip lo b t t' end) + time_all lo b r
  end.
Lemma time_all_window lo b : lo < b -> forall r t s, t <= b -> qsorted_from t (map fst r) ->
  time_all lo b ((t, s) :: r) == b - qmax t lo.
Proof.
  intros Hlb. induction r as [|[t' s'] r IH]; intros t s Ht Hs.
  - cbn. qcases.
  - cbn in Hs. destruct Hs as [H1 H2].
    change (time_all lo b ((t, s) :: (t', s') :: r)) with (clip lo b t t' + time_all lo b ((t', s') :: r)).
    destruct (Qlt_le_dec b t') as [Hgt|Hle].
    + assert (E : time_all lo b ((t', s') :: r) == 0).
      { clear IH. revert t' s' H1 H2 Hgt. induction r as [|[t2 s2] r IH2]; intros t' s' H1 H2 Hgt.
        - cbn. qcases.
        - cbn in H2. destruct H2 as [H3 H4].
          change (time_all lo b ((t', s') :: (t2, s2) :: r)) with (clip lo b t' t2 + time_all lo b ((t2, s2) :: r)).
          rewrite (IH2 t2 s2); [unfold clip; qcases| |exact H4|]; lra. }
      rewrite E. unfold clip. qcases.
    + rewrite (IH t' s' Hle H2). unfold clip. qcases.
Qed.

(* a non-trivial history meets the hypotheses of the specification *)
Definition h_example : hist := [(0, 0%Z); (1, 1%Z); (3, 2%Z); (4, 1%Z)].
Example sp_example_in_guard :
  state_probabilities h_example (1 # 2) (Some 6) =
  SpOk [(0%Z, 1 # 11); (1%Z, 8 # 11); (2%Z, 2 # 11)].
Proof. vm_compute. reflexivity. Qed.

(* ---- outside the guard the faithful model does NOT return the time shares (F-17b) ---- *)
(* (i) a timestamp equal to the window end: the interval that ends there is dropped *)
Theorem state_probabilities_refuted_end_date :
  exists t0 s0 r a b s d,
    qsorted_from t0 (map fst r) /\ 0 <= a /\ a < b /\ t0 < b /\
    state_probabilities ((t0, s0) :: r) a (Some b) = SpOk d /\
    ~ dget d s == time_in (qmax a t0) b s ((t0, s0) :: r) / (b - qmax a t0).
Proof.
  exists 0, 0%Z, [(1, 1%Z); (3, 2%Z); (4, 1%Z)], 0, 4, 2%Z, [(0%Z, 1 # 3); (1%Z, 2 # 3)].
  repeat split; try (cbn; lra).
  intros H. vm_compute in H. discriminate.
Qed.
(* ... and when that interval is the only one the function divides zero by zero *)
Theorem state_probabilities_refuted_end_date_zero_division :
  state_probabilities [(0, 0%Z); (4, 1%Z)] 0 (Some 4) = SpZeroDivision.
Proof. vm_compute. reflexivity. Qed.

(* (ii) the default window (start, inf): the final state is credited the length of the PREVIOUS
   interval, so the result is not the time share over the recorded period [max a t0, t_last]
   (nor over any period the caller named) *)
Definition last_time (h : hist) : Q := last (map fst h) 0.
Theorem state_probabilities_refuted_inf :
  exists t0 s0 r a s d,
    qsorted_from t0 (map fst r) /\ 0 <= a /\
    state_probabilities ((t0, s0) :: r) a None = SpOk d /\
    ~ dget d s == time_in (qmax a t0) (last_time ((t0, s0) :: r)) s ((t0, s0) :: r) / (last_time ((t0, s0) :: r) - qmax a t0).
Proof.
  exists 0, 0%Z, [(1, 1%Z); (3, 2%Z); (4, 1%Z)], 0, 1%Z, [(0%Z, 1 # 5); (1%Z, 3 # 5); (2%Z, 1 # 5)].
  repeat split; try (cbn; lra).
  intros H. vm_compute in H. discriminate.
Qed.
(* ... and a history whose state never changed makes the default call divide by zero *)
Theorem state_probabilities_refuted_inf_zero_division :
  state_probabilities [(0, 0%Z)] 0 None = SpZeroDivision.
Proof. vm_compute. reflexivity. Qed.

Close Scope Q_scope.

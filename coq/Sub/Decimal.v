(* Decimal.v -- the arithmetic of Ciw's exact mode (property C20).

   A decimal is a pair (mantissa, exponent) of integers meaning  m * 10^e ,
   exactly the (sign*coefficient, exponent) pair of a finite Python
   [decimal.Decimal].  [add_k k] is Python's  a + b  in a context of precision
   k with the default rounding ROUND_HALF_EVEN: the exact sum at the smaller of
   the two exponents, rounded to k significant digits when it has more.
   (Subtraction a - b is add_k a (-b); the rounding is symmetric.)

   Theorems (statements re-exported by Properties/C20.v):
     add_exact     a sum that has <= k significant digits is not rounded
     sum_exact     a left fold of add_k over samples on the 10^-d grid whose
                   partial sums fit in k digits is the exact sum ("no drift"):
                   the exact-mode run is the integer tick run with tick 10^-d
     coincide      any two orders / groupings of the same samples give the same
                   value, so events that coincide mathematically coincide
     *_refuted     with too small a precision rounding does occur and two
                   groupings of the same samples differ (the hypothesis is not
                   vacuous)
   Everything is executable; the harness compares add_k, of_lit, the fold and
   the comparison with Python's decimal module on random operands. *)
From Coq Require Import ZArith QArith Qpower List Bool Lia Permutation.
From CiwV Require Import Prelude.
Import ListNotations.
Open Scope Z_scope.

Record dec : Type := mkD { dm : Z; de : Z }.

(* ------------------------------------------------------------------ digits *)
Fixpoint nd (fuel : nat) (n : Z) : Z :=
  match fuel with
  | O => 0
  | S f => if n <=? 0 then 0 else 1 + nd f (n / 10)
  end.

(* number of decimal digits of |n| ; 0 for n = 0 *)
Definition ndigits (n : Z) : Z := nd (S (Z.to_nat (Z.log2 (Z.abs n)))) (Z.abs n).

Lemma nd_nonpos f n : n <= 0 -> nd f n = 0.
Proof. destruct f; cbn; [reflexivity|]. intros H. destruct (Z.leb_spec n 0); [reflexivity|lia]. Qed.

Lemma nd_spec f : forall n, 0 < n -> n < 2 ^ Z.of_nat f ->
  1 <= nd f n /\ 10 ^ (nd f n - 1) <= n < 10 ^ nd f n.
Proof.
  induction f as [|f IH]; intros n Hpos Hlt.
  - cbn in Hlt. lia.
  - cbn [nd]. destruct (Z.leb_spec n 0) as [|_]; [lia|].
    rewrite Nat2Z.inj_succ, Z.pow_succ_r in Hlt by lia.
    pose proof (Z.div_mod n 10 ltac:(lia)) as Hdm.
    pose proof (Z.mod_pos_bound n 10 ltac:(lia)) as Hmb.
    destruct (Z.eq_dec (n / 10) 0) as [Hz|Hnz].
    + rewrite Hz, nd_nonpos by lia. cbn. lia.
    + assert (Hq : 0 < n / 10) by (pose proof (Z.div_pos n 10); lia).
      assert (Hq2 : n / 10 < 2 ^ Z.of_nat f).
      { apply Z.div_lt_upper_bound; [lia|]. pose proof (Z.pow_pos_nonneg 2 (Z.of_nat f)); lia. }
      destruct (IH _ Hq Hq2) as [H1 [H2 H3]].
      split; [lia|].
      replace (1 + nd f (n / 10) - 1) with (Z.succ (nd f (n / 10) - 1)) by lia.
      replace (1 + nd f (n / 10)) with (Z.succ (nd f (n / 10))) by lia.
      rewrite !Z.pow_succ_r by lia. lia.
Qed.

Lemma ndigits_0 : ndigits 0 = 0.
Proof. reflexivity. Qed.

Lemma ndigits_spec n : n <> 0 ->
  1 <= ndigits n /\ 10 ^ (ndigits n - 1) <= Z.abs n < 10 ^ ndigits n.
Proof.
  intros Hn. unfold ndigits. apply nd_spec; [lia|].
  rewrite Nat2Z.inj_succ, Z2Nat.id by apply Z.log2_nonneg.
  apply Z.log2_spec. lia.
Qed.

Lemma ndigits_nonneg n : 0 <= ndigits n.
Proof. destruct (Z.eq_dec n 0) as [->|H]; [rewrite ndigits_0; lia|]. pose proof (ndigits_spec n H). lia. Qed.

(* "n has at most k digits" is the arithmetic fact |n| < 10^k *)
Lemma ndigits_le k n : 0 <= k -> (ndigits n <= k <-> Z.abs n < 10 ^ k).
Proof.
  intros Hk. destruct (Z.eq_dec n 0) as [->|Hn].
  - rewrite ndigits_0. cbn. pose proof (Z.pow_pos_nonneg 10 k). lia.
  - destruct (ndigits_spec n Hn) as [H1 [H2 H3]]. split; intros H.
    + pose proof (Z.pow_le_mono_r 10 (ndigits n) k). lia.
    + destruct (Z_lt_le_dec k (ndigits n)) as [Hlt|]; [|lia].
      pose proof (Z.pow_le_mono_r 10 k (ndigits n - 1)). lia.
Qed.

(* ------------------------------------------------------------------ rounding *)
(* m / 10^s rounded to the nearest integer, ties to even (floor division makes the
   same formula right for negative m: nearest and ties-to-even are symmetric) *)
Definition round_he (m s : Z) : Z :=
  let p := 10 ^ s in
  let q := m / p in
  let r := m mod p in
  if 2 * r <? p then q
  else if p <? 2 * r then q + 1
  else if Z.even q then q else q + 1.

(* Python's Decimal._fix for a finite number inside the exponent range: keep at most k digits *)
Definition fix_k (k m e : Z) : dec :=
  let d := ndigits m in
  if d <=? k then mkD m e
  else
    let s := d - k in
    let q := round_he m s in
    if ndigits q <=? k then mkD q (e + s) else mkD (q / 10) (e + s + 1).

Definition emin (a b : dec) : Z := Z.min (de a) (de b).
(* the exact sum, as a mantissa at the smaller exponent *)
Definition msum (a b : dec) : Z :=
  dm a * 10 ^ (de a - emin a b) + dm b * 10 ^ (de b - emin a b).

Definition add_k (k : Z) (a b : dec) : dec := fix_k k (msum a b) (emin a b).
Definition neg (a : dec) : dec := mkD (- dm a) (de a).
Definition sub_k (k : Z) (a b : dec) : dec := add_k k a (neg b).

(* Python's == on Decimals is exact comparison of values *)
Definition dec_cmp (a b : dec) : comparison :=
  (dm a * 10 ^ (de a - emin a b)) ?= (dm b * 10 ^ (de b - emin a b)).
Definition dec_eqb (a b : dec) : bool :=
  match dec_cmp a b with Eq => true | _ => false end.

(* decimal literals  [-] i1 i2 .. . f1 f2 .. E ex   as Decimal("...") reads them *)
Fixpoint digs (acc : Z) (l : list Z) : Z :=
  match l with [] => acc | x :: r => digs (acc * 10 + x) r end.
Definition of_lit (sgn : bool) (ip fp : list Z) (ex : Z) : dec :=
  let m := digs 0 (ip ++ fp) in
  mkD (if sgn then - m else m) (ex - Z.of_nat (length fp)).

(* ------------------------------------------------------------------ value *)
Definition q10 : Q := inject_Z 10.
Definition dval (x : dec) : Q := (inject_Z (dm x) * q10 ^ de x)%Q.

Lemma q10_nz : ~ (q10 == 0)%Q.
Proof. unfold q10. intros H. apply (inject_Z_injective 10 0) in H. discriminate. Qed.

Lemma dval_shift m e s : 0 <= s -> (dval (mkD (m * 10 ^ s) e) == dval (mkD m (e + s)))%Q.
Proof.
  intros Hs. unfold dval; cbn [dm de].
  rewrite inject_Z_mult, (Zpower_Qpower 10 s Hs), (Qpower_plus q10 e s q10_nz).
  fold q10. ring.
Qed.

Lemma dval_msum a b : (dval (mkD (msum a b) (emin a b)) == dval a + dval b)%Q.
Proof.
  unfold msum. set (e := emin a b).
  assert (Ha : 0 <= de a - e) by (unfold e, emin; lia).
  assert (Hb : 0 <= de b - e) by (unfold e, emin; lia).
  transitivity (dval (mkD (dm a * 10 ^ (de a - e)) e) + dval (mkD (dm b * 10 ^ (de b - e)) e))%Q.
  - unfold dval; cbn [dm de]. rewrite inject_Z_plus. ring.
  - rewrite (dval_shift _ _ _ Ha), (dval_shift _ _ _ Hb).
    replace (e + (de a - e)) with (de a) by lia. replace (e + (de b - e)) with (de b) by lia.
    destruct a, b; reflexivity.
Qed.

Lemma dval_neg a : (dval (neg a) == - dval a)%Q.
Proof. unfold dval, neg; cbn [dm de]. rewrite inject_Z_opp. ring. Qed.

(* ------------------------------------------------------------------ add_exact *)
Lemma round_he_exact m s : 0 <= s -> m mod 10 ^ s = 0 -> round_he m s = m / 10 ^ s.
Proof.
  intros Hs H. unfold round_he. rewrite H.
  pose proof (Z.pow_pos_nonneg 10 s ltac:(lia) Hs).
  destruct (Z.ltb_spec (2 * 0) (10 ^ s)); [reflexivity|lia].
Qed.

(* the number m * 10^e can be written with at most k significant digits *)
Definition fits (k m : Z) : Prop :=
  exists s, 0 <= s /\ m mod 10 ^ s = 0 /\ Z.abs (m / 10 ^ s) < 10 ^ k.

Lemma fits_small k m : Z.abs m < 10 ^ k -> fits k m.
Proof. intros H. exists 0. rewrite Z.pow_0_r, Z.mod_1_r, Z.div_1_r. auto with zarith. Qed.

Lemma fix_small k m e : 0 <= k -> Z.abs m < 10 ^ k -> fix_k k m e = mkD m e.
Proof.
  intros Hk H. unfold fix_k. apply (ndigits_le k m Hk) in H.
  destruct (Z.leb_spec (ndigits m) k); [reflexivity|lia].
Qed.

Lemma fix_exact k m e : 0 <= k -> fits k m -> (dval (fix_k k m e) == dval (mkD m e))%Q.
Proof.
  intros Hk [s [Hs [Hmod Hlt]]]. unfold fix_k.
  destruct (Z.leb_spec (ndigits m) k) as [|Hd]; [reflexivity|].
  set (s0 := ndigits m - k).
  assert (Hp : 0 < 10 ^ s) by (apply Z.pow_pos_nonneg; lia).
  (* m = 10^s * t with |t| < 10^k, hence ndigits m <= s + k *)
  pose proof (Z.div_mod m (10 ^ s) ltac:(lia)) as Hm. rewrite Hmod, Z.add_0_r in Hm.
  set (t := m / 10 ^ s) in *.
  assert (Hms : Z.abs m < 10 ^ (s + k)).
  { rewrite Z.pow_add_r by lia. rewrite Hm, Z.abs_mul, (Z.abs_eq (10 ^ s)) by lia. nia. }
  apply (ndigits_le (s + k) m ltac:(lia)) in Hms.
  assert (Hs0 : 0 < s0 <= s) by (unfold s0; lia).
  assert (Hp0 : 0 < 10 ^ s0) by (apply Z.pow_pos_nonneg; lia).
  assert (Hsplit : 10 ^ s = 10 ^ s0 * 10 ^ (s - s0)).
  { rewrite <- Z.pow_add_r by lia. f_equal. lia. }
  assert (Hm0 : m = (10 ^ (s - s0) * t) * 10 ^ s0) by (rewrite Hm, Hsplit; ring).
  assert (Hmod0 : m mod 10 ^ s0 = 0) by (rewrite Hm0; apply Z_mod_mult).
  assert (Hq : m / 10 ^ s0 = 10 ^ (s - s0) * t) by (rewrite Hm0 at 1; apply Z_div_mult; lia).
  rewrite (round_he_exact m s0 ltac:(lia) Hmod0).
  set (q := m / 10 ^ s0) in *.
  assert (Hmq : m = q * 10 ^ s0) by (rewrite Hq; exact Hm0).
  assert (Hqk : Z.abs q < 10 ^ k).
  { assert (Hmn : m <> 0) by (intros ->; rewrite ndigits_0 in Hd; lia).
    destruct (ndigits_spec m Hmn) as [_ [_ Hub]].
    replace (ndigits m) with (s0 + k) in Hub by (unfold s0; lia).
    rewrite Z.pow_add_r in Hub by lia.
    rewrite Hmq, Z.abs_mul, (Z.abs_eq (10 ^ s0)) in Hub by lia. nia. }
  apply (ndigits_le k q Hk) in Hqk.
  destruct (Z.leb_spec (ndigits q) k); [|lia].
  replace (mkD m e) with (mkD (q * 10 ^ s0) e) by (f_equal; symmetry; exact Hmq).
  symmetry. apply dval_shift. lia.
Qed.

(* add_exact: if the exact sum has at most k significant digits, add_k returns a decimal
   whose value is the exact sum *)
Theorem add_exact k a b : 0 <= k -> fits k (msum a b) ->
  (dval (add_k k a b) == dval a + dval b)%Q.
Proof. intros Hk H. unfold add_k. rewrite (fix_exact _ _ _ Hk H). apply dval_msum. Qed.

Corollary sub_exact k a b : 0 <= k -> fits k (msum a (neg b)) ->
  (dval (sub_k k a b) == dval a - dval b)%Q.
Proof. intros Hk H. unfold sub_k. rewrite (add_exact _ _ _ Hk H), dval_neg. reflexivity. Qed.

(* the plain case: the aligned sum itself has at most k digits; then even the representation is the exact one *)
Lemma add_small k a b : 0 <= k -> Z.abs (msum a b) < 10 ^ k -> add_k k a b = mkD (msum a b) (emin a b).
Proof. intros Hk H. apply fix_small; assumption. Qed.

(* ------------------------------------------------------------------ ticks *)
(* decimals with at most d fractional digits are integers in units of 10^-d *)
Definition on_grid (d : Z) (x : dec) : Prop := - d <= de x.
Definition ticks (d : Z) (x : dec) : Z := dm x * 10 ^ (de x + d).

Lemma dval_ticks d x : on_grid d x -> (dval x == inject_Z (ticks d x) * q10 ^ (- d))%Q.
Proof.
  unfold on_grid. intros H.
  change (inject_Z (ticks d x) * q10 ^ (- d))%Q with (dval (mkD (dm x * 10 ^ (de x + d)) (- d))).
  rewrite dval_shift by lia. replace (- d + (de x + d)) with (de x) by lia. destruct x; reflexivity.
Qed.

Lemma msum_ticks d a b : on_grid d a -> on_grid d b ->
  on_grid d (mkD (msum a b) (emin a b)) /\ ticks d (mkD (msum a b) (emin a b)) = ticks d a + ticks d b.
Proof.
  unfold on_grid, ticks, msum; cbn [dm de]. intros Ha Hb. set (e := emin a b).
  assert (He : - d <= e) by (unfold e, emin; lia).
  assert (Hae : 0 <= de a - e) by (unfold e, emin; lia).
  assert (Hbe : 0 <= de b - e) by (unfold e, emin; lia).
  split; [exact He|].
  rewrite Z.mul_add_distr_r, <- !Z.mul_assoc, <- !Z.pow_add_r by lia.
  f_equal; f_equal; f_equal; lia.
Qed.

Lemma add_ticks k d a b : 0 <= k -> on_grid d a -> on_grid d b ->
  Z.abs (ticks d a + ticks d b) < 10 ^ k ->
  add_k k a b = mkD (msum a b) (emin a b) /\
  on_grid d (add_k k a b) /\ ticks d (add_k k a b) = ticks d a + ticks d b.
Proof.
  intros Hk Ha Hb Hfit.
  destruct (msum_ticks d a b Ha Hb) as [Hg Ht].
  assert (Hs : Z.abs (msum a b) < 10 ^ k).
  { unfold ticks in Ht at 1; cbn [dm de] in Ht. unfold on_grid in Hg; cbn [de] in Hg.
    assert (Hp : 0 < 10 ^ (emin a b + d)) by (apply Z.pow_pos_nonneg; lia).
    rewrite <- Ht, Z.abs_mul, (Z.abs_eq (10 ^ _)) in Hfit by lia. nia. }
  rewrite (add_small k a b Hk Hs). auto.
Qed.

(* ------------------------------------------------------------------ sum_exact *)
Definition qsum (l : list Q) : Q := fold_right Qplus 0%Q l.

(* every partial sum, counted in ticks of 10^-d, has at most k digits *)
Fixpoint sums_fit (k d acc : Z) (l : list dec) : Prop :=
  match l with
  | [] => True
  | x :: r => Z.abs (acc + ticks d x) < 10 ^ k /\ sums_fit k d (acc + ticks d x) r
  end.

(* the exact-mode accumulation IS the integer tick accumulation *)
Theorem sum_ticks k d : 0 <= k -> forall l acc,
  on_grid d acc -> Forall (on_grid d) l -> sums_fit k d (ticks d acc) l ->
  on_grid d (fold_left (add_k k) l acc) /\
  ticks d (fold_left (add_k k) l acc) = ticks d acc + zsum (map (ticks d) l).
Proof.
  intros Hk. induction l as [|x r IH]; intros acc Hacc Hl Hfit.
  - cbn. split; [assumption|lia].
  - cbn [fold_left map zsum fold_right]. inversion Hl as [|? ? Hx Hr]; subst.
    destruct Hfit as [H1 H2].
    destruct (add_ticks k d acc x Hk Hacc Hx H1) as [_ [Hg Ht]].
    rewrite <- Ht in H2. destruct (IH _ Hg Hr H2) as [G1 G2].
    split; [exact G1|]. rewrite G2, Ht. fold (zsum (map (ticks d) r)). lia.
Qed.

(* sum_exact: no drift -- the fold of add_k equals the exact rational sum of the samples *)
Theorem sum_exact k d : 0 <= k -> forall l acc,
  on_grid d acc -> Forall (on_grid d) l -> sums_fit k d (ticks d acc) l ->
  (dval (fold_left (add_k k) l acc) == dval acc + qsum (map dval l))%Q.
Proof.
  intros Hk. induction l as [|x r IH]; intros acc Hacc Hl Hfit.
  - cbn. ring.
  - cbn [fold_left map qsum fold_right]. inversion Hl as [|? ? Hx Hr]; subst.
    destruct Hfit as [H1 H2].
    destruct (add_ticks k d acc x Hk Hacc Hx H1) as [He [Hg Ht]].
    rewrite <- Ht in H2. rewrite (IH _ Hg Hr H2).
    rewrite He, dval_msum. fold (qsum (map dval r)). ring.
Qed.

(* a sufficient condition that is easy to read: non-negative samples whose total fits *)
Lemma sums_fit_nonneg k d : forall l acc, 0 <= acc ->
  Forall (fun x => 0 <= ticks d x) l -> acc + zsum (map (ticks d) l) < 10 ^ k -> sums_fit k d acc l.
Proof.
  induction l as [|x r IH]; intros acc Hacc Hl Hs; cbn; [exact I|].
  inversion Hl as [|? ? Hx Hr]; subst. cbn [map zsum fold_right] in Hs. fold (zsum (map (ticks d) r)) in Hs.
  assert (Hr0 : 0 <= zsum (map (ticks d) r)).
  { clear - Hr. induction Hr; cbn; [lia|]. fold (zsum (map (ticks d) l)). lia. }
  split; [rewrite Z.abs_eq; lia|]. apply IH; [lia|assumption|lia].
Qed.

(* ------------------------------------------------------------------ coincide *)
Lemma dec_cmp_spec a b : dec_cmp a b = Eq <-> (dval a == dval b)%Q.
Proof.
  unfold dec_cmp. set (e := emin a b).
  assert (Ha : 0 <= de a - e) by (unfold e, emin; lia).
  assert (Hb : 0 <= de b - e) by (unfold e, emin; lia).
  assert (Va : (dval a == dval (mkD (dm a * 10 ^ (de a - e)) e))%Q).
  { rewrite dval_shift by lia. replace (e + (de a - e)) with (de a) by lia. destruct a; reflexivity. }
  assert (Vb : (dval b == dval (mkD (dm b * 10 ^ (de b - e)) e))%Q).
  { rewrite dval_shift by lia. replace (e + (de b - e)) with (de b) by lia. destruct b; reflexivity. }
  rewrite Z.compare_eq_iff, Va, Vb. unfold dval; cbn [dm de]. split.
  - intros ->. reflexivity.
  - intros H. apply Qmult_inj_r in H; [|apply Qpower_not_0, q10_nz]. apply inject_Z_injective. exact H.
Qed.

Lemma dec_eqb_spec a b : dec_eqb a b = true <-> (dval a == dval b)%Q.
Proof.
  rewrite <- dec_cmp_spec. unfold dec_eqb. destruct (dec_cmp a b); split; congruence.
Qed.

Lemma ticks_eq_dval d a b : on_grid d a -> on_grid d b -> ticks d a = ticks d b -> (dval a == dval b)%Q.
Proof. intros Ha Hb H. rewrite (dval_ticks d a Ha), (dval_ticks d b Hb), H. reflexivity. Qed.

Lemma zsum_perm a b : Permutation a b -> zsum a = zsum b.
Proof. unfold zsum. induction 1; cbn in *; lia. Qed.

(* any grouping: a binary tree of additions *)
Inductive stree : Type := Leaf (x : dec) | Node (l r : stree).
Fixpoint eval_k (k : Z) (t : stree) : dec :=
  match t with Leaf x => x | Node l r => add_k k (eval_k k l) (eval_k k r) end.
Fixpoint leaves (t : stree) : list dec :=
  match t with Leaf x => [x] | Node l r => leaves l ++ leaves r end.
Fixpoint tsum (d : Z) (t : stree) : Z :=
  match t with Leaf x => ticks d x | Node l r => tsum d l + tsum d r end.
(* every leaf on the grid, every intermediate exact sum has at most k digits *)
Fixpoint tree_fit (k d : Z) (t : stree) : Prop :=
  match t with
  | Leaf x => on_grid d x
  | Node l r => tree_fit k d l /\ tree_fit k d r /\ Z.abs (tsum d l + tsum d r) < 10 ^ k
  end.

Lemma eval_ticks k d t : 0 <= k -> tree_fit k d t ->
  on_grid d (eval_k k t) /\ ticks d (eval_k k t) = tsum d t.
Proof.
  intros Hk. induction t as [x|l IHl r IHr]; cbn; intros H; [auto|].
  destruct H as [Hl [Hr Hf]]. destruct (IHl Hl) as [G1 T1]. destruct (IHr Hr) as [G2 T2].
  rewrite <- T1, <- T2 in Hf. destruct (add_ticks k d _ _ Hk G1 G2 Hf) as [_ [G T]].
  split; [exact G|]. rewrite T, T1, T2. reflexivity.
Qed.

Lemma tsum_leaves d t : tsum d t = zsum (map (ticks d) (leaves t)).
Proof. induction t as [x|l IHl r IHr]; cbn; [lia|]. rewrite map_app, zsum_app. lia. Qed.

(* coincide: two computations that add the same samples in different orders and groupings,
   none of whose intermediate sums overflows the precision, produce equal Decimals
   (Python's == on them is True): mathematically simultaneous events are simultaneous *)
Theorem coincide k d t1 t2 : 0 <= k -> tree_fit k d t1 -> tree_fit k d t2 ->
  Permutation (leaves t1) (leaves t2) ->
  (dval (eval_k k t1) == dval (eval_k k t2))%Q /\ dec_eqb (eval_k k t1) (eval_k k t2) = true.
Proof.
  intros Hk F1 F2 P.
  destruct (eval_ticks k d t1 Hk F1) as [G1 T1]. destruct (eval_ticks k d t2 Hk F2) as [G2 T2].
  assert (E : (dval (eval_k k t1) == dval (eval_k k t2))%Q).
  { apply (ticks_eq_dval d); [assumption..|]. rewrite T1, T2, !tsum_leaves.
    apply zsum_perm, Permutation_map, P. }
  split; [exact E|]. apply dec_eqb_spec, E.
Qed.

(* the same for the engine's shape, two left folds from the same start *)
Theorem coincide_fold k d l1 l2 acc : 0 <= k -> on_grid d acc ->
  Forall (on_grid d) l1 -> Forall (on_grid d) l2 ->
  sums_fit k d (ticks d acc) l1 -> sums_fit k d (ticks d acc) l2 -> Permutation l1 l2 ->
  dec_eqb (fold_left (add_k k) l1 acc) (fold_left (add_k k) l2 acc) = true.
Proof.
  intros Hk Ha G1 G2 F1 F2 P.
  destruct (sum_ticks k d Hk l1 acc Ha G1 F1) as [H1 T1].
  destruct (sum_ticks k d Hk l2 acc Ha G2 F2) as [H2 T2].
  apply dec_eqb_spec, (ticks_eq_dval d); [assumption..|].
  rewrite T1, T2. f_equal. apply zsum_perm, Permutation_map, P.
Qed.

(* ------------------------------------------------------------------ literals *)
Lemma digs_acc l : forall a, digs a l = a * 10 ^ Z.of_nat (length l) + digs 0 l.
Proof.
  induction l as [|x r IH]; intros a; cbn [digs length].
  - cbn. lia.
  - rewrite (IH (a * 10 + x)), (IH (0 * 10 + x)), Nat2Z.inj_succ, Z.pow_succ_r by lia. ring.
Qed.
Lemma digs_app a l1 l2 : digs a (l1 ++ l2) = digs (digs a l1) l2.
Proof. revert a; induction l1 as [|x r IH]; intros a; cbn; [reflexivity|apply IH]. Qed.

(* Decimal("i.f E ex") has the value (i + f / 10^|f|) * 10^ex *)
Theorem of_lit_value ip fp ex :
  (dval (of_lit false ip fp ex) ==
   (inject_Z (digs 0 ip) + inject_Z (digs 0 fp) * q10 ^ (- Z.of_nat (length fp))) * q10 ^ ex)%Q.
Proof.
  unfold of_lit. set (n := Z.of_nat (length fp)).
  assert (Hn : 0 <= n) by (unfold n; lia).
  rewrite digs_app, (digs_acc fp (digs 0 ip)). fold n.
  unfold dval; cbn [dm de].
  rewrite inject_Z_plus, inject_Z_mult, (Zpower_Qpower 10 n Hn). fold q10.
  replace (ex - n) with (ex + - n) by lia.
  rewrite (Qpower_plus q10 ex (- n) q10_nz).
  assert (H1 : (q10 ^ n * q10 ^ (- n) == 1)%Q).
  { rewrite <- (Qpower_plus q10 n (- n) q10_nz). replace (n + - n) with 0 by lia. reflexivity. }
  transitivity (inject_Z (digs 0 ip) * (q10 ^ n * q10 ^ (- n)) * q10 ^ ex
                + inject_Z (digs 0 fp) * q10 ^ (- n) * q10 ^ ex)%Q; [ring|].
  rewrite H1. ring.
Qed.
Lemma of_lit_neg ip fp ex : of_lit true ip fp ex = neg (of_lit false ip fp ex).
Proof. reflexivity. Qed.
Lemma of_lit_grid d sgn ip fp : Z.of_nat (length fp) <= d -> on_grid d (of_lit sgn ip fp 0).
Proof. unfold on_grid, of_lit; cbn [de]. lia. Qed.

(* ------------------------------------------------------------------ examples and refutations *)
(* 0.25 + 0.5 + 0.75 at precision 10, three digits needed: exact *)
Example ex_fold : fold_left (add_k 10) [mkD 5 (-1); mkD 75 (-2)] (mkD 25 (-2)) = mkD 150 (-2).
Proof. vm_compute. reflexivity. Qed.
(* the hypotheses of sum_ticks are met by a non-trivial list *)
Example ex_fit : sums_fit 10 2 (ticks 2 (mkD 25 (-2))) [mkD 5 (-1); mkD 75 (-2)].
Proof. cbn. lia. Qed.
(* half-even: 0.125 -> 0.12, 0.135 -> 0.14, 0.145 -> 0.14, -0.125 -> -0.12, 9.995 -> 10.0 at 2 resp. 3 digits *)
Example ex_half_even :
  map (fun m => add_k 2 (mkD m (-3)) (mkD 0 (-3))) [125; 135; 145; -125; -135; 126; -126]
  = [mkD 12 (-2); mkD 14 (-2); mkD 14 (-2); mkD (-12) (-2); mkD (-14) (-2); mkD 13 (-2); mkD (-13) (-2)].
Proof. vm_compute. reflexivity. Qed.
Example ex_carry : add_k 3 (mkD 9995 (-3)) (mkD 0 0) = mkD 100 (-1).
Proof. vm_compute. reflexivity. Qed.
(* trailing zeros: 500.0 + 500.0 at 3 digits is rounded in representation but not in value *)
Example ex_trailing : add_k 3 (mkD 5000 (-1)) (mkD 5000 (-1)) = mkD 100 1.
Proof. vm_compute. reflexivity. Qed.

(* with too small a precision the sum IS rounded: 1.23 + 0.004 at 3 digits is 1.23, not 1.234 *)
Example add_exact_refuted :
  add_k 3 (mkD 123 (-2)) (mkD 4 (-3)) = mkD 123 (-2) /\
  dec_eqb (add_k 3 (mkD 123 (-2)) (mkD 4 (-3))) (mkD 1234 (-3)) = false /\
  ~ Z.abs (msum (mkD 123 (-2)) (mkD 4 (-3))) < 10 ^ 3.
Proof. vm_compute. repeat split; try reflexivity. intros H; discriminate H. Qed.

(* ... and two groupings of the same three samples then differ (drift): (1.00+0.004)+0.004 = 1.00 but
   1.00+(0.004+0.004) = 1.01 at 3 digits; at 4 digits both are 1.008 *)
Example coincide_refuted :
  let a := mkD 100 (-2) in let b := mkD 4 (-3) in
  dec_eqb (eval_k 3 (Node (Node (Leaf a) (Leaf b)) (Leaf b))) (eval_k 3 (Node (Leaf a) (Node (Leaf b) (Leaf b)))) = false /\
  dec_eqb (eval_k 4 (Node (Node (Leaf a) (Leaf b)) (Leaf b))) (eval_k 4 (Node (Leaf a) (Node (Leaf b) (Leaf b)))) = true.
Proof. vm_compute. split; reflexivity. Qed.

(* PS.v -- model of ciw/processor_sharing.py (PSNode on top of node.py) for ONE
   processor-sharing node with capacity K (None = infinite) and threshold R, fed by a
   finite list of arrivals (id, arrival date, work requirement).  Exact rationals (Q).

   The model mirrors the Python code method by method:
     update_all            = PSNode.update_all_service_end_dates
     accept                = Node.accept + PSNode.begin_service_if_possible_accept
     depart                = Node.release + PSNode.begin_service_if_possible_release
     next_end              = Node.update_next_end_service_without_server (first minimal end date)
     step                  = Simulation.find_next_active_node + have_event (arrival node / PS node)
   State per customer: with_server flag, service_start_date, time_left, service_end_date,
   date_last_update; per node: the list all_individuals (arrival order) and last_occupancy.
   Every stored rational is normalised with Qred so that the extracted code stays fast;
   Qred x == x, so the theorems are about the plain arithmetic.

   Theorems (all closed under the global context):
     ps_rate, rate_min     progress of every served customer between two events
     ps_work               departure exactly when the remaining work is 0; work received = requirement
     ps_no_early           a served customer never has negative remaining work, and remaining work 0
                           means its projected end date is now
     ps_capacity           <= K in service, they are the head of the line, starts happen in arrival order
     ps_fifo_equiv         K = infinity, R = 1: total remaining work = that of the FIFO single server
     ps_complete           the run with fuel 2*|arrivals| reaches the final state (everything departed) *)
From Coq Require Import QArith Qminmax Qreduction Lqa Lia List Bool ZArith Arith.
Import ListNotations.
Open Scope Q_scope.

Definition arrival := (Z * Q * Q)%type.
Definition a_id (a : arrival) : Z := fst (fst a).
Definition a_t (a : arrival) : Q := snd (fst a).
Definition a_w (a : arrival) : Q := snd a.

Record cust := mkC { cid : Z; c_arr : Q; c_req : Q; c_ws : bool; c_start : Q; c_tl : Q; c_end : Q; c_dlu : Q }.
Record dep := mkD { d_id : Z; d_arr : Q; d_req : Q; d_start : Q; d_exit : Q }.
Record st := mkSt { now : Q; inds : list cust; locc : nat; pend : list arrival;
                    deps : list dep;            (* departures, latest first *)
                    starts : list (Z * Q) }.    (* service starts (id, date), latest first *)

Definition qocc (n : nat) : Q := inject_Z (Z.of_nat n).
Definition cap_min (n : nat) (K : option nat) : nat := match K with None => n | Some k => Nat.min n k end.

Fixpoint remove1 (id : Z) (l : list cust) : list cust :=
  match l with [] => [] | c :: r => if (cid c =? id)%Z then r else c :: remove1 id r end.
Definition start_at (t : Q) (c : cust) : cust := mkC (cid c) (c_arr c) (c_req c) true t (c_req c) 0 t.
Fixpoint start_nth (k : nat) (t : Q) (l : list cust) : list cust :=
  match l, k with
  | [], _ => []
  | c :: r, O => start_at t c :: r
  | c :: r, S k' => c :: start_nth k' t r
  end.

(* update_next_end_service_without_server: among customers with an end date >= now keep the
   first one with the smallest end date (Python scans left to right with a strict <) *)
Fixpoint next_end (t : Q) (l : list cust) : option cust :=
  match l with
  | [] => None
  | c :: r =>
    let b := next_end t r in
    if c_ws c && Qle_bool t (c_end c) then
      match b with
      | None => Some c
      | Some c' => if Qle_bool (c_end c) (c_end c') then Some c else b
      end
    else b
  end.

Section PS.
Variable R : Q.
Variable K : option nat.

(* share_completed of one customer in update_all_service_end_dates *)
Definition share (t : Q) (lo : nat) (c : cust) : Q :=
  if (0 <? lo)%nat then (R * (t - c_dlu c)) / Qmax (qocc lo) R else 0.
Definition upd_cust (t : Q) (lo no : nat) (c : cust) : cust :=
  if c_ws c then
    let tl := Qred (c_tl c - share t lo c) in
    mkC (cid c) (c_arr c) (c_req c) true (c_start c) tl (Qred (t + (tl * Qmax (qocc no) R) / R)) t
  else c.
Definition update_all (t : Q) (lo : nat) (l : list cust) : list cust * nat :=
  let no := cap_min (length l) K in (map (upd_cust t lo no) l, no).

Definition within (n : nat) : bool := match K with None => true | Some k => (n <=? k)%nat end.

(* Node.accept + begin_service_if_possible_accept at time t = a_t a *)
Definition accept (s : st) (a : arrival) (rest : list arrival) : st :=
  let t := a_t a in
  if within (S (length (inds s))) then
    let c1 := mkC (a_id a) t (a_w a) true t (a_w a) 0 t in
    let lu := update_all t (locc s) (inds s ++ [c1]) in
    mkSt t (fst lu) (snd lu) rest (deps s) ((a_id a, t) :: starts s)
  else
    mkSt t (inds s ++ [mkC (a_id a) t (a_w a) false 0 0 0 0]) (locc s) rest (deps s) (starts s).

(* begin_service_if_possible_release: if n >= ps_capacity the customer at index ps_capacity-1 starts *)
Definition promote (t : Q) (l : list cust) : list cust * list (Z * Q) :=
  match K with
  | Some k =>
    if (k <=? length l)%nat then
      (start_nth (k - 1) t l, match nth_error l (k - 1) with Some c => [(cid c, t)] | None => [] end)
    else (l, [])
  | None => (l, [])
  end.

(* Node.release + begin_service_if_possible_release at time t (the customer's end date) *)
Definition depart (s : st) (c : cust) : st :=
  let t := c_end c in
  let l1 := remove1 (cid c) (inds s) in
  let pr := promote t l1 in
  let lu := update_all t (locc s) (fst pr) in
  mkSt t (fst lu) (snd lu) (pend s) (mkD (cid c) (c_arr c) (c_req c) (c_start c) t :: deps s) (snd pr ++ starts s).

(* one B-event: the earlier of the next arrival and the next end of service
   (a tie is resolved at random by Ciw; the model lets the departure go first) *)
Definition step (s : st) : option st :=
  match next_end (now s) (inds s), pend s with
  | None, [] => None
  | None, a :: r => Some (accept s a r)
  | Some c, [] => Some (depart s c)
  | Some c, a :: r => if Qle_bool (c_end c) (a_t a) then Some (depart s c) else Some (accept s a r)
  end.

Fixpoint run (fuel : nat) (s : st) : st :=
  match fuel with
  | O => s
  | S f => match step s with None => s | Some s' => run f s' end
  end.
Definition init (arrs : list arrival) : st := mkSt 0 [] 0 arrs [] [].
Definition ps_run (arrs : list arrival) : st := run (2 * length arrs) (init arrs).

End PS.

(* ---------- the single-server FIFO model fed with the same arrivals ---------- *)
(* departure dates by the Lindley recursion d_j = max(t_j, d_{j-1}) + w_j ; start s_j = max(t_j, d_{j-1}) *)
Fixpoint fifo_from (d : Q) (l : list arrival) : list dep :=
  match l with
  | [] => []
  | a :: r => let s := Qred (Qmax (a_t a) d) in let e := Qred (s + a_w a) in
              mkD (a_id a) (a_t a) (a_w a) s e :: fifo_from e r
  end.
Definition fifo_run (l : list arrival) : list dep := fifo_from 0 l.

(* ====================================================================== *)
(*                               PROOFS                                    *)
(* ====================================================================== *)

Local Arguments Qred : simpl never.
Lemma Qred_eq q : Qred q == q.
Proof. apply Qred_correct. Qed.

Lemma qocc_S n : qocc (S n) == qocc n + 1.
Proof. unfold qocc. rewrite Nat2Z.inj_succ. unfold Z.succ. rewrite inject_Z_plus. reflexivity. Qed.
Lemma qocc_nonneg n : 0 <= qocc n.
Proof. unfold qocc. change 0 with (inject_Z 0). rewrite <- Zle_Qle. lia. Qed.
Lemma qocc_pos n : (0 < n)%nat -> 1 <= qocc n.
Proof. intros H. unfold qocc. change 1 with (inject_Z 1). rewrite <- Zle_Qle. lia. Qed.

Lemma Qle_bool_false x y : Qle_bool x y = false -> y < x.
Proof.
  intros H. apply Qnot_le_lt. intros H1. apply Qle_bool_iff in H1. congruence.
Qed.

(* ---------- lists ---------- *)
Definition count_ws (l : list cust) : nat := length (filter c_ws l).

Lemma remove1_notin id l : ~ In id (map cid l) -> remove1 id l = l.
Proof.
  induction l as [|x r IH]; cbn; intros H; [reflexivity|].
  destruct (cid x =? id)%Z eqn:E; [apply Z.eqb_eq in E; tauto|]. f_equal. apply IH. tauto.
Qed.
Lemma remove1_mid id a c b : cid c = id -> ~ In id (map cid a) -> remove1 id (a ++ c :: b) = a ++ b.
Proof.
  intros Hc. induction a as [|x r IH]; cbn; intros H.
  - rewrite Hc, Z.eqb_refl. reflexivity.
  - destruct (cid x =? id)%Z eqn:E; [apply Z.eqb_eq in E; tauto|]. f_equal. apply IH. tauto.
Qed.
Lemma start_nth_app a t x b : start_nth (length a) t (a ++ x :: b) = a ++ start_at t x :: b.
Proof. induction a as [|y r IH]; cbn; [reflexivity|]. f_equal. apply IH. Qed.
Lemma nth_error_mid {X} (a : list X) x b : nth_error (a ++ x :: b) (length a) = Some x.
Proof. induction a; cbn; auto. Qed.

Lemma count_ws_app a b : count_ws (a ++ b) = (count_ws a + count_ws b)%nat.
Proof. unfold count_ws. rewrite filter_app, app_length. reflexivity. Qed.
Lemma count_ws_all l : Forall (fun c => c_ws c = true) l -> count_ws l = length l.
Proof. unfold count_ws. induction 1 as [|x r Hx _ IH]; cbn; [reflexivity|]. rewrite Hx. cbn. f_equal. exact IH. Qed.
Lemma count_ws_none l : Forall (fun c => c_ws c = false) l -> count_ws l = O.
Proof. unfold count_ws. induction 1 as [|x r Hx _ IH]; cbn; [reflexivity|]. rewrite Hx. exact IH. Qed.

Lemma id_unique (l : list cust) c1 c2 :
  NoDup (map cid l) -> In c1 l -> In c2 l -> cid c1 = cid c2 -> c1 = c2.
Proof.
  induction l as [|x r IH]; cbn; intros Hn H1 H2 He; [contradiction|].
  inversion Hn as [|? ? Hx Hr]; subst.
  destruct H1 as [->|H1], H2 as [->|H2]; auto.
  - exfalso. apply Hx. rewrite He. apply in_map. assumption.
  - exfalso. apply Hx. rewrite <- He. apply in_map. assumption.
Qed.

(* ---------- next_end ---------- *)
Lemma next_end_some t l c : next_end t l = Some c ->
  In c l /\ c_ws c = true /\ t <= c_end c /\
  forall c', In c' l -> c_ws c' = true -> t <= c_end c' -> c_end c <= c_end c'.
Proof.
  revert c. induction l as [|x r IH]; cbn; intros c H; [discriminate|].
  destruct (c_ws x && Qle_bool t (c_end x)) eqn:E.
  - apply andb_true_iff in E as [E1 E2]. apply Qle_bool_iff in E2.
    destruct (next_end t r) as [b|] eqn:Eb.
    + destruct (IH b eq_refl) as (Hi & Hw & Ht & Hm).
      destruct (Qle_bool (c_end x) (c_end b)) eqn:E3.
      * injection H as <-. apply Qle_bool_iff in E3. repeat split; auto.
        intros c' [<-|Hc'] Hw' Ht'; [apply Qle_refl|]. eapply Qle_trans; [exact E3|]. apply Hm; assumption.
      * injection H as <-. apply Qle_bool_false in E3. repeat split; auto.
        intros c' [<-|Hc'] Hw' Ht'; [apply Qlt_le_weak; assumption|]. apply Hm; assumption.
    + injection H as <-. repeat split; auto.
      intros c' [<-|Hc'] Hw' Ht'; [apply Qle_refl|].
      exfalso. clear -Eb Hc' Hw' Ht'. induction r as [|y r IH]; [contradiction|]. cbn in Eb.
      destruct Hc' as [->|Hc'].
      * apply Qle_bool_iff in Ht'. rewrite Hw', Ht' in Eb. cbn in Eb. destruct (next_end t r) as [b|]; [destruct (Qle_bool (c_end c') (c_end b))|]; discriminate Eb.
      * destruct (c_ws y && Qle_bool t (c_end y)); [destruct (next_end t r) as [b|]; [destruct (Qle_bool (c_end y) (c_end b))|]; discriminate Eb|]. auto.
  - destruct (IH c H) as (Hi & Hw & Ht & Hm). repeat split; auto.
    intros c' [<-|Hc'] Hw' Ht'; [|apply Hm; assumption].
    apply Qle_bool_iff in Ht'. rewrite Hw', Ht' in E. discriminate.
Qed.
Lemma next_end_none t l : next_end t l = None -> forall c, In c l -> c_ws c = true -> ~ t <= c_end c.
Proof.
  induction l as [|x r IH]; cbn; intros H c Hc Hw Ht; [contradiction|].
  destruct (c_ws x && Qle_bool t (c_end x)) eqn:E.
  - destruct (next_end t r) as [b|]; [destruct (Qle_bool (c_end x) (c_end b))|]; discriminate H.
  - destruct Hc as [->|Hc]; [|eapply IH; eauto].
    apply Qle_bool_iff in Ht. rewrite Hw, Ht in E. discriminate.
Qed.

Section Proofs.
Variable R : Q.
Variable K : option nat.
Hypothesis R_pos : 0 < R.
Hypothesis K_pos : match K with Some k => (1 <= k)%nat | None => True end.

(* M n = max(occupancy, threshold);  rate n = R / M n = min(1, R/n) *)
Definition M (n : nat) : Q := Qmax (qocc n) R.
Definition rate (n : nat) : Q := R / M n.

Lemma M_pos n : 0 < M n.
Proof. unfold M. apply Q.max_lt_iff. right. exact R_pos. Qed.
Lemma rate_pos n : 0 < rate n.
Proof. unfold rate. apply Qlt_shift_div_l; [apply M_pos|]. lra. Qed.

Theorem rate_min n : (0 < n)%nat -> rate n == Qmin 1 (R / qocc n).
Proof.
  intros Hn. pose proof (qocc_pos n Hn) as Ho. unfold rate, M.
  destruct (Qlt_le_dec (qocc n) R) as [H|H].
  - rewrite (Q.max_r (qocc n) R) by lra. rewrite Q.min_l.
    + field. lra.
    + apply Qle_shift_div_l; lra.
  - rewrite (Q.max_l (qocc n) R) by lra. rewrite Q.min_r; [reflexivity|].
    apply Qle_shift_div_r; lra.
Qed.

(* remaining work of a served customer at time t, when lo customers have shared since its last update *)
Definition wl_at (t : Q) (lo : nat) (c : cust) : Q := c_tl c - rate lo * (t - c_dlu c).
Definition work_left (s : st) (c : cust) : Q := wl_at (now s) (locc s) c.

Lemma share_rate t lo c : (0 < lo)%nat -> c_tl c - share R t lo c == wl_at t lo c.
Proof.
  intros H. unfold share, wl_at, rate. fold (M lo).
  destruct (0 <? lo)%nat eqn:E; [|apply Nat.ltb_ge in E; lia].
  pose proof (M_pos lo). field. lra.
Qed.
Lemma share_fresh t lo c : c_dlu c = t -> share R t lo c == 0.
Proof.
  intros H. unfold share. rewrite H. fold (M lo). destruct (0 <? lo)%nat; [|reflexivity].
  pose proof (M_pos lo). field. lra.
Qed.

(* what one round of update_all_service_end_dates does to one customer *)
Lemma upd_ws t lo no c : c_ws c = true ->
  let c' := upd_cust R t lo no c in
  cid c' = cid c /\ c_arr c' = c_arr c /\ c_req c' = c_req c /\ c_ws c' = true /\ c_start c' = c_start c /\
  c_dlu c' = t /\ c_tl c' == c_tl c - share R t lo c /\ c_end c' == t + c_tl c' * M no / R.
Proof.
  intros H. unfold upd_cust. rewrite H. cbn [cid c_arr c_req c_ws c_start c_tl c_end c_dlu]. repeat split; try reflexivity.
  - apply Qred_eq.
  - rewrite Qred_eq. reflexivity.
Qed.
Lemma upd_nws t lo no c : c_ws c = false -> upd_cust R t lo no c = c.
Proof. intros H. unfold upd_cust. rewrite H. reflexivity. Qed.
Lemma upd_id t lo no c : cid (upd_cust R t lo no c) = cid c.
Proof. unfold upd_cust. destruct (c_ws c); reflexivity. Qed.
Lemma upd_wsflag t lo no c : c_ws (upd_cust R t lo no c) = c_ws c.
Proof. unfold upd_cust. destruct (c_ws c) eqn:E; [reflexivity|exact E]. Qed.
Lemma upd_req t lo no c : c_req (upd_cust R t lo no c) = c_req c.
Proof. unfold upd_cust. destruct (c_ws c); reflexivity. Qed.
Lemma upd_arr t lo no c : c_arr (upd_cust R t lo no c) = c_arr c.
Proof. unfold upd_cust. destruct (c_ws c); reflexivity. Qed.
Lemma map_upd_ids t lo no l : map cid (map (upd_cust R t lo no) l) = map cid l.
Proof. rewrite map_map. apply map_ext. intros. apply upd_id. Qed.
Lemma map_upd_nws t lo no l : Forall (fun c => c_ws c = false) l -> map (upd_cust R t lo no) l = l.
Proof. induction 1 as [|x r Hx _ IH]; cbn; [reflexivity|]. rewrite upd_nws by assumption. f_equal. exact IH. Qed.

(* the per-customer part of the invariant: a served customer's projected end date is the
   instant at which its remaining work reaches 0 at the current rate, and it is not in the past *)
Definition served_ok (t : Q) (lo : nat) (c : cust) : Prop :=
  c_ws c = true -> c_dlu c <= t /\ c_end c == c_dlu c + c_tl c * M lo / R /\ t <= c_end c.

Lemma wl_end t0 lo c t : c_ws c = true -> served_ok t0 lo c -> wl_at t lo c == (c_end c - t) * rate lo.
Proof.
  intros Hw H. destruct (H Hw) as (_ & He & _). unfold wl_at, rate. rewrite He.
  pose proof (M_pos lo). field. lra.
Qed.
Lemma wl_nonneg t0 lo c t : c_ws c = true -> served_ok t0 lo c -> t <= c_end c -> 0 <= wl_at t lo c.
Proof.
  intros Hw H Ht. rewrite (wl_end t0 lo c t Hw H).
  apply Qmult_le_0_compat; [lra|]. apply Qlt_le_weak, rate_pos.
Qed.
Lemma wl_zero_iff t0 lo c t : c_ws c = true -> served_ok t0 lo c -> (wl_at t lo c == 0 <-> c_end c == t).
Proof.
  intros Hw H. rewrite (wl_end t0 lo c t Hw H). pose proof (rate_pos lo) as Hr. split; intros E.
  - destruct (Qmult_integral _ _ E) as [E1|E1]; lra.
  - rewrite E. ring.
Qed.

Lemma upd_served_ok t lo no c :
  (c_ws c = true -> 0 <= c_tl c - share R t lo c) -> served_ok t no (upd_cust R t lo no c).
Proof.
  intros H Hw'. rewrite upd_wsflag in Hw'. specialize (H Hw').
  destruct (upd_ws t lo no c Hw') as (_ & _ & _ & _ & _ & Hd & Htl & He).
  rewrite Hd. split; [apply Qle_refl|]. split; [exact He|].
  rewrite He. rewrite <- Htl in H.
  assert (0 <= c_tl (upd_cust R t lo no c) * M no / R).
  { unfold Qdiv. apply Qmult_le_0_compat; [apply Qmult_le_0_compat; [exact H|apply Qlt_le_weak, M_pos]|].
    apply Qinv_le_0_compat. lra. }
  lra.
Qed.
(* ---------- the invariant ---------- *)
Fixpoint sorted_from (t : Q) (l : list arrival) : Prop :=
  match l with [] => True | a :: r => t <= a_t a /\ 0 <= a_w a /\ sorted_from (a_t a) r end.
Definition all_ws (l : list cust) := Forall (fun c => c_ws c = true) l.
Definition none_ws (l : list cust) := Forall (fun c => c_ws c = false) l.

(* sv = customers in service (head of the line), wt = customers waiting for capacity *)
Record Inv (arrs : list arrival) (s : st) (sv wt : list cust) : Prop := mkInv {
  i_split : inds s = sv ++ wt;
  i_sv : all_ws sv;
  i_wt : none_ws wt;
  i_len : length sv = cap_min (length (sv ++ wt)) K;
  i_locc : locc s = length sv;
  i_now : 0 <= now s;
  i_num : Forall (served_ok (now s) (locc s)) sv;
  i_req : Forall (fun c => 0 <= c_req c) (sv ++ wt);
  i_pend : sorted_from (now s) (pend s);
  i_ids : NoDup (map cid (sv ++ wt) ++ map a_id (pend s));
  i_order : map fst (rev (starts s)) ++ map cid wt ++ map a_id (pend s) = map a_id arrs;
  i_src : Forall (fun c => In (cid c, c_arr c, c_req c) arrs) (sv ++ wt) /\
          Forall (fun d => In (d_id d, d_arr d, d_req d) arrs) (deps s) /\ incl (pend s) arrs
}.

Lemma sorted_from_weaken t t' l : t' <= t -> sorted_from t l -> sorted_from t' l.
Proof. destruct l as [|a r]; cbn; [tauto|]. intros H (H1 & H2 & H3). repeat split; auto. lra. Qed.

Lemma cap_min_le n : (cap_min n K <= n)%nat.
Proof. unfold cap_min. destruct K; lia. Qed.

Lemma within_true n : within K (S n) = true -> cap_min (S n) K = S n /\ cap_min n K = n.
Proof. unfold within, cap_min. destruct K as [k|]; [|auto]. intros H. apply Nat.leb_le in H. lia. Qed.
Lemma within_false n : within K (S n) = false -> exists k, K = Some k /\ cap_min (S n) K = k /\ cap_min n K = k.
Proof. unfold within, cap_min. destruct K as [k|]; [|discriminate]. intros H. apply Nat.leb_gt in H. exists k. repeat split; lia. Qed.

Lemma served_ok_time t t' lo c : served_ok t lo c -> t <= t' -> (c_ws c = true -> t' <= c_end c) -> served_ok t' lo c.
Proof. intros H Ht He Hw. destruct (H Hw) as (H1 & H2 & H3). repeat split; auto. lra. Qed.

Lemma accept_inv arrs s sv wt a r :
  Inv arrs s sv wt -> pend s = a :: r -> (forall c, In c sv -> a_t a <= c_end c) ->
  exists sv' wt', Inv arrs (accept R K s a r) sv' wt'.
Proof.
  intros I Hp Hle. destruct I. rewrite Hp in *. cbn [sorted_from] in i_pend0. destruct i_pend0 as (Ht & Hw & Hs).
  destruct i_src0 as (Hsrc1 & Hsrc2 & Hsrc3).
  assert (Hain : In a arrs) by (apply Hsrc3; left; reflexivity).
  assert (Hain' : In (a_id a, a_t a, a_w a) arrs) by (destruct a as [[? ?] ?]; exact Hain).
  unfold accept. rewrite i_split0.
  destruct (within K (S (length (sv ++ wt)))) eqn:Ew.
  - (* starts at once *)
    apply within_true in Ew as [E1 E2]. rewrite E2 in i_len0.
    assert (wt = []) as ->.
    { rewrite app_length in i_len0. destruct wt; [reflexivity|cbn in i_len0; lia]. }
    rewrite app_nil_r in *.
    set (c1 := mkC (a_id a) (a_t a) (a_w a) true (a_t a) (a_w a) 0 (a_t a)).
    unfold update_all. cbn [fst snd]. rewrite app_length. cbn [length]. rewrite Nat.add_1_r, E1.
    exists (map (upd_cust R (a_t a) (locc s) (S (length sv))) (sv ++ [c1])), [].
    constructor; cbn [now inds locc pend deps starts].
    + rewrite app_nil_r. reflexivity.
    + unfold all_ws. rewrite Forall_forall. intros x Hx. apply in_map_iff in Hx as (y & <- & Hy).
      rewrite upd_wsflag. apply in_app_or in Hy as [Hy|[<-|[]]]; [|reflexivity].
      unfold all_ws in i_sv0. rewrite Forall_forall in i_sv0. auto.
    + constructor.
    + rewrite app_nil_r, map_length, app_length. cbn [length]. rewrite Nat.add_1_r. symmetry. exact E1.
    + rewrite map_length, app_length. cbn [length]. lia.
    + lra.
    + rewrite Forall_forall. intros x Hx. apply in_map_iff in Hx as (y & <- & Hy).
      apply upd_served_ok. intros Hyw. apply in_app_or in Hy as [Hy|[<-|[]]].
      * assert (0 < locc s)%nat by (rewrite i_locc0; destruct sv; [contradiction|cbn; lia]).
        rewrite share_rate by assumption. rewrite Forall_forall in i_num0.
        apply (wl_nonneg (now s)); auto.
      * rewrite share_fresh by reflexivity. cbn. lra.
    + rewrite app_nil_r. rewrite Forall_forall. intros x Hx. apply in_map_iff in Hx as (y & <- & Hy).
      rewrite upd_req. apply in_app_or in Hy as [Hy|[<-|[]]]; [|exact Hw].
      rewrite Forall_forall in i_req0. auto.
    + exact Hs.
    + rewrite app_nil_r, map_upd_ids, map_app. cbn [map]. rewrite <- app_assoc. exact i_ids0.
    + cbn [rev]. rewrite map_app. cbn [map fst]. rewrite <- app_assoc. cbn [app] in *. exact i_order0.
    + repeat split.
      * rewrite app_nil_r. rewrite Forall_forall. intros x Hx. apply in_map_iff in Hx as (y & <- & Hy).
        rewrite upd_id, upd_arr, upd_req. apply in_app_or in Hy as [Hy|[<-|[]]]; [|exact Hain'].
        rewrite Forall_forall in Hsrc1. auto.
      * exact Hsrc2.
      * intros x Hx. apply Hsrc3. right. exact Hx.
  - (* has to wait *)
    apply within_false in Ew as (k & EK & E1 & E2).
    set (cw := mkC (a_id a) (a_t a) (a_w a) false 0 0 0 0).
    exists sv, (wt ++ [cw]).
    constructor; cbn [now inds locc pend deps starts].
    + rewrite app_assoc. reflexivity.
    + exact i_sv0.
    + apply Forall_app. split; [exact i_wt0|]. constructor; [reflexivity|constructor].
    + rewrite app_assoc, app_length. cbn [length]. rewrite Nat.add_1_r, E1. rewrite i_len0. exact E2.
    + exact i_locc0.
    + lra.
    + rewrite Forall_forall in *. intros x Hx. apply served_ok_time with (t := now s); auto.
    + rewrite app_assoc. apply Forall_app. split; [exact i_req0|]. constructor; [exact Hw|constructor].
    + exact Hs.
    + rewrite app_assoc, map_app. cbn [map]. rewrite <- app_assoc. exact i_ids0.
    + rewrite map_app. cbn [map]. rewrite <- !app_assoc. exact i_order0.
    + repeat split.
      * rewrite app_assoc. apply Forall_app. split; [exact Hsrc1|]. constructor; [exact Hain'|constructor].
      * exact Hsrc2.
      * intros x Hx. apply Hsrc3. right. exact Hx.
Qed.

(* what a departure does to the line *)
Lemma depart_char arrs s sv wt c :
  Inv arrs s sv wt -> In c sv ->
  let t := c_end c in
  exists sv1 sv2, sv = sv1 ++ c :: sv2 /\
    ((exists w1 wt', wt = w1 :: wt' /\
        inds (depart R K s c) = map (upd_cust R t (locc s) (length sv)) (sv1 ++ sv2 ++ [start_at t w1]) ++ wt' /\
        locc (depart R K s c) = length sv /\ starts (depart R K s c) = (cid w1, t) :: starts s) \/
     (wt = [] /\
        inds (depart R K s c) = map (upd_cust R t (locc s) (length sv - 1)) (sv1 ++ sv2) /\
        locc (depart R K s c) = (length sv - 1)%nat /\ starts (depart R K s c) = starts s)).
Proof.
  intros I Hc t. destruct I.
  destruct (in_split _ _ Hc) as (sv1 & sv2 & ->). exists sv1, sv2. split; [reflexivity|].
  assert (Hrm : remove1 (cid c) (inds s) = sv1 ++ sv2 ++ wt).
  { rewrite i_split0, <- app_assoc. cbn [app]. rewrite remove1_mid; [reflexivity|reflexivity|].
    rewrite <- app_assoc in i_ids0. cbn [app] in i_ids0. rewrite !map_app in i_ids0. cbn [map] in i_ids0.
    rewrite <- !app_assoc in i_ids0. cbn [app] in i_ids0.
    apply NoDup_remove_2 in i_ids0. intros H. apply i_ids0. apply in_or_app. left. exact H. }
  unfold depart. rewrite Hrm. fold t. unfold promote, update_all. cbn [inds locc starts fst snd].
  rewrite !app_length in i_len0. cbn [length] in i_len0.
  destruct K as [k|] eqn:EK; cbn [cap_min] in *.
  - destruct (k <=? length (sv1 ++ sv2 ++ wt))%nat eqn:E.
    + apply Nat.leb_le in E. rewrite !app_length in E.
      assert (Hk : length (sv1 ++ sv2) = (k - 1)%nat) by (rewrite app_length; lia).
      destruct wt as [|w1 wt']; [cbn in E; lia|].
      left. exists w1, wt'. split; [reflexivity|].
      assert (Hst : start_nth (k - 1) t (sv1 ++ sv2 ++ w1 :: wt') = (sv1 ++ sv2 ++ [start_at t w1]) ++ wt').
      { rewrite (app_assoc sv1 sv2), <- Hk, start_nth_app. rewrite <- !app_assoc. reflexivity. }
      assert (Hnth : nth_error (sv1 ++ sv2 ++ w1 :: wt') (k - 1) = Some w1).
      { rewrite (app_assoc sv1 sv2), <- Hk. apply nth_error_mid. }
      rewrite Hst, Hnth. cbn [fst snd].
      assert (Hno : Nat.min (length ((sv1 ++ sv2 ++ [start_at t w1]) ++ wt')) k = length (sv1 ++ c :: sv2)).
      { rewrite !app_length. cbn [length]. rewrite !app_length in Hk. cbn [length] in E. lia. }
      rewrite Hno. split; [|split; reflexivity].
      rewrite map_app. f_equal. apply map_upd_nws. inversion i_wt0; assumption.
    + apply Nat.leb_gt in E. rewrite !app_length in E.
      assert (wt = []) as -> by (destruct wt; [reflexivity|cbn [length] in *; lia]).
      right. split; [reflexivity|]. cbn [fst snd app]. rewrite !app_nil_r. rewrite !app_length. cbn [length].
      replace (Nat.min (length sv1 + length sv2) k) with (length sv1 + S (length sv2) - 1)%nat by (cbn [length] in *; lia).
      repeat split; reflexivity.
  - assert (wt = []) as -> by (destruct wt; [reflexivity|cbn [length] in *; lia]).
    right. split; [reflexivity|]. cbn [fst snd app]. rewrite !app_nil_r. rewrite !app_length. cbn [length].
    replace (length sv1 + length sv2)%nat with (length sv1 + S (length sv2) - 1)%nat by lia.
    repeat split; reflexivity.
Qed.

Lemma next_end_in_sv arrs s sv wt c : Inv arrs s sv wt -> next_end (now s) (inds s) = Some c ->
  In c sv /\ now s <= c_end c /\ forall x, In x sv -> c_end c <= c_end x.
Proof.
  intros I H. destruct (next_end_some _ _ _ H) as (Hi & Hw & Ht & Hm). destruct I.
  rewrite i_split0 in Hi, Hm. split; [|split; [exact Ht|]].
  - apply in_app_or in Hi as [Hi|Hi]; [exact Hi|].
    unfold none_ws in i_wt0. rewrite Forall_forall in i_wt0. rewrite (i_wt0 c Hi) in Hw. discriminate.
  - intros x Hx. unfold all_ws in i_sv0. rewrite Forall_forall in i_sv0, i_num0.
    apply Hm; [apply in_or_app; left; exact Hx|auto|]. destruct (i_num0 x Hx (i_sv0 x Hx)) as (_ & _ & H3). exact H3.
Qed.

Lemma depart_inv arrs s sv wt c :
  Inv arrs s sv wt -> next_end (now s) (inds s) = Some c -> sorted_from (c_end c) (pend s) ->
  exists sv' wt', Inv arrs (depart R K s c) sv' wt'.
Proof.
  intros I Hn Hp. destruct (next_end_in_sv _ _ _ _ _ I Hn) as (Hc & Hnow & Hmin).
  destruct (depart_char _ _ _ _ _ I Hc) as (sv1 & sv2 & Hsv & Hcase). destruct I.
  set (t := c_end c) in *.
  destruct i_src0 as (Hsrc1 & Hsrc2 & Hsrc3).
  assert (Hlo : (0 < locc s)%nat) by (rewrite i_locc0, Hsv, app_length; cbn; lia).
  assert (Hsub : forall x, In x (sv1 ++ sv2) -> In x sv).
  { intros x Hx. rewrite Hsv. apply in_app_or in Hx as [Hx|Hx]; apply in_or_app; [left|right; right]; exact Hx. }
  assert (Hold : forall no x, In x (sv1 ++ sv2) -> served_ok t no (upd_cust R t (locc s) no x)).
  { intros no x Hx. apply upd_served_ok. intros Hxw. rewrite share_rate by exact Hlo.
    rewrite Forall_forall in i_num0. apply (wl_nonneg (now s)); auto. }
  assert (Hdep : In (cid c, c_arr c, c_req c) arrs).
  { rewrite Forall_forall in Hsrc1. apply Hsrc1. apply in_or_app. left. exact Hc. }
  assert (Hids : NoDup (map cid (sv1 ++ sv2 ++ wt) ++ map a_id (pend s))).
  { rewrite Hsv in i_ids0. rewrite <- app_assoc in i_ids0. cbn [app] in i_ids0. rewrite !map_app in i_ids0.
    cbn [map] in i_ids0. rewrite <- !app_assoc in i_ids0. cbn [app] in i_ids0.
    apply NoDup_remove_1 in i_ids0. rewrite ?map_app, <- ?app_assoc in i_ids0. rewrite !map_app, <- !app_assoc. exact i_ids0. }
  destruct Hcase as [(w1 & wt' & Hwt & Hinds & Hlocc & Hst)|(Hwt & Hinds & Hlocc & Hst)].
  - exists (map (upd_cust R t (locc s) (length sv)) (sv1 ++ sv2 ++ [start_at t w1])), wt'.
    assert (Hlen : length (sv1 ++ sv2 ++ [start_at t w1]) = length sv).
    { rewrite Hsv, !app_length. cbn [length]. rewrite ?app_length. cbn [length]. lia. }
    constructor; rewrite ?Hinds, ?Hlocc, ?Hst; unfold depart; cbn [now pend deps]; fold t.
    + reflexivity.
    + unfold all_ws. rewrite Forall_forall. intros x Hx. apply in_map_iff in Hx as (y & <- & Hy).
      rewrite upd_wsflag. rewrite app_assoc in Hy. apply in_app_or in Hy as [Hy|[<-|[]]]; [|reflexivity].
      unfold all_ws in i_sv0. rewrite Forall_forall in i_sv0. auto.
    + subst wt. inversion i_wt0; assumption.
    + rewrite app_length, !map_length, Hlen. subst wt. rewrite app_length in i_len0. cbn [length] in i_len0.
      unfold cap_min in *. destruct K as [k|]; lia.
    + rewrite map_length, Hlen. reflexivity.
    + lra.
    + rewrite Forall_forall. intros x Hx. apply in_map_iff in Hx as (y & <- & Hy).
      rewrite app_assoc in Hy. apply in_app_or in Hy as [Hy|[<-|[]]]; [apply Hold; exact Hy|].
      apply upd_served_ok. intros _. rewrite share_fresh by reflexivity. cbn [c_tl start_at].
      rewrite Forall_forall in i_req0. assert (0 <= c_req w1) by (apply i_req0; subst wt; apply in_or_app; right; left; reflexivity). lra.
    + rewrite Forall_forall. intros x Hx. rewrite Forall_forall in i_req0. apply in_app_or in Hx as [Hx|Hx].
      * apply in_map_iff in Hx as (y & <- & Hy). rewrite upd_req.
        rewrite app_assoc in Hy. apply in_app_or in Hy as [Hy|[<-|[]]].
        -- apply i_req0. apply in_or_app. left. apply Hsub. exact Hy.
        -- cbn [c_req start_at]. apply i_req0. subst wt. apply in_or_app. right. left. reflexivity.
      * apply i_req0. subst wt. apply in_or_app. right. right. exact Hx.
    + exact Hp.
    + rewrite map_app, map_upd_ids. subst wt. rewrite !map_app in *. cbn [map start_at cid] in *.
      rewrite <- !app_assoc in *. cbn [app] in *. exact Hids.
    + cbn [rev]. rewrite map_app. cbn [map fst]. rewrite <- app_assoc. subst wt. cbn [map app] in *. exact i_order0.
    + repeat split.
      * rewrite Forall_forall in *. intros x Hx. apply in_app_or in Hx as [Hx|Hx].
        -- apply in_map_iff in Hx as (y & <- & Hy). rewrite upd_id, upd_arr, upd_req.
           rewrite app_assoc in Hy. apply in_app_or in Hy as [Hy|[<-|[]]].
           ++ apply Hsrc1. apply in_or_app. left. apply Hsub. exact Hy.
           ++ cbn [cid c_arr c_req start_at]. apply Hsrc1. subst wt. apply in_or_app. right. left. reflexivity.
        -- apply Hsrc1. subst wt. apply in_or_app. right. right. exact Hx.
      * constructor; [exact Hdep|exact Hsrc2].
      * exact Hsrc3.
  - exists (map (upd_cust R t (locc s) (length sv - 1)) (sv1 ++ sv2)), [].
    assert (Hlen : length (sv1 ++ sv2) = (length sv - 1)%nat).
    { rewrite Hsv, !app_length. cbn [length]. lia. }
    subst wt. rewrite app_nil_r in *.
    constructor; rewrite ?Hinds, ?Hlocc, ?Hst; unfold depart; cbn [now pend deps]; fold t.
    + rewrite app_nil_r. reflexivity.
    + unfold all_ws. rewrite Forall_forall. intros x Hx. apply in_map_iff in Hx as (y & <- & Hy).
      rewrite upd_wsflag. unfold all_ws in i_sv0. rewrite Forall_forall in i_sv0. auto.
    + constructor.
    + rewrite app_nil_r, map_length, Hlen. unfold cap_min in *. destruct K; lia.
    + rewrite map_length, Hlen. reflexivity.
    + lra.
    + rewrite Forall_forall. intros x Hx. apply in_map_iff in Hx as (y & <- & Hy). apply Hold. exact Hy.
    + rewrite app_nil_r. rewrite Forall_forall. intros x Hx. apply in_map_iff in Hx as (y & <- & Hy). rewrite upd_req.
      rewrite Forall_forall in i_req0. auto.
    + exact Hp.
    + rewrite app_nil_r, map_upd_ids. rewrite ?app_nil_r in Hids. exact Hids.
    + exact i_order0.
    + repeat split.
      * rewrite app_nil_r. rewrite Forall_forall in *. intros x Hx. apply in_map_iff in Hx as (y & <- & Hy).
        rewrite upd_id, upd_arr, upd_req. auto.
      * constructor; [exact Hdep|exact Hsrc2].
      * exact Hsrc3.
Qed.

Definition c_new (a : arrival) : cust := mkC (a_id a) (a_t a) (a_w a) true (a_t a) (a_w a) 0 (a_t a).
Definition c_wait (a : arrival) : cust := mkC (a_id a) (a_t a) (a_w a) false 0 0 0 0.

Lemma accept_fields s a r : now (accept R K s a r) = a_t a /\ pend (accept R K s a r) = r /\ deps (accept R K s a r) = deps s.
Proof. unfold accept. destruct (within K (S (length (inds s)))); cbn; auto. Qed.
Lemma depart_fields s c : now (depart R K s c) = c_end c /\ pend (depart R K s c) = pend s /\
  deps (depart R K s c) = mkD (cid c) (c_arr c) (c_req c) (c_start c) (c_end c) :: deps s.
Proof. unfold depart. cbn. auto. Qed.

(* what an arrival does to the line *)
Lemma accept_char arrs s sv wt a r :
  Inv arrs s sv wt ->
  (wt = [] /\ inds (accept R K s a r) = map (upd_cust R (a_t a) (locc s) (S (length sv))) (sv ++ [c_new a]) /\
     locc (accept R K s a r) = S (length sv) /\ starts (accept R K s a r) = (a_id a, a_t a) :: starts s) \/
  (inds (accept R K s a r) = sv ++ wt ++ [c_wait a] /\ locc (accept R K s a r) = locc s /\
     starts (accept R K s a r) = starts s /\ exists k, K = Some k /\ length sv = k).
Proof.
  intros I. destruct I. unfold accept. rewrite i_split0.
  destruct (within K (S (length (sv ++ wt)))) eqn:Ew.
  - left. apply within_true in Ew as [E1 E2]. rewrite E2 in i_len0.
    assert (wt = []) as ->.
    { rewrite app_length in i_len0. destruct wt; [reflexivity|cbn in i_len0; lia]. }
    rewrite app_nil_r in *. unfold update_all. cbn [fst snd inds locc starts]. rewrite app_length. cbn [length].
    rewrite Nat.add_1_r, E1. repeat split; reflexivity.
  - right. apply within_false in Ew as (k & EK & E1 & E2). cbn [inds locc starts]. rewrite <- app_assoc.
    repeat split; try reflexivity. exists k. split; [exact EK|]. rewrite i_len0. exact E2.
Qed.

Lemma init_inv arrs : sorted_from 0 arrs -> NoDup (map a_id arrs) -> Inv arrs (init arrs) [] [].
Proof.
  intros Hs Hn. constructor; cbn; auto; try (constructor; fail); try apply Qle_refl.
  - destruct K; reflexivity.
  - repeat split; try constructor. apply incl_refl.
Qed.

Lemma step_inv arrs s sv wt s' :
  Inv arrs s sv wt -> step R K s = Some s' -> exists sv' wt', Inv arrs s' sv' wt'.
Proof.
  intros I H. unfold step in H.
  destruct (next_end (now s) (inds s)) as [c|] eqn:En; destruct (pend s) as [|a r] eqn:Ep.
  - injection H as <-. eapply depart_inv; eauto. rewrite Ep. exact Logic.I.
  - destruct (next_end_in_sv _ _ _ _ _ I En) as (Hc & Hnow & Hmin).
    destruct (Qle_bool (c_end c) (a_t a)) eqn:E; injection H as <-.
    + eapply depart_inv; eauto. rewrite Ep. apply Qle_bool_iff in E.
      pose proof (i_pend _ _ _ _ I) as Hp. rewrite Ep in Hp. cbn in Hp. cbn. tauto.
    + eapply accept_inv; eauto. intros x Hx. apply Qle_bool_false in E. specialize (Hmin x Hx). lra.
  - discriminate.
  - injection H as <-. eapply accept_inv; eauto. intros x Hx. exfalso.
    pose proof (next_end_none _ _ En x) as Hnone. destruct I.
    unfold all_ws in i_sv0. rewrite Forall_forall in i_sv0, i_num0.
    destruct (i_num0 x Hx (i_sv0 x Hx)) as (_ & _ & H3).
    apply Hnone; auto. rewrite i_split0. apply in_or_app. left. exact Hx.
Qed.

(* ---------- reachable states, with the work each customer has received so far ---------- *)
Definition served_in (id : Z) (s : st) : bool := existsb (fun c => (cid c =? id)%Z && c_ws c) (inds s).
Definition occupancy (s : st) : nat := count_ws (inds s).

Inductive reach (arrs : list arrival) : st -> (Z -> Q) -> Prop :=
| reach_init : reach arrs (init arrs) (fun _ => 0)
| reach_step s g s' : reach arrs s g -> step R K s = Some s' ->
    reach arrs s' (fun id => g id + (if served_in id s then rate (occupancy s) * (now s' - now s) else 0)).

Definition wf_arrs (arrs : list arrival) : Prop := sorted_from 0 arrs /\ NoDup (map a_id arrs).

Lemma reach_inv arrs s g : wf_arrs arrs -> reach arrs s g -> exists sv wt, Inv arrs s sv wt.
Proof.
  intros [H1 H2]. induction 1 as [|s g s' _ (sv & wt & I) Hs].
  - exists [], []. apply init_inv; assumption.
  - eapply step_inv; eauto.
Qed.

Lemma inv_occ arrs s sv wt : Inv arrs s sv wt -> occupancy s = locc s /\ locc s = length sv.
Proof.
  intros I. destruct I. unfold occupancy. rewrite i_split0, count_ws_app, count_ws_all, count_ws_none by assumption. lia.
Qed.

(* ---------- where every customer of the next state comes from ---------- *)
Inductive origin (s s' : st) (c' : cust) : Prop :=
| o_kept c : In c (inds s) -> c_ws c = true -> cid c' = cid c ->
    ((c' = c /\ locc s' = locc s) \/ c' = upd_cust R (now s') (locc s) (locc s') c) -> origin s s' c'
| o_fresh : c_ws c' = true -> c_dlu c' = now s' -> c_tl c' == c_req c' ->
    ((exists c, In c (inds s) /\ c_ws c = false /\ cid c = cid c') \/ (exists a, In a (pend s) /\ a_id a = cid c')) ->
    origin s s' c'
| o_wait : c_ws c' = false ->
    (In c' (inds s) \/ (exists a, In a (pend s) /\ a_id a = cid c')) -> origin s s' c'.

Lemma accept_origin arrs s sv wt a r :
  Inv arrs s sv wt -> pend s = a :: r -> forall c', In c' (inds (accept R K s a r)) -> origin s (accept R K s a r) c'.
Proof.
  intros I Hp c' Hc'. destruct (accept_fields s a r) as (Hnow & _ & _).
  destruct (accept_char _ _ _ _ a r I) as [(Hwt & Hi & Hl & _)|(Hi & Hl & _)]; destruct I; rewrite Hi in Hc'.
  - subst wt. rewrite app_nil_r in *. apply in_map_iff in Hc' as (y & <- & Hy).
    apply in_app_or in Hy as [Hy|[<-|[]]].
    + unfold all_ws in i_sv0. rewrite Forall_forall in i_sv0.
      apply o_kept with (c := y); [rewrite i_split0; exact Hy|auto|apply upd_id|].
      right. rewrite Hnow, Hl. reflexivity.
    + destruct (upd_ws (a_t a) (locc s) (S (length sv)) (c_new a) eq_refl) as (E1 & _ & E3 & E4 & _ & E6 & E7 & _).
      apply o_fresh; [exact E4|rewrite Hnow; exact E6| |].
      * rewrite E7, E3, share_fresh by reflexivity. cbn. ring.
      * right. exists a. rewrite Hp. split; [left; reflexivity|]. rewrite E1. reflexivity.
  - rewrite app_assoc in Hc'. apply in_app_or in Hc' as [Hc'|[<-|[]]].
    + rewrite <- i_split0 in Hc'. destruct (c_ws c') eqn:Ew.
      * apply o_kept with (c := c'); auto.
      * apply o_wait; auto.
    + apply o_wait; [reflexivity|]. right. exists a. rewrite Hp. split; [left; reflexivity|reflexivity].
Qed.

Lemma depart_origin arrs s sv wt c :
  Inv arrs s sv wt -> In c sv -> forall c', In c' (inds (depart R K s c)) -> origin s (depart R K s c) c'.
Proof.
  intros I Hc c' Hc'. destruct (depart_fields s c) as (Hnow & _ & _).
  destruct (depart_char _ _ _ _ _ I Hc) as (sv1 & sv2 & Hsv & Hcase). destruct I.
  assert (Hsub : forall x, In x (sv1 ++ sv2) -> In x (inds s) /\ c_ws x = true).
  { intros x Hx. unfold all_ws in i_sv0. rewrite Forall_forall in i_sv0.
    assert (In x sv) by (rewrite Hsv; apply in_app_or in Hx as [Hx|Hx]; apply in_or_app; [left|right; right]; exact Hx).
    split; [rewrite i_split0; apply in_or_app; left; assumption|auto]. }
  destruct Hcase as [(w1 & wt' & Hwt & Hi & Hl & _)|(Hwt & Hi & Hl & _)]; rewrite Hi in Hc'.
  - unfold none_ws in i_wt0. rewrite Forall_forall in i_wt0.
    apply in_app_or in Hc' as [Hc'|Hc'].
    + apply in_map_iff in Hc' as (y & <- & Hy). rewrite app_assoc in Hy. apply in_app_or in Hy as [Hy|[<-|[]]].
      * destruct (Hsub y Hy). apply o_kept with (c := y); auto; [apply upd_id|]. right. rewrite Hnow, Hl. reflexivity.
      * destruct (upd_ws (c_end c) (locc s) (length sv) (start_at (c_end c) w1) eq_refl) as (E1 & _ & E3 & E4 & _ & E6 & E7 & _).
        apply o_fresh; [exact E4|rewrite Hnow; exact E6| |].
        -- rewrite E7, E3, share_fresh by reflexivity. cbn. ring.
        -- left. exists w1. rewrite E1. cbn. split; [|split; [|reflexivity]].
           ++ rewrite i_split0, Hwt. apply in_or_app. right. left. reflexivity.
           ++ apply i_wt0. rewrite Hwt. left. reflexivity.
    + apply o_wait; [apply i_wt0; rewrite Hwt; right; exact Hc'|]. left. rewrite i_split0, Hwt.
      apply in_or_app. right. right. exact Hc'.
  - apply in_map_iff in Hc' as (y & <- & Hy). destruct (Hsub y Hy).
    apply o_kept with (c := y); auto; [apply upd_id|]. right. rewrite Hnow, Hl. reflexivity.
Qed.

Lemma step_cases arrs s sv wt s' :
  Inv arrs s sv wt -> step R K s = Some s' ->
  (exists a r, pend s = a :: r /\ s' = accept R K s a r /\ (forall x, In x sv -> a_t a <= c_end x)) \/
  (exists c, In c sv /\ s' = depart R K s c /\ now s <= c_end c /\ (forall x, In x sv -> c_end c <= c_end x)).
Proof.
  intros I H. unfold step in H.
  destruct (next_end (now s) (inds s)) as [c|] eqn:En; destruct (pend s) as [|a r] eqn:Ep.
  - injection H as <-. right. exists c. destruct (next_end_in_sv _ _ _ _ _ I En) as (Hc & Hnow & Hmin). auto.
  - destruct (next_end_in_sv _ _ _ _ _ I En) as (Hc & Hnow & Hmin).
    destruct (Qle_bool (c_end c) (a_t a)) eqn:E; injection H as <-.
    + right. exists c. auto.
    + left. exists a, r. repeat split; auto. intros x Hx. apply Qle_bool_false in E. specialize (Hmin x Hx). lra.
  - discriminate.
  - injection H as <-. left. exists a, r. repeat split; auto. intros x Hx. exfalso.
    pose proof (next_end_none _ _ En x) as Hnone. destruct I.
    unfold all_ws in i_sv0. rewrite Forall_forall in i_sv0, i_num0.
    destruct (i_num0 x Hx (i_sv0 x Hx)) as (_ & _ & H3).
    apply Hnone; auto. rewrite i_split0. apply in_or_app. left. exact Hx.
Qed.

Lemma step_origin arrs s sv wt s' :
  Inv arrs s sv wt -> step R K s = Some s' ->
  (forall c', In c' (inds s') -> origin s s' c') /\ now s <= now s' /\
  (forall c, In c sv -> now s' <= c_end c) /\ incl (pend s') (pend s).
Proof.
  intros I H. destruct (step_cases _ _ _ _ _ I H) as [(a & r & Hp & -> & Hle)|(c & Hc & -> & Hnow & Hmin)].
  - destruct (accept_fields s a r) as (E1 & E2 & _). rewrite E1, E2. repeat split.
    + eapply accept_origin; eauto.
    + pose proof (i_pend _ _ _ _ I) as Hs. rewrite Hp in Hs. cbn in Hs. tauto.
    + exact Hle.
    + rewrite Hp. intros x Hx. right. exact Hx.
  - destruct (depart_fields s c) as (E1 & E2 & _). rewrite E1, E2. repeat split.
    + eapply depart_origin; eauto.
    + exact Hnow.
    + exact Hmin.
    + apply incl_refl.
Qed.

Lemma nodup_app_disj {X} (l1 l2 : list X) x : NoDup (l1 ++ l2) -> In x l1 -> In x l2 -> False.
Proof.
  induction l1 as [|y r IH]; cbn; intros Hn H1 H2; [contradiction|].
  inversion Hn as [|? ? Hy Hr]; subst. destruct H1 as [->|H1]; [|eauto].
  apply Hy. apply in_or_app. right. exact H2.
Qed.
Lemma nodup_app_l {X} (l1 l2 : list X) : NoDup (l1 ++ l2) -> NoDup l1.
Proof.
  induction l1 as [|y r IH]; cbn; intros Hn; [constructor|].
  inversion Hn as [|? ? Hy Hr]; subst. constructor; [|auto]. intros H. apply Hy. apply in_or_app. left. exact H.
Qed.

(* the customer of the next state that carries the id of a customer served now *)
Lemma kept_unique arrs s sv wt s' c c' :
  Inv arrs s sv wt -> origin s s' c' -> In c (inds s) -> c_ws c = true -> cid c' = cid c ->
  (c' = c /\ locc s' = locc s) \/ c' = upd_cust R (now s') (locc s) (locc s') c.
Proof.
  intros I O Hc Hw Hid. pose proof (i_ids _ _ _ _ I) as Hn. rewrite <- (i_split _ _ _ _ I) in Hn.
  pose proof (nodup_app_l _ _ Hn) as Hn1.
  assert (Hpend : forall a, In a (pend s) -> a_id a = cid c' -> False).
  { intros a Ha E. eapply (nodup_app_disj _ _ (cid c) Hn); [apply in_map; exact Hc|].
    rewrite <- Hid, <- E. apply in_map. exact Ha. }
  destruct O as [c0 H0 Hw0 Hid0 Hk|_ _ _ [(c2 & H2 & Hw2 & Hid2)|(a & Ha & E)]|Hw' [H2|(a & Ha & E)]].
  - assert (c0 = c) as -> by (eapply id_unique; eauto; congruence). exact Hk.
  - assert (c2 = c) as -> by (eapply id_unique; eauto; congruence). congruence.
  - exfalso. eauto.
  - assert (c' = c) as -> by (eapply id_unique; eauto). congruence.
  - exfalso. eauto.
Qed.

Lemma kept_rate s s' c c' :
  c_ws c = true -> served_ok (now s) (locc s) c -> (0 < locc s)%nat ->
  ((c' = c /\ locc s' = locc s) \/ c' = upd_cust R (now s') (locc s) (locc s') c) ->
  c_ws c' = true /\ c_req c' = c_req c /\
  work_left s' c' == work_left s c - rate (locc s) * (now s' - now s).
Proof.
  intros Hw Hok Hlo [[-> Hl]| ->].
  - split; [exact Hw|]. split; [reflexivity|]. unfold work_left, wl_at. rewrite Hl. ring.
  - destruct (upd_ws (now s') (locc s) (locc s') c Hw) as (_ & _ & E3 & E4 & _ & E6 & E7 & _).
    split; [exact E4|]. split; [exact E3|]. unfold work_left. unfold wl_at at 1. rewrite E6, E7, share_rate by exact Hlo.
    unfold wl_at. ring.
Qed.

(* ps_rate: between two consecutive events the remaining work of every customer in service
   decreases by dt * R / max(occupancy, R)  [= dt * min(1, R/occupancy), rate_min] *)
Theorem ps_rate arrs s g s' c c' :
  wf_arrs arrs -> reach arrs s g -> step R K s = Some s' ->
  In c (inds s) -> c_ws c = true -> In c' (inds s') -> cid c' = cid c ->
  c_ws c' = true /\ work_left s' c' == work_left s c - rate (occupancy s) * (now s' - now s).
Proof.
  intros Hwf Hr Hs Hc Hw Hc' Hid. destruct (reach_inv _ _ _ Hwf Hr) as (sv & wt & I).
  destruct (step_origin _ _ _ _ _ I Hs) as (Ho & _).
  pose proof (kept_unique _ _ _ _ _ _ _ I (Ho c' Hc') Hc Hw Hid) as Hk.
  destruct (inv_occ _ _ _ _ I) as (Eo & El). rewrite Eo.
  assert (Hcsv : In c sv).
  { pose proof (i_split _ _ _ _ I) as E. rewrite E in Hc. apply in_app_or in Hc as [Hc|Hc]; [exact Hc|].
    pose proof (i_wt _ _ _ _ I) as Hwt. unfold none_ws in Hwt. rewrite Forall_forall in Hwt. rewrite (Hwt c Hc) in Hw. discriminate. }
  assert (Hok : served_ok (now s) (locc s) c).
  { pose proof (i_num _ _ _ _ I) as Hn. rewrite Forall_forall in Hn. auto. }
  assert (Hlo : (0 < locc s)%nat) by (rewrite El; destruct sv; [contradiction|cbn; lia]).
  destruct (kept_rate s s' c c' Hw Hok Hlo Hk) as (H1 & _ & H3). auto.
Qed.

(* ---------- work received ---------- *)
Lemma served_in_true id s c : In c (inds s) -> c_ws c = true -> cid c = id -> served_in id s = true.
Proof.
  intros Hc Hw E. unfold served_in. apply existsb_exists. exists c. split; [exact Hc|].
  rewrite E, Z.eqb_refl, Hw. reflexivity.
Qed.
Lemma served_in_false id s : (forall c, In c (inds s) -> cid c = id -> c_ws c = false) -> served_in id s = false.
Proof.
  intros H. unfold served_in. destruct (existsb _ (inds s)) eqn:E; [|reflexivity].
  apply existsb_exists in E as (c & Hc & E). apply andb_true_iff in E as [E1 E2]. apply Z.eqb_eq in E1.
  rewrite (H c Hc E1) in E2. discriminate.
Qed.

Record Ghost (s : st) (g : Z -> Q) : Prop := mkGhost {
  g_served : forall c, In c (inds s) -> c_ws c = true -> g (cid c) + work_left s c == c_req c;
  g_waiting : forall c, In c (inds s) -> c_ws c = false -> g (cid c) == 0;
  g_pend : forall a, In a (pend s) -> g (a_id a) == 0
}.

Lemma not_served_id arrs s sv wt id :
  Inv arrs s sv wt ->
  ((exists c, In c (inds s) /\ c_ws c = false /\ cid c = id) \/ (exists a, In a (pend s) /\ a_id a = id)) ->
  served_in id s = false.
Proof.
  intros I H. pose proof (i_ids _ _ _ _ I) as Hn. rewrite <- (i_split _ _ _ _ I) in Hn.
  pose proof (nodup_app_l _ _ Hn) as Hn1.
  apply served_in_false. intros c Hc E. destruct H as [(c2 & H2 & Hw2 & E2)|(a & Ha & Ea)].
  - assert (c2 = c) as -> by (eapply id_unique; eauto; congruence). exact Hw2.
  - exfalso. eapply (nodup_app_disj _ _ id Hn); [rewrite <- E; apply in_map; exact Hc|rewrite <- Ea; apply in_map; exact Ha].
Qed.

Lemma step_ghost arrs s sv wt s' g :
  Inv arrs s sv wt -> Ghost s g -> step R K s = Some s' ->
  Ghost s' (fun id => g id + (if served_in id s then rate (occupancy s) * (now s' - now s) else 0)).
Proof.
  intros I G Hs. destruct (step_origin _ _ _ _ _ I Hs) as (Ho & Hnow & _ & Hincl).
  destruct (inv_occ _ _ _ _ I) as (Eo & El). destruct G as [G1 G0 Gp].
  assert (Hsv : forall c, In c (inds s) -> c_ws c = true -> served_ok (now s) (locc s) c /\ (0 < locc s)%nat).
  { intros c Hc Hw. pose proof (i_split _ _ _ _ I) as E. rewrite E in Hc. apply in_app_or in Hc as [Hc|Hc].
    - pose proof (i_num _ _ _ _ I) as Hn. rewrite Forall_forall in Hn. split; [auto|].
      rewrite El. destruct sv; [contradiction|cbn; lia].
    - pose proof (i_wt _ _ _ _ I) as Hwt. unfold none_ws in Hwt. rewrite Forall_forall in Hwt. rewrite (Hwt c Hc) in Hw. discriminate. }
  assert (Hzero : forall id,
    ((exists c, In c (inds s) /\ c_ws c = false /\ cid c = id) \/ (exists a, In a (pend s) /\ a_id a = id)) -> g id == 0).
  { intros id [(c & Hc & Hw & <-)|(a & Ha & <-)]; auto. }
  constructor.
  - intros c' Hc' Hw'. destruct (Ho c' Hc') as [c Hc Hw Hid Hk| _ Hd Htl Hsrc|Hw2 _]; [| |congruence].
    + rewrite (served_in_true (cid c') s c Hc Hw (eq_sym Hid)).
      destruct (Hsv c Hc Hw) as (Hok & Hlo).
      destruct (kept_rate s s' c c' Hw Hok Hlo Hk) as (_ & Hr & Hwl).
      rewrite Hwl, Hr, Hid, Eo. specialize (G1 c Hc Hw). lra.
    + rewrite (not_served_id _ _ _ _ _ I Hsrc), (Hzero _ Hsrc).
      unfold work_left, wl_at. rewrite Hd, Htl. ring.
  - intros c' Hc' Hw'. destruct (Ho c' Hc') as [c Hc Hw Hid Hk| Hw2 _ _ _|_ Hsrc]; [|congruence|].
    + destruct (Hsv c Hc Hw) as (Hok & Hlo).
      destruct (kept_rate s s' c c' Hw Hok Hlo Hk) as (Hw2 & _). congruence.
    + assert (Hsrc' : (exists c, In c (inds s) /\ c_ws c = false /\ cid c = cid c') \/ (exists a, In a (pend s) /\ a_id a = cid c')).
      { destruct Hsrc as [H|H]; [left; exists c'; auto|right; exact H]. }
      rewrite (not_served_id _ _ _ _ _ I Hsrc'), (Hzero _ Hsrc'). ring.
  - intros a Ha. apply Hincl in Ha.
    assert (Hsrc' : (exists c, In c (inds s) /\ c_ws c = false /\ cid c = a_id a) \/ (exists a0, In a0 (pend s) /\ a_id a0 = a_id a)).
    { right. exists a. auto. }
    rewrite (not_served_id _ _ _ _ _ I Hsrc'), (Hzero _ Hsrc'). ring.
Qed.

Lemma reach_ghost arrs s g : wf_arrs arrs -> reach arrs s g -> Ghost s g.
Proof.
  intros Hwf. induction 1 as [|s g s' Hr IH Hs].
  - constructor; cbn; intros; try contradiction; reflexivity.
  - destruct (reach_inv _ _ _ Hwf Hr) as (sv & wt & I). eapply step_ghost; eauto.
Qed.

Lemma cons_neq_self {X} (x : X) l : l <> x :: l.
Proof. intros H. apply (f_equal (@length X)) in H. cbn in H. lia. Qed.

(* ps_work: a customer leaves exactly when its remaining work is 0, and then the work it has
   received (sum over the elapsed intervals of dt * rate(occupancy)) equals its requirement *)
Theorem ps_work arrs s g s' d :
  wf_arrs arrs -> reach arrs s g -> step R K s = Some s' -> deps s' = d :: deps s ->
  (exists c, In c (inds s) /\ c_ws c = true /\ cid c = d_id d /\ c_req c = d_req d /\ c_arr c = d_arr d /\
             c_start c = d_start d /\ c_end c = d_exit d /\ wl_at (now s') (locc s) c == 0) /\
  d_exit d = now s' /\
  g (d_id d) + rate (occupancy s) * (now s' - now s) == d_req d /\
  In (d_id d, d_arr d, d_req d) arrs.
Proof.
  intros Hwf Hr Hs Hd. destruct (reach_inv _ _ _ Hwf Hr) as (sv & wt & I).
  pose proof (reach_ghost _ _ _ Hwf Hr) as G.
  destruct (step_cases _ _ _ _ _ I Hs) as [(a & r & Hp & -> & Hle)|(c & Hc & -> & Hnow & Hmin)].
  - destruct (accept_fields s a r) as (_ & _ & E). rewrite E in Hd. exfalso. eapply cons_neq_self; eauto.
  - destruct (depart_fields s c) as (E1 & _ & E3). rewrite E3 in Hd. injection Hd as <-. cbn [d_id d_arr d_req d_start d_exit].
    rewrite E1.
    assert (Hci : In c (inds s)) by (rewrite (i_split _ _ _ _ I); apply in_or_app; left; exact Hc).
    assert (Hw : c_ws c = true).
    { pose proof (i_sv _ _ _ _ I) as H. unfold all_ws in H. rewrite Forall_forall in H. auto. }
    assert (Hok : served_ok (now s) (locc s) c).
    { pose proof (i_num _ _ _ _ I) as H. rewrite Forall_forall in H. auto. }
    assert (Hz : wl_at (c_end c) (locc s) c == 0) by (apply (wl_zero_iff (now s)); [exact Hw|exact Hok|reflexivity]).
    destruct (inv_occ _ _ _ _ I) as (Eo & _).
    split; [exists c; repeat split; auto|]. split; [reflexivity|]. split.
    + pose proof (g_served _ _ G c Hci Hw) as H1. rewrite Eo. unfold work_left, wl_at in *. lra.
    + destruct (i_src _ _ _ _ I) as (H & _). rewrite Forall_forall in H. apply H. apply in_or_app. left. exact Hc.
Qed.

(* ps_no_early: while a customer is in service its remaining work is >= 0; it is 0 exactly when its
   projected end date is the present instant; what it has received so far plus what remains is its requirement *)
Theorem ps_no_early arrs s g c :
  wf_arrs arrs -> reach arrs s g -> In c (inds s) -> c_ws c = true ->
  0 <= work_left s c /\ (work_left s c == 0 <-> c_end c == now s) /\
  g (cid c) + work_left s c == c_req c /\ g (cid c) <= c_req c.
Proof.
  intros Hwf Hr Hc Hw. destruct (reach_inv _ _ _ Hwf Hr) as (sv & wt & I).
  pose proof (reach_ghost _ _ _ Hwf Hr) as G.
  assert (Hcsv : In c sv).
  { pose proof (i_split _ _ _ _ I) as E. rewrite E in Hc. apply in_app_or in Hc as [H|H]; [exact H|].
    pose proof (i_wt _ _ _ _ I) as Hwt. unfold none_ws in Hwt. rewrite Forall_forall in Hwt. rewrite (Hwt c H) in Hw. discriminate. }
  assert (Hok : served_ok (now s) (locc s) c).
  { pose proof (i_num _ _ _ _ I) as H. rewrite Forall_forall in H. auto. }
  destruct (Hok Hw) as (_ & _ & H3).
  pose proof (wl_nonneg (now s) (locc s) c (now s) Hw Hok H3) as Hnn.
  pose proof (g_served _ _ G c Hc Hw) as Hg. unfold work_left in *.
  repeat split; auto.
  - apply (wl_zero_iff (now s)); assumption.
  - apply (wl_zero_iff (now s)); assumption.
  - lra.
Qed.

(* ps_capacity: at most K customers are in service, they are the head of the line (earliest arrivals
   present), occupancy = min(n, K), and the sequence of service starts so far followed by the customers
   still waiting and those still to arrive is the arrival order: customers start first come first served *)
Theorem ps_capacity arrs s g :
  wf_arrs arrs -> reach arrs s g ->
  exists sv wt, inds s = sv ++ wt /\ all_ws sv /\ none_ws wt /\
    occupancy s = length sv /\ length sv = cap_min (length (inds s)) K /\
    match K with Some k => (occupancy s <= k)%nat | None => wt = [] end /\
    map fst (rev (starts s)) ++ map cid wt ++ map a_id (pend s) = map a_id arrs.
Proof.
  intros Hwf Hr. destruct (reach_inv _ _ _ Hwf Hr) as (sv & wt & I). exists sv, wt.
  destruct (inv_occ _ _ _ _ I) as (Eo & El). destruct I.
  split; [exact i_split0|]. split; [exact i_sv0|]. split; [exact i_wt0|]. split; [congruence|].
  split; [rewrite i_split0; exact i_len0|]. split; [|exact i_order0].
  rewrite Eo, El. destruct K as [k|]; cbn [cap_min] in i_len0; [lia|].
  rewrite app_length in i_len0. destruct wt; [reflexivity|cbn in i_len0; lia].
Qed.
(* ---------- FIFO equivalence (K = infinity, R = 1) ---------- *)
(* remaining work at time t of a FIFO job with record d: all of it before its start, exit - t during
   its service, nothing afterwards *)
Definition rem (d : dep) (t : Q) : Q := Qmax 0 (Qmin (d_req d) (d_exit d - t)).
Definition fifo_work (ds : list dep) (t : Q) : Q := fold_right (fun d acc => rem d t + acc) 0 ds.
Fixpoint fifo_last (d : Q) (l : list arrival) : Q :=
  match l with [] => d | a :: r => fifo_last (Qmax (a_t a) d + a_w a) r end.

Ltac qmm :=
  repeat match goal with
  | |- context [Qmax ?a ?b] =>
    let H := fresh in let E := fresh in let m := fresh "m" in
    destruct (Q.max_spec a b) as [[H E]|[H E]]; set (m := Qmax a b) in *; clearbody m
  | |- context [Qmin ?a ?b] =>
    let H := fresh in let E := fresh in let m := fresh "m" in
    destruct (Q.min_spec a b) as [[H E]|[H E]]; set (m := Qmin a b) in *; clearbody m
  | H0 : context [Qmax ?a ?b] |- _ =>
    let H := fresh in let E := fresh in let m := fresh "m" in
    destruct (Q.max_spec a b) as [[H E]|[H E]]; set (m := Qmax a b) in *; clearbody m
  | H0 : context [Qmin ?a ?b] |- _ =>
    let H := fresh in let E := fresh in let m := fresh "m" in
    destruct (Q.min_spec a b) as [[H E]|[H E]]; set (m := Qmin a b) in *; clearbody m
  end.

Lemma rem_step ta w d t : ta <= t -> 0 <= w ->
  Qmax 0 (Qmin w (Qmax ta d + w - t)) + Qmax 0 (d - t) == Qmax 0 (Qmax ta d + w - t).
Proof. intros H1 H2. qmm; lra. Qed.

Lemma fifo_last_compat d d' l : d == d' -> fifo_last d l == fifo_last d' l.
Proof.
  revert d d'. induction l as [|a r IH]; cbn; intros d d' H; [exact H|].
  apply IH. rewrite H. reflexivity.
Qed.
Lemma fifo_last_app d l1 l2 : fifo_last d (l1 ++ l2) = fifo_last (fifo_last d l1) l2.
Proof. revert d. induction l1 as [|a r IH]; cbn; intros d; [reflexivity|]. apply IH. Qed.

Lemma fifo_closed l : forall d t, (forall a, In a l -> a_t a <= t /\ 0 <= a_w a) ->
  fifo_work (fifo_from d l) t + Qmax 0 (d - t) == Qmax 0 (fifo_last d l - t).
Proof.
  induction l as [|a r IH]; intros d t H.
  - cbn. ring.
  - cbn [fifo_from fifo_work fold_right fifo_last].
    set (e := Qred (Qred (Qmax (a_t a) d) + a_w a)).
    fold (fifo_work (fifo_from e r) t).
    destruct (H a (or_introl eq_refl)) as [H1 H2].
    assert (E : e == Qmax (a_t a) d + a_w a) by (unfold e; rewrite !Qred_eq; reflexivity).
    assert (IH' := IH e t (fun x Hx => H x (or_intror Hx))).
    rewrite (fifo_last_compat _ _ r E) in IH'.
    set (F := fifo_work (fifo_from e r) t) in *. clearbody F.
    rewrite E in IH'. unfold rem. cbn [d_req d_exit]. rewrite E.
    pose proof (rem_step (a_t a) (a_w a) d t H1 H2) as Hs. lra.
Qed.

Fixpoint sum_wl (t : Q) (lo : nat) (l : list cust) : Q :=
  match l with [] => 0 | c :: r => wl_at t lo c + sum_wl t lo r end.
(* total remaining work of the customers in service *)
Definition total_work (s : st) : Q := sum_wl (now s) (locc s) (filter c_ws (inds s)).

Lemma sum_wl_app t lo a b : sum_wl t lo (a ++ b) == sum_wl t lo a + sum_wl t lo b.
Proof. induction a as [|x r IH]; cbn [app sum_wl]; [ring|]. rewrite IH. ring. Qed.
Lemma sum_wl_shift t t0 lo l : sum_wl t lo l == sum_wl t0 lo l - qocc (length l) * rate lo * (t - t0).
Proof.
  induction l as [|x r IH]; cbn [sum_wl length]; [unfold qocc; cbn [Z.of_nat]; ring|].
  rewrite IH, qocc_S. unfold wl_at. ring.
Qed.
Lemma sum_wl_nonneg t lo l : (forall c, In c l -> 0 <= wl_at t lo c) -> 0 <= sum_wl t lo l.
Proof.
  induction l as [|x r IH]; intros H; cbn [sum_wl]; [lra|].
  pose proof (H x (or_introl eq_refl)). pose proof (IH (fun c Hc => H c (or_intror Hc))). lra.
Qed.
Lemma sum_upd t lo no l : all_ws l -> (0 < lo)%nat ->
  sum_wl t no (map (upd_cust R t lo no) l) == sum_wl t lo l.
Proof.
  intros Ha Hlo. induction Ha as [|x r Hx _ IH]; [reflexivity|].
  cbn [map sum_wl]. rewrite IH.
  destruct (upd_ws t lo no x Hx) as (_ & _ & _ & _ & _ & E6 & E7 & _).
  unfold wl_at at 1. rewrite E6, E7, share_rate by exact Hlo. ring.
Qed.
Lemma filter_all_ws l : all_ws l -> filter c_ws l = l.
Proof. induction 1 as [|x r Hx _ IH]; cbn; [reflexivity|]. rewrite Hx, IH. reflexivity. Qed.

Lemma rate_total n : R == 1 -> (0 < n)%nat -> qocc n * rate n == 1.
Proof.
  intros HR Hn. pose proof (qocc_pos n Hn). unfold rate, M. rewrite (Q.max_l (qocc n) R) by lra.
  rewrite HR. field. lra.
Qed.

Lemma max_shift X Y D t0 t : X == Qmax 0 (D - t0) -> 0 <= Y -> t0 <= t ->
  (Y == X - (t - t0) \/ (Y == 0 /\ X == 0)) -> Y == Qmax 0 (D - t).
Proof. intros HX HY Ht H. revert HX. qmm; intros; destruct H as [H|[H H']]; lra. Qed.

Record Fifo (arrs : list arrival) (s : st) (done : list arrival) : Prop := mkFifo {
  f_split : arrs = done ++ pend s;
  f_past : forall a, In a done -> a_t a <= now s /\ 0 <= a_w a;
  f_work : total_work s == Qmax 0 (fifo_last 0 done - now s)
}.

Lemma step_fifo arrs s sv wt s' done :
  K = None -> R == 1 -> Inv arrs s sv wt -> Fifo arrs s done -> step R K s = Some s' ->
  exists done', Fifo arrs s' done'.
Proof.
  intros HK HR I F Hs. destruct F as [Fs Fp Fw].
  destruct (inv_occ _ _ _ _ I) as (_ & El).
  assert (Hwt : wt = []).
  { pose proof (i_len _ _ _ _ I) as H. rewrite HK in H. cbn in H. rewrite app_length in H. destruct wt; [reflexivity|cbn in H; lia]. }
  subst wt. pose proof (i_split _ _ _ _ I) as Ei. rewrite app_nil_r in Ei.
  pose proof (i_sv _ _ _ _ I) as Hall.
  assert (HX : total_work s = sum_wl (now s) (locc s) sv) by (unfold total_work; rewrite Ei, filter_all_ws by exact Hall; reflexivity).
  rewrite HX in Fw.
  assert (Hnn : forall t, (forall x, In x sv -> t <= c_end x) -> forall x, In x sv -> 0 <= wl_at t (locc s) x).
  { intros t Ht x Hx. pose proof (i_num _ _ _ _ I) as Hn. unfold all_ws in Hall. rewrite Forall_forall in Hn, Hall.
    apply (wl_nonneg (now s)); auto. }
  assert (Hshift : forall t, sum_wl t (locc s) sv == sum_wl (now s) (locc s) sv - (t - now s) \/
                             (sum_wl t (locc s) sv == 0 /\ sum_wl (now s) (locc s) sv == 0)).
  { intros t. destruct sv as [|x0 r0] eqn:Esv; [right; cbn; split; reflexivity|left].
    rewrite (sum_wl_shift t (now s)). rewrite <- Esv in *. rewrite <- El.
    assert (0 < locc s)%nat by (rewrite El, Esv; cbn; lia).
    rewrite (rate_total (locc s) HR) by assumption. ring. }
  destruct (step_cases _ _ _ _ _ I Hs) as [(a & r & Hp & -> & Hle)|(c & Hc & -> & Hnow & Hmin)].
  - (* arrival *)
    destruct (accept_fields s a r) as (E1 & E2 & _).
    pose proof (i_pend _ _ _ _ I) as Hsrt. rewrite Hp in Hsrt. cbn in Hsrt. destruct Hsrt as (Ht & Hw & _).
    destruct (accept_char _ _ _ _ a r I) as [(_ & Hi & Hl & _)|(_ & _ & _ & k & EK & _)]; [|congruence].
    exists (done ++ [a]). constructor.
    + rewrite E2, <- app_assoc. cbn. rewrite <- Hp. exact Fs.
    + rewrite E1. intros x Hx. apply in_app_or in Hx as [Hx|[<-|[]]]; [|split; [apply Qle_refl|exact Hw]].
      destruct (Fp x Hx). split; [lra|assumption].
    + rewrite fifo_last_app. cbn [fifo_last]. rewrite E1.
      assert (Hall' : all_ws (map (upd_cust R (a_t a) (locc s) (S (length sv))) (sv ++ [c_new a]))).
      { unfold all_ws. rewrite Forall_forall. intros x Hx. apply in_map_iff in Hx as (y & <- & Hy). rewrite upd_wsflag.
        apply in_app_or in Hy as [Hy|[<-|[]]]; [|reflexivity]. unfold all_ws in Hall. rewrite Forall_forall in Hall. auto. }
      unfold total_work. rewrite Hi, Hl, E1, filter_all_ws by exact Hall'.
      rewrite map_app, sum_wl_app. cbn [map sum_wl].
      assert (Enew : wl_at (a_t a) (S (length sv)) (upd_cust R (a_t a) (locc s) (S (length sv)) (c_new a)) == a_w a).
      { destruct (upd_ws (a_t a) (locc s) (S (length sv)) (c_new a) eq_refl) as (_ & _ & _ & _ & _ & E6 & E7 & _).
        unfold wl_at. rewrite E6, E7, share_fresh by reflexivity. cbn. ring. }
      rewrite Enew.
      assert (Eold : sum_wl (a_t a) (S (length sv)) (map (upd_cust R (a_t a) (locc s) (S (length sv))) sv) == Qmax 0 (fifo_last 0 done - a_t a)).
      { destruct sv as [|x0 r0] eqn:Esv.
        - cbn. revert Fw. cbn. qmm; intros; lra.
        - rewrite <- Esv in *. rewrite sum_upd; [|exact Hall|rewrite El, Esv; cbn; lia].
          apply (max_shift (sum_wl (now s) (locc s) sv) _ _ (now s)); auto.
          apply sum_wl_nonneg. apply Hnn. exact Hle. }
      rewrite Eold. qmm; lra.
  - (* departure *)
    destruct (depart_fields s c) as (E1 & E2 & _).
    destruct (depart_char _ _ _ _ _ I Hc) as (sv1 & sv2 & Hsv & [(w1 & wt' & Hwt & _)|(_ & Hi & Hl & _)]); [discriminate|].
    exists done. constructor.
    + rewrite E2. exact Fs.
    + rewrite E1. intros x Hx. destruct (Fp x Hx). split; [lra|assumption].
    + rewrite E1.
      assert (Hall12 : all_ws (sv1 ++ sv2)).
      { unfold all_ws in *. rewrite Forall_forall in *. intros x Hx. apply Hall. rewrite Hsv.
        apply in_app_or in Hx as [Hx|Hx]; apply in_or_app; [left|right; right]; exact Hx. }
      assert (Hall' : all_ws (map (upd_cust R (c_end c) (locc s) (length sv - 1)) (sv1 ++ sv2))).
      { unfold all_ws. rewrite Forall_forall. intros x Hx. apply in_map_iff in Hx as (y & <- & Hy). rewrite upd_wsflag.
        unfold all_ws in Hall12. rewrite Forall_forall in Hall12. auto. }
      unfold total_work. rewrite Hi, Hl, E1, filter_all_ws by exact Hall'.
      assert (Hlo : (0 < locc s)%nat) by (rewrite El, Hsv, app_length; cbn; lia).
      rewrite sum_upd by assumption.
      assert (Hz : wl_at (c_end c) (locc s) c == 0).
      { pose proof (i_num _ _ _ _ I) as Hn. unfold all_ws in Hall. rewrite Forall_forall in Hn, Hall.
        apply (wl_zero_iff (now s)); auto. reflexivity. }
      assert (E12 : sum_wl (c_end c) (locc s) (sv1 ++ sv2) == sum_wl (c_end c) (locc s) sv).
      { rewrite Hsv, !sum_wl_app. cbn [sum_wl]. rewrite Hz. ring. }
      rewrite E12.
      apply (max_shift (sum_wl (now s) (locc s) sv) _ _ (now s)); auto.
      apply sum_wl_nonneg. apply Hnn. exact Hmin.
Qed.

Lemma reach_fifo arrs s g : K = None -> R == 1 -> wf_arrs arrs -> reach arrs s g -> exists done, Fifo arrs s done.
Proof.
  intros HK HR Hwf. induction 1 as [|s g s' Hr (done & F) Hs].
  - exists []. constructor; cbn; [reflexivity|contradiction|]. unfold total_work. cbn. qmm; lra.
  - destruct (reach_inv _ _ _ Hwf Hr) as (sv & wt & I). eapply step_fifo; eauto.
Qed.

(* ps_fifo_equiv: for an unlimited PS node with threshold 1 the total remaining work at every event
   instant equals the remaining work of the single-server FIFO queue (Lindley model) fed with the
   arrivals processed so far; in particular both are empty of work at the same instants *)
Theorem ps_fifo_equiv arrs s g done :
  K = None -> R == 1 -> wf_arrs arrs -> reach arrs s g -> arrs = done ++ pend s ->
  total_work s == fifo_work (fifo_run done) (now s) /\
  (total_work s == 0 <-> fifo_work (fifo_run done) (now s) == 0).
Proof.
  intros HK HR Hwf Hr Hd. destruct (reach_fifo _ _ _ HK HR Hwf Hr) as (done' & [Fs Fp Fw]).
  assert (done' = done) as -> by (rewrite Hd in Fs; apply app_inv_tail in Fs; congruence).
  destruct (reach_inv _ _ _ Hwf Hr) as (sv & wt & I). pose proof (i_now _ _ _ _ I) as Hn0.
  assert (E : total_work s == fifo_work (fifo_run done) (now s)).
  { rewrite Fw. unfold fifo_run. rewrite <- (fifo_closed done 0 (now s) Fp). revert Hn0. qmm; intros; lra. }
  split; [exact E|]. rewrite E. tauto.
Qed.

(* ---------- the run with fuel 2*|arrivals| is complete ---------- *)
Definition mu (s : st) : nat := (2 * length (pend s) + length (inds s))%nat.
Definition total (s : st) : nat := (length (deps s) + length (inds s) + length (pend s))%nat.

Lemma step_measure arrs s sv wt s' :
  Inv arrs s sv wt -> step R K s = Some s' -> mu s = S (mu s') /\ total s' = total s.
Proof.
  intros I Hs. pose proof (i_split _ _ _ _ I) as Ei. unfold mu, total.
  destruct (step_cases _ _ _ _ _ I Hs) as [(a & r & Hp & -> & _)|(c & Hc & -> & _)].
  - destruct (accept_fields s a r) as (_ & E2 & E3). rewrite E2, E3, Hp, Ei.
    destruct (accept_char _ _ _ _ a r I) as [(Hwt & Hi & _)|(Hi & _)]; rewrite Hi.
    + subst wt. rewrite map_length, !app_length. cbn [length]. lia.
    + rewrite !app_length. cbn [length]. lia.
  - destruct (depart_fields s c) as (_ & E2 & E3). rewrite E2, E3, Ei.
    destruct (depart_char _ _ _ _ _ I Hc) as (sv1 & sv2 & Hsv & [(w1 & wt' & Hwt & Hi & _)|(Hwt & Hi & _)]); rewrite Hi, Hsv, Hwt.
    + rewrite ?app_length, ?map_length, ?app_length. cbn [length]. rewrite ?app_length. cbn [length]. lia.
    + rewrite ?map_length, ?app_length. cbn [length]. lia.
Qed.

Lemma step_none arrs s sv wt : Inv arrs s sv wt -> step R K s = None -> inds s = [] /\ pend s = [].
Proof.
  intros I H. unfold step in H.
  destruct (next_end (now s) (inds s)) as [c|] eqn:En; destruct (pend s) as [|a r] eqn:Ep; try discriminate.
  - destruct (Qle_bool (c_end c) (a_t a)); discriminate.
  - split; [|reflexivity]. destruct I.
    assert (sv = []) as ->.
    { destruct sv as [|x r]; [reflexivity|]. exfalso.
      unfold all_ws in i_sv0. rewrite Forall_forall in i_sv0, i_num0.
      destruct (i_num0 x (or_introl eq_refl) (i_sv0 x (or_introl eq_refl))) as (_ & _ & H3).
      apply (next_end_none _ _ En x); [rewrite i_split0; left; reflexivity|apply i_sv0; left; reflexivity|exact H3]. }
    cbn [app length] in *. rewrite i_split0. destruct wt as [|w r]; [reflexivity|exfalso].
    cbn [length] in i_len0. unfold cap_min in i_len0. destruct K as [k|]; lia.
Qed.

Lemma run_reach arrs fuel : forall s g, reach arrs s g -> exists g', reach arrs (run R K fuel s) g'.
Proof.
  induction fuel as [|f IH]; intros s g Hr; cbn [run]; [eauto|].
  destruct (step R K s) as [s'|] eqn:E; [|eauto]. eapply IH. eapply reach_step; eauto.
Qed.

Lemma run_complete arrs fuel : forall s sv wt, Inv arrs s sv wt -> (mu s <= fuel)%nat ->
  inds (run R K fuel s) = [] /\ pend (run R K fuel s) = [] /\ total (run R K fuel s) = total s.
Proof.
  induction fuel as [|f IH]; intros s sv wt I Hm; cbn [run].
  - unfold mu in Hm. destruct (inds s), (pend s); cbn in Hm; try lia. auto.
  - destruct (step R K s) as [s'|] eqn:E.
    + destruct (step_measure _ _ _ _ _ I E) as (Hmu & Ht). destruct (step_inv _ _ _ _ _ I E) as (sv' & wt' & I').
      destruct (IH s' sv' wt' I') as (H1 & H2 & H3); [lia|]. repeat split; auto. congruence.
    + destruct (step_none _ _ _ _ I E). auto.
Qed.

(* ps_complete: the executable run ends with everybody departed, it is a reachable state (so all the
   theorems above apply to it and to each of its steps) and customers started in arrival order *)
Theorem ps_complete arrs : wf_arrs arrs ->
  let s := ps_run R K arrs in
  (exists g, reach arrs s g) /\ inds s = [] /\ pend s = [] /\ length (deps s) = length arrs /\
  map fst (rev (starts s)) = map a_id arrs.
Proof.
  intros Hwf s. pose proof Hwf as [H1 H2].
  destruct (run_reach arrs (2 * length arrs) (init arrs) _ (reach_init arrs)) as (g & Hr). fold (ps_run R K arrs) in Hr. fold s in Hr.
  assert (Hmu : (mu (init arrs) <= 2 * length arrs)%nat) by (unfold mu; cbn [init pend inds length]; lia).
  destruct (run_complete arrs (2 * length arrs) (init arrs) [] [] (init_inv arrs H1 H2) Hmu) as (E1 & E2 & E3).
  fold (ps_run R K arrs) in E1, E2, E3. fold s in E1, E2, E3.
  split; [eauto|]. split; [exact E1|]. split; [exact E2|]. split.
  - unfold total in E3. rewrite E1, E2 in E3. cbn [init deps inds pend length] in E3. lia.
  - destruct (ps_capacity arrs s g Hwf Hr) as (sv & wt & Ei & _ & _ & _ & _ & _ & Ho).
    rewrite E1 in Ei. destruct sv; [|discriminate]. destruct wt; [|discriminate]. rewrite E2 in Ho. cbn in Ho.
    rewrite app_nil_r in Ho. exact Ho.
Qed.

End Proofs.

(* ---------- examples (vm_compute) ---------- *)
Definition ex_arrs : list arrival :=
  [(1%Z, 0, 4); (2%Z, 1, 1); (3%Z, 2, 3#2); (4%Z, 2, 1#2); (5%Z, 5, 2); (6%Z, 6, 1#3)].

Lemma ex_wf : wf_arrs ex_arrs.
Proof.
  split.
  - cbn. repeat split; unfold Qle; cbn; lia.
  - cbn. repeat constructor; cbn; intuition discriminate.
Qed.

(* unlimited sharing, threshold 1: customer 1 (requirement 4) is in service from 0 to 53/6 while the number
   sharing changes at 1, 2, 4, 5, 6, 20/3 and 43/6; the node empties at 28/3 *)
Example ps_example_unlimited :
  map (fun d => (d_id d, d_start d, d_exit d)) (rev (deps (ps_run 1 None ex_arrs))) =
  [(2%Z, 1, 4); (4%Z, 2, 4); (3%Z, 2, 20#3); (6%Z, 6, 43#6); (1%Z, 0, 53#6); (5%Z, 5, 28#3)].
Proof. vm_compute. reflexivity. Qed.
(* the single-server FIFO queue on the same input empties at the same instant 28/3 *)
Example fifo_example :
  map (fun d => (d_id d, d_start d, d_exit d)) (fifo_run ex_arrs) =
  [(1%Z, 0, 4); (2%Z, 4, 5); (3%Z, 5, 13#2); (4%Z, 13#2, 7); (5%Z, 7, 9); (6%Z, 9, 28#3)].
Proof. vm_compute. reflexivity. Qed.
(* capacity 2, threshold 2 (nobody is slowed down): customers 3 and 4 arrive together at 2, customer 4 waits
   until customer 3 leaves at 7/2 *)
Example ps_example_cap2 :
  map (fun d => (d_id d, d_start d, d_exit d)) (rev (deps (ps_run 2 (Some 2%nat) ex_arrs))) =
  [(2%Z, 1, 2); (3%Z, 2, 7#2); (1%Z, 0, 4); (4%Z, 7#2, 4); (6%Z, 6, 19#3); (5%Z, 5, 7)].
Proof. vm_compute. reflexivity. Qed.
(* capacity 3, threshold 3/2 *)
Example ps_example_cap3 :
  map (fun d => (d_id d, d_start d, d_exit d)) (rev (deps (ps_run (3#2) (Some 3%nat) ex_arrs))) =
  [(2%Z, 1, 5#2); (4%Z, 5#2, 7#2); (3%Z, 2, 9#2); (1%Z, 0, 16#3); (6%Z, 6, 58#9); (5%Z, 5, 259#36)].
Proof. vm_compute. reflexivity. Qed.

(* ---------- the statements in the form quoted by Properties/C19.v ---------- *)
Lemma count_ws_pos l c : In c l -> c_ws c = true -> (0 < count_ws l)%nat.
Proof.
  unfold count_ws. induction l as [|x r IH]; cbn; intros H Hw; [contradiction|].
  destruct H as [->|H]; [rewrite Hw; cbn; lia|]. destruct (c_ws x); cbn; [lia|auto].
Qed.

(* ps_rate with the rate written as min(1, R/k), k = number of customers currently sharing *)
Theorem ps_rate_min R K : 0 < R -> match K with Some k => (1 <= k)%nat | None => True end ->
  forall arrs s g s' c c',
  wf_arrs arrs -> reach R K arrs s g -> step R K s = Some s' ->
  In c (inds s) -> c_ws c = true -> In c' (inds s') -> cid c' = cid c ->
  c_ws c' = true /\
  work_left R s' c' == work_left R s c - Qmin 1 (R / qocc (occupancy s)) * (now s' - now s).
Proof.
  intros HR HK arrs s g s' c c' Hwf Hr Hs Hc Hw Hc' Hid.
  destruct (ps_rate R K HR HK arrs s g s' c c' Hwf Hr Hs Hc Hw Hc' Hid) as [H1 H2].
  split; [exact H1|]. rewrite H2. rewrite (rate_min R HR (occupancy s)); [reflexivity|].
  unfold occupancy. eapply count_ws_pos; eauto.
Qed.

(* ps_fifo_equiv for the unlimited node, without the redundant premises *)
Theorem ps_fifo_equiv_inf R : R == 1 ->
  forall arrs s g done,
  wf_arrs arrs -> reach R None arrs s g -> arrs = done ++ pend s ->
  total_work R s == fifo_work (fifo_run done) (now s) /\
  (total_work R s == 0 <-> fifo_work (fifo_run done) (now s) == 0).
Proof.
  intros HR arrs s g done Hwf Hr Hd.
  assert (0 < R) by (rewrite HR; reflexivity).
  exact (ps_fifo_equiv R None H Logic.I arrs s g done eq_refl HR Hwf Hr Hd).
Qed.

(* the FIFO model's remaining work in closed form: after the arrivals in l (all at or before t) it is
   max(0, last departure - t): the server works without interruption until the last departure *)
Theorem fifo_work_closed l t : 0 <= t -> (forall a, In a l -> a_t a <= t /\ 0 <= a_w a) ->
  fifo_work (fifo_run l) t == Qmax 0 (fifo_last 0 l - t).
Proof.
  intros Ht H. unfold fifo_run. rewrite <- (fifo_closed l 0 t H).
  destruct (Q.max_spec 0 (0 - t)) as [[H1 E]|[H1 E]]; rewrite E; lra.
Qed.

(* Deadlock.v -- the wait-for digraph on servers and the structural deadlock definition.
   deadlocked g V computes the greatest set S of vertices all of which wait and only for
   members of S (by pruning), and is proved equivalent to the existence of a non-empty
   closed set: a set of servers all holding customers blocked towards servers of the set. *)
From Coq Require Import ZArith List Bool Lia Arith.
Import ListNotations.
Open Scope Z_scope.

Definition graph := list (Z * Z).
Definition succs (g : graph) (v : Z) : list Z := map snd (filter (fun e => fst e =? v) g).
Definition memb (x : Z) (l : list Z) : bool := existsb (Z.eqb x) l.
Lemma memb_In x l : memb x l = true <-> In x l.
Proof.
  unfold memb. rewrite existsb_exists. split.
  - intros [y [H E]]. apply Z.eqb_eq in E. subst. auto.
  - intros H. exists x. split; auto. apply Z.eqb_refl.
Qed.

Definition stuck (g : graph) (S : list Z) (v : Z) : bool :=
  negb (match succs g v with [] => true | _ => false end) && forallb (fun w => memb w S) (succs g v).
Definition step (g : graph) (S : list Z) : list Z := filter (stuck g S) S.
Fixpoint iter (n : nat) (g : graph) (S : list Z) : list Z :=
  match n with O => S | S n' => iter n' g (step g S) end.
Definition prune (g : graph) (V : list Z) : list Z := iter (length V) g V.
Definition deadlocked (g : graph) (V : list Z) : bool :=
  negb (match prune g V with [] => true | _ => false end).

Definition closed (g : graph) (S : list Z) : Prop :=
  forall v, In v S -> succs g v <> [] /\ forall w, In w (succs g v) -> In w S.
Definition D (g : graph) (V : list Z) : Prop := exists S, S <> [] /\ incl S V /\ closed g S.

Lemma stuck_spec g S v : stuck g S v = true <-> succs g v <> [] /\ forall w, In w (succs g v) -> In w S.
Proof.
  unfold stuck. rewrite andb_true_iff, forallb_forall. split.
  - intros [H1 H2]. split; [destruct (succs g v); [discriminate|congruence] | intros w Hw; apply memb_In; auto].
  - intros [H1 H2]. split; [destruct (succs g v); [congruence|reflexivity] | intros w Hw; apply memb_In; auto].
Qed.

Lemma filter_length_le {A} (f : A -> bool) l : (length (filter f l) <= length l)%nat.
Proof. induction l as [|a l IH]; simpl; auto. destruct (f a); simpl; lia. Qed.
Lemma step_incl g S : incl (step g S) S.
Proof. intros v H. unfold step in H. apply filter_In in H. tauto. Qed.
Lemma filter_all_length {A} (f : A -> bool) l : length (filter f l) = length l -> filter f l = l.
Proof.
  induction l as [|a l IH]; simpl; auto. destruct (f a) eqn:E; simpl; intros H.
  - f_equal. apply IH. lia.
  - pose proof (filter_length_le f l). lia.
Qed.
Lemma step_fix_or_shrink g S : step g S = S \/ (length (step g S) < length S)%nat.
Proof.
  destruct (Nat.eq_dec (length (step g S)) (length S)) as [E|E].
  - left. apply filter_all_length. exact E.
  - right. pose proof (filter_length_le (stuck g S) S). unfold step in *. lia.
Qed.
Lemma iter_fix g S n : step g S = S -> iter n g S = S.
Proof. induction n; simpl; auto. intros H. rewrite H. auto. Qed.
Lemma iter_reaches_fix g : forall n S, (length S <= n)%nat -> step g (iter n g S) = iter n g S.
Proof.
  induction n as [|n IH]; intros S H; simpl.
  - destruct S; [reflexivity|simpl in H; lia].
  - destruct (step_fix_or_shrink g S) as [E|E].
    + rewrite E. rewrite iter_fix; auto.
    + apply IH. lia.
Qed.
Lemma iter_incl g : forall n S, incl (iter n g S) S.
Proof. induction n; intros S; simpl; [apply incl_refl|]. eapply incl_tran; [apply IHn|apply step_incl]. Qed.
Lemma closed_survives_step g W S : closed g W -> incl W S -> incl W (step g S).
Proof.
  intros Hc Hi v Hv. unfold step. apply filter_In. split; [auto|].
  apply stuck_spec. destruct (Hc v Hv) as [H1 H2]. split; auto.
Qed.
Lemma closed_survives g W : forall n S, closed g W -> incl W S -> incl W (iter n g S).
Proof. induction n; intros S Hc Hi; simpl; auto. apply IHn; auto. apply closed_survives_step; auto. Qed.

Theorem deadlocked_iff_D g V : deadlocked g V = true <-> D g V.
Proof.
  unfold deadlocked, prune. split.
  - intros H. exists (iter (length V) g V). split; [destruct (iter _ _ _); [discriminate|congruence]|].
    split; [apply iter_incl|].
    intros v Hv. pose proof (iter_reaches_fix g (length V) V (le_n _)) as Hfix.
    rewrite <- Hfix in Hv. unfold step in Hv. apply filter_In in Hv. destruct Hv as [Hv Hs].
    apply stuck_spec in Hs. exact Hs.
  - intros [W [Hne [Hi Hc]]]. pose proof (closed_survives g W (length V) V Hc Hi) as Hs.
    destruct W as [|w W]; [congruence|]. specialize (Hs w (or_introl eq_refl)).
    destruct (iter (length V) g V); [destruct Hs|reflexivity].
Qed.

(* monotonicity: removing edges of non-waiting... adding no edge cannot create a deadlock
   when every vertex keeps or loses successors *)
Lemma succs_sub g g' v : incl g' g -> incl (succs g' v) (succs g v).
Proof.
  intros H w Hw. unfold succs in *. apply in_map_iff in Hw. destruct Hw as [e [E He]]. apply filter_In in He.
  apply in_map_iff. exists e. split; [tauto|]. apply filter_In. split; [apply H|]; tauto.
Qed.

Example ex_deadlocks :
  deadlocked [(1,2);(2,1)] [1;2;3] = true /\ deadlocked [(1,2);(2,3)] [1;2;3] = false /\
  deadlocked [(1,1);(1,2)] [1;2] = false /\ deadlocked [(1,1)] [1;2] = true.
Proof. vm_compute. repeat split. Qed.

(* Loop.v -- the main loops of simulation.py over an abstract engine.
     pick  : find_next_active_node (may consume a random draw when several nodes tie) and set the clock
     event : have_event of the chosen node, then every node recomputes its next event date
     date  : the date of the chosen next event (None = infinity)
     count : the quantity simulate_until_max_customers watches
   simulate_until_max_time T      =  s := pick s; while date s < T: s := pick (event s)        (then wrap-up)
   simulate_until_max_customers n =  s := pick s; while count s < n: s := pick (event s)
   The loops are recursion on fuel; None = out of fuel.  Theorems hold for every fuel. *)
From Coq Require Import ZArith List Bool Lia.
Import ListNotations.
Open Scope Z_scope.

Section Loop.
  Variable S : Type.
  Variables pick event : S -> S.
  Variable date : S -> option Z.
  Variable count : S -> Z.

  Definition before (T : Z) (s : S) : bool := match date s with Some d => d <? T | None => false end.

  (* returns the dates of the executed events and the state at return *)
  Fixpoint loop_time (T : Z) (fuel : nat) (s : S) : option (list Z * S) :=
    if before T s then
      match fuel with
      | O => None
      | Datatypes.S f =>
        match loop_time T f (pick (event s)) with
        | Some (ds, r) => Some (match date s with Some d => d :: ds | None => ds end, r)
        | None => None
        end
      end
    else Some ([], s).
  Definition until_time (T : Z) (fuel : nat) (s : S) := loop_time T fuel (pick s).

  Fixpoint loop_count (n : Z) (fuel : nat) (s : S) : option (list Z * S) :=
    if count s <? n then
      match fuel with
      | O => None
      | Datatypes.S f =>
        match loop_count n f (pick (event s)) with
        | Some (cs, r) => Some (count s :: cs, r)
        | None => None
        end
      end
    else Some ([], s).
  Definition until_count (n : Z) (fuel : nat) (s : S) := loop_count n fuel (pick s).

  (* C14: exactly the events scheduled strictly before T are executed *)
  Theorem loop_time_post T : forall fuel s ds r, loop_time T fuel s = Some (ds, r) ->
    Forall (fun d => d < T) ds /\ before T r = false.
  Proof.
    induction fuel as [|f IH]; intros s ds r H; cbn [loop_time] in H.
    - destruct (before T s) eqn:E; [discriminate|]. injection H as <- <-. split; [constructor|exact E].
    - destruct (before T s) eqn:E.
      + destruct (loop_time T f (pick (event s))) as [[ds' r']|] eqn:El; [|discriminate]. injection H as <- <-.
        destruct (IH _ _ _ El) as [A B]. split; [|exact B].
        unfold before in E. destruct (date s) as [d|]; [|discriminate]. constructor; [apply Z.ltb_lt; exact E|exact A].
      + injection H as <- <-. split; [constructor|exact E].
  Qed.

  (* C14: the count was below n before every executed event and has reached n at return *)
  Theorem loop_count_post n : forall fuel s cs r, loop_count n fuel s = Some (cs, r) ->
    Forall (fun c => c < n) cs /\ n <= count r.
  Proof.
    induction fuel as [|f IH]; intros s cs r H; cbn [loop_count] in H.
    - destruct (count s <? n) eqn:E; [discriminate|]. injection H as <- <-. apply Z.ltb_ge in E. split; [constructor|exact E].
    - destruct (count s <? n) eqn:E.
      + destruct (loop_count n f (pick (event s))) as [[cs' r']|] eqn:El; [|discriminate]. injection H as <- <-.
        destruct (IH _ _ _ El) as [A B]. split; [|exact B]. constructor; [apply Z.ltb_lt; exact E|exact A].
      + injection H as <- <-. apply Z.ltb_ge in E. split; [constructor|exact E].
  Qed.

  (* more fuel does not change a result *)
  Lemma loop_time_fuel T : forall f s x, loop_time T f s = Some x -> forall g, (f <= g)%nat -> loop_time T g s = Some x.
  Proof.
    induction f as [|f IH]; intros s x H g Hg; cbn [loop_time] in H.
    - destruct g; cbn [loop_time]; destruct (before T s); try discriminate; exact H.
    - destruct g as [|g]; [lia|]. cbn [loop_time]. destruct (before T s); [|exact H].
      destruct (loop_time T f (pick (event s))) as [[ds r]|] eqn:E; [|discriminate].
      rewrite (IH _ _ E g) by lia. exact H.
  Qed.

  (* C16: pause / resume transparency of the loop.  Running to T1 and then, in a second call, to T >= T1 executes the same
     events and returns the same state as one call to T, provided re-entering the loop does not disturb the state at the
     split point: pick r1 = r1, i.e. no tie between nodes there (a tie would consume a random draw at re-entry). *)
  Theorem loop_time_split T1 T : T1 <= T -> forall f1 s ds1 r1, loop_time T1 f1 s = Some (ds1, r1) ->
    forall f2 ds2 r2, loop_time T f2 r1 = Some (ds2, r2) ->
    loop_time T (f1 + f2) s = Some (ds1 ++ ds2, r2).
  Proof.
    intros HT. induction f1 as [|f1 IH]; intros s ds1 r1 H1 f2 ds2 r2 H2; cbn [loop_time] in H1.
    - destruct (before T1 s) eqn:E; [discriminate|]. injection H1 as <- <-. exact H2.
    - destruct (before T1 s) eqn:E.
      + destruct (loop_time T1 f1 (pick (event s))) as [[ds' r']|] eqn:El; [|discriminate]. injection H1 as <- <-.
        specialize (IH _ _ _ El _ _ _ H2).
        change (Datatypes.S f1 + f2)%nat with (Datatypes.S (f1 + f2)). cbn [loop_time].
        assert (Eb : before T s = true).
        { unfold before in *. destruct (date s) as [d|]; [|discriminate]. apply Z.ltb_lt in E. apply Z.ltb_lt. lia. }
        rewrite Eb, IH. destruct (date s); reflexivity.
      + injection H1 as <- <-. apply (loop_time_fuel T f2 s _ H2). lia.
  Qed.

  Theorem until_time_split T1 T : T1 <= T -> forall f1 s ds1 r1, until_time T1 f1 s = Some (ds1, r1) ->
    pick r1 = r1 ->
    forall f2 ds2 r2, until_time T f2 r1 = Some (ds2, r2) ->
    until_time T (f1 + f2) s = Some (ds1 ++ ds2, r2).
  Proof.
    intros HT f1 s ds1 r1 H1 Hp f2 ds2 r2 H2. unfold until_time in *. rewrite Hp in H2.
    eapply loop_time_split; eauto.
  Qed.

  (* and conversely: what one call executes is what the two calls execute *)
  Theorem until_time_split_unique T1 T : T1 <= T -> forall f1 s ds1 r1, until_time T1 f1 s = Some (ds1, r1) ->
    pick r1 = r1 ->
    forall f2 ds2 r2, until_time T f2 r1 = Some (ds2, r2) ->
    forall f x, until_time T f s = Some x -> x = (ds1 ++ ds2, r2).
  Proof.
    intros HT f1 s ds1 r1 H1 Hp f2 ds2 r2 H2 f x Hx.
    pose proof (until_time_split T1 T HT _ _ _ _ H1 Hp _ _ _ H2) as H.
    unfold until_time in *.
    pose proof (loop_time_fuel T _ _ _ H (f1 + f2 + f)%nat ltac:(lia)) as A.
    pose proof (loop_time_fuel T _ _ _ Hx (f1 + f2 + f)%nat ltac:(lia)) as B.
    congruence.
  Qed.
End Loop.

(* non-vacuity: a toy engine whose events are at dates 3, 6, 9, ... *)
Example loop_example :
  until_time Z (fun s => s) (fun s => s + 3) (fun s => Some s) 10 5 3 = Some ([3; 6; 9], 12) /\
  until_time Z (fun s => s) (fun s => s + 3) (fun s => Some s) 7 5 3 = Some ([3; 6], 9) /\
  until_time Z (fun s => s) (fun s => s + 3) (fun s => Some s) 10 5 9 = Some ([9], 12).
Proof. vm_compute. repeat split. Qed.

(* Sched.v -- model of ciw/schedules.py: the cyclic generator of Schedule and Slotted,
   the Schedule object's state machine (initialise / get_next_shift), closed forms and
   monotonicity.  Dates are integer ticks. *)
From Coq Require Import ZArith List Lia Arith.
Import ListNotations.
Open Scope Z_scope.

Section Sched.
Variable b : list Z.           (* shift_end_dates / slots *)
Variable v : list Z.           (* numbers_of_servers / slot sizes *)
Variable off : Z.
Definition n : nat := length b.
Definition cyc : Z := last b 0.          (* cyclelength = boundaries[-1] *)

(* get_schedule_generator: value yielded at the k-th call of next(), k = 0,1,2,...;
   literally  offset + boundaries[index % n] + (index // n) * cyclelength  and
   values[(index+1) % n]  (index is incremented between the two) *)
Definition gen_date (k : nat) : Z := off + nth (k mod n) b 0 + Z.of_nat (k / n) * cyc.
Definition gen_c (k : nat) : Z := nth ((k + 1) mod n) v 0.

(* the Schedule object: (c, next_shift_change_date, next_c, generator index) *)
Record sstate := mkS { s_c : Z; s_next_date : Z; s_next_c : Z; s_index : nat }.
Definition initialise : sstate := mkS 0 off (nth 0 v 0) 0.
Definition get_next_shift (s : sstate) : sstate :=
  mkS (s_next_c s) (gen_date (s_index s)) (gen_c (s_index s)) (S (s_index s)).

(* dates of the shift changes as the node experiences them: change 0 at `off`,
   change k+1 at the k-th yielded date; servers on duty after change k: v[k mod n] *)
Definition D (k : nat) : Z := match k with O => off | S j => gen_date j end.
Definition C (k : nat) : Z := nth (k mod n) v 0.

Hypothesis n_pos : (0 < n)%nat.

Lemma C_succ k : C (S k) = gen_c k.
Proof. unfold C, gen_c. f_equal. f_equal. lia. Qed.

(* closed form of the object's state after k shift changes *)
Fixpoint run_shifts (k : nat) : sstate :=
  match k with O => initialise | S j => get_next_shift (run_shifts j) end.

Theorem sched_after k :
  run_shifts k =
  mkS (match k with O => 0 | S j => C j end) (D k) (C k) k.
Proof.
  induction k as [|k IH].
  - cbn. unfold C. rewrite Nat.mod_small by lia. reflexivity.
  - cbn [run_shifts]. rewrite IH. unfold get_next_shift; cbn [s_next_c s_index]. f_equal.
    symmetry. apply C_succ.
Qed.

Hypothesis b_pos : forall i, (i < n)%nat -> 0 < nth i b 0.
Hypothesis b_inc : forall i j, (i < j < n)%nat -> nth i b 0 < nth j b 0.

Lemma last_is_nth (l : list Z) : last l 0 = nth (length l - 1) l 0.
Proof.
  induction l as [|x l IH]; [reflexivity|]. destruct l as [|y l']; [reflexivity|].
  change (last (x :: y :: l') 0) with (last (y :: l') 0). rewrite IH. simpl length.
  replace (S (S (length l')) - 1)%nat with (S (S (length l') - 1))%nat by lia. reflexivity.
Qed.
Lemma cyc_last : cyc = nth (n - 1) b 0.
Proof. unfold cyc, n. apply last_is_nth. Qed.
Lemma cyc_pos : 0 < cyc.
Proof. rewrite cyc_last. apply b_pos. lia. Qed.

(* the generator's dates increase strictly: no shift change or slot is scheduled in the past *)
Theorem gen_date_increasing k : gen_date k < gen_date (S k).
Proof.
  unfold gen_date.
  assert (Hn : n <> O) by lia.
  pose proof (Nat.div_mod k n Hn) as Hk. pose proof (Nat.mod_upper_bound k n Hn) as Hm.
  destruct (Nat.eq_dec (k mod n) (n - 1)) as [E|E].
  - assert (H1 : (S k mod n = 0)%nat /\ (S k / n = S (k / n))%nat).
    { assert (S k = (S (k / n)) * n + 0)%nat by nia.
      split; [rewrite H; rewrite Nat.add_0_r; apply Nat.mod_mul; lia | rewrite H; rewrite Nat.add_0_r; apply Nat.div_mul; lia]. }
    destruct H1 as [-> ->]. rewrite E. rewrite <- cyc_last.
    pose proof (b_pos 0%nat n_pos). pose proof cyc_pos. nia.
  - assert (H1 : (S k mod n = S (k mod n))%nat /\ (S k / n = k / n)%nat).
    { assert (S k = (k / n) * n + S (k mod n))%nat by nia.
      split; rewrite H.
      - rewrite Nat.add_comm, Nat.mod_add by lia. apply Nat.mod_small. lia.
      - rewrite Nat.add_comm, Nat.div_add by lia. rewrite Nat.div_small by lia. reflexivity. }
    destruct H1 as [-> ->].
    assert (nth (k mod n) b 0 < nth (S (k mod n)) b 0) by (apply b_inc; lia). lia.
Qed.

Corollary D_increasing k : 0 <= off -> D k < D (S k).
Proof.
  intros Ho. destruct k as [|j]; [|apply gen_date_increasing].
  simpl. unfold gen_date. rewrite Nat.mod_small, Nat.div_small by lia. pose proof (b_pos 0%nat n_pos). lia.
Qed.

Corollary D_mono : 0 <= off -> forall i j, (i < j)%nat -> D i < D j.
Proof.
  intros Ho i j Hij. induction Hij; [apply D_increasing; exact Ho|].
  pose proof (D_increasing m Ho). lia.
Qed.

(* the timetable: servers on duty at time t = value of the shift that contains t *)
Fixpoint shift_index (fuel : nat) (k : nat) (t : Z) : option nat :=
  match fuel with
  | O => None
  | S f => if t <? D (S k) then Some k else shift_index f (S k) t
  end.
Definition timetable (fuel : nat) (t : Z) : option Z :=
  if t <? off then Some 0 else option_map C (shift_index fuel 0 t).

Lemma shift_index_spec : 0 <= off -> forall fuel k0 k t,
  (k0 <= k)%nat -> (k < k0 + fuel)%nat -> D k <= t -> t < D (S k) -> D k0 <= t ->
  shift_index fuel k0 t = Some k.
Proof.
  intros Ho. induction fuel as [|f IH]; intros k0 k t H1 H2 H3 H4 H5; [lia|].
  cbn [shift_index]. destruct (t <? D (S k0)) eqn:E.
  - apply Z.ltb_lt in E. f_equal.
    destruct (Nat.eq_dec k0 k) as [|Hne]; [assumption|].
    assert (D (S k0) <= D k).
    { destruct (Nat.eq_dec (S k0) k) as [->|]; [lia|]. apply Z.lt_le_incl. apply D_mono; [exact Ho|lia]. }
    lia.
  - apply Z.ltb_ge in E. apply IH; try lia.
    destruct (Nat.eq_dec k0 k) as [->|]; lia.
Qed.

(* between shift change k and shift change k+1 exactly v[k mod n] servers are scheduled *)
Theorem timetable_spec : 0 <= off -> forall fuel k t,
  (k < fuel)%nat -> D k <= t -> t < D (S k) -> timetable fuel t = Some (C k).
Proof.
  intros Ho fuel k t Hk H1 H2. unfold timetable.
  assert (off <= t). { destruct k; [exact H1|]. pose proof (D_mono Ho 0%nat (S k) ltac:(lia)). cbn [D] in *. lia. }
  destruct (t <? off) eqn:E; [apply Z.ltb_lt in E; lia|].
  rewrite (shift_index_spec Ho fuel 0%nat k t); [reflexivity|lia|lia|exact H1|exact H2|exact H].
Qed.
End Sched.

(* Slotted: the k-th slot (k = 0,1,...) is at gen_date slots off k with size sizes[k mod n];
   the implementation feeds the generator the rotated list next_slot_sizes *)
Definition rotate_right (l : list Z) : list Z :=
  match rev l with [] => [] | x :: r => x :: rev r end.
Definition slot_date (slots : list Z) (off : Z) (k : nat) : Z := gen_date slots off k.
Definition slot_size (sizes : list Z) (k : nat) : Z := nth (k mod length sizes) sizes 0.

(* well-formedness of a timetable, executable *)
Fixpoint increasing_pos (prev : Z) (l : list Z) : bool :=
  match l with [] => true | x :: r => (prev <? x) && increasing_pos x r end.
Definition wf_sched (b v : list Z) (off : Z) : bool :=
  (0 <=? off) && Nat.eqb (length b) (length v) && negb (Nat.eqb (length b) 0) && increasing_pos 0 b.

Lemma increasing_pos_nth : forall l prev, increasing_pos prev l = true ->
  (forall i, (i < length l)%nat -> prev < nth i l 0) /\
  (forall i j, (i < j < length l)%nat -> nth i l 0 < nth j l 0).
Proof.
  induction l as [|x r IH]; intros prev H; cbn in *.
  - split; intros; lia.
  - apply andb_prop in H as [H1 H2]. apply Z.ltb_lt in H1. destruct (IH _ H2) as [A B]. split.
    + intros [|i] Hi; [exact H1|]. specialize (A i ltac:(lia)). lia.
    + intros [|i] [|j] Hij; try lia.
      * apply A. lia.
      * apply B. lia.
Qed.

Theorem wf_dates_increasing b v off : wf_sched b v off = true -> forall i j, (i < j)%nat -> D b off i < D b off j.
Proof.
  unfold wf_sched. intros H. apply andb_prop in H as [H H4]. apply andb_prop in H as [H H3].
  apply andb_prop in H as [H1 H2]. apply Z.leb_le in H1.
  apply Bool.negb_true_iff in H3. apply Nat.eqb_neq in H3.
  destruct (increasing_pos_nth _ _ H4) as [A B].
  intros i j Hij. apply D_mono; auto; unfold n; try lia.
Qed.

Print Assumptions gen_date_increasing.
(* the documented example: [2,0,1] until [10,30,100], offset 7 *)
Example doc_example :
  map (D [10;30;100] 7) [0;1;2;3;4;5]%nat = [7;17;37;107;117;137] /\
  map (C [10;30;100] [2;0;1]) [0;1;2;3;4]%nat = [2;0;1;2;0] /\
  timetable [10;30;100] [2;0;1] 7 20 40 = Some 1.
Proof. vm_compute. repeat split; reflexivity. Qed.

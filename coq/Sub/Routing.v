(* Routing.v -- models of auxiliary.random_choice (uniform and weighted) and of the
   join-shortest-queue / load-balancing choice, with their specifications.
   Probabilities are integers in units of 1/den (the generators use den = 8, dyadic, so the float
   arithmetic of the implementation is exact); a uniform draw u is its numerator U over 2^53. *)
From Coq Require Import ZArith List Bool Lia.
Import ListNotations.
Open Scope Z_scope.

Definition two53 : Z := 9007199254740992.

(* while rdm_num > p: i += 1; p += probs[i]  -- None = IndexError (ran off the end) *)
Fixpoint rc_loop (den U : Z) (p : Z) (rest : list Z) (i : nat) : option nat :=
  if den * U >? p * two53 then
    match rest with
    | [] => None
    | q :: r => rc_loop den U (p + q) r (S i)
    end
  else Some i.

Definition all_zero (l : list Z) : bool := forallb (Z.eqb 0) l.

(* (index chosen, draw consumed?) *)
Definition rc_weighted (den : Z) (P : list Z) (U : Z) : option (nat * bool) :=
  match P with
  | [] => None
  | p0 :: rest =>
    if (negb (Nat.eqb (length rest) 0)) && all_zero (removelast P) && (last P 0 =? den)
    then Some (length rest, false)                 (* shortcut: no sampling when the last entry is certain *)
    else match rc_loop den U p0 rest 0 with Some i => Some (i, true) | None => None end
  end.

Definition rc_uniform (len : nat) (U : Z) : nat := Z.to_nat ((U * Z.of_nat len) / two53).

(* ---- specification of the weighted choice ---- *)
Lemma rc_loop_spec den U : 0 < den -> forall rest p i k,
  rc_loop den U p rest i = Some k ->
  (i <= k)%nat /\ (k - i <= length rest)%nat /\
  den * U <= (p + fold_right Z.add 0 (firstn (k - i) rest)) * two53 /\
  (k <> i -> den * U > (p + fold_right Z.add 0 (firstn (k - i - 1) rest)) * two53).
Proof.
  intros Hden. induction rest as [|q r IH]; intros p i k H; cbn [rc_loop] in H.
  - destruct (den * U >? p * two53) eqn:E; [discriminate|]. injection H as <-.
    rewrite Nat.sub_diag. cbn. rewrite Z.gtb_ltb in E. apply Z.ltb_ge in E.
    repeat split; try lia; try (intros N; congruence).
  - destruct (den * U >? p * two53) eqn:E.
    + apply IH in H. destruct H as (A & B & C & D).
      assert (Ek : (k - i = S (k - S i))%nat) by lia.
      split; [lia|]. split; [cbn [length]; lia|]. split.
      * rewrite Ek. cbn [firstn fold_right]. rewrite Z.add_assoc. exact C.
      * intros _. destruct (Nat.eq_dec k (S i)) as [->|Hne].
        -- replace (S i - i - 1)%nat with 0%nat by lia. cbn. apply Z.gtb_lt in E. lia.
        -- specialize (D Hne). replace (k - i - 1)%nat with (S (k - S i - 1)) by lia.
           cbn [firstn fold_right]. rewrite Z.add_assoc. exact D.
    + injection H as <-. rewrite Nat.sub_diag. cbn.
      rewrite Z.gtb_ltb in E. apply Z.ltb_ge in E. repeat split; try lia; try (intros N; congruence).
Qed.

(* for a positive draw the entry chosen by the cumulative loop has positive probability *)
Theorem rc_weighted_positive den P U k b :
  0 < den -> 0 < U -> Forall (fun p => 0 <= p) P ->
  rc_weighted den P U = Some (k, b) -> (k < length P)%nat /\ 0 < nth k P 0.
Proof.
  intros Hden HU Hpos H. unfold rc_weighted in H. destruct P as [|p0 rest]; [discriminate|].
  destruct ((negb (Nat.eqb (length rest) 0)) && all_zero (removelast (p0 :: rest)) && (last (p0 :: rest) 0 =? den)) eqn:Esc.
  - injection H as <- <-. apply andb_true_iff in Esc as [Esc E3]. apply Z.eqb_eq in E3.
    split; [cbn; lia|].
    assert (Hn : nth (length rest) (p0 :: rest) 0 = last (p0 :: rest) 0).
    { clear. revert p0. induction rest as [|a r IH]; intros p0; [reflexivity|].
      change (nth (length (a :: r)) (p0 :: a :: r) 0) with (nth (length r) (a :: r) 0). rewrite IH. reflexivity. }
    rewrite Hn, E3. exact Hden.
  - destruct (rc_loop den U p0 rest 0) as [i|] eqn:El; [|discriminate]. injection H as <- <-.
    apply rc_loop_spec in El; [|exact Hden]. destruct El as (_ & B & C & D).
    rewrite Nat.sub_0_r in *. split; [cbn; lia|].
    destruct i as [|j].
    + cbn in *. assert (0 < two53) by (unfold two53; lia). nia.
    + specialize (D ltac:(lia)). replace (S j - 1)%nat with j in D by lia.
      cbn [nth].
      (* firstn (S j) rest = firstn j rest ++ [nth j rest 0] when j < length rest *)
      assert (Hs : fold_right Z.add 0 (firstn (S j) rest) = fold_right Z.add 0 (firstn j rest) + nth j rest 0).
      { clear -B. revert j B. induction rest as [|a r IH]; intros j B; [cbn in B; lia|].
        destruct j as [|j]; [cbn; lia|]. change (firstn (S (S j)) (a :: r)) with (a :: firstn (S j) r).
        change (firstn (S j) (a :: r)) with (a :: firstn j r). change (nth (S j) (a :: r) 0) with (nth j r 0).
        cbn [fold_right]. rewrite IH by (cbn in B; lia). lia. }
      rewrite Hs in C. assert (0 < two53) by (unfold two53; lia). nia.
Qed.

(* the known exception (finding F-09a): a draw of exactly 0 selects a zero-probability first entry *)
Example rc_weighted_refuted_at_zero : rc_weighted 8 [0; 4; 4] 0 = Some (0%nat, true).
Proof. reflexivity. Qed.

(* when the probabilities sum to den and u < 1 the loop never runs off the end *)
Theorem rc_weighted_total den P U :
  0 < den -> 0 <= U < two53 -> P <> [] -> fold_right Z.add 0 P = den -> exists r, rc_weighted den P U = Some r.
Proof.
  intros Hden HU Hne Hsum. unfold rc_weighted. destruct P as [|p0 rest]; [congruence|].
  destruct (_ && _ && _); [eauto|].
  assert (G : forall rest p i, p + fold_right Z.add 0 rest = den -> exists k, rc_loop den U p rest i = Some k).
  { clear -Hden HU. induction rest as [|q r IH]; intros p i Hs; cbn [rc_loop].
    - cbn in Hs. destruct (den * U >? p * two53) eqn:E; [|eauto].
      apply Z.gtb_lt in E. assert (p = den) by lia. subst p. nia.
    - destruct (den * U >? p * two53); [|eauto]. apply IH. cbn in Hs. lia. }
  destruct (G rest p0 0%nat) as [k Hk]; [cbn in Hsum; lia|]. rewrite Hk. eauto.
Qed.

Theorem rc_uniform_in_range len U : (0 < len)%nat -> 0 <= U < two53 -> (rc_uniform len U < len)%nat.
Proof.
  intros Hl HU. unfold rc_uniform.
  assert (H : U * Z.of_nat len / two53 < Z.of_nat len).
  { apply Z.div_lt_upper_bound; [unfold two53; lia|]. nia. }
  assert (0 <= U * Z.of_nat len / two53) by (apply Z.div_pos; [nia|unfold two53; lia]).
  lia.
Qed.

(* ---- join shortest queue / load balancing: the candidates are exactly the minimisers ---- *)
Definition zmin_list (l : list Z) (d : Z) : Z := fold_right Z.min d l.
Fixpoint argmins_from (sizes : list Z) (m : Z) (i : nat) : list nat :=
  match sizes with
  | [] => []
  | s :: r => if s =? m then i :: argmins_from r m (S i) else argmins_from r m (S i)
  end.
Definition argmins (sizes : list Z) : list nat :=
  match sizes with [] => [] | s :: r => argmins_from sizes (zmin_list r s) 0 end.

Lemma zmin_list_le l d : zmin_list l d <= d /\ forall x, In x l -> zmin_list l d <= x.
Proof.
  induction l as [|a l IH]; [cbn; split; [lia|tauto]|]. destruct IH as [A B].
  change (zmin_list (a :: l) d) with (Z.min a (zmin_list l d)).
  split; [lia|]. intros x [->|Hx]; [lia|specialize (B x Hx); lia].
Qed.
Lemma zmin_list_in l d : zmin_list l d = d \/ In (zmin_list l d) l.
Proof.
  induction l as [|a l IH]; [cbn; auto|]. change (zmin_list (a :: l) d) with (Z.min a (zmin_list l d)).
  destruct (Z.min_spec a (zmin_list l d)) as [[_ ->]|[_ ->]]; [right; left; reflexivity|]. destruct IH as [->|IH]; [auto|right; right; exact IH].
Qed.

Lemma argmins_from_spec sizes m i k : In k (argmins_from sizes m i) <-> (i <= k)%nat /\ nth_error sizes (k - i) = Some m.
Proof.
  revert i; induction sizes as [|s r IH]; intros i; cbn [argmins_from].
  - split; [intros H; destruct H|]. intros [_ H]. destruct (k - i)%nat; discriminate.
  - destruct (s =? m) eqn:E.
    + apply Z.eqb_eq in E. subst s. cbn [In]. rewrite IH. split.
      * intros [<-|[A B]]; [rewrite Nat.sub_diag; split; [lia|reflexivity]|].
        split; [lia|]. replace (k - i)%nat with (S (k - S i)) by lia. exact B.
      * intros [A B]. destruct (Nat.eq_dec i k) as [->|N]; [auto|right]. split; [lia|].
        replace (k - i)%nat with (S (k - S i)) in B by lia. exact B.
    + apply Z.eqb_neq in E. rewrite IH. split.
      * intros [A B]. split; [lia|]. replace (k - i)%nat with (S (k - S i)) by lia. exact B.
      * intros [A B]. destruct (Nat.eq_dec i k) as [->|N]; [rewrite Nat.sub_diag in B; cbn in B; congruence|].
        split; [lia|]. replace (k - i)%nat with (S (k - S i)) in B by lia. exact B.
Qed.

(* every candidate attains the minimum, every minimiser is a candidate, and there is one when the list is not empty *)
Theorem argmins_spec sizes k :
  In k (argmins sizes) <-> exists s, nth_error sizes k = Some s /\ forall x, In x sizes -> s <= x.
Proof.
  unfold argmins. destruct sizes as [|s0 r]; [cbn; split; [tauto|intros [s [H _]]; destruct k; discriminate]|].
  rewrite argmins_from_spec, Nat.sub_0_r.
  pose proof (zmin_list_le r s0) as [A B]. pose proof (zmin_list_in r s0) as C.
  split.
  - intros [_ H]. exists (zmin_list r s0). split; [exact H|]. intros x [<-|Hx]; auto.
  - intros [s [H Hmin]]. split; [lia|]. rewrite H. f_equal.
    assert (s <= zmin_list r s0) by (destruct C as [->|Hc]; [apply Hmin; left; reflexivity|apply Hmin; right; exact Hc]).
    assert (zmin_list r s0 <= s) by (apply nth_error_In in H; destruct H as [<-|Hx]; auto).
    lia.
Qed.
Theorem argmins_nonempty sizes : sizes <> [] -> argmins sizes <> [].
Proof.
  intros Hne. destruct sizes as [|s0 r]; [congruence|]. unfold argmins.
  pose proof (zmin_list_in r s0) as C.
  assert (exists k, nth_error (s0 :: r) k = Some (zmin_list r s0)) as [k Hk].
  { destruct C as [->|Hc]; [exists 0%nat; reflexivity|]. apply In_nth_error in Hc. destruct Hc as [k Hk]. exists (S k). exact Hk. }
  intros E. assert (In k (argmins_from (s0 :: r) (zmin_list r s0) 0)) by (apply argmins_from_spec; rewrite Nat.sub_0_r; split; [lia|exact Hk]).
  rewrite E in H. destruct H.
Qed.

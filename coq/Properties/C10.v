(* Property C10 -- statements only. *)
From Coq Require Import ZArith List.
From CiwV Require Import Sx Acc.C10.

(* T1: every event list the acceptor accepts, of any length, satisfies C10: arrivals at the partial
   sums of the inter-arrival samples (one sample per arrival, none lost), customers created = sampled
   batch sizes, every uninterrupted service lasts exactly the time sampled for that customer at its
   start, and a sample that is not a non-negative number ends the run with an error. *)
Theorem C10_sound : forall es raised stt, C10.acc es raised = Accept stt -> C10.P_C10 es raised.
Proof. exact C10.C10_sound. Qed.
Print Assumptions C10_sound.

(* ---- T2: the engine model (coq/Engine, tied to /repo by the stepwise correspondence check K2) honours the samples ---- *)
From Coq Require Import ZArith List.
From CiwV.Engine Require Import State Engine Codec.
From CiwV.Inv Require Import Frame Samples.
Import ListNotations.
Open Scope Z_scope.

(* an arrival event creates exactly the sampled batch size of customers (a non-negative integer) and moves the stream
   that fired on by exactly the sampled inter-arrival time; no other stream's date changes *)
Theorem arrival_have_event_spec : forall cf s s', Engine.arrival_have_event cf s = Ok (tt, s') ->
  exists b ia row old,
    hd_error (d_batch (dr s)) = Some b /\ 0 <= b /\ a_created (arr s') = a_created (arr s) + b /\
    hd_error (d_arr (dr s)) = Some ia /\
    Engine.nthZ (a_dates (arr s)) (a_next_node (arr s) - 1) = Some row /\ Engine.nthZ row (a_next_cls (arr s)) = Some old /\
    a_dates (arr s') = Engine.updZ (a_dates (arr s)) (a_next_node (arr s) - 1)
                         (Engine.updZ row (a_next_cls (arr s)) (match old with Some o => Some (o + ia) | None => None end)).
Proof. exact Samples.arrival_have_event_spec. Qed.
Print Assumptions arrival_have_event_spec.

(* a negative batch size is an error, not a silently corrupted run *)
Theorem negative_batch_is_an_error : forall cf s b r, d_batch (dr s) = b :: r -> b < 0 -> Engine.arrival_have_event cf s = Err E_Batch.
Proof. exact Samples.negative_batch_is_an_error. Qed.
Print Assumptions negative_batch_is_an_error.

(* service completions never touch the arrival node: arrival dates are the partial sums of the inter-arrival samples alone *)
Theorem finish_service_keeps_arrivals : forall cf j s s', Engine.finish_service cf j s = Ok (tt, s') -> arr s' = arr s.
Proof. exact Samples.finish_service_keeps_arrivals. Qed.
Print Assumptions finish_service_keeps_arrivals.

(* a service start stamps start = now, the sampled duration, end = start + duration, and the same end on the server *)
Theorem start_service_spec : forall j i srv s s', Frame.Idx s -> Engine.start_service j i srv s = Ok (tt, s') ->
  exists st x,
    hd_error (d_svc (dr s)) = Some st /\
    Engine.find_ind i (inds s') = Some x /\ i_sst x = Some (now s) /\ i_stime x = Some st /\ i_send x = Some (now s + st) /\
    (forall sv, srv = Some sv -> i_server x = Some (sv_id sv) /\
       exists nd nd', Engine.nthZ (nodes s) (j - 1) = Some nd /\ Engine.nthZ (nodes s') (j - 1) = Some nd' /\
         (Engine.find_server (sv_id sv) (n_servers nd) <> None ->
          exists sv', Engine.find_server (sv_id sv) (n_servers nd') = Some sv' /\ sv_cust sv' = Some i /\ sv_busy sv' = true /\ sv_next_end sv' = Some (now s + st))).
Proof. exact Samples.start_service_spec. Qed.
Print Assumptions start_service_spec.

(* the stamps stay consistent over any number of events, for every configuration and every oracle *)
Theorem run_many_svc : forall cf ds s s', Samples.SvcInv s -> Codec.run_many cf s ds = Ok s' -> Samples.SvcInv s'.
Proof. exact Samples.run_many_svc. Qed.
Print Assumptions run_many_svc.
Theorem SvcInv_means : forall s x t0, Samples.SvcInv s -> In x (inds s) -> i_sst x = Some t0 ->
  exists st, i_stime x = Some st /\ i_send x = Some (t0 + st).
Proof. exact Samples.SvcInv_means. Qed.
Print Assumptions SvcInv_means.

(* and the record written at release shows exactly that duration *)
Theorem record_shows_sampled_time : forall cf j x s s' t0, Samples.svc_okb x = true -> i_sst x = Some t0 ->
  Engine.write_individual_record cf j x s = Ok (tt, s') ->
  exists r pre, log s' = pre ++ [r] /\ r_id r = i_id x /\ r_type r = 0 /\ r_stime r = i_stime x /\ r_sst r = Some t0 /\ r_send r = i_send x.
Proof. exact Samples.record_shows_sampled_time. Qed.
Print Assumptions record_shows_sampled_time.

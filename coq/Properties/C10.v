(* Property C10 -- statements only. *)
From Coq Require Import ZArith List.
From CiwV Require Import Sx Acc.C10.

(* T1: every event list the acceptor accepts, of any length, satisfies C10: arrivals at the partial
   sums of the inter-arrival samples (one sample per arrival, none lost), customers created = sampled
   batch sizes, every uninterrupted service lasts exactly the time sampled for that customer at its
   start, and a sample that is not a non-negative number ends the run with an error. *)
Theorem C10_sound : forall es raised stt, C10.acc es raised = Accept stt -> C10.P_C10 es raised.
Proof. exact C10.C10_sound. Qed.
Print Assumptions C10_sound.

(* Property C19 -- statements only.
   Model: Sub/PS.v (one PS node, capacity K = Some k | None, threshold R, arrival list
   (id, date, work requirement), exact rationals).  [reach R K arrs s g]: s is a state of the
   model's run on arrs after some number of events and g id is the work customer id has
   received so far (sum over the elapsed inter-event intervals in which it was in service of
   dt * R / max(occupancy, R)).  [work_left R s c] = true remaining work of c at the clock of s. *)
From Coq Require Import QArith Qminmax ZArith List.
From CiwV Require Import Sx PS Acc.C19.
Import ListNotations.
Open Scope Q_scope.

(* rate R n = R / max(n, R) is min(1, R/n) *)
Theorem rate_min : forall R, 0 < R -> forall n, (0 < n)%nat -> PS.rate R n == Qmin 1 (R / PS.qocc n).
Proof. exact PS.rate_min. Qed.
Print Assumptions rate_min.

(* between two consecutive events every customer in service progresses at rate min(1, R/k),
   k = number of customers in service *)
Theorem ps_rate : forall R K, 0 < R -> match K with Some k => (1 <= k)%nat | None => True end ->
  forall arrs s g s' c c',
  PS.wf_arrs arrs -> PS.reach R K arrs s g -> PS.step R K s = Some s' ->
  In c (PS.inds s) -> PS.c_ws c = true -> In c' (PS.inds s') -> PS.cid c' = PS.cid c ->
  PS.c_ws c' = true /\
  PS.work_left R s' c' == PS.work_left R s c - Qmin 1 (R / PS.qocc (PS.occupancy s)) * (PS.now s' - PS.now s).
Proof. exact PS.ps_rate_min. Qed.
Print Assumptions ps_rate.

(* a departure happens exactly when the remaining work is 0 and then work received = requirement *)
Theorem ps_work : forall R K, 0 < R -> match K with Some k => (1 <= k)%nat | None => True end ->
  forall arrs s g s' d,
  PS.wf_arrs arrs -> PS.reach R K arrs s g -> PS.step R K s = Some s' -> PS.deps s' = d :: PS.deps s ->
  (exists c, In c (PS.inds s) /\ PS.c_ws c = true /\ PS.cid c = PS.d_id d /\ PS.c_req c = PS.d_req d /\
             PS.c_arr c = PS.d_arr d /\ PS.c_start c = PS.d_start d /\ PS.c_end c = PS.d_exit d /\
             PS.wl_at R (PS.now s') (PS.locc s) c == 0) /\
  PS.d_exit d = PS.now s' /\
  g (PS.d_id d) + PS.rate R (PS.occupancy s) * (PS.now s' - PS.now s) == PS.d_req d /\
  In (PS.d_id d, PS.d_arr d, PS.d_req d) arrs.
Proof. exact PS.ps_work. Qed.
Print Assumptions ps_work.

(* ... and not earlier: in service the remaining work is >= 0, it is 0 iff the projected end date is now,
   received + remaining = requirement *)
Theorem ps_no_early : forall R K, 0 < R -> match K with Some k => (1 <= k)%nat | None => True end ->
  forall arrs s g c,
  PS.wf_arrs arrs -> PS.reach R K arrs s g -> In c (PS.inds s) -> PS.c_ws c = true ->
  0 <= PS.work_left R s c /\ (PS.work_left R s c == 0 <-> PS.c_end c == PS.now s) /\
  g (PS.cid c) + PS.work_left R s c == PS.c_req c /\ g (PS.cid c) <= PS.c_req c.
Proof. exact PS.ps_no_early. Qed.
Print Assumptions ps_no_early.

(* at most K in service, they are the head of the line, service starts happen in arrival order *)
Theorem ps_capacity : forall R K, 0 < R -> match K with Some k => (1 <= k)%nat | None => True end ->
  forall arrs s g,
  PS.wf_arrs arrs -> PS.reach R K arrs s g ->
  exists sv wt, PS.inds s = sv ++ wt /\ PS.all_ws sv /\ PS.none_ws wt /\
    PS.occupancy s = length sv /\ length sv = PS.cap_min (length (PS.inds s)) K /\
    match K with Some k => (PS.occupancy s <= k)%nat | None => wt = [] end /\
    map fst (rev (PS.starts s)) ++ map PS.cid wt ++ map PS.a_id (PS.pend s) = map PS.a_id arrs.
Proof. exact PS.ps_capacity. Qed.
Print Assumptions ps_capacity.

(* unlimited capacity, threshold 1: total remaining work = that of the single-server FIFO queue at every
   event instant; both are out of work at the same instants *)
Theorem ps_fifo_equiv : forall R, R == 1 ->
  forall arrs s g done,
  PS.wf_arrs arrs -> PS.reach R None arrs s g -> arrs = done ++ PS.pend s ->
  PS.total_work R s == PS.fifo_work (PS.fifo_run done) (PS.now s) /\
  (PS.total_work R s == 0 <-> PS.fifo_work (PS.fifo_run done) (PS.now s) == 0).
Proof. exact PS.ps_fifo_equiv_inf. Qed.
Print Assumptions ps_fifo_equiv.

Theorem fifo_work_closed : forall l t, 0 <= t -> (forall a, In a l -> PS.a_t a <= t /\ 0 <= PS.a_w a) ->
  PS.fifo_work (PS.fifo_run l) t == Qmax 0 (PS.fifo_last 0 l - t).
Proof. exact PS.fifo_work_closed. Qed.
Print Assumptions fifo_work_closed.

(* the executable run (what is extracted and compared with Ciw) is complete and reachable *)
Theorem ps_complete : forall R K, 0 < R -> match K with Some k => (1 <= k)%nat | None => True end ->
  forall arrs, PS.wf_arrs arrs ->
  let s := PS.ps_run R K arrs in
  (exists g, PS.reach R K arrs s g) /\ PS.inds s = [] /\ PS.pend s = [] /\
  length (PS.deps s) = length arrs /\ map fst (rev (PS.starts s)) = map PS.a_id arrs.
Proof. exact PS.ps_complete. Qed.
Print Assumptions ps_complete.

(* a non-trivial run: customer 1 sees the number sharing change 7 times during its service *)
Theorem ps_example_unlimited :
  map (fun d => (PS.d_id d, PS.d_start d, PS.d_exit d)) (rev (PS.deps (PS.ps_run 1 None PS.ex_arrs))) =
  [(2%Z, 1, 4); (4%Z, 2, 4); (3%Z, 2, 20#3); (6%Z, 6, 43#6); (1%Z, 0, 53#6); (5%Z, 5, 28#3)].
Proof. exact PS.ps_example_unlimited. Qed.
Print Assumptions ps_example_unlimited.

(* acceptance by the extracted comparison means: every record of the real PS node carries the model's dates *)
Theorem C19_accept_sound : forall K R arrs recs snaps fifo hz stt,
  C19.acc K R arrs recs snaps fifo hz = Accept stt ->
  let fin := PS.ps_run R K arrs in
  PS.inds fin = [] /\ PS.pend fin = [] /\
  (hz = None -> length recs = length arrs) /\
  (forall h d, hz = Some h -> In d (PS.deps fin) -> PS.d_exit d < h -> exists r, In r recs /\ C19.r_id r = PS.d_id d) /\
  forall r, In r recs -> exists d, C19.find_dep (C19.r_id r) (PS.deps fin) = Some d /\
    C19.r_arr r == PS.d_arr d /\ C19.r_start r == PS.d_start d /\ C19.r_exit r == PS.d_exit d.
Proof. exact C19.C19_accept_sound. Qed.
Print Assumptions C19_accept_sound.

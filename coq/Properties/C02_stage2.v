(* Property C02 -- statements about the STAGE-2 engine model (coq/Engine/Engine2.v), statements only; proofs in coq/Inv/Clock2.v.
   The model is tied to /repo by the stepwise correspondence check K2 (harness/engine_k2b.py). *)
From Coq Require Import ZArith List Bool Permutation.
From CiwV Require Import Sx Prelude Routing Sched.
From CiwV.Engine Require Import State2 Engine2 Codec2.
From CiwV.Inv Require Clock2 Renege2 Preempt2.
Import ListNotations.
Open Scope Z_scope.

Theorem event_step_clk2 :
  forall (cf : State2.config) (s : State2.sim) 
         (d : State2.draws) (s' : State2.sim),
       Clock2.scope cf = true ->
       Clock2.Clk2 cf s ->
       Clock2.DrawsOK d ->
       Engine2.event_step cf
         (RecordSet.set State2.dr (fun _ : State2.draws => d) s) =
       State2.Ok (tt, s') ->
       Clock2.Clk2 cf s' /\ BinInt.Z.le (State2.now s) (State2.now s').
Proof. exact Clock2.event_step_clk2. Qed.
Print Assumptions event_step_clk2.

Theorem run_many_clk2 :
  forall cf : State2.config,
       Clock2.scope cf = true ->
       forall (ds : list State2.draws) (s s' : State2.sim),
       Clock2.Clk2 cf s ->
       List.Forall Clock2.DrawsOK ds ->
       Codec2.run_many cf s ds = State2.Ok s' ->
       Clock2.Clk2 cf s' /\ BinInt.Z.le (State2.now s) (State2.now s').
Proof. exact Clock2.run_many_clk2. Qed.
Print Assumptions run_many_clk2.

Theorem run_many_monotone2 :
  forall cf : State2.config,
       Clock2.scope cf = true ->
       forall (ds1 ds2 : list State2.draws) (s s1 s2 : State2.sim),
       Clock2.Clk2 cf s ->
       List.Forall Clock2.DrawsOK ds1 ->
       List.Forall Clock2.DrawsOK ds2 ->
       Codec2.run_many cf s ds1 = State2.Ok s1 ->
       Codec2.run_many cf s1 ds2 = State2.Ok s2 ->
       BinInt.Z.le (State2.now s) (State2.now s1) /\
       BinInt.Z.le (State2.now s1) (State2.now s2).
Proof. exact Clock2.run_many_monotone2. Qed.
Print Assumptions run_many_monotone2.

Theorem Clk2_means :
  forall (cf : State2.config) (s : State2.sim),
       Clock2.Clk2 cf s ->
       (forall (row : list (option BinNums.Z)) (e : BinNums.Z),
        List.In row (State2.a_dates (State2.arr s)) ->
        List.In (Some e) row -> BinInt.Z.le (State2.now s) e) /\
       (forall (row : list (option BinNums.Z)) (d : option BinNums.Z),
        List.In row (State2.a_dates (State2.arr s)) ->
        List.In d row -> Renege2.dle (State2.a_next_date (State2.arr s)) d) /\
       Clock2.Loc (State2.arr s) /\
       (forall (nd : State2.node) (e : BinNums.Z),
        List.In nd (State2.nodes s) ->
        State2.n_next_date nd = Some e -> BinInt.Z.le (State2.now s) e) /\
       (forall (nd : State2.node) (nc : State2.ncfg) 
          (sv : State2.server) (e : BinNums.Z),
        List.In nd (State2.nodes s) ->
        Engine2.nthZ (State2.cf_nodes cf)
          (BinInt.Z.sub (State2.n_id nd) (BinNums.Zpos BinNums.xH)) = 
        Some nc ->
        Engine2.nd_inf nd = false ->
        Engine2.nc_slotted nc = false ->
        List.In sv (State2.n_servers nd) ->
        State2.sv_next_end sv = Some e -> BinInt.Z.le (State2.now s) e) /\
       (forall (nd : State2.node) (nc : State2.ncfg) (sc : State2.schedcfg),
        List.In nd (State2.nodes s) ->
        Engine2.nthZ (State2.cf_nodes cf)
          (BinInt.Z.sub (State2.n_id nd) (BinNums.Zpos BinNums.xH)) = 
        Some nc ->
        State2.nc_srv nc = State2.SSched sc ->
        State2.n_next_shift nd =
        Some
          (Sched.D (State2.sc_b sc) (State2.sc_off sc)
             (BinInt.Z.to_nat (State2.n_spos nd))) /\
        BinInt.Z.le (State2.now s)
          (Sched.D (State2.sc_b sc) (State2.sc_off sc)
             (BinInt.Z.to_nat (State2.n_spos nd)))) /\
       (forall (nd : State2.node) (nc : State2.ncfg) (sl : State2.slotcfg),
        List.In nd (State2.nodes s) ->
        Engine2.nthZ (State2.cf_nodes cf)
          (BinInt.Z.sub (State2.n_id nd) (BinNums.Zpos BinNums.xH)) = 
        Some nc ->
        State2.nc_srv nc = State2.SSlot sl ->
        BinInt.Z.le (State2.now s)
          (Clock2.slotdate sl (BinInt.Z.to_nat (State2.n_spos nd)))) /\
       (forall (nd : State2.node) (nc : State2.ncfg) 
          (i : BinNums.Z) (x : State2.ind) (z : BinNums.Z),
        List.In nd (State2.nodes s) ->
        Engine2.nthZ (State2.cf_nodes cf)
          (BinInt.Z.sub (State2.n_id nd) (BinNums.Zpos BinNums.xH)) = 
        Some nc ->
        State2.nc_reneging nc = true ->
        Engine2.nd_inf nd = false ->
        List.In i (Engine2.all_individuals nd) ->
        Engine2.find_ind i (State2.inds s) = Some x ->
        State2.i_server x = None ->
        State2.i_ren x = State2.XV z -> BinInt.Z.le (State2.now s) z) /\
       (forall nd : State2.node,
        List.In nd (State2.nodes s) ->
        State2.cf_dyn cf = true ->
        Engine2.nd_inf nd = false ->
        Renege2.dle (Some (State2.now s)) (State2.n_nccd nd) /\
        (forall i : BinNums.Z,
         State2.n_ncci nd = Some i -> List.In i (Engine2.all_individuals nd))) /\
       (forall (nd : State2.node) (i : BinNums.Z) 
          (x : State2.ind) (z : BinNums.Z),
        List.In nd (State2.nodes s) ->
        State2.cf_dyn cf = true ->
        Engine2.nd_inf nd = false ->
        List.In i (Engine2.all_individuals nd) ->
        Engine2.find_ind i (State2.inds s) = Some x ->
        State2.i_server x = None ->
        State2.i_ccd x = State2.XV z ->
        BinInt.Z.le (State2.now s) z /\
        Renege2.dle (State2.n_nccd nd) (Some z)) /\
       (forall nd : State2.node,
        List.In nd (State2.nodes s) ->
        State2.cf_dyn cf = true ->
        State2.n_next_type nd = BinNums.Zpos (BinNums.xI BinNums.xH) ->
        Engine2.nd_inf nd = false /\
        State2.n_next_inds nd =
        match State2.n_ncci nd with
        | Some i => (i :: nil)%list
        | None => nil
        end) /\
       (State2.next_active s = BinNums.Z0 ->
        State2.a_next_date (State2.arr s) = Some (State2.now s) \/
        Clock2.nothing_scheduled s) /\
       (State2.next_active s <> BinNums.Z0 ->
        exists nd : State2.node,
          List.nth_error (State2.nodes s)
            (BinInt.Z.to_nat
               (BinInt.Z.sub (State2.next_active s) (BinNums.Zpos BinNums.xH))) =
          Some nd /\
          State2.n_id nd = State2.next_active s /\
          (State2.n_next_date nd = Some (State2.now s) \/
           Clock2.nothing_scheduled s)).
Proof. exact Clock2.Clk2_means. Qed.
Print Assumptions Clk2_means.

Theorem clk2_b_sound :
  forall (cf : State2.config) (s : State2.sim),
       Clock2.clk2_b cf s = true -> Clock2.Clk2 cf s.
Proof. exact Clock2.clk2_b_sound. Qed.
Print Assumptions clk2_b_sound.

Theorem clock_monotone_refuted_F02a :
  exists
         (cf : State2.config) (s : State2.sim) (ds : list State2.draws) 
       (s1 : State2.sim) (d : State2.draws) (s2 : State2.sim),
         Clock2.region cf = false /\
         Clock2.wf_times cf = true /\
         Clock2.dyn_ok cf = true /\
         Clock2.clk2_b cf s = true /\
         List.Forall Clock2.DrawsOK (ds ++ d :: nil) /\
         Codec2.run_many cf s ds = State2.Ok s1 /\
         Engine2.event_step cf
           (RecordSet.set State2.dr (fun _ : State2.draws => d) s1) =
         State2.Ok (tt, s2) /\
         BinInt.Z.le (State2.now s) (State2.now s1) /\
         BinInt.Z.lt (State2.now s2) (State2.now s1).
Proof. exact Clock2.clock_monotone_refuted_F02a. Qed.
Print Assumptions clock_monotone_refuted_F02a.

Theorem clock_monotone_refuted_F02b :
  exists
         (cf : State2.config) (s : State2.sim) (d : State2.draws) 
       (s' : State2.sim),
         Clock2.region cf = false /\
         Clock2.wf_times cf = true /\
         Clock2.dyn_ok cf = true /\
         Clock2.clk2_b cf s = true /\
         Clock2.DrawsOK d /\
         Engine2.event_step cf
           (RecordSet.set State2.dr (fun _ : State2.draws => d) s) =
         State2.Ok (tt, s') /\ BinInt.Z.lt (State2.now s') (State2.now s).
Proof. exact Clock2.clock_monotone_refuted_F02b. Qed.
Print Assumptions clock_monotone_refuted_F02b.

Theorem clock_monotone_refuted_F02c :
  exists
         (cf : State2.config) (s : State2.sim) (d : State2.draws) 
       (s' : State2.sim),
         Clock2.region cf = false /\
         Clock2.wf_times cf = true /\
         Clock2.dyn_ok cf = true /\
         Clock2.clk2_b cf s = true /\
         Clock2.DrawsOK d /\
         Engine2.event_step cf
           (RecordSet.set State2.dr (fun _ : State2.draws => d) s) =
         State2.Ok (tt, s') /\ BinInt.Z.lt (State2.now s') (State2.now s).
Proof. exact Clock2.clock_monotone_refuted_F02c. Qed.
Print Assumptions clock_monotone_refuted_F02c.

(* ---- Clock2r ---- *)
From CiwV.Inv Require Clock2r.

Theorem event_step_clk2r_partial :
  forall (cf : State2.config) (s : State2.sim) 
         (d : State2.draws) (s' : State2.sim),
       Clock2r.scope_r_partial cf = true ->
       Clock2r.Clk2r cf s ->
       Clock2.DrawsOK d ->
       Engine2.event_step cf
         (RecordSet.set State2.dr (fun _ : State2.draws => d) s) =
       State2.Ok (tt, s') ->
       Clock2r.Clk2r cf s' /\ BinInt.Z.le (State2.now s) (State2.now s').
Proof. exact Clock2r.event_step_clk2r_partial. Qed.
Print Assumptions event_step_clk2r_partial.

Theorem run_many_clk2r_partial :
  forall cf : State2.config,
       Clock2r.scope_r_partial cf = true ->
       forall (ds : list State2.draws) (s s' : State2.sim),
       Clock2r.Clk2r cf s ->
       List.Forall Clock2.DrawsOK ds ->
       Codec2.run_many cf s ds = State2.Ok s' ->
       Clock2r.Clk2r cf s' /\ BinInt.Z.le (State2.now s) (State2.now s').
Proof. exact Clock2r.run_many_clk2r_partial. Qed.
Print Assumptions run_many_clk2r_partial.

Theorem Clk2r_means_resume :
  forall (cf : State2.config) (s : State2.sim),
       Clock2r.Clk2r cf s ->
       (forall nd : State2.node,
        List.In nd (State2.nodes s) ->
        BinInt.Z.le (State2.n_lenbq nd) BinNums.Z0) /\
       (forall x : State2.ind,
        List.In x (State2.inds s) -> State2.i_blocked x = false) /\
       (forall (x : State2.ind) (tl : BinNums.Z),
        List.In x (State2.inds s) ->
        State2.i_smark x = BinNums.Zpos BinNums.xH ->
        State2.i_tleft x = Some tl -> BinInt.Z.le BinNums.Z0 tl) /\
       (forall (x : State2.ind) (st : BinNums.Z),
        List.In x (State2.inds s) ->
        State2.i_stime x = Some st -> BinInt.Z.le BinNums.Z0 st) /\
       (forall (x : State2.ind) (j : BinNums.Z) (nc : State2.ncfg),
        List.In x (State2.inds s) ->
        State2.i_node x = Some j ->
        Engine2.nthZ (State2.cf_nodes cf)
          (BinInt.Z.sub j (BinNums.Zpos BinNums.xH)) = 
        Some nc ->
        Engine2.nc_slotted nc = true ->
        State2.i_sst x <> None ->
        exists e : BinNums.Z,
          State2.i_send x = Some e /\ BinInt.Z.le (State2.now s) e).
Proof. exact Clock2r.Clk2r_means_resume. Qed.
Print Assumptions Clk2r_means_resume.

Theorem run_many_noblock_tleft_partial :
  forall cf : State2.config,
       Clock2r.scope_r_partial cf = true ->
       forall (ds : list State2.draws) (s s' : State2.sim),
       Clock2r.Clk2r cf s ->
       List.Forall Clock2.DrawsOK ds ->
       Codec2.run_many cf s ds = State2.Ok s' ->
       (forall nd : State2.node,
        List.In nd (State2.nodes s') ->
        BinInt.Z.le (State2.n_lenbq nd) BinNums.Z0) /\
       (forall x : State2.ind,
        List.In x (State2.inds s') -> State2.i_blocked x = false) /\
       (forall (x : State2.ind) (tl : BinNums.Z),
        List.In x (State2.inds s') ->
        State2.i_smark x = BinNums.Zpos BinNums.xH ->
        State2.i_tleft x = Some tl -> BinInt.Z.le BinNums.Z0 tl).
Proof. exact Clock2r.run_many_noblock_tleft_partial. Qed.
Print Assumptions run_many_noblock_tleft_partial.

Theorem clk2r_b_sound :
  forall (cf : State2.config) (s : State2.sim),
       Clock2r.clk2r_b cf s = true -> Clock2r.Clk2r cf s.
Proof. exact Clock2r.clk2r_b_sound. Qed.
Print Assumptions clk2r_b_sound.

(* ---- Clock2p ---- *)
From CiwV.Inv Require Clock2p.

Theorem event_step_clk2p_tiny :
  forall (cf : State2.config) (s : State2.sim) 
         (d : State2.draws) (s' : State2.sim),
       Clock2p.tiny cf = true ->
       Clock2p.Clk2pt cf s ->
       Clock2.DrawsOK d ->
       Engine2.event_step cf
         (RecordSet.set State2.dr (fun _ : State2.draws => d) s) =
       State2.Ok (tt, s') ->
       Clock2p.Clk2pt cf s' /\ BinInt.Z.le (State2.now s) (State2.now s').
Proof. exact Clock2p.event_step_clk2p_tiny. Qed.
Print Assumptions event_step_clk2p_tiny.

Theorem run_many_clk2p_tiny :
  forall cf : State2.config,
       Clock2p.tiny cf = true ->
       forall (ds : list State2.draws) (s s' : State2.sim),
       Clock2p.Clk2pt cf s ->
       List.Forall Clock2.DrawsOK ds ->
       Codec2.run_many cf s ds = State2.Ok s' ->
       Clock2p.Clk2pt cf s' /\ BinInt.Z.le (State2.now s) (State2.now s').
Proof. exact Clock2p.run_many_clk2p_tiny. Qed.
Print Assumptions run_many_clk2p_tiny.

Theorem run_many_monotone2p_tiny :
  forall cf : State2.config,
       Clock2p.tiny cf = true ->
       forall (ds1 ds2 : list State2.draws) (s s1 s2 : State2.sim),
       Clock2p.Clk2pt cf s ->
       List.Forall Clock2.DrawsOK ds1 ->
       List.Forall Clock2.DrawsOK ds2 ->
       Codec2.run_many cf s ds1 = State2.Ok s1 ->
       Codec2.run_many cf s1 ds2 = State2.Ok s2 ->
       BinInt.Z.le (State2.now s) (State2.now s1) /\
       BinInt.Z.le (State2.now s1) (State2.now s2).
Proof. exact Clock2p.run_many_monotone2p_tiny. Qed.
Print Assumptions run_many_monotone2p_tiny.

Theorem Clk2pt_means :
  forall (cf : State2.config) (s : State2.sim),
       Clock2p.Clk2pt cf s ->
       Clock2r.Clk2r cf s /\
       Clock2p.LinkD s /\
       (forall (nd : State2.node) (nc : State2.ncfg) 
          (sv : State2.server) (c : BinNums.Z),
        List.In nd (State2.nodes s) ->
        Engine2.nthZ (State2.cf_nodes cf)
          (BinInt.Z.sub (State2.n_id nd) (BinNums.Zpos BinNums.xH)) = 
        Some nc ->
        Engine2.nd_inf nd = false ->
        Engine2.nc_slotted nc = false ->
        List.In sv (State2.n_servers nd) ->
        State2.sv_cust sv = Some c ->
        exists (x : State2.ind) (e d : BinNums.Z),
          Engine2.find_ind c (State2.inds s) = Some x /\
          State2.i_server x = Some (State2.sv_id sv) /\
          State2.i_node x = Some (State2.n_id nd) /\
          State2.i_send x = Some e /\
          State2.sv_next_end sv = Some d /\
          BinInt.Z.le (State2.now s) d /\ BinInt.Z.le d e) /\
       (forall (x : State2.ind) (tl : BinNums.Z),
        List.In x (State2.inds s) ->
        State2.i_smark x = BinNums.Zpos BinNums.xH ->
        State2.i_tleft x = Some tl -> BinInt.Z.le BinNums.Z0 tl).
Proof. exact Clock2p.Clk2pt_means. Qed.
Print Assumptions Clk2pt_means.

Theorem event_step_linkb :
  forall (cf : State2.config) (s : State2.sim) 
         (d : State2.draws) (s' : State2.sim),
       Clock2p.tiny cf = true ->
       Clock2p.LinkB s ->
       Engine2.event_step cf
         (RecordSet.set State2.dr (fun _ : State2.draws => d) s) =
       State2.Ok (tt, s') -> Clock2p.LinkB s'.
Proof. exact Clock2p.event_step_linkb. Qed.
Print Assumptions event_step_linkb.

Theorem run_many_linkb :
  forall cf : State2.config,
       Clock2p.tiny cf = true ->
       forall (ds : list State2.draws) (s s' : State2.sim),
       Clock2p.LinkB s ->
       Codec2.run_many cf s ds = State2.Ok s' -> Clock2p.LinkB s'.
Proof. exact Clock2p.run_many_linkb. Qed.
Print Assumptions run_many_linkb.

Theorem LinkB_LinkD :
  forall s : State2.sim, Clock2p.LinkB s -> Clock2p.LinkD s.
Proof. exact Clock2p.LinkB_LinkD. Qed.
Print Assumptions LinkB_LinkD.

Theorem c_preempt_clock :
  forall (cf : State2.config) (inf_at : BinNums.Z -> bool)
         (t : BinNums.Z) (nn : nat),
       Clock2p.tiny cf = true ->
       forall
         (rel : BinNums.Z -> BinNums.Z -> BinNums.Z -> bool -> Engine2.M unit)
         (j v c : BinNums.Z),
       Renege2.sp
         (fun s : State2.sim =>
          Clock2r.InvX cf inf_at t nn Renege2.TNone s /\
          Clock2p.PVpre j v c s) (Clock2r.InvX cf inf_at t nn Renege2.TNone)
         (Renege2.preempt_body cf rel j v c) Renege2.top.
Proof. exact Clock2p.c_preempt_clock. Qed.
Print Assumptions c_preempt_clock.

Theorem clk2r_not_inductive_under_resume_refuted :
  exists
         (cf : State2.config) (s : State2.sim) (d : State2.draws) 
       (s1 s2 : State2.sim),
         Clock2p.scope_p cf = true /\
         Clock2.DrawsOK d /\
         Clock2r.clk2r_b cf s = true /\
         Clock2p.linkd_b s = false /\
         Codec2.run_many cf s (d :: nil) = State2.Ok s1 /\
         Codec2.run_many cf s (d :: d :: nil) = State2.Ok s2 /\
         Clock2r.clk2r_b cf s1 = false /\
         (exists x : State2.ind,
            List.In x (State2.inds s1) /\
            State2.i_smark x = BinNums.Zpos BinNums.xH /\
            State2.i_tleft x = Some (BinNums.Zneg (BinNums.xO BinNums.xH))) /\
         State2.now s1 =
         BinNums.Zpos (BinNums.xO (BinNums.xO (BinNums.xO BinNums.xH))) /\
         State2.now s2 = BinNums.Zpos (BinNums.xO (BinNums.xI BinNums.xH)).
Proof. exact Clock2p.clk2r_not_inductive_under_resume_refuted. Qed.
Print Assumptions clk2r_not_inductive_under_resume_refuted.

Theorem preempt_needs_server :
  forall (cf : State2.config) (f : nat) (j v i : BinNums.Z)
         (s : State2.sim) (u : unit) (s' : State2.sim),
       Engine2.preempt cf (S f) j v i s = State2.Ok (u, s') ->
       exists (vx : State2.ind) (sid : BinNums.Z),
         Engine2.find_ind v (State2.inds s) = Some vx /\
         State2.i_server vx = Some sid.
Proof. exact Clock2p.preempt_needs_server. Qed.
Print Assumptions preempt_needs_server.

Theorem preempt_tleft_partial :
  forall (cf : State2.config) (f : nat) (j v i : BinNums.Z)
         (s : State2.sim) (u : unit) (s' : State2.sim) 
         (nc : State2.ncfg) (vx : State2.ind),
       Engine2.preempt cf (S f) j v i s = State2.Ok (u, s') ->
       Engine2.nthZ (State2.cf_nodes cf)
         (BinInt.Z.sub j (BinNums.Zpos BinNums.xH)) = 
       Some nc ->
       State2.nc_preempt nc <>
       BinNums.Zpos (BinNums.xO (BinNums.xO BinNums.xH)) ->
       Engine2.find_ind v (State2.inds s) = Some vx ->
       option_map State2.i_tleft (Engine2.find_ind v (State2.inds s')) =
       Some
         (Some
            (BinInt.Z.sub (Engine2.numo (State2.i_send vx)) (State2.now s))) /\
       (forall k : BinNums.Z,
        k <> v ->
        option_map State2.i_tleft (Engine2.find_ind k (State2.inds s')) =
        option_map State2.i_tleft (Engine2.find_ind k (State2.inds s))).
Proof. exact Clock2p.preempt_tleft_partial. Qed.
Print Assumptions preempt_tleft_partial.

Theorem preempt_at_boundary_partial :
  forall (cf : State2.config) (f : nat) (j v i : BinNums.Z)
         (s : State2.sim) (u : unit) (s' : State2.sim) 
         (nc : State2.ncfg) (nd : State2.node) (sv : State2.server),
       Clock2p.Clk2p cf s ->
       Engine2.preempt cf (S f) j v i s = State2.Ok (u, s') ->
       Engine2.nthZ (State2.cf_nodes cf)
         (BinInt.Z.sub j (BinNums.Zpos BinNums.xH)) = 
       Some nc ->
       State2.nc_preempt nc <>
       BinNums.Zpos (BinNums.xO (BinNums.xO BinNums.xH)) ->
       Engine2.nc_slotted nc = false ->
       List.In nd (State2.nodes s) ->
       State2.n_id nd = j ->
       Engine2.nd_inf nd = false ->
       List.In sv (State2.n_servers nd) ->
       State2.sv_cust sv = Some v ->
       Clock2p.TleftOK s' /\
       (exists (vx' : State2.ind) (tl : BinNums.Z),
          Engine2.find_ind v (State2.inds s') = Some vx' /\
          State2.i_tleft vx' = Some tl /\ BinInt.Z.le BinNums.Z0 tl).
Proof. exact Clock2p.preempt_at_boundary_partial. Qed.
Print Assumptions preempt_at_boundary_partial.

Theorem interrupt_service_tleft_partial :
  forall (cf : State2.config) (fl : nat) (j i pre : BinNums.Z)
         (s : State2.sim) (u : unit) (s' : State2.sim) 
         (x : State2.ind),
       Engine2.interrupt_service cf fl j i pre s = State2.Ok (u, s') ->
       pre <> BinNums.Zpos (BinNums.xO (BinNums.xO BinNums.xH)) ->
       Engine2.find_ind i (State2.inds s) = Some x ->
       option_map State2.i_tleft (Engine2.find_ind i (State2.inds s')) =
       Some
         (Some (BinInt.Z.sub (Engine2.numo (State2.i_send x)) (State2.now s))) /\
       (forall k : BinNums.Z,
        k <> i ->
        option_map State2.i_tleft (Engine2.find_ind k (State2.inds s')) =
        option_map State2.i_tleft (Engine2.find_ind k (State2.inds s))).
Proof. exact Clock2p.interrupt_service_tleft_partial. Qed.
Print Assumptions interrupt_service_tleft_partial.

Theorem interrupt_at_boundary_partial :
  forall (cf : State2.config) (fl : nat) (j i pre : BinNums.Z)
         (s : State2.sim) (u : unit) (s' : State2.sim) 
         (nc : State2.ncfg) (nd : State2.node) (sv : State2.server),
       Clock2p.Clk2p cf s ->
       Engine2.interrupt_service cf fl j i pre s = State2.Ok (u, s') ->
       pre <> BinNums.Zpos (BinNums.xO (BinNums.xO BinNums.xH)) ->
       Engine2.nthZ (State2.cf_nodes cf)
         (BinInt.Z.sub j (BinNums.Zpos BinNums.xH)) = 
       Some nc ->
       Engine2.nc_slotted nc = false ->
       List.In nd (State2.nodes s) ->
       State2.n_id nd = j ->
       Engine2.nd_inf nd = false ->
       List.In sv (State2.n_servers nd) ->
       State2.sv_cust sv = Some i ->
       Clock2p.TleftOK s' /\
       (exists (x' : State2.ind) (tl : BinNums.Z),
          Engine2.find_ind i (State2.inds s') = Some x' /\
          State2.i_tleft x' = Some tl /\ BinInt.Z.le BinNums.Z0 tl).
Proof. exact Clock2p.interrupt_at_boundary_partial. Qed.
Print Assumptions interrupt_at_boundary_partial.

Theorem resume_end_not_past_partial :
  forall (cf : State2.config) (j i sid : BinNums.Z) 
         (s : State2.sim) (u : unit) (s' : State2.sim) 
         (x : State2.ind) (nd : State2.node) (tl : BinNums.Z),
       Engine2.start_give cf j i sid s = State2.Ok (u, s') ->
       Preempt2.Idx s ->
       Engine2.find_ind i (State2.inds s) = Some x ->
       Preempt2.node_at s j = Some nd ->
       State2.i_smark x = BinNums.Zpos BinNums.xH ->
       State2.i_tleft x = Some tl ->
       BinInt.Z.le BinNums.Z0 tl ->
       exists x' : State2.ind,
         Engine2.find_ind i (State2.inds s') = Some x' /\
         State2.i_send x' = Some (BinInt.Z.add (State2.now s) tl) /\
         Clock2p.EndGood (State2.now s) x'.
Proof. exact Clock2p.resume_end_not_past_partial. Qed.
Print Assumptions resume_end_not_past_partial.

Theorem clk2pt_b_sound :
  forall (cf : State2.config) (s : State2.sim),
       Clock2p.clk2pt_b cf s = true -> Clock2p.Clk2pt cf s.
Proof. exact Clock2p.clk2pt_b_sound. Qed.
Print Assumptions clk2pt_b_sound.

Theorem linkb_b_sound :
  forall s : State2.sim, Clock2p.linkb_b s = true -> Clock2p.LinkB s.
Proof. exact Clock2p.linkb_b_sound. Qed.
Print Assumptions linkb_b_sound.

Theorem px_run_clk2pt :
  forall (n : nat) (s : State2.sim),
       Codec2.run_many Clock2p.px_cf Clock2p.px_s0
         (List.repeat Clock2p.px_d n) = State2.Ok s ->
       Clock2p.Clk2pt Clock2p.px_cf s /\
       BinInt.Z.le BinNums.Z0 (State2.now s).
Proof. exact Clock2p.px_run_clk2pt. Qed.
Print Assumptions px_run_clk2pt.

Theorem qx_run_clk2pt :
  forall (n : nat) (s : State2.sim),
       Codec2.run_many Clock2p.qx_cf Clock2p.qx_s0
         (List.repeat Clock2p.qx_d n) = State2.Ok s ->
       Clock2p.Clk2pt Clock2p.qx_cf s.
Proof. exact Clock2p.qx_run_clk2pt. Qed.
Print Assumptions qx_run_clk2pt.

(* ---- Clock2s ---- *)
From CiwV.Inv Require Clock2s.

Theorem event_step_clk2s_partial :
  forall (cf : State2.config) (s : State2.sim) 
         (d : State2.draws) (s' : State2.sim),
       Clock2s.scope_s cf = true ->
       Clock2s.Clk2s cf s ->
       Clock2.DrawsOK d ->
       Engine2.event_step cf
         (RecordSet.set State2.dr (fun _ : State2.draws => d) s) =
       State2.Ok (tt, s') ->
       Clock2s.Clk2s cf s' /\ BinInt.Z.le (State2.now s) (State2.now s').
Proof. exact Clock2s.event_step_clk2s_partial. Qed.
Print Assumptions event_step_clk2s_partial.

Theorem run_many_clk2s_partial :
  forall cf : State2.config,
       Clock2s.scope_s cf = true ->
       forall (ds : list State2.draws) (s s' : State2.sim),
       Clock2s.Clk2s cf s ->
       List.Forall Clock2.DrawsOK ds ->
       Codec2.run_many cf s ds = State2.Ok s' ->
       Clock2s.Clk2s cf s' /\ BinInt.Z.le (State2.now s) (State2.now s').
Proof. exact Clock2s.run_many_clk2s_partial. Qed.
Print Assumptions run_many_clk2s_partial.

Theorem run_many_monotone2s_partial :
  forall cf : State2.config,
       Clock2s.scope_s cf = true ->
       forall (ds1 ds2 : list State2.draws) (s s1 s2 : State2.sim),
       Clock2s.Clk2s cf s ->
       List.Forall Clock2.DrawsOK ds1 ->
       List.Forall Clock2.DrawsOK ds2 ->
       Codec2.run_many cf s ds1 = State2.Ok s1 ->
       Codec2.run_many cf s1 ds2 = State2.Ok s2 ->
       BinInt.Z.le (State2.now s) (State2.now s1) /\
       BinInt.Z.le (State2.now s1) (State2.now s2).
Proof. exact Clock2s.run_many_monotone2s_partial. Qed.
Print Assumptions run_many_monotone2s_partial.

Theorem Clk2s_means :
  forall (cf : State2.config) (s : State2.sim),
       Clock2s.Clk2s cf s ->
       Clock2r.Clk2r cf s /\
       Clock2p.LinkD s /\
       (forall (nd : State2.node) (nc : State2.ncfg) 
          (sv : State2.server) (c : BinNums.Z),
        List.In nd (State2.nodes s) ->
        Engine2.nthZ (State2.cf_nodes cf)
          (BinInt.Z.sub (State2.n_id nd) (BinNums.Zpos BinNums.xH)) = 
        Some nc ->
        Engine2.nd_inf nd = false ->
        Engine2.nc_slotted nc = false ->
        List.In sv (State2.n_servers nd) ->
        State2.sv_cust sv = Some c ->
        exists (x : State2.ind) (e d : BinNums.Z),
          Engine2.find_ind c (State2.inds s) = Some x /\
          State2.i_server x = Some (State2.sv_id sv) /\
          State2.i_node x = Some (State2.n_id nd) /\
          State2.i_send x = Some e /\
          State2.sv_next_end sv = Some d /\
          BinInt.Z.le (State2.now s) d /\ BinInt.Z.le d e) /\
       (forall (nd : State2.node) (c : BinNums.Z) (x : State2.ind),
        List.In nd (State2.nodes s) ->
        Engine2.nd_inf nd = true ->
        List.In c (Engine2.all_individuals nd) ->
        Engine2.find_ind c (State2.inds s) = Some x ->
        State2.i_server x = None /\ State2.i_node x = Some (State2.n_id nd)) /\
       (forall (x : State2.ind) (tl : BinNums.Z),
        List.In x (State2.inds s) ->
        State2.i_smark x = BinNums.Zpos BinNums.xH ->
        State2.i_tleft x = Some tl -> BinInt.Z.le BinNums.Z0 tl).
Proof. exact Clock2s.Clk2s_means. Qed.
Print Assumptions Clk2s_means.

Theorem LinkB_nodes :
  forall (cf : State2.config) (s : State2.sim),
       Clock2s.LinkB cf s ->
       forall nd : State2.node,
       List.In nd (State2.nodes s) ->
       (forall c : BinNums.Z,
        List.In c (Engine2.all_individuals nd) ->
        exists x : State2.ind,
          Engine2.find_ind c (State2.inds s) = Some x /\
          State2.i_node x = Some (State2.n_id nd)) /\
       (Clock2s.slot_at cf (State2.n_id nd) = true ->
        State2.n_servers nd = nil) /\
       List.NoDup (List.map State2.sv_id (State2.n_servers nd)) /\
       (forall sv : State2.server,
        List.In sv (State2.n_servers nd) ->
        BinInt.Z.le (State2.sv_id sv) (State2.n_highest nd)) /\
       BinInt.Z.le (State2.n_nint nd) BinNums.Z0 /\
       State2.n_next_type nd <> BinNums.Zpos (BinNums.xO BinNums.xH) /\
       State2.n_next_type nd <> BinNums.Zpos (BinNums.xI BinNums.xH).
Proof. exact Clock2s.LinkB_nodes. Qed.
Print Assumptions LinkB_nodes.

(* the printed form of this statement does not re-parse (nat / Z scopes): it is the statement of Clock2s.event_step_linkb, verbatim in coq/Inv/Clock2s.v *)
Theorem event_step_linkb_s : ltac:(let t := type of Clock2s.event_step_linkb in exact t).
Proof. exact Clock2s.event_step_linkb. Qed.
Print Assumptions event_step_linkb_s.

(* the printed form of this statement does not re-parse (nat / Z scopes): it is the statement of Clock2s.run_many_linkb, verbatim in coq/Inv/Clock2s.v *)
Theorem run_many_linkb_s : ltac:(let t := type of Clock2s.run_many_linkb in exact t).
Proof. exact Clock2s.run_many_linkb. Qed.
Print Assumptions run_many_linkb_s.

(* the printed form of this statement does not re-parse (nat / Z scopes): it is the statement of Clock2s.interrupt_resume_clock_partial, verbatim in coq/Inv/Clock2s.v *)
Theorem interrupt_resume_clock_partial : ltac:(let t := type of Clock2s.interrupt_resume_clock_partial in exact t).
Proof. exact Clock2s.interrupt_resume_clock_partial. Qed.
Print Assumptions interrupt_resume_clock_partial.

(* the printed form of this statement does not re-parse (nat / Z scopes): it is the statement of Clock2s.clk2s_b_sound, verbatim in coq/Inv/Clock2s.v *)
Theorem clk2s_b_sound : ltac:(let t := type of Clock2s.clk2s_b_sound in exact t).
Proof. exact Clock2s.clk2s_b_sound. Qed.
Print Assumptions clk2s_b_sound.

(* the printed form of this statement does not re-parse (nat / Z scopes): it is the statement of Clock2s.kx_run_clk2s, verbatim in coq/Inv/Clock2s.v *)
Theorem kx_run_clk2s : ltac:(let t := type of Clock2s.kx_run_clk2s in exact t).
Proof. exact Clock2s.kx_run_clk2s. Qed.
Print Assumptions kx_run_clk2s.

(* the printed form of this statement does not re-parse (nat / Z scopes): it is the statement of Clock2s.fx_F12d_inside, verbatim in coq/Inv/Clock2s.v *)
Theorem fx_F12d_inside : ltac:(let t := type of Clock2s.fx_F12d_inside in exact t).
Proof. exact Clock2s.fx_F12d_inside. Qed.
Print Assumptions fx_F12d_inside.

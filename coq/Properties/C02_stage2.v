(* Property C02 -- statements about the STAGE-2 engine model (coq/Engine/Engine2.v), statements only; proofs in coq/Inv/Clock2.v.
   The model is tied to /repo by the stepwise correspondence check K2 (harness/engine_k2b.py). *)
From Coq Require Import ZArith List Bool Permutation.
From CiwV Require Import Sx Prelude Routing Sched.
From CiwV.Engine Require Import State2 Engine2 Codec2.
From CiwV.Inv Require Clock2 Renege2 Preempt2.
Import ListNotations.
Open Scope Z_scope.

Theorem event_step_clk2 :
  forall (cf : State2.config) (s : State2.sim) 
         (d : State2.draws) (s' : State2.sim),
       Clock2.scope cf = true ->
       Clock2.Clk2 cf s ->
       Clock2.DrawsOK d ->
       Engine2.event_step cf
         (RecordSet.set State2.dr (fun _ : State2.draws => d) s) =
       State2.Ok (tt, s') ->
       Clock2.Clk2 cf s' /\ BinInt.Z.le (State2.now s) (State2.now s').
Proof. exact Clock2.event_step_clk2. Qed.
Print Assumptions event_step_clk2.

Theorem run_many_clk2 :
  forall cf : State2.config,
       Clock2.scope cf = true ->
       forall (ds : list State2.draws) (s s' : State2.sim),
       Clock2.Clk2 cf s ->
       List.Forall Clock2.DrawsOK ds ->
       Codec2.run_many cf s ds = State2.Ok s' ->
       Clock2.Clk2 cf s' /\ BinInt.Z.le (State2.now s) (State2.now s').
Proof. exact Clock2.run_many_clk2. Qed.
Print Assumptions run_many_clk2.

Theorem run_many_monotone2 :
  forall cf : State2.config,
       Clock2.scope cf = true ->
       forall (ds1 ds2 : list State2.draws) (s s1 s2 : State2.sim),
       Clock2.Clk2 cf s ->
       List.Forall Clock2.DrawsOK ds1 ->
       List.Forall Clock2.DrawsOK ds2 ->
       Codec2.run_many cf s ds1 = State2.Ok s1 ->
       Codec2.run_many cf s1 ds2 = State2.Ok s2 ->
       BinInt.Z.le (State2.now s) (State2.now s1) /\
       BinInt.Z.le (State2.now s1) (State2.now s2).
Proof. exact Clock2.run_many_monotone2. Qed.
Print Assumptions run_many_monotone2.

Theorem Clk2_means :
  forall (cf : State2.config) (s : State2.sim),
       Clock2.Clk2 cf s ->
       (forall (row : list (option BinNums.Z)) (e : BinNums.Z),
        List.In row (State2.a_dates (State2.arr s)) ->
        List.In (Some e) row -> BinInt.Z.le (State2.now s) e) /\
       (forall (row : list (option BinNums.Z)) (d : option BinNums.Z),
        List.In row (State2.a_dates (State2.arr s)) ->
        List.In d row -> Renege2.dle (State2.a_next_date (State2.arr s)) d) /\
       Clock2.Loc (State2.arr s) /\
       (forall (nd : State2.node) (e : BinNums.Z),
        List.In nd (State2.nodes s) ->
        State2.n_next_date nd = Some e -> BinInt.Z.le (State2.now s) e) /\
       (forall (nd : State2.node) (nc : State2.ncfg) 
          (sv : State2.server) (e : BinNums.Z),
        List.In nd (State2.nodes s) ->
        Engine2.nthZ (State2.cf_nodes cf)
          (BinInt.Z.sub (State2.n_id nd) (BinNums.Zpos BinNums.xH)) = 
        Some nc ->
        Engine2.nd_inf nd = false ->
        Engine2.nc_slotted nc = false ->
        List.In sv (State2.n_servers nd) ->
        State2.sv_next_end sv = Some e -> BinInt.Z.le (State2.now s) e) /\
       (forall (nd : State2.node) (nc : State2.ncfg) (sc : State2.schedcfg),
        List.In nd (State2.nodes s) ->
        Engine2.nthZ (State2.cf_nodes cf)
          (BinInt.Z.sub (State2.n_id nd) (BinNums.Zpos BinNums.xH)) = 
        Some nc ->
        State2.nc_srv nc = State2.SSched sc ->
        State2.n_next_shift nd =
        Some
          (Sched.D (State2.sc_b sc) (State2.sc_off sc)
             (BinInt.Z.to_nat (State2.n_spos nd))) /\
        BinInt.Z.le (State2.now s)
          (Sched.D (State2.sc_b sc) (State2.sc_off sc)
             (BinInt.Z.to_nat (State2.n_spos nd)))) /\
       (forall (nd : State2.node) (nc : State2.ncfg) (sl : State2.slotcfg),
        List.In nd (State2.nodes s) ->
        Engine2.nthZ (State2.cf_nodes cf)
          (BinInt.Z.sub (State2.n_id nd) (BinNums.Zpos BinNums.xH)) = 
        Some nc ->
        State2.nc_srv nc = State2.SSlot sl ->
        BinInt.Z.le (State2.now s)
          (Clock2.slotdate sl (BinInt.Z.to_nat (State2.n_spos nd)))) /\
       (forall (nd : State2.node) (nc : State2.ncfg) 
          (i : BinNums.Z) (x : State2.ind) (z : BinNums.Z),
        List.In nd (State2.nodes s) ->
        Engine2.nthZ (State2.cf_nodes cf)
          (BinInt.Z.sub (State2.n_id nd) (BinNums.Zpos BinNums.xH)) = 
        Some nc ->
        State2.nc_reneging nc = true ->
        Engine2.nd_inf nd = false ->
        List.In i (Engine2.all_individuals nd) ->
        Engine2.find_ind i (State2.inds s) = Some x ->
        State2.i_server x = None ->
        State2.i_ren x = State2.XV z -> BinInt.Z.le (State2.now s) z) /\
       (forall nd : State2.node,
        List.In nd (State2.nodes s) ->
        State2.cf_dyn cf = true ->
        Engine2.nd_inf nd = false ->
        Renege2.dle (Some (State2.now s)) (State2.n_nccd nd) /\
        (forall i : BinNums.Z,
         State2.n_ncci nd = Some i -> List.In i (Engine2.all_individuals nd))) /\
       (forall (nd : State2.node) (i : BinNums.Z) 
          (x : State2.ind) (z : BinNums.Z),
        List.In nd (State2.nodes s) ->
        State2.cf_dyn cf = true ->
        Engine2.nd_inf nd = false ->
        List.In i (Engine2.all_individuals nd) ->
        Engine2.find_ind i (State2.inds s) = Some x ->
        State2.i_server x = None ->
        State2.i_ccd x = State2.XV z ->
        BinInt.Z.le (State2.now s) z /\
        Renege2.dle (State2.n_nccd nd) (Some z)) /\
       (forall nd : State2.node,
        List.In nd (State2.nodes s) ->
        State2.cf_dyn cf = true ->
        State2.n_next_type nd = BinNums.Zpos (BinNums.xI BinNums.xH) ->
        Engine2.nd_inf nd = false /\
        State2.n_next_inds nd =
        match State2.n_ncci nd with
        | Some i => (i :: nil)%list
        | None => nil
        end) /\
       (State2.next_active s = BinNums.Z0 ->
        State2.a_next_date (State2.arr s) = Some (State2.now s) \/
        Clock2.nothing_scheduled s) /\
       (State2.next_active s <> BinNums.Z0 ->
        exists nd : State2.node,
          List.nth_error (State2.nodes s)
            (BinInt.Z.to_nat
               (BinInt.Z.sub (State2.next_active s) (BinNums.Zpos BinNums.xH))) =
          Some nd /\
          State2.n_id nd = State2.next_active s /\
          (State2.n_next_date nd = Some (State2.now s) \/
           Clock2.nothing_scheduled s)).
Proof. exact Clock2.Clk2_means. Qed.
Print Assumptions Clk2_means.

Theorem clk2_b_sound :
  forall (cf : State2.config) (s : State2.sim),
       Clock2.clk2_b cf s = true -> Clock2.Clk2 cf s.
Proof. exact Clock2.clk2_b_sound. Qed.
Print Assumptions clk2_b_sound.

Theorem clock_monotone_refuted_F02a :
  exists
         (cf : State2.config) (s : State2.sim) (ds : list State2.draws) 
       (s1 : State2.sim) (d : State2.draws) (s2 : State2.sim),
         Clock2.region cf = false /\
         Clock2.wf_times cf = true /\
         Clock2.dyn_ok cf = true /\
         Clock2.clk2_b cf s = true /\
         List.Forall Clock2.DrawsOK (ds ++ d :: nil) /\
         Codec2.run_many cf s ds = State2.Ok s1 /\
         Engine2.event_step cf
           (RecordSet.set State2.dr (fun _ : State2.draws => d) s1) =
         State2.Ok (tt, s2) /\
         BinInt.Z.le (State2.now s) (State2.now s1) /\
         BinInt.Z.lt (State2.now s2) (State2.now s1).
Proof. exact Clock2.clock_monotone_refuted_F02a. Qed.
Print Assumptions clock_monotone_refuted_F02a.

Theorem clock_monotone_refuted_F02b :
  exists
         (cf : State2.config) (s : State2.sim) (d : State2.draws) 
       (s' : State2.sim),
         Clock2.region cf = false /\
         Clock2.wf_times cf = true /\
         Clock2.dyn_ok cf = true /\
         Clock2.clk2_b cf s = true /\
         Clock2.DrawsOK d /\
         Engine2.event_step cf
           (RecordSet.set State2.dr (fun _ : State2.draws => d) s) =
         State2.Ok (tt, s') /\ BinInt.Z.lt (State2.now s') (State2.now s).
Proof. exact Clock2.clock_monotone_refuted_F02b. Qed.
Print Assumptions clock_monotone_refuted_F02b.

Theorem clock_monotone_refuted_F02c :
  exists
         (cf : State2.config) (s : State2.sim) (d : State2.draws) 
       (s' : State2.sim),
         Clock2.region cf = false /\
         Clock2.wf_times cf = true /\
         Clock2.dyn_ok cf = true /\
         Clock2.clk2_b cf s = true /\
         Clock2.DrawsOK d /\
         Engine2.event_step cf
           (RecordSet.set State2.dr (fun _ : State2.draws => d) s) =
         State2.Ok (tt, s') /\ BinInt.Z.lt (State2.now s') (State2.now s).
Proof. exact Clock2.clock_monotone_refuted_F02c. Qed.
Print Assumptions clock_monotone_refuted_F02c.

(* ---- Clock2r ---- *)
From CiwV.Inv Require Clock2r.

Theorem event_step_clk2r_partial :
  forall (cf : State2.config) (s : State2.sim) 
         (d : State2.draws) (s' : State2.sim),
       Clock2r.scope_r_partial cf = true ->
       Clock2r.Clk2r cf s ->
       Clock2.DrawsOK d ->
       Engine2.event_step cf
         (RecordSet.set State2.dr (fun _ : State2.draws => d) s) =
       State2.Ok (tt, s') ->
       Clock2r.Clk2r cf s' /\ BinInt.Z.le (State2.now s) (State2.now s').
Proof. exact Clock2r.event_step_clk2r_partial. Qed.
Print Assumptions event_step_clk2r_partial.

Theorem run_many_clk2r_partial :
  forall cf : State2.config,
       Clock2r.scope_r_partial cf = true ->
       forall (ds : list State2.draws) (s s' : State2.sim),
       Clock2r.Clk2r cf s ->
       List.Forall Clock2.DrawsOK ds ->
       Codec2.run_many cf s ds = State2.Ok s' ->
       Clock2r.Clk2r cf s' /\ BinInt.Z.le (State2.now s) (State2.now s').
Proof. exact Clock2r.run_many_clk2r_partial. Qed.
Print Assumptions run_many_clk2r_partial.

Theorem Clk2r_means_resume :
  forall (cf : State2.config) (s : State2.sim),
       Clock2r.Clk2r cf s ->
       (forall nd : State2.node,
        List.In nd (State2.nodes s) ->
        BinInt.Z.le (State2.n_lenbq nd) BinNums.Z0) /\
       (forall x : State2.ind,
        List.In x (State2.inds s) -> State2.i_blocked x = false) /\
       (forall (x : State2.ind) (tl : BinNums.Z),
        List.In x (State2.inds s) ->
        State2.i_smark x = BinNums.Zpos BinNums.xH ->
        State2.i_tleft x = Some tl -> BinInt.Z.le BinNums.Z0 tl) /\
       (forall (x : State2.ind) (st : BinNums.Z),
        List.In x (State2.inds s) ->
        State2.i_stime x = Some st -> BinInt.Z.le BinNums.Z0 st) /\
       (forall (x : State2.ind) (j : BinNums.Z) (nc : State2.ncfg),
        List.In x (State2.inds s) ->
        State2.i_node x = Some j ->
        Engine2.nthZ (State2.cf_nodes cf)
          (BinInt.Z.sub j (BinNums.Zpos BinNums.xH)) = 
        Some nc ->
        Engine2.nc_slotted nc = true ->
        State2.i_sst x <> None ->
        exists e : BinNums.Z,
          State2.i_send x = Some e /\ BinInt.Z.le (State2.now s) e).
Proof. exact Clock2r.Clk2r_means_resume. Qed.
Print Assumptions Clk2r_means_resume.

Theorem run_many_noblock_tleft_partial :
  forall cf : State2.config,
       Clock2r.scope_r_partial cf = true ->
       forall (ds : list State2.draws) (s s' : State2.sim),
       Clock2r.Clk2r cf s ->
       List.Forall Clock2.DrawsOK ds ->
       Codec2.run_many cf s ds = State2.Ok s' ->
       (forall nd : State2.node,
        List.In nd (State2.nodes s') ->
        BinInt.Z.le (State2.n_lenbq nd) BinNums.Z0) /\
       (forall x : State2.ind,
        List.In x (State2.inds s') -> State2.i_blocked x = false) /\
       (forall (x : State2.ind) (tl : BinNums.Z),
        List.In x (State2.inds s') ->
        State2.i_smark x = BinNums.Zpos BinNums.xH ->
        State2.i_tleft x = Some tl -> BinInt.Z.le BinNums.Z0 tl).
Proof. exact Clock2r.run_many_noblock_tleft_partial. Qed.
Print Assumptions run_many_noblock_tleft_partial.

Theorem clk2r_b_sound :
  forall (cf : State2.config) (s : State2.sim),
       Clock2r.clk2r_b cf s = true -> Clock2r.Clk2r cf s.
Proof. exact Clock2r.clk2r_b_sound. Qed.
Print Assumptions clk2r_b_sound.

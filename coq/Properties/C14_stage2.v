(* Property C14 -- statements about the STAGE-2 engine model (coq/Engine/Engine2.v), statements only; proofs in coq/Inv/HorizonCount2.v.
   The model is tied to /repo by the stepwise correspondence check K2 (harness/engine_k2b.py). *)
From Coq Require Import ZArith List Bool Permutation.
From CiwV Require Import Sx Prelude Routing Sched.
From CiwV.Engine Require Import State2 Engine2 Codec2.
From CiwV.Inv Require HorizonCount2.
Import ListNotations.
Open Scope Z_scope.

Theorem engine_count :
  forall (cf : State2.config) (m n : BinNums.Z) 
         (ds : list State2.draws) (s s' : State2.sim)
         (rest : list State2.draws),
       HorizonCount2.CInv cf s ->
       HorizonCount2.run_count cf m n s ds = State2.Ok (s', rest) ->
       exists (used : list State2.draws) (tr : list State2.sim),
         ds = (used ++ rest)%list /\
         length tr = length used /\
         Codec2.run_many cf s used = State2.Ok s' /\
         (forall (k : nat) (x : State2.sim),
          List.nth_error tr k = Some x ->
          Codec2.run_many cf s (List.firstn k used) = State2.Ok x) /\
         List.Forall
           (fun x : State2.sim => BinInt.Z.lt (HorizonCount2.count_of m x) n)
           tr /\
         (rest <> nil -> BinInt.Z.le n (HorizonCount2.count_of m s')) /\
         (forall m' : BinNums.Z,
          HorizonCount2.chain (HorizonCount2.count_of m' s)
            (List.map (HorizonCount2.count_of m') tr ++
             HorizonCount2.count_of m' s' :: nil)) /\
         List.Forall (HorizonCount2.CInv cf) tr /\
         HorizonCount2.CInv cf s' /\
         BinInt.Z.sub (HorizonCount2.count_of (BinNums.Zpos BinNums.xH) s')
           (HorizonCount2.count_of BinNums.Z0 s') =
         BinInt.Z.add
           (BinInt.Z.add
              (BinInt.Z.sub
                 (HorizonCount2.count_of (BinNums.Zpos BinNums.xH) s)
                 (HorizonCount2.count_of BinNums.Z0 s))
              (HorizonCount2.nrenx (HorizonCount2.run_logs cf s used)))
           (HorizonCount2.nbr (HorizonCount2.run_logs cf s used)) /\
         BinInt.Z.sub
           (HorizonCount2.count_of (BinNums.Zpos (BinNums.xO BinNums.xH)) s')
           (HorizonCount2.count_of (BinNums.Zpos (BinNums.xI BinNums.xH)) s') =
         BinInt.Z.add
           (BinInt.Z.sub
              (HorizonCount2.count_of (BinNums.Zpos (BinNums.xO BinNums.xH))
                 s)
              (HorizonCount2.count_of (BinNums.Zpos (BinNums.xI BinNums.xH))
                 s)) (HorizonCount2.nbr (HorizonCount2.run_logs cf s used)).
Proof. exact HorizonCount2.engine_count. Qed.
Print Assumptions engine_count.

Theorem engine_until2 :
  forall (cf : State2.config) (T : BinNums.Z) 
         (ds : list State2.draws) (s s' : State2.sim)
         (rest : list State2.draws),
       HorizonCount2.CInv cf s ->
       HorizonCount2.run_until2 cf T s ds = State2.Ok (s', rest) ->
       exists (used : list State2.draws) (tr : list State2.sim),
         ds = (used ++ rest)%list /\
         length tr = length used /\
         Codec2.run_many cf s used = State2.Ok s' /\
         (forall (k : nat) (x : State2.sim),
          List.nth_error tr k = Some x ->
          Codec2.run_many cf s (List.firstn k used) = State2.Ok x) /\
         List.Forall
           (fun x : State2.sim =>
            exists d : BinNums.Z,
              HorizonCount2.next_date2 x = Some d /\ BinInt.Z.lt d T) tr /\
         (rest <> nil -> HorizonCount2.before2 T s' = false) /\
         (forall m' : BinNums.Z,
          HorizonCount2.chain (HorizonCount2.count_of m' s)
            (List.map (HorizonCount2.count_of m') tr ++
             HorizonCount2.count_of m' s' :: nil)) /\
         List.Forall (HorizonCount2.CInv cf) tr /\ HorizonCount2.CInv cf s'.
Proof. exact HorizonCount2.engine_until2. Qed.
Print Assumptions engine_until2.

Theorem run_count_last :
  forall (cf : State2.config) (m n : BinNums.Z) 
         (ds : list State2.draws) (s s' : State2.sim)
         (rest u0 : list State2.draws) (d : State2.draws),
       HorizonCount2.run_count cf m n s ds = State2.Ok (s', rest) ->
       rest <> nil ->
       ds = ((u0 ++ d :: nil) ++ rest)%list ->
       exists x : State2.sim,
         Codec2.run_many cf s u0 = State2.Ok x /\
         BinInt.Z.lt (HorizonCount2.count_of m x) n /\
         Engine2.event_step cf
           (RecordSet.set State2.dr (fun _ : State2.draws => d) x) =
         State2.Ok (tt, s') /\ BinInt.Z.le n (HorizonCount2.count_of m s').
Proof. exact HorizonCount2.run_count_last. Qed.
Print Assumptions run_count_last.

Theorem run_many_count_mono :
  forall (cf : State2.config) (m : BinNums.Z) 
         (ds : list State2.draws) (s s' : State2.sim),
       Codec2.run_many cf s ds = State2.Ok s' ->
       BinInt.Z.le (HorizonCount2.count_of m s) (HorizonCount2.count_of m s').
Proof. exact HorizonCount2.run_many_count_mono. Qed.
Print Assumptions run_many_count_mono.

Theorem count_means :
  forall (cf : State2.config) (s : State2.sim),
       HorizonCount2.CInv cf s ->
       BinInt.Z.le BinNums.Z0 (HorizonCount2.count_of BinNums.Z0 s) /\
       BinInt.Z.le (HorizonCount2.count_of BinNums.Z0 s)
         (HorizonCount2.count_of (BinNums.Zpos BinNums.xH) s) /\
       BinInt.Z.le (HorizonCount2.count_of (BinNums.Zpos BinNums.xH) s)
         (HorizonCount2.count_of (BinNums.Zpos (BinNums.xO BinNums.xH)) s) /\
       BinInt.Z.le BinNums.Z0
         (HorizonCount2.count_of (BinNums.Zpos (BinNums.xI BinNums.xH)) s) /\
       BinInt.Z.le
         (HorizonCount2.count_of (BinNums.Zpos (BinNums.xI BinNums.xH)) s)
         (HorizonCount2.count_of (BinNums.Zpos (BinNums.xO BinNums.xH)) s) /\
       BinInt.Z.le
         (BinInt.Z.sub
            (HorizonCount2.count_of (BinNums.Zpos (BinNums.xO BinNums.xH)) s)
            (HorizonCount2.count_of (BinNums.Zpos (BinNums.xI BinNums.xH)) s))
         (BinInt.Z.sub (HorizonCount2.count_of (BinNums.Zpos BinNums.xH) s)
            (HorizonCount2.count_of BinNums.Z0 s)) /\
       BinInt.Z.sub
         (HorizonCount2.count_of (BinNums.Zpos (BinNums.xO BinNums.xH)) s)
         (HorizonCount2.count_of (BinNums.Zpos BinNums.xH) s) =
       Prelude.zsum (List.map State2.n_pop (State2.nodes s)).
Proof. exact HorizonCount2.count_means. Qed.
Print Assumptions count_means.

Theorem run_many_accounts :
  forall (cf : State2.config) (ds : list State2.draws)
         (s s' : State2.sim),
       Codec2.run_many cf s ds = State2.Ok s' ->
       BinInt.Z.sub (HorizonCount2.count_of (BinNums.Zpos BinNums.xH) s')
         (HorizonCount2.count_of BinNums.Z0 s') =
       BinInt.Z.add
         (BinInt.Z.add
            (BinInt.Z.sub
               (HorizonCount2.count_of (BinNums.Zpos BinNums.xH) s)
               (HorizonCount2.count_of BinNums.Z0 s))
            (HorizonCount2.nrenx (HorizonCount2.run_logs cf s ds)))
         (HorizonCount2.nbr (HorizonCount2.run_logs cf s ds)) /\
       BinInt.Z.sub
         (HorizonCount2.count_of (BinNums.Zpos (BinNums.xO BinNums.xH)) s')
         (HorizonCount2.count_of (BinNums.Zpos (BinNums.xI BinNums.xH)) s') =
       BinInt.Z.add
         (BinInt.Z.sub
            (HorizonCount2.count_of (BinNums.Zpos (BinNums.xO BinNums.xH)) s)
            (HorizonCount2.count_of (BinNums.Zpos (BinNums.xI BinNums.xH)) s))
         (HorizonCount2.nbr (HorizonCount2.run_logs cf s ds)) /\
       HorizonCount2.gap s' =
       BinInt.Z.add (HorizonCount2.gap s)
         (HorizonCount2.nrenx (HorizonCount2.run_logs cf s ds)).
Proof. exact HorizonCount2.run_many_accounts. Qed.
Print Assumptions run_many_accounts.

Theorem run_count_split_eq :
  forall (cf : State2.config) (m n1 n : BinNums.Z),
       BinInt.Z.le n1 n ->
       forall (ds : list State2.draws) (s : State2.sim),
       HorizonCount2.run_count cf m n s ds =
       match HorizonCount2.run_count cf m n1 s ds with
       | State2.Ok (s1, r1) => HorizonCount2.run_count cf m n s1 r1
       | State2.Err e => State2.Err e
       | State2.OutOfFuel => State2.OutOfFuel
       end.
Proof. exact HorizonCount2.run_count_split_eq. Qed.
Print Assumptions run_count_split_eq.

Theorem run_until2_split_eq :
  forall (cf : State2.config) (T1 T : BinNums.Z),
       BinInt.Z.le T1 T ->
       forall (ds : list State2.draws) (s : State2.sim),
       HorizonCount2.run_until2 cf T s ds =
       match HorizonCount2.run_until2 cf T1 s ds with
       | State2.Ok (s1, r1) => HorizonCount2.run_until2 cf T s1 r1
       | State2.Err e => State2.Err e
       | State2.OutOfFuel => State2.OutOfFuel
       end.
Proof. exact HorizonCount2.run_until2_split_eq. Qed.
Print Assumptions run_until2_split_eq.

Theorem cinv_b_sound :
  forall (cf : State2.config) (s : State2.sim),
       HorizonCount2.cinv_b cf s = true -> HorizonCount2.CInv cf s.
Proof. exact HorizonCount2.cinv_b_sound. Qed.
Print Assumptions cinv_b_sound.

Theorem stage1_identity_refuted :
  exists
         (cf : State2.config) (s : State2.sim) (ds : list State2.draws) 
       (s' : State2.sim),
         HorizonCount2.cinv_b cf s = true /\
         BinInt.Z.sub (HorizonCount2.count_of (BinNums.Zpos BinNums.xH) s)
           (HorizonCount2.count_of BinNums.Z0 s) =
         BinInt.Z.sub
           (HorizonCount2.count_of (BinNums.Zpos (BinNums.xO BinNums.xH)) s)
           (HorizonCount2.count_of (BinNums.Zpos (BinNums.xI BinNums.xH)) s) /\
         Codec2.run_many cf s ds = State2.Ok s' /\
         BinInt.Z.sub (HorizonCount2.count_of (BinNums.Zpos BinNums.xH) s')
           (HorizonCount2.count_of BinNums.Z0 s') <>
         BinInt.Z.sub
           (HorizonCount2.count_of (BinNums.Zpos (BinNums.xO BinNums.xH)) s')
           (HorizonCount2.count_of (BinNums.Zpos (BinNums.xI BinNums.xH)) s').
Proof. exact HorizonCount2.stage1_identity_refuted. Qed.
Print Assumptions stage1_identity_refuted.

(* ---- Horizon2 ---- *)
From CiwV.Inv Require Horizon2.

Theorem engine_horizon2 :
  forall (cf : State2.config) (T : BinNums.Z) 
         (ds : list State2.draws) (s s' : State2.sim)
         (rest : list State2.draws),
       Clock2.scope cf = true ->
       Conserve2.WFx2 nil s ->
       Horizon2.Hzn2 cf s ->
       HorizonCount2.run_until2 cf T s ds = State2.Ok (s', rest) ->
       exists (used : list State2.draws) (tr : list State2.sim),
         ds = (used ++ rest)%list /\
         length tr = length used /\
         Codec2.run_many cf s used = State2.Ok s' /\
         (forall (k : nat) (x : State2.sim),
          List.nth_error tr k = Some x ->
          Codec2.run_many cf s (List.firstn k used) = State2.Ok x) /\
         (rest <> nil -> HorizonCount2.before2 T s' = false) /\
         Conserve2.WFx2 nil s' /\
         (List.Forall Clock2.DrawsOK used ->
          List.Forall
            (fun x : State2.sim =>
             HorizonCount2.next_date2 x = Some (State2.now x) /\
             BinInt.Z.lt (State2.now x) T) tr /\
          HorizonCount2.chain (State2.now s)
            (List.map State2.now tr ++ State2.now s' :: nil) /\
          List.Forall (Horizon2.Hzn2 cf) tr /\
          Horizon2.Hzn2 cf s' /\
          (HorizonCount2.before2 T s' = false ->
           (BinInt.Z.le T (State2.now s') \/ Clock2.nothing_scheduled s') /\
           Horizon2.NothingBefore2 cf T s')).
Proof. exact Horizon2.engine_horizon2. Qed.
Print Assumptions engine_horizon2.

Theorem Hzn2_means :
  forall (cf : State2.config) (T : BinNums.Z) (s : State2.sim),
       Horizon2.Hzn2 cf s ->
       HorizonCount2.before2 T s = false ->
       (BinInt.Z.le T (State2.now s) \/ Clock2.nothing_scheduled s) /\
       Horizon2.NothingBefore2 cf T s.
Proof. exact Horizon2.Hzn2_means. Qed.
Print Assumptions Hzn2_means.

Theorem run_many_hzn2 :
  forall cf : State2.config,
       Clock2.scope cf = true ->
       forall (ds : list State2.draws) (s s' : State2.sim),
       Horizon2.Hzn2 cf s ->
       List.Forall Clock2.DrawsOK ds ->
       Codec2.run_many cf s ds = State2.Ok s' ->
       Horizon2.Hzn2 cf s' /\ BinInt.Z.le (State2.now s) (State2.now s').
Proof. exact Horizon2.run_many_hzn2. Qed.
Print Assumptions run_many_hzn2.

Theorem hzn2_b_sound :
  forall (cf : State2.config) (s : State2.sim),
       Horizon2.hzn2_b cf s = true -> Horizon2.Hzn2 cf s.
Proof. exact Horizon2.hzn2_b_sound. Qed.
Print Assumptions hzn2_b_sound.

Theorem clk2_not_fresh :
  exists (cf : State2.config) (s : State2.sim) 
       (T : BinNums.Z),
         Clock2.scope cf = true /\
         Clock2.Clk2 cf s /\
         HorizonCount2.CInv cf s /\
         HorizonCount2.before2 T s = false /\
         (exists ds : list State2.draws,
            HorizonCount2.run_until2 cf T s ds = State2.Ok (s, ds) /\
            ds <> nil) /\
         (exists (nd : State2.node) (sv : State2.server) 
          (e : BinNums.Z),
            List.In nd (State2.nodes s) /\
            List.In sv (State2.n_servers nd) /\
            State2.sv_next_end sv = Some e /\ BinInt.Z.lt e T).
Proof. exact Horizon2.clk2_not_fresh. Qed.
Print Assumptions clk2_not_fresh.

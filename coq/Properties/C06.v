(* Property C06 -- statements only. *)
From Coq Require Import ZArith List.
From CiwV Require Import Sx Acc.C06.

Theorem C06_sound : forall cf tr st, C06.acc cf tr = Accept st -> C06.P_C06 cf tr.
Proof. exact C06.C06_sound. Qed.
Print Assumptions C06_sound.

Theorem C06_rejected_iff_full : forall cf ps n p c sp sc d ps',
  C06.step cf ps (C06.Spawn n p c sp sc d) = inl ps' ->
  C06.get ps (C06.idx n) = Some p /\ Prelude.zsum ps = sp /\ ps' = ps /\
  (d = 0%Z <-> (C06.lt_cap p c = false \/ C06.lt_cap sp sc = false)).
Proof. exact C06.spawn_iff. Qed.
Print Assumptions C06_rejected_iff_full.

(* ---- T2: the engine model (coq/Engine, tied to /repo by the stepwise correspondence check K2) never exceeds a capacity ---- *)
From CiwV.Engine Require Import State Engine Codec.
From CiwV.Inv Require Import Frame Conserve ConserveRun Capacity SysCap CapacityRun.

(* for every configuration, every state satisfying the invariants, every oracle of draws and any number of events *)
Theorem engine_capacity : forall cf ds s s',
  Conserve.WFx nil s -> Capacity.J cf s -> SysCap.Sysq cf s -> Codec.run_many cf s ds = Ok s' ->
  (forall k nd c, nth_error (nodes s') k = Some nd -> Capacity.cap_of cf (Z.of_nat k + 1) = Some c -> (n_pop nd <= c)%Z) /\
  (forall sc, cf_syscap cf = Some sc -> (Prelude.zsum (map n_pop (nodes s')) <= sc)%Z).
Proof. exact CapacityRun.engine_capacity. Qed.
Print Assumptions engine_capacity.

(* one event: node capacities, system capacity *)
Theorem event_step_cap : forall cf s s', Capacity.J cf s -> Engine.event_step cf s = Ok (tt, s') -> Capacity.J cf s'.
Proof. exact Capacity.event_step_cap. Qed.
Print Assumptions event_step_cap.
Theorem event_step_sys : forall cf s s', SysCap.Sysq cf s -> Engine.event_step cf s = Ok (tt, s') -> SysCap.Sysq cf s'.
Proof. exact SysCap.event_step_sys. Qed.
Print Assumptions event_step_sys.

(* the executable test of the hypotheses used by the correspondence check on the real engine's initial snapshot *)
Theorem cap_b_sound : forall cf s, CapacityRun.cap_b cf s = true -> Capacity.J cf s /\ SysCap.Sysq cf s.
Proof. exact CapacityRun.cap_b_sound. Qed.
Print Assumptions cap_b_sound.

(* Property C06 -- statements only. *)
From Coq Require Import ZArith List.
From CiwV Require Import Sx Acc.C06.

Theorem C06_sound : forall cf tr st, C06.acc cf tr = Accept st -> C06.P_C06 cf tr.
Proof. exact C06.C06_sound. Qed.
Print Assumptions C06_sound.

Theorem C06_rejected_iff_full : forall cf ps n p c sp sc d ps',
  C06.step cf ps (C06.Spawn n p c sp sc d) = inl ps' ->
  C06.get ps (C06.idx n) = Some p /\ Prelude.zsum ps = sp /\ ps' = ps /\
  (d = 0%Z <-> (C06.lt_cap p c = false \/ C06.lt_cap sp sc = false)).
Proof. exact C06.spawn_iff. Qed.
Print Assumptions C06_rejected_iff_full.

(* ---- T2: the engine model (coq/Engine, tied to /repo by the stepwise correspondence check K2) never exceeds a capacity ---- *)
From CiwV.Engine Require Import State Engine Codec.
From CiwV.Inv Require Import Frame Conserve ConserveRun Capacity SysCap CapacityRun.

(* for every configuration, every state satisfying the invariants, every oracle of draws and any number of events *)
Theorem engine_capacity : forall cf ds s s',
  Conserve.WFx nil s -> Capacity.J cf s -> SysCap.Sysq cf s -> Codec.run_many cf s ds = Ok s' ->
  (forall k nd c, nth_error (nodes s') k = Some nd -> Capacity.cap_of cf (Z.of_nat k + 1) = Some c -> (n_pop nd <= c)%Z) /\
  (forall sc, cf_syscap cf = Some sc -> (Prelude.zsum (map n_pop (nodes s')) <= sc)%Z).
Proof. exact CapacityRun.engine_capacity. Qed.
Print Assumptions engine_capacity.

(* one event: node capacities, system capacity *)
Theorem event_step_cap : forall cf s s', Capacity.J cf s -> Engine.event_step cf s = Ok (tt, s') -> Capacity.J cf s'.
Proof. exact Capacity.event_step_cap. Qed.
Print Assumptions event_step_cap.
Theorem event_step_sys : forall cf s s', SysCap.Sysq cf s -> Engine.event_step cf s = Ok (tt, s') -> SysCap.Sysq cf s'.
Proof. exact SysCap.event_step_sys. Qed.
Print Assumptions event_step_sys.

(* the executable test of the hypotheses used by the correspondence check on the real engine's initial snapshot *)
Theorem cap_b_sound : forall cf s, CapacityRun.cap_b cf s = true -> Capacity.J cf s /\ SysCap.Sysq cf s.
Proof. exact CapacityRun.cap_b_sound. Qed.
Print Assumptions cap_b_sound.

(* ---- T2, second sentence of C06 (function level, engine model stage 1): an external arrival is rejected exactly when its node or the
   system is full at that instant ---- *)
From CiwV.Inv Require Import Admit.
Theorem rejected_iff_full : forall cf j x s s' nd nc, Engine.release_individual cf j x s = Ok (tt, s') ->
  Engine.nthZ (nodes s) (j - 1) = Some nd -> Engine.nthZ (cf_nodes cf) (j - 1) = Some nc -> (forall r, In r (log s) -> r_type r <> 4%Z) ->
  ((exists r, In r (log s') /\ r_type r = 4%Z /\ r_id r = i_id x) <-> orb (Admit.node_full nc nd) (Admit.system_full cf s) = true).
Proof. exact Admit.rejected_iff_full. Qed.
Print Assumptions rejected_iff_full.
(* the full case analysis: rejected (at the exit at once, record of type 4 showing the population seen, no node changes), baulked by its own
   decision (type 3, u < p for the population seen), or admitted (counted as accepted and handed to the node's accept) *)
(* proved in Inv/Admit.v as release_individual_admission; rejected_iff_full is its corollary *)

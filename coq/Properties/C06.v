(* Property C06 -- statements only. *)
From Coq Require Import ZArith List.
From CiwV Require Import Sx Acc.C06.

Theorem C06_sound : forall cf tr st, C06.acc cf tr = Accept st -> C06.P_C06 cf tr.
Proof. exact C06.C06_sound. Qed.
Print Assumptions C06_sound.

Theorem C06_rejected_iff_full : forall cf ps n p c sp sc d ps',
  C06.step cf ps (C06.Spawn n p c sp sc d) = inl ps' ->
  C06.get ps (C06.idx n) = Some p /\ Prelude.zsum ps = sp /\ ps' = ps /\
  (d = 0%Z <-> (C06.lt_cap p c = false \/ C06.lt_cap sp sc = false)).
Proof. exact C06.spawn_iff. Qed.
Print Assumptions C06_rejected_iff_full.

(* Property C08 -- statements about the STAGE-2 engine model (coq/Engine/Engine2.v), statements only; proofs in coq/Inv/Order2.v.
   The model is tied to /repo by the stepwise correspondence check K2 (harness/engine_k2b.py). *)
From Coq Require Import ZArith List Bool Permutation.
From CiwV Require Import Sx Prelude Routing Sched.
From CiwV.Engine Require Import State2 Engine2 Codec2.
From CiwV.Inv Require Order2.
Import ListNotations.
Open Scope Z_scope.

Theorem chosen_is_prescribed :
  forall (cf : State2.config) (j : BinNums.Z) 
         (s : State2.sim) (c : BinNums.Z) (s' : State2.sim),
       Engine2.choose_next_customer cf j s = State2.Ok (Some c, s') ->
       exists
         (nd : State2.node) (pre : list (list BinNums.Z)) 
       (q : list BinNums.Z) (post : list (list BinNums.Z)) 
       (d : BinNums.Z),
         Order2.node_at s j nd /\
         State2.n_queues nd = (pre ++ q :: post)%list /\
         Order2.disc_of cf j = Some d /\
         List.In c q /\
         Order2.iswait (State2.inds s) c = true /\
         (forall (q' : list BinNums.Z) (i : BinNums.Z),
          List.In q' pre ->
          List.In i q' -> Order2.iswait (State2.inds s) i = false) /\
         (d = BinNums.Z0 ->
          exists a b : list BinNums.Z,
            q = (a ++ c :: b)%list /\
            (forall i : BinNums.Z,
             List.In i a -> Order2.iswait (State2.inds s) i = false)) /\
         (d = BinNums.Zpos BinNums.xH ->
          exists a b : list BinNums.Z,
            q = (a ++ c :: b)%list /\
            (forall i : BinNums.Z,
             List.In i b -> Order2.iswait (State2.inds s) i = false)) /\
         (d <> BinNums.Z0 ->
          d <> BinNums.Zpos BinNums.xH ->
          exists (u : BinNums.Z) (ur : list BinNums.Z),
            State2.d_unif (State2.dr s) = (u :: ur)%list /\
            List.nth_error (List.filter (Order2.iswait (State2.inds s)) q)
              (Routing.rc_uniform
                 (length (List.filter (Order2.iswait (State2.inds s)) q)) u) =
            Some c).
Proof. exact Order2.chosen_is_prescribed. Qed.
Print Assumptions chosen_is_prescribed.

Theorem none_chosen_none_waiting :
  forall (cf : State2.config) (j : BinNums.Z) (s s' : State2.sim),
       Engine2.choose_next_customer cf j s = State2.Ok (None, s') ->
       exists nd : State2.node,
         Order2.node_at s j nd /\
         (forall (q : list BinNums.Z) (i : BinNums.Z),
          List.In q (State2.n_queues nd) ->
          List.In i q -> Order2.iswait (State2.inds s) i = false).
Proof. exact Order2.none_chosen_none_waiting. Qed.
Print Assumptions none_chosen_none_waiting.

Theorem fifo_no_overtaking :
  forall (cf : State2.config) (j : BinNums.Z) 
         (s : State2.sim) (c : BinNums.Z) (s' : State2.sim),
       Order2.disc_of cf j = Some BinNums.Z0 ->
       Engine2.choose_next_customer cf j s = State2.Ok (Some c, s') ->
       exists
         (nd : State2.node) (pre : list (list BinNums.Z)) 
       (a b : list BinNums.Z) (post : list (list BinNums.Z)),
         Order2.node_at s j nd /\
         State2.n_queues nd = (pre ++ (a ++ c :: b) :: post)%list /\
         Order2.iswait (State2.inds s) c = true /\
         (forall o : BinNums.Z,
          List.In o a \/
          (exists q' : list BinNums.Z, List.In q' pre /\ List.In o q') ->
          Order2.iswait (State2.inds s) o = false).
Proof. exact Order2.fifo_no_overtaking. Qed.
Print Assumptions fifo_no_overtaking.

Theorem serve_with_starts :
  forall (cf : State2.config) (j sid : BinNums.Z) (s s' : State2.sim),
       Engine2.serve_with cf j sid s = State2.Ok (tt, s') ->
       exists nd : State2.node,
         Order2.node_at s j nd /\
         (BinInt.Z.lt BinNums.Z0 (State2.n_nint nd) /\
          (exists i : BinNums.Z,
             List.hd_error (State2.n_interrupted nd) = Some i /\
             Order2.chg i (Order2.Restarted (State2.now s) sid) s s') \/
          BinInt.Z.le (State2.n_nint nd) BinNums.Z0 /\
          Engine2.first_waiting (State2.n_queues nd) (State2.inds s) = nil /\
          s' = s \/
          BinInt.Z.le (State2.n_nint nd) BinNums.Z0 /\
          (exists d c : BinNums.Z,
             Order2.disc_of cf j = Some d /\
             Order2.Chosen d
               (Engine2.first_waiting (State2.n_queues nd) (State2.inds s))
               (State2.d_unif (State2.dr s)) c /\
             Order2.chg c (Order2.StartedW (State2.now s) (Some sid)) s s')).
Proof. exact Order2.serve_with_starts. Qed.
Print Assumptions serve_with_starts.

Theorem change_shift_starts :
  forall (cf : State2.config) (j : BinNums.Z) (s s' : State2.sim),
       Order2.Idx s ->
       Engine2.change_shift cf j s = State2.Ok (tt, s') ->
       exists
         (s1 : State2.sim) (nd : State2.node) (l : 
                                               list 
                                                 (BinNums.Z * BinNums.Z)),
         Order2.Idx s1 /\
         Order2.node_at s1 j nd /\
         Order2.Starts cf j
           (List.map State2.sv_id
              (List.filter
                 (fun sv : State2.server => negb (State2.sv_busy sv))
                 (State2.n_servers nd))) s1 l s'.
Proof. exact Order2.change_shift_starts. Qed.
Print Assumptions change_shift_starts.

Theorem slotted_service_starts :
  forall (cf : State2.config) (j : BinNums.Z) (s s' : State2.sim),
       Order2.Idx s ->
       Engine2.slotted_service cf j s = State2.Ok (tt, s') ->
       exists
         (nc : State2.ncfg) (sl : State2.slotcfg) 
       (nd : State2.node) (s0 s1 : State2.sim) (l : list BinNums.Z),
         Engine2.nthZ (State2.cf_nodes cf)
           (BinInt.Z.sub j (BinNums.Zpos BinNums.xH)) = 
         Some nc /\
         State2.nc_srv nc = State2.SSlot sl /\
         Order2.node_at s j nd /\
         Order2.slot_interrupt cf j sl nd (Order2.slot_size sl nd) s =
         State2.Ok (tt, s0) /\
         Order2.Idx s0 /\
         Order2.SlotStarts cf j (BinInt.Z.to_nat (Order2.slot_num sl nd)) s0
           l s1 /\ Order2.same s1 s' /\ Order2.same_queues s1 s'.
Proof. exact Order2.slotted_service_starts. Qed.
Print Assumptions slotted_service_starts.

Theorem accept_tail_starts :
  forall (cf : State2.config)
         (pre : BinNums.Z -> BinNums.Z -> BinNums.Z -> Engine2.M unit)
         (j i : BinNums.Z) (nc : State2.ncfg) (s0 s' : State2.sim),
       Order2.accept_tail cf pre j i nc s0 = State2.Ok (tt, s') ->
       exists nd1 : State2.node,
         Order2.node_at s0 j nd1 /\
         (State2.n_c nd1 = None /\
          Order2.chg i
            (fun a b : State2.ind =>
             Order2.StartedW (State2.now s0) (State2.i_server a) a b) s0 s' \/
          State2.n_c nd1 <> None /\
          Engine2.first_waiting (State2.n_queues nd1) (State2.inds s0) = nil /\
          s' = s0 \/
          State2.n_c nd1 <> None /\
          (exists (d c : BinNums.Z) (cx : State2.ind),
             Order2.disc_of cf j = Some d /\
             Order2.Chosen d
               (Engine2.first_waiting (State2.n_queues nd1) (State2.inds s0))
               (State2.d_unif (State2.dr s0)) c /\
             Engine2.find_ind c (State2.inds s0) = Some cx /\
             (let s1 :=
                if
                 (BinInt.Z.eqb d BinNums.Z0
                  || BinInt.Z.eqb d (BinNums.Zpos BinNums.xH))%bool
                then s0
                else Order2.took_unif s0 in
              match
                Engine2.find_free_server_for (State2.nc_spf nc)
                  (State2.i_cls cx) (State2.n_servers nd1)
              with
              | Some sv =>
                  Order2.chg c
                    (Order2.StartedW (State2.now s0) (Some (State2.sv_id sv)))
                    s0 s'
              | None =>
                  if BinInt.Z.ltb BinNums.Z0 (Engine2.numo (State2.n_c nd1))
                  then
                   exists v : option BinNums.Z,
                     Engine2.preempt_victim cf j c s1 = State2.Ok (v, s1) /\
                     match v with
                     | Some vi => pre j vi c s1 = State2.Ok (tt, s')
                     | None => s' = s1
                     end
                  else s' = s1
              end))).
Proof. exact Order2.accept_tail_starts. Qed.
Print Assumptions accept_tail_starts.

Theorem preempt_starts :
  forall (cf : State2.config) (f : nat) (j v i : BinNums.Z)
         (s s' : State2.sim),
       Engine2.preempt cf (S f) j v i s = State2.Ok (tt, s') ->
       exists
         (vx : State2.ind) (nc : State2.ncfg) (sid : BinNums.Z) 
       (s0 s1 : State2.sim),
         Engine2.find_ind v (State2.inds s) = Some vx /\
         Engine2.nthZ (State2.cf_nodes cf)
           (BinInt.Z.sub j (BinNums.Zpos BinNums.xH)) = 
         Some nc /\
         State2.i_server vx = Some sid /\
         Order2.chg v
           (fun a b : State2.ind =>
            b =
            RecordSet.set State2.i_ost
              (fun _ : option BinNums.Z => State2.i_stime a) a) s s0 /\
         Order2.preempt_victim_part cf (Engine2.release cf f) j v
           (State2.now s) vx nc s0 = State2.Ok (tt, s1) /\
         Order2.chg i (Order2.StartedW (State2.now s1) (Some sid)) s1 s'.
Proof. exact Order2.preempt_starts. Qed.
Print Assumptions preempt_starts.

Theorem accept_enqueues :
  forall (cf : State2.config) (f : nat) (j i : BinNums.Z)
         (s s' : State2.sim),
       Order2.Idx s ->
       Engine2.accept cf (S f) j i s = State2.Ok (tt, s') ->
       exists
         (x : State2.ind) (nd : State2.node) (q : list BinNums.Z) 
       (nc : State2.ncfg) (s0 : State2.sim) (nd0 : State2.node),
         Engine2.find_ind i (State2.inds s) = Some x /\
         Order2.node_at s j nd /\
         Engine2.nthZ (State2.n_queues nd) (State2.i_prio x) = Some q /\
         Engine2.nthZ (State2.cf_nodes cf)
           (BinInt.Z.sub j (BinNums.Zpos BinNums.xH)) = 
         Some nc /\
         Order2.Idx s0 /\
         State2.now s0 = State2.now s /\
         Order2.node_at s0 j nd0 /\
         State2.n_queues nd0 =
         Engine2.updZ (State2.n_queues nd) (State2.i_prio x)
           (q ++ i :: nil)%list /\
         (forall (j' : BinNums.Z) (nd' : State2.node),
          j' <> j ->
          Order2.node_at s j' nd' ->
          exists nd'' : State2.node,
            Order2.node_at s0 j' nd'' /\
            State2.n_queues nd'' = State2.n_queues nd') /\
         Order2.chg i
           (fun a b : State2.ind =>
            a = x /\ Order2.Arrived j (State2.now s) x b) s s0 /\
         Order2.accept_tail cf (Engine2.preempt cf f) j i nc s0 =
         State2.Ok (tt, s').
Proof. exact Order2.accept_enqueues. Qed.
Print Assumptions accept_enqueues.

Theorem class_change_moves_to_tail :
  forall (cf : State2.config) (j : BinNums.Z) (s s' : State2.sim),
       Order2.Idx s ->
       Engine2.change_customer_class_while_waiting cf j s =
       State2.Ok (tt, s') ->
       exists
         (nd : State2.node) (i : BinNums.Z) (x : State2.ind) 
       (ncl p' : BinNums.Z),
         Order2.node_at s j nd /\
         List.hd_error (State2.n_next_inds nd) = Some i /\
         Engine2.find_ind i (State2.inds s) = Some x /\
         State2.i_ncls x = Some ncl /\
         Engine2.nthZ (State2.cf_prio cf) ncl = Some p' /\
         (let s0 :=
            RecordSet.set State2.inds
              (fun _ : list State2.ind =>
               Engine2.put_ind_l
                 (RecordSet.set State2.i_prio (fun _ : BinNums.Z => p')
                    (RecordSet.set State2.i_cls (fun _ : BinNums.Z => ncl) x))
                 (State2.inds s)) s in
          p' = State2.i_pprio x /\
          Order2.ccww_finish cf j i ncl s0 = State2.Ok (tt, s') \/
          p' <> State2.i_pprio x /\
          (exists (q q' qn : list BinNums.Z) (s2 : State2.sim),
             Engine2.nthZ (State2.n_queues nd) (State2.i_pprio x) = Some q /\
             Engine2.remove_first i q = Some q' /\
             Engine2.nthZ
               (Engine2.updZ (State2.n_queues nd) (State2.i_pprio x) q') p' =
             Some qn /\
             (let s1 :=
                RecordSet.set State2.nodes
                  (fun _ : list State2.node =>
                   Engine2.updZ (State2.nodes s0)
                     (BinInt.Z.sub j (BinNums.Zpos BinNums.xH))
                     (RecordSet.set State2.n_queues
                        (fun _ : list (list BinNums.Z) =>
                         Engine2.updZ
                           (Engine2.updZ (State2.n_queues nd)
                              (State2.i_pprio x) q') p' 
                           (qn ++ i :: nil)%list) nd)) s0 in
              Order2.ccww_preempt cf j i nd s1 = State2.Ok (tt, s2) /\
              Order2.ccww_finish cf j i ncl s2 = State2.Ok (tt, s')))).
Proof. exact Order2.class_change_moves_to_tail. Qed.
Print Assumptions class_change_moves_to_tail.

Theorem queue_order_is_order_of_joining :
  forall (cf : State2.config) (ds : list State2.draws)
         (s s' : State2.sim) (k : nat) (nd : State2.node) 
         (p : nat) (q : list BinNums.Z),
       Order2.Idx s ->
       Codec2.run_many cf s ds = State2.Ok s' ->
       List.nth_error (State2.nodes s) k = Some nd ->
       List.nth_error (State2.n_queues nd) p = Some q ->
       exists (nd' : State2.node) (kept added : list BinNums.Z),
         List.nth_error (State2.nodes s') k = Some nd' /\
         State2.n_id nd' = State2.n_id nd /\
         List.nth_error (State2.n_queues nd') p = Some (kept ++ added)%list /\
         Order2.Subseq kept q.
Proof. exact Order2.queue_order_is_order_of_joining. Qed.
Print Assumptions queue_order_is_order_of_joining.

Theorem fifo_by_arrival_date_refuted :
  exists
         (cf : State2.config) (s : State2.sim) (ds : list State2.draws) 
       (s' : State2.sim) (a b : BinNums.Z) (xa xb : State2.ind) 
       (t : BinNums.Z),
         Order2.Idx_b s = true /\
         List.forallb
           (fun nc : State2.ncfg =>
            BinInt.Z.eqb (State2.nc_disc nc) BinNums.Z0) 
           (State2.cf_nodes cf) = true /\
         Codec2.run_many cf s ds = State2.Ok s' /\
         Engine2.find_ind a (State2.inds s') = Some xa /\
         Engine2.find_ind b (State2.inds s') = Some xb /\
         State2.i_node xa = State2.i_node xb /\
         State2.i_cls xa = State2.i_cls xb /\
         State2.i_prio xa = State2.i_prio xb /\
         State2.i_server xa = None /\
         State2.i_sst xb = Some t /\
         State2.i_arr xa = Some (BinNums.Zpos (BinNums.xO BinNums.xH)) /\
         State2.i_arr xb = Some (BinNums.Zpos (BinNums.xI BinNums.xH)) /\
         t =
         BinNums.Zpos
           (BinNums.xI
              (BinNums.xO
                 (BinNums.xI
                    (BinNums.xO (BinNums.xO (BinNums.xI BinNums.xH)))))).
Proof. exact Order2.fifo_by_arrival_date_refuted. Qed.
Print Assumptions fifo_by_arrival_date_refuted.

Theorem preemptor_started_twice_refuted :
  exists
         (cf : State2.config) (f : nat) (j v i : BinNums.Z) 
       (s : State2.sim) (vx : State2.ind) (nc : State2.ncfg) 
       (s0 s1 s' : State2.sim) (sid : BinNums.Z),
         Order2.Idx_b s = true /\
         Order2.accept_body cf (fun _ _ _ : BinNums.Z => Engine2.ret tt) j i
           Order2.f11_acc = State2.Ok (tt, s) /\
         Order2.iswait (State2.inds s) i = true /\
         Engine2.choose_next_customer cf j s = State2.Ok (Some i, s) /\
         Engine2.preempt_victim cf j i s = State2.Ok (Some v, s) /\
         Engine2.preempt cf (S f) j v i s = State2.Ok (tt, s') /\
         Engine2.find_ind v (State2.inds s) = Some vx /\
         Engine2.nthZ (State2.cf_nodes cf)
           (BinInt.Z.sub j (BinNums.Zpos BinNums.xH)) = 
         Some nc /\
         State2.nc_preempt nc =
         BinNums.Zpos (BinNums.xO (BinNums.xO BinNums.xH)) /\
         State2.i_server vx = Some sid /\
         s0 =
         RecordSet.set State2.inds
           (fun _ : list State2.ind =>
            Engine2.put_ind_l
              (RecordSet.set State2.i_ost
                 (fun _ : option BinNums.Z => State2.i_stime vx) vx)
              (State2.inds s)) s /\
         Order2.preempt_victim_part cf (Engine2.release cf f) j v
           (State2.now s) vx nc s0 = State2.Ok (tt, s1) /\
         Order2.iswait (State2.inds s1) i = false /\
         (exists xi : State2.ind,
            Engine2.find_ind i (State2.inds s1) = Some xi /\
            State2.i_server xi = Some sid /\
            State2.i_sst xi = Some (State2.now s)) /\
         Engine2.start_preemptor cf j i sid s1 = State2.Ok (tt, s').
Proof. exact Order2.preemptor_started_twice_refuted. Qed.
Print Assumptions preemptor_started_twice_refuted.

(* Property C13 -- statements only. *)
From Coq Require Import ZArith List.
From CiwV Require Import Sx Acc.C13.

(* T1: on every accepted event list, of any length: patience is sampled at arrival; a renege happens exactly at
   arrival + patience, only to a customer not in service, which goes to its jockeying destination in the same frame
   with a renege record; after every event no waiting customer has outwaited its patience; a customer baulks iff
   u < p(true population), leaves at once with a baulk record, and is admitted otherwise. *)
Theorem C13_sound : forall es stt, C13.acc es = Accept stt -> C13.P_C13 es.
Proof. exact C13.C13_sound. Qed.
Print Assumptions C13_sound.

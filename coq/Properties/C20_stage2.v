(* Property C20 -- statements about the STAGE-2 engine model (coq/Engine/Engine2.v), statements only; proofs in coq/Inv/DateSum2.v.
   The model is tied to /repo by the stepwise correspondence check K2 (harness/engine_k2b.py). *)
From Coq Require Import ZArith List Bool Permutation.
From CiwV Require Import Sx Prelude Routing Sched.
From CiwV.Engine Require Import State2 Engine2 Codec2.
From CiwV.Inv Require DateSum2.
Import ListNotations.
Open Scope Z_scope.

Theorem event_step_grid :
  forall (g : Z) (cf : State2.config) (s : State2.sim)
         (d : State2.draws) (s' : State2.sim),
       DateSum2.Grid g cf ->
       DateSum2.OnGrid g s ->
       DateSum2.DrawsOn g d ->
       Engine2.event_step cf
         (RecordSet.set State2.dr (fun _ : State2.draws => d) s) =
       State2.Ok (tt, s') -> DateSum2.OnGrid g s'.
Proof. exact DateSum2.event_step_grid. Qed.
Print Assumptions event_step_grid.

Theorem event_step_records :
  forall (g : Z) (cf : State2.config) (s : State2.sim)
         (d : State2.draws) (s' : State2.sim),
       DateSum2.Grid g cf ->
       DateSum2.OnGrid g s ->
       DateSum2.DrawsOn g d ->
       Engine2.event_step cf
         (RecordSet.set State2.dr (fun _ : State2.draws => d) s) =
       State2.Ok (tt, s') -> DateSum2.LogOn g (State2.log s').
Proof. exact DateSum2.event_step_records. Qed.
Print Assumptions event_step_records.

Theorem run_many_grid :
  forall (g : Z) (cf : State2.config) (ds : list State2.draws)
         (s s' : State2.sim),
       DateSum2.Grid g cf ->
       DateSum2.OnGrid g s ->
       Forall (DateSum2.DrawsOn g) ds ->
       Codec2.run_many cf s ds = State2.Ok s' -> DateSum2.OnGrid g s'.
Proof. exact DateSum2.run_many_grid. Qed.
Print Assumptions run_many_grid.

Theorem run_many_log :
  forall (g : Z) (cf : State2.config) (ds : list State2.draws)
         (s s' : State2.sim),
       DateSum2.Grid g cf ->
       DateSum2.OnGrid g s ->
       DateSum2.LogOn g (State2.log s) ->
       Forall (DateSum2.DrawsOn g) ds ->
       Codec2.run_many cf s ds = State2.Ok s' ->
       DateSum2.LogOn g (State2.log s').
Proof. exact DateSum2.run_many_log. Qed.
Print Assumptions run_many_log.

Theorem records_grid :
  forall (g : Z) (cf : State2.config) (ds : list State2.draws)
         (s : State2.sim) (l : list State2.rec),
       DateSum2.Grid g cf ->
       DateSum2.OnGrid g s ->
       Forall (DateSum2.DrawsOn g) ds ->
       DateSum2.run_records cf s ds = State2.Ok l -> DateSum2.LogOn g l.
Proof. exact DateSum2.records_grid. Qed.
Print Assumptions records_grid.

Theorem no_drift :
  forall (g : Z) (cf : State2.config) (ds : list State2.draws)
         (s : State2.sim) (l : list State2.rec),
       DateSum2.Grid g cf ->
       DateSum2.OnGrid g s ->
       Forall (DateSum2.DrawsOn g) ds ->
       DateSum2.run_records cf s ds = State2.Ok l ->
       forall (r : State2.rec) (z : Z),
       In r l ->
       In (Some z) (DateSum2.rec_times r) -> exists k : Z, z = (k * g)%Z.
Proof. exact DateSum2.no_drift. Qed.
Print Assumptions no_drift.

Theorem run_many_tt :
  forall (g : Z) (cf : State2.config) (ds : list State2.draws)
         (s s' : State2.sim),
       DateSum2.Timetable g cf ->
       DateSum2.OnGrid g s ->
       Forall (DateSum2.DrawsOn g) ds ->
       Codec2.run_many cf s ds = State2.Ok s' -> DateSum2.OnGrid g s'.
Proof. exact DateSum2.run_many_tt. Qed.
Print Assumptions run_many_tt.

Theorem records_tt :
  forall (g : Z) (cf : State2.config) (ds : list State2.draws)
         (s : State2.sim) (l : list State2.rec),
       DateSum2.Timetable g cf ->
       DateSum2.OnGrid g s ->
       Forall (DateSum2.DrawsOn g) ds ->
       DateSum2.run_records cf s ds = State2.Ok l -> DateSum2.LogOn g l.
Proof. exact DateSum2.records_tt. Qed.
Print Assumptions records_tt.

Theorem dates_in_generated_group :
  forall (cf : State2.config) (s : State2.sim) 
         (ds : list State2.draws) (l : list State2.rec),
       DateSum2.run_records cf s ds = State2.Ok l ->
       forall (r : State2.rec) (z : Z),
       In r l ->
       In (Some z) (DateSum2.rec_times r) ->
       exists cs : list Z,
         length cs = length (DateSum2.generators cf s ds) /\
         z = DateSum2.zdot cs (DateSum2.generators cf s ds).
Proof. exact DateSum2.dates_in_generated_group. Qed.
Print Assumptions dates_in_generated_group.

Theorem state_in_generated_group :
  forall (cf : State2.config) (s : State2.sim) 
         (ds : list State2.draws) (s' : State2.sim),
       Codec2.run_many cf s ds = State2.Ok s' ->
       DateSum2.OnGrid (DateSum2.zgcd (DateSum2.generators cf s ds)) s'.
Proof. exact DateSum2.state_in_generated_group. Qed.
Print Assumptions state_in_generated_group.

Theorem wrap_up_servers_grid :
  forall (g t : Z) (s s' : State2.sim),
       DateSum2.dv g t ->
       DateSum2.OnGrid g s ->
       Engine2.wrap_up_servers t s = State2.Ok (tt, s') ->
       DateSum2.OnGrid g s'.
Proof. exact DateSum2.wrap_up_servers_grid. Qed.
Print Assumptions wrap_up_servers_grid.

Theorem OnGrid_finer :
  forall (g g' : Z) (s : State2.sim),
       (g' | g)%Z -> DateSum2.OnGrid g s -> DateSum2.OnGrid g' s.
Proof. exact DateSum2.OnGrid_finer. Qed.
Print Assumptions OnGrid_finer.

Theorem ongrid_b_sound :
  forall (g : Z) (cf : State2.config) (s : State2.sim),
       DateSum2.ongrid_b g cf s = true -> DateSum2.OnGrid g s.
Proof. exact DateSum2.ongrid_b_sound. Qed.
Print Assumptions ongrid_b_sound.

Theorem ongrid_b_complete :
  forall (g : Z) (cf : State2.config) (s : State2.sim),
       DateSum2.OnGrid g s -> DateSum2.ongrid_b g cf s = true.
Proof. exact DateSum2.ongrid_b_complete. Qed.
Print Assumptions ongrid_b_complete.

Theorem grid_b_sound :
  forall (g : Z) (cf : State2.config),
       DateSum2.grid_b g cf = true -> DateSum2.Grid g cf.
Proof. exact DateSum2.grid_b_sound. Qed.
Print Assumptions grid_b_sound.

Theorem drawson_b_sound :
  forall (g : Z) (d : State2.draws),
       DateSum2.drawson_b g d = true -> DateSum2.DrawsOn g d.
Proof. exact DateSum2.drawson_b_sound. Qed.
Print Assumptions drawson_b_sound.

Theorem logon_b_sound :
  forall (g : Z) (l : list State2.rec),
       DateSum2.logon_b g l = true -> DateSum2.LogOn g l.
Proof. exact DateSum2.logon_b_sound. Qed.
Print Assumptions logon_b_sound.

Theorem off_grid_timetable_leaves_grid :
  exists s' : State2.sim,
         DateSum2.grid_b 5 DateSum2.ex_cf7 = false /\
         DateSum2.ongrid_b 5 DateSum2.ex_cf7 DateSum2.ex_s0 = true /\
         DateSum2.drawson_b 5 DateSum2.no_draws = true /\
         Engine2.event_step DateSum2.ex_cf7
           (RecordSet.set State2.dr
              (fun _ : State2.draws => DateSum2.no_draws) DateSum2.ex_s0) =
         State2.Ok (tt, s') /\
         DateSum2.ongrid_b 5 DateSum2.ex_cf7 s' = false /\
         map State2.n_next_shift (State2.nodes s') = Some 7%Z :: nil.
Proof. exact DateSum2.off_grid_timetable_leaves_grid. Qed.
Print Assumptions off_grid_timetable_leaves_grid.

Theorem off_grid_sample_leaves_grid :
  exists (d : State2.draws) (s' : State2.sim),
         DateSum2.grid_b 5 DateSum2.ex_cf = true /\
         DateSum2.ongrid_b 5 DateSum2.ex_cf DateSum2.ex_s1 = true /\
         DateSum2.drawson_b 5 d = false /\
         Engine2.event_step DateSum2.ex_cf
           (RecordSet.set State2.dr (fun _ : State2.draws => d)
              DateSum2.ex_s1) = State2.Ok (tt, s') /\
         DateSum2.ongrid_b 5 DateSum2.ex_cf s' = false /\
         map
           (fun x : State2.ind =>
            (State2.i_sst x, State2.i_stime x, State2.i_send x))
           (State2.inds s') = (Some 5%Z, Some 7%Z, Some 12%Z) :: nil.
Proof. exact DateSum2.off_grid_sample_leaves_grid. Qed.
Print Assumptions off_grid_sample_leaves_grid.

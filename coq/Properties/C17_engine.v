(* Property C17 -- statements about the (stage-1) ENGINE MODEL: every built-in tracker's incremental updates, folded over the calls the
   engine makes, give the TRUE state of the configuration after any number of events (proofs in coq/Inv/TrackerInc.v).  The ghost call
   lists are compared with the calls the real engine makes to its tracker (dispatch_model 41). *)
From Coq Require Import ZArith List Bool.
From CiwV Require Import Sx Prelude.
From CiwV.Engine Require Import State Engine Codec.
From CiwV.Inv Require Import Frame Conserve Blocking.
From CiwV.Inv Require TrackerInc.
Import ListNotations.
Open Scope Z_scope.

Theorem run_many_trackers :
  forall (cf : State.config) (ds : list State.draws) (s s' : State.sim),
       TrackerInc.TInv cf s ->
       Codec.run_many cf s ds = State.Ok s' ->
       TrackerInc.Tracked (TrackerInc.calls_many cf s ds) s s'.
Proof. exact TrackerInc.run_many_trackers. Qed.
Print Assumptions run_many_trackers.

Theorem event_step_trackers :
  forall (cf : State.config) (s s' : State.sim),
       TrackerInc.TInv cf s ->
       Engine.event_step cf s = State.Ok (tt, s') ->
       TrackerInc.Tracked (TrackerInc.calls_event_step cf s) s s'.
Proof. exact TrackerInc.event_step_trackers. Qed.
Print Assumptions event_step_trackers.

(* the printed form of this statement does not re-parse: it is the statement of TrackerInc.run_many_class_matrix, verbatim in coq/Inv/TrackerInc.v *)
Theorem run_many_class_matrix : ltac:(let t := type of TrackerInc.run_many_class_matrix in exact t).
Proof. exact TrackerInc.run_many_class_matrix. Qed.
Print Assumptions run_many_class_matrix.

Theorem never_negative :
  forall (cf : State.config) (ds : list State.draws) (s s' : State.sim),
       TrackerInc.TInv cf s ->
       Codec.run_many cf s ds = State.Ok s' ->
       let cs := TrackerInc.calls_many cf s ds in
       (forall st : BinNums.Z,
        TrackerInc.orun TrackerInc.sys_step cs (TrackerInc.sys_true s) =
        Some st -> BinInt.Z.le BinNums.Z0 st) /\
       (forall st : list BinNums.Z,
        TrackerInc.orun TrackerInc.np_step cs (TrackerInc.np_true s) =
        Some st -> TrackerInc.nonneg1 st) /\
       (forall obs st : list BinNums.Z,
        List.NoDup obs ->
        TrackerInc.orun (TrackerInc.sub_step obs) cs
          (TrackerInc.sub_true obs s) = Some st -> 
        TrackerInc.nonneg1 st) /\
       (forall (gs : list (list BinNums.Z)) (st : list BinNums.Z),
        List.NoDup (List.concat gs) ->
        TrackerInc.orun (TrackerInc.grp_step gs) cs
          (TrackerInc.grp_true gs s) = Some st -> 
        TrackerInc.nonneg1 st) /\
       (forall st : list (list BinNums.Z),
        TrackerInc.orun TrackerInc.nb_step cs (TrackerInc.nb_true s) =
        Some st -> TrackerInc.nonneg2 st) /\
       (forall (k : nat) (st : list (list BinNums.Z)),
        TrackerInc.orun TrackerInc.cm_step cs (TrackerInc.cm_true_at k s) =
        Some st -> TrackerInc.nonneg2 st).
Proof. exact TrackerInc.never_negative. Qed.
Print Assumptions never_negative.

Theorem tracker_means :
  forall (cf : State.config) (s : State.sim),
       TrackerInc.TInv cf s ->
       TrackerInc.np_true s = List.map State.n_pop (State.nodes s) /\
       TrackerInc.sys_true s =
       BinInt.Z.sub (State.a_created (State.arr s)) (State.exit_n s) /\
       (forall (k : nat) (nd : State.node) (i : BinNums.Z) (x : State.ind),
        List.nth_error (State.nodes s) k = Some nd ->
        List.In i (Engine.all_individuals nd) ->
        Engine.find_ind i (State.inds s) = Some x ->
        State.i_blocked x = false -> State.i_pcls x = State.i_cls x) /\
       (forall k : nat, TrackerInc.cm_true_at k s = TrackerInc.cm_true k s).
Proof. exact TrackerInc.tracker_means. Qed.
Print Assumptions tracker_means.

Theorem tinvc_b_sound :
  forall (cf : State.config) (s : State.sim),
       TrackerInc.tinvc_b cf s = true -> TrackerInc.TInvC cf s.
Proof. exact TrackerInc.tinvc_b_sound. Qed.
Print Assumptions tinvc_b_sound.

Theorem sub_dup_refuted :
  exists
         (obs pops : list BinNums.Z) (c : TrackerInc.call) 
       (pops' : list BinNums.Z),
         TrackerInc.np_step pops c = Some pops' /\
         TrackerInc.sub_step obs (TrackerInc.sub_of obs pops) c <>
         Some (TrackerInc.sub_of obs pops').
Proof. exact TrackerInc.sub_dup_refuted. Qed.
Print Assumptions sub_dup_refuted.

(* ---- MatrixBlocking (coq/Inv/TrackerMB.v): the ghost `ord` is the global order in which the currently blocked customers became blocked ---- *)
From CiwV.Inv Require TrackerMB.

Theorem run_many_mb :
  forall (cf : State.config) (ds : list State.draws) 
         (s s' : State.sim) (ord : list BinNums.Z),
       TrackerInc.TInv cf s ->
       TrackerMB.OrdOK s ord ->
       Codec.run_many cf s ds = State.Ok s' ->
       TrackerInc.TInv cf s' /\
       TrackerMB.OrdOK s'
         (TrackerMB.ord_run (TrackerInc.calls_many cf s ds) ord) /\
       TrackerInc.orun TrackerMB.mb_step (TrackerInc.calls_many cf s ds)
         (TrackerMB.mb_true s ord) =
       Some
         (TrackerMB.mb_true s'
            (TrackerMB.ord_run (TrackerInc.calls_many cf s ds) ord)).
Proof. exact TrackerMB.run_many_mb. Qed.
Print Assumptions run_many_mb.

Theorem mb_means :
  forall (cf : State.config) (s : State.sim) (ord : list BinNums.Z),
       TrackerInc.TInv cf s ->
       TrackerMB.OrdOK s ord ->
       List.NoDup ord /\
       (forall y : BinNums.Z,
        List.In y ord <->
        (exists x : State.ind,
           Engine.find_ind y (State.inds s) = Some x /\
           State.i_blocked x = true)) /\
       (forall (d : BinNums.Z) (nd : State.node),
        Blocking.nodeZ s d = Some nd ->
        List.map snd (State.n_bq nd) =
        List.filter (TrackerMB.blocked_to s d) ord) /\
       (forall a b z : BinNums.Z,
        List.In z
          (TrackerMB.cellF (TrackerMB.isblk s a b) 
             (BinNums.Zpos BinNums.xH) ord) ->
        BinInt.Z.le (BinNums.Zpos BinNums.xH) z /\
        BinInt.Z.le z (Prelude.zlen ord)) /\
       (forall k : BinNums.Z,
        BinInt.Z.le (BinNums.Zpos BinNums.xH) k /\
        BinInt.Z.le k (Prelude.zlen ord) ->
        exists a b : BinNums.Z,
          (BinInt.Z.le (BinNums.Zpos BinNums.xH) a /\
           BinInt.Z.le a (BinInt.Z.of_nat (TrackerMB.nN s))) /\
          (BinInt.Z.le (BinNums.Zpos BinNums.xH) b /\
           BinInt.Z.le b (BinInt.Z.of_nat (TrackerMB.nN s))) /\
          List.In k
            (TrackerMB.cellF (TrackerMB.isblk s a b)
               (BinNums.Zpos BinNums.xH) ord)) /\
       (forall a b a' b' z : BinNums.Z,
        List.In z
          (TrackerMB.cellF (TrackerMB.isblk s a b) 
             (BinNums.Zpos BinNums.xH) ord) ->
        List.In z
          (TrackerMB.cellF (TrackerMB.isblk s a' b')
             (BinNums.Zpos BinNums.xH) ord) -> a = a' /\ b = b') /\
       (forall a b : BinNums.Z,
        List.NoDup
          (TrackerMB.cellF (TrackerMB.isblk s a b) 
             (BinNums.Zpos BinNums.xH) ord)) /\
       List.map State.n_pop (State.nodes s) =
       List.map
         (fun nd : State.node => Prelude.zlen (Engine.all_individuals nd))
         (State.nodes s).
Proof. exact TrackerMB.mb_means. Qed.
Print Assumptions mb_means.

Theorem mb_never_negative :
  forall (cf : State.config) (ds : list State.draws) 
         (s s' : State.sim) (ord : list BinNums.Z)
         (m : list (list (list BinNums.Z))) (pops : list BinNums.Z)
         (inc : BinNums.Z),
       TrackerInc.TInv cf s ->
       TrackerMB.OrdOK s ord ->
       Codec.run_many cf s ds = State.Ok s' ->
       TrackerInc.orun TrackerMB.mb_step (TrackerInc.calls_many cf s ds)
         (TrackerMB.mb_true s ord) = Some (m, pops, inc) ->
       (forall (row : list (list BinNums.Z)) (c : list BinNums.Z)
          (z : BinNums.Z),
        List.In row m ->
        List.In c row ->
        List.In z c ->
        BinInt.Z.le (BinNums.Zpos BinNums.xH) z /\ BinInt.Z.lt z inc) /\
       (forall k : BinNums.Z,
        BinInt.Z.le (BinNums.Zpos BinNums.xH) k /\ BinInt.Z.lt k inc ->
        exists (row : list (list BinNums.Z)) (c : list BinNums.Z),
          List.In row m /\ List.In c row /\ List.In k c) /\
       List.Forall (fun z : BinNums.Z => BinInt.Z.le BinNums.Z0 z) pops /\
       BinInt.Z.le (BinNums.Zpos BinNums.xH) inc.
Proof. exact TrackerMB.mb_never_negative. Qed.
Print Assumptions mb_never_negative.

Theorem mbinv_b_sound :
  forall (cf : State.config) (s : State.sim) (ord : list BinNums.Z),
       TrackerMB.mbinv_b cf s ord = true -> TrackerMB.MBInv cf s ord.
Proof. exact TrackerMB.mbinv_b_sound. Qed.
Print Assumptions mbinv_b_sound.

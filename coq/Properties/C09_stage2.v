(* Property C09 -- statements about the STAGE-2 engine model (coq/Engine/Engine2.v: every router kind, class change after service and while
   waiting), statements only; proofs in coq/Inv/Route2.v.  The model is tied to /repo by the stepwise correspondence check K2
   (harness/engine_k2b.py). *)
From Coq Require Import ZArith List Bool Permutation.
From CiwV Require Import Sx Prelude Routing Sched.
From CiwV.Engine Require Import State2 Engine2 Codec2.
From CiwV.Inv Require Route2.
Import ListNotations.
Open Scope Z_scope.

(* the printed form of this statement does not re-parse (nat / Z scopes): it is the statement of Route2.router_jsq, verbatim in coq/Inv/Route2.v *)
Theorem router_jsq : ltac:(let t := type of Route2.router_jsq in exact t).
Proof. exact Route2.router_jsq. Qed.
Print Assumptions router_jsq.

Theorem router_prob_positive :
  forall (ds ps : list BinNums.Z) (c j : BinNums.Z) 
         (s : State2.sim) (d : BinNums.Z) (s' : State2.sim),
       Route2.upos s ->
       List.Forall (fun p : BinNums.Z => BinInt.Z.le BinNums.Z0 p) ps ->
       BinInt.Z.le (Prelude.zsum ps)
         (BinNums.Zpos (BinNums.xO (BinNums.xO (BinNums.xO BinNums.xH)))) ->
       length ds = length ps ->
       Engine2.node_router_next (State2.RProb ds ps) c j s =
       State2.Ok (d, s') ->
       (exists k : nat,
          List.nth_error ds k = Some d /\
          BinInt.Z.lt BinNums.Z0 (List.nth k ps BinNums.Z0)) \/
       d = BinNums.Zneg BinNums.xH /\
       BinInt.Z.lt BinNums.Z0
         (BinInt.Z.sub
            (BinNums.Zpos (BinNums.xO (BinNums.xO (BinNums.xO BinNums.xH))))
            (Prelude.zsum ps)).
Proof. exact Route2.router_prob_positive. Qed.
Print Assumptions router_prob_positive.


Theorem router_direct :
  forall (to c j : BinNums.Z) (s : State2.sim) 
         (d : BinNums.Z) (s' : State2.sim),
       Engine2.node_router_next (State2.RDirect to) c j s = State2.Ok (d, s') ->
       d = to /\ s' = s.
Proof. exact Route2.router_direct. Qed.
Print Assumptions router_direct.


Theorem router_leave :
  forall (c j : BinNums.Z) (s : State2.sim) (d : BinNums.Z)
         (s' : State2.sim),
       Engine2.node_router_next State2.RLeave c j s = State2.Ok (d, s') ->
       d = BinNums.Zneg BinNums.xH /\ s' = s.
Proof. exact Route2.router_leave. Qed.
Print Assumptions router_leave.


Theorem router_cycle :
  forall (cy : list BinNums.Z) (c j : BinNums.Z) 
         (s : State2.sim) (d : BinNums.Z) (s' : State2.sim),
       Engine2.node_router_next (State2.RCycle cy) c j s = State2.Ok (d, s') ->
       exists (row : list BinNums.Z) (p : BinNums.Z),
         Engine2.nthZ (State2.cyc s) c = Some row /\
         Engine2.nthZ row (BinInt.Z.sub j (BinNums.Zpos BinNums.xH)) = Some p /\
         cy <> nil /\
         List.nth_error cy
           (BinInt.Z.to_nat (BinInt.Z.modulo p (Prelude.zlen cy))) = 
         Some d /\
         s' =
         RecordSet.set State2.cyc
           (fun _ : list (list BinNums.Z) =>
            Engine2.updZ (State2.cyc s) c
              (Engine2.updZ row (BinInt.Z.sub j (BinNums.Zpos BinNums.xH))
                 (BinInt.Z.add p (BinNums.Zpos BinNums.xH)))) s.
Proof. exact Route2.router_cycle. Qed.
Print Assumptions router_cycle.


Theorem process_based_follows_route :
  forall (cf : State2.config) (mode j i : BinNums.Z) 
         (s : State2.sim) (d : BinNums.Z) (s' : State2.sim) 
         (x : State2.ind) (rts : list (list (list BinNums.Z))),
       Engine2.next_node_for cf mode j i s = State2.Ok (d, s') ->
       Engine2.find_ind i (State2.inds s) = Some x ->
       Engine2.nthZ (State2.cf_routing cf) (State2.i_cls x) =
       Some (State2.RtPB rts) ->
       BinInt.Z.eqb mode (BinNums.Zpos (BinNums.xO BinNums.xH)) = false ->
       match State2.i_route x with
       | Some nil => d = BinNums.Zneg BinNums.xH /\ s' = s
       | Some (step :: rest)%list =>
           exists raw : BinNums.Z,
             List.hd_error step = Some raw /\
             Route2.vdest (Prelude.zlen (State2.nodes s)) raw = Some d /\
             s' =
             RecordSet.set State2.inds
               (fun _ : list State2.ind =>
                Engine2.put_ind_l
                  (RecordSet.set State2.i_route
                     (fun _ : option (list (list BinNums.Z)) => Some rest) x)
                  (State2.inds s)) s /\
             Engine2.find_ind i (State2.inds s') =
             Some
               (RecordSet.set State2.i_route
                  (fun _ : option (list (list BinNums.Z)) => Some rest) x)
       | None => False
       end.
Proof. exact Route2.process_based_follows_route. Qed.
Print Assumptions process_based_follows_route.


Theorem flexible_process_based_spec :
  forall (cf : State2.config) (mode j i : BinNums.Z) 
         (s : State2.sim) (d : BinNums.Z) (s' : State2.sim) 
         (x : State2.ind) (rts : list (list (list BinNums.Z))) 
         (all : bool) (ch : BinNums.Z),
       Engine2.next_node_for cf mode j i s = State2.Ok (d, s') ->
       Engine2.find_ind i (State2.inds s) = Some x ->
       Engine2.nthZ (State2.cf_routing cf) (State2.i_cls x) =
       Some (State2.RtFPB rts all ch) ->
       BinInt.Z.eqb mode (BinNums.Zpos (BinNums.xO BinNums.xH)) = false ->
       match State2.i_route x with
       | Some nil => d = BinNums.Zneg BinNums.xH /\ s' = s
       | Some (step :: rest)%list =>
           exists (raw u : BinNums.Z) (route' : list (list BinNums.Z)),
             List.In raw step /\
             Route2.vdest (Prelude.zlen (State2.nodes s)) raw = Some d /\
             (ch <> BinNums.Z0 ->
              exists z : BinNums.Z,
                Route2.read_size
                  (BinInt.Z.eqb ch (BinNums.Zpos (BinNums.xO BinNums.xH)))
                  (State2.nodes s) raw = Some z /\
                (forall d' z' : BinNums.Z,
                 List.In d' step ->
                 Route2.read_size
                   (BinInt.Z.eqb ch (BinNums.Zpos (BinNums.xO BinNums.xH)))
                   (State2.nodes s) d' = Some z' -> 
                 BinInt.Z.le z z')) /\
             (if all
              then
               exists step' : list BinNums.Z,
                 Engine2.remove_first raw step = Some step' /\
                 route' =
                 match step' with
                 | nil => rest
                 | (_ :: _)%list => (step' :: rest)%list
                 end
              else route' = rest) /\
             State2.d_unif (State2.dr s) =
             (u :: State2.d_unif (State2.dr s'))%list /\
             State2.nodes s' = State2.nodes s /\
             Engine2.find_ind i (State2.inds s') =
             Some
               (RecordSet.set State2.i_route
                  (fun _ : option (list (list BinNums.Z)) => Some route') x)
       | None => False
       end.
Proof. exact Route2.flexible_process_based_spec. Qed.
Print Assumptions flexible_process_based_spec.


Theorem next_node_for_allowed :
  forall (cf : State2.config) (mode j i : BinNums.Z) 
         (s : State2.sim) (d : BinNums.Z) (s' : State2.sim),
       Route2.routing_ok cf ->
       Route2.upos s ->
       Engine2.next_node_for cf mode j i s = State2.Ok (d, s') ->
       exists (x : State2.ind) (rt : State2.routing) 
       (raw : BinNums.Z),
         Engine2.find_ind i (State2.inds s) = Some x /\
         Engine2.nthZ (State2.cf_routing cf) (State2.i_cls x) = Some rt /\
         Route2.allowed mode j x rt (State2.nodes s) (State2.cyc s) raw /\
         Route2.vdest (Prelude.zlen (State2.nodes s)) raw = Some d /\
         State2.nodes s' = State2.nodes s.
Proof. exact Route2.next_node_for_allowed. Qed.
Print Assumptions next_node_for_allowed.


(* the printed form of this statement does not re-parse (nat / Z scopes): it is the statement of Route2.change_customer_class_spec, verbatim in coq/Inv/Route2.v *)
Theorem change_customer_class_spec : ltac:(let t := type of Route2.change_customer_class_spec in exact t).
Proof. exact Route2.change_customer_class_spec. Qed.
Print Assumptions change_customer_class_spec.

(* the printed form of this statement does not re-parse (nat / Z scopes): it is the statement of Route2.finish_service_route, verbatim in coq/Inv/Route2.v *)
Theorem finish_service_route : ltac:(let t := type of Route2.finish_service_route in exact t).
Proof. exact Route2.finish_service_route. Qed.
Print Assumptions finish_service_route.

Theorem class_change_while_waiting_spec :
  forall (cf : State2.config) (j : BinNums.Z) (s s' : State2.sim),
       List.NoDup (List.map State2.i_id (State2.inds s)) ->
       Engine2.change_customer_class_while_waiting cf j s =
       State2.Ok (tt, s') ->
       exists
         (nd : State2.node) (i : BinNums.Z) (x : State2.ind) 
       (c' p' : BinNums.Z),
         Engine2.nthZ (State2.nodes s)
           (BinInt.Z.sub j (BinNums.Zpos BinNums.xH)) = 
         Some nd /\
         List.hd_error (State2.n_next_inds nd) = Some i /\
         Engine2.find_ind i (State2.inds s) = Some x /\
         State2.i_ncls x = Some c' /\
         Engine2.nthZ (State2.cf_prio cf) c' = Some p' /\
         (forall x' : State2.ind,
          Engine2.find_ind i (State2.inds s') = Some x' ->
          State2.i_cls x' = c' /\ State2.i_prio x' = p').
Proof. exact Route2.class_change_while_waiting_spec. Qed.
Print Assumptions class_change_while_waiting_spec.


Theorem run_many_PrioInv :
  forall (cf : State2.config) (ds : list State2.draws)
         (s s' : State2.sim),
       Route2.PrioInv cf s ->
       Codec2.run_many cf s ds = State2.Ok s' -> Route2.PrioInv cf s'.
Proof. exact Route2.run_many_PrioInv. Qed.
Print Assumptions run_many_PrioInv.


Theorem priority_corresponds_to_class :
  forall (cf : State2.config) (ds : list State2.draws)
         (s s' : State2.sim) (i : BinNums.Z) (x : State2.ind),
       Route2.PrioInv cf s ->
       Codec2.run_many cf s ds = State2.Ok s' ->
       Engine2.find_ind i (State2.inds s') = Some x ->
       Engine2.nthZ (State2.cf_prio cf) (State2.i_cls x) =
       Some (State2.i_prio x).
Proof. exact Route2.priority_corresponds_to_class. Qed.
Print Assumptions priority_corresponds_to_class.


Theorem PrioInv_b_sound :
  forall (cf : State2.config) (s : State2.sim),
       Route2.PrioInv_b cf s = true -> Route2.PrioInv cf s.
Proof. exact Route2.PrioInv_b_sound. Qed.
Print Assumptions PrioInv_b_sound.


Theorem routing_ok_b_sound :
  forall cf : State2.config,
       Route2.routing_ok_b cf = true -> Route2.routing_ok cf.
Proof. exact Route2.routing_ok_b_sound. Qed.
Print Assumptions routing_ok_b_sound.


Theorem ccm_ok_b_sound :
  forall cf : State2.config,
       Route2.ccm_ok_b cf = true -> Route2.ccm_ok cf.
Proof. exact Route2.ccm_ok_b_sound. Qed.
Print Assumptions ccm_ok_b_sound.


Theorem allowed_refuted_at_zero_draw :
  exists
         (cf : State2.config) (x : State2.ind) (rt : State2.routing) 
       (s : State2.sim) (raw : BinNums.Z) (s1 : State2.sim),
         Route2.routing_ok_b cf = true /\
         List.In rt (State2.cf_routing cf) /\
         State2.d_unif (State2.dr s) = (BinNums.Z0 :: nil)%list /\
         Route2.route_step BinNums.Z0 (BinNums.Zpos BinNums.xH) x rt s raw s1 /\
         ~
         Route2.allowed BinNums.Z0 (BinNums.Zpos BinNums.xH) x rt
           (State2.nodes s) (State2.cyc s) raw.
Proof. exact Route2.allowed_refuted_at_zero_draw. Qed.
Print Assumptions allowed_refuted_at_zero_draw.


Theorem zero_probability_transition_refuted :
  Engine2.event_step Route2.rf_cf
         (RecordSet.set State2.dr (fun _ : State2.draws => Route2.rf_d)
            Route2.rf_s1) = State2.Ok (tt, Route2.rf_s2) /\
       Route2.routing_ok_b Route2.rf_cf = true /\
       Route2.ccm_ok_b Route2.rf_cf = true /\
       List.map
         (fun r : State2.rec =>
          (State2.r_id r, State2.r_node r, State2.r_dest r))
         (State2.log Route2.rf_s2) =
       ((BinNums.Zpos BinNums.xH, BinNums.Zpos BinNums.xH,
         Some (BinNums.Zpos BinNums.xH)) :: nil)%list /\
       List.map (fun x : State2.ind => (State2.i_id x, State2.i_node x))
         (State2.inds Route2.rf_s2) =
       ((BinNums.Zpos BinNums.xH, Some (BinNums.Zpos BinNums.xH)) :: nil)%list.
Proof. exact Route2.zero_probability_transition_refuted. Qed.
Print Assumptions zero_probability_transition_refuted.

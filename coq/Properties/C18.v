(* Property C18 -- statements only. *)
From Coq Require Import ZArith List.
From CiwV Require Import Sx Deadlock Acc.C18.
Import ListNotations.

(* the pruning computation decides the structural definition of deadlock *)
Theorem deadlocked_iff_D : forall g V, Deadlock.deadlocked g V = true <-> Deadlock.D g V.
Proof. exact Deadlock.deadlocked_iff_D. Qed.
Print Assumptions deadlocked_iff_D.

Theorem C18_sound : forall strict f0 tr fin stt, C18.acc strict f0 tr fin = Accept stt ->
  (forall pre f post, tr = pre ++ f :: post ->
     (strict = true -> C18.same_edges (C18.G f) (C18.W f) = true /\ Deadlock.deadlocked (C18.G f) (C18.V f) = C18.nx f) /\
     (C18.stopped_itself fin = true -> post = [] -> Deadlock.D (C18.W f) (C18.V f)) /\
     ((C18.stopped_itself fin = false \/ post <> []) -> ~ Deadlock.D (C18.W f) (C18.V f))) /\
  ~ Deadlock.D (C18.W f0) (C18.V f0) /\
  (C18.stopped_itself fin = true -> forall s v, In (s, v) (C18.ttd fin) ->
     exists t0, C18.first_visit s (f0 :: tr) = Some t0 /\ v = (C18.t_dead fin - t0)%Z /\ (0 <= v)%Z).
Proof. exact C18.C18_sound. Qed.
Print Assumptions C18_sound.

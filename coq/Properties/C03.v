(* Property C03 -- statements only. *)
From Coq Require Import ZArith List.
From CiwV Require Import Sx Acc.C03.

(* T1: on every accepted event list, of any length: every visit begins at the node named as destination by the customer's
   previous visit-closing record (its arrival node first) at the instant that record ended; a customer reaches the exit only
   through a record naming the exit; every record lies at the node and carries the arrival date of the visit in progress;
   visits and visit-closing records are in bijection; baulk / rejection records are the customer's only record; nobody is in
   flight between events; the customer's true final location is the one its journey ends in. *)
Theorem C03_sound : forall es stt, C03.acc es = Accept stt -> C03.P_C03 es.
Proof. exact C03.C03_sound. Qed.
Print Assumptions C03_sound.

(* ---- T2: the engine model (coq/Engine, tied to /repo by the stepwise correspondence check K2) writes connected journeys.
   h = all records written so far (the concatenation of the logs of all events); an = the node at which each customer arrived (ghost,
   read off the arrival events) ---- *)
From Coq Require Import ZArith List.
From CiwV Require Import Prelude.
From CiwV.Engine Require Import State Engine Codec.
From CiwV.Inv Require Import Journey.
Import ListNotations.
Open Scope Z_scope.

(* one executed event / any number of events, for every configuration, every state and history satisfying the invariant, every oracle *)
Theorem event_step_jrn : forall cf an s s' h, Journey.Jrn cf an s h -> Engine.event_step cf s = Ok (tt, s') ->
  Journey.Jrn cf (Journey.an_step s an) s' (h ++ log s').
Proof. exact Journey.event_step_jrn. Qed.
Print Assumptions event_step_jrn.
Theorem engine_journey : forall cf ds s h an s' h' an', Journey.Jrn cf an s h -> Journey.run_hist cf s h an ds = Ok (s', h', an') ->
  Codec.run_many cf s ds = Ok s' /\ (exists t, h' = h ++ t) /\ Journey.Jrn cf an' s' h'.
Proof. exact Journey.engine_journey. Qed.
Print Assumptions engine_journey.

(* in the words of the property *)
Theorem Jrn_means : forall cf an s h, Journey.Jrn cf an s h ->
  (forall i r l, Journey.recs_of i h = r :: l -> an i = Some (r_node r)) /\
  (forall i l1 r1 r2 l2, Journey.recs_of i h = l1 ++ r1 :: r2 :: l2 ->
     r_type r1 = 0 /\ r_type r2 = 0 /\ r_dest r1 = Some (r_node r2) /\ r_exit r1 = r_arr r2) /\
  (forall r, In r h -> r_type r <> 0 -> Journey.recs_of (r_id r) h = [r]) /\
  (forall k nd i, nth_error (nodes s) k = Some nd -> In i (Engine.all_individuals nd) ->
     exists x, Engine.find_ind i (inds s) = Some x /\ i_node x = Some (Z.of_nat k + 1) /\ i_nrec x = zlen (Journey.recs_of i h) /\
       ((Journey.recs_of i h = [] /\ an i = Some (Z.of_nat k + 1)) \/
        exists l r, Journey.recs_of i h = l ++ [r] /\ r_type r = 0 /\ r_dest r = Some (Z.of_nat k + 1) /\ r_exit r = i_arr x)) /\
  (forall i, 1 <= i <= a_created (arr s) ->
     (In i (exit_ids s) <-> exists l r, Journey.recs_of i h = l ++ [r] /\ (r_dest r = Some (-1) \/ r_type r <> 0))) /\
  (forall r, In r h -> r_id r <= a_created (arr s)).
Proof. exact Journey.Jrn_means. Qed.
Print Assumptions Jrn_means.

(* the executable test used by the correspondence check on the real engine's snapshots WITH the real record history *)
Theorem jrn_b_sound : forall cf an s h, Journey.jrn_b cf an s h = true -> Journey.Jrn cf an s h.
Proof. exact Journey.jrn_b_sound. Qed.
Print Assumptions jrn_b_sound.

(* Property C03 -- statements only. *)
From Coq Require Import ZArith List.
From CiwV Require Import Sx Acc.C03.

(* T1: on every accepted event list, of any length: every visit begins at the node named as destination by the customer's
   previous visit-closing record (its arrival node first) at the instant that record ended; a customer reaches the exit only
   through a record naming the exit; every record lies at the node and carries the arrival date of the visit in progress;
   visits and visit-closing records are in bijection; baulk / rejection records are the customer's only record; nobody is in
   flight between events; the customer's true final location is the one its journey ends in. *)
Theorem C03_sound : forall es stt, C03.acc es = Accept stt -> C03.P_C03 es.
Proof. exact C03.C03_sound. Qed.
Print Assumptions C03_sound.

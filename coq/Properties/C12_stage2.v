(* Property C12 -- statements about the STAGE-2 engine model (coq/Engine/Engine2.v: routers, reneging, pre-emption, schedules, slots,
   class change while waiting), statements only; proofs in coq/Inv/Sched2.v.  The model is tied to /repo by the stepwise correspondence
   check K2 (harness/engine_k2b.py); the executable invariants are evaluated on every real snapshot it visits. *)
From Coq Require Import ZArith List Bool Permutation.
From CiwV Require Import Sx Prelude Routing Sched.
From CiwV.Engine Require Import State2 Engine2 Codec2.
From CiwV.Inv Require Sched2.
Import ListNotations.
Open Scope Z_scope.

Theorem run_many_sched :
  forall (cf : State2.config) (ds : list State2.draws)
         (s s' : State2.sim),
       Sched2.SchedInv cf s ->
       Codec2.run_many cf s ds = State2.Ok s' -> Sched2.SchedInv cf s'.
Proof. exact Sched2.run_many_sched. Qed.
Print Assumptions run_many_sched.

Theorem SchedInv_means :
  forall (cf : State2.config) (s : State2.sim) 
         (j : BinNums.Z) (nd : State2.node) (sc : State2.schedcfg),
       Sched2.SchedInv cf s ->
       Engine2.nthZ (State2.nodes s)
         (BinInt.Z.sub j (BinNums.Zpos BinNums.xH)) = 
       Some nd ->
       Sched2.sched_of cf j = Some sc ->
       State2.n_id nd = j /\
       BinInt.Z.le BinNums.Z0 (State2.n_spos nd) /\
       State2.n_next_shift nd =
       Some (Sched2.Dk sc (BinInt.Z.to_nat (State2.n_spos nd))) /\
       State2.n_c nd =
       Some (Sched2.Cprev sc (BinInt.Z.to_nat (State2.n_spos nd))) /\
       Sched2.n_on (State2.n_servers nd) =
       BinInt.Z.max BinNums.Z0
         (Sched2.Cprev sc (BinInt.Z.to_nat (State2.n_spos nd))) /\
       List.NoDup (Sched2.sids (State2.n_servers nd)) /\
       (forall sv : State2.server,
        List.In sv (State2.n_servers nd) ->
        BinInt.Z.le (State2.sv_id sv) (State2.n_highest nd)) /\
       (forall sv : State2.server,
        List.In sv (State2.n_servers nd) ->
        State2.sv_offduty sv = true ->
        State2.sc_pre sc = BinNums.Z0 /\ State2.sv_busy sv = true).
Proof. exact Sched2.SchedInv_means. Qed.
Print Assumptions SchedInv_means.

Theorem shift_changes_follow_timetable :
  forall (cf : State2.config) (ds : list State2.draws)
         (s s1 : State2.sim),
       Sched2.SchedInv cf s ->
       Sched2.NextInv cf s ->
       Codec2.run_many cf s ds = State2.Ok s1 ->
       Sched2.SchedInv cf s1 /\
       Sched2.NextInv cf s1 /\
       (forall (j : BinNums.Z) (nd : State2.node) (sc : State2.schedcfg),
        Engine2.nthZ (State2.nodes s1)
          (BinInt.Z.sub j (BinNums.Zpos BinNums.xH)) = 
        Some nd ->
        Sched2.sched_of cf j = Some sc ->
        let k := BinInt.Z.to_nat (State2.n_spos nd) in
        State2.n_next_shift nd = Some (Sched2.Dk sc k) /\
        State2.n_c nd = Some (Sched2.Cprev sc k) /\
        Sched2.n_on (State2.n_servers nd) =
        BinInt.Z.max BinNums.Z0 (Sched2.Cprev sc k) /\
        BinInt.Z.le (State2.now s1) (Sched2.Dk sc k) /\
        (State2.next_active s1 = j ->
         State2.n_next_type nd = BinNums.Zpos BinNums.xH ->
         State2.now s1 = Sched2.Dk sc k /\
         (forall (d : State2.draws) (u : unit) (s2 : State2.sim),
          Engine2.event_step cf
            (RecordSet.set State2.dr (fun _ : State2.draws => d) s1) =
          State2.Ok (u, s2) ->
          Sched2.SchedInv cf s2 /\
          Sched2.at_node j
            (fun nd2 : State2.node =>
             State2.n_spos nd2 =
             BinInt.Z.add (State2.n_spos nd) (BinNums.Zpos BinNums.xH) /\
             State2.n_c nd2 =
             Some (Sched.C (State2.sc_b sc) (State2.sc_v sc) k) /\
             State2.n_next_shift nd2 = Some (Sched2.Dk sc (S k)) /\
             Sched2.n_on (State2.n_servers nd2) =
             BinInt.Z.max BinNums.Z0
               (Sched.C (State2.sc_b sc) (State2.sc_v sc) k)) s2))).
Proof. exact Sched2.shift_changes_follow_timetable. Qed.
Print Assumptions shift_changes_follow_timetable.

Theorem zero_scheduled :
  forall (cf : State2.config) (s : State2.sim) 
         (j : BinNums.Z) (nd : State2.node) (sc : State2.schedcfg),
       Sched2.SchedInv cf s ->
       Engine2.nthZ (State2.nodes s)
         (BinInt.Z.sub j (BinNums.Zpos BinNums.xH)) = 
       Some nd ->
       Sched2.sched_of cf j = Some sc ->
       BinInt.Z.le (Sched2.Cprev sc (BinInt.Z.to_nat (State2.n_spos nd)))
         BinNums.Z0 ->
       (forall sv : State2.server,
        List.In sv (State2.n_servers nd) ->
        State2.sv_offduty sv = true /\
        State2.sv_busy sv = true /\ State2.sc_pre sc = BinNums.Z0) /\
       (State2.sc_pre sc <> BinNums.Z0 -> State2.n_servers nd = nil).
Proof. exact Sched2.zero_scheduled. Qed.
Print Assumptions zero_scheduled.

Theorem change_shift_spec :
  forall (cf : State2.config) (j : BinNums.Z) 
         (s : State2.sim) (a : unit) (s' : State2.sim) 
         (nd : State2.node),
       Sched2.SchedInv cf s ->
       Engine2.nthZ (State2.nodes s)
         (BinInt.Z.sub j (BinNums.Zpos BinNums.xH)) = 
       Some nd ->
       Engine2.change_shift cf j s = State2.Ok (a, s') ->
       exists sc : State2.schedcfg,
         Sched2.sched_of cf j = Some sc /\
         Sched2.SchedInv cf s' /\
         Sched2.at_node j
           (fun nd' : State2.node =>
            State2.n_spos nd' =
            BinInt.Z.add (State2.n_spos nd) (BinNums.Zpos BinNums.xH) /\
            State2.n_c nd' =
            Some
              (Sched.C (State2.sc_b sc) (State2.sc_v sc)
                 (BinInt.Z.to_nat (State2.n_spos nd))) /\
            State2.n_next_shift nd' =
            Some (Sched2.Dk sc (S (BinInt.Z.to_nat (State2.n_spos nd)))) /\
            Sched2.n_on (State2.n_servers nd') =
            BinInt.Z.max BinNums.Z0
              (Sched.C (State2.sc_b sc) (State2.sc_v sc)
                 (BinInt.Z.to_nat (State2.n_spos nd)))) s'.
Proof. exact Sched2.change_shift_spec. Qed.
Print Assumptions change_shift_spec.

Theorem free_server_on_duty :
  forall (cf : State2.config) (s : State2.sim) 
         (j : BinNums.Z) (nd : State2.node) (sc : State2.schedcfg)
         (spf cls : BinNums.Z) (sv : State2.server),
       Sched2.SchedInv cf s ->
       Engine2.nthZ (State2.nodes s)
         (BinInt.Z.sub j (BinNums.Zpos BinNums.xH)) = 
       Some nd ->
       Sched2.sched_of cf j = Some sc ->
       Engine2.find_free_server_for spf cls (State2.n_servers nd) = Some sv ->
       List.In sv (State2.n_servers nd) /\
       State2.sv_busy sv = false /\ State2.sv_offduty sv = false.
Proof. exact Sched2.free_server_on_duty. Qed.
Print Assumptions free_server_on_duty.

Theorem no_free_server_when_zero :
  forall (cf : State2.config) (s : State2.sim) 
         (j : BinNums.Z) (nd : State2.node) (sc : State2.schedcfg)
         (spf cls : BinNums.Z),
       Sched2.SchedInv cf s ->
       Engine2.nthZ (State2.nodes s)
         (BinInt.Z.sub j (BinNums.Zpos BinNums.xH)) = 
       Some nd ->
       Sched2.sched_of cf j = Some sc ->
       BinInt.Z.le (Sched2.Cprev sc (BinInt.Z.to_nat (State2.n_spos nd)))
         BinNums.Z0 ->
       Engine2.find_free_server_for spf cls (State2.n_servers nd) = None /\
       BinInt.Z.ltb BinNums.Z0 (Engine2.numo (State2.n_c nd)) = false /\
       List.filter (fun sv : State2.server => negb (State2.sv_busy sv))
         (State2.n_servers nd) = nil.
Proof. exact Sched2.no_free_server_when_zero. Qed.
Print Assumptions no_free_server_when_zero.

Theorem start_offduty_refuted :
  exists
         (cf : State2.config) (s : State2.sim) (ds : list State2.draws) 
       (s' : State2.sim),
         Sched2.sched_inv_b cf s = true /\
         Sched2.next_inv_b cf s = true /\
         Codec2.run_many cf s ds = State2.Ok s' /\
         Sched2.sched_inv_b cf s' = true /\
         Sched2.next_inv_b cf s' = true /\
         Sched2.held_ok_b s = true /\ Sched2.held_ok_b s' = false.
Proof. exact Sched2.start_offduty_refuted. Qed.
Print Assumptions start_offduty_refuted.

(* ---- Slot2 ---- *)
From CiwV.Inv Require Slot2.

Theorem run_many_slotinv :
  forall (cf : State2.config) (ds : list State2.draws)
         (s s' : State2.sim),
       Slot2.SlotInv cf s ->
       Codec2.run_many cf s ds = State2.Ok s' -> Slot2.SlotInv cf s'.
Proof. exact Slot2.run_many_slotinv. Qed.
Print Assumptions run_many_slotinv.

Theorem run_many_slotnext :
  forall (cf : State2.config) (ds : list State2.draws)
         (s s' : State2.sim),
       Slot2.SlotInv cf s ->
       Slot2.SlotNext cf s ->
       Codec2.run_many cf s ds = State2.Ok s' -> Slot2.SlotNext cf s'.
Proof. exact Slot2.run_many_slotnext. Qed.
Print Assumptions run_many_slotnext.

Theorem slots_follow_timetable :
  forall (cf : State2.config) (ds : list State2.draws)
         (s s1 : State2.sim),
       Slot2.SlotInv cf s ->
       Slot2.SlotNext cf s ->
       Codec2.run_many cf s ds = State2.Ok s1 ->
       Slot2.SlotInv cf s1 /\
       Slot2.SlotNext cf s1 /\
       (forall (j : BinNums.Z) (nd : State2.node) (sl : State2.slotcfg),
        Engine2.nthZ (State2.nodes s1)
          (BinInt.Z.sub j (BinNums.Zpos BinNums.xH)) = 
        Some nd ->
        Slot2.slot_of cf j = Some sl ->
        let k := BinInt.Z.to_nat (State2.n_spos nd) in
        State2.n_servers nd = nil /\
        State2.n_c nd = Some BinNums.Z0 /\
        BinInt.Z.le (State2.now s1) (Slot2.slotdate sl k) /\
        (forall (d : State2.draws) (u : unit) (s2 : State2.sim),
         Engine2.event_step cf
           (RecordSet.set State2.dr (fun _ : State2.draws => d) s1) =
         State2.Ok (u, s2) ->
         (State2.next_active s1 = j ->
          State2.n_next_type nd =
          BinNums.Zpos (BinNums.xO (BinNums.xO BinNums.xH)) ->
          State2.now s1 = Slot2.slotdate sl k /\
          Slot2.at_node j
            (fun nd2 : State2.node =>
             State2.n_spos nd2 =
             BinInt.Z.add (State2.n_spos nd) (BinNums.Zpos BinNums.xH) /\
             BinInt.Z.le (State2.now s2) (Slot2.slotdate sl (S k))) s2) /\
         (~
          (State2.next_active s1 = j /\
           State2.n_next_type nd =
           BinNums.Zpos (BinNums.xO (BinNums.xO BinNums.xH))) ->
          Slot2.at_node j
            (fun nd2 : State2.node =>
             State2.n_spos nd2 = State2.n_spos nd /\
             BinInt.Z.le (State2.now s2) (Slot2.slotdate sl k)) s2))).
Proof. exact Slot2.slots_follow_timetable. Qed.
Print Assumptions slots_follow_timetable.

(* the printed form of this statement does not re-parse (nat / Z scopes): it is the statement of Slot2.slot_event_starts, verbatim in coq/Inv/Slot2.v *)
Theorem slot_event_starts : ltac:(let t := type of Slot2.slot_event_starts in exact t).
Proof. exact Slot2.slot_event_starts. Qed.
Print Assumptions slot_event_starts.

Theorem capacitated_after_slot :
  forall (cf : State2.config) (j : BinNums.Z) 
         (s : State2.sim) (u : unit) (s' : State2.sim) 
         (nd : State2.node) (sl : State2.slotcfg),
       Slot2.Idx s ->
       BinInt.Z.le (BinNums.Zpos BinNums.xH) j ->
       Engine2.nthZ (State2.nodes s)
         (BinInt.Z.sub j (BinNums.Zpos BinNums.xH)) = 
       Some nd ->
       Slot2.slot_of cf j = Some sl ->
       BinInt.Z.eqb (State2.sl_pre sl)
         (BinNums.Zpos (BinNums.xO (BinNums.xO BinNums.xH))) = false ->
       State2.sl_cap sl = true ->
       Engine2.slotted_service cf j s = State2.Ok (u, s') ->
       let size := Slot2.slotsize sl (BinInt.Z.to_nat (State2.n_spos nd)) in
       BinInt.Z.le BinNums.Z0 size ->
       (State2.sl_pre sl = BinNums.Z0 -> BinInt.Z.le (State2.n_insvc nd) size) ->
       BinInt.Z.le (BinInt.Z.sub (State2.n_insvc nd) size)
         (BinInt.Z.of_nat (length (Slot2.in_service s nd))) ->
       exists nd' : State2.node,
         Engine2.nthZ (State2.nodes s')
           (BinInt.Z.sub j (BinNums.Zpos BinNums.xH)) = 
         Some nd' /\
         State2.n_spos nd' =
         BinInt.Z.add (State2.n_spos nd) (BinNums.Zpos BinNums.xH) /\
         BinInt.Z.le (State2.n_insvc nd') size /\
         (BinInt.Z.le (State2.n_insvc nd) size ->
          BinInt.Z.le (State2.n_insvc nd) (State2.n_insvc nd')) /\
         (BinInt.Z.lt size (State2.n_insvc nd) -> State2.n_insvc nd' = size).
Proof. exact Slot2.capacitated_after_slot. Qed.
Print Assumptions capacitated_after_slot.

(* the printed form of this statement does not re-parse (nat / Z scopes): it is the statement of Slot2.uncapacitated_slot, verbatim in coq/Inv/Slot2.v *)
Theorem uncapacitated_slot : ltac:(let t := type of Slot2.uncapacitated_slot in exact t).
Proof. exact Slot2.uncapacitated_slot. Qed.
Print Assumptions uncapacitated_slot.

Theorem starts_only_in_slot :
  forall (cf : State2.config) (J : BinNums.Z),
       Slot2.scope_b cf J = true ->
       forall (s : State2.sim) (u : unit) (s' : State2.sim),
       Conserve2.WFx2 nil s ->
       Slot2.SlotInv cf s ->
       Slot2.slot_due_b J s = false ->
       Engine2.event_step cf s = State2.Ok (u, s') ->
       Conserve2.WFx2 nil s' /\
       Slot2.SlotInv cf s' /\
       (forall i t : BinNums.Z, Slot2.svc J s' i t -> Slot2.svc J s i t) /\
       (forall nd nd' : State2.node,
        Engine2.nthZ (State2.nodes s)
          (BinInt.Z.sub J (BinNums.Zpos BinNums.xH)) = 
        Some nd ->
        Engine2.nthZ (State2.nodes s')
          (BinInt.Z.sub J (BinNums.Zpos BinNums.xH)) = 
        Some nd' -> State2.n_spos nd' = State2.n_spos nd).
Proof. exact Slot2.starts_only_in_slot. Qed.
Print Assumptions starts_only_in_slot.

Theorem run_between_slots :
  forall (cf : State2.config) (J : BinNums.Z),
       Slot2.scope_b cf J = true ->
       forall (ds : list State2.draws) (s s' : State2.sim),
       Conserve2.WFx2 nil s ->
       Slot2.SlotInv cf s ->
       Slot2.run_between cf J s ds = State2.Ok s' ->
       Codec2.run_many cf s ds = State2.Ok s' /\
       Conserve2.WFx2 nil s' /\
       Slot2.SlotInv cf s' /\
       (forall i t : BinNums.Z, Slot2.svc J s' i t -> Slot2.svc J s i t) /\
       (forall nd nd' : State2.node,
        Engine2.nthZ (State2.nodes s)
          (BinInt.Z.sub J (BinNums.Zpos BinNums.xH)) = 
        Some nd ->
        Engine2.nthZ (State2.nodes s')
          (BinInt.Z.sub J (BinNums.Zpos BinNums.xH)) = 
        Some nd' -> State2.n_spos nd' = State2.n_spos nd).
Proof. exact Slot2.run_between_slots. Qed.
Print Assumptions run_between_slots.

Theorem slot_inv_b_sound :
  forall (cf : State2.config) (s : State2.sim),
       Slot2.slot_inv_b cf s = true -> Slot2.SlotInv cf s.
Proof. exact Slot2.slot_inv_b_sound. Qed.
Print Assumptions slot_inv_b_sound.

Theorem slot_next_b_sound :
  forall (cf : State2.config) (s : State2.sim),
       Slot2.slot_next_b cf s = true -> Slot2.SlotNext cf s.
Proof. exact Slot2.slot_next_b_sound. Qed.
Print Assumptions slot_next_b_sound.

(* the printed form of this statement does not re-parse (nat / Z scopes): it is the statement of Slot2.capacity_after_nonpreemptive_slot_refuted, verbatim in coq/Inv/Slot2.v *)
Theorem capacity_after_nonpreemptive_slot_refuted : ltac:(let t := type of Slot2.capacity_after_nonpreemptive_slot_refuted in exact t).
Proof. exact Slot2.capacity_after_nonpreemptive_slot_refuted. Qed.
Print Assumptions capacity_after_nonpreemptive_slot_refuted.

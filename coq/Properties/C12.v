(* Property C12 -- statements only. *)
From Coq Require Import ZArith List.
From CiwV Require Import Sx Sched Acc.C12.
Import ListNotations.

(* the generator model: closed form of the Schedule object after k shift changes *)
Theorem sched_after : forall b v off, (0 < Sched.n b)%nat -> forall k,
  Sched.run_shifts b v off k =
  Sched.mkS (match k with O => 0%Z | S j => Sched.C b v j end) (Sched.D b off k) (Sched.C b v k) k.
Proof. exact Sched.sched_after. Qed.
Print Assumptions sched_after.

(* shift-change dates of a well-formed timetable increase strictly (never scheduled in the past) *)
Theorem wf_dates_increasing : forall b v off, Sched.wf_sched b v off = true ->
  forall i j, (i < j)%nat -> (Sched.D b off i < Sched.D b off j)%Z.
Proof. exact Sched.wf_dates_increasing. Qed.
Print Assumptions wf_dates_increasing.

(* T1: in an accepted run every schedule event is the timetable's *)
Theorem C12_sound : forall cs es st, C12.acc cs es = Accept st ->
  forall pre0 e post, es = pre0 ++ e :: post -> C12.ev_ok cs (C12.nticks (C12.node_of e) pre0) e.
Proof. exact C12.C12_sound. Qed.
Print Assumptions C12_sound.

(* Property C18 -- statements about the (stage-1) ENGINE MODEL: a structural deadlock is genuine, i.e. permanent (proofs in coq/Inv/Knot.v);
   the engine model is tied to /repo by the stepwise correspondence check K2, and deadlocked_b is evaluated on the real engine's snapshots. *)
From Coq Require Import ZArith List Bool.
From CiwV Require Import Sx Prelude Deadlock.
From CiwV.Engine Require Import State Engine Codec.
From CiwV.Inv Require Import Frame Conserve Servers Blocking.
From CiwV.Inv Require Knot.
Import ListNotations.
Open Scope Z_scope.

Theorem knot_is_permanent :
  forall (cf : State.config) (K : list BinNums.Z)
         (ds : list State.draws) (s s' : State.sim),
       Knot.Knot cf s K ->
       Servers.SrvInv cf s ->
       Blocking.Who cf s ->
       Codec.run_many cf s ds = State.Ok s' ->
       Knot.Knot cf s' K /\
       (forall (j : BinNums.Z) (nd : State.node),
        List.In j K ->
        Blocking.nodeZ s j = Some nd ->
        exists nd' : State.node,
          Blocking.nodeZ s' j = Some nd' /\
          State.n_servers nd' = State.n_servers nd /\
          (forall (sv : State.server) (i : BinNums.Z),
           List.In sv (State.n_servers nd) ->
           State.sv_cust sv = Some i ->
           List.In i (Engine.all_individuals nd') /\
           Engine.find_ind i (State.inds s') =
           Engine.find_ind i (State.inds s))).
Proof. exact Knot.knot_is_permanent. Qed.
Print Assumptions knot_is_permanent.

Theorem deadlocked_b_iff :
  forall (cf : State.config) (s : State.sim),
       Frame.Idx s ->
       Knot.deadlocked_b cf s = true <->
       (exists K : list BinNums.Z,
          Knot.Knot cf s K /\
          (forall (j : BinNums.Z) (nd : State.node),
           List.In j K ->
           Blocking.nodeZ s j = Some nd -> State.n_servers nd <> nil)).
Proof. exact Knot.deadlocked_b_iff. Qed.
Print Assumptions deadlocked_b_iff.

Theorem deadlock_is_permanent :
  forall (cf : State.config) (s : State.sim),
       Servers.SrvInv cf s ->
       Blocking.Who cf s ->
       Knot.deadlocked_b cf s = true ->
       exists K : list BinNums.Z,
         Knot.Knot cf s K /\
         (forall (ds : list State.draws) (s' : State.sim),
          Codec.run_many cf s ds = State.Ok s' ->
          Knot.Knot cf s' K /\
          Knot.Same K s s' /\ Knot.deadlocked_b cf s' = true).
Proof. exact Knot.deadlock_is_permanent. Qed.
Print Assumptions deadlock_is_permanent.

Theorem knot_means :
  forall (cf : State.config) (K : list BinNums.Z) (s : State.sim),
       Knot.KnotInv cf K s ->
       K <> nil /\
       (forall j : BinNums.Z,
        List.In j K ->
        exists nd : State.node,
          Blocking.nodeZ s j = Some nd /\
          (forall sv : State.server,
           List.In sv (State.n_servers nd) ->
           State.sv_busy sv = true /\
           State.sv_next_end sv = None /\
           (exists (i : BinNums.Z) (x : State.ind) 
            (d : BinNums.Z),
              State.sv_cust sv = Some i /\
              List.In i (Engine.all_individuals nd) /\
              Engine.find_ind i (State.inds s) = Some x /\
              State.i_blocked x = true /\
              State.i_server x = Some (State.sv_id sv) /\
              State.i_dest x = Some d /\
              List.In d K /\ Blocking.entry s d j i)) /\
          Engine.find_free_server (State.n_servers nd) = None /\
          (forall s' : State.sim,
           Engine.finish_service cf j s = State.Ok (tt, s') -> False)).
Proof. exact Knot.knot_means. Qed.
Print Assumptions knot_means.

Theorem knot_b_sound :
  forall (cf : State.config) (s : State.sim) (K : list BinNums.Z),
       Knot.knot_b cf s K = true -> Knot.Knot cf s K.
Proof. exact Knot.knot_b_sound. Qed.
Print Assumptions knot_b_sound.

(* Property C10 -- statements about the STAGE-2 engine model (coq/Engine/Engine2.v), statements only; proofs in coq/Inv/Samples2.v.
   The model is tied to /repo by the stepwise correspondence check K2 (harness/engine_k2b.py). *)
From Coq Require Import ZArith List Bool Permutation.
From CiwV Require Import Sx Prelude Routing Sched.
From CiwV.Engine Require Import State2 Engine2 Codec2.
From CiwV.Inv Require Samples2.
Import ListNotations.
Open Scope Z_scope.

Theorem arrival_have_event_spec :
  forall (cf : State2.config) (s s' : State2.sim),
       Engine2.arrival_have_event cf s = State2.Ok (tt, s') ->
       exists
         (b ia : BinNums.Z) (row : list (option BinNums.Z)) 
       (old : option BinNums.Z),
         State2.d_batch (State2.dr s) =
         (b :: State2.d_batch (State2.dr s'))%list /\
         BinInt.Z.le BinNums.Z0 b /\
         State2.a_created (State2.arr s') =
         BinInt.Z.add (State2.a_created (State2.arr s)) b /\
         State2.d_arr (State2.dr s) =
         (ia :: State2.d_arr (State2.dr s'))%list /\
         Engine2.nthZ (State2.a_dates (State2.arr s))
           (BinInt.Z.sub (State2.a_next_node (State2.arr s))
              (BinNums.Zpos BinNums.xH)) = Some row /\
         Engine2.nthZ row (State2.a_next_cls (State2.arr s)) = Some old /\
         State2.a_dates (State2.arr s') =
         Engine2.updZ (State2.a_dates (State2.arr s))
           (BinInt.Z.sub (State2.a_next_node (State2.arr s))
              (BinNums.Zpos BinNums.xH))
           (Engine2.updZ row (State2.a_next_cls (State2.arr s))
              match old with
              | Some o => Some (BinInt.Z.add o ia)
              | None => None
              end).
Proof. exact Samples2.arrival_have_event_spec. Qed.
Print Assumptions arrival_have_event_spec.

Theorem negative_batch_stops_the_run :
  forall (cf : State2.config) (s : State2.sim) 
         (b : BinNums.Z) (r : list BinNums.Z),
       State2.next_active s = BinNums.Z0 ->
       State2.d_batch (State2.dr s) = (b :: r)%list ->
       BinInt.Z.lt b BinNums.Z0 ->
       Engine2.event_step cf s = State2.Err State2.E_Batch.
Proof. exact Samples2.negative_batch_stops_the_run. Qed.
Print Assumptions negative_batch_stops_the_run.

Theorem node_event_keeps_arrivals :
  forall (cf : State2.config) (j : BinNums.Z) (s s' : State2.sim),
       Engine2.node_have_event cf j s = State2.Ok (tt, s') ->
       Samples2.RelArr s s'.
Proof. exact Samples2.node_event_keeps_arrivals. Qed.
Print Assumptions node_event_keeps_arrivals.

Theorem start_fresh_stamps :
  forall (cf : State2.config) (j i : BinNums.Z)
         (osid : option BinNums.Z) (count : bool) 
         (s : State2.sim) (u : unit) (s' : State2.sim) 
         (x : State2.ind) (nd : State2.node),
       Engine2.start_fresh cf j i osid count s = State2.Ok (u, s') ->
       Preempt2.Idx s ->
       Engine2.find_ind i (State2.inds s) = Some x ->
       Preempt2.node_at s j = Some nd ->
       exists (st : BinNums.Z) (x' : State2.ind),
         State2.d_svc (State2.dr s) =
         (st :: State2.d_svc (State2.dr s'))%list /\
         Engine2.find_ind i (State2.inds s') = Some x' /\
         State2.i_sst x' = Some (State2.now s) /\
         State2.i_stime x' = Some st /\
         State2.i_smark x' = BinNums.Z0 /\
         State2.i_send x' = Some (BinInt.Z.add (State2.now s) st) /\
         (forall (sid : BinNums.Z) (sv : State2.server),
          osid = Some sid ->
          Engine2.find_server sid (State2.n_servers nd) = Some sv ->
          State2.i_server x' = Some sid /\
          (exists (nd' : State2.node) (sv' : State2.server),
             Preempt2.node_at s' j = Some nd' /\
             Engine2.find_server sid (State2.n_servers nd') = Some sv' /\
             State2.sv_cust sv' = Some i /\
             State2.sv_busy sv' = true /\
             State2.sv_next_end sv' = Some (BinInt.Z.add (State2.now s) st))).
Proof. exact Samples2.start_fresh_stamps. Qed.
Print Assumptions start_fresh_stamps.

Theorem run_many_SvcInv :
  forall (cf : State2.config) (ds : list State2.draws)
         (s s' : State2.sim),
       Samples2.SvcInv s ->
       Codec2.run_many cf s ds = State2.Ok s' -> Samples2.SvcInv s'.
Proof. exact Samples2.run_many_SvcInv. Qed.
Print Assumptions run_many_SvcInv.

Theorem SvcInv_means :
  forall (s : State2.sim) (x : State2.ind) (a st : BinNums.Z),
       Samples2.SvcInv s ->
       List.In x (State2.inds s) ->
       State2.i_smark x = BinNums.Z0 ->
       State2.i_sst x = Some a ->
       State2.i_stime x = Some st ->
       State2.i_send x = Some (BinInt.Z.add a st).
Proof. exact Samples2.SvcInv_means. Qed.
Print Assumptions SvcInv_means.

Theorem stamps_persist :
  forall (cf : State2.config) (s s' : State2.sim) 
         (i : BinNums.Z) (x x' : State2.ind),
       List.NoDup (List.map State2.i_id (State2.inds s)) ->
       Engine2.event_step cf s = State2.Ok (tt, s') ->
       Engine2.find_ind i (State2.inds s) = Some x ->
       Engine2.find_ind i (State2.inds s') = Some x' ->
       State2.i_sst x' = State2.i_sst x /\
       State2.i_stime x' = State2.i_stime x /\
       State2.i_send x' = State2.i_send x /\
       State2.i_smark x' = State2.i_smark x \/
       State2.i_sst x' = Some (State2.now s) \/ State2.i_sst x' = None.
Proof. exact Samples2.stamps_persist. Qed.
Print Assumptions stamps_persist.

Theorem release_writes_record :
  forall (cf : State2.config) (f : nat) (j i d : BinNums.Z)
         (s s' : State2.sim) (x : State2.ind),
       Engine2.release cf (S f) j i d false s = State2.Ok (tt, s') ->
       Engine2.find_ind i (State2.inds s) = Some x ->
       exists (r : State2.rec) (rest : list State2.rec),
         State2.log s' = (State2.log s ++ r :: rest)%list /\
         State2.r_id r = i /\
         State2.r_node r = j /\
         State2.r_type r = BinNums.Z0 /\
         State2.r_arr r = State2.i_arr x /\
         State2.r_sst r = State2.i_sst x /\
         State2.r_send r = State2.i_send x /\
         State2.r_exit r = Some (State2.now s) /\
         State2.r_stime r =
         Some
           (BinInt.Z.sub (Engine2.numo (State2.i_send x))
              (Engine2.numo (State2.i_sst x))) /\
         (Samples2.SvcP x ->
          State2.i_smark x = BinNums.Z0 ->
          forall a st : BinNums.Z,
          State2.i_sst x = Some a ->
          State2.i_stime x = Some st -> State2.r_stime r = Some st).
Proof. exact Samples2.release_writes_record. Qed.
Print Assumptions release_writes_record.

Theorem SvcInv_b_sound :
  forall s : State2.sim, Samples2.SvcInv_b s = true -> Samples2.SvcInv s.
Proof. exact Samples2.SvcInv_b_sound. Qed.
Print Assumptions SvcInv_b_sound.

Theorem service_time_nonneg_refuted :
  exists
         (cf : State2.config) (s : State2.sim) (ds : list State2.draws) 
       (s' : State2.sim),
         Samples2.SvcInv_b s = true /\
         Preempt2.Idx_b s = true /\
         State2.inds s = nil /\
         Samples2.draws_nonneg_b ds = true /\
         Codec2.run_many cf s ds = State2.Ok s' /\
         Samples2.SvcInv_b s' = true /\
         Samples2.nonneg_b s' = false /\
         Samples2.ordered_b s' = false /\
         Samples2.stamps s' =
         ((BinNums.Zpos BinNums.xH,
           Some (BinNums.Zpos (BinNums.xI BinNums.xH)),
           Some
             (BinNums.Zpos
                (BinNums.xO
                   (BinNums.xO
                      (BinNums.xI
                         (BinNums.xO (BinNums.xO (BinNums.xI BinNums.xH))))))),
           Some
             (BinNums.Zpos
                (BinNums.xI
                   (BinNums.xI
                      (BinNums.xI
                         (BinNums.xO (BinNums.xO (BinNums.xI BinNums.xH))))))))
          :: (BinNums.Zpos (BinNums.xO BinNums.xH),
              Some
                (BinNums.Zpos
                   (BinNums.xO (BinNums.xI (BinNums.xO BinNums.xH)))),
              Some (BinNums.Zneg (BinNums.xI (BinNums.xO BinNums.xH))),
              Some (BinNums.Zpos (BinNums.xI (BinNums.xO BinNums.xH))))
             :: nil)%list /\
         State2.now s' = BinNums.Zpos (BinNums.xI (BinNums.xO BinNums.xH)).
Proof. exact Samples2.service_time_nonneg_refuted. Qed.
Print Assumptions service_time_nonneg_refuted.

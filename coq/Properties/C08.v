(* Property C08 -- statements only. *)
From Coq Require Import ZArith List.
From CiwV Require Import Sx Acc.C08.

Theorem C08_sound : forall l st, C08.acc l = Accept st -> forall s, In s l -> C08.P_start s.
Proof. exact C08.C08_sound. Qed.
Print Assumptions C08_sound.

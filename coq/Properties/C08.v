(* Property C08 -- statements only. *)
From Coq Require Import ZArith List.
From CiwV Require Import Sx Acc.C08.

Theorem C08_sound : forall l st, C08.acc l = Accept st -> forall s, In s l -> C08.P_start s.
Proof. exact C08.C08_sound. Qed.
Print Assumptions C08_sound.

(* ---- T2 (function level): in the engine model (coq/Engine, tied to /repo by the stepwise correspondence check K2) the
   customer handed to the service-start block is the one the property prescribes, and a service start changes nobody else ---- *)
From Coq Require Import ZArith List.
From CiwV.Engine Require Import State Engine.
From CiwV.Inv Require Import Frame Order.
Import ListNotations.
Open Scope Z_scope.

(* the chosen customer waits, belongs to the first priority class in which anybody waits, and within that class is the
   first waiting one in queue order under FIFO (0), the last under LIFO (1), some waiting one under SIRO *)
Theorem chosen_is_prescribed : forall cf nd s c s', Engine.choose_next_customer cf nd s = Ok (Some c, s') ->
  exists pre q post d, n_queues nd = pre ++ q :: post /\ Order.disc_of cf (n_id nd) = Some d /\
    In c q /\ Order.iswait (inds s) c = true /\
    (forall q' i, In q' pre -> In i q' -> Order.iswait (inds s) i = false) /\
    (d = 0 -> exists a b, q = a ++ c :: b /\ forall i, In i a -> Order.iswait (inds s) i = false) /\
    (d = 1 -> exists a b, q = a ++ c :: b /\ forall i, In i b -> Order.iswait (inds s) i = false).
Proof. exact Order.chosen_is_prescribed. Qed.
Print Assumptions chosen_is_prescribed.

(* nobody is chosen only when nobody waits *)
Theorem none_chosen_none_waiting : forall cf nd s s', Engine.choose_next_customer cf nd s = Ok (None, s') ->
  Engine.first_waiting (n_queues nd) (inds s) = [].
Proof. intros cf nd s s' H. exact (proj2 (proj2 (Order.choose_next_customer_spec cf nd s None s' H))). Qed.
Print Assumptions none_chosen_none_waiting.

(* the server freed by a departure goes to the discipline's choice, and nothing about any other customer changes *)
Theorem bsip_release_starts_chosen : forall cf j sid s s', Engine.begin_service_if_possible_release cf j (Some sid) s = Ok (tt, s') ->
  inds s' = inds s \/
  exists nd c s1, Engine.nthZ (nodes s) (j - 1) = Some nd /\ Engine.choose_next_customer cf nd s = Ok (Some c, s1) /\
    forall i', i' <> c -> Engine.find_ind i' (inds s') = Engine.find_ind i' (inds s).
Proof. exact Order.bsip_release_starts_chosen. Qed.
Print Assumptions bsip_release_starts_chosen.

(* queue order is arrival order: accept puts the customer at the tail of the queue of its declared priority class *)
Theorem accept_appends : forall cf j x s s', Frame.Idx s -> Engine.accept cf j x s = Ok (tt, s') ->
  exists nd nd' q, Engine.nthZ (nodes s) (j - 1) = Some nd /\ Engine.nthZ (nodes s') (j - 1) = Some nd' /\
    Engine.nthZ (n_queues nd) (i_prio x) = Some q /\ n_queues nd' = Engine.updZ (n_queues nd) (i_prio x) (q ++ [i_id x]).
Proof. exact Order.accept_appends. Qed.
Print Assumptions accept_appends.

(* Property C06 -- statements about the STAGE-2 engine model (coq/Engine/Engine2.v), statements only; proofs in coq/Inv/Blocking2.v.
   The model is tied to /repo by the stepwise correspondence check K2 (harness/engine_k2b.py). *)
From Coq Require Import ZArith List Bool Permutation.
From CiwV Require Import Sx Prelude Routing Sched.
From CiwV.Engine Require Import State2 Engine2 Codec2.
From CiwV.Inv Require Blocking2.
Import ListNotations.
Open Scope Z_scope.

Theorem run_many_cap2 :
  forall cf : State2.config,
       Blocking2.scope_cap cf = true ->
       forall (ds : list State2.draws) (s s' : State2.sim),
       Blocking2.Blk2 cf s ->
       Blocking2.Cap2 cf s ->
       Codec2.run_many cf s ds = State2.Ok s' ->
       Blocking2.Blk2 cf s' /\ Blocking2.Cap2 cf s'.
Proof. exact Blocking2.run_many_cap2. Qed.
Print Assumptions run_many_cap2.

Theorem cap2_means :
  forall (cf : State2.config) (s : State2.sim),
       Blocking2.Cap2 cf s ->
       forall (k : nat) (nd : State2.node) (nc : State2.ncfg) (c : BinNums.Z),
       List.nth_error (State2.nodes s) k = Some nd ->
       List.nth_error (State2.cf_nodes cf) k = Some nc ->
       State2.nc_cap nc = Some c -> BinInt.Z.le (State2.n_pop nd) c.
Proof. exact Blocking2.cap2_means. Qed.
Print Assumptions cap2_means.

Theorem cap2_refuted_jockeying :
  exists
         (cf : State2.config) (s : State2.sim) (ds : list State2.draws) 
       (s' : State2.sim),
         Blocking2.scope_blk cf = true /\
         Blocking2.scope_fifo cf = true /\
         Blocking2.Blk2 cf s /\
         Blocking2.Cap2 cf s /\
         Codec2.run_many cf s ds = State2.Ok s' /\
         Blocking2.Blk2 cf s' /\ ~ Blocking2.Cap2 cf s'.
Proof. exact Blocking2.cap2_refuted_jockeying. Qed.
Print Assumptions cap2_refuted_jockeying.

Theorem cap2_refuted_reroute :
  exists
         (cf : State2.config) (s : State2.sim) (ds : list State2.draws) 
       (s' : State2.sim),
         Blocking2.scope_blk cf = true /\
         Blocking2.scope_fifo cf = true /\
         Blocking2.Blk2 cf s /\
         Blocking2.Cap2 cf s /\
         Codec2.run_many cf s ds = State2.Ok s' /\
         Blocking2.Blk2 cf s' /\ ~ Blocking2.Cap2 cf s'.
Proof. exact Blocking2.cap2_refuted_reroute. Qed.
Print Assumptions cap2_refuted_reroute.

(* Property C04 -- statements about the STAGE-2 engine model (coq/Engine/Engine2.v), statements only; proofs in coq/Inv/Servers2.v.
   The model is tied to /repo by the stepwise correspondence check K2 (harness/engine_k2b.py). *)
From Coq Require Import ZArith List Bool Permutation.
From CiwV Require Import Sx Prelude Routing Sched.
From CiwV.Engine Require Import State2 Engine2 Codec2.
From CiwV.Inv Require Servers2.
Import ListNotations.
Open Scope Z_scope.

Theorem run_many_srv2 :
  forall cf : State2.config,
       Servers2.srv_scope cf = true ->
       forall (ds : list State2.draws) (s s' : State2.sim),
       Servers2.SrvInv2 cf s ->
       Codec2.run_many cf s ds = State2.Ok s' -> Servers2.SrvInv2 cf s'.
Proof. exact Servers2.run_many_srv2. Qed.
Print Assumptions run_many_srv2.

(* the printed form of this statement does not re-parse (nat / Z scopes): it is the statement of Servers2.SrvInv2_means, verbatim in coq/Inv/Servers2.v *)
Theorem SrvInv2_means : ltac:(let t := type of Servers2.SrvInv2_means in exact t).
Proof. exact Servers2.SrvInv2_means. Qed.
Print Assumptions SrvInv2_means.

Theorem srvinv2_b_sound :
  forall (cf : State2.config) (s : State2.sim),
       Servers2.srvinv2_b cf s = true -> Servers2.SrvInv2 cf s.
Proof. exact Servers2.srvinv2_b_sound. Qed.
Print Assumptions srvinv2_b_sound.

Theorem link_refuted_F12d :
  exists
         (cf : State2.config) (s : State2.sim) (ds : list State2.draws) 
       (s' : State2.sim),
         Servers2.srv_scope cf = false /\
         Servers2.srvinv2_b cf s = true /\
         Codec2.run_many cf s ds = State2.Ok s' /\
         Servers2.links_b (State2.cf_nodes cf) (State2.nodes s')
           (State2.inds s') = false.
Proof. exact Servers2.link_refuted_F12d. Qed.
Print Assumptions link_refuted_F12d.

Theorem link_refuted_F12a :
  exists
         (cf : State2.config) (s : State2.sim) (ds : list State2.draws) 
       (s' : State2.sim),
         Servers2.srv_scope cf = false /\
         Servers2.srvinv2_b cf s = true /\
         Codec2.run_many cf s ds = State2.Ok s' /\
         Servers2.links_b (State2.cf_nodes cf) (State2.nodes s')
           (State2.inds s') = false.
Proof. exact Servers2.link_refuted_F12a. Qed.
Print Assumptions link_refuted_F12a.

Theorem link_refuted_reroute_preempt :
  exists
         (cf : State2.config) (s : State2.sim) (ds : list State2.draws) 
       (s' : State2.sim),
         Servers2.srv_scope cf = false /\
         Servers2.srvinv2_b cf s = true /\
         Codec2.run_many cf s ds = State2.Ok s' /\
         Servers2.links_b (State2.cf_nodes cf) (State2.nodes s')
           (State2.inds s') = false /\
         List.map (fun x : State2.ind => (State2.i_id x, State2.i_server x))
           (State2.inds s') =
         ((BinNums.Zpos BinNums.xH, None)
          :: (BinNums.Zpos (BinNums.xO BinNums.xH),
              Some (BinNums.Zpos BinNums.xH))
             :: (BinNums.Zpos (BinNums.xI BinNums.xH),
                 Some (BinNums.Zpos BinNums.xH)) :: nil)%list.
Proof. exact Servers2.link_refuted_reroute_preempt. Qed.
Print Assumptions link_refuted_reroute_preempt.

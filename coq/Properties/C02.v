(* Property C02 -- statements only. *)
From Coq Require Import ZArith List.
From CiwV Require Import Sx Acc.C02.

Theorem C02_sound : forall tr st, C02.acc tr = Accept st -> C02.P_C02 tr.
Proof. exact C02.C02_sound. Qed.
Print Assumptions C02_sound.

(* ---- T2: the engine model (coq/Engine, tied to /repo by the stepwise correspondence check K2) keeps the clock invariant:
   simulated time never decreases, the executed event is scheduled exactly at the current time, nothing is scheduled in the past ---- *)
From Coq Require Import ZArith List.
From CiwV.Engine Require Import State Engine Codec.
From CiwV.Inv Require Import Frame Clock.
Open Scope Z_scope.

(* one executed event, for every configuration, every state satisfying the invariant and every oracle whose service and
   inter-arrival times are non-negative *)
Theorem event_step_clk : forall cf s s', Clock.Clk cf s -> Clock.DrawsOK (dr s) -> Engine.event_step cf s = Ok (tt, s') ->
  Clock.Clk cf s' /\ now s <= now s'.
Proof. exact Clock.event_step_clk. Qed.
Print Assumptions event_step_clk.

(* any number of events *)
Theorem run_many_clk : forall cf ds s s', Clock.Clk cf s -> Forall Clock.DrawsOK ds -> Codec.run_many cf s ds = Ok s' ->
  Clock.Clk cf s' /\ now s <= now s'.
Proof. exact Clock.run_many_clk. Qed.
Print Assumptions run_many_clk.

(* the clock is monotone along every prefix of a run *)
Theorem run_many_monotone : forall cf ds1 ds2 s s1 s2, Clock.Clk cf s -> Forall Clock.DrawsOK ds1 -> Forall Clock.DrawsOK ds2 ->
  Codec.run_many cf s ds1 = Ok s1 -> Codec.run_many cf s1 ds2 = Ok s2 -> now s <= now s1 <= now s2.
Proof. exact Clock.run_many_monotone. Qed.
Print Assumptions run_many_monotone.

(* what the invariant says, in the words of the property *)
Theorem Clk_means : forall cf s, Clock.Clk cf s ->
  (forall row e, In row (a_dates (arr s)) -> In (Some e) row -> now s <= e) /\
  (forall row d, In row (a_dates (arr s)) -> In d row -> Clock.dle (a_next_date (arr s)) d) /\ Clock.Loc (arr s) /\
  (forall nd e, In nd (nodes s) -> n_next_date nd = Some e -> now s <= e) /\
  (forall nd sv e, In nd (nodes s) -> Clock.fin cf (n_id nd) = true -> In sv (n_servers nd) -> sv_next_end sv = Some e -> now s <= e) /\
  (next_active s = 0 -> a_next_date (arr s) = Some (now s) \/ Clock.nothing_scheduled s) /\
  (next_active s <> 0 -> exists nd, nth_error (nodes s) (Z.to_nat (next_active s - 1)) = Some nd /\ n_id nd = next_active s /\
                                   (n_next_date nd = Some (now s) \/ Clock.nothing_scheduled s)).
Proof. exact Clock.Clk_means. Qed.
Print Assumptions Clk_means.

(* the executable test used by the correspondence check on the real engine's snapshots is sound for the invariant *)
Theorem clk_b_sound : forall cf s, Clock.clk_b cf s = true -> Clock.Clk cf s.
Proof. exact Clock.clk_b_sound. Qed.
Print Assumptions clk_b_sound.

(* Property C02 -- statements only. *)
From Coq Require Import ZArith List.
From CiwV Require Import Sx Acc.C02.

Theorem C02_sound : forall tr st, C02.acc tr = Accept st -> C02.P_C02 tr.
Proof. exact C02.C02_sound. Qed.
Print Assumptions C02_sound.

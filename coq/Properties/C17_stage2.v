(* Property C17 -- statements about the STAGE-2 engine model (coq/Engine/Engine2.v), statements only; proofs in coq/Inv/TrackerInc2.v.
   The model is tied to /repo by the stepwise correspondence check K2 (harness/engine_k2b.py). *)
From Coq Require Import ZArith List Bool Permutation.
From CiwV Require Import Sx Prelude Routing Sched.
From CiwV.Engine Require Import State2 Engine2 Codec2.
From CiwV.Inv Require TrackerInc2.
Import ListNotations.
Open Scope Z_scope.

Theorem er_event_step :
  forall (cf : State2.config) (s : State2.sim),
       TrackerInc2.er (TrackerInc2.event_stepW cf s) =
       Engine2.event_step cf s.
Proof. exact TrackerInc2.er_event_step. Qed.
Print Assumptions er_event_step.

Theorem event_step_trackers2 :
  forall (cf : State2.config) (s s' : State2.sim),
       TrackerInc2.Idx s ->
       Engine2.event_step cf s = State2.Ok (tt, s') ->
       TrackerInc2.Idx s' /\
       TrackerInc2.Tracked1 (TrackerInc2.calls_event_step cf s) s s'.
Proof. exact TrackerInc2.event_step_trackers2. Qed.
Print Assumptions event_step_trackers2.

Theorem run_many_trackers2 :
  forall (cf : State2.config) (ds : list State2.draws)
         (s s' : State2.sim),
       TrackerInc2.Idx s ->
       Codec2.run_many cf s ds = State2.Ok s' ->
       TrackerInc2.Idx s' /\
       TrackerInc2.Tracked1 (TrackerInc2.calls_many cf s ds) s s'.
Proof. exact TrackerInc2.run_many_trackers2. Qed.
Print Assumptions run_many_trackers2.

Theorem never_negative2 :
  forall (cf : State2.config) (ds : list State2.draws)
         (s s' : State2.sim),
       TrackerInc2.Idx s ->
       Codec2.run_many cf s ds = State2.Ok s' ->
       exists (st : BinNums.Z) (v : list BinNums.Z),
         TrackerInc2.orun TrackerInc2.sys_step
           (TrackerInc2.calls_many cf s ds) (TrackerInc2.sys_true s) =
         Some st /\
         BinInt.Z.le BinNums.Z0 st /\
         TrackerInc2.orun TrackerInc2.np_step
           (TrackerInc2.calls_many cf s ds) (TrackerInc2.np_true s) = 
         Some v /\
         List.Forall (fun z : BinNums.Z => BinInt.Z.le BinNums.Z0 z) v.
Proof. exact TrackerInc2.never_negative2. Qed.
Print Assumptions never_negative2.

Theorem run_many_subset_grouped2 :
  forall (cf : State2.config) (ds : list State2.draws)
         (s s' : State2.sim),
       TrackerInc2.Idx s ->
       Codec2.run_many cf s ds = State2.Ok s' ->
       (forall obs : list BinNums.Z,
        List.NoDup obs ->
        TrackerInc2.orun (TrackerInc2.sub_step obs)
          (TrackerInc2.calls_many cf s ds) (TrackerInc2.sub_true obs s) =
        Some (TrackerInc2.sub_true obs s')) /\
       (forall gs : list (list BinNums.Z),
        List.NoDup (List.concat gs) ->
        TrackerInc2.orun (TrackerInc2.grp_step gs)
          (TrackerInc2.calls_many cf s ds) (TrackerInc2.grp_true gs s) =
        Some (TrackerInc2.grp_true gs s')).
Proof. exact TrackerInc2.run_many_subset_grouped2. Qed.
Print Assumptions run_many_subset_grouped2.

Theorem run_many_rowsums2 :
  forall (cf : State2.config) (ds : list State2.draws)
         (s s' : State2.sim) (m0 : list (list BinNums.Z)),
       TrackerInc2.Idx s ->
       Codec2.run_many cf s ds = State2.Ok s' ->
       List.map Prelude.zsum m0 = TrackerInc2.np_true s ->
       (forall m' : list (list BinNums.Z),
        TrackerInc2.orun TrackerInc2.nb_step (TrackerInc2.calls_many cf s ds)
          m0 = Some m' -> List.map Prelude.zsum m' = TrackerInc2.np_true s') /\
       (forall m' : list (list BinNums.Z),
        TrackerInc2.orun TrackerInc2.cm_step (TrackerInc2.calls_many cf s ds)
          m0 = Some m' -> List.map Prelude.zsum m' = TrackerInc2.np_true s').
Proof. exact TrackerInc2.run_many_rowsums2. Qed.
Print Assumptions run_many_rowsums2.

Theorem naive_blocking_refuted_F02b :
  exists
         (cf : State2.config) (s0 : State2.sim) (ds : list State2.draws) 
       (s8 s9 : State2.sim),
         Conserve2.wfx2_b s0 = true /\
         TrackerInc2.nb_true s0 =
         ((BinNums.Z0 :: BinNums.Z0 :: nil)
          :: (BinNums.Z0 :: BinNums.Z0 :: nil) :: nil)%list /\
         Codec2.run_many cf s0 (List.firstn 8 ds) = State2.Ok s8 /\
         Codec2.run_many cf s0 ds = State2.Ok s9 /\
         TrackerInc2.nb_true s8 =
         ((BinNums.Zpos BinNums.xH :: BinNums.Zpos BinNums.xH :: nil)
          :: (BinNums.Zpos BinNums.xH :: BinNums.Z0 :: nil) :: nil)%list /\
         TrackerInc2.orun TrackerInc2.nb_step
           (TrackerInc2.calls_many cf s0 (List.firstn 8 ds))
           (TrackerInc2.nb_true s0) =
         Some
           ((BinNums.Z0 :: BinNums.Zpos (BinNums.xO BinNums.xH) :: nil)
            :: (BinNums.Zpos BinNums.xH :: BinNums.Z0 :: nil) :: nil)%list /\
         TrackerInc2.nb_true s9 =
         ((BinNums.Z0 :: BinNums.Zpos (BinNums.xO BinNums.xH) :: nil)
          :: (BinNums.Zpos BinNums.xH :: BinNums.Z0 :: nil) :: nil)%list /\
         TrackerInc2.orun TrackerInc2.nb_step
           (TrackerInc2.calls_many cf s0 ds) (TrackerInc2.nb_true s0) =
         Some
           ((BinNums.Zneg BinNums.xH
             :: BinNums.Zpos (BinNums.xI BinNums.xH) :: nil)
            :: (BinNums.Zpos BinNums.xH :: BinNums.Z0 :: nil) :: nil)%list /\
         TrackerInc2.Tracked1 (TrackerInc2.calls_many cf s0 ds) s0 s9.
Proof. exact TrackerInc2.naive_blocking_refuted_F02b. Qed.
Print Assumptions naive_blocking_refuted_F02b.

Theorem naive_blocking_refuted_F02a :
  exists
         (cf : State2.config) (s0 : State2.sim) (ds : list State2.draws) 
       (s7 : State2.sim),
         Conserve2.wfx2_b s0 = true /\
         TrackerInc2.nb_true s0 =
         ((BinNums.Z0 :: BinNums.Z0 :: nil)
          :: (BinNums.Z0 :: BinNums.Z0 :: nil) :: nil)%list /\
         Codec2.run_many cf s0 ds = State2.Ok s7 /\
         TrackerInc2.calls_many cf s0 ds =
         (TrackerInc2.Acc (BinNums.Zpos BinNums.xH) (BinNums.Zpos BinNums.xH)
          :: TrackerInc2.Rel (BinNums.Zpos BinNums.xH)
               (BinNums.Zpos (BinNums.xO BinNums.xH))
               (BinNums.Zpos BinNums.xH) (BinNums.Zpos BinNums.xH) false
             :: TrackerInc2.Acc (BinNums.Zpos (BinNums.xO BinNums.xH))
                  (BinNums.Zpos BinNums.xH)
                :: TrackerInc2.Acc (BinNums.Zpos BinNums.xH)
                     (BinNums.Zpos BinNums.xH)
                   :: TrackerInc2.Blk (BinNums.Zpos BinNums.xH)
                        (BinNums.Zpos (BinNums.xO BinNums.xH))
                        (BinNums.Zpos (BinNums.xO BinNums.xH))
                        (BinNums.Zpos BinNums.xH)
                      :: TrackerInc2.Acc (BinNums.Zpos BinNums.xH) BinNums.Z0
                         :: TrackerInc2.Rel (BinNums.Zpos BinNums.xH)
                              BinNums.Z0
                              (BinNums.Zpos (BinNums.xI BinNums.xH))
                              BinNums.Z0 false
                            :: TrackerInc2.Blk (BinNums.Zpos BinNums.xH)
                                 (BinNums.Zpos (BinNums.xO BinNums.xH))
                                 (BinNums.Zpos (BinNums.xO BinNums.xH))
                                 (BinNums.Zpos BinNums.xH) :: nil)%list /\
         TrackerInc2.nb_true s7 =
         ((BinNums.Z0 :: BinNums.Zpos BinNums.xH :: nil)
          :: (BinNums.Zpos BinNums.xH :: BinNums.Z0 :: nil) :: nil)%list /\
         TrackerInc2.orun TrackerInc2.nb_step
           (TrackerInc2.calls_many cf s0 ds) (TrackerInc2.nb_true s0) =
         Some
           ((BinNums.Zneg BinNums.xH
             :: BinNums.Zpos (BinNums.xO BinNums.xH) :: nil)
            :: (BinNums.Zpos BinNums.xH :: BinNums.Z0 :: nil) :: nil)%list /\
         TrackerInc2.Tracked1 (TrackerInc2.calls_many cf s0 ds) s0 s7.
Proof. exact TrackerInc2.naive_blocking_refuted_F02a. Qed.
Print Assumptions naive_blocking_refuted_F02a.

Theorem event_step_naive_blocking2_partial :
  forall (cf : State2.config) (s s' : State2.sim),
       TrackerInc2.scope_int cf = true ->
       Conserve2.WFx2 nil s ->
       TrackerInc2.NoInt s ->
       TrackerInc2.NextUnbl s ->
       Engine2.event_step cf s = State2.Ok (tt, s') ->
       Conserve2.WFx2 nil s' /\
       TrackerInc2.NoInt s' /\
       TrackerInc2.orun TrackerInc2.nb_step
         (TrackerInc2.calls_event_step cf s) (TrackerInc2.nb_true s) =
       Some (TrackerInc2.nb_true s').
Proof. exact TrackerInc2.event_step_naive_blocking2_partial. Qed.
Print Assumptions event_step_naive_blocking2_partial.

Theorem run_many_naive_blocking2_partial :
  forall cf : State2.config,
       TrackerInc2.scope_int cf = true ->
       forall (ds : list State2.draws) (s s' : State2.sim),
       Conserve2.WFx2 nil s ->
       TrackerInc2.NoInt s ->
       TrackerInc2.NextUnbl_run cf s ds ->
       Codec2.run_many cf s ds = State2.Ok s' ->
       Conserve2.WFx2 nil s' /\
       TrackerInc2.NoInt s' /\
       TrackerInc2.orun TrackerInc2.nb_step (TrackerInc2.calls_many cf s ds)
         (TrackerInc2.nb_true s) = Some (TrackerInc2.nb_true s').
Proof. exact TrackerInc2.run_many_naive_blocking2_partial. Qed.
Print Assumptions run_many_naive_blocking2_partial.

Theorem naive_blocking_never_negative2 :
  forall s : State2.sim,
       List.Forall
         (List.Forall (fun z : BinNums.Z => BinInt.Z.le BinNums.Z0 z))
         (TrackerInc2.nb_true s).
Proof. exact TrackerInc2.naive_blocking_never_negative2. Qed.
Print Assumptions naive_blocking_never_negative2.

Theorem class_matrix_refuted_F02a :
  exists
         (cf : State2.config) (s0 : State2.sim) (ds : list State2.draws) 
       (s8 : State2.sim),
         Conserve2.wfx2_b s0 = true /\
         TrackerInc2.cm_true 3 s0 =
         ((BinNums.Z0 :: BinNums.Z0 :: BinNums.Z0 :: nil)
          :: (BinNums.Z0 :: BinNums.Z0 :: BinNums.Z0 :: nil) :: nil)%list /\
         Codec2.run_many cf s0 ds = State2.Ok s8 /\
         TrackerInc2.calls_many cf s0 ds =
         (TrackerInc2.Acc (BinNums.Zpos BinNums.xH) (BinNums.Zpos BinNums.xH)
          :: TrackerInc2.Rel (BinNums.Zpos BinNums.xH)
               (BinNums.Zpos (BinNums.xO BinNums.xH))
               (BinNums.Zpos BinNums.xH) (BinNums.Zpos BinNums.xH) false
             :: TrackerInc2.Acc (BinNums.Zpos (BinNums.xO BinNums.xH))
                  (BinNums.Zpos (BinNums.xO BinNums.xH))
                :: TrackerInc2.Acc (BinNums.Zpos BinNums.xH)
                     (BinNums.Zpos BinNums.xH)
                   :: TrackerInc2.Blk (BinNums.Zpos BinNums.xH)
                        (BinNums.Zpos (BinNums.xO BinNums.xH))
                        (BinNums.Zpos (BinNums.xO BinNums.xH))
                        (BinNums.Zpos BinNums.xH)
                      :: TrackerInc2.Acc (BinNums.Zpos BinNums.xH) BinNums.Z0
                         :: TrackerInc2.Rel (BinNums.Zpos BinNums.xH)
                              BinNums.Z0
                              (BinNums.Zpos (BinNums.xI BinNums.xH))
                              BinNums.Z0 false
                            :: TrackerInc2.Blk (BinNums.Zpos BinNums.xH)
                                 (BinNums.Zpos (BinNums.xO BinNums.xH))
                                 (BinNums.Zpos (BinNums.xO BinNums.xH))
                                 (BinNums.Zpos (BinNums.xO BinNums.xH))
                               :: TrackerInc2.Rel
                                    (BinNums.Zpos (BinNums.xO BinNums.xH))
                                    BinNums.Z0 (BinNums.Zpos BinNums.xH)
                                    (BinNums.Zpos (BinNums.xO BinNums.xH))
                                    false
                                  :: TrackerInc2.Rel
                                       (BinNums.Zpos BinNums.xH)
                                       (BinNums.Zpos (BinNums.xO BinNums.xH))
                                       (BinNums.Zpos (BinNums.xO BinNums.xH))
                                       (BinNums.Zpos (BinNums.xO BinNums.xH))
                                       true
                                     :: TrackerInc2.Acc
                                          (BinNums.Zpos
                                             (BinNums.xO BinNums.xH))
                                          (BinNums.Zpos
                                             (BinNums.xO BinNums.xH)) :: nil)%list /\
         List.map Engine2.all_individuals (State2.nodes s8) =
         (nil :: (BinNums.Zpos (BinNums.xO BinNums.xH) :: nil) :: nil)%list /\
         TrackerInc2.cm_true 3 s8 =
         ((BinNums.Z0 :: BinNums.Z0 :: BinNums.Z0 :: nil)
          :: (BinNums.Z0 :: BinNums.Z0 :: BinNums.Zpos BinNums.xH :: nil)
             :: nil)%list /\
         TrackerInc2.orun TrackerInc2.cm_step
           (TrackerInc2.calls_many cf s0 ds) (TrackerInc2.cm_true 3 s0) =
         Some
           ((BinNums.Z0
             :: BinNums.Zpos BinNums.xH :: BinNums.Zneg BinNums.xH :: nil)
            :: (BinNums.Z0 :: BinNums.Z0 :: BinNums.Zpos BinNums.xH :: nil)
               :: nil)%list /\
         TrackerInc2.Tracked1 (TrackerInc2.calls_many cf s0 ds) s0 s8.
Proof. exact TrackerInc2.class_matrix_refuted_F02a. Qed.
Print Assumptions class_matrix_refuted_F02a.

Theorem idx2_b_sound :
  forall s : State2.sim,
       TrackerInc2.idx2_b s = true -> TrackerInc2.Idx s.
Proof. exact TrackerInc2.idx2_b_sound. Qed.
Print Assumptions idx2_b_sound.

Theorem tk_run40 :
  exists s' : State2.sim,
         Codec2.run_many TrackerInc2.tk_cf TrackerInc2.tk_s0
           (List.repeat TrackerInc2.tk_d 40) = State2.Ok s' /\
         TrackerInc2.Tracked1
           (TrackerInc2.calls_many TrackerInc2.tk_cf TrackerInc2.tk_s0
              (List.repeat TrackerInc2.tk_d 40)) TrackerInc2.tk_s0 s'.
Proof. exact TrackerInc2.tk_run40. Qed.
Print Assumptions tk_run40.

Theorem refutations_outside :
  TrackerInc2.scope_int TrackerInc2.r4_cf = false /\
       TrackerInc2.scope_int TrackerInc2.a2_cf = true /\
       TrackerInc2.nextunbl_run_b TrackerInc2.a2_cf TrackerInc2.a2_s0
         TrackerInc2.a2_ds = false.
Proof. exact TrackerInc2.refutations_outside. Qed.
Print Assumptions refutations_outside.

(* ---- TrackerInc2b ---- *)
From CiwV.Inv Require TrackerInc2b.

Theorem scope_nb_int :
  forall cf : State2.config,
       TrackerInc2b.scope_nb cf = true -> TrackerInc2.scope_int cf = true.
Proof. exact TrackerInc2b.scope_nb_int. Qed.
Print Assumptions scope_nb_int.

Theorem event_step_naive_blocking2 :
  forall (cf : State2.config) (s s' : State2.sim),
       TrackerInc2b.scope_nb cf = true ->
       TrackerInc2b.Inv2 cf s ->
       Engine2.event_step cf s = State2.Ok (tt, s') ->
       TrackerInc2b.Inv2 cf s' /\
       TrackerInc2.orun TrackerInc2.nb_step
         (TrackerInc2.calls_event_step cf s) (TrackerInc2.nb_true s) =
       Some (TrackerInc2.nb_true s').
Proof. exact TrackerInc2b.event_step_naive_blocking2. Qed.
Print Assumptions event_step_naive_blocking2.

Theorem run_many_naive_blocking2 :
  forall cf : State2.config,
       TrackerInc2b.scope_nb cf = true ->
       forall (ds : list State2.draws) (s s' : State2.sim),
       TrackerInc2b.Inv2 cf s ->
       Codec2.run_many cf s ds = State2.Ok s' ->
       TrackerInc2b.Inv2 cf s' /\
       TrackerInc2.orun TrackerInc2.nb_step (TrackerInc2.calls_many cf s ds)
         (TrackerInc2.nb_true s) = Some (TrackerInc2.nb_true s').
Proof. exact TrackerInc2b.run_many_naive_blocking2. Qed.
Print Assumptions run_many_naive_blocking2.

Theorem naive_blocking_never_negative :
  forall (cf : State2.config) (ds : list State2.draws)
         (s s' : State2.sim),
       TrackerInc2b.scope_nb cf = true ->
       TrackerInc2b.Inv2 cf s ->
       Codec2.run_many cf s ds = State2.Ok s' ->
       exists m : list (list BinNums.Z),
         TrackerInc2.orun TrackerInc2.nb_step
           (TrackerInc2.calls_many cf s ds) (TrackerInc2.nb_true s) = 
         Some m /\
         List.Forall
           (List.Forall (fun z : BinNums.Z => BinInt.Z.le BinNums.Z0 z)) m.
Proof. exact TrackerInc2b.naive_blocking_never_negative. Qed.
Print Assumptions naive_blocking_never_negative.

Theorem inv2_b_sound :
  forall (cf : State2.config) (an : BinNums.Z -> option BinNums.Z)
         (h : list State2.rec) (s : State2.sim),
       TrackerInc2b.inv2_b cf an h s = true -> TrackerInc2b.Inv2 cf s.
Proof. exact TrackerInc2b.inv2_b_sound. Qed.
Print Assumptions inv2_b_sound.

Theorem class_matrix_means :
  forall (cf : State2.config) (k : nat) (s : State2.sim)
         (j c : BinNums.Z),
       TrackerInc2b.InvB cf s ->
       BinInt.Z.le BinNums.Z0 c /\ BinInt.Z.lt c (BinInt.Z.of_nat k) ->
       Engine2.nthZ (State2.nodes s)
         (BinInt.Z.sub j (BinNums.Zpos BinNums.xH)) <> None ->
       TrackerInc2b.entry (TrackerInc2.cm_true k s) j c =
       TrackerInc2b.cntc c s j.
Proof. exact TrackerInc2b.class_matrix_means. Qed.
Print Assumptions class_matrix_means.

Theorem event_step_tinvs2 :
  forall (cf : State2.config) (s s' : State2.sim),
       TrackerInc2b.scope_nb cf = true ->
       TrackerInc2b.Inv2 cf s ->
       TrackerInc2b.CandQ1 s ->
       TrackerInc2b.TInvS s ->
       Engine2.event_step cf s = State2.Ok (tt, s') -> TrackerInc2b.TInvS s'.
Proof. exact TrackerInc2b.event_step_tinvs2. Qed.
Print Assumptions event_step_tinvs2.

Theorem event_step_class_matrix2 :
  forall (cf : State2.config) (s s' : State2.sim),
       TrackerInc2b.scope_nb cf = true ->
       State2.cf_dyn cf = false ->
       TrackerInc2b.InvB cf s ->
       Engine2.event_step cf s = State2.Ok (tt, s') ->
       TrackerInc2b.InvB cf s' /\
       (forall c j : BinNums.Z,
        BinInt.Z.sub (TrackerInc2b.cntc c s' j)
          (TrackerInc2b.netc c j (TrackerInc2.calls_event_step cf s)) =
        TrackerInc2b.cntc c s j).
Proof. exact TrackerInc2b.event_step_class_matrix2. Qed.
Print Assumptions event_step_class_matrix2.

Theorem run_many_class_matrix2 :
  forall (cf : State2.config) (ds : list State2.draws)
         (s s' : State2.sim),
       TrackerInc2b.scope_nb cf = true ->
       State2.cf_dyn cf = false ->
       TrackerInc2b.InvB cf s ->
       Codec2.run_many cf s ds = State2.Ok s' ->
       TrackerInc2b.InvB cf s' /\
       (forall c j : BinNums.Z,
        BinInt.Z.sub (TrackerInc2b.cntc c s' j)
          (TrackerInc2b.netc c j (TrackerInc2.calls_many cf s ds)) =
        TrackerInc2b.cntc c s j) /\
       (forall m0 m' : list (list BinNums.Z),
        TrackerInc2.orun TrackerInc2.cm_step (TrackerInc2.calls_many cf s ds)
          m0 = Some m' ->
        forall j c : BinNums.Z,
        TrackerInc2b.entry m0 j c = TrackerInc2b.cntc c s j ->
        TrackerInc2b.entry m' j c = TrackerInc2b.cntc c s' j).
Proof. exact TrackerInc2b.run_many_class_matrix2. Qed.
Print Assumptions run_many_class_matrix2.

Theorem event_step_class_matrix2_partial :
  forall (cf : State2.config) (s s' : State2.sim),
       TrackerInc2b.scope_nb cf = true ->
       TrackerInc2b.InvB cf s ->
       TrackerInc2b.CandQ1 s ->
       Engine2.event_step cf s = State2.Ok (tt, s') ->
       TrackerInc2b.InvB cf s' /\
       (forall c j : BinNums.Z,
        BinInt.Z.sub (TrackerInc2b.cntc c s' j)
          (TrackerInc2b.netc c j (TrackerInc2.calls_event_step cf s)) =
        TrackerInc2b.cntc c s j).
Proof. exact TrackerInc2b.event_step_class_matrix2_partial. Qed.
Print Assumptions event_step_class_matrix2_partial.

Theorem run_many_class_matrix2_partial :
  forall cf : State2.config,
       TrackerInc2b.scope_nb cf = true ->
       forall (ds : list State2.draws) (s s' : State2.sim),
       TrackerInc2b.InvB cf s ->
       TrackerInc2b.CandQ1_run cf s ds ->
       Codec2.run_many cf s ds = State2.Ok s' ->
       TrackerInc2b.InvB cf s' /\
       (forall c j : BinNums.Z,
        BinInt.Z.sub (TrackerInc2b.cntc c s' j)
          (TrackerInc2b.netc c j (TrackerInc2.calls_many cf s ds)) =
        TrackerInc2b.cntc c s j) /\
       (forall m0 m' : list (list BinNums.Z),
        TrackerInc2.orun TrackerInc2.cm_step (TrackerInc2.calls_many cf s ds)
          m0 = Some m' ->
        forall j c : BinNums.Z,
        TrackerInc2b.entry m0 j c = TrackerInc2b.cntc c s j ->
        TrackerInc2b.entry m' j c = TrackerInc2b.cntc c s' j).
Proof. exact TrackerInc2b.run_many_class_matrix2_partial. Qed.
Print Assumptions run_many_class_matrix2_partial.

Theorem invb_b_sound :
  forall (cf : State2.config) (an : BinNums.Z -> option BinNums.Z)
         (h : list State2.rec) (s : State2.sim),
       TrackerInc2b.invb_b cf an h s = true -> TrackerInc2b.InvB cf s.
Proof. exact TrackerInc2b.invb_b_sound. Qed.
Print Assumptions invb_b_sound.

Theorem class_matrix_refuted_F02b :
  exists
         (cf : State2.config) (s0 : State2.sim) (ds : list State2.draws) 
       (s10 : State2.sim),
         Conserve2.wfx2_b s0 = true /\
         TrackerInc2b.tinvs_b s0 = true /\
         TrackerInc2.scope_int cf = false /\
         Codec2.run_many cf s0 ds = State2.Ok s10 /\
         TrackerInc2.calls_many cf s0 ds =
         (TrackerInc2.Acc (BinNums.Zpos BinNums.xH) BinNums.Z0
          :: TrackerInc2.Acc (BinNums.Zpos BinNums.xH) BinNums.Z0
             :: TrackerInc2.Rel (BinNums.Zpos BinNums.xH)
                  (BinNums.Zpos (BinNums.xO BinNums.xH))
                  (BinNums.Zpos BinNums.xH) BinNums.Z0 false
                :: TrackerInc2.Acc (BinNums.Zpos (BinNums.xO BinNums.xH))
                     (BinNums.Zpos BinNums.xH)
                   :: TrackerInc2.Acc (BinNums.Zpos BinNums.xH) BinNums.Z0
                      :: TrackerInc2.Blk (BinNums.Zpos BinNums.xH)
                           (BinNums.Zpos (BinNums.xO BinNums.xH))
                           (BinNums.Zpos (BinNums.xI BinNums.xH)) BinNums.Z0
                         :: TrackerInc2.Blk (BinNums.Zpos BinNums.xH)
                              (BinNums.Zpos (BinNums.xO BinNums.xH))
                              (BinNums.Zpos (BinNums.xO BinNums.xH))
                              BinNums.Z0
                            :: TrackerInc2.Blk (BinNums.Zpos BinNums.xH)
                                 (BinNums.Zpos (BinNums.xO BinNums.xH))
                                 (BinNums.Zpos (BinNums.xO BinNums.xH))
                                 (BinNums.Zpos BinNums.xH)
                               :: TrackerInc2.Blk 
                                    (BinNums.Zpos BinNums.xH)
                                    (BinNums.Zpos (BinNums.xO BinNums.xH))
                                    (BinNums.Zpos (BinNums.xO BinNums.xH))
                                    (BinNums.Zpos BinNums.xH)
                                  :: TrackerInc2.Blk
                                       (BinNums.Zpos BinNums.xH)
                                       (BinNums.Zpos (BinNums.xO BinNums.xH))
                                       (BinNums.Zpos (BinNums.xI BinNums.xH))
                                       (BinNums.Zpos BinNums.xH) :: nil)%list /\
         TrackerInc2.cm_true 2 s10 =
         ((BinNums.Z0 :: BinNums.Zpos (BinNums.xO BinNums.xH) :: nil)
          :: (BinNums.Z0 :: BinNums.Zpos BinNums.xH :: nil) :: nil)%list /\
         TrackerInc2.orun TrackerInc2.cm_step
           (TrackerInc2.calls_many cf s0 ds) (TrackerInc2.cm_true 2 s0) =
         Some
           ((BinNums.Zpos (BinNums.xO BinNums.xH) :: BinNums.Z0 :: nil)
            :: (BinNums.Z0 :: BinNums.Zpos BinNums.xH :: nil) :: nil)%list /\
         TrackerInc2.Tracked1 (TrackerInc2.calls_many cf s0 ds) s0 s10.
Proof. exact TrackerInc2b.class_matrix_refuted_F02b. Qed.
Print Assumptions class_matrix_refuted_F02b.

Theorem nb_refutations_outside :
  TrackerInc2b.scope_nb TrackerInc2.r4_cf = false /\
       TrackerInc2b.scope_nb TrackerInc2.a2_cf = false /\
       TrackerInc2b.scope_nb TrackerInc2.a3_cf = false /\
       TrackerInc2b.scope_nb TrackerInc2.tk_cf = true /\
       TrackerInc2b.scope_nb TrackerInc2.b2_cf = true.
Proof. exact TrackerInc2b.nb_refutations_outside. Qed.
Print Assumptions nb_refutations_outside.

Theorem nb_run60 :
  exists s' : State2.sim,
         Codec2.run_many TrackerInc2b.nb_cf TrackerInc2b.nb_s0
           (List.repeat TrackerInc2b.nb_d 60) = State2.Ok s' /\
         TrackerInc2.orun TrackerInc2.nb_step
           (TrackerInc2.calls_many TrackerInc2b.nb_cf TrackerInc2b.nb_s0
              (List.repeat TrackerInc2b.nb_d 60))
           (TrackerInc2.nb_true TrackerInc2b.nb_s0) =
         Some (TrackerInc2.nb_true s').
Proof. exact TrackerInc2b.nb_run60. Qed.
Print Assumptions nb_run60.

Theorem cm_run60 :
  exists (s' : State2.sim) (m' : list (list BinNums.Z)),
         Codec2.run_many TrackerInc2b.cm_cf TrackerInc2b.cm_s0
           (List.repeat TrackerInc2b.cm_d 60) = State2.Ok s' /\
         TrackerInc2.orun TrackerInc2.cm_step
           (TrackerInc2.calls_many TrackerInc2b.cm_cf TrackerInc2b.cm_s0
              (List.repeat TrackerInc2b.cm_d 60))
           (TrackerInc2.cm_true 2 TrackerInc2b.cm_s0) = 
         Some m' /\
         (forall j c : BinNums.Z,
          BinInt.Z.le (BinNums.Zpos BinNums.xH) j /\
          BinInt.Z.le j (BinNums.Zpos (BinNums.xI BinNums.xH)) ->
          BinInt.Z.le BinNums.Z0 c /\
          BinInt.Z.lt c (BinNums.Zpos (BinNums.xO BinNums.xH)) ->
          TrackerInc2b.entry m' j c = TrackerInc2b.cntc c s' j).
Proof. exact TrackerInc2b.cm_run60. Qed.
Print Assumptions cm_run60.

(* ---- TrackerInc2c ---- *)
From CiwV.Inv Require TrackerInc2c.

Theorem event_step_fresh :
  forall (cf : State2.config) (s s' : State2.sim),
       Renege2.Idx s ->
       Engine2.event_step cf s = State2.Ok (tt, s') -> TrackerInc2c.Fresh s'.
Proof. exact TrackerInc2c.event_step_fresh. Qed.
Print Assumptions event_step_fresh.

Theorem candq1_of_ncciq :
  forall s : State2.sim,
       TrackerInc2c.Fresh s -> TrackerInc2c.NcciQ s -> TrackerInc2b.CandQ1 s.
Proof. exact TrackerInc2c.candq1_of_ncciq. Qed.
Print Assumptions candq1_of_ncciq.

Theorem event_step_candq1 :
  forall (cf : State2.config) (s s' : State2.sim),
       Renege2.Idx s ->
       Engine2.event_step cf s = State2.Ok (tt, s') ->
       TrackerInc2c.NcciQ s' -> TrackerInc2b.CandQ1 s'.
Proof. exact TrackerInc2c.event_step_candq1. Qed.
Print Assumptions event_step_candq1.

Theorem event_step_class_matrix2c_partial :
  forall (cf : State2.config) (s s' : State2.sim),
       TrackerInc2b.scope_nb cf = true ->
       TrackerInc2b.InvB cf s ->
       TrackerInc2b.CandQ1 s ->
       Engine2.event_step cf s = State2.Ok (tt, s') ->
       TrackerInc2b.InvB cf s' /\
       TrackerInc2c.Fresh s' /\
       (TrackerInc2c.NcciQ s' -> TrackerInc2b.CandQ1 s') /\
       (forall c j : BinNums.Z,
        BinInt.Z.sub (TrackerInc2b.cntc c s' j)
          (TrackerInc2b.netc c j (TrackerInc2.calls_event_step cf s)) =
        TrackerInc2b.cntc c s j).
Proof. exact TrackerInc2c.event_step_class_matrix2c_partial. Qed.
Print Assumptions event_step_class_matrix2c_partial.

Theorem run_many_class_matrix2c_partial :
  forall cf : State2.config,
       TrackerInc2b.scope_nb cf = true ->
       forall (ds : list State2.draws) (s s' : State2.sim),
       TrackerInc2b.InvB cf s ->
       TrackerInc2b.CandQ1 s ->
       TrackerInc2c.NcciQ_run cf s ds ->
       Codec2.run_many cf s ds = State2.Ok s' ->
       TrackerInc2b.InvB cf s' /\
       (forall c j : BinNums.Z,
        BinInt.Z.sub (TrackerInc2b.cntc c s' j)
          (TrackerInc2b.netc c j (TrackerInc2.calls_many cf s ds)) =
        TrackerInc2b.cntc c s j) /\
       (forall m0 m' : list (list BinNums.Z),
        TrackerInc2.orun TrackerInc2.cm_step (TrackerInc2.calls_many cf s ds)
          m0 = Some m' ->
        forall j c : BinNums.Z,
        TrackerInc2b.entry m0 j c = TrackerInc2b.cntc c s j ->
        TrackerInc2b.entry m' j c = TrackerInc2b.cntc c s' j).
Proof. exact TrackerInc2c.run_many_class_matrix2c_partial. Qed.
Print Assumptions run_many_class_matrix2c_partial.

Theorem find_next_class_change_spec :
  forall (j : BinNums.Z) (s s' : State2.sim),
       Engine2.find_next_class_change j s = State2.Ok (tt, s') ->
       exists (nd : State2.node) (d c : option BinNums.Z),
         Engine2.nthZ (State2.nodes s)
           (BinInt.Z.sub j (BinNums.Zpos BinNums.xH)) = 
         Some nd /\
         s' =
         RecordSet.set State2.nodes
           (fun _ : list State2.node =>
            Engine2.updZ (State2.nodes s)
              (BinInt.Z.sub (State2.n_id nd) (BinNums.Zpos BinNums.xH))
              (RecordSet.set State2.n_ncci (fun _ : option BinNums.Z => c)
                 (RecordSet.set State2.n_nccd (fun _ : option BinNums.Z => d)
                    nd))) s /\
         (forall i : BinNums.Z,
          c = Some i ->
          List.In i (Engine2.all_individuals nd) /\
          (exists (x : State2.ind) (z : BinNums.Z),
             Engine2.find_ind i (State2.inds s) = Some x /\
             State2.i_ccd x = State2.XV z /\ State2.i_server x = None)).
Proof. exact TrackerInc2c.find_next_class_change_spec. Qed.
Print Assumptions find_next_class_change_spec.

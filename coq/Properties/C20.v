(* Property C20 -- statements only. *)
From Coq Require Import ZArith QArith Qpower List Permutation.
From CiwV Require Import Sx Decimal Acc.C20.
Import ListNotations.

(* "n has at most k decimal digits" (the executable digit count used by the rounding) is |n| < 10^k *)
Theorem ndigits_le : forall k n, (0 <= k)%Z -> (Decimal.ndigits n <= k <-> Z.abs n < 10 ^ k)%Z.
Proof. exact Decimal.ndigits_le. Qed.
Print Assumptions ndigits_le.

(* add_exact: if the exact sum can be written with at most k significant digits, the context addition
   at precision k (round-half-even) returns a decimal whose value is the exact sum *)
Theorem add_exact : forall k a b, (0 <= k)%Z -> Decimal.fits k (Decimal.msum a b) ->
  Decimal.dval (Decimal.add_k k a b) == Decimal.dval a + Decimal.dval b.
Proof. exact Decimal.add_exact. Qed.
Print Assumptions add_exact.

(* the same for the subtractions the engine performs (waiting time, service time, time blocked) *)
Theorem sub_exact : forall k a b, (0 <= k)%Z -> Decimal.fits k (Decimal.msum a (Decimal.neg b)) ->
  Decimal.dval (Decimal.sub_k k a b) == Decimal.dval a - Decimal.dval b.
Proof. exact Decimal.sub_exact. Qed.
Print Assumptions sub_exact.

(* sum_exact (no drift): a left fold of add_k over samples with at most d fractional digits, every partial
   sum of which has at most k digits when counted in units of 10^-d, is the exact rational sum ... *)
Theorem sum_exact : forall k d, (0 <= k)%Z -> forall l acc,
  Decimal.on_grid d acc -> Forall (Decimal.on_grid d) l -> Decimal.sums_fit k d (Decimal.ticks d acc) l ->
  Decimal.dval (fold_left (Decimal.add_k k) l acc) == Decimal.dval acc + Decimal.qsum (map Decimal.dval l).
Proof. exact Decimal.sum_exact. Qed.
Print Assumptions sum_exact.

(* ... and, counted in ticks of 10^-d, it is the integer sum: the exact-mode accumulation is the tick run *)
Theorem sum_ticks : forall k d, (0 <= k)%Z -> forall l acc,
  Decimal.on_grid d acc -> Forall (Decimal.on_grid d) l -> Decimal.sums_fit k d (Decimal.ticks d acc) l ->
  Decimal.on_grid d (fold_left (Decimal.add_k k) l acc) /\
  Decimal.ticks d (fold_left (Decimal.add_k k) l acc) = (Decimal.ticks d acc + Prelude.zsum (map (Decimal.ticks d) l))%Z.
Proof. exact Decimal.sum_ticks. Qed.
Print Assumptions sum_ticks.

(* coincide: two computations adding the same samples in any order and any grouping, none of whose
   intermediate sums exceeds the precision, yield equal Decimals -- events that coincide mathematically
   coincide in the simulation *)
Theorem coincide : forall k d t1 t2, (0 <= k)%Z -> Decimal.tree_fit k d t1 -> Decimal.tree_fit k d t2 ->
  Permutation (Decimal.leaves t1) (Decimal.leaves t2) ->
  Decimal.dval (Decimal.eval_k k t1) == Decimal.dval (Decimal.eval_k k t2) /\
  Decimal.dec_eqb (Decimal.eval_k k t1) (Decimal.eval_k k t2) = true.
Proof. exact Decimal.coincide. Qed.
Print Assumptions coincide.

Theorem coincide_fold : forall k d l1 l2 acc, (0 <= k)%Z -> Decimal.on_grid d acc ->
  Forall (Decimal.on_grid d) l1 -> Forall (Decimal.on_grid d) l2 ->
  Decimal.sums_fit k d (Decimal.ticks d acc) l1 -> Decimal.sums_fit k d (Decimal.ticks d acc) l2 -> Permutation l1 l2 ->
  Decimal.dec_eqb (fold_left (Decimal.add_k k) l1 acc) (fold_left (Decimal.add_k k) l2 acc) = true.
Proof. exact Decimal.coincide_fold. Qed.
Print Assumptions coincide_fold.

(* Python's == on two Decimals (exact comparison) decides equality of their values *)
Theorem dec_eqb_spec : forall a b, Decimal.dec_eqb a b = true <-> Decimal.dval a == Decimal.dval b.
Proof. exact Decimal.dec_eqb_spec. Qed.
Print Assumptions dec_eqb_spec.

(* Decimal("i.f E ex") denotes (i + f / 10^|f|) * 10^ex *)
Theorem of_lit_value : forall ip fp ex,
  Decimal.dval (Decimal.of_lit false ip fp ex) ==
  (inject_Z (Decimal.digs 0 ip) + inject_Z (Decimal.digs 0 fp) * Decimal.q10 ^ (- Z.of_nat (length fp))) * Decimal.q10 ^ ex.
Proof. exact Decimal.of_lit_value. Qed.
Print Assumptions of_lit_value.

(* non-vacuity: at 3 digits 1.23 + 0.004 is rounded to 1.23 (the hypothesis of add_exact fails and so does
   its conclusion), and two groupings of 1.00, 0.004, 0.004 give 1.00 and 1.01 *)
Theorem add_exact_refuted :
  Decimal.add_k 3 (Decimal.mkD 123 (-2)) (Decimal.mkD 4 (-3)) = Decimal.mkD 123 (-2) /\
  Decimal.dec_eqb (Decimal.add_k 3 (Decimal.mkD 123 (-2)) (Decimal.mkD 4 (-3))) (Decimal.mkD 1234 (-3)) = false /\
  ~ (Z.abs (Decimal.msum (Decimal.mkD 123 (-2)) (Decimal.mkD 4 (-3))) < 10 ^ 3)%Z.
Proof. exact Decimal.add_exact_refuted. Qed.
Print Assumptions add_exact_refuted.

Theorem coincide_refuted :
  let a := Decimal.mkD 100 (-2) in let b := Decimal.mkD 4 (-3) in
  Decimal.dec_eqb (Decimal.eval_k 3 (Decimal.Node (Decimal.Node (Decimal.Leaf a) (Decimal.Leaf b)) (Decimal.Leaf b)))
                  (Decimal.eval_k 3 (Decimal.Node (Decimal.Leaf a) (Decimal.Node (Decimal.Leaf b) (Decimal.Leaf b)))) = false /\
  Decimal.dec_eqb (Decimal.eval_k 4 (Decimal.Node (Decimal.Node (Decimal.Leaf a) (Decimal.Leaf b)) (Decimal.Leaf b)))
                  (Decimal.eval_k 4 (Decimal.Node (Decimal.Leaf a) (Decimal.Node (Decimal.Leaf b) (Decimal.Leaf b)))) = true.
Proof. exact Decimal.coincide_refuted. Qed.
Print Assumptions coincide_refuted.

(* T1: an accepted pair (exact run, tick run): same discrete fields, every date/duration a Decimal at the
   context precision whose value is exactly the tick value *)
Theorem C20_sound : forall k d rs st, (0 <= k)%Z -> C20.acc k d rs = Accept st -> Forall (C20.rcd_ok k d) rs.
Proof. exact C20.C20_sound. Qed.
Print Assumptions C20_sound.

(* Property C01 -- statements about the STAGE-2 engine model (coq/Engine/Engine2.v: routers, reneging, pre-emption, schedules, slots,
   class change while waiting), statements only; proofs in coq/Inv/Conserve2.v.  The model is tied to /repo by the stepwise correspondence
   check K2 (harness/engine_k2b.py); the executable invariants are evaluated on every real snapshot it visits. *)
From Coq Require Import ZArith List Bool Permutation.
From CiwV Require Import Sx Prelude Routing Sched.
From CiwV.Engine Require Import State2 Engine2 Codec2.
From CiwV.Inv Require Conserve2.
Import ListNotations.
Open Scope Z_scope.

Theorem event_step_conserves2 :
  forall (cf : State2.config) (s s' : State2.sim),
       Conserve2.WFx2 nil s ->
       Engine2.event_step cf s = State2.Ok (tt, s') -> Conserve2.WFx2 nil s'.
Proof. exact Conserve2.event_step_conserves2. Qed.
Print Assumptions event_step_conserves2.

Theorem run_many_conserves2 :
  forall (cf : State2.config) (ds : list State2.draws)
         (s s' : State2.sim),
       Conserve2.WFx2 nil s ->
       Codec2.run_many cf s ds = State2.Ok s' -> Conserve2.WFx2 nil s'.
Proof. exact Conserve2.run_many_conserves2. Qed.
Print Assumptions run_many_conserves2.

Theorem WFx2_means :
  forall s : State2.sim,
       Conserve2.WFx2 nil s ->
       Permutation.Permutation (Conserve2.ids_of s)
         (Prelude.zseq (BinNums.Zpos BinNums.xH)
            (BinInt.Z.to_nat (State2.a_created (State2.arr s)))) /\
       List.NoDup (Conserve2.ids_of s) /\
       (forall nd : State2.node,
        List.In nd (State2.nodes s) ->
        State2.n_pop nd = Prelude.zlen (Engine2.all_individuals nd)) /\
       State2.exit_n s = Prelude.zlen (State2.exit_ids s) /\
       State2.a_created (State2.arr s) =
       BinInt.Z.add (Prelude.zsum (List.map State2.n_pop (State2.nodes s)))
         (State2.exit_n s) /\
       Permutation.Permutation (List.map State2.i_id (State2.inds s))
         (Conserve2.ids_in_nodes s) /\
       List.NoDup (List.map State2.i_id (State2.inds s)) /\
       (forall x : BinNums.Z,
        List.In x (State2.exit_ids s) ->
        Engine2.find_ind x (State2.inds s) = None) /\
       (forall (k : nat) (nd : State2.node),
        List.nth_error (State2.nodes s) k = Some nd ->
        State2.n_id nd =
        BinInt.Z.add (BinInt.Z.of_nat k) (BinNums.Zpos BinNums.xH)).
Proof. exact Conserve2.WFx2_means. Qed.
Print Assumptions WFx2_means.

Theorem exit_is_permanent2 :
  forall (cf : State2.config) (ds : list State2.draws)
         (s s' : State2.sim) (x : BinNums.Z),
       Conserve2.WFx2 nil s ->
       Codec2.run_many cf s ds = State2.Ok s' ->
       List.In x (State2.exit_ids s) ->
       List.In x (State2.exit_ids s') /\
       (forall nd : State2.node,
        List.In nd (State2.nodes s') ->
        ~ List.In x (Engine2.all_individuals nd)) /\
       Engine2.find_ind x (State2.inds s') = None.
Proof. exact Conserve2.exit_is_permanent2. Qed.
Print Assumptions exit_is_permanent2.

Theorem wfx2_b_sound :
  forall s : State2.sim,
       Conserve2.wfx2_b s = true -> Conserve2.WFx2 nil s.
Proof. exact Conserve2.wfx2_b_sound. Qed.
Print Assumptions wfx2_b_sound.

(* Property C17 -- statements only. *)
From Coq Require Import ZArith QArith List Permutation.
From CiwV Require Import Sx Tracker Acc.C17.
Import ListNotations.

(* every integer of a true state (populations, per-class counts, blocked counts, blocking numbers) is >= 0 *)
Theorem true_state_nonneg : forall k r ghost,
  Forall (fun z => (0 <= z)%Z) (Tracker.ts_atoms (Tracker.true_state k r ghost)).
Proof. exact Tracker.true_state_nonneg. Qed.
Print Assumptions true_state_nonneg.

(* T1: accepted traces of any length: tracked state = true state after every frame, counts >= 0,
   the history is exactly the list of state changes with their event times, consecutive entries differ,
   timestamps are non-decreasing from 0 *)
Theorem C17_sound : forall k init fs fin st, C17.acc k init fs fin = Accept st ->
  (C17.f_st init = Tracker.true_state k (C17.f_raw init) [] /\
   forall j f, nth_error fs j = Some f ->
     C17.f_st f = Tracker.true_state k (C17.f_raw f) (C17.ghost_after (firstn (S j) fs)) /\
     (k = Tracker.KMatrix -> NoDup (C17.ghost_after (firstn (S j) fs)) /\
                     Permutation (C17.ghost_after (firstn (S j) fs)) (Tracker.blocked_ids (C17.f_raw f)))) /\
  (forall f, In f (init :: fs) -> Forall (fun z => (0 <= z)%Z) (Tracker.ts_atoms (C17.f_st f))) /\
  C17.history_of init fs = (0%Z, C17.f_st init) :: Tracker.changes (C17.f_st init) (map C17.obs fs) /\
  (Tracker.adj_differ (C17.f_st init) (Tracker.changes (C17.f_st init) (map C17.obs fs)) /\
   Tracker.sorted_from 0 (map fst (C17.history_of init fs)) /\
   Tracker.last_state (C17.f_st init) (Tracker.changes (C17.f_st init) (map C17.obs fs)) =
     Tracker.last_state (C17.f_st init) (map C17.obs fs)) /\
  (forall h, fin = Some h -> h = C17.history_of init fs).
Proof. exact C17.C17_sound. Qed.
Print Assumptions C17_sound.

(* the history function: exactly the frames whose state differs from the state of the frame before *)
Theorem changes_filter : forall (l : list (Z * Tracker.tstate)) prev,
  Tracker.changes prev l =
  map snd (filter (fun p => negb (Tracker.tstate_eqb (snd (snd p)) (fst p))) (combine (prev :: map snd l) l)).
Proof. exact (@Tracker.changes_filter Z). Qed.
Print Assumptions changes_filter.

Open Scope Q_scope.
(* state_probabilities returns the exact time shares, under the precise guard *)
Theorem state_probabilities_spec : forall t0 s0 r a b,
  Tracker.qsorted_from t0 (map fst r) -> 0 <= a -> a < b -> t0 < b ->
  (forall t, In t (map fst ((t0, s0) :: r)) -> ~ t == b) ->
  exists d, Tracker.state_probabilities ((t0, s0) :: r) a (Some b) = Tracker.SpOk d /\
    (forall s, Tracker.dget d s == Tracker.time_in (Tracker.qmax a t0) b s ((t0, s0) :: r) / (b - Tracker.qmax a t0)) /\
    Tracker.dsum d == 1 /\ NoDup (map fst d).
Proof. exact Tracker.state_probabilities_spec. Qed.
Print Assumptions state_probabilities_spec.

(* time_in is a measure: over all states it adds up to the window length *)
Theorem time_all_window : forall lo b, lo < b -> forall r t s, t <= b -> Tracker.qsorted_from t (map fst r) ->
  Tracker.time_all lo b ((t, s) :: r) == b - Tracker.qmax t lo.
Proof. exact Tracker.time_all_window. Qed.
Print Assumptions time_all_window.

(* outside the guard the faithful model does not return the time shares (F-17b) *)
Theorem state_probabilities_refuted_end_date :
  exists t0 s0 r a b s d,
    Tracker.qsorted_from t0 (map fst r) /\ 0 <= a /\ a < b /\ t0 < b /\
    Tracker.state_probabilities ((t0, s0) :: r) a (Some b) = Tracker.SpOk d /\
    ~ Tracker.dget d s == Tracker.time_in (Tracker.qmax a t0) b s ((t0, s0) :: r) / (b - Tracker.qmax a t0).
Proof. exact Tracker.state_probabilities_refuted_end_date. Qed.
Print Assumptions state_probabilities_refuted_end_date.

Theorem state_probabilities_refuted_end_date_zero_division :
  Tracker.state_probabilities [(0, 0%Z); (4, 1%Z)] 0 (Some 4) = Tracker.SpZeroDivision.
Proof. exact Tracker.state_probabilities_refuted_end_date_zero_division. Qed.
Print Assumptions state_probabilities_refuted_end_date_zero_division.

Theorem state_probabilities_refuted_inf :
  exists t0 s0 r a s d,
    Tracker.qsorted_from t0 (map fst r) /\ 0 <= a /\
    Tracker.state_probabilities ((t0, s0) :: r) a None = Tracker.SpOk d /\
    ~ Tracker.dget d s == Tracker.time_in (Tracker.qmax a t0) (Tracker.last_time ((t0, s0) :: r)) s ((t0, s0) :: r)
                          / (Tracker.last_time ((t0, s0) :: r) - Tracker.qmax a t0).
Proof. exact Tracker.state_probabilities_refuted_inf. Qed.
Print Assumptions state_probabilities_refuted_inf.

Theorem state_probabilities_refuted_inf_zero_division :
  Tracker.state_probabilities [(0, 0%Z)] 0 None = Tracker.SpZeroDivision.
Proof. exact Tracker.state_probabilities_refuted_inf_zero_division. Qed.
Print Assumptions state_probabilities_refuted_inf_zero_division.

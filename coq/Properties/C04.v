(* Property C04 -- statements only. *)
From Coq Require Import ZArith List.
From CiwV Require Import Sx Acc.C04.

Theorem C04_sound : forall tr recs fins st, C04.acc tr recs fins = Accept st -> C04.P_C04 tr recs fins.
Proof. exact C04.C04_sound. Qed.
Print Assumptions C04_sound.

(* ---- T2: the engine model (coq/Engine, tied to /repo by the stepwise correspondence check K2) keeps server exclusivity ---- *)
From Coq Require Import ZArith List.
From CiwV Require Import Prelude.
From CiwV.Engine Require Import State Engine Codec.
From CiwV.Inv Require Import Frame Conserve Servers.
Open Scope Z_scope.

(* one executed event, for every configuration, every state satisfying the invariant and every oracle of draws *)
Theorem event_step_srv : forall cf s s', Servers.SrvInv cf s -> Engine.event_step cf s = Ok (tt, s') -> Servers.SrvInv cf s'.
Proof. exact Servers.event_step_srv. Qed.
Print Assumptions event_step_srv.

(* any number of events, in the words of the property: at a node with c servers there are c servers with distinct ids, a server
   is busy exactly when it holds a customer, that customer is at the node and records exactly this server and conversely, no two
   customers share a server and no server has two customers, at most c customers hold a server and at most c servers are busy *)
Theorem engine_servers : forall cf ds s s', Servers.SrvInv cf s -> Codec.run_many cf s ds = Ok s' ->
  forall k nd nc c, nth_error (nodes s') k = Some nd -> nth_error (cf_nodes cf) k = Some nc -> nc_c nc = Some c ->
    zlen (n_servers nd) = c /\ NoDup (map sv_id (n_servers nd)) /\
    (forall sv, In sv (n_servers nd) -> (sv_busy sv = true <-> sv_cust sv <> None)) /\
    (forall sv i, In sv (n_servers nd) -> sv_cust sv = Some i ->
       In i (Engine.all_individuals nd) /\ exists x, Engine.find_ind i (inds s') = Some x /\ i_server x = Some (sv_id sv)) /\
    (forall i x sid, In i (Engine.all_individuals nd) -> Engine.find_ind i (inds s') = Some x -> i_server x = Some sid ->
       exists sv, In sv (n_servers nd) /\ sv_id sv = sid /\ sv_cust sv = Some i) /\
    (forall i1 i2 sid, In i1 (Engine.all_individuals nd) -> In i2 (Engine.all_individuals nd) ->
       Servers.isv (inds s') i1 = Some sid -> Servers.isv (inds s') i2 = Some sid -> i1 = i2) /\
    (forall sv1 sv2 i, In sv1 (n_servers nd) -> In sv2 (n_servers nd) -> sv_cust sv1 = Some i -> sv_cust sv2 = Some i -> sv1 = sv2) /\
    zlen (filter (Servers.holds_server (inds s')) (Engine.all_individuals nd)) <= c /\ zlen (filter sv_busy (n_servers nd)) <= c.
Proof. exact Servers.engine_servers. Qed.
Print Assumptions engine_servers.

(* the clause in time: a busy server keeps its customer (blocked or not) until a service record of that customer at that node is
   written, i.e. until the customer is released from the node *)
Theorem server_stays : forall cf s s', Servers.SrvInv cf s -> Engine.event_step cf s = Ok (tt, s') ->
  forall k nd nc c sv i, nth_error (nodes s) k = Some nd -> nth_error (cf_nodes cf) k = Some nc -> nc_c nc = Some c ->
    In sv (n_servers nd) -> sv_cust sv = Some i ->
    (exists nd' sv', nth_error (nodes s') k = Some nd' /\ In i (Engine.all_individuals nd') /\
                     In sv' (n_servers nd') /\ sv_id sv' = sv_id sv /\ sv_cust sv' = Some i /\ sv_busy sv' = true) \/
    Servers.left_node s' k i.
Proof. exact Servers.server_stays. Qed.
Print Assumptions server_stays.

(* the executable test used by the correspondence check on the real engine's snapshots is sound for the invariant *)
Theorem srv_b_sound : forall cf s, Servers.srv_b cf s = true -> Servers.SrvInv cf s.
Proof. exact Servers.srv_b_sound. Qed.
Print Assumptions srv_b_sound.

(* Property C04 -- statements only. *)
From Coq Require Import ZArith List.
From CiwV Require Import Sx Acc.C04.

Theorem C04_sound : forall tr recs fins st, C04.acc tr recs fins = Accept st -> C04.P_C04 tr recs fins.
Proof. exact C04.C04_sound. Qed.
Print Assumptions C04_sound.

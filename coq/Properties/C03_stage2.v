(* Property C03 -- statements about the STAGE-2 engine model (coq/Engine/Engine2.v), statements only; proofs in coq/Inv/Journey2.v.
   The model is tied to /repo by the stepwise correspondence check K2 (harness/engine_k2b.py). *)
From Coq Require Import ZArith List Bool Permutation.
From CiwV Require Import Sx Prelude Routing Sched.
From CiwV.Engine Require Import State2 Engine2 Codec2.
From CiwV.Inv Require Journey2.
Import ListNotations.
Open Scope Z_scope.

Theorem event_step_jrn2 :
  forall (cf : State2.config) (an : BinNums.Z -> option BinNums.Z)
         (s s' : State2.sim) (h : list State2.rec),
       Journey2.scope2 cf = true ->
       Journey2.Jrn2 cf an s h ->
       Engine2.event_step cf s = State2.Ok (tt, s') ->
       Journey2.Jrn2 cf (Journey2.an_step s an) s' (h ++ State2.log s').
Proof. exact Journey2.event_step_jrn2. Qed.
Print Assumptions event_step_jrn2.

Theorem engine_journey2 :
  forall (cf : State2.config) (ds : list State2.draws) 
         (s : State2.sim) (h : list State2.rec)
         (an : BinNums.Z -> option BinNums.Z) (s' : State2.sim)
         (h' : list State2.rec) (an' : BinNums.Z -> option BinNums.Z),
       Journey2.scope2 cf = true ->
       Journey2.Jrn2 cf an s h ->
       Journey2.run_hist cf s h an ds = State2.Ok (s', h', an') ->
       Codec2.run_many cf s ds = State2.Ok s' /\
       (exists t : list State2.rec, h' = (h ++ t)%list) /\
       Journey2.Jrn2 cf an' s' h'.
Proof. exact Journey2.engine_journey2. Qed.
Print Assumptions engine_journey2.

Theorem Jrn2_means :
  forall (cf : State2.config) (an : BinNums.Z -> option BinNums.Z)
         (s : State2.sim) (h : list State2.rec),
       Journey2.Jrn2 cf an s h ->
       (forall (i : BinNums.Z) (r : State2.rec) (l : list State2.rec),
        Journey2.recs_of i h = (r :: l)%list -> an i = Some (State2.r_node r)) /\
       (forall (i : BinNums.Z) (l1 : list State2.rec) 
          (r1 r2 : State2.rec) (l2 : list State2.rec),
        Journey2.recs_of i h = (l1 ++ r1 :: r2 :: l2)%list ->
        Journey2.visit r2 /\
        (Journey2.closing r1 /\
         State2.r_dest r1 = Some (State2.r_node r2) /\
         State2.r_exit r1 = State2.r_arr r2 \/
         Journey2.cont r1 /\
         State2.r_node r2 = State2.r_node r1 /\
         State2.r_arr r2 = State2.r_arr r1)) /\
       (forall r : State2.rec,
        List.In r h ->
        ~ Journey2.visit r ->
        Journey2.recs_of (State2.r_id r) h = (r :: nil)%list) /\
       (forall (k : nat) (nd : State2.node) (i : BinNums.Z),
        List.nth_error (State2.nodes s) k = Some nd ->
        List.In i (Engine2.all_individuals nd) ->
        exists x : State2.ind,
          Engine2.find_ind i (State2.inds s) = Some x /\
          State2.i_node x =
          Some (BinInt.Z.add (BinInt.Z.of_nat k) (BinNums.Zpos BinNums.xH)) /\
          State2.i_nrec x = Prelude.zlen (Journey2.recs_of i h) /\
          (Journey2.recs_of i h = nil /\
           an i =
           Some (BinInt.Z.add (BinInt.Z.of_nat k) (BinNums.Zpos BinNums.xH)) \/
           (exists (l : list State2.rec) (r : State2.rec),
              Journey2.recs_of i h = (l ++ r :: nil)%list /\
              (Journey2.closing r /\
               State2.r_dest r =
               Some
                 (BinInt.Z.add (BinInt.Z.of_nat k) (BinNums.Zpos BinNums.xH)) /\
               State2.r_exit r = State2.i_arr x \/
               Journey2.cont r /\
               State2.r_node r =
               BinInt.Z.add (BinInt.Z.of_nat k) (BinNums.Zpos BinNums.xH) /\
               State2.r_arr r = State2.i_arr x))) /\
          (forall (l1 : list State2.rec) (r : State2.rec)
             (l2 : list State2.rec),
           Journey2.recs_of i h = (l1 ++ r :: l2)%list ->
           List.Forall Journey2.cont l2 ->
           Journey2.closing r ->
           State2.r_dest r =
           Some (BinInt.Z.add (BinInt.Z.of_nat k) (BinNums.Zpos BinNums.xH)) /\
           State2.r_exit r = State2.i_arr x /\
           List.Forall
             (fun r' : State2.rec =>
              State2.r_node r' =
              BinInt.Z.add (BinInt.Z.of_nat k) (BinNums.Zpos BinNums.xH) /\
              State2.r_arr r' = State2.i_arr x) l2) /\
          (List.Forall Journey2.cont (Journey2.recs_of i h) ->
           an i =
           Some (BinInt.Z.add (BinInt.Z.of_nat k) (BinNums.Zpos BinNums.xH)) /\
           List.Forall
             (fun r' : State2.rec =>
              State2.r_node r' =
              BinInt.Z.add (BinInt.Z.of_nat k) (BinNums.Zpos BinNums.xH) /\
              State2.r_arr r' = State2.i_arr x) (Journey2.recs_of i h))) /\
       (forall i : BinNums.Z,
        BinInt.Z.le (BinNums.Zpos BinNums.xH) i /\
        BinInt.Z.le i (State2.a_created (State2.arr s)) ->
        List.In i (State2.exit_ids s) <->
        (exists (l : list State2.rec) (r : State2.rec),
           Journey2.recs_of i h = (l ++ r :: nil)%list /\
           (State2.r_dest r = Some (BinNums.Zneg BinNums.xH) \/
            State2.r_type r = BinNums.Zpos (BinNums.xI BinNums.xH) \/
            State2.r_type r =
            BinNums.Zpos (BinNums.xO (BinNums.xO BinNums.xH))))) /\
       (forall r : State2.rec,
        List.In r h ->
        BinInt.Z.le (State2.r_id r) (State2.a_created (State2.arr s))).
Proof. exact Journey2.Jrn2_means. Qed.
Print Assumptions Jrn2_means.

Theorem jrn2_b_sound :
  forall (cf : State2.config) (an : BinNums.Z -> option BinNums.Z)
         (s : State2.sim) (h : list State2.rec),
       Journey2.jrn2_b cf an s h = true -> Journey2.Jrn2 cf an s h.
Proof. exact Journey2.jrn2_b_sound. Qed.
Print Assumptions jrn2_b_sound.

Theorem scopeA_scope2 :
  forall cf : State2.config,
       Journey2.scopeA cf = true -> Journey2.scope2 cf = true.
Proof. exact Journey2.scopeA_scope2. Qed.
Print Assumptions scopeA_scope2.

Theorem journey_refuted_preempt_blocked :
  exists
         (s9 : State2.sim) (h9 : list State2.rec) 
       (an9 : BinNums.Z -> option BinNums.Z),
         Journey2.jrn2_b Journey2.rf_cf (fun _ : BinNums.Z => None)
           Journey2.rf_s0 nil = true /\
         Journey2.scope2 Journey2.rf_cf = false /\
         Journey2.run_hist Journey2.rf_cf Journey2.rf_s0 nil
           (fun _ : BinNums.Z => None) Journey2.rf_ds =
         State2.Ok (s9, h9, an9) /\
         Conserve2.wfx2_b s9 = true /\
         List.map Journey2.jx_view
           (Journey2.recs_of (BinNums.Zpos (BinNums.xO BinNums.xH)) h9) =
         ((BinNums.Zpos (BinNums.xO BinNums.xH), BinNums.Zpos BinNums.xH,
           BinNums.Zpos BinNums.xH,
           Some (BinNums.Zpos (BinNums.xI BinNums.xH)),
           Some (BinNums.Zpos (BinNums.xO (BinNums.xI BinNums.xH))), None)
          :: (BinNums.Zpos (BinNums.xO BinNums.xH), 
              BinNums.Zpos BinNums.xH, BinNums.Z0,
              Some (BinNums.Zpos (BinNums.xI BinNums.xH)),
              Some
                (BinNums.Zpos
                   (BinNums.xO
                      (BinNums.xI
                         (BinNums.xI
                            (BinNums.xO (BinNums.xO (BinNums.xI BinNums.xH))))))),
              Some (BinNums.Zpos (BinNums.xI BinNums.xH)))
             :: (BinNums.Zpos (BinNums.xO BinNums.xH),
                 BinNums.Zpos (BinNums.xO BinNums.xH), BinNums.Z0,
                 Some
                   (BinNums.Zpos
                      (BinNums.xO
                         (BinNums.xI
                            (BinNums.xI
                               (BinNums.xO
                                  (BinNums.xO (BinNums.xI BinNums.xH))))))),
                 Some
                   (BinNums.Zpos
                      (BinNums.xO
                         (BinNums.xO
                            (BinNums.xO
                               (BinNums.xI
                                  (BinNums.xI
                                     (BinNums.xO (BinNums.xO BinNums.xH)))))))),
                 Some (BinNums.Zneg BinNums.xH)) :: nil)%list /\
         (forall an : BinNums.Z -> option BinNums.Z, ~ Journey2.JH an h9 s9).
Proof. exact Journey2.journey_refuted_preempt_blocked. Qed.
Print Assumptions journey_refuted_preempt_blocked.

(* ---- Journey2s ---- *)
From CiwV.Inv Require Journey2s.

Theorem event_step_jrn2s :
  forall (cf : State2.config) (an : BinNums.Z -> option BinNums.Z)
         (s s' : State2.sim) (h : list State2.rec),
       Journey2s.scope2s cf = true ->
       Journey2s.Jrn2s cf an s h ->
       Engine2.event_step cf s = State2.Ok (tt, s') ->
       Journey2s.Jrn2s cf (Journey2.an_step s an) s' (h ++ State2.log s').
Proof. exact Journey2s.event_step_jrn2s. Qed.
Print Assumptions event_step_jrn2s.

Theorem engine_journey2s :
  forall (cf : State2.config) (ds : list State2.draws) 
         (s : State2.sim) (h : list State2.rec)
         (an : BinNums.Z -> option BinNums.Z) (s' : State2.sim)
         (h' : list State2.rec) (an' : BinNums.Z -> option BinNums.Z),
       Journey2s.scope2s cf = true ->
       Journey2s.Jrn2s cf an s h ->
       Journey2.run_hist cf s h an ds = State2.Ok (s', h', an') ->
       Codec2.run_many cf s ds = State2.Ok s' /\
       (exists t : list State2.rec, h' = (h ++ t)%list) /\
       Journey2s.Jrn2s cf an' s' h'.
Proof. exact Journey2s.engine_journey2s. Qed.
Print Assumptions engine_journey2s.

Theorem Jrn2s_means :
  forall (cf : State2.config) (an : BinNums.Z -> option BinNums.Z)
         (s : State2.sim) (h : list State2.rec),
       Journey2s.Jrn2s cf an s h ->
       (forall (i : BinNums.Z) (r : State2.rec) (l : list State2.rec),
        Journey2.recs_of i h = (r :: l)%list -> an i = Some (State2.r_node r)) /\
       (forall (i : BinNums.Z) (l1 : list State2.rec) 
          (r1 r2 : State2.rec) (l2 : list State2.rec),
        Journey2.recs_of i h = (l1 ++ r1 :: r2 :: l2)%list ->
        Journey2.visit r2 /\
        (Journey2.closing r1 /\
         State2.r_dest r1 = Some (State2.r_node r2) /\
         State2.r_exit r1 = State2.r_arr r2 \/
         Journey2.cont r1 /\
         State2.r_node r2 = State2.r_node r1 /\
         State2.r_arr r2 = State2.r_arr r1)) /\
       (forall r : State2.rec,
        List.In r h ->
        ~ Journey2.visit r ->
        Journey2.recs_of (State2.r_id r) h = (r :: nil)%list) /\
       (forall (k : nat) (nd : State2.node) (i : BinNums.Z),
        List.nth_error (State2.nodes s) k = Some nd ->
        List.In i (Engine2.all_individuals nd) ->
        exists x : State2.ind,
          Engine2.find_ind i (State2.inds s) = Some x /\
          State2.i_node x =
          Some (BinInt.Z.add (BinInt.Z.of_nat k) (BinNums.Zpos BinNums.xH)) /\
          State2.i_nrec x = Prelude.zlen (Journey2.recs_of i h) /\
          (Journey2.recs_of i h = nil /\
           an i =
           Some (BinInt.Z.add (BinInt.Z.of_nat k) (BinNums.Zpos BinNums.xH)) \/
           (exists (l : list State2.rec) (r : State2.rec),
              Journey2.recs_of i h = (l ++ r :: nil)%list /\
              (Journey2.closing r /\
               State2.r_dest r =
               Some
                 (BinInt.Z.add (BinInt.Z.of_nat k) (BinNums.Zpos BinNums.xH)) /\
               State2.r_exit r = State2.i_arr x \/
               Journey2.cont r /\
               State2.r_node r =
               BinInt.Z.add (BinInt.Z.of_nat k) (BinNums.Zpos BinNums.xH) /\
               State2.r_arr r = State2.i_arr x))) /\
          (forall (l1 : list State2.rec) (r : State2.rec)
             (l2 : list State2.rec),
           Journey2.recs_of i h = (l1 ++ r :: l2)%list ->
           List.Forall Journey2.cont l2 ->
           Journey2.closing r ->
           State2.r_dest r =
           Some (BinInt.Z.add (BinInt.Z.of_nat k) (BinNums.Zpos BinNums.xH)) /\
           State2.r_exit r = State2.i_arr x /\
           List.Forall
             (fun r' : State2.rec =>
              State2.r_node r' =
              BinInt.Z.add (BinInt.Z.of_nat k) (BinNums.Zpos BinNums.xH) /\
              State2.r_arr r' = State2.i_arr x) l2) /\
          (List.Forall Journey2.cont (Journey2.recs_of i h) ->
           an i =
           Some (BinInt.Z.add (BinInt.Z.of_nat k) (BinNums.Zpos BinNums.xH)) /\
           List.Forall
             (fun r' : State2.rec =>
              State2.r_node r' =
              BinInt.Z.add (BinInt.Z.of_nat k) (BinNums.Zpos BinNums.xH) /\
              State2.r_arr r' = State2.i_arr x) (Journey2.recs_of i h))) /\
       (forall i : BinNums.Z,
        BinInt.Z.le (BinNums.Zpos BinNums.xH) i /\
        BinInt.Z.le i (State2.a_created (State2.arr s)) ->
        List.In i (State2.exit_ids s) <->
        (exists (l : list State2.rec) (r : State2.rec),
           Journey2.recs_of i h = (l ++ r :: nil)%list /\
           (State2.r_dest r = Some (BinNums.Zneg BinNums.xH) \/
            State2.r_type r = BinNums.Zpos (BinNums.xI BinNums.xH) \/
            State2.r_type r =
            BinNums.Zpos (BinNums.xO (BinNums.xO BinNums.xH))))) /\
       (forall r : State2.rec,
        List.In r h ->
        BinInt.Z.le (State2.r_id r) (State2.a_created (State2.arr s))).
Proof. exact Journey2s.Jrn2s_means. Qed.
Print Assumptions Jrn2s_means.

Theorem Jrn2s_int_means :
  forall (cf : State2.config) (an : BinNums.Z -> option BinNums.Z)
         (s : State2.sim) (h : list State2.rec),
       Journey2s.Jrn2s cf an s h ->
       forall (k : nat) (nd : State2.node),
       List.nth_error (State2.nodes s) k = Some nd ->
       List.NoDup (State2.n_interrupted nd) /\
       (Journey2s.psched_of cf
          (BinInt.Z.add (BinInt.Z.of_nat k) (BinNums.Zpos BinNums.xH)) =
        false -> State2.n_interrupted nd = nil) /\
       (forall i : BinNums.Z,
        List.In i (State2.n_interrupted nd) ->
        List.In i (Engine2.all_individuals nd) /\
        (forall sv : State2.server,
         List.In sv (State2.n_servers nd) -> State2.sv_cust sv <> Some i) /\
        (exists x : State2.ind,
           Engine2.find_ind i (State2.inds s) = Some x /\
           State2.i_node x =
           Some (BinInt.Z.add (BinInt.Z.of_nat k) (BinNums.Zpos BinNums.xH)) /\
           State2.i_server x <> None /\ State2.i_blocked x = false)).
Proof. exact Journey2s.Jrn2s_int_means. Qed.
Print Assumptions Jrn2s_int_means.

Theorem jrn2s_b_sound :
  forall (cf : State2.config) (an : BinNums.Z -> option BinNums.Z)
         (s : State2.sim) (h : list State2.rec),
       Journey2s.jrn2s_b cf an s h = true -> Journey2s.Jrn2s cf an s h.
Proof. exact Journey2s.jrn2s_b_sound. Qed.
Print Assumptions jrn2s_b_sound.

Theorem scope2_scope2s :
  forall cf : State2.config,
       Journey2.scope2 cf = true -> Journey2s.scope2s cf = true.
Proof. exact Journey2s.scope2_scope2s. Qed.
Print Assumptions scope2_scope2s.

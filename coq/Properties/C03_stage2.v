(* Property C03 -- statements about the STAGE-2 engine model (coq/Engine/Engine2.v), statements only; proofs in coq/Inv/Journey2.v.
   The model is tied to /repo by the stepwise correspondence check K2 (harness/engine_k2b.py). *)
From Coq Require Import ZArith List Bool Permutation.
From CiwV Require Import Sx Prelude Routing Sched.
From CiwV.Engine Require Import State2 Engine2 Codec2.
From CiwV.Inv Require Journey2.
Import ListNotations.
Open Scope Z_scope.

Theorem event_step_jrn2 :
  forall (cf : State2.config) (an : BinNums.Z -> option BinNums.Z)
         (s s' : State2.sim) (h : list State2.rec),
       Journey2.scope2 cf = true ->
       Journey2.Jrn2 cf an s h ->
       Engine2.event_step cf s = State2.Ok (tt, s') ->
       Journey2.Jrn2 cf (Journey2.an_step s an) s' (h ++ State2.log s').
Proof. exact Journey2.event_step_jrn2. Qed.
Print Assumptions event_step_jrn2.

Theorem engine_journey2 :
  forall (cf : State2.config) (ds : list State2.draws) 
         (s : State2.sim) (h : list State2.rec)
         (an : BinNums.Z -> option BinNums.Z) (s' : State2.sim)
         (h' : list State2.rec) (an' : BinNums.Z -> option BinNums.Z),
       Journey2.scope2 cf = true ->
       Journey2.Jrn2 cf an s h ->
       Journey2.run_hist cf s h an ds = State2.Ok (s', h', an') ->
       Codec2.run_many cf s ds = State2.Ok s' /\
       (exists t : list State2.rec, h' = (h ++ t)%list) /\
       Journey2.Jrn2 cf an' s' h'.
Proof. exact Journey2.engine_journey2. Qed.
Print Assumptions engine_journey2.

Theorem Jrn2_means :
  forall (cf : State2.config) (an : BinNums.Z -> option BinNums.Z)
         (s : State2.sim) (h : list State2.rec),
       Journey2.Jrn2 cf an s h ->
       (forall (i : BinNums.Z) (r : State2.rec) (l : list State2.rec),
        Journey2.recs_of i h = (r :: l)%list -> an i = Some (State2.r_node r)) /\
       (forall (i : BinNums.Z) (l1 : list State2.rec) 
          (r1 r2 : State2.rec) (l2 : list State2.rec),
        Journey2.recs_of i h = (l1 ++ r1 :: r2 :: l2)%list ->
        Journey2.visit r2 /\
        (Journey2.closing r1 /\
         State2.r_dest r1 = Some (State2.r_node r2) /\
         State2.r_exit r1 = State2.r_arr r2 \/
         Journey2.cont r1 /\
         State2.r_node r2 = State2.r_node r1 /\
         State2.r_arr r2 = State2.r_arr r1)) /\
       (forall r : State2.rec,
        List.In r h ->
        ~ Journey2.visit r ->
        Journey2.recs_of (State2.r_id r) h = (r :: nil)%list) /\
       (forall (k : nat) (nd : State2.node) (i : BinNums.Z),
        List.nth_error (State2.nodes s) k = Some nd ->
        List.In i (Engine2.all_individuals nd) ->
        exists x : State2.ind,
          Engine2.find_ind i (State2.inds s) = Some x /\
          State2.i_node x =
          Some (BinInt.Z.add (BinInt.Z.of_nat k) (BinNums.Zpos BinNums.xH)) /\
          State2.i_nrec x = Prelude.zlen (Journey2.recs_of i h) /\
          (Journey2.recs_of i h = nil /\
           an i =
           Some (BinInt.Z.add (BinInt.Z.of_nat k) (BinNums.Zpos BinNums.xH)) \/
           (exists (l : list State2.rec) (r : State2.rec),
              Journey2.recs_of i h = (l ++ r :: nil)%list /\
              (Journey2.closing r /\
               State2.r_dest r =
               Some
                 (BinInt.Z.add (BinInt.Z.of_nat k) (BinNums.Zpos BinNums.xH)) /\
               State2.r_exit r = State2.i_arr x \/
               Journey2.cont r /\
               State2.r_node r =
               BinInt.Z.add (BinInt.Z.of_nat k) (BinNums.Zpos BinNums.xH) /\
               State2.r_arr r = State2.i_arr x))) /\
          (forall (l1 : list State2.rec) (r : State2.rec)
             (l2 : list State2.rec),
           Journey2.recs_of i h = (l1 ++ r :: l2)%list ->
           List.Forall Journey2.cont l2 ->
           Journey2.closing r ->
           State2.r_dest r =
           Some (BinInt.Z.add (BinInt.Z.of_nat k) (BinNums.Zpos BinNums.xH)) /\
           State2.r_exit r = State2.i_arr x /\
           List.Forall
             (fun r' : State2.rec =>
              State2.r_node r' =
              BinInt.Z.add (BinInt.Z.of_nat k) (BinNums.Zpos BinNums.xH) /\
              State2.r_arr r' = State2.i_arr x) l2) /\
          (List.Forall Journey2.cont (Journey2.recs_of i h) ->
           an i =
           Some (BinInt.Z.add (BinInt.Z.of_nat k) (BinNums.Zpos BinNums.xH)) /\
           List.Forall
             (fun r' : State2.rec =>
              State2.r_node r' =
              BinInt.Z.add (BinInt.Z.of_nat k) (BinNums.Zpos BinNums.xH) /\
              State2.r_arr r' = State2.i_arr x) (Journey2.recs_of i h))) /\
       (forall i : BinNums.Z,
        BinInt.Z.le (BinNums.Zpos BinNums.xH) i /\
        BinInt.Z.le i (State2.a_created (State2.arr s)) ->
        List.In i (State2.exit_ids s) <->
        (exists (l : list State2.rec) (r : State2.rec),
           Journey2.recs_of i h = (l ++ r :: nil)%list /\
           (State2.r_dest r = Some (BinNums.Zneg BinNums.xH) \/
            State2.r_type r = BinNums.Zpos (BinNums.xI BinNums.xH) \/
            State2.r_type r =
            BinNums.Zpos (BinNums.xO (BinNums.xO BinNums.xH))))) /\
       (forall r : State2.rec,
        List.In r h ->
        BinInt.Z.le (State2.r_id r) (State2.a_created (State2.arr s))).
Proof. exact Journey2.Jrn2_means. Qed.
Print Assumptions Jrn2_means.

Theorem jrn2_b_sound :
  forall (cf : State2.config) (an : BinNums.Z -> option BinNums.Z)
         (s : State2.sim) (h : list State2.rec),
       Journey2.jrn2_b cf an s h = true -> Journey2.Jrn2 cf an s h.
Proof. exact Journey2.jrn2_b_sound. Qed.
Print Assumptions jrn2_b_sound.

Theorem scopeA_scope2 :
  forall cf : State2.config,
       Journey2.scopeA cf = true -> Journey2.scope2 cf = true.
Proof. exact Journey2.scopeA_scope2. Qed.
Print Assumptions scopeA_scope2.

Theorem journey_refuted_preempt_blocked :
  exists
         (s9 : State2.sim) (h9 : list State2.rec) 
       (an9 : BinNums.Z -> option BinNums.Z),
         Journey2.jrn2_b Journey2.rf_cf (fun _ : BinNums.Z => None)
           Journey2.rf_s0 nil = true /\
         Journey2.scope2 Journey2.rf_cf = false /\
         Journey2.run_hist Journey2.rf_cf Journey2.rf_s0 nil
           (fun _ : BinNums.Z => None) Journey2.rf_ds =
         State2.Ok (s9, h9, an9) /\
         Conserve2.wfx2_b s9 = true /\
         List.map Journey2.jx_view
           (Journey2.recs_of (BinNums.Zpos (BinNums.xO BinNums.xH)) h9) =
         ((BinNums.Zpos (BinNums.xO BinNums.xH), BinNums.Zpos BinNums.xH,
           BinNums.Zpos BinNums.xH,
           Some (BinNums.Zpos (BinNums.xI BinNums.xH)),
           Some (BinNums.Zpos (BinNums.xO (BinNums.xI BinNums.xH))), None)
          :: (BinNums.Zpos (BinNums.xO BinNums.xH), 
              BinNums.Zpos BinNums.xH, BinNums.Z0,
              Some (BinNums.Zpos (BinNums.xI BinNums.xH)),
              Some
                (BinNums.Zpos
                   (BinNums.xO
                      (BinNums.xI
                         (BinNums.xI
                            (BinNums.xO (BinNums.xO (BinNums.xI BinNums.xH))))))),
              Some (BinNums.Zpos (BinNums.xI BinNums.xH)))
             :: (BinNums.Zpos (BinNums.xO BinNums.xH),
                 BinNums.Zpos (BinNums.xO BinNums.xH), BinNums.Z0,
                 Some
                   (BinNums.Zpos
                      (BinNums.xO
                         (BinNums.xI
                            (BinNums.xI
                               (BinNums.xO
                                  (BinNums.xO (BinNums.xI BinNums.xH))))))),
                 Some
                   (BinNums.Zpos
                      (BinNums.xO
                         (BinNums.xO
                            (BinNums.xO
                               (BinNums.xI
                                  (BinNums.xI
                                     (BinNums.xO (BinNums.xO BinNums.xH)))))))),
                 Some (BinNums.Zneg BinNums.xH)) :: nil)%list /\
         (forall an : BinNums.Z -> option BinNums.Z, ~ Journey2.JH an h9 s9).
Proof. exact Journey2.journey_refuted_preempt_blocked. Qed.
Print Assumptions journey_refuted_preempt_blocked.

(* ---- Journey2s ---- *)
From CiwV.Inv Require Journey2s.

Theorem event_step_jrn2s :
  forall (cf : State2.config) (an : BinNums.Z -> option BinNums.Z)
         (s s' : State2.sim) (h : list State2.rec),
       Journey2s.scope2s cf = true ->
       Journey2s.Jrn2s cf an s h ->
       Engine2.event_step cf s = State2.Ok (tt, s') ->
       Journey2s.Jrn2s cf (Journey2.an_step s an) s' (h ++ State2.log s').
Proof. exact Journey2s.event_step_jrn2s. Qed.
Print Assumptions event_step_jrn2s.

Theorem engine_journey2s :
  forall (cf : State2.config) (ds : list State2.draws) 
         (s : State2.sim) (h : list State2.rec)
         (an : BinNums.Z -> option BinNums.Z) (s' : State2.sim)
         (h' : list State2.rec) (an' : BinNums.Z -> option BinNums.Z),
       Journey2s.scope2s cf = true ->
       Journey2s.Jrn2s cf an s h ->
       Journey2.run_hist cf s h an ds = State2.Ok (s', h', an') ->
       Codec2.run_many cf s ds = State2.Ok s' /\
       (exists t : list State2.rec, h' = (h ++ t)%list) /\
       Journey2s.Jrn2s cf an' s' h'.
Proof. exact Journey2s.engine_journey2s. Qed.
Print Assumptions engine_journey2s.

Theorem Jrn2s_means :
  forall (cf : State2.config) (an : BinNums.Z -> option BinNums.Z)
         (s : State2.sim) (h : list State2.rec),
       Journey2s.Jrn2s cf an s h ->
       (forall (i : BinNums.Z) (r : State2.rec) (l : list State2.rec),
        Journey2.recs_of i h = (r :: l)%list -> an i = Some (State2.r_node r)) /\
       (forall (i : BinNums.Z) (l1 : list State2.rec) 
          (r1 r2 : State2.rec) (l2 : list State2.rec),
        Journey2.recs_of i h = (l1 ++ r1 :: r2 :: l2)%list ->
        Journey2.visit r2 /\
        (Journey2.closing r1 /\
         State2.r_dest r1 = Some (State2.r_node r2) /\
         State2.r_exit r1 = State2.r_arr r2 \/
         Journey2.cont r1 /\
         State2.r_node r2 = State2.r_node r1 /\
         State2.r_arr r2 = State2.r_arr r1)) /\
       (forall r : State2.rec,
        List.In r h ->
        ~ Journey2.visit r ->
        Journey2.recs_of (State2.r_id r) h = (r :: nil)%list) /\
       (forall (k : nat) (nd : State2.node) (i : BinNums.Z),
        List.nth_error (State2.nodes s) k = Some nd ->
        List.In i (Engine2.all_individuals nd) ->
        exists x : State2.ind,
          Engine2.find_ind i (State2.inds s) = Some x /\
          State2.i_node x =
          Some (BinInt.Z.add (BinInt.Z.of_nat k) (BinNums.Zpos BinNums.xH)) /\
          State2.i_nrec x = Prelude.zlen (Journey2.recs_of i h) /\
          (Journey2.recs_of i h = nil /\
           an i =
           Some (BinInt.Z.add (BinInt.Z.of_nat k) (BinNums.Zpos BinNums.xH)) \/
           (exists (l : list State2.rec) (r : State2.rec),
              Journey2.recs_of i h = (l ++ r :: nil)%list /\
              (Journey2.closing r /\
               State2.r_dest r =
               Some
                 (BinInt.Z.add (BinInt.Z.of_nat k) (BinNums.Zpos BinNums.xH)) /\
               State2.r_exit r = State2.i_arr x \/
               Journey2.cont r /\
               State2.r_node r =
               BinInt.Z.add (BinInt.Z.of_nat k) (BinNums.Zpos BinNums.xH) /\
               State2.r_arr r = State2.i_arr x))) /\
          (forall (l1 : list State2.rec) (r : State2.rec)
             (l2 : list State2.rec),
           Journey2.recs_of i h = (l1 ++ r :: l2)%list ->
           List.Forall Journey2.cont l2 ->
           Journey2.closing r ->
           State2.r_dest r =
           Some (BinInt.Z.add (BinInt.Z.of_nat k) (BinNums.Zpos BinNums.xH)) /\
           State2.r_exit r = State2.i_arr x /\
           List.Forall
             (fun r' : State2.rec =>
              State2.r_node r' =
              BinInt.Z.add (BinInt.Z.of_nat k) (BinNums.Zpos BinNums.xH) /\
              State2.r_arr r' = State2.i_arr x) l2) /\
          (List.Forall Journey2.cont (Journey2.recs_of i h) ->
           an i =
           Some (BinInt.Z.add (BinInt.Z.of_nat k) (BinNums.Zpos BinNums.xH)) /\
           List.Forall
             (fun r' : State2.rec =>
              State2.r_node r' =
              BinInt.Z.add (BinInt.Z.of_nat k) (BinNums.Zpos BinNums.xH) /\
              State2.r_arr r' = State2.i_arr x) (Journey2.recs_of i h))) /\
       (forall i : BinNums.Z,
        BinInt.Z.le (BinNums.Zpos BinNums.xH) i /\
        BinInt.Z.le i (State2.a_created (State2.arr s)) ->
        List.In i (State2.exit_ids s) <->
        (exists (l : list State2.rec) (r : State2.rec),
           Journey2.recs_of i h = (l ++ r :: nil)%list /\
           (State2.r_dest r = Some (BinNums.Zneg BinNums.xH) \/
            State2.r_type r = BinNums.Zpos (BinNums.xI BinNums.xH) \/
            State2.r_type r =
            BinNums.Zpos (BinNums.xO (BinNums.xO BinNums.xH))))) /\
       (forall r : State2.rec,
        List.In r h ->
        BinInt.Z.le (State2.r_id r) (State2.a_created (State2.arr s))).
Proof. exact Journey2s.Jrn2s_means. Qed.
Print Assumptions Jrn2s_means.

Theorem Jrn2s_int_means :
  forall (cf : State2.config) (an : BinNums.Z -> option BinNums.Z)
         (s : State2.sim) (h : list State2.rec),
       Journey2s.Jrn2s cf an s h ->
       forall (k : nat) (nd : State2.node),
       List.nth_error (State2.nodes s) k = Some nd ->
       List.NoDup (State2.n_interrupted nd) /\
       (Journey2s.psched_of cf
          (BinInt.Z.add (BinInt.Z.of_nat k) (BinNums.Zpos BinNums.xH)) =
        false -> State2.n_interrupted nd = nil) /\
       (forall i : BinNums.Z,
        List.In i (State2.n_interrupted nd) ->
        List.In i (Engine2.all_individuals nd) /\
        (forall sv : State2.server,
         List.In sv (State2.n_servers nd) -> State2.sv_cust sv <> Some i) /\
        (exists x : State2.ind,
           Engine2.find_ind i (State2.inds s) = Some x /\
           State2.i_node x =
           Some (BinInt.Z.add (BinInt.Z.of_nat k) (BinNums.Zpos BinNums.xH)) /\
           State2.i_server x <> None /\ State2.i_blocked x = false)).
Proof. exact Journey2s.Jrn2s_int_means. Qed.
Print Assumptions Jrn2s_int_means.

Theorem jrn2s_b_sound :
  forall (cf : State2.config) (an : BinNums.Z -> option BinNums.Z)
         (s : State2.sim) (h : list State2.rec),
       Journey2s.jrn2s_b cf an s h = true -> Journey2s.Jrn2s cf an s h.
Proof. exact Journey2s.jrn2s_b_sound. Qed.
Print Assumptions jrn2s_b_sound.

Theorem scope2_scope2s :
  forall cf : State2.config,
       Journey2.scope2 cf = true -> Journey2s.scope2s cf = true.
Proof. exact Journey2s.scope2_scope2s. Qed.
Print Assumptions scope2_scope2s.

(* ---- Journey2r ---- *)
From CiwV.Inv Require Journey2r.

Theorem scope2_scope2r :
  forall cf : State2.config,
       Journey2.scope2 cf = true -> Journey2r.scope2r cf = true.
Proof. exact Journey2r.scope2_scope2r. Qed.
Print Assumptions scope2_scope2r.

Theorem event_step_jrn2r :
  forall (cf : State2.config) (an : Z -> option Z) 
         (s s' : State2.sim) (h : list State2.rec),
       Journey2r.scope2r cf = true ->
       Journey2.Jrn2 cf an s h ->
       Engine2.event_step cf s = State2.Ok (tt, s') ->
       Journey2.Jrn2 cf (Journey2.an_step s an) s' (h ++ State2.log s').
Proof. exact Journey2r.event_step_jrn2r. Qed.
Print Assumptions event_step_jrn2r.

Theorem run_hist_jrn2r :
  forall cf : State2.config,
       Journey2r.scope2r cf = true ->
       forall (ds : list State2.draws) (s : State2.sim) 
         (h : list State2.rec) (an : Z -> option Z) 
         (s' : State2.sim) (h' : list State2.rec) 
         (an' : Z -> option Z),
       Journey2.Jrn2 cf an s h ->
       Journey2.run_hist cf s h an ds = State2.Ok (s', h', an') ->
       Journey2.Jrn2 cf an' s' h'.
Proof. exact Journey2r.run_hist_jrn2r. Qed.
Print Assumptions run_hist_jrn2r.

Theorem run_many_jrn2r :
  forall (cf : State2.config) (ds : list State2.draws) 
         (s : State2.sim) (h : list State2.rec) (an : Z -> option Z)
         (s' : State2.sim),
       Journey2r.scope2r cf = true ->
       Journey2.Jrn2 cf an s h ->
       Codec2.run_many cf s ds = State2.Ok s' ->
       exists (h' : list State2.rec) (an' : Z -> option Z),
         Journey2.run_hist cf s h an ds = State2.Ok (s', h', an') /\
         Journey2.Jrn2 cf an' s' h' /\
         (exists t : list State2.rec, h' = h ++ t).
Proof. exact Journey2r.run_many_jrn2r. Qed.
Print Assumptions run_many_jrn2r.

Theorem engine_journey2r :
  forall (cf : State2.config) (ds : list State2.draws) 
         (s : State2.sim) (h : list State2.rec) (an : Z -> option Z)
         (s' : State2.sim) (h' : list State2.rec) 
         (an' : Z -> option Z),
       Journey2r.scope2r cf = true ->
       Journey2.Jrn2 cf an s h ->
       Journey2.run_hist cf s h an ds = State2.Ok (s', h', an') ->
       Codec2.run_many cf s ds = State2.Ok s' /\
       (exists t : list State2.rec, h' = h ++ t) /\
       Journey2.Jrn2 cf an' s' h'.
Proof. exact Journey2r.engine_journey2r. Qed.
Print Assumptions engine_journey2r.

Theorem engine_journey2r_means :
  forall (cf : State2.config) (ds : list State2.draws) 
         (s : State2.sim) (h : list State2.rec) (an : Z -> option Z)
         (s' : State2.sim) (h' : list State2.rec) 
         (an' : Z -> option Z),
       Journey2r.scope2r cf = true ->
       Journey2.Jrn2 cf an s h ->
       Journey2.run_hist cf s h an ds = State2.Ok (s', h', an') ->
       (forall (i : Z) (r : State2.rec) (l : list State2.rec),
        Journey2.recs_of i h' = r :: l -> an' i = Some (State2.r_node r)) /\
       (forall (i : Z) (l1 : list State2.rec) (r1 r2 : State2.rec)
          (l2 : list State2.rec),
        Journey2.recs_of i h' = l1 ++ r1 :: r2 :: l2 ->
        Journey2.visit r2 /\
        (Journey2.closing r1 /\
         State2.r_dest r1 = Some (State2.r_node r2) /\
         State2.r_exit r1 = State2.r_arr r2 \/
         Journey2.cont r1 /\
         State2.r_node r2 = State2.r_node r1 /\
         State2.r_arr r2 = State2.r_arr r1)) /\
       (forall r : State2.rec,
        In r h' ->
        ~ Journey2.visit r -> Journey2.recs_of (State2.r_id r) h' = r :: nil) /\
       (forall (k : nat) (nd : State2.node) (i : Z),
        nth_error (State2.nodes s') k = Some nd ->
        In i (Engine2.all_individuals nd) ->
        exists x : State2.ind,
          Engine2.find_ind i (State2.inds s') = Some x /\
          State2.i_node x = Some (Z.of_nat k + 1)%Z /\
          State2.i_nrec x = Prelude.zlen (Journey2.recs_of i h') /\
          (Journey2.recs_of i h' = nil /\ an' i = Some (Z.of_nat k + 1)%Z \/
           (exists (l : list State2.rec) (r : State2.rec),
              Journey2.recs_of i h' = l ++ r :: nil /\
              (Journey2.closing r /\
               State2.r_dest r = Some (Z.of_nat k + 1)%Z /\
               State2.r_exit r = State2.i_arr x \/
               Journey2.cont r /\
               State2.r_node r = (Z.of_nat k + 1)%Z /\
               State2.r_arr r = State2.i_arr x))) /\
          (forall (l1 : list State2.rec) (r : State2.rec)
             (l2 : list State2.rec),
           Journey2.recs_of i h' = l1 ++ r :: l2 ->
           Forall Journey2.cont l2 ->
           Journey2.closing r ->
           State2.r_dest r = Some (Z.of_nat k + 1)%Z /\
           State2.r_exit r = State2.i_arr x /\
           Forall
             (fun r' : State2.rec =>
              State2.r_node r' = (Z.of_nat k + 1)%Z /\
              State2.r_arr r' = State2.i_arr x) l2) /\
          (Forall Journey2.cont (Journey2.recs_of i h') ->
           an' i = Some (Z.of_nat k + 1)%Z /\
           Forall
             (fun r' : State2.rec =>
              State2.r_node r' = (Z.of_nat k + 1)%Z /\
              State2.r_arr r' = State2.i_arr x) (Journey2.recs_of i h'))) /\
       (forall i : Z,
        (1 <= i <= State2.a_created (State2.arr s'))%Z ->
        In i (State2.exit_ids s') <->
        (exists (l : list State2.rec) (r : State2.rec),
           Journey2.recs_of i h' = l ++ r :: nil /\
           (State2.r_dest r = Some (-1)%Z \/
            State2.r_type r = 3%Z \/ State2.r_type r = 4%Z))) /\
       (forall r : State2.rec,
        In r h' -> (State2.r_id r <= State2.a_created (State2.arr s'))%Z).
Proof. exact Journey2r.engine_journey2r_means. Qed.
Print Assumptions engine_journey2r_means.

Theorem reroute_record_followed :
  forall (cf : State2.config) (an : Z -> option Z) 
         (s : State2.sim) (h : list State2.rec) (i : Z)
         (l1 : list State2.rec) (r1 r2 : State2.rec) 
         (l2 : list State2.rec) (d : Z),
       Journey2.Jrn2 cf an s h ->
       Journey2.recs_of i h = l1 ++ r1 :: r2 :: l2 ->
       State2.r_type r1 = 1%Z ->
       State2.r_dest r1 = Some d ->
       Journey2.visit r2 /\
       State2.r_node r2 = d /\ State2.r_arr r2 = State2.r_exit r1.
Proof. exact Journey2r.reroute_record_followed. Qed.
Print Assumptions reroute_record_followed.

Theorem slotted_service_journey_partial :
  forall (cf : State2.config) (an : Z -> option Z) 
         (h : list State2.rec) (j : Z) (s s' : State2.sim),
       (forall (nc : State2.ncfg) (sl : State2.slotcfg),
        Engine2.nthZ (State2.cf_nodes cf) (j - 1) = Some nc ->
        State2.nc_srv nc = State2.SSlot sl ->
        (State2.sl_pre sl =? 4)%Z = false) ->
       Journey2s.Jst an h nil s ->
       Engine2.slotted_service cf j s = State2.Ok (tt, s') ->
       Journey2s.Jst an h nil s' /\
       Conserve2.WFx2 nil s' /\
       Journey2.JH an (h ++ State2.log s') s' /\ Journey2.Lq s'.
Proof. exact Journey2r.slotted_service_journey_partial. Qed.
Print Assumptions slotted_service_journey_partial.

Theorem jrn2_not_kept_by_preemptive_slot :
  exists (s : State2.sim) (h : list State2.rec) 
       (an : Z -> option Z),
         Journey2r.scope2r (Slot2.ex_cf 1) = false /\
         Journey2.Jrn2 (Slot2.ex_cf 1) Journey2.jx_an0 Slot2.ex_s0 nil /\
         Journey2.run_hist (Slot2.ex_cf 1) Slot2.ex_s0 nil Journey2.jx_an0
           (firstn 7 Slot2.ex_ds) = State2.Ok (s, h, an) /\
         map Journey2.jx_view (Journey2.recs_of 2 h) =
         (2%Z, 1%Z, 1%Z, Some 1%Z, Some 10%Z, None) :: nil /\
         map State2.n_interrupted (State2.nodes s) =
         (2%Z :: nil) :: nil :: nil /\
         ~ Journey2.Jrn2 (Slot2.ex_cf 1) an s h /\
         Conserve2.wfx2_b s = true /\
         Journey2.jh_b an s h = true /\
         Journey2.lq_b s = true /\
         match
           Journey2.run_hist (Slot2.ex_cf 1) Slot2.ex_s0 nil Journey2.jx_an0
             (firstn 8 Slot2.ex_ds)
         with
         | State2.Ok (s8, h8, an8) =>
             Journey2.jrn2_b (Slot2.ex_cf 1) an8 s8 h8
         | _ => false
         end = true.
Proof. exact Journey2r.jrn2_not_kept_by_preemptive_slot. Qed.
Print Assumptions jrn2_not_kept_by_preemptive_slot.

(* the printed form of this statement does not re-parse (nat / Z scopes): it is the statement of Journey2r.f11a_not_a_witness, verbatim in coq/Inv/Journey2r.v *)
Theorem f11a_not_a_witness : ltac:(let t := type of Journey2r.f11a_not_a_witness in exact t).
Proof. exact Journey2r.f11a_not_a_witness. Qed.
Print Assumptions f11a_not_a_witness.

(* the printed form of this statement does not re-parse (nat / Z scopes): it is the statement of Journey2r.reroute_cycle_not_a_witness, verbatim in coq/Inv/Journey2r.v *)
Theorem reroute_cycle_not_a_witness : ltac:(let t := type of Journey2r.reroute_cycle_not_a_witness in exact t).
Proof. exact Journey2r.reroute_cycle_not_a_witness. Qed.
Print Assumptions reroute_cycle_not_a_witness.

Theorem jrn2r_b_sound :
  forall (cf : State2.config) (an : Z -> option Z) 
         (s : State2.sim) (h : list State2.rec),
       Journey2r.jrn2r_b cf an s h = true -> Journey2.Jrn2 cf an s h.
Proof. exact Journey2r.jrn2r_b_sound. Qed.
Print Assumptions jrn2r_b_sound.

(* ---- Journey2t ---- *)
From CiwV.Inv Require Journey2t.

Theorem scope2s_scope2t :
  forall cf : State2.config,
       Journey2s.scope2s cf = true ->
       List.forallb Journey2t.noslot4_nc (State2.cf_nodes cf) = true ->
       Journey2t.scope2t cf = true.
Proof. exact Journey2t.scope2s_scope2t. Qed.
Print Assumptions scope2s_scope2t.

Theorem slotted_service_jrn2t :
  forall cf : State2.config,
       Journey2t.scope2t cf = true ->
       forall (an : BinNums.Z -> option BinNums.Z) 
         (h : list State2.rec) (j : BinNums.Z) (s s' : State2.sim),
       Journey2s.Jst an h nil s ->
       Journey2t.SlotIntX cf None s ->
       Engine2.slotted_service cf j s = State2.Ok (tt, s') ->
       Journey2s.Jst an h nil s' /\ Journey2t.SlotIntX cf None s'.
Proof. exact Journey2t.slotted_service_jrn2t. Qed.
Print Assumptions slotted_service_jrn2t.

Theorem interrupt_service_other_SI :
  forall (cf : State2.config) (fuel : nat) (j i pre : BinNums.Z)
         (s s' : State2.sim),
       BinInt.Z.eqb pre (BinNums.Zpos (BinNums.xO (BinNums.xO BinNums.xH))) =
       false ->
       Journey2.slot_of cf j = false ->
       Journey2.Idx s ->
       Journey2t.SlotIntX cf None s ->
       Engine2.interrupt_service cf fuel j i pre s = State2.Ok (tt, s') ->
       Journey2t.SlotIntX cf None s' /\ Journey2.Idx s'.
Proof. exact Journey2t.interrupt_service_other_SI. Qed.
Print Assumptions interrupt_service_other_SI.

Theorem biis_SI :
  forall (cf : State2.config) (j sid : BinNums.Z) (s s' : State2.sim),
       Journey2.Idx s ->
       Journey2t.SlotIntX cf None s ->
       (forall (nd : State2.node) (i : BinNums.Z),
        Journey2.nodeZ s j = Some nd ->
        List.hd_error (State2.n_interrupted nd) = Some i ->
        ~ Journey2t.Listed cf s i) ->
       Engine2.begin_interrupted_individuals_service j sid s =
       State2.Ok (tt, s') -> Journey2t.SlotIntX cf None s' /\ Journey2.Idx s'.
Proof. exact Journey2t.biis_SI. Qed.
Print Assumptions biis_SI.

Theorem event_tail_pickT :
  forall (cf : State2.config) (s1 s' : State2.sim),
       Journey2.Idx s1 ->
       Journey2t.SlotIntX cf None s1 ->
       Engine2.bind (Engine2.gets State2.nodes)
         (fun ns : list State2.node =>
          Engine2.bind (Engine2.update_all cf (List.map State2.n_id ns))
            (fun _ : unit => Engine2.find_next_active_node)) s1 =
       State2.Ok (tt, s') -> Journey2t.PickT cf s'.
Proof. exact Journey2t.event_tail_pickT. Qed.
Print Assumptions event_tail_pickT.

Theorem event_step_jrn2t_partial :
  forall cf : State2.config,
       Journey2t.scope2t cf = true ->
       forall (an : BinNums.Z -> option BinNums.Z) 
         (s s' : State2.sim) (h : list State2.rec),
       Journey2t.Jrn2t cf an s h ->
       Journey2t.slot_event_b s = true ->
       Engine2.event_step cf s = State2.Ok (tt, s') ->
       Journey2t.Jrn2t cf (Journey2.an_step s an) s' (h ++ State2.log s') /\
       Journey2t.PickT cf s'.
Proof. exact Journey2t.event_step_jrn2t_partial. Qed.
Print Assumptions event_step_jrn2t_partial.

Theorem run_slots_jrn2t_partial :
  forall cf : State2.config,
       Journey2t.scope2t cf = true ->
       forall (ds : list State2.draws) (s : State2.sim) 
         (h : list State2.rec) (an : BinNums.Z -> option BinNums.Z)
         (s' : State2.sim) (h' : list State2.rec)
         (an' : BinNums.Z -> option BinNums.Z),
       Journey2t.Jrn2t cf an s h ->
       Journey2t.slots_only cf s ds ->
       Journey2.run_hist cf s h an ds = State2.Ok (s', h', an') ->
       Journey2t.Jrn2t cf an' s' h' /\
       Codec2.run_many cf s ds = State2.Ok s' /\
       (exists t : list State2.rec, h' = (h ++ t)%list).
Proof. exact Journey2t.run_slots_jrn2t_partial. Qed.
Print Assumptions run_slots_jrn2t_partial.

Theorem Jrn2t_means :
  forall (cf : State2.config) (an : BinNums.Z -> option BinNums.Z)
         (s : State2.sim) (h : list State2.rec),
       Journey2t.Jrn2t cf an s h ->
       (forall (i : BinNums.Z) (r : State2.rec) (l : list State2.rec),
        Journey2.recs_of i h = (r :: l)%list -> an i = Some (State2.r_node r)) /\
       (forall (i : BinNums.Z) (l1 : list State2.rec) 
          (r1 r2 : State2.rec) (l2 : list State2.rec),
        Journey2.recs_of i h = (l1 ++ r1 :: r2 :: l2)%list ->
        Journey2.visit r2 /\
        (Journey2.closing r1 /\
         State2.r_dest r1 = Some (State2.r_node r2) /\
         State2.r_exit r1 = State2.r_arr r2 \/
         Journey2.cont r1 /\
         State2.r_node r2 = State2.r_node r1 /\
         State2.r_arr r2 = State2.r_arr r1)) /\
       (forall r : State2.rec,
        List.In r h ->
        ~ Journey2.visit r ->
        Journey2.recs_of (State2.r_id r) h = (r :: nil)%list) /\
       (forall (k : nat) (nd : State2.node) (i : BinNums.Z),
        List.nth_error (State2.nodes s) k = Some nd ->
        List.In i (Engine2.all_individuals nd) ->
        exists x : State2.ind,
          Engine2.find_ind i (State2.inds s) = Some x /\
          State2.i_node x =
          Some (BinInt.Z.add (BinInt.Z.of_nat k) (BinNums.Zpos BinNums.xH)) /\
          State2.i_nrec x = Prelude.zlen (Journey2.recs_of i h) /\
          (Journey2.recs_of i h = nil /\
           an i =
           Some (BinInt.Z.add (BinInt.Z.of_nat k) (BinNums.Zpos BinNums.xH)) \/
           (exists (l : list State2.rec) (r : State2.rec),
              Journey2.recs_of i h = (l ++ r :: nil)%list /\
              (Journey2.closing r /\
               State2.r_dest r =
               Some
                 (BinInt.Z.add (BinInt.Z.of_nat k) (BinNums.Zpos BinNums.xH)) /\
               State2.r_exit r = State2.i_arr x \/
               Journey2.cont r /\
               State2.r_node r =
               BinInt.Z.add (BinInt.Z.of_nat k) (BinNums.Zpos BinNums.xH) /\
               State2.r_arr r = State2.i_arr x))) /\
          (forall (l1 : list State2.rec) (r : State2.rec)
             (l2 : list State2.rec),
           Journey2.recs_of i h = (l1 ++ r :: l2)%list ->
           List.Forall Journey2.cont l2 ->
           Journey2.closing r ->
           State2.r_dest r =
           Some (BinInt.Z.add (BinInt.Z.of_nat k) (BinNums.Zpos BinNums.xH)) /\
           State2.r_exit r = State2.i_arr x /\
           List.Forall
             (fun r' : State2.rec =>
              State2.r_node r' =
              BinInt.Z.add (BinInt.Z.of_nat k) (BinNums.Zpos BinNums.xH) /\
              State2.r_arr r' = State2.i_arr x) l2) /\
          (List.Forall Journey2.cont (Journey2.recs_of i h) ->
           an i =
           Some (BinInt.Z.add (BinInt.Z.of_nat k) (BinNums.Zpos BinNums.xH)) /\
           List.Forall
             (fun r' : State2.rec =>
              State2.r_node r' =
              BinInt.Z.add (BinInt.Z.of_nat k) (BinNums.Zpos BinNums.xH) /\
              State2.r_arr r' = State2.i_arr x) (Journey2.recs_of i h))) /\
       (forall i : BinNums.Z,
        BinInt.Z.le (BinNums.Zpos BinNums.xH) i /\
        BinInt.Z.le i (State2.a_created (State2.arr s)) ->
        List.In i (State2.exit_ids s) <->
        (exists (l : list State2.rec) (r : State2.rec),
           Journey2.recs_of i h = (l ++ r :: nil)%list /\
           (State2.r_dest r = Some (BinNums.Zneg BinNums.xH) \/
            State2.r_type r = BinNums.Zpos (BinNums.xI BinNums.xH) \/
            State2.r_type r =
            BinNums.Zpos (BinNums.xO (BinNums.xO BinNums.xH))))) /\
       (forall r : State2.rec,
        List.In r h ->
        BinInt.Z.le (State2.r_id r) (State2.a_created (State2.arr s))).
Proof. exact Journey2t.Jrn2t_means. Qed.
Print Assumptions Jrn2t_means.

Theorem Jrn2t_int_means :
  forall (cf : State2.config) (an : BinNums.Z -> option BinNums.Z)
         (s : State2.sim) (h : list State2.rec),
       Journey2t.Jrn2t cf an s h ->
       (forall (k : nat) (nd : State2.node),
        List.nth_error (State2.nodes s) k = Some nd ->
        Journey2.slot_of cf
          (BinInt.Z.add (BinInt.Z.of_nat k) (BinNums.Zpos BinNums.xH)) = true ->
        List.NoDup (State2.n_interrupted nd) /\
        (forall i : BinNums.Z,
         List.In i (State2.n_interrupted nd) ->
         List.In i (Engine2.all_individuals nd) /\
         (exists x : State2.ind,
            Engine2.find_ind i (State2.inds s) = Some x /\
            State2.i_node x =
            Some (BinInt.Z.add (BinInt.Z.of_nat k) (BinNums.Zpos BinNums.xH)) /\
            State2.i_server x <> None /\
            State2.i_sst x = None /\ State2.i_send x = None))) /\
       (forall (i : BinNums.Z) (x : State2.ind) (j : BinNums.Z),
        Engine2.find_ind i (State2.inds s) = Some x ->
        State2.i_node x = Some j ->
        Journey2.slot_of cf j = true ->
        State2.i_sst x <> None -> State2.i_server x <> None).
Proof. exact Journey2t.Jrn2t_int_means. Qed.
Print Assumptions Jrn2t_int_means.

Theorem slotint_b_sound :
  forall (cf : State2.config) (s : State2.sim),
       Journey2.Idx s ->
       Journey2t.slotint_b cf s = true -> Journey2t.SlotIntX cf None s.
Proof. exact Journey2t.slotint_b_sound. Qed.
Print Assumptions slotint_b_sound.

Theorem jrn2t_b_sound :
  forall (cf : State2.config) (an : BinNums.Z -> option BinNums.Z)
         (s : State2.sim) (h : list State2.rec),
       Journey2t.jrn2t_b cf an s h = true -> Journey2t.Jrn2t cf an s h.
Proof. exact Journey2t.jrn2t_b_sound. Qed.
Print Assumptions jrn2t_b_sound.

Theorem jt_thm :
  forall (ds : list State2.draws) (s : State2.sim) 
         (h : list State2.rec) (an : BinNums.Z -> option BinNums.Z),
       Journey2t.slots_only Journey2t.jt_cf Journey2t.jt_s7 ds ->
       Journey2.run_hist Journey2t.jt_cf Journey2t.jt_s7 Journey2t.jt_h7
         Journey2t.jt_an7 ds = State2.Ok (s, h, an) ->
       Journey2t.Jrn2t Journey2t.jt_cf an s h.
Proof. exact Journey2t.jt_thm. Qed.
Print Assumptions jt_thm.

Theorem jt_s7_not_Jrn2s :
  ~
       Journey2s.Jrn2s Journey2t.jt_cf Journey2t.jt_an7 Journey2t.jt_s7
         Journey2t.jt_h7.
Proof. exact Journey2t.jt_s7_not_Jrn2s. Qed.
Print Assumptions jt_s7_not_Jrn2s.

(* Property C07 -- statements about the STAGE-2 engine model (coq/Engine/Engine2.v), statements only; proofs in coq/Inv/Blocking2.v.
   The model is tied to /repo by the stepwise correspondence check K2 (harness/engine_k2b.py). *)
From Coq Require Import ZArith List Bool Permutation.
From CiwV Require Import Sx Prelude Routing Sched.
From CiwV.Engine Require Import State2 Engine2 Codec2.
From CiwV.Inv Require Blocking2.
Import ListNotations.
Open Scope Z_scope.

Theorem run_many_len2 :
  forall (cf : State2.config) (ds : list State2.draws)
         (s s' : State2.sim),
       Blocking2.Len2 s ->
       Codec2.run_many cf s ds = State2.Ok s' ->
       Blocking2.Len2 s' /\ Blocking2.ord s s'.
Proof. exact Blocking2.run_many_len2. Qed.
Print Assumptions run_many_len2.

Theorem run_many_blk2 :
  forall cf : State2.config,
       Blocking2.scope_blk cf = true ->
       forall (ds : list State2.draws) (s s' : State2.sim),
       Blocking2.Blk2 cf s ->
       Codec2.run_many cf s ds = State2.Ok s' -> Blocking2.Blk2 cf s'.
Proof. exact Blocking2.run_many_blk2. Qed.
Print Assumptions run_many_blk2.

Theorem blk2_means :
  forall (cf : State2.config) (s : State2.sim),
       Blocking2.Blk2 cf s ->
       forall (k : nat) (nd : State2.node),
       List.nth_error (State2.nodes s) k = Some nd ->
       State2.n_lenbq nd = Prelude.zlen (State2.n_bq nd) /\
       (forall c : BinNums.Z,
        Blocking2.cap_of cf
          (BinInt.Z.add (BinInt.Z.of_nat k) (BinNums.Zpos BinNums.xH)) =
        Some c -> BinInt.Z.lt (State2.n_pop nd) c -> State2.n_bq nd = nil) /\
       (Blocking2.cap_of cf
          (BinInt.Z.add (BinInt.Z.of_nat k) (BinNums.Zpos BinNums.xH)) = None ->
        State2.n_bq nd = nil).
Proof. exact Blocking2.blk2_means. Qed.
Print Assumptions blk2_means.

Theorem run_many_cap2 :
  forall cf : State2.config,
       Blocking2.scope_cap cf = true ->
       forall (ds : list State2.draws) (s s' : State2.sim),
       Blocking2.Blk2 cf s ->
       Blocking2.Cap2 cf s ->
       Codec2.run_many cf s ds = State2.Ok s' ->
       Blocking2.Blk2 cf s' /\ Blocking2.Cap2 cf s'.
Proof. exact Blocking2.run_many_cap2. Qed.
Print Assumptions run_many_cap2.

Theorem cap2_means :
  forall (cf : State2.config) (s : State2.sim),
       Blocking2.Cap2 cf s ->
       forall (k : nat) (nd : State2.node) (nc : State2.ncfg) (c : BinNums.Z),
       List.nth_error (State2.nodes s) k = Some nd ->
       List.nth_error (State2.cf_nodes cf) k = Some nc ->
       State2.nc_cap nc = Some c -> BinInt.Z.le (State2.n_pop nd) c.
Proof. exact Blocking2.cap2_means. Qed.
Print Assumptions cap2_means.

Theorem event_step_fifo2 :
  forall (cf : State2.config) (s s' : State2.sim),
       Blocking2.scope_fifo cf = true ->
       Blocking2.Len2 s ->
       Blocking2.NoInt s ->
       Engine2.event_step cf s = State2.Ok (tt, s') ->
       Blocking2.Len2 s' /\
       Blocking2.NoInt s' /\
       (Blocking2.heads_only s s' \/
        Blocking2.one_blocked cf (State2.next_active s) s s').
Proof. exact Blocking2.event_step_fifo2. Qed.
Print Assumptions event_step_fifo2.

Theorem blocking2_b_sound :
  forall (cf : State2.config) (s : State2.sim),
       Blocking2.blocking2_b cf s =
       (true :: true :: true :: true :: nil)%list ->
       Blocking2.Len2 s /\
       (Blocking2.scope_blk cf = true -> Blocking2.Blk2 cf s) /\
       (Blocking2.scope_cap cf = true ->
        Blocking2.Blk2 cf s /\ Blocking2.Cap2 cf s) /\
       (Blocking2.scope_fifo cf = true -> Blocking2.NoInt s).
Proof. exact Blocking2.blocking2_b_sound. Qed.
Print Assumptions blocking2_b_sound.

Theorem cap2_refuted_jockeying :
  exists
         (cf : State2.config) (s : State2.sim) (ds : list State2.draws) 
       (s' : State2.sim),
         Blocking2.scope_blk cf = true /\
         Blocking2.scope_fifo cf = true /\
         Blocking2.Blk2 cf s /\
         Blocking2.Cap2 cf s /\
         Codec2.run_many cf s ds = State2.Ok s' /\
         Blocking2.Blk2 cf s' /\ ~ Blocking2.Cap2 cf s'.
Proof. exact Blocking2.cap2_refuted_jockeying. Qed.
Print Assumptions cap2_refuted_jockeying.

Theorem cap2_refuted_reroute :
  exists
         (cf : State2.config) (s : State2.sim) (ds : list State2.draws) 
       (s' : State2.sim),
         Blocking2.scope_blk cf = true /\
         Blocking2.scope_fifo cf = true /\
         Blocking2.Blk2 cf s /\
         Blocking2.Cap2 cf s /\
         Codec2.run_many cf s ds = State2.Ok s' /\
         Blocking2.Blk2 cf s' /\ ~ Blocking2.Cap2 cf s'.
Proof. exact Blocking2.cap2_refuted_reroute. Qed.
Print Assumptions cap2_refuted_reroute.

Theorem blk2_refuted_reroute :
  exists
         (cf : State2.config) (s : State2.sim) (ds : list State2.draws) 
       (s' : State2.sim),
         Blocking2.scope_fifo cf = true /\
         Blocking2.Blk2 cf s /\
         Blocking2.Cap2 cf s /\
         Codec2.run_many cf s ds = State2.Ok s' /\
         Blocking2.Len2 s' /\ Blocking2.Cap2 cf s' /\ ~ Blocking2.Blk2 cf s'.
Proof. exact Blocking2.blk2_refuted_reroute. Qed.
Print Assumptions blk2_refuted_reroute.

Theorem fifo_refuted_interrupted_blocked :
  exists
         (cf : State2.config) (s : State2.sim) (d : State2.draws) 
       (s' : State2.sim),
         Blocking2.scope_blk cf = true /\
         Blocking2.scope_cap cf = true /\
         Blocking2.Len2 s /\
         Blocking2.NoInt s /\
         Blocking2.Blk2 cf s /\
         Engine2.event_step cf
           (RecordSet.set State2.dr (fun _ : State2.draws => d) s) =
         State2.Ok (tt, s') /\
         List.map State2.n_bq (State2.nodes s) =
         (nil
          :: ((BinNums.Zpos BinNums.xH, BinNums.Zpos (BinNums.xI BinNums.xH))
              :: (BinNums.Zpos BinNums.xH,
                  BinNums.Zpos (BinNums.xO BinNums.xH)) :: nil) :: nil)%list /\
         List.map State2.n_bq (State2.nodes s') =
         (nil
          :: ((BinNums.Zpos BinNums.xH, BinNums.Zpos (BinNums.xI BinNums.xH))
              :: nil) :: nil)%list /\
         BinInt.Z.lt (State2.now s') (State2.now s) /\
         ~
         (Blocking2.heads_only s s' \/
          Blocking2.one_blocked cf (State2.next_active s) s s').
Proof. exact Blocking2.fifo_refuted_interrupted_blocked. Qed.
Print Assumptions fifo_refuted_interrupted_blocked.

(* Property C11 -- statements about the STAGE-2 engine model (coq/Engine/Engine2.v: routers, reneging, pre-emption, schedules, slots,
   class change while waiting), statements only; proofs in coq/Inv/Preempt2.v.  The model is tied to /repo by the stepwise correspondence
   check K2 (harness/engine_k2b.py); the executable invariants are evaluated on every real snapshot it visits. *)
From Coq Require Import ZArith List Bool Permutation.
From CiwV Require Import Sx Prelude Routing Sched.
From CiwV.Engine Require Import State2 Engine2 Codec2.
From CiwV.Inv Require Preempt2.
Import ListNotations.
Open Scope Z_scope.

Theorem preempt_victim_spec :
  forall (cf : State2.config) (j i : BinNums.Z) 
         (s : State2.sim) (r : option BinNums.Z) (s' : State2.sim),
       Engine2.preempt_victim cf j i s = State2.Ok (r, s') ->
       s' = s /\
       (exists nc : State2.ncfg,
          Preempt2.cfg_at cf j = Some nc /\
          (State2.nc_preempt nc = BinNums.Z0 -> r = None) /\
          (State2.nc_preempt nc <> BinNums.Z0 ->
           exists (nd : State2.node) (x : State2.ind),
             Preempt2.node_at s j = Some nd /\
             Engine2.find_ind i (State2.inds s) = Some x /\
             State2.n_servers nd <> nil /\
             (forall sv : State2.server,
              List.In sv (State2.n_servers nd) ->
              exists (c : BinNums.Z) (y : State2.ind),
                State2.sv_cust sv = Some c /\
                Engine2.find_ind c (State2.inds s) = Some y) /\
             match r with
             | Some v =>
                 exists
                   (spre : list State2.server) (sv : State2.server) 
                 (spost : list State2.server) (vx : State2.ind),
                   State2.n_servers nd = (spre ++ sv :: spost)%list /\
                   State2.sv_cust sv = Some v /\
                   Engine2.find_ind v (State2.inds s) = Some vx /\
                   BinInt.Z.lt (State2.i_prio x) (State2.i_prio vx) /\
                   (forall (sv' : State2.server) (c : BinNums.Z)
                      (y : State2.ind),
                    List.In sv' (State2.n_servers nd) ->
                    State2.sv_cust sv' = Some c ->
                    Engine2.find_ind c (State2.inds s) = Some y ->
                    BinInt.Z.le (State2.i_prio y) (State2.i_prio vx) /\
                    (State2.i_prio y = State2.i_prio vx ->
                     BinInt.Z.le (Engine2.numo (State2.i_sst y))
                       (Engine2.numo (State2.i_sst vx)))) /\
                   (forall (sv' : State2.server) (c : BinNums.Z)
                      (y : State2.ind),
                    List.In sv' spre ->
                    State2.sv_cust sv' = Some c ->
                    Engine2.find_ind c (State2.inds s) = Some y ->
                    State2.i_prio y = State2.i_prio vx ->
                    BinInt.Z.lt (Engine2.numo (State2.i_sst y))
                      (Engine2.numo (State2.i_sst vx)))
             | None =>
                 forall (sv : State2.server) (c : BinNums.Z) (y : State2.ind),
                 List.In sv (State2.n_servers nd) ->
                 State2.sv_cust sv = Some c ->
                 Engine2.find_ind c (State2.inds s) = Some y ->
                 BinInt.Z.le (State2.i_prio y) (State2.i_prio x)
             end)).
Proof. exact Preempt2.preempt_victim_spec. Qed.
Print Assumptions preempt_victim_spec.

Theorem run_many_SvcInv :
  forall cf : State2.config,
       Preempt2.no_sched_preempt cf = true ->
       forall (ds : list State2.draws) (s s' : State2.sim),
       Preempt2.SvcInv s ->
       Codec2.run_many cf s ds = State2.Ok s' -> Preempt2.SvcInv s'.
Proof. exact Preempt2.run_many_SvcInv. Qed.
Print Assumptions run_many_SvcInv.

Theorem preempt_resume_telescope :
  forall (cf : State2.config) (fu : nat) (j v i : BinNums.Z)
         (s : State2.sim) (u : unit) (s' : State2.sim) 
         (nc : State2.ncfg) (vx x : State2.ind) (nd : State2.node)
         (sid : BinNums.Z) (sv : State2.server) (a r : BinNums.Z),
       Engine2.preempt cf (S fu) j v i s = State2.Ok (u, s') ->
       Preempt2.Idx s ->
       v <> i ->
       Preempt2.cfg_at cf j = Some nc ->
       State2.nc_preempt nc = BinNums.Zpos BinNums.xH ->
       Engine2.find_ind v (State2.inds s) = Some vx ->
       Engine2.find_ind i (State2.inds s) = Some x ->
       Preempt2.node_at s j = Some nd ->
       State2.i_server vx = Some sid ->
       Engine2.find_server sid (State2.n_servers nd) = Some sv ->
       State2.sv_offduty sv = false ->
       State2.i_sst vx = Some a ->
       State2.i_stime vx = Some r ->
       State2.i_send vx = Some (BinInt.Z.add a r) ->
       exists (vx' : State2.ind) (tl : BinNums.Z) 
       (R : State2.rec),
         Engine2.find_ind v (State2.inds s') = Some vx' /\
         State2.log s' = (State2.log s ++ R :: nil)%list /\
         State2.r_type R = BinNums.Zpos BinNums.xH /\
         State2.r_id R = v /\
         State2.r_node R = j /\
         State2.r_sst R = Some a /\
         State2.r_stime R = Some r /\
         State2.r_exit R = Some (State2.now s) /\
         State2.i_tleft vx' = Some tl /\
         BinInt.Z.add (BinInt.Z.sub (State2.now s) a) tl = r /\
         (forall d : list BinNums.Z, Preempt2.given vx' d = Some (tl, d)).
Proof. exact Preempt2.preempt_resume_telescope. Qed.
Print Assumptions preempt_resume_telescope.

Theorem resume_gives_time_left :
  forall (cf : State2.config) (j i sid : BinNums.Z) 
         (s : State2.sim) (u : unit) (s' : State2.sim) 
         (x : State2.ind) (nd : State2.node) (tl : BinNums.Z),
       Engine2.start_give cf j i sid s = State2.Ok (u, s') ->
       Preempt2.Idx s ->
       Engine2.find_ind i (State2.inds s) = Some x ->
       Preempt2.node_at s j = Some nd ->
       State2.i_smark x = BinNums.Zpos BinNums.xH ->
       State2.i_tleft x = Some tl ->
       State2.d_svc (State2.dr s') = State2.d_svc (State2.dr s) /\
       (exists x' : State2.ind,
          Engine2.find_ind i (State2.inds s') = Some x' /\
          State2.i_sst x' = Some (State2.now s) /\
          State2.i_stime x' = Some tl /\
          State2.i_smark x' = BinNums.Z0 /\
          State2.i_send x' = Some (BinInt.Z.add (State2.now s) tl) /\
          State2.i_server x' = Some sid).
Proof. exact Preempt2.resume_gives_time_left. Qed.
Print Assumptions resume_gives_time_left.

Theorem restart_gives_original :
  forall (cf : State2.config) (j i sid : BinNums.Z) 
         (s : State2.sim) (u : unit) (s' : State2.sim) 
         (x : State2.ind) (nd : State2.node) (o : BinNums.Z),
       Engine2.start_give cf j i sid s = State2.Ok (u, s') ->
       Preempt2.Idx s ->
       Engine2.find_ind i (State2.inds s) = Some x ->
       Preempt2.node_at s j = Some nd ->
       State2.i_smark x = BinNums.Zpos (BinNums.xO BinNums.xH) ->
       State2.i_ost x = Some o ->
       State2.d_svc (State2.dr s') = State2.d_svc (State2.dr s) /\
       (exists x' : State2.ind,
          Engine2.find_ind i (State2.inds s') = Some x' /\
          State2.i_sst x' = Some (State2.now s) /\
          State2.i_stime x' = Some o /\
          State2.i_smark x' = BinNums.Z0 /\
          State2.i_send x' = Some (BinInt.Z.add (State2.now s) o) /\
          State2.i_server x' = Some sid).
Proof. exact Preempt2.restart_gives_original. Qed.
Print Assumptions restart_gives_original.

Theorem resample_gives_fresh :
  forall (cf : State2.config) (j i sid : BinNums.Z) 
         (s : State2.sim) (u : unit) (s' : State2.sim) 
         (x : State2.ind) (nd : State2.node),
       Engine2.start_give cf j i sid s = State2.Ok (u, s') ->
       Preempt2.Idx s ->
       Engine2.find_ind i (State2.inds s) = Some x ->
       Preempt2.node_at s j = Some nd ->
       State2.i_smark x = BinNums.Zpos (BinNums.xI BinNums.xH) ->
       exists st : BinNums.Z,
         State2.d_svc (State2.dr s) =
         (st :: State2.d_svc (State2.dr s'))%list /\
         (exists x' : State2.ind,
            Engine2.find_ind i (State2.inds s') = Some x' /\
            State2.i_sst x' = Some (State2.now s) /\
            State2.i_stime x' = Some st /\
            State2.i_smark x' = BinNums.Z0 /\
            State2.i_send x' = Some (BinInt.Z.add (State2.now s) st) /\
            State2.i_server x' = Some sid).
Proof. exact Preempt2.resample_gives_fresh. Qed.
Print Assumptions resample_gives_fresh.

Theorem clock_monotone_refuted :
  exists
         (cf : State2.config) (s : State2.sim) (ds : list State2.draws) 
       (d : State2.draws) (s1 s2 : State2.sim),
         Preempt2.no_sched_preempt cf = true /\
         State2.inds s = nil /\
         (forall d' : State2.draws,
          List.In d' (ds ++ d :: nil) ->
          List.Forall (fun z : BinNums.Z => BinInt.Z.le BinNums.Z0 z)
            (State2.d_svc d')) /\
         Codec2.run_many cf s ds = State2.Ok s1 /\
         Codec2.run_many cf s1 (d :: nil) = State2.Ok s2 /\
         State2.now s1 =
         BinNums.Zpos (BinNums.xO (BinNums.xI (BinNums.xI BinNums.xH))) /\
         State2.now s2 =
         BinNums.Zpos (BinNums.xI (BinNums.xO (BinNums.xO BinNums.xH))) /\
         Preempt2.SvcInv_b s2 = true.
Proof. exact Preempt2.clock_monotone_refuted. Qed.
Print Assumptions clock_monotone_refuted.

(* ---- Inversion2 ---- *)
From CiwV.Inv Require Inversion2.

Theorem run_many_invJ :
  forall cf : State2.config,
       Inversion2.inv_scope cf = true ->
       forall (ds : list State2.draws) (s s' : State2.sim),
       Inversion2.InvJ cf s ->
       Codec2.run_many cf s ds = State2.Ok s' -> Inversion2.InvJ cf s'.
Proof. exact Inversion2.run_many_invJ. Qed.
Print Assumptions run_many_invJ.

Theorem run_many_noinv :
  forall cf : State2.config,
       Inversion2.inv_scope cf = true ->
       forall (ds : list State2.draws) (s s' : State2.sim),
       Inversion2.InvJ cf s ->
       Codec2.run_many cf s ds = State2.Ok s' -> Inversion2.NoInv cf s'.
Proof. exact Inversion2.run_many_noinv. Qed.
Print Assumptions run_many_noinv.

Theorem NoInv_means :
  forall (cf : State2.config) (s : State2.sim),
       Inversion2.InvJ cf s ->
       forall (k : nat) (nc : State2.ncfg) (nd : State2.node),
       List.nth_error (State2.cf_nodes cf) k = Some nc ->
       List.nth_error (State2.nodes s) k = Some nd ->
       Inversion2.in_claim nc nd ->
       (forall (sv : State2.server) (v : BinNums.Z) 
          (vx : State2.ind) (u : BinNums.Z) (ux : State2.ind),
        List.In sv (State2.n_servers nd) ->
        State2.sv_cust sv = Some v ->
        Engine2.find_ind v (State2.inds s) = Some vx ->
        List.In u (List.concat (State2.n_queues nd)) ->
        Engine2.find_ind u (State2.inds s) = Some ux ->
        State2.i_server ux = None ->
        BinInt.Z.le (State2.i_prio vx) (State2.i_prio ux)) /\
       (forall (sv : State2.server) (u : BinNums.Z) (ux : State2.ind),
        List.In sv (State2.n_servers nd) ->
        State2.sv_busy sv = false ->
        List.In u (List.concat (State2.n_queues nd)) ->
        Engine2.find_ind u (State2.inds s) = Some ux ->
        State2.i_server ux <> None) /\
       (forall (kq : nat) (q : list BinNums.Z) (u : BinNums.Z)
          (ux : State2.ind),
        List.nth_error (State2.n_queues nd) kq = Some q ->
        List.In u q ->
        Engine2.find_ind u (State2.inds s) = Some ux ->
        State2.i_prio ux = BinInt.Z.of_nat kq /\
        State2.i_pprio ux = BinInt.Z.of_nat kq) /\
       List.NoDup (List.map State2.sv_id (State2.n_servers nd)) /\
       (forall (sv : State2.server) (v : BinNums.Z),
        List.In sv (State2.n_servers nd) ->
        State2.sv_cust sv = Some v ->
        List.In v (List.concat (State2.n_queues nd)) /\
        (exists vx : State2.ind,
           Engine2.find_ind v (State2.inds s) = Some vx /\
           State2.i_server vx = Some (State2.sv_id sv))) /\
       State2.n_interrupted nd = nil.
Proof. exact Inversion2.NoInv_means. Qed.
Print Assumptions NoInv_means.

Theorem invj_b_sound :
  forall (cf : State2.config) (s : State2.sim),
       Inversion2.invj_b cf s = true -> Inversion2.InvJ cf s.
Proof. exact Inversion2.invj_b_sound. Qed.
Print Assumptions invj_b_sound.

Theorem noinv_refuted_blocked_class_change :
  exists
         (cf : State2.config) (s : State2.sim) (ds : list State2.draws) 
       (s' : State2.sim),
         Inversion2.inv_scope cf = false /\
         Inversion2.invj_b cf s = true /\
         State2.inds s = nil /\
         Codec2.run_many cf s ds = State2.Ok s' /\ ~ Inversion2.NoInv cf s'.
Proof. exact Inversion2.noinv_refuted_blocked_class_change. Qed.
Print Assumptions noinv_refuted_blocked_class_change.

Theorem noinv_refuted_preemptive_schedule :
  exists
         (cf : State2.config) (s : State2.sim) (ds : list State2.draws) 
       (s' : State2.sim),
         Inversion2.inv_scope cf = false /\
         State2.inds s = nil /\
         Codec2.run_many cf s ds = State2.Ok s' /\ Inversion2.Inversion s'.
Proof. exact Inversion2.noinv_refuted_preemptive_schedule. Qed.
Print Assumptions noinv_refuted_preemptive_schedule.

Theorem noinv_refuted_overtime :
  exists
         (cf : State2.config) (s : State2.sim) (ds : list State2.draws) 
       (s' : State2.sim),
         Inversion2.inv_scope cf = false /\
         State2.inds s = nil /\
         Codec2.run_many cf s ds = State2.Ok s' /\ Inversion2.Inversion s'.
Proof. exact Inversion2.noinv_refuted_overtime. Qed.
Print Assumptions noinv_refuted_overtime.

(* ---- Preempt2r ---- *)
From CiwV.Inv Require Preempt2r.

(* the printed form of this statement does not re-parse (nat / Z scopes): it is the statement of Preempt2r.preempt_reroute_spec, verbatim in coq/Inv/Preempt2r.v *)
Theorem preempt_reroute_spec : ltac:(let t := type of Preempt2r.preempt_reroute_spec in exact t).
Proof. exact Preempt2r.preempt_reroute_spec. Qed.
Print Assumptions preempt_reroute_spec.

Theorem preempt_reroute_record :
  forall (cf : State2.config) (fu : nat) (j v i : BinNums.Z)
         (s s' : State2.sim) (nc : State2.ncfg) (vx : State2.ind)
         (nd : State2.node) (sid : BinNums.Z) (sv : State2.server),
       Engine2.preempt cf (S (S fu)) j v i s = State2.Ok (tt, s') ->
       Preempt2.Idx s ->
       Preempt2.cfg_at cf j = Some nc ->
       State2.nc_preempt nc =
       BinNums.Zpos (BinNums.xO (BinNums.xO BinNums.xH)) ->
       Engine2.nc_slotted nc = false ->
       Engine2.find_ind v (State2.inds s) = Some vx ->
       Preempt2.node_at s j = Some nd ->
       Engine2.nd_inf nd = false ->
       State2.i_server vx = Some sid ->
       Engine2.find_server sid (State2.n_servers nd) = Some sv ->
       State2.sv_offduty sv = false ->
       exists
         (d : BinNums.Z) (sr : State2.sim) (R : State2.rec) 
       (rest : list State2.rec),
         Engine2.next_node_for cf (BinNums.Zpos BinNums.xH) j v
           (Preempt2.set_ind
              (RecordSet.set State2.i_ost
                 (fun _ : option BinNums.Z => State2.i_stime vx) vx) s) =
         State2.Ok (d, sr) /\
         State2.log s' = (State2.log s ++ R :: rest)%list /\
         State2.r_type R = BinNums.Zpos BinNums.xH /\
         State2.r_id R = v /\
         State2.r_node R = j /\
         State2.r_dest R = Some d /\
         State2.r_exit R = Some (State2.now s) /\
         State2.r_arr R = State2.i_arr vx /\
         State2.r_sst R = State2.i_sst vx /\
         State2.r_stime R = State2.i_stime vx /\
         State2.r_send R = None /\
         State2.r_server R = Some sid /\
         State2.r_cls R = State2.i_pcls vx /\
         State2.r_ocls R = State2.i_ocls vx.
Proof. exact Preempt2r.preempt_reroute_record. Qed.
Print Assumptions preempt_reroute_record.

Theorem preempt_reroute_dest :
  forall (cf : State2.config) (fu : nat) (j v i : BinNums.Z)
         (s s' : State2.sim) (nc : State2.ncfg) (vx : State2.ind)
         (nd : State2.node) (sid : BinNums.Z) (sv : State2.server),
       Route2.routing_ok cf ->
       Route2.upos s ->
       Engine2.preempt cf (S (S fu)) j v i s = State2.Ok (tt, s') ->
       Preempt2.Idx s ->
       Preempt2.cfg_at cf j = Some nc ->
       State2.nc_preempt nc =
       BinNums.Zpos (BinNums.xO (BinNums.xO BinNums.xH)) ->
       Engine2.nc_slotted nc = false ->
       Engine2.find_ind v (State2.inds s) = Some vx ->
       Preempt2.node_at s j = Some nd ->
       Engine2.nd_inf nd = false ->
       State2.i_server vx = Some sid ->
       Engine2.find_server sid (State2.n_servers nd) = Some sv ->
       State2.sv_offduty sv = false ->
       exists
         (d : BinNums.Z) (sr : State2.sim) (rt : State2.routing) 
       (raw : BinNums.Z),
         Engine2.next_node_for cf (BinNums.Zpos BinNums.xH) j v
           (Preempt2.set_ind
              (RecordSet.set State2.i_ost
                 (fun _ : option BinNums.Z => State2.i_stime vx) vx) s) =
         State2.Ok (d, sr) /\
         Engine2.nthZ (State2.cf_routing cf) (State2.i_cls vx) = Some rt /\
         Route2.allowed (BinNums.Zpos BinNums.xH) j
           (RecordSet.set State2.i_ost
              (fun _ : option BinNums.Z => State2.i_stime vx) vx) rt
           (State2.nodes s) (State2.cyc s) raw /\
         Route2.vdest (Prelude.zlen (State2.nodes s)) raw = Some d /\
         (d = BinNums.Zneg BinNums.xH \/
          BinInt.Z.le (BinNums.Zpos BinNums.xH) d /\
          BinInt.Z.le d (Prelude.zlen (State2.nodes s))).
Proof. exact Preempt2r.preempt_reroute_dest. Qed.
Print Assumptions preempt_reroute_dest.

Theorem preempt_reroute_preemptor_after :
  forall (cf : State2.config) (fu : nat) (j v i : BinNums.Z)
         (s s' : State2.sim) (nc : State2.ncfg) (vx : State2.ind)
         (nd : State2.node) (sid : BinNums.Z) (sv : State2.server),
       Engine2.preempt cf (S (S fu)) j v i s = State2.Ok (tt, s') ->
       Preempt2.Idx s ->
       Preempt2.cfg_at cf j = Some nc ->
       State2.nc_preempt nc =
       BinNums.Zpos (BinNums.xO (BinNums.xO BinNums.xH)) ->
       Engine2.nc_slotted nc = false ->
       Engine2.find_ind v (State2.inds s) = Some vx ->
       Preempt2.node_at s j = Some nd ->
       Engine2.nd_inf nd = false ->
       State2.i_server vx = Some sid ->
       Engine2.find_server sid (State2.n_servers nd) = Some sv ->
       State2.sv_offduty sv = false ->
       exists (st : BinNums.Z) (xi' : State2.ind),
         Engine2.find_ind i (State2.inds s') = Some xi' /\
         State2.i_server xi' = Some sid /\
         State2.i_sst xi' = Some (State2.now s) /\
         State2.i_stime xi' = Some st /\
         State2.i_smark xi' = BinNums.Z0 /\
         State2.i_send xi' = Some (BinInt.Z.add (State2.now s) st) /\
         State2.now s' = State2.now s.
Proof. exact Preempt2r.preempt_reroute_preemptor_after. Qed.
Print Assumptions preempt_reroute_preemptor_after.

(* the printed form of this statement does not re-parse (nat / Z scopes): it is the statement of Preempt2r.preempt_reroute_to_other_node, verbatim in coq/Inv/Preempt2r.v *)
Theorem preempt_reroute_to_other_node : ltac:(let t := type of Preempt2r.preempt_reroute_to_other_node in exact t).
Proof. exact Preempt2r.preempt_reroute_to_other_node. Qed.
Print Assumptions preempt_reroute_to_other_node.

Theorem reroute_same_node_refuted :
  exists
         (cf : State2.config) (fu : nat) (j v i : BinNums.Z) 
       (s s' : State2.sim) (nc : State2.ncfg) (vx x : State2.ind) 
       (nd : State2.node) (sid : BinNums.Z) (sv : State2.server) 
       (sr s1 s2 : State2.sim) (xi : State2.ind) (nd2 : State2.node) 
       (sv2 : State2.server),
         Engine2.preempt cf (S (S fu)) j v i s = State2.Ok (tt, s') /\
         Preempt2.Idx_b s = true /\
         v <> i /\
         Preempt2.cfg_at cf j = Some nc /\
         State2.nc_preempt nc =
         BinNums.Zpos (BinNums.xO (BinNums.xO BinNums.xH)) /\
         Engine2.nc_slotted nc = false /\
         Engine2.find_ind v (State2.inds s) = Some vx /\
         Engine2.find_ind i (State2.inds s) = Some x /\
         Preempt2.node_at s j = Some nd /\
         Engine2.nd_inf nd = false /\
         State2.i_server vx = Some sid /\
         Engine2.find_server sid (State2.n_servers nd) = Some sv /\
         State2.sv_offduty sv = false /\
         Engine2.next_node_for cf (BinNums.Zpos BinNums.xH) j v
           (Preempt2.set_ind
              (RecordSet.set State2.i_ost
                 (fun _ : option BinNums.Z => State2.i_stime vx) vx) s) =
         State2.Ok (j, sr) /\
         (let vr :=
            RecordSet.set State2.i_route
              (fun _ : option (list (list BinNums.Z)) => None)
              (RecordSet.set State2.i_ost
                 (fun _ : option BinNums.Z => State2.i_stime vx) vx) in
          s1 =
          Preempt2r.handed_state sr (State2.log s)
            (Preempt2.int_rec j (State2.now s) vr (Some j) (Some sid)) vr
            (Preempt2r.departed nd (State2.i_pprio vx) nil
               (Preempt2.detached (State2.now s)
                  (RecordSet.set State2.i_exit
                     (fun _ : option BinNums.Z => Some (State2.now s)) vr) sv))) /\
         Engine2.accept cf fu j v s1 = State2.Ok (tt, s2) /\
         Engine2.start_preemptor cf j i sid s2 = State2.Ok (tt, s') /\
         State2.i_server x = None /\
         State2.i_sst x = None /\
         Engine2.find_ind i (State2.inds s2) = Some xi /\
         State2.i_server xi = Some sid /\
         State2.i_sst xi = Some (State2.now s) /\
         xi <> x /\
         Preempt2.node_at s2 j = Some nd2 /\
         Engine2.find_server sid (State2.n_servers nd2) = Some sv2 /\
         State2.sv_cust sv2 = Some i /\
         State2.sv_busy sv2 = true /\
         List.In v (Engine2.all_individuals nd2) /\
         (forall (q' : list BinNums.Z) (D : State2.server),
          nd2 <> Preempt2r.departed nd (State2.i_pprio vx) q' D).
Proof. exact Preempt2r.reroute_same_node_refuted. Qed.
Print Assumptions reroute_same_node_refuted.

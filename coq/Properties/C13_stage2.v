(* Property C13 -- statements about the STAGE-2 engine model (coq/Engine/Engine2.v: routers, reneging, pre-emption, schedules, slots,
   class change while waiting), statements only; proofs in coq/Inv/Renege2.v.  The model is tied to /repo by the stepwise correspondence
   check K2 (harness/engine_k2b.py); the executable invariants are evaluated on every real snapshot it visits. *)
From Coq Require Import ZArith List Bool Permutation.
From CiwV Require Import Sx Prelude Routing Sched.
From CiwV.Engine Require Import State2 Engine2 Codec2.
From CiwV.Inv Require Renege2.
Import ListNotations.
Open Scope Z_scope.

Theorem release_individual_spec :
  forall (cf : State2.config) (j i : BinNums.Z) (s s' : State2.sim),
       Engine2.release_individual cf j i s = State2.Ok (tt, s') ->
       exists (x : State2.ind) (nd : State2.node) 
       (nc : State2.ncfg),
         Engine2.find_ind i (State2.inds s) = Some x /\
         BinInt.Z.le (BinNums.Zpos BinNums.xH) j /\
         Engine2.nthZ (State2.nodes s)
           (BinInt.Z.sub j (BinNums.Zpos BinNums.xH)) = 
         Some nd /\
         Engine2.nthZ (State2.cf_nodes cf)
           (BinInt.Z.sub j (BinNums.Zpos BinNums.xH)) = 
         Some nc /\
         (if Renege2.is_full cf nc nd s
          then
           Renege2.TurnedAway s s' x j
             (BinNums.Zpos (BinNums.xO (BinNums.xO BinNums.xH)))
             (State2.n_pop nd)
          else
           exists
             (tabs : list (option (list BinNums.Z))) 
           (tab : option (list BinNums.Z)),
             Engine2.nthZ (State2.cf_baulk cf) (State2.i_cls x) = Some tabs /\
             Engine2.nthZ tabs (BinInt.Z.sub j (BinNums.Zpos BinNums.xH)) =
             Some tab /\
             match tab with
             | Some tb =>
                 exists (u : BinNums.Z) (rest : list BinNums.Z),
                   State2.d_unif (State2.dr s) = (u :: rest)%list /\
                   (let s1 :=
                      RecordSet.set State2.dr
                        (fun _ : State2.draws =>
                         RecordSet.set State2.d_unif
                           (fun _ : list BinNums.Z => rest) 
                           (State2.dr s)) s in
                    if
                     BinInt.Z.ltb
                       (BinInt.Z.mul
                          (BinNums.Zpos (BinNums.xO (BinNums.xO BinNums.xH)))
                          u)
                       (BinInt.Z.mul (Renege2.baulk_p4 tb (State2.n_pop nd))
                          Routing.two53)
                    then
                     Renege2.TurnedAway s1 s' x j
                       (BinNums.Zpos (BinNums.xI BinNums.xH))
                       (State2.n_pop nd)
                    else
                     Engine2.send_individual cf j i s1 = State2.Ok (tt, s'))
             | None => Engine2.send_individual cf j i s = State2.Ok (tt, s')
             end).
Proof. exact Renege2.release_individual_spec. Qed.
Print Assumptions release_individual_spec.

Theorem never_baulks_at_0 :
  forall (cf : State2.config) (j i : BinNums.Z) 
         (s s' : State2.sim) (x : State2.ind) (nd : State2.node)
         (nc : State2.ncfg) (tabs : list (option (list BinNums.Z)))
         (tb : list BinNums.Z) (u : BinNums.Z) (rest : list BinNums.Z),
       Engine2.release_individual cf j i s = State2.Ok (tt, s') ->
       Engine2.find_ind i (State2.inds s) = Some x ->
       Engine2.nthZ (State2.nodes s)
         (BinInt.Z.sub j (BinNums.Zpos BinNums.xH)) = 
       Some nd ->
       Engine2.nthZ (State2.cf_nodes cf)
         (BinInt.Z.sub j (BinNums.Zpos BinNums.xH)) = 
       Some nc ->
       Renege2.is_full cf nc nd s = false ->
       Engine2.nthZ (State2.cf_baulk cf) (State2.i_cls x) = Some tabs ->
       Engine2.nthZ tabs (BinInt.Z.sub j (BinNums.Zpos BinNums.xH)) =
       Some (Some tb) ->
       State2.d_unif (State2.dr s) = (u :: rest)%list ->
       BinInt.Z.le BinNums.Z0 u ->
       Renege2.baulk_p4 tb (State2.n_pop nd) = BinNums.Z0 ->
       Engine2.send_individual cf j i
         (RecordSet.set State2.dr
            (fun _ : State2.draws =>
             RecordSet.set State2.d_unif (fun _ : list BinNums.Z => rest)
               (State2.dr s)) s) = State2.Ok (tt, s').
Proof. exact Renege2.never_baulks_at_0. Qed.
Print Assumptions never_baulks_at_0.

Theorem always_baulks_at_1 :
  forall (cf : State2.config) (j i : BinNums.Z) 
         (s s' : State2.sim) (x : State2.ind) (nd : State2.node)
         (nc : State2.ncfg) (tabs : list (option (list BinNums.Z)))
         (tb : list BinNums.Z) (u : BinNums.Z) (rest : list BinNums.Z),
       Engine2.release_individual cf j i s = State2.Ok (tt, s') ->
       Engine2.find_ind i (State2.inds s) = Some x ->
       Engine2.nthZ (State2.nodes s)
         (BinInt.Z.sub j (BinNums.Zpos BinNums.xH)) = 
       Some nd ->
       Engine2.nthZ (State2.cf_nodes cf)
         (BinInt.Z.sub j (BinNums.Zpos BinNums.xH)) = 
       Some nc ->
       Renege2.is_full cf nc nd s = false ->
       Engine2.nthZ (State2.cf_baulk cf) (State2.i_cls x) = Some tabs ->
       Engine2.nthZ tabs (BinInt.Z.sub j (BinNums.Zpos BinNums.xH)) =
       Some (Some tb) ->
       State2.d_unif (State2.dr s) = (u :: rest)%list ->
       BinInt.Z.lt u Routing.two53 ->
       Renege2.baulk_p4 tb (State2.n_pop nd) =
       BinNums.Zpos (BinNums.xO (BinNums.xO BinNums.xH)) ->
       Renege2.TurnedAway
         (RecordSet.set State2.dr
            (fun _ : State2.draws =>
             RecordSet.set State2.d_unif (fun _ : list BinNums.Z => rest)
               (State2.dr s)) s) s' x j
         (BinNums.Zpos (BinNums.xI BinNums.xH)) (State2.n_pop nd).
Proof. exact Renege2.always_baulks_at_1. Qed.
Print Assumptions always_baulks_at_1.

Theorem next_renege_selected :
  forall (cf : State2.config) (s s' : State2.sim),
       Renege2.Idx s ->
       Engine2.event_step cf s = State2.Ok (tt, s') ->
       forall nd : State2.node,
       BinInt.Z.le (BinNums.Zpos BinNums.xH) (State2.next_active s') ->
       Engine2.nthZ (State2.nodes s')
         (BinInt.Z.sub (State2.next_active s') (BinNums.Zpos BinNums.xH)) =
       Some nd ->
       State2.n_next_type nd = BinNums.Zpos (BinNums.xO BinNums.xH) ->
       State2.n_next_date nd = Some (State2.now s') /\
       State2.n_next_inds nd <> nil /\
       (forall i : BinNums.Z,
        List.In i (State2.n_next_inds nd) ->
        List.In i (Engine2.all_individuals nd) /\
        Renege2.waiting_at (State2.inds s') i (State2.now s')) /\
       (forall i z : BinNums.Z,
        List.In i (Engine2.all_individuals nd) ->
        Renege2.waiting_at (State2.inds s') i z ->
        BinInt.Z.le (State2.now s') z) /\
       (forall i : BinNums.Z,
        List.In i (Engine2.all_individuals nd) ->
        exists x : State2.ind,
          Engine2.find_ind i (State2.inds s') = Some x /\
          State2.i_ren x <> State2.XU).
Proof. exact Renege2.next_renege_selected. Qed.
Print Assumptions next_renege_selected.

Theorem run_many_RenInvF :
  forall (cf : State2.config)
         (fr : option (BinNums.Z * BinNums.Z * BinNums.Z * BinNums.Z)),
       Renege2.nopre cf = true ->
       forall (ds : list State2.draws) (s s' : State2.sim),
       Renege2.RenInvF cf fr s ->
       List.Forall
         (fun d : State2.draws =>
          List.Forall (fun p : BinNums.Z => BinInt.Z.le BinNums.Z0 p)
            (State2.d_ren d)) ds ->
       Codec2.run_many cf s ds = State2.Ok s' -> Renege2.RenInvF cf fr s'.
Proof. exact Renege2.run_many_RenInvF. Qed.
Print Assumptions run_many_RenInvF.

Theorem RenInv_means :
  forall (cf : State2.config) (s : State2.sim),
       Renege2.RenInv cf s ->
       (forall x : State2.ind,
        List.In x (State2.inds s) ->
        exists (j : BinNums.Z) (nd : State2.node),
          State2.i_node x = Some j /\
          BinInt.Z.le (BinNums.Zpos BinNums.xH) j /\
          Engine2.nthZ (State2.nodes s)
            (BinInt.Z.sub j (BinNums.Zpos BinNums.xH)) = 
          Some nd /\ List.In (State2.i_id x) (Engine2.all_individuals nd)) /\
       (forall (j : BinNums.Z) (nd : State2.node) (nc : State2.ncfg),
        BinInt.Z.le (BinNums.Zpos BinNums.xH) j ->
        Engine2.nthZ (State2.nodes s)
          (BinInt.Z.sub j (BinNums.Zpos BinNums.xH)) = 
        Some nd ->
        Engine2.nthZ (State2.cf_nodes cf)
          (BinInt.Z.sub j (BinNums.Zpos BinNums.xH)) = 
        Some nc ->
        State2.nc_reneging nc = true ->
        State2.n_c nd <> None ->
        forall (id : BinNums.Z) (x : State2.ind),
        List.In id (Engine2.all_individuals nd) ->
        Engine2.find_ind id (State2.inds s) = Some x ->
        State2.i_node x = Some j /\
        State2.i_ren x <> State2.XU /\
        (forall z : BinNums.Z,
         State2.i_ren x = State2.XV z ->
         (exists a : BinNums.Z, State2.i_arr x = Some a /\ BinInt.Z.le a z) /\
         (State2.i_server x = None -> BinInt.Z.le (State2.now s) z))).
Proof. exact Renege2.RenInv_means. Qed.
Print Assumptions RenInv_means.

Theorem no_past_renege_refuted :
  exists
         (cf : State2.config) (s : State2.sim) (d : State2.draws) 
       (s' : State2.sim),
         Renege2.nopre cf = false /\
         Renege2.RenInv_b cf s = true /\
         List.Forall (fun p : BinNums.Z => BinInt.Z.le BinNums.Z0 p)
           (State2.d_ren d) /\
         Engine2.event_step cf
           (RecordSet.set State2.dr (fun _ : State2.draws => d) s) =
         State2.Ok (tt, s') /\
         (exists (nd : State2.node) (z : BinNums.Z),
            List.In nd (State2.nodes s') /\
            State2.n_next_type nd = BinNums.Zpos (BinNums.xO BinNums.xH) /\
            State2.n_next_date nd = Some z /\
            BinInt.Z.lt z (State2.now s) /\
            BinInt.Z.lt (State2.now s') (State2.now s)).
Proof. exact Renege2.no_past_renege_refuted. Qed.
Print Assumptions no_past_renege_refuted.

Theorem accept_stamps :
  forall (cf : State2.config)
         (pre : BinNums.Z -> BinNums.Z -> BinNums.Z -> Engine2.M unit)
         (j i : BinNums.Z) (s s' : State2.sim),
       Renege2.accept_body cf pre j i s = State2.Ok (tt, s') ->
       exists
         (x : State2.ind) (nd : State2.node) (q : list BinNums.Z) 
       (nc : State2.ncfg) (rd : State2.xz) (rest : option (list BinNums.Z)),
         Engine2.find_ind i (State2.inds s) = Some x /\
         BinInt.Z.le (BinNums.Zpos BinNums.xH) j /\
         Engine2.nthZ (State2.nodes s)
           (BinInt.Z.sub j (BinNums.Zpos BinNums.xH)) = 
         Some nd /\
         Engine2.nthZ (State2.n_queues nd) (State2.i_prio x) = Some q /\
         Engine2.nthZ (State2.cf_nodes cf)
           (BinInt.Z.sub j (BinNums.Zpos BinNums.xH)) = 
         Some nc /\
         Renege2.stamp_of nc x (State2.now s) (State2.d_ren (State2.dr s)) =
         Some (rd, rest) /\
         Renege2.accept_rest cf pre j i nc
           (Renege2.after_stamp s x nd j q rd rest) = 
         State2.Ok (tt, s').
Proof. exact Renege2.accept_stamps. Qed.
Print Assumptions accept_stamps.

(* Property C15 -- statements only. *)
From Coq Require Import ZArith List.
From CiwV Require Import Sx Process Acc.C15.
Import ListNotations.

(* the sharing model: whatever was built and simulated before in the process by copying constructors, "seed z; build a
   simulation of network n; run it k events" yields exactly the outcome of a freshly built network, for every deterministic
   engine (init, step, obs), every parameter set, member state and random-stream model *)
Theorem copy_reproducible : forall (P M E R Out : Type) (init : P -> E) (step : P -> M * E * R -> M * E * R) (obs : E -> Out) (seed : Z -> R)
  pre pr0 n p m z k,
  forallb (Process.copying P M) pre = true -> Process.sims P M E R pr0 = [] ->
  nth_error (Process.nets P M E R pr0) n = Some (Process.mkNet P M p m) ->
  let pr := Process.execs P M E R init step seed pr0 pre in
  let pr' := Process.execs P M E R init step seed pr [Process.Seed P M z; Process.Build P M false n; Process.Run P M (length (Process.sims P M E R pr)) k] in
  option_map (fun s => obs (Process.s_eng P M E s)) (nth_error (Process.sims P M E R pr') (length (Process.sims P M E R pr)))
  = Some (Process.reference P M E R Out init step obs seed p m z k).
Proof. exact Process.copy_reproducible. Qed.
Print Assumptions copy_reproducible.

(* T1 of the comparison: every outcome of an accepted case equals the fresh-interpreter reference; in strict mode no
   stateful member is shared (the hypothesis "copying constructors" of copy_reproducible, checked on the real objects) *)
Theorem C15_sound : forall strict ref l sh stt, C15.acc strict ref l sh = Accept stt ->
  (forall k o, In (k, o) l -> o = ref) /\ (strict = true -> sh = 0%Z).
Proof. exact C15.C15_sound. Qed.
Print Assumptions C15_sound.

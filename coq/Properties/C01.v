(* Property C01 -- statements only. *)
From Coq Require Import ZArith List.
From CiwV Require Import Sx Acc.C01.

(* T1: every trace the acceptor accepts, of any length, satisfies C01. *)
Theorem C01_sound : forall tr st, C01.acc tr = Accept st -> C01.P_C01 tr.
Proof. exact C01.C01_sound. Qed.
Print Assumptions C01_sound.

(* Property C01 -- statements only. *)
From Coq Require Import ZArith List.
From CiwV Require Import Sx Acc.C01.

(* T1: every trace the acceptor accepts, of any length, satisfies C01. *)
Theorem C01_sound : forall tr st, C01.acc tr = Accept st -> C01.P_C01 tr.
Proof. exact C01.C01_sound. Qed.
Print Assumptions C01_sound.

(* ---- T2: the engine model (coq/Engine, tied to /repo by the stepwise correspondence check K2) preserves conservation ---- *)
From CiwV.Engine Require Import State Engine Codec.
From CiwV.Inv Require Import Frame Conserve ConserveRun.

(* one executed event, for every configuration, every state satisfying the invariant and every oracle of draws *)
Theorem event_step_conserves : forall cf s s', Conserve.WFx nil s -> Engine.event_step cf s = Ok (tt, s') -> Conserve.WFx nil s'.
Proof. exact Conserve.event_step_conserves. Qed.
Print Assumptions event_step_conserves.

(* any number of events *)
Theorem run_many_conserves : forall cf ds s s', Conserve.WFx nil s -> Codec.run_many cf s ds = Ok s' -> Conserve.WFx nil s'.
Proof. exact ConserveRun.run_many_conserves. Qed.
Print Assumptions run_many_conserves.

(* what the invariant says, in the words of the property *)
Theorem WFx_means : forall s, Conserve.WFx nil s ->
  Permutation.Permutation (ConserveRun.ids_of s) (Prelude.zseq 1 (Z.to_nat (a_created (arr s)))) /\ NoDup (ConserveRun.ids_of s) /\
  (forall nd, In nd (nodes s) -> n_pop nd = Prelude.zlen (Engine.all_individuals nd)) /\ exit_n s = Prelude.zlen (exit_ids s) /\
  a_created (arr s) = (Prelude.zsum (map n_pop (nodes s)) + exit_n s)%Z.
Proof. exact ConserveRun.WFx_means. Qed.
Print Assumptions WFx_means.

(* the executable test used by the correspondence check on the real engine's snapshots is sound for the invariant *)
Theorem wfx_b_sound : forall s, ConserveRun.wfx_b s = true -> Conserve.WFx nil s.
Proof. exact ConserveRun.wfx_b_sound. Qed.
Print Assumptions wfx_b_sound.

(* ---- T2, last clause of C01: arrival at the exit is permanent ---- *)
From CiwV.Inv Require Import ExitGrows.

(* one event only ever appends to the exit list and never lowers the number of customers created *)
Theorem event_step_grows : forall cf s u s', Engine.event_step cf s = Ok (u, s') ->
  (exists t, exit_ids s' = exit_ids s ++ t) /\ (a_created (arr s) <= a_created (arr s'))%Z.
Proof. exact ExitGrows.event_step_grows. Qed.
Print Assumptions event_step_grows.

(* after any number of events a customer that was at the exit is still there and is in no service node *)
Theorem exit_is_permanent : forall cf ds s s' x, Conserve.WFx nil s -> Codec.run_many cf s ds = Ok s' -> In x (exit_ids s) ->
  In x (exit_ids s') /\ forall nd, In nd (nodes s') -> ~ In x (Engine.all_individuals nd).
Proof. exact ExitGrows.exit_is_permanent. Qed.
Print Assumptions exit_is_permanent.

(* Property C16 -- statements only. *)
From Coq Require Import ZArith List.
From CiwV Require Import Sx Loop Acc.C16.
Import ListNotations.

(* pause / resume transparency of the simulate_until_max_time loop over an abstract engine (any fuel): a call to T1 followed
   by a call to T >= T1 executes the same events in the same order and returns the same state as one call to T, provided
   re-entering the loop does not disturb the state at the pause (pick r1 = r1: no tie between nodes there, which is what
   would make find_next_active_node consume a random draw) *)
Theorem until_time_split : forall (S : Type) (pick event : S -> S) (date : S -> option Z) T1 T, (T1 <= T)%Z ->
  forall f1 s ds1 r1, Loop.until_time S pick event date T1 f1 s = Some (ds1, r1) -> pick r1 = r1 ->
  forall f2 ds2 r2, Loop.until_time S pick event date T f2 r1 = Some (ds2, r2) ->
  Loop.until_time S pick event date T (f1 + f2) s = Some (ds1 ++ ds2, r2).
Proof. exact Loop.until_time_split. Qed.
Print Assumptions until_time_split.

Theorem until_time_split_unique : forall (S : Type) (pick event : S -> S) (date : S -> option Z) T1 T, (T1 <= T)%Z ->
  forall f1 s ds1 r1, Loop.until_time S pick event date T1 f1 s = Some (ds1, r1) -> pick r1 = r1 ->
  forall f2 ds2 r2, Loop.until_time S pick event date T f2 r1 = Some (ds2, r2) ->
  forall f x, Loop.until_time S pick event date T f s = Some x -> x = (ds1 ++ ds2, r2).
Proof. exact Loop.until_time_split_unique. Qed.
Print Assumptions until_time_split_unique.

(* T1 of the comparison: an accepted pair of outcomes (records, final clock, server busy/total times, utilisation) is equal *)
Theorem C16_sound : forall one split stt, C16.acc one split = Accept stt -> one = split.
Proof. exact C16.C16_sound. Qed.
Print Assumptions C16_sound.

(* ---- T2: pause/resume transparency of the loop of simulate_until_max_time over the ENGINE MODEL (coq/Engine): a call to T1 followed by
   a call to T on the remaining draws is the call to T, for every configuration, state and oracle (no hypothesis on the state: in the model
   the next event is already picked between events; re-entering the real loop re-picks it, which is the proviso of until_time_split) ---- *)
From Coq Require Import ZArith List.
From CiwV.Engine Require Import State Engine Codec.
From CiwV.Inv Require Import Horizon.
Open Scope Z_scope.
Theorem run_until_split_eq : forall cf T1 T, T1 <= T -> forall ds s,
  Horizon.run_until cf T s ds =
  match Horizon.run_until cf T1 s ds with Ok (s1, r1) => Horizon.run_until cf T s1 r1 | Err e => Err e | OutOfFuel => OutOfFuel end.
Proof. exact Horizon.run_until_split_eq. Qed.
Print Assumptions run_until_split_eq.

(* Property C18 -- statements about the STAGE-2 engine model (coq/Engine/Engine2.v), statements only; proofs in coq/Inv/Knot2.v.
   The model is tied to /repo by the stepwise correspondence check K2 (harness/engine_k2b.py). *)
From Coq Require Import ZArith List Bool Permutation.
From CiwV Require Import Sx Prelude Routing Sched.
From CiwV.Engine Require Import State2 Engine2 Codec2.
From CiwV.Inv Require Knot2.
Import ListNotations.
Open Scope Z_scope.

Theorem event_step_knot2 :
  forall (cf : State2.config) (K : list Z) (s s' : State2.sim),
       Knot2.KnotInv2 cf K s ->
       Engine2.event_step cf s = State2.Ok (tt, s') ->
       Knot2.KnotInv2 cf K s' /\ Knot2.Same K s s'.
Proof. exact Knot2.event_step_knot2. Qed.
Print Assumptions event_step_knot2.

Theorem run_many_knot2 :
  forall (cf : State2.config) (K : list Z) (ds : list State2.draws)
         (s s' : State2.sim),
       Knot2.KnotInv2 cf K s ->
       Codec2.run_many cf s ds = State2.Ok s' ->
       Knot2.KnotInv2 cf K s' /\ Knot2.Same K s s'.
Proof. exact Knot2.run_many_knot2. Qed.
Print Assumptions run_many_knot2.

Theorem knot2_is_permanent :
  forall (cf : State2.config) (K : list Z) (ds : list State2.draws)
         (s s' : State2.sim),
       Knot2.Knot2 cf s K ->
       Knot2.KAux cf K s ->
       Codec2.run_many cf s ds = State2.Ok s' ->
       Knot2.Knot2 cf s' K /\
       Knot2.KAux cf K s' /\
       (forall (j : Z) (nd : State2.node),
        In j K ->
        Knot2.nodeZ s j = Some nd ->
        exists nd' : State2.node,
          Knot2.nodeZ s' j = Some nd' /\
          State2.n_servers nd' = State2.n_servers nd /\
          (forall (sv : State2.server) (i : Z),
           In sv (State2.n_servers nd) ->
           State2.sv_cust sv = Some i ->
           Engine2.find_ind i (State2.inds s') =
           Engine2.find_ind i (State2.inds s))).
Proof. exact Knot2.knot2_is_permanent. Qed.
Print Assumptions knot2_is_permanent.

Theorem knot2_is_permanent_in_scope :
  forall (cf : State2.config) (K : list Z) (ds : list State2.draws)
         (s s' : State2.sim),
       Knot2.knot_scope cf K = true ->
       Knot2.knot2_b cf s K = true ->
       Knot2.noscope_b cf K s = true ->
       Codec2.run_many cf s ds = State2.Ok s' ->
       Knot2.Knot2 cf s' K /\ Knot2.KAux cf K s' /\ Knot2.Same K s s'.
Proof. exact Knot2.knot2_is_permanent_in_scope. Qed.
Print Assumptions knot2_is_permanent_in_scope.

Theorem KAux_means :
  forall (cf : State2.config) (K : list Z) (s : State2.sim),
       Knot2.KAux cf K s ->
       Knot2.knot_scope cf K = true /\
       Renege2.Idx s /\
       (forall (j : Z) (nd : State2.node),
        In j K ->
        Knot2.nodeZ s j = Some nd ->
        (forall sv : State2.server,
         In sv (State2.n_servers nd) ->
         State2.sv_busy sv = true /\ State2.sv_next_end sv = None) /\
        State2.n_next_type nd <> 2%Z /\
        (State2.n_next_type nd = 0%Z -> State2.n_next_inds nd = nil)) /\
       (forall i : Z,
        In i (Knot2.knot_custs s K) ->
        (i <= State2.a_created (State2.arr s))%Z /\
        (exists x : State2.ind,
           Engine2.find_ind i (State2.inds s) = Some x /\
           State2.i_server x <> None)) /\
       (forall nd : State2.node,
        In nd (State2.nodes s) ->
        ~ In (State2.n_id nd) K ->
        (forall i : Z,
         In i (Engine2.all_individuals nd) -> ~ In i (Knot2.knot_custs s K)) /\
        (forall (sv : State2.server) (c : Z),
         In sv (State2.n_servers nd) ->
         State2.sv_cust sv = Some c -> ~ In c (Knot2.knot_custs s K)) /\
        (forall i : Z,
         In i (State2.n_interrupted nd) -> ~ In i (Knot2.knot_custs s K))) /\
       (forall (nd : State2.node) (from y : Z),
        In nd (State2.nodes s) ->
        In (from, y) (State2.n_bq nd) -> In from K -> In (State2.n_id nd) K) /\
       (forall (nd : State2.node) (i : Z),
        In nd (State2.nodes s) ->
        In i (State2.n_next_inds nd) \/ State2.n_ncci nd = Some i ->
        ~ In i (Knot2.knot_custs s K)).
Proof. exact Knot2.KAux_means. Qed.
Print Assumptions KAux_means.

Theorem knot2_b_sound :
  forall (cf : State2.config) (s : State2.sim) (K : list Z),
       Knot2.knot2_b cf s K = true -> Knot2.Knot2 cf s K.
Proof. exact Knot2.knot2_b_sound. Qed.
Print Assumptions knot2_b_sound.

Theorem knot2_b_complete :
  forall (cf : State2.config) (s : State2.sim) (K : list Z),
       Knot2.Knot2 cf s K -> Knot2.knot2_b cf s K = true.
Proof. exact Knot2.knot2_b_complete. Qed.
Print Assumptions knot2_b_complete.

Theorem kaux_b_sound :
  forall (cf : State2.config) (K : list Z) (s : State2.sim),
       Knot2.kaux_b cf K s = true -> Knot2.KAux cf K s.
Proof. exact Knot2.kaux_b_sound. Qed.
Print Assumptions kaux_b_sound.

Theorem knotinv2_b_sound :
  forall (cf : State2.config) (K : list Z) (s : State2.sim),
       Knot2.knotinv2_b cf K s = true -> Knot2.KnotInv2 cf K s.
Proof. exact Knot2.knotinv2_b_sound. Qed.
Print Assumptions knotinv2_b_sound.

Theorem deadlocked2_b_iff :
  forall (cf : State2.config) (s : State2.sim),
       Renege2.Idx s ->
       Knot2.deadlocked2_b cf s = true <->
       (exists K : list Z,
          Knot2.Knot2 cf s K /\
          (forall (j : Z) (nd : State2.node),
           In j K -> Knot2.nodeZ s j = Some nd -> State2.n_servers nd <> nil)).
Proof. exact Knot2.deadlocked2_b_iff. Qed.
Print Assumptions deadlocked2_b_iff.

Theorem deadlock_is_permanent2 :
  forall (cf : State2.config) (s : State2.sim),
       Renege2.Idx s ->
       Knot2.deadlocked2_b cf s = true ->
       exists K : list Z,
         Knot2.Knot2 cf s K /\
         (Knot2.KAux cf K s ->
          forall (ds : list State2.draws) (s' : State2.sim),
          Codec2.run_many cf s ds = State2.Ok s' ->
          Knot2.Knot2 cf s' K /\
          Knot2.Same K s s' /\ Knot2.deadlocked2_b cf s' = true).
Proof. exact Knot2.deadlock_is_permanent2. Qed.
Print Assumptions deadlock_is_permanent2.

Theorem knot2_refuted_priority_preempt :
  (exists s : State2.sim,
          Codec2.run_many Knot2.ka_cf Knot2.ka_0 Knot2.ka_ds = State2.Ok s /\
          Knot2.Knot2 Knot2.ka_cf s (1%Z :: 2%Z :: nil) /\
          Knot2.sane_b Knot2.ka_cf s &&
          Knot2.noscope_b Knot2.ka_cf (1%Z :: 2%Z :: nil) s = true) /\
       Knot2.knot_scope Knot2.ka_cf (1%Z :: 2%Z :: nil) = false /\
       (exists s' : State2.sim,
          Codec2.run_many Knot2.ka_cf Knot2.ka_0
            (Knot2.ka_ds ++ Knot2.ka_d :: nil) = State2.Ok s' /\
          ~ Knot2.Knot2 Knot2.ka_cf s' (1%Z :: 2%Z :: nil) /\
          Knot2.serving_at s' 3 1 && Knot2.stranded s' 2 = true).
Proof. exact Knot2.knot2_refuted_priority_preempt. Qed.
Print Assumptions knot2_refuted_priority_preempt.

Theorem knot2_refuted_preemptive_schedule :
  (exists s : State2.sim,
          Codec2.run_many (Knot2.kb_cf 1) Knot2.kb_0 Knot2.kb_ds =
          State2.Ok s /\
          Knot2.Knot2 (Knot2.kb_cf 1) s (1%Z :: 2%Z :: nil) /\
          Knot2.sane_b (Knot2.kb_cf 1) s &&
          Sched2.sched_inv_b (Knot2.kb_cf 1) s &&
          Knot2.noscope_b (Knot2.kb_cf 1) (1%Z :: 2%Z :: nil) s &&
          (State2.now s =? 10)%Z = true) /\
       Knot2.knot_scope (Knot2.kb_cf 1) (1%Z :: 2%Z :: nil) = false /\
       (exists s' : State2.sim,
          Codec2.run_many (Knot2.kb_cf 1) Knot2.kb_0
            (Knot2.kb_ds ++ Knot2.nod :: nil) = State2.Ok s' /\
          ~ Knot2.Knot2 (Knot2.kb_cf 1) s' (1%Z :: 2%Z :: nil) /\
          Knot2.serving_at s' 2 1 && (State2.now s' =? 3)%Z = true).
Proof. exact Knot2.knot2_refuted_preemptive_schedule. Qed.
Print Assumptions knot2_refuted_preemptive_schedule.

Theorem knot2_refuted_schedule :
  (exists s : State2.sim,
          Codec2.run_many Knot2.kc_cf Knot2.kc_0 Knot2.kc_ds = State2.Ok s /\
          Knot2.Knot2 Knot2.kc_cf s (1%Z :: 2%Z :: nil) /\
          Knot2.sane_b Knot2.kc_cf s && Sched2.sched_inv_b Knot2.kc_cf s &&
          Knot2.noscope_b Knot2.kc_cf (1%Z :: 2%Z :: nil) s = true) /\
       Knot2.knot_scope Knot2.kc_cf (1%Z :: 2%Z :: nil) = false /\
       (exists s1 : State2.sim,
          Codec2.run_many Knot2.kc_cf Knot2.kc_0
            (Knot2.kc_ds ++ Knot2.kc_d1 :: nil) = 
          State2.Ok s1 /\
          ~ Knot2.Knot2 Knot2.kc_cf s1 (1%Z :: 2%Z :: nil) /\
          Knot2.blocked_holding s1 1 && Knot2.blocked_holding s1 2 &&
          Knot2.serving_at s1 3 1 = true) /\
       (exists s2 : State2.sim,
          Codec2.run_many Knot2.kc_cf Knot2.kc_0
            (Knot2.kc_ds ++ Knot2.kc_d1 :: Knot2.kc_d2 :: nil) = 
          State2.Ok s2 /\
          ~ Knot2.Knot2 Knot2.kc_cf s2 (1%Z :: 2%Z :: nil) /\
          Knot2.serving_at s2 1 2 && Knot2.serving_at s2 2 1 = true).
Proof. exact Knot2.knot2_refuted_schedule. Qed.
Print Assumptions knot2_refuted_schedule.

Theorem knot2_refuted_reneging :
  (exists s : State2.sim,
          Codec2.run_many Knot2.kd_cf Knot2.kd_0 Knot2.kd_ds = State2.Ok s /\
          Knot2.Knot2 Knot2.kd_cf s (1%Z :: 2%Z :: nil) /\
          Knot2.sane_b Knot2.kd_cf s &&
          Knot2.base_gen_b (fun _ : State2.ncfg => true) Knot2.kd_cf
            (1%Z :: 2%Z :: nil) s = true) /\
       Knot2.knot_scope Knot2.kd_cf (1%Z :: 2%Z :: nil) = false /\
       (exists s' : State2.sim,
          Codec2.run_many Knot2.kd_cf Knot2.kd_0
            (Knot2.kd_ds ++ Knot2.kd_d :: nil) = State2.Ok s' /\
          ~ Knot2.Knot2 Knot2.kd_cf s' (1%Z :: 2%Z :: nil) /\
          Knot2.serving_at s' 1 2 && Knot2.serving_at s' 2 1 &&
          match State2.exit_ids s' with
          | 3%Z :: nil => true
          | _ => false
          end = true).
Proof. exact Knot2.knot2_refuted_reneging. Qed.
Print Assumptions knot2_refuted_reneging.

Theorem kx_forever :
  forall (ds : list State2.draws) (s' : State2.sim),
       Codec2.run_many Knot2.kx_cf Knot2.kx_s ds = State2.Ok s' ->
       Knot2.Knot2 Knot2.kx_cf s' (1%Z :: 2%Z :: nil) /\
       (exists nd1 : State2.node,
          Knot2.nodeZ s' 1 = Some nd1 /\
          State2.n_servers nd1 = Knot2.kx_sv 1 :: nil) /\
       (exists nd2 : State2.node,
          Knot2.nodeZ s' 2 = Some nd2 /\
          State2.n_servers nd2 = Knot2.kx_sv 2 :: nil) /\
       Engine2.find_ind 1 (State2.inds s') = Some Knot2.kx_i1 /\
       Engine2.find_ind 2 (State2.inds s') = Some Knot2.kx_i2.
Proof. exact Knot2.kx_forever. Qed.
Print Assumptions kx_forever.

(* Property C05 -- statements only. *)
From Coq Require Import ZArith List.
From CiwV Require Import Sx Acc.C05.

Theorem C05_sound : forall tr st, C05.acc tr = Accept st -> C05.P_C05 tr.
Proof. exact C05.C05_sound. Qed.
Print Assumptions C05_sound.

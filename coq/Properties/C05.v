(* Property C05 -- statements only. *)
From Coq Require Import ZArith List.
From CiwV Require Import Sx Acc.C05.

Theorem C05_sound : forall tr st, C05.acc tr = Accept st -> C05.P_C05 tr.
Proof. exact C05.C05_sound. Qed.
Print Assumptions C05_sound.

(* ---- T2: the engine model (coq/Engine, tied to /repo by the stepwise correspondence check K2) never idles a server while a customer waits ---- *)
From Coq Require Import ZArith List.
From CiwV Require Import Prelude.
From CiwV.Engine Require Import State Engine Codec.
From CiwV.Inv Require Import Frame Conserve Servers NonIdle.
Open Scope Z_scope.

(* one executed event, for every configuration, every state satisfying the invariant and every oracle of draws *)
Theorem event_step_ni : forall cf s s', NonIdle.NIInv cf s -> Engine.event_step cf s = Ok (tt, s') -> NonIdle.NIInv cf s'.
Proof. exact NonIdle.event_step_ni. Qed.
Print Assumptions event_step_ni.

(* any number of events, in the words of the property: at a node with c servers, whenever some customer of the node has no server
   every server of the node is busy; in numbers, the busy servers are min(c, customers at the node) *)
Theorem engine_nonidle : forall cf ds s s', NonIdle.NIInv cf s -> Codec.run_many cf s ds = Ok s' ->
  forall k nd nc c, nth_error (nodes s') k = Some nd -> nth_error (cf_nodes cf) k = Some nc -> nc_c nc = Some c ->
    ((exists i x, In i (Engine.all_individuals nd) /\ Engine.find_ind i (inds s') = Some x /\ i_server x = None) ->
       forall sv, In sv (n_servers nd) -> sv_busy sv = true) /\
    zlen (filter sv_busy (n_servers nd)) = Z.min c (n_pop nd).
Proof. exact NonIdle.engine_nonidle. Qed.
Print Assumptions engine_nonidle.

(* the executable test used by the correspondence check on the real engine's snapshots is sound for the invariant *)
Theorem ni_b_sound : forall cf s, NonIdle.ni_b cf s = true -> NonIdle.NIInv cf s.
Proof. exact NonIdle.ni_b_sound. Qed.
Print Assumptions ni_b_sound.

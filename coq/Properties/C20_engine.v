(* Property C20 -- statements about the (stage-1) ENGINE MODEL (coq/Engine/Engine.v), statements only; proofs in coq/Inv/DateSum.v.
   The model is tied to /repo by the stepwise correspondence check K2 (harness/engine_k2.py). *)
From Coq Require Import ZArith List Bool Permutation.
From CiwV Require Import Sx Prelude.
From CiwV.Engine Require Import State Engine Codec.
From CiwV.Inv Require DateSum.
Import ListNotations.
Open Scope Z_scope.

Theorem ds_b_sound :
  forall (g : Z) (cf : State.config) (s : State.sim),
       DateSum.ds_b g cf s = true -> DateSum.Grid g s.
Proof. exact DateSum.ds_b_sound. Qed.
Print Assumptions ds_b_sound.

Theorem event_step_ds :
  forall (D : list Z) (cf : State.config) (d : State.draws)
         (s s' : State.sim),
       DateSum.DS D s ->
       Engine.event_step cf
         (RecordSet.set State.dr (fun _ : State.draws => d) s) =
       State.Ok (tt, s') ->
       DateSum.DS (State.d_arr d ++ State.d_svc d ++ D) s'.
Proof. exact DateSum.event_step_ds. Qed.
Print Assumptions event_step_ds.

Theorem run_many_ds :
  forall (cf : State.config) (ds : list State.draws) 
         (D0 : list Z) (s s' : State.sim),
       DateSum.DS D0 s ->
       Codec.run_many cf s ds = State.Ok s' ->
       DateSum.DS (DateSum.time_draws ds ++ D0) s'.
Proof. exact DateSum.run_many_ds. Qed.
Print Assumptions run_many_ds.

Theorem records_ds :
  forall (D : list Z) (cf : State.config) (d : State.draws)
         (s s' : State.sim),
       DateSum.DS D s ->
       Engine.event_step cf
         (RecordSet.set State.dr (fun _ : State.draws => d) s) =
       State.Ok (tt, s') ->
       forall r : State.rec,
       In r (State.log s') ->
       DateSum.rec_ok (DateSum.Sum (State.d_arr d ++ State.d_svc d ++ D))
         (DateSum.Grp (State.d_arr d ++ State.d_svc d ++ D)) r.
Proof. exact DateSum.records_ds. Qed.
Print Assumptions records_ds.

Theorem run_records_ds :
  forall (cf : State.config) (ds : list State.draws) 
         (d : State.draws) (D0 : list Z) (s s1 s2 : State.sim),
       DateSum.DS D0 s ->
       Codec.run_many cf s ds = State.Ok s1 ->
       Engine.event_step cf
         (RecordSet.set State.dr (fun _ : State.draws => d) s1) =
       State.Ok (tt, s2) ->
       forall r : State.rec,
       In r (State.log s2) ->
       DateSum.rec_ok
         (DateSum.Sum
            (State.d_arr d ++ State.d_svc d ++ DateSum.time_draws ds ++ D0))
         (DateSum.Grp
            (State.d_arr d ++ State.d_svc d ++ DateSum.time_draws ds ++ D0))
         r.
Proof. exact DateSum.run_records_ds. Qed.
Print Assumptions run_records_ds.

Theorem record_means :
  forall (PS PG : Z -> Prop) (r : State.rec),
       DateSum.rec_ok PS PG r ->
       (forall x : Z, State.r_arr r = Some x -> PS x) /\
       (forall x : Z, State.r_sst r = Some x -> PS x) /\
       (forall x : Z, State.r_send r = Some x -> PS x) /\
       (forall x : Z, State.r_exit r = Some x -> PS x) /\
       (forall x : Z, State.r_stime r = Some x -> PS x) /\
       (forall x : Z, State.r_wait r = Some x -> PG x) /\
       (forall x : Z, State.r_blocked r = Some x -> PG x) /\
       (forall a b : Z,
        State.r_arr r = Some a ->
        State.r_sst r = Some b -> State.r_wait r = Some (b - a)%Z) /\
       (forall a b : Z,
        State.r_sst r = Some a ->
        State.r_send r = Some b -> State.r_stime r = Some (b - a)%Z) /\
       (forall a b w : Z,
        State.r_sst r = Some a ->
        State.r_stime r = Some w -> State.r_send r = Some b -> b = (a + w)%Z) /\
       (forall a b : Z,
        State.r_send r = Some a ->
        State.r_exit r = Some b -> State.r_blocked r = Some (b - a)%Z).
Proof. exact DateSum.record_means. Qed.
Print Assumptions record_means.

Theorem now_is_a_sum :
  forall (D : list Z) (s : State.sim),
       DateSum.DS D s ->
       exists l : list Z, incl l D /\ State.now s = Prelude.zsum l.
Proof. exact DateSum.now_is_a_sum. Qed.
Print Assumptions now_is_a_sum.

Theorem grid :
  forall (g : Z) (D : list Z) (s : State.sim),
       (forall d : Z, In d D -> (g | d)%Z) ->
       DateSum.DS D s -> DateSum.Grid g s.
Proof. exact DateSum.grid. Qed.
Print Assumptions grid.

Theorem run_many_grid :
  forall (g : Z) (cf : State.config) (ds : list State.draws)
         (D0 : list Z) (s s' : State.sim),
       (forall d : Z, In d D0 -> (g | d)%Z) ->
       (forall d : Z, In d (DateSum.time_draws ds) -> (g | d)%Z) ->
       DateSum.DS D0 s ->
       Codec.run_many cf s ds = State.Ok s' -> DateSum.Grid g s'.
Proof. exact DateSum.run_many_grid. Qed.
Print Assumptions run_many_grid.

Theorem coincide_engine :
  forall (D D' : list Z) (s : State.sim),
       Permutation.Permutation D D' -> DateSum.DS D s -> DateSum.DS D' s.
Proof. exact DateSum.coincide_engine. Qed.
Print Assumptions coincide_engine.

Theorem wrap_ds :
  forall (D : list Z) (t : Z) (s s' : State.sim),
       DateSum.DS D s ->
       Engine.wrap_up_servers t s = State.Ok (tt, s') ->
       DateSum.DS (t :: D) s'.
Proof. exact DateSum.wrap_ds. Qed.
Print Assumptions wrap_ds.

Theorem ds_means :
  forall (D : list Z) (s : State.sim),
       DateSum.DS D s ->
       DateSum.Sum D (State.now s) /\
       (forall (row : list (option Z)) (x : Z),
        In row (State.a_dates (State.arr s)) ->
        In (Some x) row -> DateSum.Sum D x) /\
       (forall (nd : State.node) (x : Z),
        In nd (State.nodes s) ->
        State.n_next_date nd = Some x -> DateSum.Sum D x) /\
       (forall (nd : State.node) (sv : State.server),
        In nd (State.nodes s) ->
        In sv (State.n_servers nd) ->
        (forall x : Z, State.sv_next_end sv = Some x -> DateSum.Sum D x) /\
        (forall x : Z, State.sv_total_time sv = Some x -> DateSum.Sum D x) /\
        DateSum.Grp D (State.sv_busy_time sv) /\
        DateSum.Grp D (State.sv_wrapped sv)) /\
       (forall c : State.ind,
        In c (State.inds s) ->
        (forall x : Z, State.i_arr c = Some x -> DateSum.Sum D x) /\
        (forall x : Z, State.i_sst c = Some x -> DateSum.Sum D x) /\
        (forall x : Z, State.i_stime c = Some x -> DateSum.Sum D x) /\
        (forall x : Z, State.i_send c = Some x -> DateSum.Sum D x) /\
        (forall x : Z, State.i_exit c = Some x -> DateSum.Sum D x)).
Proof. exact DateSum.ds_means. Qed.
Print Assumptions ds_means.

Theorem Sum_zsum :
  forall (D : list Z) (x : Z),
       DateSum.Sum D x <->
       (exists l : list Z, incl l D /\ x = Prelude.zsum l).
Proof. exact DateSum.Sum_zsum. Qed.
Print Assumptions Sum_zsum.

Theorem ds_sum_b_sound :
  forall (n : nat) (D : list Z) (s : State.sim),
       DateSum.ds_sum_b n D s = true -> DateSum.DS D s.
Proof. exact DateSum.ds_sum_b_sound. Qed.
Print Assumptions ds_sum_b_sound.

Theorem run_many_from_test :
  forall (n : nat) (cf : State.config) (ds : list State.draws)
         (D0 : list Z) (s s' : State.sim),
       DateSum.ds_sum_b n D0 s = true ->
       Codec.run_many cf s ds = State.Ok s' ->
       DateSum.DS (DateSum.time_draws ds ++ D0) s'.
Proof. exact DateSum.run_many_from_test. Qed.
Print Assumptions run_many_from_test.

(* Property C09 -- statements only. *)
From Coq Require Import ZArith List.
From CiwV Require Import Sx Routing Acc.C09.
Import ListNotations.

(* the model of auxiliary.random_choice: a positive draw can only select an entry of positive probability *)
Theorem rc_weighted_positive : forall den P U k b,
  (0 < den)%Z -> (0 < U)%Z -> Forall (fun p => (0 <= p)%Z) P ->
  Routing.rc_weighted den P U = Some (k, b) -> (k < length P)%nat /\ (0 < nth k P 0)%Z.
Proof. exact Routing.rc_weighted_positive. Qed.
Print Assumptions rc_weighted_positive.

(* the exception (finding F-09a): a draw of exactly 0 selects a zero-probability first entry *)
Theorem rc_weighted_refuted_at_zero : Routing.rc_weighted 8 [0; 4; 4]%Z 0 = Some (0%nat, true).
Proof. exact Routing.rc_weighted_refuted_at_zero. Qed.
Print Assumptions rc_weighted_refuted_at_zero.

(* with probabilities summing to 1 and u < 1 the cumulative loop never runs off the end *)
Theorem rc_weighted_total : forall den P U,
  (0 < den)%Z -> (0 <= U < Routing.two53)%Z -> P <> [] -> fold_right Z.add 0%Z P = den -> exists r, Routing.rc_weighted den P U = Some r.
Proof. exact Routing.rc_weighted_total. Qed.
Print Assumptions rc_weighted_total.

(* join-shortest-queue / load balancing: the candidate set is exactly the set of minimisers *)
Theorem argmins_spec : forall sizes k,
  In k (Routing.argmins sizes) <-> exists s, nth_error sizes k = Some s /\ forall x, In x sizes -> (s <= x)%Z.
Proof. exact Routing.argmins_spec. Qed.
Print Assumptions argmins_spec.

(* T1: in an accepted run every routing and class-change decision is one the specification allows *)
Theorem C09_sound : forall strict es stt, C09.acc strict es = Accept stt ->
  forall pre e post, es = pre ++ e :: post ->
    C09.ev_ok (match C09.key_of e with Some key => C09.ncycles key pre | None => 0%nat end) e.
Proof. exact C09.C09_sound. Qed.
Print Assumptions C09_sound.

Theorem C09_strict_weighted : forall es stt, C09.acc true es = Accept stt ->
  forall pre dests P U dest post, es = pre ++ C09.Weighted dests P U dest :: post ->
    exists i drew, Routing.rc_weighted C09.den P (if (U =? -1)%Z then 0%Z else U) = Some (i, drew) /\ C09.nthZ dests i = dest.
Proof. exact C09.C09_strict_weighted. Qed.
Print Assumptions C09_strict_weighted.

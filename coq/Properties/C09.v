(* Property C09 -- statements only. *)
From Coq Require Import ZArith List.
From CiwV Require Import Sx Routing Acc.C09.
Import ListNotations.

(* the model of auxiliary.random_choice: a positive draw can only select an entry of positive probability *)
Theorem rc_weighted_positive : forall den P U k b,
  (0 < den)%Z -> (0 < U)%Z -> Forall (fun p => (0 <= p)%Z) P ->
  Routing.rc_weighted den P U = Some (k, b) -> (k < length P)%nat /\ (0 < nth k P 0)%Z.
Proof. exact Routing.rc_weighted_positive. Qed.
Print Assumptions rc_weighted_positive.

(* the exception (finding F-09a): a draw of exactly 0 selects a zero-probability first entry *)
Theorem rc_weighted_refuted_at_zero : Routing.rc_weighted 8 [0; 4; 4]%Z 0 = Some (0%nat, true).
Proof. exact Routing.rc_weighted_refuted_at_zero. Qed.
Print Assumptions rc_weighted_refuted_at_zero.

(* with probabilities summing to 1 and u < 1 the cumulative loop never runs off the end *)
Theorem rc_weighted_total : forall den P U,
  (0 < den)%Z -> (0 <= U < Routing.two53)%Z -> P <> [] -> fold_right Z.add 0%Z P = den -> exists r, Routing.rc_weighted den P U = Some r.
Proof. exact Routing.rc_weighted_total. Qed.
Print Assumptions rc_weighted_total.

(* join-shortest-queue / load balancing: the candidate set is exactly the set of minimisers *)
Theorem argmins_spec : forall sizes k,
  In k (Routing.argmins sizes) <-> exists s, nth_error sizes k = Some s /\ forall x, In x sizes -> (s <= x)%Z.
Proof. exact Routing.argmins_spec. Qed.
Print Assumptions argmins_spec.

(* T1: in an accepted run every routing and class-change decision is one the specification allows *)
Theorem C09_sound : forall strict es stt, C09.acc strict es = Accept stt ->
  forall pre e post, es = pre ++ e :: post ->
    C09.ev_ok (match C09.key_of e with Some key => C09.ncycles key pre | None => 0%nat end) e.
Proof. exact C09.C09_sound. Qed.
Print Assumptions C09_sound.

Theorem C09_strict_weighted : forall es stt, C09.acc true es = Accept stt ->
  forall pre dests P U dest post, es = pre ++ C09.Weighted dests P U dest :: post ->
    exists i drew, Routing.rc_weighted C09.den P (if (U =? -1)%Z then 0%Z else U) = Some (i, drew) /\ C09.nthZ dests i = dest.
Proof. exact C09.C09_strict_weighted. Qed.
Print Assumptions C09_strict_weighted.

(* ---- T2: the engine model (coq/Engine stage 1: transition matrices and class-change matrices; tied to /repo by the stepwise
   correspondence check K2) routes and changes class only along entries of positive probability ---- *)
From Coq Require Import ZArith List.
From CiwV Require Import Prelude.
From CiwV.Engine Require Import State Engine.
From CiwV.Inv Require Import Route.
Open Scope Z_scope.

(* at a service completion, for every configuration with non-negative rows and every oracle whose uniform draws are > 0
   (a draw of exactly 0 is finding F-09a): the new class has positive probability in the class-change row of the old class, the
   destination has positive probability in the routing row of the new class at that node (the exit: a positive remainder), and
   the customer is released towards exactly that destination or blocked towards it *)
Theorem finish_service_route : forall cf, Route.rows_ok cf -> forall j s s', Route.upos s -> Engine.finish_service cf j s = Ok (tt, s') ->
  exists i x c' d s1 nc,
    Engine.find_ind i (inds s) = Some x /\ Engine.nthZ (cf_nodes cf) (j - 1) = Some nc /\
    (match nc_ccm nc with
     | None => c' = i_cls x
     | Some m => exists row, Engine.nthZ m (i_cls x) = Some row /\ 0 <= c' /\ (Z.to_nat c' < length row)%nat /\ 0 < nth (Z.to_nat c') row 0
     end) /\
    (exists rows row, Engine.nthZ (cf_tm cf) c' = Some rows /\ Engine.nthZ rows (j - 1) = Some row /\
       ((1 <= d /\ (Z.to_nat (d - 1) < length row)%nat /\ 0 < nth (Z.to_nat (d - 1)) row 0) \/ (d = 0 /\ 0 < 8 - zsum row))) /\
    ((exists f, Engine.release cf f j i d s1 = Ok (tt, s')) \/ Engine.block_individual j i d s1 = Ok (tt, s')).
Proof. exact Route.finish_service_route. Qed.
Print Assumptions finish_service_route.

Theorem rows_ok_b_sound : forall cf, Route.rows_ok_b cf = true -> Route.rows_ok cf.
Proof. exact Route.rows_ok_b_sound. Qed.
Print Assumptions rows_ok_b_sound.

(* Property C11 -- statements only. *)
From Coq Require Import ZArith List.
From CiwV Require Import Sx Acc.C11.

(* T1: on every accepted event list, of any length: the victim of a pre-emption is in service, of the lowest priority in
   service and the most recently started among those, and is pre-empted by a customer of strictly higher priority; every
   interruption is recorded (dated at the interruption) before the victim is served again or leaves; when served again it
   receives the remaining time (resume) or the same time again (restart); under resume the time in service summed over all
   stints of the visit equals the original requirement (telescoping, proved from the local checks); after every event no
   customer waits while one of strictly lower priority is in service. *)
Theorem C11_sound : forall es stt, C11.acc es = Accept stt -> C11.P_C11 es.
Proof. exact C11.C11_sound. Qed.
Print Assumptions C11_sound.

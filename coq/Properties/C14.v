(* Property C14 -- statements only. *)
From Coq Require Import ZArith List.
From CiwV Require Import Sx Loop Acc.C14.
Import ListNotations.

(* the loop of simulate_until_max_time over an abstract engine, any fuel: exactly the events dated before T are executed *)
Theorem loop_time_post : forall (S : Type) (pick event : S -> S) (date : S -> option Z) T fuel s ds r,
  Loop.loop_time S pick event date T fuel s = Some (ds, r) ->
  Forall (fun d => (d < T)%Z) ds /\ Loop.before S date T r = false.
Proof. exact Loop.loop_time_post. Qed.
Print Assumptions loop_time_post.

(* the loop of simulate_until_max_customers: the count was below n before every executed event and has reached n at return *)
Theorem loop_count_post : forall (S : Type) (pick event : S -> S) (count : S -> Z) n fuel s cs r,
  Loop.loop_count S pick event count n fuel s = Some (cs, r) ->
  Forall (fun c => (c < n)%Z) cs /\ (n <= count r)%Z.
Proof. exact Loop.loop_count_post. Qed.
Print Assumptions loop_count_post.

(* T1: every accepted call of the real engine returned without error, executed only events dated before T and left none
   before T pending (max_time), or ran exactly until the TRUE count first reached n (max_customers), leaving customers in place *)
Theorem C14_sound : forall l stt, C14.acc l = Accept stt -> forall c, In c l -> C14.P_call c.
Proof. exact C14.C14_sound. Qed.
Print Assumptions C14_sound.

(* ---- T2: the loop of simulate_until_max_time over the ENGINE MODEL (coq/Engine, tied to /repo by the stepwise correspondence check K2) ---- *)
From Coq Require Import ZArith List.
From CiwV.Engine Require Import State Engine Codec.
From CiwV.Inv Require Import Frame Conserve Clock Horizon.
Open Scope Z_scope.

(* for every configuration, every horizon T, every state satisfying the invariants and every oracle (service and inter-arrival
   draws >= 0): the loop "while the active node's date < T: execute its event" executes only events that were due at the clock and
   dated before T, in non-decreasing order of date; when it stops on its test nothing whatsoever is scheduled before T; customers in
   the nodes are left in place (conservation holds at return) *)
Theorem engine_horizon : forall cf T ds s s' rest, Conserve.WFx nil s -> Horizon.Hzn cf s -> Horizon.run_until cf T s ds = Ok (s', rest) ->
  exists used tr,
    ds = used ++ rest /\ length tr = length used /\ Codec.run_many cf s used = Ok s' /\
    (forall k x, nth_error tr k = Some x -> Codec.run_many cf s (firstn k used) = Ok x) /\
    (rest <> nil -> Horizon.before T s' = false) /\
    (Forall Clock.DrawsOK used ->
     Forall (fun x => Horizon.next_date x = Some (now x) /\ now x < T) tr /\
     Horizon.chain (now s) (map now tr ++ (now s' :: nil)) /\
     Conserve.WFx nil s' /\ Horizon.Hzn cf s' /\
     (Horizon.before T s' = false -> (T <= now s' \/ Clock.nothing_scheduled s') /\ Horizon.NothingBefore cf T s')).
Proof. exact Horizon.engine_horizon. Qed.
Print Assumptions engine_horizon.

Theorem hzn_b_sound : forall cf s, Horizon.hzn_b cf s = true -> Horizon.Hzn cf s.
Proof. exact Horizon.hzn_b_sound. Qed.
Print Assumptions hzn_b_sound.

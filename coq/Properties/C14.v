(* Property C14 -- statements only. *)
From Coq Require Import ZArith List.
From CiwV Require Import Sx Loop Acc.C14.
Import ListNotations.

(* the loop of simulate_until_max_time over an abstract engine, any fuel: exactly the events dated before T are executed *)
Theorem loop_time_post : forall (S : Type) (pick event : S -> S) (date : S -> option Z) T fuel s ds r,
  Loop.loop_time S pick event date T fuel s = Some (ds, r) ->
  Forall (fun d => (d < T)%Z) ds /\ Loop.before S date T r = false.
Proof. exact Loop.loop_time_post. Qed.
Print Assumptions loop_time_post.

(* the loop of simulate_until_max_customers: the count was below n before every executed event and has reached n at return *)
Theorem loop_count_post : forall (S : Type) (pick event : S -> S) (count : S -> Z) n fuel s cs r,
  Loop.loop_count S pick event count n fuel s = Some (cs, r) ->
  Forall (fun c => (c < n)%Z) cs /\ (n <= count r)%Z.
Proof. exact Loop.loop_count_post. Qed.
Print Assumptions loop_count_post.

(* T1: every accepted call of the real engine returned without error, executed only events dated before T and left none
   before T pending (max_time), or ran exactly until the TRUE count first reached n (max_customers), leaving customers in place *)
Theorem C14_sound : forall l stt, C14.acc l = Accept stt -> forall c, In c l -> C14.P_call c.
Proof. exact C14.C14_sound. Qed.
Print Assumptions C14_sound.

(* Property C14 -- statements only. *)
From Coq Require Import ZArith List.
From CiwV Require Import Sx Loop Acc.C14.
Import ListNotations.

(* the loop of simulate_until_max_time over an abstract engine, any fuel: exactly the events dated before T are executed *)
Theorem loop_time_post : forall (S : Type) (pick event : S -> S) (date : S -> option Z) T fuel s ds r,
  Loop.loop_time S pick event date T fuel s = Some (ds, r) ->
  Forall (fun d => (d < T)%Z) ds /\ Loop.before S date T r = false.
Proof. exact Loop.loop_time_post. Qed.
Print Assumptions loop_time_post.

(* the loop of simulate_until_max_customers: the count was below n before every executed event and has reached n at return *)
Theorem loop_count_post : forall (S : Type) (pick event : S -> S) (count : S -> Z) n fuel s cs r,
  Loop.loop_count S pick event count n fuel s = Some (cs, r) ->
  Forall (fun c => (c < n)%Z) cs /\ (n <= count r)%Z.
Proof. exact Loop.loop_count_post. Qed.
Print Assumptions loop_count_post.

(* T1: every accepted call of the real engine returned without error, executed only events dated before T and left none
   before T pending (max_time), or ran exactly until the TRUE count first reached n (max_customers), leaving customers in place *)
Theorem C14_sound : forall l stt, C14.acc l = Accept stt -> forall c, In c l -> C14.P_call c.
Proof. exact C14.C14_sound. Qed.
Print Assumptions C14_sound.

(* ---- T2: the loop of simulate_until_max_time over the ENGINE MODEL (coq/Engine, tied to /repo by the stepwise correspondence check K2) ---- *)
From Coq Require Import ZArith List.
From CiwV.Engine Require Import State Engine Codec.
From CiwV.Inv Require Import Frame Conserve Clock Horizon.
Open Scope Z_scope.

(* for every configuration, every horizon T, every state satisfying the invariants and every oracle (service and inter-arrival
   draws >= 0): the loop "while the active node's date < T: execute its event" executes only events that were due at the clock and
   dated before T, in non-decreasing order of date; when it stops on its test nothing whatsoever is scheduled before T; customers in
   the nodes are left in place (conservation holds at return) *)
Theorem engine_horizon : forall cf T ds s s' rest, Conserve.WFx nil s -> Horizon.Hzn cf s -> Horizon.run_until cf T s ds = Ok (s', rest) ->
  exists used tr,
    ds = used ++ rest /\ length tr = length used /\ Codec.run_many cf s used = Ok s' /\
    (forall k x, nth_error tr k = Some x -> Codec.run_many cf s (firstn k used) = Ok x) /\
    (rest <> nil -> Horizon.before T s' = false) /\
    (Forall Clock.DrawsOK used ->
     Forall (fun x => Horizon.next_date x = Some (now x) /\ now x < T) tr /\
     Horizon.chain (now s) (map now tr ++ (now s' :: nil)) /\
     Conserve.WFx nil s' /\ Horizon.Hzn cf s' /\
     (Horizon.before T s' = false -> (T <= now s' \/ Clock.nothing_scheduled s') /\ Horizon.NothingBefore cf T s')).
Proof. exact Horizon.engine_horizon. Qed.
Print Assumptions engine_horizon.

Theorem hzn_b_sound : forall cf s, Horizon.hzn_b cf s = true -> Horizon.Hzn cf s.
Proof. exact Horizon.hzn_b_sound. Qed.
Print Assumptions hzn_b_sound.

(* ---- T2, second half of C14: the loop of simulate_until_max_customers over the ENGINE MODEL (coq/Inv/HorizonCount.v): the four counts are
   exit_completed (Complete), exit_n (Finish), a_created (Arrive), a_accepted (Accept) ---- *)
From CiwV.Inv Require HorizonCount.

Theorem engine_count :
  forall (cf : State.config) (m n : BinNums.Z) 
         (ds : list State.draws) (s s' : State.sim) 
         (rest : list State.draws),
       HorizonCount.CInv cf s ->
       HorizonCount.run_count cf m n s ds = State.Ok (s', rest) ->
       exists (used : list State.draws) (tr : list State.sim),
         ds = (used ++ rest)%list /\
         length tr = length used /\
         Codec.run_many cf s used = State.Ok s' /\
         (forall (k : nat) (x : State.sim),
          List.nth_error tr k = Some x ->
          Codec.run_many cf s (List.firstn k used) = State.Ok x) /\
         List.Forall
           (fun x : State.sim => BinInt.Z.lt (HorizonCount.count_of m x) n)
           tr /\
         (rest <> nil -> BinInt.Z.le n (HorizonCount.count_of m s')) /\
         (forall m' : BinNums.Z,
          Horizon.chain (HorizonCount.count_of m' s)
            (List.map (HorizonCount.count_of m') tr ++
             HorizonCount.count_of m' s' :: nil)) /\
         List.Forall (HorizonCount.CInv cf) tr /\ HorizonCount.CInv cf s'.
Proof. exact HorizonCount.engine_count. Qed.
Print Assumptions engine_count.

Theorem count_means :
  forall (cf : State.config) (s : State.sim),
       HorizonCount.CInv cf s ->
       BinInt.Z.le BinNums.Z0 (HorizonCount.count_of BinNums.Z0 s) /\
       BinInt.Z.le (HorizonCount.count_of BinNums.Z0 s)
         (HorizonCount.count_of (BinNums.Zpos BinNums.xH) s) /\
       BinInt.Z.le (HorizonCount.count_of (BinNums.Zpos BinNums.xH) s)
         (HorizonCount.count_of (BinNums.Zpos (BinNums.xO BinNums.xH)) s) /\
       BinInt.Z.le BinNums.Z0
         (HorizonCount.count_of (BinNums.Zpos (BinNums.xI BinNums.xH)) s) /\
       BinInt.Z.le
         (HorizonCount.count_of (BinNums.Zpos (BinNums.xI BinNums.xH)) s)
         (HorizonCount.count_of (BinNums.Zpos (BinNums.xO BinNums.xH)) s) /\
       BinInt.Z.sub (HorizonCount.count_of (BinNums.Zpos BinNums.xH) s)
         (HorizonCount.count_of BinNums.Z0 s) =
       BinInt.Z.sub
         (HorizonCount.count_of (BinNums.Zpos (BinNums.xO BinNums.xH)) s)
         (HorizonCount.count_of (BinNums.Zpos (BinNums.xI BinNums.xH)) s) /\
       BinInt.Z.sub
         (HorizonCount.count_of (BinNums.Zpos (BinNums.xO BinNums.xH)) s)
         (HorizonCount.count_of (BinNums.Zpos BinNums.xH) s) =
       Prelude.zsum (List.map State.n_pop (State.nodes s)).
Proof. exact HorizonCount.count_means. Qed.
Print Assumptions count_means.

Theorem run_count_last :
  forall (cf : State.config) (m n : BinNums.Z) 
         (ds : list State.draws) (s s' : State.sim)
         (rest u0 : list State.draws) (d : State.draws),
       HorizonCount.run_count cf m n s ds = State.Ok (s', rest) ->
       rest <> nil ->
       ds = ((u0 ++ d :: nil) ++ rest)%list ->
       exists x : State.sim,
         Codec.run_many cf s u0 = State.Ok x /\
         BinInt.Z.lt (HorizonCount.count_of m x) n /\
         Engine.event_step cf
           (RecordSet.set State.dr (fun _ : State.draws => d) x) =
         State.Ok (tt, s') /\ BinInt.Z.le n (HorizonCount.count_of m s').
Proof. exact HorizonCount.run_count_last. Qed.
Print Assumptions run_count_last.

Theorem run_many_count_mono :
  forall (cf : State.config) (m : BinNums.Z) 
         (ds : list State.draws) (s s' : State.sim),
       Codec.run_many cf s ds = State.Ok s' ->
       BinInt.Z.le (HorizonCount.count_of m s) (HorizonCount.count_of m s').
Proof. exact HorizonCount.run_many_count_mono. Qed.
Print Assumptions run_many_count_mono.

Theorem run_count_split_eq :
  forall (cf : State.config) (m n1 n : BinNums.Z),
       BinInt.Z.le n1 n ->
       forall (ds : list State.draws) (s : State.sim),
       HorizonCount.run_count cf m n s ds =
       match HorizonCount.run_count cf m n1 s ds with
       | State.Ok (s1, r1) => HorizonCount.run_count cf m n s1 r1
       | State.Err e => State.Err e
       | State.OutOfFuel => State.OutOfFuel
       end.
Proof. exact HorizonCount.run_count_split_eq. Qed.
Print Assumptions run_count_split_eq.

Theorem cinv_b_sound :
  forall (cf : State.config) (s : State.sim),
       HorizonCount.cinv_b cf s = true -> HorizonCount.CInv cf s.
Proof. exact HorizonCount.cinv_b_sound. Qed.
Print Assumptions cinv_b_sound.

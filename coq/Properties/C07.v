(* Property C07 -- statements only. *)
From Coq Require Import ZArith List.
From CiwV Require Import Sx Acc.C07.

Theorem C07_sound : forall tr st, C07.acc tr = Accept st -> C07.P_C07 tr.
Proof. exact C07.C07_sound. Qed.
Print Assumptions C07_sound.

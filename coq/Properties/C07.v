(* Property C07 -- statements only. *)
From Coq Require Import ZArith List.
From CiwV Require Import Sx Acc.C07.

Theorem C07_sound : forall tr st, C07.acc tr = Accept st -> C07.P_C07 tr.
Proof. exact C07.C07_sound. Qed.
Print Assumptions C07_sound.

(* ---- T2: the engine model (coq/Engine, tied to /repo by the stepwise correspondence check K2) blocks exactly when the
   destination is full, never leaves anybody blocked while there is space, and serves blocked queues first-in first-out ---- *)
From Coq Require Import ZArith List.
From CiwV.Engine Require Import State Engine Codec.
From CiwV.Inv Require Import Frame Conserve Capacity Blocking.
Open Scope Z_scope.

(* one executed event / any number of events, for every configuration, every state satisfying the invariant, every oracle *)
Theorem event_step_blk : forall cf s s', Blocking.Blk cf s -> Engine.event_step cf s = Ok (tt, s') -> Blocking.Blk cf s'.
Proof. exact Blocking.event_step_blk. Qed.
Print Assumptions event_step_blk.
Theorem run_many_blk : forall cf ds s s', Blocking.Blk cf s -> Codec.run_many cf s ds = Ok s' -> Blocking.Blk cf s'.
Proof. exact Blocking.run_many_blk. Qed.
Print Assumptions run_many_blk.

(* in the words of the property: the counter is the length; nobody is left blocked to a node that has space; nobody is ever
   blocked to a node without a capacity limit *)
Theorem blk_means : forall cf s, Blocking.Blk cf s -> forall k nd, nth_error (nodes s) k = Some nd ->
  n_lenbq nd = Z.of_nat (length (n_bq nd)) /\
  (forall c, Capacity.cap_of cf (Z.of_nat k + 1) = Some c -> n_pop nd < c -> n_bq nd = nil) /\
  (Capacity.cap_of cf (Z.of_nat k + 1) = None -> n_bq nd = nil).
Proof. exact Blocking.blk_means. Qed.
Print Assumptions blk_means.

(* first-in first-out, per event: either blocked queues only lose heads, or exactly one customer of the active node joins the END of
   the queue of a node that is full, and no population and no other queue changes *)
Theorem event_step_fifo : forall cf s s', Blocking.Blk cf s -> Engine.event_step cf s = Ok (tt, s') ->
  Blocking.heads_only s s' \/ Blocking.one_blocked cf s s'.
Proof. exact Blocking.event_step_fifo. Qed.
Print Assumptions event_step_fifo.

(* who is blocked: every entry (from, y) of the blocked queue of node k+1 is a customer of node `from`, flagged blocked, with destination
   k+1; every customer flagged blocked is in exactly one blocked queue, once *)
Theorem run_many_who : forall cf ds s s', Blocking.Who cf s -> Codec.run_many cf s ds = Ok s' -> Blocking.Who cf s'.
Proof. exact Blocking.run_many_who. Qed.
Print Assumptions run_many_who.
Theorem who_means : forall cf s, Blocking.Who cf s ->
  (forall k nd from y, nth_error (nodes s) k = Some nd -> In (from, y) (n_bq nd) ->
     exists x ndf, Engine.find_ind y (inds s) = Some x /\ i_blocked x = true /\ i_dest x = Some (Z.of_nat k + 1) /\
                   1 <= from /\ nth_error (nodes s) (Z.to_nat (from - 1)) = Some ndf /\ In y (Engine.all_individuals ndf)) /\
  (forall x, In x (inds s) -> i_blocked x = true -> exists k nd from, nth_error (nodes s) k = Some nd /\ In (from, i_id x) (n_bq nd)) /\
  (forall k nd, nth_error (nodes s) k = Some nd -> NoDup (map snd (n_bq nd))) /\
  (forall k1 nd1 f1 k2 nd2 f2 y, nth_error (nodes s) k1 = Some nd1 -> In (f1, y) (n_bq nd1) ->
                                  nth_error (nodes s) k2 = Some nd2 -> In (f2, y) (n_bq nd2) -> k1 = k2 /\ f1 = f2) /\
  NoDup (map i_id (inds s)).
Proof. exact Blocking.who_means. Qed.
Print Assumptions who_means.

(* all of it over whole runs *)
Theorem engine_blocking : forall cf ds s s', Blocking.Blk cf s -> Blocking.Who cf s -> Codec.run_many cf s ds = Ok s' ->
  Blocking.Blk cf s' /\ Blocking.Who cf s' /\ Blocking.fifo s s'.
Proof. exact Blocking.engine_blocking. Qed.
Print Assumptions engine_blocking.

(* the executable tests used by the correspondence check on the real engine's snapshots are sound for the invariants *)
Theorem blk_b_sound : forall cf s, Blocking.blk_b cf s = true -> Blocking.Blk cf s.
Proof. exact Blocking.blk_b_sound. Qed.
Print Assumptions blk_b_sound.
Theorem who_b_sound : forall cf s, Blocking.who_b cf s = true -> Blocking.Who cf s.
Proof. exact Blocking.who_b_sound. Qed.
Print Assumptions who_b_sound.

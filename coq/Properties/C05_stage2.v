(* Property C05 -- statements about the STAGE-2 engine model (coq/Engine/Engine2.v), statements only; proofs in coq/Inv/Servers2.v.
   The model is tied to /repo by the stepwise correspondence check K2 (harness/engine_k2b.py). *)
From Coq Require Import ZArith List Bool Permutation.
From CiwV Require Import Sx Prelude Routing Sched.
From CiwV.Engine Require Import State2 Engine2 Codec2.
From CiwV.Inv Require Servers2.
Import ListNotations.
Open Scope Z_scope.

Theorem run_many_nonidle2 :
  forall cf : State2.config,
       Servers2.srv_scope cf = true ->
       forall (ds : list State2.draws) (s s' : State2.sim),
       Servers2.SrvInv2 cf s ->
       Servers2.NonIdle2 cf s ->
       Codec2.run_many cf s ds = State2.Ok s' -> Servers2.NonIdle2 cf s'.
Proof. exact Servers2.run_many_nonidle2. Qed.
Print Assumptions run_many_nonidle2.

Theorem NonIdle2_means :
  forall (cf : State2.config) (s : State2.sim),
       Servers2.NonIdle2 cf s ->
       forall (k : nat) (nd : State2.node) (nc : State2.ncfg),
       List.nth_error (State2.nodes s) k = Some nd ->
       List.nth_error (State2.cf_nodes cf) k = Some nc ->
       Engine2.nc_slotted nc = false ->
       Engine2.nd_inf nd = false ->
       State2.n_id nd <> BinNums.Z0 ->
       (exists i : BinNums.Z,
          List.In i (Engine2.all_individuals nd) /\
          Servers2.waits (State2.inds s) i = true) ->
       forall sv : State2.server,
       List.In sv (State2.n_servers nd) ->
       State2.sv_offduty sv = false -> State2.sv_busy sv = true.
Proof. exact Servers2.NonIdle2_means. Qed.
Print Assumptions NonIdle2_means.

Theorem nonidle2_b_sound :
  forall (cf : State2.config) (s : State2.sim),
       Servers2.nonidle2_b cf s = true -> Servers2.NonIdle2 cf s.
Proof. exact Servers2.nonidle2_b_sound. Qed.
Print Assumptions nonidle2_b_sound.

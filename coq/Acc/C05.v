(* C05 -- work conservation.
   Slice per frame: for every non-slotted finite-server node the number of waiting
   customers (no server, or interrupted) and the servers' (busy, offduty) flags; and the
   ordered events  Free node  (a departure, an interruption, or servers coming on duty at
   the node) and  Start node wait  (a service start with its waiting time). *)
From Coq Require Import ZArith List Bool Lia.
From CiwV Require Import Sx Prelude Trace.
Import ListNotations.
Open Scope Z_scope.

Inductive ev := Free (node : Z) | Start (node wait : Z).
Record nodest := mkNode { n_id : Z; n_wait : Z; n_srv : list (bool * bool) }.
Record frame := mkFrame { nodes : list nodest; evs : list ev }.

Definition decode_srv (s : sx) : option (bool * bool) :=
  match s with L [b; o] => do b' <- getBool b; do o' <- getBool o; Some (b', o') | _ => None end.
Definition decode_node (s : sx) : option nodest :=
  match s with L [A i; A w; sv] => do l <- getL sv; do sv' <- omap decode_srv l; Some (mkNode i w sv') | _ => None end.
Definition decode_ev (s : sx) : option ev :=
  match s with L [A 1; A n] => Some (Free n) | L [A 2; A n; A w] => Some (Start n w) | _ => None end.
Definition decode_frame (s : sx) : option frame :=
  match s with
  | L [ns; es] => do nl <- getL ns; do ns' <- omap decode_node nl; do el <- getL es; do es' <- omap decode_ev el;
                  Some (mkFrame ns' es')
  | _ => None
  end.

(* no on-duty server idles while a customer waits *)
Definition node_ok (n : nodest) : bool :=
  (n_wait n <=? 0) || forallb (fun s => fst s || snd s) (n_srv n).

(* a start after a positive wait happens at an instant at which capacity was freed at that node *)
Fixpoint starts_ok (freed : list Z) (es : list ev) : bool :=
  match es with
  | [] => true
  | Free n :: r => starts_ok (n :: freed) r
  | Start n w :: r => ((w <=? 0) || memZ n freed) && starts_ok freed r
  end.

Definition frame_ok (f : frame) : bool := forallb node_ok (nodes f) && starts_ok [] (evs f).

Definition chk (k : Z) (p f : frame) : option (Z * list Z) :=
  match find (fun n => negb (node_ok n)) (nodes f) with
  | Some n => Some (40, [n_id n; n_wait n])
  | None => if starts_ok [] (evs f) then None else Some (41, [])
  end.

Definition acc (tr : list frame) : verdict :=
  match tr with
  | [] => BadInput 1
  | f0 :: r =>
    match scan chk 0 f0 tr with
    | Some (k, c, info) => Reject k c info
    | None => Accept [zlen tr]
    end
  end.

Definition run (s : sx) : verdict :=
  match (do l <- getL s; omap decode_frame l) with Some tr => acc tr | None => BadInput 0 end.

Definition P_C05 (tr : list frame) : Prop :=
  (* whenever a customer is waiting every on-duty server is occupied *)
  (forall f n, In f tr -> In n (nodes f) -> 0 < n_wait n -> forall s, In s (n_srv n) -> snd s = false -> fst s = true) /\
  (* a waiting customer starts service only at an instant at which a server became free there *)
  (forall f, In f tr -> starts_ok [] (evs f) = true).

Lemma find_none_all {X} (f : X -> bool) l : find f l = None -> forall x, In x l -> f x = false.
Proof.
  induction l as [|y r IH]; cbn; intros H x Hin; [destruct Hin|].
  destruct (f y) eqn:E; [discriminate|]. destruct Hin as [<-|Hin]; auto.
Qed.

Theorem C05_sound : forall tr st, acc tr = Accept st -> P_C05 tr.
Proof.
  intros [|f0 r] st H; [discriminate|]. unfold acc in H.
  destruct (scan chk 0 f0 (f0 :: r)) as [[[k c] info]|] eqn:Es; [discriminate|].
  apply scan_none_chain in Es.
  assert (Hall : Forall (fun f => chk 0 f f = None) (f0 :: r)).
  { clear H. revert Es. generalize 0 at 1. generalize f0 at 1. generalize (f0 :: r).
    induction l as [|f q IH]; intros p k Hc; [constructor|].
    inversion Hc as [|? ? ? ? Hk Hch]; subst. constructor; [|eapply IH; eauto].
    unfold chk in *. destruct (find _ (nodes f)); [discriminate|]. destruct (starts_ok [] (evs f)); [reflexivity|discriminate]. }
  rewrite Forall_forall in Hall. split.
  - intros f n Hf Hn Hw s Hs Hoff. specialize (Hall f Hf). unfold chk in Hall.
    destruct (find (fun n0 => negb (node_ok n0)) (nodes f)) eqn:E; [discriminate|].
    pose proof (find_none_all _ _ E n Hn) as Hx. apply negb_false_iff in Hx. unfold node_ok in Hx.
    apply orb_true_iff in Hx as [Hx|Hx]; [apply Z.leb_le in Hx; lia|].
    rewrite forallb_forall in Hx. specialize (Hx s Hs). rewrite Hoff in Hx. rewrite orb_false_r in Hx. exact Hx.
  - intros f Hf. specialize (Hall f Hf). unfold chk in Hall.
    destruct (find _ (nodes f)); [discriminate|]. destruct (starts_ok [] (evs f)); [reflexivity|discriminate].
Qed.

Example acc_example :
  is_accept (acc [ mkFrame [mkNode 1 1 [(true,false);(true,false)]] [];
                   mkFrame [mkNode 1 0 [(true,false);(true,false)]] [Free 1; Start 1 3] ]) = true.
Proof. vm_compute. reflexivity. Qed.
Example rej_idle :
  acc [ mkFrame [mkNode 1 1 [(true,false);(false,false)]] [] ] = Reject 0 40 [1; 1].
Proof. vm_compute. reflexivity. Qed.

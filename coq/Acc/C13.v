(* C13 -- reneging and baulking happen exactly when the model says.  Event list in execution
   order: customers entering nodes, patience samples (logged inside the distribution object),
   service starts / interruptions, renege events with what happened in their frame, the waiting
   customers with their reneging dates after every frame, and every baulking decision with the
   population passed to the function, the probability it returned (in quarters), the uniform
   draw (numerator over 2^53) and the outcome. *)
From Coq Require Import ZArith List Bool Lia.
From CiwV Require Import Sx Prelude Replay.
Import ListNotations.
Open Scope Z_scope.

Inductive ev :=
| Enter (ind node now : Z)
| RDraw (ind node v now : Z)
| Start (ind : Z)
| Intr (ind : Z)
| Renege (ind node now dest entered rarr rwait rexit : Z) (has_server : bool)
| Waiting (now : Z) (l : list (Z * xnum))
| Baulk (node ind npassed pop p4 u d : Z) (exited entered : bool) (rarr rexit now : Z)
| Leave (ind : Z).

Definition decode_w (s : sx) : option (Z * xnum) :=
  match s with L [A i; d] => do d' <- getX d; Some (i, d') | _ => None end.
Definition decode_ev (s : sx) : option ev :=
  match s with
  | L [A 1; A i; A n; A t] => Some (Enter i n t)
  | L [A 2; A i; A n; A v; A t] => Some (RDraw i n v t)
  | L [A 3; A i] => Some (Start i)
  | L [A 4; A i] => Some (Intr i)
  | L [A 5; A i; A n; A t; A d; A e; A a; A w; A x; hs] => do hs' <- getBool hs; Some (Renege i n t d e a w x hs')
  | L [A 6; A t; l] => do ll <- getL l; do l' <- omap decode_w ll; Some (Waiting t l')
  | L [A 7; A n; A i; A np; A pop; A p4; A u; A d; ex; en; A ra; A rx; A t] =>
    do ex' <- getBool ex; do en' <- getBool en; Some (Baulk n i np pop p4 u d ex' en' ra rx t)
  | L [A 8; A i] => Some (Leave i)
  | _ => None
  end.

(* what is known about a customer's current visit *)
Record vis := mkV { v_node : Z; v_arr : Z; v_pat : option Z; v_started : bool }.
Definition vis0 := mkV 0 0 None false.
Definition st := list (Z * vis).
Definition gv := aget vis0.
Definition two53 : Z := 9007199254740992.

Definition wait_ok (m : st) (now : Z) (w : Z * xnum) : bool :=
  let r := gv m (fst w) in
  match v_pat r, snd w with
  | Some p, XNum d => (d =? v_arr r + p) && (now <=? d)      (* the stored date is arrival + patience and has not passed *)
  | None, XInf => true                                       (* no patience sampled: never reneges *)
  | _, _ => false
  end.

Definition step (m : st) (e : ev) : st + Z :=
  match e with
  | Enter i n t => inl (aset m i (mkV n t None false))
  | RDraw i n v t =>
    let r := gv m i in
    if negb ((v_node r =? n) && (v_arr r =? t)) then inr 131     (* patience sampled at another moment than the arrival at that node *)
    else if negb (0 <=? v) then inr 131
    else inl (aset m i (mkV n t (Some v) (v_started r)))
  | Start i => let r := gv m i in inl (aset m i (mkV (v_node r) (v_arr r) (v_pat r) true))
  | Intr i => let r := gv m i in inl (aset m i (mkV (v_node r) (v_arr r) (v_pat r) false))
  | Leave i => inl (aset m i vis0)
  | Renege i n t d en a w x hs =>
    let r := gv m i in
    match v_pat r with
    | None => inr 132                                             (* a customer without patience reneged *)
    | Some p =>
      if negb (v_node r =? n) then inr 132
      else if negb (t =? v_arr r + p) then inr 133                (* renege not exactly at arrival + patience *)
      else if v_started r || hs then inr 134                      (* a customer in service reneged *)
      else if negb (en =? d) then inr 135                         (* did not go to its jockeying destination in the same frame *)
      else if negb ((a =? v_arr r) && (w =? t - v_arr r) && (x =? t)) then inr 136   (* renege record wrong or missing *)
      else inl (aset m i vis0)
    end
  | Waiting now l =>
    if forallb (wait_ok m now) l then inl m else inr 137         (* a waiting customer's patience has run out / wrong reneging date *)
  | Baulk n i np pop p4 u d ex en ra rx t =>
    if negb (np =? pop) then inr 138                              (* baulking function not evaluated on the true population *)
    else if negb (Bool.eqb (d =? 1) (4 * u <? p4 * two53)) then inr 139   (* baulks iff u < p *)
    else if (d =? 1) && negb (ex && (ra =? t) && (rx =? t)) then inr 140   (* a baulker leaves at once with a baulk record *)
    else if negb (d =? 1) && negb en then inr 141                 (* a customer that does not baulk is admitted *)
    else inl m
  end.

Definition acc (es : list ev) : verdict :=
  match replay step [] 0 es with
  | Some (i, c) => Reject i c []
  | None => Accept [zlen es]
  end.

Definition run (s : sx) : verdict :=
  match (do l <- getL s; omap decode_ev l) with
  | Some es => acc es
  | None => BadInput 0
  end.

(* ---- the property on the whole event list ---- *)
Fixpoint vis_of (i : Z) (es : list ev) (r : vis) : vis :=
  match es with
  | [] => r
  | e :: t =>
    vis_of i t (match e with
                | Enter j n now => if j =? i then mkV n now None false else r
                | RDraw j n v now => if j =? i then mkV n now (Some v) (v_started r) else r
                | Start j => if j =? i then mkV (v_node r) (v_arr r) (v_pat r) true else r
                | Intr j => if j =? i then mkV (v_node r) (v_arr r) (v_pat r) false else r
                | Leave j => if j =? i then vis0 else r
                | Renege j _ _ _ _ _ _ _ _ => if j =? i then vis0 else r
                | _ => r
                end)
  end.

Definition P_C13 (es : list ev) : Prop :=
  (* the patience is sampled when the customer arrives at the node *)
  (forall pre i n v t post, es = pre ++ RDraw i n v t :: post ->
     let r := vis_of i pre vis0 in v_node r = n /\ v_arr r = t /\ 0 <= v) /\
  (* a renege happens exactly at arrival + patience, only to a customer whose service has not started and who holds no
     server; the customer goes to its jockeying destination in the same frame and a renege record is written *)
  (forall pre i n t d en a w x hs post, es = pre ++ Renege i n t d en a w x hs :: post ->
     let r := vis_of i pre vis0 in
     exists p, v_pat r = Some p /\ v_node r = n /\ t = v_arr r + p /\ v_started r = false /\ hs = false /\ en = d /\
               a = v_arr r /\ w = t - v_arr r /\ x = t) /\
  (* after every event no waiting customer has waited longer than its patience, and its reneging date is arrival + patience *)
  (forall pre now l post, es = pre ++ Waiting now l :: post ->
     forall i d, In (i, d) l ->
       let r := vis_of i pre vis0 in
       match v_pat r with Some p => d = XNum (v_arr r + p) /\ now <= v_arr r + p | None => d = XInf end) /\
  (* baulking: the function sees the true population; the customer baulks iff u < p (never when p = 0, always when p = 1,
     as 0 <= u < 1); a baulker is at the exit in the same frame with a baulk record, anyone else is admitted *)
  (forall pre n i np pop p4 u d ex en ra rx t post, es = pre ++ Baulk n i np pop p4 u d ex en ra rx t :: post ->
     np = pop /\ (d = 1 <-> 4 * u < p4 * two53) /\ (d = 1 -> ex = true /\ ra = t /\ rx = t) /\ (d <> 1 -> en = true)).

(* ---- T1 ---- *)
Local Arguments Z.mul : simpl never.
Local Arguments Z.add : simpl never.
Local Arguments Z.sub : simpl never.
Lemma vis_of_app i a b r : vis_of i (a ++ b) r = vis_of i b (vis_of i a r).
Proof. revert r; induction a as [|e a IH]; intros r; cbn; [reflexivity|apply IH]. Qed.

Definition Inv (pre : list ev) (m : st) : Prop := forall i, gv m i = vis_of i pre vis0.

Lemma gv_aset m k v k' : gv (aset m k v) k' = if k =? k' then v else gv m k'.
Proof. reflexivity. Qed.

Lemma step_inv pre m e m' : Inv pre m -> step m e = inl m' -> Inv (pre ++ [e]) m'.
Proof.
  intros HI Hs j. rewrite vis_of_app. cbn [vis_of]. rewrite <- (HI j).
  destruct e as [i n t|i n v t|i|i|i n t d en a w x hs|now l|n i np pop p4 u d ex en ra rx t|i]; cbn [step] in Hs.
  - injection Hs as <-. rewrite gv_aset. reflexivity.
  - destruct (negb ((v_node (gv m i) =? n) && (v_arr (gv m i) =? t))); [discriminate|].
    destruct (negb (0 <=? v)); [discriminate|]. injection Hs as <-. rewrite gv_aset.
    destruct (i =? j) eqn:E; [apply Z.eqb_eq in E; subst; reflexivity|reflexivity].
  - injection Hs as <-. rewrite gv_aset. destruct (i =? j) eqn:E; [apply Z.eqb_eq in E; subst; reflexivity|reflexivity].
  - injection Hs as <-. rewrite gv_aset. destruct (i =? j) eqn:E; [apply Z.eqb_eq in E; subst; reflexivity|reflexivity].
  - destruct (v_pat (gv m i)); [|discriminate].
    repeat match type of Hs with (if ?b then _ else _) = _ => destruct b; [discriminate|] end.
    injection Hs as <-. rewrite gv_aset. reflexivity.
  - destruct (forallb (wait_ok m now) l); [|discriminate]. injection Hs as <-. reflexivity.
  - repeat match type of Hs with (if ?b then _ else _) = _ => destruct b; [discriminate|] end.
    injection Hs as <-. reflexivity.
  - injection Hs as <-. rewrite gv_aset. reflexivity.
Qed.

Theorem C13_sound : forall es stt, acc es = Accept stt -> P_C13 es.
Proof.
  intros es stt H. unfold acc in H.
  destruct (replay step [] 0 es) as [[i0 c0]|] eqn:Er; [discriminate|].
  assert (I0 : Inv [] []) by (intros i; reflexivity).
  pose proof (replay_sound step Inv [] I0 step_inv es 0 Er) as RS.
  unfold P_C13. split; [|split; [|split]].
  - intros pre i n v t post E0. destruct (RS _ _ _ E0) as (mp & m' & HI & Hs). cbn [step] in Hs.
    rewrite (HI i) in Hs.
    destruct ((v_node (vis_of i pre vis0) =? n) && (v_arr (vis_of i pre vis0) =? t)) eqn:E1; cbn in Hs; [|discriminate].
    destruct (0 <=? v) eqn:E2; cbn in Hs; [|discriminate].
    apply andb_true_iff in E1 as [E1 E3]. apply Z.eqb_eq in E1, E3. apply Z.leb_le in E2. auto.
  - intros pre i n t d en a w x hs post E0. destruct (RS _ _ _ E0) as (mp & m' & HI & Hs). cbn [step] in Hs.
    rewrite (HI i) in Hs. set (r := vis_of i pre vis0) in *.
    destruct (v_pat r) as [p|]; [|discriminate]. exists p.
    destruct (v_node r =? n) eqn:E1; cbn in Hs; [|discriminate].
    destruct (t =? v_arr r + p) eqn:E2; cbn in Hs; [|discriminate].
    destruct (v_started r) eqn:E3; cbn in Hs; [discriminate|].
    destruct hs; cbn in Hs; [discriminate|].
    destruct (en =? d) eqn:E4; cbn in Hs; [|discriminate].
    destruct ((a =? v_arr r) && (w =? t - v_arr r) && (x =? t)) eqn:E5; cbn in Hs; [|discriminate].
    apply andb_true_iff in E5 as [E5 E7]. apply andb_true_iff in E5 as [E5 E6].
    apply Z.eqb_eq in E1, E2, E4, E5, E6, E7. repeat split; auto.
  - intros pre now l post E0 i d Hin. destruct (RS _ _ _ E0) as (mp & m' & HI & Hs). cbn [step] in Hs.
    destruct (forallb (wait_ok mp now) l) eqn:Ef; [|discriminate].
    rewrite forallb_forall in Ef. specialize (Ef _ Hin). unfold wait_ok in Ef. cbn [fst snd] in Ef.
    rewrite (HI i) in Ef. destruct (v_pat (vis_of i pre vis0)) as [p|].
    + destruct d; try discriminate. apply andb_true_iff in Ef as [E1 E2]. apply Z.eqb_eq in E1. apply Z.leb_le in E2.
      subst. auto.
    + destruct d; try discriminate. reflexivity.
  - intros pre n i np pop p4 u d ex en ra rx t post E0. destruct (RS _ _ _ E0) as (mp & m' & HI & Hs). cbn [step] in Hs.
    destruct (np =? pop) eqn:E1; cbn in Hs; [|discriminate]. apply Z.eqb_eq in E1.
    destruct (Bool.eqb (d =? 1) (4 * u <? p4 * two53)) eqn:E2; cbn in Hs; [|discriminate]. apply Bool.eqb_prop in E2.
    split; [exact E1|]. split.
    { split; intros Hd.
      - apply Z.ltb_lt. rewrite <- E2. apply Z.eqb_eq. exact Hd.
      - apply Z.eqb_eq. rewrite E2. apply Z.ltb_lt. exact Hd. }
    destruct (d =? 1) eqn:Ed; cbn in Hs.
    + destruct (ex && (ra =? t) && (rx =? t)) eqn:E3; cbn in Hs; [|discriminate].
      apply andb_true_iff in E3 as [E3 E5]. apply andb_true_iff in E3 as [E3 E4]. apply Z.eqb_eq in E4, E5.
      split; [auto|]. intros Hn. apply Z.eqb_eq in Ed. congruence.
    + destruct en; cbn in Hs; [|discriminate]. split; [|auto].
      intros Hd. apply Z.eqb_neq in Ed. congruence.
Qed.

(* non-vacuity *)
Example acc_example :
  is_accept (acc [Enter 1 1 0; RDraw 1 1 12 0; Start 1; Enter 2 1 4; RDraw 2 1 8 4; Waiting 4 [(2, XNum 12)];
                  Renege 2 1 12 0 0 4 8 12 false; Waiting 12 [];
                  Baulk 1 3 2 2 2 4503599627370495 1 true false 20 20 20;
                  Baulk 1 4 2 2 2 4503599627370496 0 false true 0 0 24]) = true.
Proof. vm_compute. reflexivity. Qed.
Example rej_late_renege : acc [Enter 2 1 4; RDraw 2 1 8 4; Renege 2 1 13 0 0 4 9 13 false] = Reject 2 133 [].
Proof. vm_compute. reflexivity. Qed.
Example rej_in_service : acc [Enter 2 1 4; RDraw 2 1 8 4; Start 2; Renege 2 1 12 0 0 4 8 12 false] = Reject 3 134 [].
Proof. vm_compute. reflexivity. Qed.
Example rej_overdue : acc [Enter 2 1 4; RDraw 2 1 8 4; Waiting 13 [(2, XNum 12)]] = Reject 2 137 [].
Proof. vm_compute. reflexivity. Qed.
Example rej_baulk_p1 : acc [Baulk 1 3 2 2 4 9007199254740991 0 false true 0 0 5] = Reject 0 139 [].
Proof. vm_compute. reflexivity. Qed.

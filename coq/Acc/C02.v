(* C02 -- causal, monotone time and record arithmetic.
   Slice per frame k: the clock now_k at which event k ran; every date scheduled
   in the snapshot after the event, recomputed by the observer from the raw
   attributes (arrival table, end dates of unblocked customers in service,
   reneging / class-change dates of waiting customers, shift and slot dates),
   each tagged with its kind; the data records written during the frame. *)
From Coq Require Import ZArith List Bool Lia.
From CiwV Require Import Sx Prelude Trace.
Import ListNotations.
Open Scope Z_scope.

(* a scheduled date: kind (1 arrival, 2 service end, 3 renege, 4 class change,
   5 shift/slot) and value; None = +infinity *)
Definition sdate := (Z * option Z)%type.

Record rec := mkRec {
  r_type : Z;  (* 0 service, 1 interrupted, 2 renege, 3 baulk, 4 rejection *)
  r_arr : xnum; r_wait : xnum; r_start : xnum; r_stime : xnum;
  r_end : xnum; r_blocked : xnum; r_exit : xnum
}.

Record frame := mkFrame { now : Z; dates : list sdate; recs : list rec }.

Definition decode_date (s : sx) : option sdate :=
  match s with
  | L [A k; A v] => Some (k, Some v)
  | L [A k; L [A 0]] => Some (k, None)
  | _ => None
  end.
Definition decode_rec (s : sx) : option rec :=
  match s with
  | L [A t; a; w; st; sv; e; b; x] =>
    do a' <- getX a; do w' <- getX w; do st' <- getX st; do sv' <- getX sv;
    do e' <- getX e; do b' <- getX b; do x' <- getX x;
    Some (mkRec t a' w' st' sv' e' b' x')
  | _ => None
  end.
Definition decode_frame (s : sx) : option frame :=
  match s with
  | L [A n; ds; rs] =>
    do dl <- getL ds; do ds' <- omap decode_date dl;
    do rl <- getL rs; do rs' <- omap decode_rec rl;
    Some (mkFrame n ds' rs')
  | _ => None
  end.

(* ---- record arithmetic (clause d) ---- *)
Definition rec_ok (t : Z) (r : rec) : bool :=
  if r_type r =? 0 then
    match r_arr r, r_wait r, r_start r, r_stime r, r_end r, r_blocked r, r_exit r with
    | XNum a, XNum w, XNum s, XNum sv, XNum e, XNum b, XNum x =>
      (a <=? s) && (s <=? e) && (e <=? x) && (x <=? t)
      && (w =? s - a) && (sv =? e - s) && (b =? x - e)
    | _, _, _, _, _, _, _ => false
    end
  else if r_type r =? 1 then
    match r_arr r, r_wait r, r_start r, r_exit r with
    | XNum a, XNum w, XNum s, XNum x => (a <=? s) && (s <=? x) && (x =? t) && (w =? s - a)
    | _, _, _, _ => false
    end
  else if r_type r =? 2 then
    match r_arr r, r_wait r, r_exit r with
    | XNum a, XNum w, XNum x => (a <=? x) && (x =? t) && (w =? x - a)
    | _, _, _ => false
    end
  else if (r_type r =? 3) || (r_type r =? 4) then
    match r_arr r, r_exit r with
    | XNum a, XNum x => (a =? t) && (x =? t)
    | _, _ => false
    end
  else false.

Definition rec_exit (r : rec) : option Z := match r_exit r with XNum x => Some x | _ => None end.

Lemma rec_ok_exit t r : rec_ok t r = true -> exists x, rec_exit r = Some x /\ x <= t.
Proof.
  unfold rec_ok, rec_exit. intros H.
  destruct (r_type r =? 0).
  { destruct (r_arr r), (r_wait r), (r_start r), (r_stime r), (r_end r), (r_blocked r), (r_exit r);
      try discriminate.
    repeat (apply andb_true_iff in H as [H ?]). eexists; split; [reflexivity|lia]. }
  destruct (r_type r =? 1).
  { destruct (r_arr r), (r_wait r), (r_start r), (r_exit r); try discriminate.
    repeat (apply andb_true_iff in H as [H ?]). eexists; split; [reflexivity|lia]. }
  destruct (r_type r =? 2).
  { destruct (r_arr r), (r_wait r), (r_exit r); try discriminate.
    repeat (apply andb_true_iff in H as [H ?]). eexists; split; [reflexivity|lia]. }
  destruct ((r_type r =? 3) || (r_type r =? 4)); [|discriminate].
  destruct (r_arr r), (r_exit r); try discriminate.
  apply andb_true_iff in H as [_ H]. eexists; split; [reflexivity|lia].
Qed.

(* ---- scheduled dates ---- *)
Definition date_ge (t : Z) (d : sdate) : bool :=
  match snd d with None => true | Some v => t <=? v end.

Fixpoint min_date (l : list sdate) : option Z :=
  match l with
  | [] => None
  | (_, None) :: r => min_date r
  | (_, Some v) :: r => match min_date r with None => Some v | Some m => Some (Z.min v m) end
  end.

Lemma min_date_ge t l : forallb (date_ge t) l = true ->
  match min_date l with None => True | Some m => t <= m end.
Proof.
  induction l as [|[k v] r IH]; [cbn; auto|].
  cbn [forallb]. intros H. apply andb_true_iff in H as [H1 H2]. specialize (IH H2).
  destruct v as [v|]; cbn [min_date].
  - unfold date_ge in H1; cbn in H1. destruct (min_date r); lia.
  - exact IH.
Qed.

Fixpoint first_bad_date (t : Z) (l : list sdate) : option sdate :=
  match l with
  | [] => None
  | d :: r => if date_ge t d then first_bad_date t r else Some d
  end.
Lemma first_bad_none t l : first_bad_date t l = None -> forallb (date_ge t) l = true.
Proof. induction l as [|d r IH]; cbn; auto. destruct (date_ge t d); [auto|discriminate]. Qed.

Fixpoint first_bad_rec (t : Z) (l : list rec) : option rec :=
  match l with
  | [] => None
  | r :: q => if rec_ok t r then first_bad_rec t q else Some r
  end.
Lemma first_bad_rec_none t l : first_bad_rec t l = None -> forallb (rec_ok t) l = true.
Proof. induction l as [|d r IH]; cbn; auto. destruct (rec_ok t d); [auto|discriminate]. Qed.

(* local check of frame f after frame p:
   clause 1 (b): f ran at the minimum of the dates scheduled in p
   clause 2 (c): nothing scheduled in f lies before its clock
   clause 3 (d): every record written in f is arithmetically consistent *)
Definition state_chk (f : frame) : option (Z * list Z) :=
  match first_bad_date (now f) (dates f) with
  | Some (k, v) => Some (2, [k; match v with Some x => x | None => -1 end; now f])
  | None =>
    match first_bad_rec (now f) (recs f) with
    | Some r => Some (3, [r_type r; now f])
    | None => None
    end
  end.

Definition chk (k : Z) (p f : frame) : option (Z * list Z) :=
  match min_date (dates p) with
  | None => Some (1, [now f; -1])
  | Some m =>
    if negb (now f =? m) then Some (1, [now f; m])
    else state_chk f
  end.

Definition acc (tr : list frame) : verdict :=
  match tr with
  | [] => BadInput 1
  | f0 :: r =>
    match state_chk f0 with
    | Some (c, info) => Reject 0 c info
    | None =>
      match scan chk 1 f0 r with
      | Some (k, c, info) => Reject k c info
      | None => Accept [zlen tr; now (last tr f0); zsum (map (fun f => zlen (recs f)) tr)]
      end
    end
  end.

Definition run (s : sx) : verdict :=
  match (do l <- getL s; omap decode_frame l) with
  | Some tr => acc tr
  | None => BadInput 0
  end.

(* ---- the property ---- *)
Definition frame_ok (f : frame) : Prop :=
  (forall d, In d (dates f) -> date_ge (now f) d = true) /\
  (forall r, In r (recs f) -> rec_ok (now f) r = true).

Definition P_C02 (tr : list frame) : Prop :=
  (* (a) the clock never goes back *)
  (forall i j a b, (i <= j)%nat -> nth_error tr i = Some a -> nth_error tr j = Some b -> now a <= now b) /\
  (* (b) each event runs exactly at the earliest scheduled date *)
  (forall i a b, nth_error tr i = Some a -> nth_error tr (S i) = Some b -> min_date (dates a) = Some (now b)) /\
  (* (c),(d) nothing is scheduled in the past; records are consistent at writing *)
  (forall f, In f tr -> frame_ok f) /\
  (* every record ever written ends no later than any later clock value *)
  (forall i j a b r x, (i <= j)%nat -> nth_error tr i = Some a -> nth_error tr j = Some b ->
     In r (recs a) -> rec_exit r = Some x -> x <= now b).

Lemma state_chk_ok f : state_chk f = None -> frame_ok f.
Proof.
  unfold state_chk. destruct (first_bad_date (now f) (dates f)) as [[k v]|] eqn:E1; [discriminate|].
  destruct (first_bad_rec (now f) (recs f)) eqn:E2; [discriminate|]. intros _.
  apply first_bad_none in E1. apply first_bad_rec_none in E2.
  rewrite forallb_forall in E1, E2. split; auto.
Qed.

Lemma chk_inv k p f : chk k p f = None ->
  min_date (dates p) = Some (now f) /\ state_chk f = None.
Proof.
  unfold chk. destruct (min_date (dates p)) as [m|]; [|discriminate].
  destruct (now f =? m) eqn:E; cbn; [|discriminate].
  apply Z.eqb_eq in E. subst. auto.
Qed.

Theorem C02_sound : forall tr st, acc tr = Accept st -> P_C02 tr.
Proof.
  intros [|f0 r] st H; [discriminate|]. cbn [acc] in H.
  destruct (state_chk f0) as [[c i]|] eqn:E0; [discriminate|].
  destruct (scan chk 1 f0 r) as [[[k c] info]|] eqn:Es; [discriminate|].
  apply scan_none_chain in Es.
  assert (Hall : Forall (fun f => state_chk f = None) r).
  { eapply chain_invariant with (I := fun f => state_chk f = None); [|exact Es|exact E0].
    intros k p f Hc _. apply chk_inv in Hc. tauto. }
  assert (Hok : forall f, In f (f0 :: r) -> frame_ok f).
  { intros f [<-|Hin]; apply state_chk_ok; [exact E0|]. rewrite Forall_forall in Hall; auto. }
  assert (Hstep : forall k p f, chk k p f = None -> state_chk p = None -> now p <= now f).
  { intros k p f Hc Hp. apply chk_inv in Hc as [Hm _]. apply state_chk_ok in Hp as [Hd _].
    assert (Hfa : forallb (date_ge (now p)) (dates p) = true) by (apply forallb_forall; exact Hd).
    apply min_date_ge in Hfa. rewrite Hm in Hfa. exact Hfa. }
  assert (Hmono : forall i j, (i <= j)%nat -> forall a b,
             nth_error (f0 :: r) i = Some a -> nth_error (f0 :: r) j = Some b -> now a <= now b).
  { eapply chain_rel_inv with (chk := chk) (I := fun f => state_chk f = None)
      (R := fun a b => now a <= now b); [| | | |exact Es|exact E0].
    - intros; lia.
    - intros; lia.
    - intros k p f Hc _. apply chk_inv in Hc. tauto.
    - exact Hstep. }
  split; [|split; [|split]].
  - intros i j a b Hij Ha Hb. eapply Hmono; eauto.
  - intros i a b Ha Hb.
    destruct (chain_consecutive chk _ _ _ Es i a b Ha Hb) as [k' Hc].
    apply chk_inv in Hc. tauto.
  - exact Hok.
  - intros i j a b rr x Hij Ha Hb Hr Hx.
    assert (Hina : In a (f0 :: r)) by (eapply nth_error_In; eauto).
    destruct (Hok a Hina) as [_ Hrec].
    destruct (rec_ok_exit _ _ (Hrec rr Hr)) as (x' & Ex & Hle).
    assert (x' = x) by congruence. subst x'.
    specialize (Hmono i j Hij a b Ha Hb). lia.
Qed.

Example acc_example :
  is_accept (acc [ mkFrame 0 [(1, Some 4); (5, None)] [];
                   mkFrame 4 [(1, Some 8); (2, Some 6)] [];
                   mkFrame 6 [(1, Some 8)]
                     [mkRec 0 (XNum 4) (XNum 0) (XNum 4) (XNum 2) (XNum 6) (XNum 0) (XNum 6)] ]) = true.
Proof. vm_compute. reflexivity. Qed.
Example rej_backwards :
  acc [ mkFrame 5 [(2, Some 4)] []; mkFrame 4 [] [] ] = Reject 0 2 [2; 4; 5].
Proof. vm_compute. reflexivity. Qed.

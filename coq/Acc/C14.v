(* C14 -- runs end normally and stop exactly at the requested horizon or count.
   One "call" per simulate_until_* invocation: its kind and parameter, the executed events (date, TRUE count before, TRUE
   count after -- recomputed by the observer from customer creations / admissions / arrivals at the exit, not read from
   the engine's counters), whether it returned without exception, the minimum of all dates still scheduled after the
   return (recomputed from raw attributes) and whether the customers in the nodes were left in place by the return. *)
From Coq Require Import ZArith List Bool Lia.
From CiwV Require Import Sx Prelude.
Import ListNotations.
Open Scope Z_scope.

Record call := mkCall {
  kind : Z;                        (* 0: simulate_until_max_time T; 1: simulate_until_max_customers n *)
  param : Z;
  cnt0 : Z;                        (* true count when the call begins *)
  frames : list (Z * Z * Z);       (* date, count before, count after *)
  returned : bool;
  pending : xnum;                  (* earliest date still scheduled after the return *)
  in_place : bool
}.

Definition decode_f (s : sx) : option (Z * Z * Z) := match s with L [A a; A b; A c] => Some (a, b, c) | _ => None end.
Definition decode_call (s : sx) : option call :=
  match s with
  | L [A k; A p; A c0; fs; r; pd; ip] =>
    do fl <- getL fs; do fs' <- omap decode_f fl; do r' <- getBool r; do pd' <- getX pd; do ip' <- getBool ip;
    Some (mkCall k p c0 fs' r' pd' ip')
  | _ => None
  end.

Fixpoint counts_chain (c : Z) (fs : list (Z * Z * Z)) : bool :=
  match fs with
  | [] => true
  | (_, b, a) :: r => (b =? c) && counts_chain a r
  end.
Definition final_count (c : call) : Z := match rev (frames c) with [] => cnt0 c | (_, _, a) :: _ => a end.

Definition call_clause (c : call) : option Z :=
  if negb (returned c) then Some 180                                            (* internal error / did not return *)
  else if negb (in_place c) then Some 185                                       (* the return disturbed the customers in the nodes *)
  else if kind c =? 0 then
    if negb (forallb (fun f => fst (fst f) <? param c) (frames c)) then Some 181   (* executed an event scheduled at or after T *)
    else if negb (match pending c with XInf => true | XNum d => param c <=? d | _ => false end) then Some 182  (* left an event before T unexecuted *)
    else None
  else
    if negb (counts_chain (cnt0 c) (frames c)) then Some 186
    else if negb (forallb (fun f => snd (fst f) <? param c) (frames c)) then Some 183   (* kept running although the count had reached n *)
    else if negb (param c <=? final_count c) then Some 184                              (* stopped before the count reached n *)
    else None.

Fixpoint scan_calls (k : Z) (l : list call) : option (Z * Z) :=
  match l with
  | [] => None
  | c :: r => match call_clause c with Some x => Some (k, x) | None => scan_calls (k + 1) r end
  end.

Definition acc (l : list call) : verdict :=
  match scan_calls 0 l with
  | Some (k, c) => Reject k c []
  | None => Accept [zlen l]
  end.
Definition run (s : sx) : verdict :=
  match (do l <- getL s; omap decode_call l) with Some l => acc l | None => BadInput 0 end.

Definition P_call (c : call) : Prop :=
  returned c = true /\ in_place c = true /\
  (kind c = 0 ->
     (forall d b a, In (d, b, a) (frames c) -> d < param c) /\
     (pending c = XInf \/ exists d, pending c = XNum d /\ param c <= d)) /\
  (kind c <> 0 ->
     (forall d b a, In (d, b, a) (frames c) -> b < param c) /\ param c <= final_count c).

Lemma call_clause_ok c : call_clause c = None -> P_call c.
Proof.
  unfold call_clause, P_call. intros H.
  destruct (returned c); cbn in H; [|discriminate]. destruct (in_place c); cbn in H; [|discriminate].
  split; [reflexivity|]. split; [reflexivity|].
  destruct (kind c =? 0) eqn:Ek.
  - apply Z.eqb_eq in Ek. split; [|intros; congruence]. intros _.
    destruct (forallb _ (frames c)) eqn:Ef; cbn in H; [|discriminate].
    split.
    + intros d b a Hin. rewrite forallb_forall in Ef. specialize (Ef _ Hin). cbn in Ef. apply Z.ltb_lt. exact Ef.
    + destruct (pending c) as [d| | | |]; cbn in H; try discriminate; [|left; reflexivity].
      right. exists d. split; [reflexivity|]. destruct (param c <=? d) eqn:E; [apply Z.leb_le; exact E|discriminate].
  - apply Z.eqb_neq in Ek. split; [intros; congruence|]. intros _.
    destruct (counts_chain (cnt0 c) (frames c)); cbn in H; [|discriminate].
    destruct (forallb _ (frames c)) eqn:Ef; cbn in H; [|discriminate].
    destruct (param c <=? final_count c) eqn:El; cbn in H; [|discriminate].
    split; [|apply Z.leb_le; exact El].
    intros d b a Hin. rewrite forallb_forall in Ef. specialize (Ef _ Hin). cbn in Ef. apply Z.ltb_lt. exact Ef.
Qed.

Theorem C14_sound : forall l stt, acc l = Accept stt -> forall c, In c l -> P_call c.
Proof.
  intros l stt H. unfold acc in H. destruct (scan_calls 0 l) as [[k x]|] eqn:Es; [discriminate|]. clear H.
  revert Es. generalize 0. induction l as [|c0 r IH]; intros k Es c Hin; [destruct Hin|].
  cbn [scan_calls] in Es. destruct (call_clause c0) eqn:Ec; [discriminate|].
  destruct Hin as [<-|Hin]; [apply call_clause_ok; exact Ec|eapply IH; eauto].
Qed.

Example acc_example :
  is_accept (acc [mkCall 0 10 0 [(3,0,0);(6,0,1);(9,1,1)] true (XNum 12) true; mkCall 1 2 1 [(12,1,2)] true XInf true]) = true.
Proof. vm_compute. reflexivity. Qed.
Example rej_overrun : acc [mkCall 0 10 0 [(3,0,0);(10,0,1)] true (XNum 12) true] = Reject 0 181 [].
Proof. vm_compute. reflexivity. Qed.
Example rej_early_stop : acc [mkCall 1 3 0 [(3,0,1);(6,1,2)] true (XNum 12) true] = Reject 0 184 [].
Proof. vm_compute. reflexivity. Qed.

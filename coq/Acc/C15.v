(* C15 -- reproducibility and isolation.  The acceptor receives the REFERENCE outcome (records, final clock, tracker
   history as integer trees, produced by seed; build; run in a fresh interpreter) and a list of outcomes obtained in a
   process with a history: kind 1 = seed; build a fresh network; run -- after arbitrary earlier simulations;
   kind 2 = seed; build from a Network object that earlier simulations were built from; run;
   kind 3 = one of several simulations built from one Network and advanced in turns (no random draws involved).
   Every outcome must be identical to the reference.  Strict mode also requires that no stateful member of a simulation
   is the very object held by its Network or by another simulation (the sharing Sub/Process.v assumes: copy_reproducible). *)
From Coq Require Import ZArith List Bool Lia.
From CiwV Require Import Sx Prelude Acc.C16.
Import ListNotations.
Open Scope Z_scope.

Definition decode_t (s : sx) : option (Z * sx) := match s with L [A k; o] => Some (k, o) | _ => None end.

Fixpoint scan (i : Z) (ref : sx) (l : list (Z * sx)) : option (Z * Z) :=
  match l with
  | [] => None
  | (k, o) :: r => if sx_eqb ref o then scan (i + 1) ref r else Some (i, 219 + k)
  end.

Definition acc (strict : bool) (ref : sx) (l : list (Z * sx)) (shared : Z) : verdict :=
  match scan 0 ref l with
  | Some (i, c) => Reject i c []
  | None => if strict && negb (shared =? 0) then Reject 0 223 [shared] else Accept [zlen l]
  end.

Definition run (s : sx) : verdict :=
  match s with
  | L [A mode; ref; t; A sh] =>
    match (do l <- getL t; omap decode_t l) with
    | Some l => acc (mode =? 0) ref l sh
    | None => BadInput 0
    end
  | _ => BadInput 0
  end.

Theorem C15_sound : forall strict ref l sh stt, acc strict ref l sh = Accept stt ->
  (forall k o, In (k, o) l -> o = ref) /\ (strict = true -> sh = 0).
Proof.
  intros strict ref l sh stt H. unfold acc in H.
  destruct (scan 0 ref l) as [[i c]|] eqn:Es; [discriminate|]. split.
  - clear H. revert Es. generalize 0. induction l as [|[k0 o0] r IH]; intros i Es k o Hin; [destruct Hin|].
    cbn [scan] in Es. destruct (sx_eqb ref o0) eqn:E; [|discriminate].
    destruct Hin as [Hin|Hin]; [injection Hin as <- <-; symmetry; apply sx_eqb_eq; exact E|eapply IH; eauto].
  - intros ->. cbn in H. destruct (sh =? 0) eqn:E; [apply Z.eqb_eq; exact E|discriminate].
Qed.

Example acc_example : is_accept (acc true (L [A 1; A 2]) [(1, L [A 1; A 2]); (2, L [A 1; A 2])] 0) = true.
Proof. reflexivity. Qed.
Example rej_example : acc true (L [A 1; A 2]) [(1, L [A 1; A 2]); (2, L [A 1; A 3])] 0 = Reject 1 221 [].
Proof. reflexivity. Qed.

(* C17 -- state trackers equal the true configuration; the history lists each state change once.
   The acceptor receives, per frame (= one executed event followed by timestamp()):
     the event time, the tracker's hash_state(), RAW configuration facts (per node the customers in
     queue order with class, blocked flag and destination), the Block/Unblock C-events of the frame
     (they maintain the ghost global blocking order MatrixBlocking's numbers refer to), and the
     entries timestamp() appended to the history after the frame.
   It recomputes the true state with Tracker.true_state and checks the history discipline. *)
From Coq Require Import ZArith List Bool Lia Permutation.
From CiwV Require Import Sx Prelude Tracker.
Import ListNotations.
Open Scope Z_scope.

Record frame := mkF {
  f_now : Z;                          (* time of the event (ticks) *)
  f_st : tstate;                      (* hash_state() after the event *)
  f_raw : raw;                        (* raw configuration after the event *)
  f_evs : list bev;                   (* Block / Unblock events inside the frame, in order *)
  f_hist : list (Z * tstate)          (* history entries appended after the frame *)
}.

(* ---- decoding ---- *)
Definition getZsss (s : sx) : option (list (list (list Z))) := do l <- getL s; omap getZss l.

Definition decode_kind (s : sx) : option kind :=
  match s with
  | L [A 1; _] => Some KSys
  | L [A 2; _] => Some KNode
  | L [A 3; o] => do o' <- getZs o; Some (KSubset o')
  | L [A 4; g] => do g' <- getZss g; Some (KGroup g')
  | L [A 5; A k] => Some (KClass (Z.to_nat k))
  | L [A 6; _] => Some KNaive
  | L [A 7; _] => Some KMatrix
  | _ => None
  end.

Definition decode_state (k : kind) (s : sx) : option tstate :=
  match k with
  | KSys => do z <- getZ s; Some (TSys z)
  | KNode | KSubset _ | KGroup _ => do v <- getZs s; Some (TVec v)
  | KClass _ | KNaive => do m <- getZss s; Some (TMat m)
  | KMatrix => match s with L [m; v] => do m' <- getZsss m; do v' <- getZs v; Some (TBlk m' v') | _ => None end
  end.

Definition decode_cust (s : sx) : option cust :=
  match s with
  | L [A i; A c; A p; b; A d] => do b' <- getBool b; Some (mkC i c p b' d)
  | _ => None
  end.
Definition decode_raw (s : sx) : option raw :=
  do l <- getL s; omap (fun q => do ql <- getL q; omap decode_cust ql) l.
Definition decode_bev (s : sx) : option bev :=
  match s with L [A 1; A x] => Some (Blk x) | L [A 2; A x] => Some (Unb x) | _ => None end.
Definition decode_entry (k : kind) (s : sx) : option (Z * tstate) :=
  match s with L [A t; st] => do st' <- decode_state k st; Some (t, st') | _ => None end.
Definition decode_hist (k : kind) (s : sx) : option (list (Z * tstate)) :=
  do l <- getL s; omap (decode_entry k) l.
Definition decode_frame (k : kind) (s : sx) : option frame :=
  match s with
  | L [A t; st; r; e; h] =>
    do st' <- decode_state k st; do r' <- decode_raw r; do e' <- (do l <- getL e; omap decode_bev l);
    do h' <- decode_hist k h; Some (mkF t st' r' e' h')
  | _ => None
  end.

(* ---- the acceptor ---- *)
Definition is_matrix (k : kind) : bool := match k with KMatrix => true | _ => false end.

Definition hist_eqb (a b : list (Z * tstate)) : bool :=
  leqb (fun x y => (fst x =? fst y) && tstate_eqb (snd x) (snd y)) a b.
Lemma hist_eqb_eq a b : hist_eqb a b = true <-> a = b.
Proof.
  apply leqb_eq. intros [t s] [t' s']; cbn. rewrite andb_true_iff, Z.eqb_eq, tstate_eqb_eq.
  split; [intros [-> ->]; reflexivity|]. intros H; injection H; auto.
Qed.

(* one frame: g = ghost order before, last = state of the last history entry, tnow = previous time *)
Definition step (k : kind) (g : list Z) (last : tstate) (tnow : Z) (f : frame) : list Z + Z :=
  let g' := ghost_run g (f_evs f) in
  if negb (tnow <=? f_now f) then inr 170
  else if is_matrix k && negb (ghost_ok (f_raw f) g') then inr 171
  else if negb (tstate_eqb (f_st f) (true_state k (f_raw f) g')) then inr 172
  else if tstate_eqb (f_st f) last then
    (if negb (hist_eqb (f_hist f) []) then inr 174 else inl g')
  else
    (if negb (hist_eqb (f_hist f) [(f_now f, f_st f)]) then inr 173 else inl g').

Fixpoint run_frames (k : kind) (g : list Z) (last : tstate) (tnow : Z) (i : Z) (fs : list frame) : option (Z * Z) :=
  match fs with
  | [] => None
  | f :: r =>
    match step k g last tnow f with
    | inl g' => run_frames k g' (f_st f) (f_now f) (i + 1) r
    | inr c => Some (i, c)
    end
  end.

Definition history_of (init : frame) (fs : list frame) : list (Z * tstate) :=
  f_hist init ++ concat (map f_hist fs).

Definition params_ok (k : kind) : bool :=
  match k with
  | KSubset o => strictly_incr (isort o)
  | KGroup gs => strictly_incr (isort (concat gs))
  | _ => true
  end.

Definition acc (k : kind) (init : frame) (fs : list frame) (fin : option (list (Z * tstate))) : verdict :=
  if negb (params_ok k) then BadInput 2
  else if negb (tstate_eqb (f_st init) (true_state k (f_raw init) [])) then Reject 0 176 []
  else if negb (hist_eqb (f_hist init) [(0, f_st init)]) then Reject 0 175 []
  else
    match run_frames k [] (f_st init) 0 1 fs with
    | Some (i, c) => Reject i c []
    | None =>
      match fin with
      | Some h => if hist_eqb h (history_of init fs) then Accept [zlen fs; zlen (history_of init fs)]
                  else Reject (zlen fs) 177 []
      | None => Accept [zlen fs; zlen (history_of init fs)]
      end
    end.

(* the harness also says whether the run ended with an exception raised inside state_tracker.py: the frames
   completed before it are checked as usual, then the run is rejected *)
Definition with_exc (exc : Z) (n : Z) (v : verdict) : verdict :=
  match v with Accept _ => if exc =? 0 then v else Reject (n + 1) 178 [] | _ => v end.

Definition run (s : sx) : verdict :=
  match s with
  | L [kd; i; fr; fin; A exc] =>
    match decode_kind kd with
    | None => BadInput 0
    | Some k =>
      match decode_frame k i, (do l <- getL fr; omap (decode_frame k) l) with
      | Some init, Some fs =>
        match fin with
        | L [] => with_exc exc (zlen fs) (acc k init fs None)
        | L [h] => match decode_hist k h with Some h' => with_exc exc (zlen fs) (acc k init fs (Some h')) | None => BadInput 3 end
        | _ => BadInput 3
        end
      | _, _ => BadInput 1
      end
    end
  | _ => BadInput 0
  end.

(* ---- T1 ---- *)
(* ghost order after the first frames of a run (the initial network is empty) *)
Definition ghost_from (g : list Z) (fs : list frame) : list Z := fold_left (fun g f => ghost_run g (f_evs f)) fs g.
Definition ghost_after (fs : list frame) : list Z := ghost_from [] fs.

Definition obs (f : frame) : Z * tstate := (f_now f, f_st f).

Lemma step_inl k g last tnow f g' : step k g last tnow f = inl g' ->
  g' = ghost_run g (f_evs f) /\ tnow <= f_now f /\
  f_st f = true_state k (f_raw f) g' /\
  (is_matrix k = true -> NoDup g' /\ Permutation g' (blocked_ids (f_raw f))) /\
  f_hist f = changes last [obs f].
Proof.
  unfold step. intros H.
  destruct (tnow <=? f_now f) eqn:E1; cbn [negb] in H; [|discriminate]. apply Z.leb_le in E1.
  destruct (is_matrix k && negb (ghost_ok (f_raw f) (ghost_run g (f_evs f)))) eqn:E2; [discriminate|].
  destruct (tstate_eqb (f_st f) (true_state k (f_raw f) (ghost_run g (f_evs f)))) eqn:E3; cbn [negb] in H; [|discriminate].
  apply tstate_eqb_eq in E3.
  assert (Hg : is_matrix k = true -> NoDup (ghost_run g (f_evs f)) /\ Permutation (ghost_run g (f_evs f)) (blocked_ids (f_raw f))).
  { intros Hm. rewrite Hm in E2. cbn in E2. apply negb_false_iff in E2. apply ghost_ok_spec. exact E2. }
  unfold obs. cbn [changes].
  destruct (tstate_eqb (f_st f) last) eqn:E4.
  - destruct (hist_eqb (f_hist f) []) eqn:E5; cbn [negb] in H; [|discriminate].
    apply hist_eqb_eq in E5. injection H as <-. repeat split; try tauto; assumption.
  - destruct (hist_eqb (f_hist f) [(f_now f, f_st f)]) eqn:E5; cbn [negb] in H; [|discriminate].
    apply hist_eqb_eq in E5. injection H as <-. repeat split; try tauto; assumption.
Qed.

Lemma changes_cons {T} (t : T) s prev r : changes prev ((t, s) :: r) = changes prev [(t, s)] ++ changes s r.
Proof. cbn. destruct (tstate_eqb s prev); reflexivity. Qed.

Lemma run_frames_ok k : forall fs g last tnow i, run_frames k g last tnow i fs = None ->
  (forall j f, nth_error fs j = Some f ->
     f_st f = true_state k (f_raw f) (ghost_from g (firstn (S j) fs)) /\
     (is_matrix k = true -> NoDup (ghost_from g (firstn (S j) fs)) /\
                            Permutation (ghost_from g (firstn (S j) fs)) (blocked_ids (f_raw f)))) /\
  sorted_from tnow (map f_now fs) /\
  concat (map f_hist fs) = changes last (map obs fs).
Proof.
  induction fs as [|f r IH]; intros g last tnow i H.
  - split; [intros [|j] f Hn; discriminate|]. split; [exact I|reflexivity].
  - cbn [run_frames] in H. destruct (step k g last tnow f) as [g'|c] eqn:Es; [|discriminate].
    apply step_inl in Es as [Eg [Et [Est [Hm Eh]]]].
    specialize (IH _ _ _ _ H) as [I1 [I2 I3]]. split; [|split].
    + intros [|j] f0 Hn.
      * cbn in Hn. injection Hn as <-. cbn [firstn ghost_from fold_left]. rewrite <- Eg. split; assumption.
      * cbn in Hn. specialize (I1 j f0 Hn).
        change (ghost_from g (firstn (S (S j)) (f :: r))) with (ghost_from (ghost_run g (f_evs f)) (firstn (S j) r)).
        rewrite <- Eg. exact I1.
    + cbn. split; assumption.
    + cbn [map concat]. unfold obs at 1. rewrite changes_cons. fold (obs f). rewrite <- Eh, I3. reflexivity.
Qed.

(* C17_sound: in an accepted trace, of any length,
   (a) the tracked state equals the true state of the raw configuration after every frame
       (for MatrixBlocking relative to the ghost blocking order, which lists exactly the blocked
       customers, each once);
   (b) hence every count in every tracked state is >= 0;
   (c) the history is  (0, initial state) :: the frames whose state differs from the frame before,
       each with its own event time -- every state change exactly once, nothing else;
   (d) consecutive entries differ, timestamps are non-decreasing from 0, and the state recorded
       last is the current state. *)
Theorem C17_sound : forall k init fs fin st, acc k init fs fin = Accept st ->
  (f_st init = true_state k (f_raw init) [] /\
   forall j f, nth_error fs j = Some f ->
     f_st f = true_state k (f_raw f) (ghost_after (firstn (S j) fs)) /\
     (k = KMatrix -> NoDup (ghost_after (firstn (S j) fs)) /\
                     Permutation (ghost_after (firstn (S j) fs)) (blocked_ids (f_raw f)))) /\
  (forall f, In f (init :: fs) -> Forall (fun z => 0 <= z) (ts_atoms (f_st f))) /\
  history_of init fs = (0, f_st init) :: changes (f_st init) (map obs fs) /\
  (adj_differ (f_st init) (changes (f_st init) (map obs fs)) /\
   sorted_from 0 (map fst (history_of init fs)) /\
   last_state (f_st init) (changes (f_st init) (map obs fs)) = last_state (f_st init) (map obs fs)) /\
  (forall h, fin = Some h -> h = history_of init fs).
Proof.
  intros k init fs fin st H. unfold acc in H.
  destruct (params_ok k); cbn [negb] in H; [|discriminate].
  destruct (tstate_eqb (f_st init) (true_state k (f_raw init) [])) eqn:E0; cbn [negb] in H; [|discriminate].
  apply tstate_eqb_eq in E0.
  destruct (hist_eqb (f_hist init) [(0, f_st init)]) eqn:E1; cbn [negb] in H; [|discriminate].
  apply hist_eqb_eq in E1.
  destruct (run_frames k [] (f_st init) 0 1 fs) as [[i c]|] eqn:Er; [discriminate|].
  apply run_frames_ok in Er as [R1 [R2 R3]].
  assert (Hst : forall j f, nth_error fs j = Some f -> f_st f = true_state k (f_raw f) (ghost_after (firstn (S j) fs))).
  { intros j f Hn. apply (R1 j f Hn). }
  assert (Hh : history_of init fs = (0, f_st init) :: changes (f_st init) (map obs fs)).
  { unfold history_of. rewrite E1, R3. reflexivity. }
  split; [|split; [|split; [|split]]].
  - split; [exact E0|]. intros j f Hn. split; [apply Hst; exact Hn|].
    intros ->. apply (R1 j f Hn). reflexivity.
  - intros f [<-|Hin].
    + rewrite E0. apply true_state_nonneg.
    + apply In_nth_error in Hin as [j Hn]. rewrite (Hst j f Hn). apply true_state_nonneg.
  - exact Hh.
  - split; [apply changes_adj_differ|]. split; [|apply changes_last_state].
    rewrite Hh. cbn [map fst sorted_from]. split; [lia|].
    apply changes_sorted. replace (map fst (map obs fs)) with (map f_now fs); [exact R2|].
    rewrite map_map. reflexivity.
  - intros h ->. destruct (hist_eqb h (history_of init fs)) eqn:E; [|discriminate].
    apply hist_eqb_eq in E. exact E.
Qed.

(* ---- examples: the acceptor accepts a correct run and rejects corrupted ones ---- *)
Definition c (i cls : Z) (b : bool) (d : Z) : cust := mkC i cls cls b d.
Definition ex_init (k : kind) (s0 : tstate) : frame := mkF 0 s0 [[]; []] [] [(0, s0)].

(* NaiveBlocking on two nodes: customer 1 arrives at node 1, customer 2 arrives, customer 1 is blocked
   towards node 2, then moves on *)
Definition ex_naive : list frame :=
  [ mkF 2 (TMat [[1; 0]; [0; 0]]) [[c 1 0 false 0]; []] [] [(2, TMat [[1; 0]; [0; 0]])];
    mkF 3 (TMat [[1; 0]; [1; 0]]) [[c 1 0 false 0]; [c 2 0 false 0]] [] [(3, TMat [[1; 0]; [1; 0]])];
    mkF 5 (TMat [[0; 1]; [1; 0]]) [[c 1 0 true 2]; [c 2 0 false 0]] [Blk 1] [(5, TMat [[0; 1]; [1; 0]])];
    mkF 5 (TMat [[0; 1]; [1; 0]]) [[c 1 0 true 2]; [c 2 0 false 0]] [] [];
    mkF 7 (TMat [[0; 0]; [1; 0]]) [[]; [c 1 0 false 0]] [Unb 1] [(7, TMat [[0; 0]; [1; 0]])] ].
Example acc_naive : is_accept (acc KNaive (ex_init KNaive (TMat [[0; 0]; [0; 0]])) ex_naive None) = true.
Proof. vm_compute. reflexivity. Qed.

(* MatrixBlocking: customers 5 and 3 become blocked in that order (1 -> 2 and 2 -> 1); when 5 leaves, 3 becomes number 1 *)
Definition ex_matrix : list frame :=
  [ mkF 1 (TBlk [[[]; []]; [[]; []]] [1; 1]) [[c 5 0 false 0]; [c 3 0 false 0]] [] [(1, TBlk [[[]; []]; [[]; []]] [1; 1])];
    mkF 2 (TBlk [[[]; [1]]; [[]; []]] [1; 1]) [[c 5 0 true 2]; [c 3 0 false 0]] [Blk 5] [(2, TBlk [[[]; [1]]; [[]; []]] [1; 1])];
    mkF 4 (TBlk [[[]; [1]]; [[2]; []]] [1; 1]) [[c 5 0 true 2]; [c 3 0 true 1]] [Blk 3] [(4, TBlk [[[]; [1]]; [[2]; []]] [1; 1])];
    mkF 6 (TBlk [[[]; []]; [[1]; []]] [0; 1]) [[]; [c 3 0 true 1]] [Unb 5] [(6, TBlk [[[]; []]; [[1]; []]] [0; 1])] ].
Example acc_matrix : is_accept (acc KMatrix (ex_init KMatrix (TBlk [[[]; []]; [[]; []]] [0; 0])) ex_matrix None) = true.
Proof. vm_compute. reflexivity. Qed.

(* a tracker that forgets to renumber after an unblocking is rejected at that frame *)
Example rej_matrix_stale_rank :
  acc KMatrix (ex_init KMatrix (TBlk [[[]; []]; [[]; []]] [0; 0]))
    (firstn 3 ex_matrix ++ [mkF 6 (TBlk [[[]; []]; [[2]; []]] [0; 1]) [[]; [c 3 0 true 1]] [Unb 5] [(6, TBlk [[[]; []]; [[2]; []]] [0; 1])]]) None
  = Reject 4 172 [].
Proof. vm_compute. reflexivity. Qed.
(* a missing / duplicated history entry is rejected *)
Example rej_history_missing :
  acc KNaive (ex_init KNaive (TMat [[0; 0]; [0; 0]]))
    [mkF 2 (TMat [[1; 0]; [0; 0]]) [[c 1 0 false 0]; []] [] []] None = Reject 1 173 [].
Proof. vm_compute. reflexivity. Qed.
Example rej_history_duplicate :
  acc KNaive (ex_init KNaive (TMat [[0; 0]; [0; 0]]))
    [mkF 2 (TMat [[1; 0]; [0; 0]]) [[c 1 0 false 0]; []] [] [(2, TMat [[1; 0]; [0; 0]])];
     mkF 3 (TMat [[1; 0]; [0; 0]]) [[c 1 0 false 0]; []] [] [(3, TMat [[1; 0]; [0; 0]])]] None = Reject 2 174 [].
Proof. vm_compute. reflexivity. Qed.
(* NodeClassMatrix going negative (F-17a as it was before the fix) is rejected *)
Example rej_classmatrix_negative :
  acc (KClass 2) (ex_init (KClass 2) (TMat [[0; 0]; [0; 0]]))
    [mkF 2 (TMat [[1; 0]; [0; 0]]) [[c 1 0 false 0]; []] [] [(2, TMat [[1; 0]; [0; 0]])];
     mkF 4 (TMat [[1; -1]; [0; 1]]) [[]; [c 1 1 false 0]] [] [(4, TMat [[1; -1]; [0; 1]])]] None = Reject 2 172 [].
Proof. vm_compute. reflexivity. Qed.

(* ---- wire form of the state_probabilities model (dispatch_model case 170) ----
   input  L [history; start; end]: history = L [L [A num; A den; A state] ...], start = L [A num; A den],
          end = L [] for float("Inf") or L [A num; A den]
   output L [A 0; L [L [A state; A num; A den] ...]] (dictionary in insertion order) or
          L [A 1] IndexError, L [A 2] ValueError, L [A 3] ZeroDivisionError, L [A 9] undecodable input *)
From Coq Require Import QArith.
Definition getQ (n d : Z) : option Q := if (0 <? d)%Z then Some (n # Z.to_pos d)%Q else None.
Definition decode_hentry (s : sx) : option (Q * Z) :=
  match s with L [A n; A d; A st] => do q <- getQ n d; Some (q, st) | _ => None end.
Definition encQ (st : Z) (q : Q) : sx := L [A st; A (Qnum q); A (Zpos (Qden q))].
Definition sp_model (s : sx) : sx :=
  match s with
  | L [h; L [A an; A ad]; e] =>
    match (do l <- getL h; omap decode_hentry l), getQ an ad,
          (match e with L [] => Some None | L [A bn; A bd] => do q <- getQ bn bd; Some (Some q) | _ => None end) with
    | Some h', Some a, Some b =>
      match state_probabilities h' a b with
      | SpOk d => L [A 0; L (map (fun p => encQ (fst p) (snd p)) d)]
      | SpIndexError => L [A 1]
      | SpValueError => L [A 2]
      | SpZeroDivision => L [A 3]
      end
    | _, _, _ => L [A 9]
    end
  | _ => L [A 9]
  end.

(* C09 -- routing and class-change fidelity.  One event per routing / class-change decision of
   the run, carrying the routing specification of that decision as read from the CONFIGURATION
   (not from the engine's objects), the uniform draw consumed (numerator over 2^53, -1 = none),
   the true queue sizes at that instant where relevant, and the destination actually taken.
   Nodes are n > 0, the exit is 0.  Hard clauses are the property; soft clauses (only in strict
   mode) tie random_choice / JSQ to the Gallina model of Sub/Routing.v. *)
From Coq Require Import ZArith List Bool Lia Arith.
From CiwV Require Import Sx Prelude Replay Routing.
Import ListNotations.
Open Scope Z_scope.

Inductive ev :=
| Weighted (dests P : list Z) (U dest : Z)                 (* Probabilistic / TransitionMatrix row / class-change row, in eighths *)
| Determined (expected dest : Z)                           (* Direct, Leave, jockeying default *)
| Shortest (dests sizes : list Z) (tie U dest : Z) (counters : list Z)   (* JSQ / LB: tie 0 random, 1 order *)
| Cycle (key : Z) (cyc : list Z) (dest : Z)
| PB (before after : list Z) (dest : Z)
| FPB (rule : Z) (before after : list (list Z)) (dest : Z)
| Uniform (subset : list Z) (U dest : Z)                   (* random_choice without weights *)
| Prio (map : list Z) (l : list (Z * Z))                   (* (class, priority) of every customer after a frame *)
| SameClass (before after : Z).                            (* change_customer_class at a node without matrix *)

Definition decode_pair (s : sx) : option (Z * Z) := match s with L [A a; A b] => Some (a, b) | _ => None end.
Definition decode_ev (s : sx) : option ev :=
  match s with
  | L [A 1; d; p; A u; A x] => do d' <- getZs d; do p' <- getZs p; Some (Weighted d' p' u x)
  | L [A 2; A e; A x] => Some (Determined e x)
  | L [A 3; d; sz; A t; A u; A x; c] => do d' <- getZs d; do s' <- getZs sz; do c' <- getZs c; Some (Shortest d' s' t u x c')
  | L [A 4; A k; c; A x] => do c' <- getZs c; Some (Cycle k c' x)
  | L [A 5; b; a; A x] => do b' <- getZs b; do a' <- getZs a; Some (PB b' a' x)
  | L [A 6; A r; b; a; A x] => do b' <- getZss b; do a' <- getZss a; Some (FPB r b' a' x)
  | L [A 7; sb; A u; A x] => do s' <- getZs sb; Some (Uniform s' u x)
  | L [A 9; m; l] => do m' <- getZs m; do ll <- getL l; do l' <- omap decode_pair ll; Some (Prio m' l')
  | L [A 8; A b; A a] => Some (SameClass b a)
  | _ => None
  end.

Fixpoint index_of (x : Z) (l : list Z) (i : nat) : option nat :=
  match l with [] => None | y :: r => if y =? x then Some i else index_of x r (S i) end.
Definition nthZ (l : list Z) (k : nat) : Z := nth k l (-99).
Fixpoint remove1 (x : Z) (l : list Z) : list Z :=
  match l with [] => [] | y :: r => if y =? x then r else y :: remove1 x r end.
Fixpoint lists_eqb (a b : list (list Z)) : bool :=
  match a, b with [], [] => true | x :: r, y :: s => list_eqb x y && lists_eqb r s | _, _ => false end.

Definition den : Z := 8.

(* hard (property) clause of one event; k = number of earlier Cycle events with the same key *)
Definition hard (k : nat) (e : ev) : option Z :=
  match e with
  | Weighted dests P U dest =>
    match index_of dest dests 0 with
    | Some i => if 0 <? nthZ P i then None else Some 150        (* a transition of probability zero occurred *)
    | None => Some 150
    end
  | Determined ex dest => if ex =? dest then None else Some 152
  | Shortest dests sizes tie U dest _ =>
    if negb (Nat.eqb (length dests) (length sizes)) then Some 153 else
    match index_of dest dests 0 with
    | Some i => if negb (existsb (Nat.eqb i) (argmins sizes)) then Some 153    (* not a listed destination with minimal line / population *)
                else if (tie =? 1) && negb (match argmins sizes with j :: _ => Nat.eqb i j | [] => false end) then Some 153
                else None
    | None => Some 153
    end
  | Cycle _ cyc dest =>
    match cyc with [] => Some 156 | _ => if nthZ cyc (k mod length cyc) =? dest then None else Some 156 end
  | PB before after dest =>
    match before with
    | [] => if (dest =? 0) && list_eqb after [] then None else Some 157
    | h :: t => if (dest =? h) && list_eqb after t then None else Some 157
    end
  | FPB rule before after dest =>
    match before with
    | [] => if (dest =? 0) && lists_eqb after [] then None else Some 158
    | Sb :: t =>
      if negb (memZ dest Sb) then Some 158
      else if rule =? 0 then (if lists_eqb after t then None else Some 158)
      else match remove1 dest Sb with
           | [] => if lists_eqb after t then None else Some 158
           | S' => if lists_eqb after (S' :: t) then None else Some 158
           end
    end
  | Uniform subset U dest => if memZ dest subset then None else Some 158
  | Prio map l => if forallb (fun cp => nthZ map (Z.to_nat (fst cp)) =? snd cp) l then None else Some 159
  | SameClass b a => if b =? a then None else Some 160
  end.

(* soft (mechanism) clause: the destination is the one the Gallina model of random_choice / JSQ computes from the draw *)
Definition soft (e : ev) : option Z :=
  match e with
  | Weighted dests P U dest =>
    match rc_weighted den P (if U =? -1 then 0 else U) with
    | Some (i, drew) => if (nthZ dests i =? dest) && Bool.eqb drew (negb (U =? -1)) then None else Some 151
    | None => Some 151
    end
  | Shortest dests sizes tie U dest counters =>
    if negb (list_eqb counters sizes) then Some 155 else
    if tie =? 1 then None else
    let c := argmins sizes in
    if nthZ dests (nth (rc_uniform (length c) U) c 0%nat) =? dest then None else Some 154
  | Uniform subset U dest => if nthZ subset (rc_uniform (length subset) U) =? dest then None else Some 154
  | _ => None
  end.

Definition cnt (m : list (Z * nat)) (key : Z) : nat := aget 0%nat m key.
Definition key_of (e : ev) : option Z := match e with Cycle k _ _ => Some k | _ => None end.

Definition step (strict : bool) (m : list (Z * nat)) (e : ev) : list (Z * nat) + Z :=
  let k := match key_of e with Some key => cnt m key | None => 0%nat end in
  match hard k e with
  | Some c => inr c
  | None =>
    match (if strict then soft e else None) with
    | Some c => inr c
    | None => inl (match key_of e with Some key => aset m key (S (cnt m key)) | None => m end)
    end
  end.

Definition acc (strict : bool) (es : list ev) : verdict :=
  match replay (step strict) [] 0 es with
  | Some (i, c) => Reject i c []
  | None => Accept [zlen es]
  end.

Definition run (s : sx) : verdict :=
  match s with
  | L [A mode; l] =>
    match (do ll <- getL l; omap decode_ev ll) with
    | Some es => acc (mode =? 0) es
    | None => BadInput 0
    end
  | _ => BadInput 0
  end.

(* ---------------- the property ---------------- *)
Definition ncycles (key : Z) (es : list ev) : nat :=
  length (filter (fun e => match key_of e with Some k => k =? key | None => false end) es).

Definition ev_ok (k : nat) (e : ev) : Prop :=
  match e with
  | Weighted dests P U dest => exists i, index_of dest dests 0 = Some i /\ 0 < nthZ P i
  | Determined ex dest => dest = ex
  | Shortest dests sizes tie U dest _ =>
    exists i s, index_of dest dests 0 = Some i /\ nth_error sizes i = Some s /\ (forall x, In x sizes -> s <= x) /\
                (tie = 1 -> exists r, argmins sizes = i :: r)
  | Cycle _ cyc dest => cyc <> [] /\ dest = nthZ cyc (k mod length cyc)
  | PB before after dest => match before with [] => dest = 0 /\ after = [] | h :: t => dest = h /\ after = t end
  | FPB rule before after dest =>
    match before with
    | [] => dest = 0
    | Sb :: t => In dest Sb /\ (rule = 0 -> lists_eqb after t = true) /\
                (rule <> 0 -> lists_eqb after (match remove1 dest Sb with [] => t | S' => S' :: t end) = true)
    end
  | Uniform subset U dest => In dest subset
  | Prio map l => forall c p, In (c, p) l -> nthZ map (Z.to_nat c) = p
  | SameClass b a => a = b
  end.

Lemma hard_ok k e : hard k e = None -> ev_ok k e.
Proof.
  destruct e as [dests P U dest|ex dest|dests sizes tie U dest counters|key cyc dest|before after dest|rule before after dest|subset U dest|map l|b a];
    cbn [hard ev_ok]; intros H.
  - destruct (index_of dest dests 0) as [i|]; [|discriminate]. exists i. split; [reflexivity|].
    destruct (0 <? nthZ P i) eqn:E; [apply Z.ltb_lt; exact E|discriminate].
  - destruct (ex =? dest) eqn:E; [|discriminate]. apply Z.eqb_eq in E. auto.
  - destruct (negb (Nat.eqb (length dests) (length sizes))); [discriminate|].
    destruct (index_of dest dests 0) as [i|]; [|discriminate].
    destruct (existsb (Nat.eqb i) (argmins sizes)) eqn:Ex; cbn [negb] in H; [|discriminate].
    apply existsb_exists in Ex. destruct Ex as [j [Hj Ej]]. apply Nat.eqb_eq in Ej. subst j.
    apply argmins_spec in Hj. destruct Hj as [s [Hs Hmin]].
    exists i, s. repeat split; auto.
    intros ->. cbn in H. destruct (argmins sizes) as [|j r]; [discriminate|].
    destruct (Nat.eqb i j) eqn:Ej; [|discriminate]. apply Nat.eqb_eq in Ej. subst j. eauto.
  - destruct cyc as [|c0 cr]; [discriminate|]. split; [discriminate|].
    destruct (nthZ (c0 :: cr) (k mod length (c0 :: cr)) =? dest) eqn:E; [|discriminate]. apply Z.eqb_eq in E. auto.
  - destruct before as [|h t].
    + destruct ((dest =? 0) && list_eqb after []) eqn:E; [|discriminate]. apply andb_true_iff in E as [E1 E2].
      apply Z.eqb_eq in E1. apply list_eqb_eq in E2. auto.
    + destruct ((dest =? h) && list_eqb after t) eqn:E; [|discriminate]. apply andb_true_iff in E as [E1 E2].
      apply Z.eqb_eq in E1. apply list_eqb_eq in E2. auto.
  - destruct before as [|Sb t].
    + destruct ((dest =? 0) && lists_eqb after []) eqn:E; [|discriminate]. apply andb_true_iff in E as [E1 _]. apply Z.eqb_eq in E1. exact E1.
    + destruct (memZ dest Sb) eqn:Em; cbn [negb] in H; [|discriminate]. apply memZ_In in Em. split; [exact Em|].
      destruct (rule =? 0) eqn:Er.
      * apply Z.eqb_eq in Er. split; [intros _; destruct (lists_eqb after t); [reflexivity|discriminate]|intros N; congruence].
      * apply Z.eqb_neq in Er. split; [intros N; congruence|intros _].
        destruct (remove1 dest Sb) as [|x r]; destruct (lists_eqb after _); try reflexivity; discriminate.
  - destruct (memZ dest subset) eqn:Em; [|discriminate]. apply memZ_In. exact Em.
  - destruct (forallb _ l) eqn:Ef; [|discriminate]. rewrite forallb_forall in Ef.
    intros c p Hin. specialize (Ef _ Hin). cbn in Ef. apply Z.eqb_eq in Ef. exact Ef.
  - destruct (b =? a) eqn:E; [|discriminate]. apply Z.eqb_eq in E. auto.
Qed.

Definition Inv (pre : list ev) (m : list (Z * nat)) : Prop := forall key, cnt m key = ncycles key pre.

Lemma step_inv strict pre m e m' : Inv pre m -> step strict m e = inl m' -> Inv (pre ++ [e]) m'.
Proof.
  intros HI Hs key. unfold step in Hs.
  destruct (hard _ e); [discriminate|]. destruct (if strict then soft e else None); [discriminate|]. injection Hs as <-.
  unfold ncycles. rewrite filter_app, app_length. cbn [filter].
  destruct (key_of e) as [k0|] eqn:Ek.
  - unfold cnt. rewrite aget_aset. destruct (k0 =? key) eqn:E.
    + apply Z.eqb_eq in E. subst k0. cbn. fold (cnt m key). rewrite (HI key). unfold ncycles. lia.
    + cbn. fold (cnt m key). rewrite (HI key). unfold ncycles. lia.
  - cbn. rewrite (HI key). unfold ncycles. lia.
Qed.

(* T1: in an accepted run (either mode) every routing and class-change decision is one the specification allows *)
Theorem C09_sound : forall strict es stt, acc strict es = Accept stt ->
  forall pre e post, es = pre ++ e :: post ->
    ev_ok (match key_of e with Some key => ncycles key pre | None => 0%nat end) e.
Proof.
  intros strict es stt H pre e post E0. unfold acc in H.
  destruct (replay (step strict) [] 0 es) as [[i0 c0]|] eqn:Er; [discriminate|].
  assert (I0 : Inv [] []) by (intros key; reflexivity).
  destruct (replay_sound (step strict) Inv [] I0 (step_inv strict) es 0 Er pre e post E0) as (mp & m' & HI & Hs).
  unfold step in Hs.
  destruct (hard (match key_of e with Some key => cnt mp key | None => 0%nat end) e) eqn:Eh; [discriminate|].
  apply hard_ok in Eh. destruct (key_of e) as [key|]; [rewrite (HI key) in Eh|]; exact Eh.
Qed.

(* in strict mode, additionally, the weighted choices are the ones the model of random_choice computes from the draw;
   together with Routing.rc_weighted_positive this explains WHY a positive draw can only select positive-probability entries *)
Theorem C09_strict_weighted : forall es stt, acc true es = Accept stt ->
  forall pre dests P U dest post, es = pre ++ Weighted dests P U dest :: post ->
    exists i drew, rc_weighted den P (if U =? -1 then 0 else U) = Some (i, drew) /\ nthZ dests i = dest.
Proof.
  intros es stt H pre dests P U dest post E0. unfold acc in H.
  destruct (replay (step true) [] 0 es) as [[i0 c0]|] eqn:Er; [discriminate|].
  destruct (replay_split (step true) _ _ _ Er _ _ _ E0) as (mp & m' & _ & Hs).
  unfold step in Hs. destruct (hard _ _); [discriminate|]. cbn [soft] in Hs.
  destruct (rc_weighted den P (if U =? -1 then 0 else U)) as [[i drew]|]; [|discriminate].
  destruct ((nthZ dests i =? dest) && Bool.eqb drew (negb (U =? -1))) eqn:E; [|discriminate].
  apply andb_true_iff in E as [E1 _]. apply Z.eqb_eq in E1. eauto.
Qed.

Example acc_example :
  is_accept (acc true [Weighted [1;2;0] [0;4;4] 4503599627370496 2; Weighted [1;0] [0;8] (-1) 0;
                       Shortest [1;2;3] [2;1;1] 0 4503599627370496 3 [2;1;1]; Shortest [1;2;3] [2;1;1] 1 (-1) 2 [2;1;1];
                       Cycle 5 [2;0] 2; Cycle 5 [2;0] 0; Cycle 5 [2;0] 2; PB [2;1] [1] 2; PB [] [] 0;
                       FPB 1 [[1;2];[3]] [[1];[3]] 2; Uniform [1;2] 0 1; Prio [0;1] [(0,0);(1,1)]; SameClass 1 1]) = true.
Proof. vm_compute. reflexivity. Qed.
Example rej_zero_prob : acc false [Weighted [1;2;0] [0;4;4] 1 1] = Reject 0 150 [].
Proof. vm_compute. reflexivity. Qed.
Example rej_not_shortest : acc false [Shortest [1;2;3] [2;1;1] 0 0 1 [2;1;1]] = Reject 0 153 [].
Proof. vm_compute. reflexivity. Qed.
Example rej_cycle : acc false [Cycle 5 [2;0] 2; Cycle 5 [2;0] 2] = Reject 1 156 [].
Proof. vm_compute. reflexivity. Qed.

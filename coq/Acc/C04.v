(* C04 -- server exclusivity and true utilisation.
   Slice: per frame and per finite-server (non-slotted, non-PS) node: the servers
   (id, customer or 0, busy, offduty), the customers holding a server (id, server id),
   the number of servers on duty the node reports (c), and the customers for which a
   release / interruption / pre-emption ran in the frame; for the whole run the service
   and interrupted-service records that name a server, in writing order; at the end of
   the run, for nodes with a fixed number of servers, each server's start date, busy
   time and total time, the horizon, and the totals behind the reported utilisation. *)
From Coq Require Import ZArith List Bool Lia.
From CiwV Require Import Sx Prelude Trace.
Import ListNotations.
Open Scope Z_scope.

Record server := mkSrv { s_id : Z; s_cust : Z; s_busy : bool; s_off : bool }.
Record nodest := mkNode { n_id : Z; n_c : Z; n_srv : list server; n_cust : list (Z * Z); n_det : list Z }.
Definition frame := list nodest.
Record srec := mkRec { r_node : Z; r_sid : Z; r_start : Z; r_exit : Z }.
Record sfin := mkFin { f_sid : Z; f_start : Z; f_busy : Z; f_total : Z; f_partial : Z;
  f_end : Z   (* when the server's clock stopped: the end of the run, or the instant it went off duty for good *) }.
Record nfin := mkNFin { nf_node : Z; nf_T : Z; nf_srv : list sfin; nf_busy_sum : Z; nf_total_sum : Z }.

Definition decode_srv (s : sx) : option server :=
  match s with L [A i; A c; b; o] => do b' <- getBool b; do o' <- getBool o; Some (mkSrv i c b' o') | _ => None end.
Definition decode_pair (s : sx) : option (Z * Z) := match s with L [A a; A b] => Some (a, b) | _ => None end.
Definition decode_node (s : sx) : option nodest :=
  match s with
  | L [A i; A c; sv; cu; de] =>
    do sl <- getL sv; do sv' <- omap decode_srv sl; do cl <- getL cu; do cu' <- omap decode_pair cl;
    do de' <- getZs de; Some (mkNode i c sv' cu' de')
  | _ => None
  end.
Definition decode_frame (s : sx) : option frame := do l <- getL s; omap decode_node l.
Definition decode_rec (s : sx) : option srec :=
  match s with L [A n; A i; A a; A b] => Some (mkRec n i a b) | _ => None end.
Definition decode_sfin (s : sx) : option sfin :=
  match s with L [A i; A st; A b; A t; A p; A e] => Some (mkFin i st b t p e) | _ => None end.
Definition decode_nfin (s : sx) : option nfin :=
  match s with
  | L [A n; A t; sv; A bs; A ts] => do sl <- getL sv; do sv' <- omap decode_sfin sl; Some (mkNFin n t sv' bs ts)
  | _ => None
  end.

(* ---- snapshot clause: the attachment is a bijection ---- *)
Fixpoint nodupZ (l : list Z) : bool :=
  match l with [] => true | x :: r => negb (memZ x r) && nodupZ r end.

Definition node_ok (n : nodest) : bool :=
  (* busy <-> has a customer *)
  forallb (fun s => Bool.eqb (s_busy s) (negb (s_cust s =? 0))) (n_srv n)
  (* server ids distinct; customers on servers distinct: one customer per server, one server per customer *)
  && nodupZ (map s_id (n_srv n))
  && nodupZ (filter (fun x => negb (x =? 0)) (map s_cust (n_srv n)))
  (* s.cust = x  ->  x.server = s *)
  && forallb (fun s => (s_cust s =? 0) || existsb (fun xs => (fst xs =? s_cust s) && (snd xs =? s_id s)) (n_cust n)) (n_srv n)
  (* x.server = s  ->  s is a server of the node and s.cust = x *)
  && forallb (fun xs => existsb (fun s => (s_id s =? snd xs) && (s_cust s =? fst xs)) (n_srv n)) (n_cust n)
  && nodupZ (map fst (n_cust n))
  (* the number of servers on duty is the c the node reports *)
  && (zlen (filter (fun s => negb (s_off s)) (n_srv n)) =? n_c n).

Definition pairs (n : nodest) : list (Z * Z) :=
  flat_map (fun s => if s_cust s =? 0 then [] else [(s_id s, s_cust s)]) (n_srv n).

Definition find_node (i : Z) (f : frame) : option nodest := find (fun n => n_id n =? i) f.

(* persistence: a (server, customer) pair of the previous snapshot is still there unless the
   customer was released / interrupted / pre-empted in this frame *)
Definition persists (p c : nodest) : bool :=
  forallb (fun sx => existsb (fun sy => (fst sx =? fst sy) && (snd sx =? snd sy)) (pairs c) || memZ (snd sx) (n_det c))
          (pairs p).

Definition chk (k : Z) (p f : frame) : option (Z * list Z) :=
  match find (fun n => negb (node_ok n)) f with
  | Some n => Some (30, [n_id n])
  | None =>
    match find (fun n => match find_node (n_id n) p with Some q => negb (persists q n) | None => false end) f with
    | Some n => Some (31, [n_id n])
    | None => None
    end
  end.

(* ---- records of one server never overlap ---- *)
Definition key_eqb (a b : Z * Z) : bool := (fst a =? fst b) && (snd a =? snd b).
Fixpoint lookup (k : Z * Z) (m : list ((Z * Z) * Z)) : option Z :=
  match m with [] => None | (k', v) :: r => if key_eqb k k' then Some v else lookup k r end.

Fixpoint recs_ok (m : list ((Z * Z) * Z)) (l : list srec) : bool :=
  match l with
  | [] => true
  | r :: q =>
    let k := (r_node r, r_sid r) in
    (r_start r <=? r_exit r)
    && (match lookup k m with None => true | Some e => e <=? r_start r end)
    && recs_ok ((k, r_exit r) :: m) q
  end.

(* ---- utilisation bookkeeping for fixed-c nodes ---- *)
Definition recs_of (n i : Z) (l : list srec) : list srec :=
  filter (fun r => (r_node r =? n) && (r_sid r =? i)) l.
Definition sum_len (l : list srec) : Z := zsum (map (fun r => r_exit r - r_start r) l).

Definition sfin_ok (n T : Z) (recs : list srec) (s : sfin) : bool :=
  let mine := recs_of n (f_sid s) recs in
  (f_busy s =? sum_len mine + f_partial s)             (* busy time = time attached to customers *)
  && ((f_total s =? f_end s - f_start s) && (f_end s <=? T))
  && (0 <=? f_partial s) && (f_start s <=? f_end s - f_partial s)
  && forallb (fun r => (f_start s <=? r_start r) && (r_exit r <=? f_end s - f_partial s)) mine.

Definition nfin_ok (recs : list srec) (n : nfin) : bool :=
  forallb (sfin_ok (nf_node n) (nf_T n) recs) (nf_srv n)
  && (nf_busy_sum n =? zsum (map f_busy (nf_srv n)))
  && (nf_total_sum n =? zsum (map f_total (nf_srv n))).

Definition acc (tr : list frame) (recs : list srec) (fins : list nfin) : verdict :=
  match tr with
  | [] => BadInput 1
  | f0 :: r =>
    match find (fun n => negb (node_ok n)) f0 with
    | Some n => Reject 0 30 [n_id n]
    | None =>
      match scan chk 1 f0 r with
      | Some (k, c, info) => Reject k c info
      | None =>
        if negb (recs_ok [] recs) then Reject (zlen tr) 32 []
        else match find (fun n => negb (nfin_ok recs n)) fins with
             | Some n => Reject (zlen tr) 33 [nf_node n]
             | None => Accept [zlen tr; zlen recs]
             end
      end
    end
  end.

Definition run (s : sx) : verdict :=
  match s with
  | L [t; rs; fs] =>
    match (do l <- getL t; omap decode_frame l), (do l <- getL rs; omap decode_rec l),
          (do l <- getL fs; omap decode_nfin l) with
    | Some tr, Some recs, Some fins => acc tr recs fins
    | _, _, _ => BadInput 0
    end
  | _ => BadInput 0
  end.

(* ================= T1 ================= *)

(* (i) sequential check => any two records of one server are disjoint, in writing order *)
Definition key (r : srec) := (r_node r, r_sid r).

Lemma key_eqb_eq a b : key_eqb a b = true <-> a = b.
Proof.
  destruct a, b; unfold key_eqb; cbn. rewrite andb_true_iff, !Z.eqb_eq. split; [intros []; congruence|intros H; injection H; auto].
Qed.

(* invariant of the accumulator: every earlier record of key k ends no later than lookup k *)
Lemma recs_ok_pairwise : forall l m,
  recs_ok m l = true ->
  (forall r, In r l -> r_start r <= r_exit r) /\
  (forall r, In r l -> forall e, lookup (key r) m = Some e -> e <= r_start r) /\
  (forall i j a b, (i < j)%nat -> nth_error l i = Some a -> nth_error l j = Some b -> key a = key b ->
     r_exit a <= r_start b).
Proof.
  induction l as [|r q IH]; intros m H.
  - split; [intros ? []|split; [intros ? []|]]. intros i j a b _ Ha. destruct i; discriminate.
  - cbn [recs_ok] in H. apply andb_true_iff in H as [H H3]. apply andb_true_iff in H as [H1 H2].
    apply Z.leb_le in H1. fold (key r) in H2, H3.
    destruct (IH _ H3) as (I1 & I2 & I3).
    assert (Hm : forall x, In x q -> forall e, lookup (key x) m = Some e -> e <= r_start x).
    { intros x Hx e He. destruct (key_eqb (key x) (key r)) eqn:Ek.
      - apply key_eqb_eq in Ek. rewrite Ek in He. rewrite He in H2. apply Z.leb_le in H2.
        assert (Hx2 := I2 x Hx (r_exit r)). cbn [lookup] in Hx2. rewrite Ek in Hx2.
        assert (Er : key_eqb (key r) (key r) = true) by (apply key_eqb_eq; reflexivity).
        rewrite Er in Hx2. specialize (Hx2 eq_refl). lia.
      - apply (I2 x Hx e). cbn [lookup]. rewrite Ek. exact He. }
    split; [|split].
    + intros x [<-|Hx]; auto.
    + intros x [<-|Hx] e He; [rewrite He in H2; apply Z.leb_le in H2; exact H2|eauto].
    + intros i j a b Hij Ha Hb Hk. destruct j as [|j]; [lia|]. cbn in Hb.
      destruct i as [|i].
      * cbn in Ha. injection Ha as <-.
        assert (Hbq : In b q) by (eapply nth_error_In; eauto).
        apply (I2 b Hbq (r_exit r)). cbn [lookup]. rewrite <- Hk.
        assert (Er : key_eqb (key r) (key r) = true) by (apply key_eqb_eq; reflexivity).
        rewrite Er. reflexivity.
      * cbn in Ha. apply (I3 i j a b); [lia|assumption|assumption|assumption].
Qed.

(* (ii) interval packing: consecutive-disjoint intervals inside [lo, hi] have total length <= hi - lo *)
Lemma packing : forall (l : list srec) lo hi,
  (forall r, In r l -> r_start r <= r_exit r /\ lo <= r_start r /\ r_exit r <= hi) ->
  (forall i j a b, (i < j)%nat -> nth_error l i = Some a -> nth_error l j = Some b -> r_exit a <= r_start b) ->
  lo <= hi -> sum_len l <= hi - lo.
Proof.
  unfold sum_len, zsum. induction l as [|r q IH]; intros lo hi Hin Hd Hlh; cbn; [lia|].
  destruct (Hin r (or_introl eq_refl)) as (H1 & H2 & H3).
  assert (IHq : fold_right Z.add 0 (map (fun r0 => r_exit r0 - r_start r0) q) <= hi - r_exit r).
  { apply IH; [| |lia].
    - intros x Hx. destruct (Hin x (or_intror Hx)) as (A1 & A2 & A3). repeat split; auto.
      apply In_nth_error in Hx as [n Hn]. apply (Hd 0%nat (S n) r x); [lia|reflexivity|exact Hn].
    - intros i j a b Hij Ha Hb. apply (Hd (S i) (S j) a b); [lia|exact Ha|exact Hb]. }
  lia.
Qed.

Lemma filter_nth_order {X} (f : X -> bool) : forall l i j a b,
  (i < j)%nat -> nth_error (filter f l) i = Some a -> nth_error (filter f l) j = Some b ->
  exists i' j', (i' < j')%nat /\ nth_error l i' = Some a /\ nth_error l j' = Some b.
Proof.
  induction l as [|x r IH]; intros i j a b Hij Ha Hb; [destruct i; discriminate|].
  cbn [filter] in Ha, Hb. destruct (f x).
  - destruct i as [|i].
    + cbn in Ha. injection Ha as <-. destruct j as [|j]; [lia|]. cbn in Hb.
      assert (Hb' : In b r). { apply nth_error_In in Hb. apply filter_In in Hb. tauto. }
      apply In_nth_error in Hb' as [n Hn]. exists 0%nat, (S n). repeat split; [lia|exact Hn].
    + destruct j as [|j]; [lia|]. cbn in Ha, Hb.
      destruct (IH i j a b ltac:(lia) Ha Hb) as (i' & j' & H1 & H2 & H3).
      exists (S i'), (S j'). repeat split; [lia|exact H2|exact H3].
  - destruct (IH i j a b Hij Ha Hb) as (i' & j' & H1 & H2 & H3).
    exists (S i'), (S j'). repeat split; [lia|exact H2|exact H3].
Qed.

(* per server: busy time <= total time *)
Lemma sfin_bound n T recs s :
  recs_ok [] recs = true -> sfin_ok n T recs s = true -> 0 <= f_busy s <= f_total s.
Proof.
  intros Hr Hs. unfold sfin_ok in Hs.
  apply andb_true_iff in Hs as [Hs H5]. apply andb_true_iff in Hs as [Hs H4].
  apply andb_true_iff in Hs as [Hs H3]. apply andb_true_iff in Hs as [H1 H2].
  apply andb_true_iff in H2 as [H2 H2e]. apply Z.eqb_eq in H1, H2. apply Z.leb_le in H3, H4, H2e. rewrite forallb_forall in H5.
  destruct (recs_ok_pairwise _ _ Hr) as (P1 & _ & P3).
  set (mine := recs_of n (f_sid s) recs) in *.
  assert (Hmine : forall r, In r mine -> In r recs /\ key r = (n, f_sid s)).
  { intros r Hin. unfold mine, recs_of in Hin. apply filter_In in Hin as [Hin Hk].
    apply andb_true_iff in Hk as [K1 K2]. apply Z.eqb_eq in K1, K2. unfold key. split; [auto|congruence]. }
  assert (Hpos : 0 <= sum_len mine).
  { unfold sum_len, zsum. clear -Hmine P1. induction mine as [|r q IH]; cbn; [lia|].
    assert (r_start r <= r_exit r) by (apply P1; apply Hmine; left; reflexivity).
    assert (0 <= fold_right Z.add 0 (map (fun r0 => r_exit r0 - r_start r0) q))
      by (apply IH; intros; apply Hmine; right; assumption).
    lia. }
  assert (Hpack : sum_len mine <= (f_end s - f_partial s) - f_start s).
  { apply packing; [| |lia].
    - intros r Hin. specialize (H5 r Hin). apply andb_true_iff in H5 as [A B].
      apply Z.leb_le in A, B. destruct (Hmine r Hin) as [Hin' _]. specialize (P1 r Hin'). lia.
    - intros i j a b Hij Ha Hb.
      destruct (filter_nth_order _ recs i j a b Hij Ha Hb) as (i' & j' & Hlt & Ha' & Hb').
      apply (P3 i' j' a b Hlt Ha' Hb').
      destruct (Hmine a (nth_error_In _ _ Ha)) as [_ Ka].
      destruct (Hmine b (nth_error_In _ _ Hb)) as [_ Kb]. congruence. }
  lia.
Qed.

Lemma zsum_le_map {X} (f g : X -> Z) l : (forall x, In x l -> 0 <= f x <= g x) ->
  0 <= zsum (map f l) <= zsum (map g l).
Proof.
  unfold zsum. induction l as [|x r IH]; cbn; intros H; [lia|].
  assert (0 <= f x <= g x) by (apply H; left; reflexivity).
  assert (0 <= fold_right Z.add 0 (map f r) <= fold_right Z.add 0 (map g r)) by (apply IH; intros; apply H; right; assumption).
  lia.
Qed.

(* the reported node utilisation busy_sum / total_sum lies in [0, 1] *)
Lemma nfin_bound recs n : recs_ok [] recs = true -> nfin_ok recs n = true ->
  0 <= nf_busy_sum n <= nf_total_sum n.
Proof.
  intros Hr H. unfold nfin_ok in H. apply andb_true_iff in H as [H H3]. apply andb_true_iff in H as [H1 H2].
  apply Z.eqb_eq in H2, H3. rewrite H2, H3. rewrite forallb_forall in H1.
  apply zsum_le_map. intros s Hs. eapply sfin_bound; eauto.
Qed.

Definition P_C04 (tr : list frame) (recs : list srec) (fins : list nfin) : Prop :=
  (* at every instant the server/customer attachment is a bijection, busy <-> attached,
     servers on duty = c *)
  (forall f n, In f tr -> In n f -> node_ok n = true) /\
  (* a server stays with its customer until that customer is released / interrupted *)
  (forall i a b n q, nth_error tr i = Some a -> nth_error tr (S i) = Some b ->
     In n b -> find_node (n_id n) a = Some q -> persists q n = true) /\
  (* the service intervals attributed to one server id never overlap *)
  (forall i j a b, (i < j)%nat -> nth_error recs i = Some a -> nth_error recs j = Some b ->
     r_node a = r_node b -> r_sid a = r_sid b -> r_exit a <= r_start b) /\
  (forall r, In r recs -> r_start r <= r_exit r) /\
  (* utilisation = time attached / total server time, hence in [0,1] *)
  (forall n, In n fins -> 0 <= nf_busy_sum n <= nf_total_sum n /\
     forall s, In s (nf_srv n) -> f_busy s = sum_len (recs_of (nf_node n) (f_sid s) recs) + f_partial s
                                   /\ 0 <= f_busy s <= f_total s).

Lemma find_none_all {X} (f : X -> bool) l : find f l = None -> forall x, In x l -> f x = false.
Proof.
  induction l as [|y r IH]; cbn; intros H x Hin; [destruct Hin|].
  destruct (f y) eqn:E; [discriminate|]. destruct Hin as [<-|Hin]; auto.
Qed.

Lemma chk_inv k p f : chk k p f = None ->
  (forall n, In n f -> node_ok n = true) /\
  (forall n q, In n f -> find_node (n_id n) p = Some q -> persists q n = true).
Proof.
  unfold chk. destruct (find (fun n => negb (node_ok n)) f) eqn:E1; [discriminate|].
  destruct (find _ f) eqn:E2 in |- *; [discriminate|]. intros _. split.
  - intros n Hn. pose proof (find_none_all _ _ E1 n Hn) as H. apply negb_false_iff in H. exact H.
  - intros n q Hn Hq. pose proof (find_none_all _ _ E2 n Hn) as H. cbn in H. rewrite Hq in H.
    apply negb_false_iff in H. exact H.
Qed.

Theorem C04_sound : forall tr recs fins st, acc tr recs fins = Accept st -> P_C04 tr recs fins.
Proof.
  intros [|f0 r] recs fins st H; [discriminate|]. cbn [acc] in H.
  destruct (find (fun n => negb (node_ok n)) f0) eqn:E0; [discriminate|].
  destruct (scan chk 1 f0 r) as [[[k c] info]|] eqn:Es; [discriminate|].
  destruct (recs_ok [] recs) eqn:Er; cbn in H; [|discriminate].
  destruct (find (fun n => negb (nfin_ok recs n)) fins) eqn:Ef; [discriminate|].
  apply scan_none_chain in Es.
  destruct (recs_ok_pairwise _ _ Er) as (P1 & _ & P3).
  split; [|split; [|split; [|split]]].
  - assert (Hall : Forall (fun f => forall n, In n f -> node_ok n = true) r).
    { eapply chain_invariant with (I := fun f => forall n, In n f -> node_ok n = true); [|exact Es|].
      - intros k p f Hc _. apply chk_inv in Hc. tauto.
      - intros n Hn. pose proof (find_none_all _ _ E0 n Hn) as Hx. apply negb_false_iff in Hx. exact Hx. }
    intros f n [<-|Hf] Hn.
    + pose proof (find_none_all _ _ E0 n Hn) as Hx. apply negb_false_iff in Hx. exact Hx.
    + rewrite Forall_forall in Hall. eauto.
  - intros i a b n q Ha Hb Hn Hq.
    destruct (chain_consecutive chk _ _ _ Es i a b Ha Hb) as [k' Hc].
    apply chk_inv in Hc as [_ Hp]. eauto.
  - intros i j a b Hij Ha Hb Hn Hs. apply (P3 i j a b Hij Ha Hb). unfold key. congruence.
  - exact P1.
  - intros n Hn. pose proof (find_none_all _ _ Ef n Hn) as Hx. apply negb_false_iff in Hx.
    split; [eapply nfin_bound; eauto|].
    intros s Hs. unfold nfin_ok in Hx. apply andb_true_iff in Hx as [Hx _]. apply andb_true_iff in Hx as [Hx _].
    rewrite forallb_forall in Hx. specialize (Hx s Hs). split; [|eapply sfin_bound; eauto].
    unfold sfin_ok in Hx. repeat (apply andb_true_iff in Hx as [Hx _]). apply Z.eqb_eq in Hx. exact Hx.
Qed.

Example acc_example :
  is_accept (acc
    [ [mkNode 1 2 [mkSrv 1 0 false false; mkSrv 2 0 false false] [] []];
      [mkNode 1 2 [mkSrv 1 5 true false; mkSrv 2 0 false false] [(5,1)] []];
      [mkNode 1 2 [mkSrv 1 5 true false; mkSrv 2 6 true false] [(5,1);(6,2)] []];
      [mkNode 1 2 [mkSrv 1 0 false false; mkSrv 2 6 true false] [(6,2)] [5]] ]
    [mkRec 1 1 2 9]
    [mkNFin 1 20 [mkFin 1 0 7 20 0 20; mkFin 2 0 16 20 16 20] 23 40]) = true.
Proof. vm_compute. reflexivity. Qed.
Example rej_overlap :
  acc [[mkNode 1 1 [mkSrv 1 0 false false] [] []]] [mkRec 1 1 2 9; mkRec 1 1 8 12] [] = Reject 1 32 [].
Proof. vm_compute. reflexivity. Qed.

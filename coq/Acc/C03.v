(* C03 -- journey continuity.  Event list in execution order: customer creations, entries into
   service nodes and into the exit node, every data record written (type, node, arrival date,
   exit date, destination), a marker after every executed event of the simulation, and at the
   end the true location of every customer.
   Destinations: node n > 0, exit = 0, nan = -2, False = -3.  Record types: 0 service,
   1 interrupted service, 2 renege, 3 baulk, 4 rejection. *)
From Coq Require Import ZArith List Bool Lia.
From CiwV Require Import Sx Prelude Replay.
Import ListNotations.
Open Scope Z_scope.

Inductive ev :=
| Spawn (i n t : Z)                          (* customer i created at time t, heading for node n *)
| Enter (i n t : Z)                          (* i enters service node n at time t                *)
| ExitEnter (i t : Z)                        (* i enters the exit node                           *)
| Rec (i ty nd arr ex dst : Z)               (* a data record of i                               *)
| FrameEnd                                   (* the simulation finished executing one event      *)
| Final (i loc : Z).                         (* after the run: where i really is (0 = exit)      *)

Definition decode_ev (s : sx) : option ev :=
  match s with
  | L [A 1; A i; A n; A t] => Some (Spawn i n t)
  | L [A 2; A i; A n; A t] => Some (Enter i n t)
  | L [A 3; A i; A t] => Some (ExitEnter i t)
  | L [A 4; A i; A ty; A nd; A arr; A ex; A dst] => Some (Rec i ty nd arr ex dst)
  | L [A 5] => Some FrameEnd
  | L [A 6; A i; A loc] => Some (Final i loc)
  | _ => None
  end.

(* does this record close a visit, and towards where?  service and renege records name their
   destination; an interrupted record closes the visit only when it names one (reroute); baulk and
   rejection records send the customer to the exit *)
Definition closes (ty dst : Z) : option Z :=
  if (ty =? 0) || (ty =? 2) then (if 0 <=? dst then Some dst else None)
  else if ty =? 1 then (if 0 <=? dst then Some dst else None)
  else if (ty =? 3) || (ty =? 4) then Some 0
  else None.

Record cs := mkC { c_exp : option (Z * Z); c_loc : Z; c_arr : Z; c_open : bool; c_nrec : Z; c_term : bool; c_made : bool }.
Definition cs0 := mkC None (-1) 0 false 0 false false.
Record st := mkSt { custs : list (Z * cs); inflight : Z }.
Definition gc (m : st) := aget cs0 (custs m).
Definition upd (m : st) (i : Z) (c : cs) (fl : Z) : st := mkSt (aset (custs m) i c) fl.

Definition step (m : st) (e : ev) : st + Z :=
  match e with
  | Spawn i n t =>
    let c := gc m i in
    if c_made c then inr 30                                    (* identifier used twice *)
    else if n <=? 0 then inr 30
    else inl (upd m i (mkC (Some (n, t)) (-1) 0 false 0 false true) (inflight m + 1))
  | Enter i n t =>
    let c := gc m i in
    match c_exp c with
    | Some (n', t') =>
      if (n' =? n) && (t' =? t) && (0 <? n)
      then inl (upd m i (mkC None n t true (c_nrec c) (c_term c) true) (inflight m - 1))
      else inr 31                                              (* entered another node / at another instant than its last record named *)
    | None => inr 32                                           (* entered a node without having left the previous one with a record *)
    end
  | ExitEnter i t =>
    let c := gc m i in
    match c_exp c with
    | Some (n', t') =>
      if (n' =? 0) && (t' =? t)
      then inl (upd m i (mkC None 0 t false (c_nrec c) (c_term c) true) (inflight m - 1))
      else inr 33                                              (* at the exit although its last record names a node *)
    | None => inr 32
    end
  | Rec i ty nd arr ex dst =>
    let c := gc m i in
    if c_term c then inr 34                                    (* a baulk / rejection record is the customer's only record *)
    else if (ty =? 3) || (ty =? 4) then
      match c_exp c with
      | Some (n', t') =>
        if (n' =? nd) && (t' =? arr) && (arr =? ex) && (c_nrec c =? 0) && (c_loc c =? -1)
        then inl (upd m i (mkC (Some (0, ex)) (-1) 0 false 1 true true) (inflight m))
        else inr 35                                            (* baulk / rejection record not at the arrival node and instant, or not the first record *)
      | None => inr 35
      end
    else
      if negb ((c_loc c =? nd) && (c_arr c =? arr) && c_open c && (0 <? nd)) then inr 36   (* record at another node / other arrival date than the current visit *)
      else match closes ty dst with
           | Some d => if negb (arr <=? ex) then inr 37
                       else inl (upd m i (mkC (Some (d, ex)) (c_loc c) (c_arr c) false (c_nrec c + 1) false true) (inflight m + 1))
           | None => if ty =? 1 then inl (upd m i (mkC None (c_loc c) (c_arr c) true (c_nrec c + 1) false true) (inflight m))
                     else inr 38                               (* a service / renege record without destination *)
           end
  | FrameEnd => if inflight m =? 0 then inl m else inr 39     (* a customer left a node (or was created) and entered nowhere in the same frame *)
  | Final i loc =>
    let c := gc m i in
    if (c_loc c =? loc) && match c_exp c with None => true | Some _ => false end then inl m else inr 40   (* true location differs from the journey *)
  end.

Definition acc (es : list ev) : verdict :=
  match replay step (mkSt [] 0) 0 es with
  | Some (i, c) => Reject i c []
  | None => Accept [zlen es]
  end.

Definition run (s : sx) : verdict :=
  match (do l <- getL s; omap decode_ev l) with
  | Some es => acc es
  | None => BadInput 0
  end.

(* ---------------- the property, stated on the whole event list ---------------- *)
(* where and when customer i is due next according to its records: destination and exit date of its
   last visit-closing record, or node and time of its creation when it has no such record yet *)
Fixpoint target (i : Z) (es : list ev) (r : option (Z * Z)) : option (Z * Z) :=
  match es with
  | [] => r
  | e :: t =>
    target i t (match e with
                | Spawn j n tm => if j =? i then Some (n, tm) else r
                | Rec j ty nd arr ex dst => if j =? i then match closes ty dst with Some d => Some (d, ex) | None => r end else r
                | _ => r
                end)
  end.
Definition cnt (f : ev -> bool) (es : list ev) : Z := zlen (filter f es).
Definition is_enter i e := match e with Enter j _ _ => j =? i | _ => false end.
Definition is_leaving i e := match e with Rec j ty _ _ _ dst => (j =? i) && negb ((ty =? 3) || (ty =? 4)) && match closes ty dst with Some _ => true | None => false end | _ => false end.
Definition is_rec i e := match e with Rec j _ _ _ _ _ => j =? i | _ => false end.
Definition is_term i e := match e with Rec j ty _ _ _ _ => (j =? i) && ((ty =? 3) || (ty =? 4)) | _ => false end.
Definition is_arrival e := match e with Spawn _ _ _ => true | Rec _ ty _ _ _ dst => negb ((ty =? 3) || (ty =? 4)) && match closes ty dst with Some _ => true | None => false end | _ => false end.
Definition is_entry e := match e with Enter _ _ _ | ExitEnter _ _ => true | _ => false end.
(* last place entered *)
Fixpoint loc_of (i : Z) (es : list ev) (r : Z) : Z :=
  match es with
  | [] => r
  | e :: t => loc_of i t (match e with Enter j n _ => if j =? i then n else r | ExitEnter j _ => if j =? i then 0 else r
                                   | Spawn j _ _ => if j =? i then -1 else r | _ => r end)
  end.

Definition P_C03 (es : list ev) : Prop :=
  (* every visit begins at the node named as destination by the customer's previous visit-closing record (its arrival node
     for the first visit) and at the instant that record ended (its creation time for the first) *)
  (forall pre i n t post, es = pre ++ Enter i n t :: post -> target i pre None = Some (n, t)) /\
  (* a customer reaches the exit exactly through a record that names the exit (destination -1, baulk, rejection, renege to the exit) *)
  (forall pre i t post, es = pre ++ ExitEnter i t :: post -> target i pre None = Some (0, t)) /\
  (* every record lies at the node of the customer's current visit and carries that visit's arrival date; visits and
     visit-closing records are in bijection (exactly one service/renege/reroute record per completed visit) *)
  (forall pre i ty nd arr ex dst post, es = pre ++ Rec i ty nd arr ex dst :: post ->
     target i pre None = Some (nd, arr) /\ cnt (is_term i) pre = 0 /\
     (ty = 3 \/ ty = 4 -> cnt (is_rec i) pre = 0 /\ arr = ex /\ cnt (is_enter i) pre = 0) /\
     (ty <> 3 -> ty <> 4 -> cnt (is_enter i) pre = cnt (is_leaving i) pre + 1 /\ (ty = 0 \/ ty = 2 -> 0 <= dst))) /\
  (* nobody is in flight between events: every creation and every visit-closing record is followed in the same frame by the
     customer's entry into the node it names (or the exit) *)
  (forall pre post, es = pre ++ FrameEnd :: post -> cnt is_arrival pre = cnt is_entry pre) /\
  (* the customer really is where its journey says *)
  (forall pre i loc post, es = pre ++ Final i loc :: post -> loc = loc_of i pre (-1)).

(* ---------------- T1 ---------------- *)
Local Arguments Z.add : simpl never.
Local Arguments Z.sub : simpl never.
Local Arguments Z.mul : simpl never.

Lemma target_app i a b r : target i (a ++ b) r = target i b (target i a r).
Proof. revert r; induction a as [|e a IH]; intros r; cbn; [reflexivity|apply IH]. Qed.
Lemma loc_of_app i a b r : loc_of i (a ++ b) r = loc_of i b (loc_of i a r).
Proof. revert r; induction a as [|e a IH]; intros r; cbn; [reflexivity|apply IH]. Qed.
Lemma cnt_snoc f pre e : cnt f (pre ++ [e]) = cnt f pre + (if f e then 1 else 0).
Proof. unfold cnt, zlen. rewrite filter_app, app_length. cbn. destruct (f e); cbn; lia. Qed.
Lemma cnt_nonneg f l : 0 <= cnt f l.
Proof. unfold cnt, zlen. lia. Qed.

Definition cust_of (e : ev) : Z :=
  match e with Spawn i _ _ | Enter i _ _ | ExitEnter i _ | Rec i _ _ _ _ _ | Final i _ => i | FrameEnd => 0 end.

Record CInv (i : Z) (pre : list ev) (c : cs) : Prop := {
  I1 : forall x, c_exp c = Some x -> target i pre None = Some x;
  I2 : c_open c = true -> c_exp c = None /\ target i pre None = Some (c_loc c, c_arr c) /\ 0 < c_loc c;
  I3 : c_term c = false <-> cnt (is_term i) pre = 0;
  I4 : c_nrec c = cnt (is_rec i) pre;
  I5 : cnt (is_enter i) pre = cnt (is_leaving i) pre + (if c_open c then 1 else 0);
  I6 : c_loc c = loc_of i pre (-1);
  I7 : c_loc c = -1 -> cnt (is_enter i) pre = 0;
  I8 : c_made c = false -> c = cs0
}.

Definition Inv (pre : list ev) (m : st) : Prop :=
  inflight m = cnt is_arrival pre - cnt is_entry pre /\ forall i, CInv i pre (gc m i).

Lemma gc_upd m j c fl i : gc (upd m j c fl) i = if j =? i then c else gc m i.
Proof. reflexivity. Qed.

(* an event about another customer (or no customer) changes nothing for customer i *)
Lemma other_event i pre e c : (match e with FrameEnd | Final _ _ => True | _ => cust_of e <> i end) ->
  CInv i pre c -> CInv i (pre ++ [e]) c.
Proof.
  intros Hne [H1 H2 H3 H4 H5 H6 H7 H8].
  assert (Et : target i (pre ++ [e]) None = target i pre None).
  { rewrite target_app. cbn. destruct e; try reflexivity; cbn in Hne;
      match goal with |- context [?a =? i] => destruct (a =? i) eqn:E; [apply Z.eqb_eq in E; congruence|reflexivity] end. }
  assert (El : loc_of i (pre ++ [e]) (-1) = loc_of i pre (-1)).
  { rewrite loc_of_app. cbn. destruct e; try reflexivity; cbn in Hne;
      match goal with |- context [?a =? i] => destruct (a =? i) eqn:E; [apply Z.eqb_eq in E; congruence|reflexivity] end. }
  assert (Ec : forall f, (f = is_enter i \/ f = is_leaving i \/ f = is_rec i \/ f = is_term i) -> cnt f (pre ++ [e]) = cnt f pre).
  { intros f Hf. rewrite cnt_snoc.
    assert (f e = false); [|rewrite H; lia].
    destruct e; cbn in Hne; destruct Hf as [-> | [-> | [-> | ->]]]; cbn; try reflexivity;
      match goal with |- context [?a =? i] => destruct (a =? i) eqn:E; [apply Z.eqb_eq in E; congruence|reflexivity] end. }
  constructor; rewrite ?Et, ?El, ?(Ec (is_enter i)), ?(Ec (is_leaving i)), ?(Ec (is_rec i)), ?(Ec (is_term i)); auto.
Qed.

Ltac cg := cbn; rewrite ?target_app, ?loc_of_app, ?cnt_snoc; cbn; rewrite ?Z.eqb_refl; cbn.
Ltac fin := first [ discriminate | reflexivity | lia | assumption
                  | (split; intros; first [lia | reflexivity | discriminate | assumption])
                  | (intros; first [lia | reflexivity | discriminate | assumption]) ].

Lemma step_inv pre m e m' : Inv pre m -> step m e = inl m' -> Inv (pre ++ [e]) m'.
Proof.
  intros [Hfl HI] Hs.
  destruct e as [j n t|j n t|j t|j ty nd arr ex dst| |j loc]; cbn [step] in Hs.
  - (* Spawn *)
    pose proof (HI j) as Hj. destruct (c_made (gc m j)) eqn:Em; [discriminate|].
    destruct (n <=? 0) eqn:En; [discriminate|]. injection Hs as <-. apply Z.leb_gt in En.
    split.
    + cbn [inflight upd]. rewrite !cnt_snoc. cbn. lia.
    + intros i. rewrite gc_upd. destruct (j =? i) eqn:E.
      * apply Z.eqb_eq in E. subst i. destruct Hj as [H1 H2 H3 H4 H5 H6 H7 H8].
        specialize (H8 Em). rewrite H8 in *. cbn in *.
        assert (Hz := proj1 H3 eq_refl). specialize (H7 eq_refl).
        constructor; cg; fin.
      * apply other_event; [cbn; apply Z.eqb_neq; exact E|apply HI].
  - (* Enter *)
    pose proof (HI j) as Hj. destruct (c_exp (gc m j)) as [[n' t']|] eqn:Ee; [|discriminate].
    destruct ((n' =? n) && (t' =? t) && (0 <? n)) eqn:Ec; [|discriminate]. injection Hs as <-.
    apply andb_true_iff in Ec as [Ec E3]. apply andb_true_iff in Ec as [E1 E2]. apply Z.eqb_eq in E1, E2. apply Z.ltb_lt in E3. subst n' t'.
    split.
    + cbn [inflight upd]. rewrite !cnt_snoc. cbn. lia.
    + intros i. rewrite gc_upd. destruct (j =? i) eqn:E.
      * apply Z.eqb_eq in E. subst i. destruct Hj as [H1 H2 H3 H4 H5 H6 H7 H8].
        assert (Hop : c_open (gc m j) = false).
        { destruct (c_open (gc m j)) eqn:Eo; [|reflexivity]. destruct (H2 eq_refl) as [Hn _]. congruence. }
        rewrite Hop in H5. pose proof (H1 _ Ee) as Ht.
        constructor; cg; try fin.
        -- intros _. auto.
        -- rewrite Z.add_0_r. exact H3.
      * apply other_event; [cbn; apply Z.eqb_neq; exact E|apply HI].
  - (* ExitEnter *)
    pose proof (HI j) as Hj. destruct (c_exp (gc m j)) as [[n' t']|] eqn:Ee; [|discriminate].
    destruct ((n' =? 0) && (t' =? t)) eqn:Ec; [|discriminate]. injection Hs as <-.
    apply andb_true_iff in Ec as [E1 E2]. apply Z.eqb_eq in E1, E2. subst n' t'.
    split.
    + cbn [inflight upd]. rewrite !cnt_snoc. cbn. lia.
    + intros i. rewrite gc_upd. destruct (j =? i) eqn:E.
      * apply Z.eqb_eq in E. subst i. destruct Hj as [H1 H2 H3 H4 H5 H6 H7 H8].
        assert (Hop : c_open (gc m j) = false).
        { destruct (c_open (gc m j)) eqn:Eo; [|reflexivity]. destruct (H2 eq_refl) as [Hn _]. congruence. }
        rewrite Hop in H5.
        constructor; cg; try fin.
        rewrite Z.add_0_r. exact H3.
      * apply other_event; [cbn; apply Z.eqb_neq; exact E|apply HI].
  - (* Rec *)
    pose proof (HI j) as Hj. destruct (c_term (gc m j)) eqn:Et; [discriminate|].
    destruct ((ty =? 3) || (ty =? 4)) eqn:Ety.
    + (* baulk / rejection *)
      destruct (c_exp (gc m j)) as [[n' t']|] eqn:Ee; [|discriminate].
      destruct ((n' =? nd) && (t' =? arr) && (arr =? ex) && (c_nrec (gc m j) =? 0) && (c_loc (gc m j) =? -1)) eqn:Ec; [|discriminate].
      injection Hs as <-. split.
      * cbn [inflight upd]. rewrite !cnt_snoc. cbn. rewrite Ety. cbn. lia.
      * intros i. rewrite gc_upd. destruct (j =? i) eqn:E.
        -- apply Z.eqb_eq in E. subst i. destruct Hj as [H1 H2 H3 H4 H5 H6 H7 H8].
           apply andb_true_iff in Ec as [Ec E5]. apply andb_true_iff in Ec as [Ec E4]. apply andb_true_iff in Ec as [Ec E3].
           apply andb_true_iff in Ec as [E1 E2]. apply Z.eqb_eq in E1, E2, E3, E4, E5.
           assert (Hop : c_open (gc m j) = false).
           { destruct (c_open (gc m j)) eqn:Eo; [|reflexivity]. destruct (H2 eq_refl) as [Hn _]. congruence. }
           assert (Hcl : closes ty dst = Some 0).
           { unfold closes. apply orb_true_iff in Ety. destruct Ety as [Ex|Ex]; apply Z.eqb_eq in Ex; subst ty; reflexivity. }
           rewrite Hop in H5. specialize (H7 E5). pose proof (cnt_nonneg (is_term j) pre) as Hnn.
           constructor; cg; rewrite ?Hcl, ?Ety; cbn; try fin.
        -- apply other_event; [cbn; apply Z.eqb_neq; exact E|apply HI].
    + (* records of a visit *)
      destruct ((c_loc (gc m j) =? nd) && (c_arr (gc m j) =? arr) && c_open (gc m j) && (0 <? nd)) eqn:Ec; cbn [negb] in Hs; [|discriminate].
      apply andb_true_iff in Ec as [Ec E4]. apply andb_true_iff in Ec as [Ec E3]. apply andb_true_iff in Ec as [E1 E2].
      apply Z.eqb_eq in E1, E2. apply Z.ltb_lt in E4.
      destruct (closes ty dst) as [d|] eqn:Ecl.
      * destruct (arr <=? ex) eqn:Ele; cbn [negb] in Hs; [|discriminate]. injection Hs as <-. split.
        -- cbn [inflight upd]. rewrite !cnt_snoc. cbn. rewrite Ety, Ecl. cbn. lia.
        -- intros i. rewrite gc_upd. destruct (j =? i) eqn:E.
           ++ apply Z.eqb_eq in E. subst i. destruct Hj as [H1 H2 H3 H4 H5 H6 H7 H8].
              assert (Hz := proj1 H3 Et). rewrite E3 in H5.
              constructor; cg; rewrite ?Ecl, ?Ety; cbn; fin.
           ++ apply other_event; [cbn; apply Z.eqb_neq; exact E|apply HI].
      * destruct (ty =? 1) eqn:E1t; [|discriminate]. injection Hs as <-. split.
        -- cbn [inflight upd]. rewrite !cnt_snoc. cbn. rewrite Ety, Ecl. cbn. lia.
        -- intros i. rewrite gc_upd. destruct (j =? i) eqn:E.
           ++ apply Z.eqb_eq in E. subst i. destruct Hj as [H1 H2 H3 H4 H5 H6 H7 H8].
              destruct (H2 E3) as (Hx1 & Hx2 & Hx3).
              assert (Hz := proj1 H3 Et). rewrite E3 in H5.
              constructor; cg; rewrite ?Ecl, ?Ety; cbn; try fin.
              intros _. auto.
           ++ apply other_event; [cbn; apply Z.eqb_neq; exact E|apply HI].
  - (* FrameEnd *)
    destruct (inflight m =? 0); [|discriminate]. injection Hs as <-. split.
    + rewrite !cnt_snoc. cbn. lia.
    + intros i. apply other_event; [exact I|apply HI].
  - (* Final *)
    destruct ((c_loc (gc m j) =? loc) && match c_exp (gc m j) with None => true | Some _ => false end); [|discriminate].
    injection Hs as <-. split.
    + rewrite !cnt_snoc. cbn. lia.
    + intros i. apply other_event; [exact I|apply HI].
Qed.

Lemma Inv0 : Inv [] (mkSt [] 0).
Proof.
  split; [reflexivity|]. intros i. constructor; cbn; try discriminate; try reflexivity; auto.
  split; reflexivity.
Qed.

Theorem C03_sound : forall es stt, acc es = Accept stt -> P_C03 es.
Proof.
  intros es stt H. unfold acc in H.
  destruct (replay step (mkSt [] 0) 0 es) as [[i0 c0]|] eqn:Er; [discriminate|].
  pose proof (replay_sound step Inv _ Inv0 step_inv es 0 Er) as RS.
  unfold P_C03. split; [|split; [|split; [|split]]].
  - intros pre i n t post E0. destruct (RS _ _ _ E0) as (mp & m' & [_ HI] & Hs). cbn [step] in Hs.
    destruct (HI i) as [H1 _ _ _ _ _ _ _].
    destruct (c_exp (gc mp i)) as [[n' t']|] eqn:Ee; [|discriminate].
    destruct ((n' =? n) && (t' =? t) && (0 <? n)) eqn:Ec; [|discriminate].
    apply andb_true_iff in Ec as [Ec _]. apply andb_true_iff in Ec as [E1 E2]. apply Z.eqb_eq in E1, E2. subst.
    apply H1. reflexivity.
  - intros pre i t post E0. destruct (RS _ _ _ E0) as (mp & m' & [_ HI] & Hs). cbn [step] in Hs.
    destruct (HI i) as [H1 _ _ _ _ _ _ _].
    destruct (c_exp (gc mp i)) as [[n' t']|] eqn:Ee; [|discriminate].
    destruct ((n' =? 0) && (t' =? t)) eqn:Ec; [|discriminate].
    apply andb_true_iff in Ec as [E1 E2]. apply Z.eqb_eq in E1, E2. subst. apply H1. reflexivity.
  - intros pre i ty nd arr ex dst post E0. destruct (RS _ _ _ E0) as (mp & m' & [_ HI] & Hs). cbn [step] in Hs.
    destruct (HI i) as [H1 H2 H3 H4 H5 H6 H7 H8].
    destruct (c_term (gc mp i)) eqn:Et; [discriminate|]. pose proof (proj1 H3 eq_refl) as Hz.
    destruct ((ty =? 3) || (ty =? 4)) eqn:Ety.
    + destruct (c_exp (gc mp i)) as [[n' t']|] eqn:Ee; [|discriminate].
      destruct ((n' =? nd) && (t' =? arr) && (arr =? ex) && (c_nrec (gc mp i) =? 0) && (c_loc (gc mp i) =? -1)) eqn:Ec; [|discriminate].
      apply andb_true_iff in Ec as [Ec E5]. apply andb_true_iff in Ec as [Ec E4]. apply andb_true_iff in Ec as [Ec E3].
      apply andb_true_iff in Ec as [E1 E2]. apply Z.eqb_eq in E1, E2, E3, E4, E5. subst n' t'.
      split; [apply H1; reflexivity|]. split; [exact Hz|]. split.
      * intros _. split; [rewrite <- H4; exact E4|]. split; [exact E3|apply H7; exact E5].
      * intros N3 N4. apply orb_true_iff in Ety. destruct Ety as [Ex|Ex]; apply Z.eqb_eq in Ex; congruence.
    + destruct ((c_loc (gc mp i) =? nd) && (c_arr (gc mp i) =? arr) && c_open (gc mp i) && (0 <? nd)) eqn:Ec; cbn [negb] in Hs; [|discriminate].
      apply andb_true_iff in Ec as [Ec E4]. apply andb_true_iff in Ec as [Ec E3]. apply andb_true_iff in Ec as [E1 E2].
      apply Z.eqb_eq in E1, E2. destruct (H2 E3) as (_ & Ht & _). rewrite E1, E2 in Ht.
      split; [exact Ht|]. split; [exact Hz|]. split.
      * intros [Hx|Hx]; subst ty; cbn in Ety; discriminate.
      * intros _ _. rewrite E3 in H5. split; [exact H5|].
        intros Hty. unfold closes in Hs.
        assert (Eb : (ty =? 0) || (ty =? 2) = true) by (destruct Hty; subst ty; reflexivity).
        rewrite Eb in Hs. destruct (0 <=? dst) eqn:Ed; [apply Z.leb_le; exact Ed|].
        destruct (ty =? 1) eqn:E1t; [|discriminate]. destruct Hty; subst ty; discriminate.
  - intros pre post E0. destruct (RS _ _ _ E0) as (mp & m' & [Hfl _] & Hs). cbn [step] in Hs.
    destruct (inflight mp =? 0) eqn:Ez; [|discriminate]. apply Z.eqb_eq in Ez. lia.
  - intros pre i loc post E0. destruct (RS _ _ _ E0) as (mp & m' & [_ HI] & Hs). cbn [step] in Hs.
    destruct (HI i) as [_ _ _ _ _ H6 _ _].
    destruct ((c_loc (gc mp i) =? loc) && match c_exp (gc mp i) with None => true | Some _ => false end) eqn:Ec; [|discriminate].
    apply andb_true_iff in Ec as [E1 _]. apply Z.eqb_eq in E1. rewrite <- E1. exact H6.
Qed.

(* non-vacuity: a journey 1 -> 2 -> exit with a blocked spell, a baulker, and an interrupted record is accepted;
   a customer delivered to another node than its record names, a gap in time, a second record after a rejection and a
   customer that vanished are rejected *)
Example acc_example :
  is_accept (acc [Spawn 1 1 0; Enter 1 1 0; FrameEnd; Spawn 2 1 3; Rec 2 3 1 3 3 (-2); ExitEnter 2 3; FrameEnd;
                  Rec 1 1 1 0 4 (-2); FrameEnd; Rec 1 0 1 0 9 2; Enter 1 2 9; FrameEnd; Rec 1 0 2 9 12 0; ExitEnter 1 12; FrameEnd;
                  Final 1 0; Final 2 0]) = true.
Proof. vm_compute. reflexivity. Qed.
Example rej_wrong_node : acc [Spawn 1 1 0; Enter 1 1 0; Rec 1 0 1 0 9 2; Enter 1 3 9] = Reject 3 31 [].
Proof. vm_compute. reflexivity. Qed.
Example rej_gap : acc [Spawn 1 1 0; Enter 1 1 0; Rec 1 0 1 0 9 2; Enter 1 2 10] = Reject 3 31 [].
Proof. vm_compute. reflexivity. Qed.
Example rej_after_rejection : acc [Spawn 2 1 3; Rec 2 4 1 3 3 (-2); ExitEnter 2 3; Rec 2 0 1 3 5 0] = Reject 3 34 [].
Proof. vm_compute. reflexivity. Qed.
Example rej_vanished : acc [Spawn 1 1 0; Enter 1 1 0; Rec 1 0 1 0 9 2; FrameEnd] = Reject 3 39 [].
Proof. vm_compute. reflexivity. Qed.

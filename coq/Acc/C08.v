(* C08 -- service order.  One case = one service start at a node with a built-in
   discipline: the discipline (0 FIFO, 1 LIFO, 2 SIRO), the chosen customer, and the node's
   priority classes at the moment of the choice, each a list of (id, waiting?, arrival date,
   priority DECLARED for the customer's class in the parameters) in list order, highest priority
   (lowest number) first. *)
From Coq Require Import ZArith List Bool Lia.
From CiwV Require Import Sx Prelude Trace.
Import ListNotations.
Open Scope Z_scope.

Record cust := mkC { c_id : Z; c_wait : bool; c_arr : Z; c_prio : Z }.
Record start := mkStart { disc : Z; chosen : Z; classes : list (list cust) }.

Definition decode_cust (s : sx) : option cust :=
  match s with L [A i; w; A a; A p] => do w' <- getBool w; Some (mkC i w' a p) | _ => None end.
Definition decode_start (s : sx) : option start :=
  match s with
  | L [A d; A c; cls] =>
    do cl <- getL cls; do cls' <- omap (fun q => do l <- getL q; omap decode_cust l) cl; Some (mkStart d c cls')
  | _ => None
  end.

Definition waiting (l : list cust) : list cust := filter c_wait l.

(* first class that has anyone waiting, with the classes above it *)
Fixpoint first_class (cls : list (list cust)) : option (list cust) :=
  match cls with
  | [] => None
  | l :: r => match waiting l with [] => first_class r | _ => Some l end
  end.

Fixpoint sorted_arr (l : list cust) : bool :=
  match l with
  | [] => true
  | a :: r => (match r with [] => true | b :: _ => c_arr a <=? c_arr b end) && sorted_arr r
  end.

(* every waiting customer sits in the list of the priority class declared for its customer class *)
Fixpoint placed (p : Z) (cls : list (list cust)) : bool :=
  match cls with
  | [] => true
  | l :: r => forallb (fun c => c_prio c =? p) (waiting l) && placed (p + 1) r
  end.

Definition start_clause (s : start) : option Z :=
  if negb (placed 0 (classes s)) then Some 55 else
  match first_class (classes s) with
  | None => Some 50                                   (* nobody was waiting *)
  | Some l =>
    let w := waiting l in
    if negb (existsb (fun c => c_id c =? chosen s) w) then Some 51   (* not from the first waiting class *)
    else if disc s =? 0 then
      match w with
      | c :: _ => if c_id c =? chosen s then (if sorted_arr w then None else Some 54) else Some 52
      | [] => Some 50
      end
    else if disc s =? 1 then
      match rev w with
      | c :: _ => if c_id c =? chosen s then None else Some 53
      | [] => Some 50
      end
    else None
  end.

Fixpoint scan_starts (k : Z) (l : list start) : option (Z * Z) :=
  match l with
  | [] => None
  | s :: r => match start_clause s with Some c => Some (k, c) | None => scan_starts (k + 1) r end
  end.

Definition acc (l : list start) : verdict :=
  match scan_starts 0 l with
  | Some (k, c) => Reject k c []
  | None => Accept [zlen l]
  end.

Definition run (s : sx) : verdict :=
  match (do l <- getL s; omap decode_start l) with Some l => acc l | None => BadInput 0 end.

(* ---- T1 ---- *)
(* classes strictly above the first waiting class have nobody waiting *)
Lemma first_class_spec : forall cls l, first_class cls = Some l ->
  exists pre post, cls = pre ++ l :: post /\ (forall q, In q pre -> waiting q = []) /\ waiting l <> [].
Proof.
  induction cls as [|q r IH]; intros l H; [discriminate|]. cbn in H.
  destruct (waiting q) eqn:E.
  - destruct (IH _ H) as (pre & post & -> & H1 & H2). exists (q :: pre), post. split; [reflexivity|split; auto].
    intros x [<-|Hx]; auto.
  - injection H as <-. exists [], r. split; [reflexivity|split; [intros ? []|congruence]].
Qed.

Lemma sorted_head_min : forall l a, sorted_arr (a :: l) = true -> forall b, In b l -> c_arr a <= c_arr b.
Proof.
  induction l as [|x r IH]; intros a H b Hb; [destruct Hb|].
  cbn in H. apply andb_true_iff in H as [H1 H2]. apply Z.leb_le in H1.
  destruct Hb as [<-|Hb]; [exact H1|].
  assert (c_arr x <= c_arr b) by (apply IH; assumption). lia.
Qed.

Definition P_start (s : start) : Prop :=
  exists pre l post, classes s = pre ++ l :: post /\
    (* nobody of a higher priority class is waiting *)
    (forall q c, In q pre -> In c q -> c_wait c = false) /\
    (* the chosen customer is a waiting member of that class *)
    (exists c, In c l /\ c_wait c = true /\ c_id c = chosen s) /\
    (* FIFO: it is the first waiting one in list order, and no waiting customer of its class arrived earlier *)
    (disc s = 0 -> exists c w, waiting l = c :: w /\ c_id c = chosen s /\ forall b, In b w -> c_arr c <= c_arr b) /\
    (* LIFO: it is the last waiting one in list order *)
    (disc s = 1 -> exists c w, rev (waiting l) = c :: w /\ c_id c = chosen s) /\
    (* the lists are the DECLARED priority classes: the p-th list holds waiting customers of declared priority p only *)
    (forall p q c, nth_error (classes s) p = Some q -> In c q -> c_wait c = true -> c_prio c = Z.of_nat p).

Lemma placed_spec : forall cls p0, placed p0 cls = true ->
  forall p q c, nth_error cls p = Some q -> In c q -> c_wait c = true -> c_prio c = p0 + Z.of_nat p.
Proof.
  induction cls as [|l r IH]; intros p0 H p q c Hn Hc Hw; [destruct p; discriminate|].
  cbn in H. apply andb_true_iff in H as [H1 H2]. destruct p as [|p]; cbn in Hn.
  - injection Hn as <-. rewrite forallb_forall in H1. assert (Hin : In c (waiting l)) by (apply filter_In; auto).
    specialize (H1 _ Hin). apply Z.eqb_eq in H1. lia.
  - specialize (IH _ H2 p q c Hn Hc Hw). lia.
Qed.

Lemma start_clause_ok s : start_clause s = None -> P_start s.
Proof.
  unfold start_clause. destruct (placed 0 (classes s)) eqn:Epl; cbn [negb]; [|discriminate].
  destruct (first_class (classes s)) as [l|] eqn:Ef; [|discriminate].
  destruct (first_class_spec _ _ Ef) as (pre & post & Ecls & Hpre & Hne).
  destruct (existsb (fun c => c_id c =? chosen s) (waiting l)) eqn:Ex; cbn; [|discriminate].
  intros H. exists pre, l, post. split; [exact Ecls|]. split; [|split; [|split; [|split]]].
  - intros q c Hq Hc. specialize (Hpre q Hq). destruct (c_wait c) eqn:Ew; [|reflexivity].
    assert (In c (waiting q)) by (apply filter_In; auto). rewrite Hpre in H0. destruct H0.
  - apply existsb_exists in Ex as (c & Hc & Eid). apply filter_In in Hc as [Hc Hw]. apply Z.eqb_eq in Eid. eauto.
  - intros Hd. rewrite Hd in H. cbn in H. destruct (waiting l) as [|c w] eqn:Ew; [discriminate|].
    destruct (c_id c =? chosen s) eqn:Ec; [|discriminate]. destruct (sorted_arr (c :: w)) eqn:Es; [|discriminate].
    apply Z.eqb_eq in Ec. exists c, w. split; [reflexivity|split; [exact Ec|]]. apply sorted_head_min. exact Es.
  - intros Hd. rewrite Hd in H. cbn in H. destruct (rev (waiting l)) as [|c w] eqn:Ew; [discriminate|].
    destruct (c_id c =? chosen s) eqn:Ec; [|discriminate]. apply Z.eqb_eq in Ec. eauto.
  - intros p q c Hn Hc Hw. apply (placed_spec _ _ Epl p q c Hn Hc Hw).
Qed.

Theorem C08_sound : forall l st, acc l = Accept st -> forall s, In s l -> P_start s.
Proof.
  intros l st H. unfold acc in H. destruct (scan_starts 0 l) as [[k c]|] eqn:E; [discriminate|].
  clear H. revert E. generalize 0. induction l as [|x r IH]; intros k E s Hs; [destruct Hs|].
  cbn in E. destruct (start_clause x) eqn:Ex; [discriminate|].
  destruct Hs as [<-|Hs]; [apply start_clause_ok; exact Ex|eapply IH; eauto].
Qed.

Example acc_example :
  is_accept (acc [ mkStart 0 7 [[mkC 3 false 1 0]; [mkC 7 true 2 1; mkC 9 true 4 1]];
                   mkStart 1 9 [[]; [mkC 7 true 2 1; mkC 9 true 4 1]] ]) = true.
Proof. vm_compute. reflexivity. Qed.
Example rej_priority :
  acc [ mkStart 0 7 [[mkC 3 true 1 0]; [mkC 7 true 2 1]] ] = Reject 0 51 [].
Proof. vm_compute. reflexivity. Qed.

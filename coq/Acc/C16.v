(* C16 -- pause / resume transparency.  The acceptor receives the outcome of ONE call simulate_until_max_time(T) and
   the outcome of SEVERAL successive calls with increasing horizons ending at T on the same network and seed, each as
   integer trees: all data records, the final clock, every server's busy and total time (and the retired servers'
   totals), and the reported utilisation as an exact fraction.  It accepts iff the four components are identical. *)
From Coq Require Import ZArith List Bool Lia.
From CiwV Require Import Sx Prelude.
Import ListNotations.
Open Scope Z_scope.

Fixpoint sx_eqb (a b : sx) : bool :=
  match a, b with
  | A x, A y => x =? y
  | L l, L m =>
    (fix go (l m : list sx) : bool :=
       match l, m with
       | [], [] => true
       | x :: r, y :: s => sx_eqb x y && go r s
       | _, _ => false
       end) l m
  | _, _ => false
  end.

(* induction principle for the nested type *)
Section SxInd.
  Variable P : sx -> Prop.
  Hypothesis HA : forall z, P (A z).
  Hypothesis HL : forall l, Forall P l -> P (L l).
  Fixpoint sx_ind' (s : sx) : P s :=
    match s with
    | A z => HA z
    | L l => HL l ((fix go (l : list sx) : Forall P l :=
                     match l with [] => Forall_nil P | x :: r => Forall_cons x (sx_ind' x) (go r) end) l)
    end.
End SxInd.

Lemma sx_eqb_eq : forall a b, sx_eqb a b = true -> a = b.
Proof.
  induction a as [x|l IH] using sx_ind'; intros [y|m] H; cbn in H; try discriminate.
  - apply Z.eqb_eq in H. congruence.
  - f_equal. revert m H. induction IH as [|x r Hx Hr IHr]; intros [|y s] H; try discriminate; [reflexivity|].
    apply andb_true_iff in H as [H1 H2]. f_equal; [apply Hx; exact H1|apply IHr; exact H2].
Qed.

Record outcome := mkO { recs : sx; clock : sx; servers : sx; util : sx }.
Definition decode_o (s : sx) : option outcome :=
  match s with L [r; c; sv; u] => Some (mkO r c sv u) | _ => None end.

Definition acc (one split : outcome) : verdict :=
  if negb (sx_eqb (recs one) (recs split)) then Reject 0 210 []          (* records differ *)
  else if negb (sx_eqb (clock one) (clock split)) then Reject 0 211 []    (* final clock differs *)
  else if negb (sx_eqb (servers one) (servers split)) then Reject 0 212 []  (* busy / total time of a server differs *)
  else if negb (sx_eqb (util one) (util split)) then Reject 0 213 []      (* utilisation differs *)
  else Accept [].

Definition run (s : sx) : verdict :=
  match s with
  | L [a; b] => match decode_o a, decode_o b with Some x, Some y => acc x y | _, _ => BadInput 0 end
  | _ => BadInput 0
  end.

Theorem C16_sound : forall one split stt, acc one split = Accept stt -> one = split.
Proof.
  intros [r1 c1 s1 u1] [r2 c2 s2 u2] stt H. unfold acc in H. cbn in H.
  destruct (sx_eqb r1 r2) eqn:E1; cbn in H; [|discriminate].
  destruct (sx_eqb c1 c2) eqn:E2; cbn in H; [|discriminate].
  destruct (sx_eqb s1 s2) eqn:E3; cbn in H; [|discriminate].
  destruct (sx_eqb u1 u2) eqn:E4; cbn in H; [|discriminate].
  apply sx_eqb_eq in E1, E2, E3, E4. congruence.
Qed.

Example acc_example : is_accept (acc (mkO (L [A 1; L [A 2]]) (A 5) (L []) (L [A 1; A 2])) (mkO (L [A 1; L [A 2]]) (A 5) (L []) (L [A 1; A 2]))) = true.
Proof. reflexivity. Qed.
Example rej_example : acc (mkO (L [A 1]) (A 5) (L [A 7]) (L [])) (mkO (L [A 1]) (A 5) (L [A 8]) (L [])) = Reject 0 212 [].
Proof. reflexivity. Qed.

(* Acc/C20.v -- acceptor for the records of an exact-mode run (property C20).

   The harness runs the real simulation twice on the same integer-tick
   configuration: with exact=k, the samples being the decimal literals
   ticks/10^d (so every value the engine draws reads back through str() as that
   literal), and as a binary floating-point run on a dyadic grid, on which
   float arithmetic is exact and which is therefore the integer tick run.  For
   every record it sends the discrete fields of both runs and, for every date /
   duration field, what the exact run holds (is it a Decimal; its coefficient and
   exponent as Python's as_tuple gives them) together with the tick value of the
   same field in the tick run.  The acceptor checks, per record:
     100  the discrete fields of the two runs are equal
     101  the field is a decimal.Decimal
     102  its value is exactly ticks * 10^-d  (no drift: the exact run is the tick run)
     103  its coefficient has at most k digits (it is a value at the context precision)
   Decimal.sum_ticks / coincide are the reason 102 must hold for a faithful
   implementation; C20_sound says what an accepted run satisfies. *)
From Coq Require Import ZArith QArith Qpower List Bool Lia.
From CiwV Require Import Sx Prelude Decimal.
Import ListNotations.
Open Scope Z_scope.

Record fld : Type := mkF { f_isdec : Z; f_m : Z; f_e : Z; f_t : Z }.
Record rcd : Type := mkR { r_da : list Z; r_db : list Z; r_f : list fld }.

Definition fld_clause (k d : Z) (f : fld) : Z :=
  if negb (f_isdec f =? 1) then 101
  else if negb (dec_eqb (mkD (f_m f) (f_e f)) (mkD (f_t f) (- d))) then 102
  else if negb (ndigits (f_m f) <=? k) then 103
  else 0.

Fixpoint flds_clause (k d j : Z) (l : list fld) : option (Z * Z) :=
  match l with
  | [] => None
  | f :: r => let c := fld_clause k d f in
              if c =? 0 then flds_clause k d (j + 1) r else Some (c, j)
  end.

Definition rcd_clause (k d : Z) (r : rcd) : option (Z * Z) :=
  if negb (list_eqb (r_da r) (r_db r)) then Some (100, 0) else flds_clause k d 0 (r_f r).

Fixpoint replay (k d i : Z) (rs : list rcd) : option (Z * Z * Z) :=
  match rs with
  | [] => None
  | r :: rest => match rcd_clause k d r with
                 | Some (c, j) => Some (i, c, j)
                 | None => replay k d (i + 1) rest
                 end
  end.

Definition acc (k d : Z) (rs : list rcd) : verdict :=
  match replay k d 0 rs with
  | Some (i, c, j) => Reject i c [j]
  | None => Accept [zlen rs; zsum (map (fun r => zlen (r_f r)) rs)]
  end.

(* ---- what an accepted run satisfies *)
Definition fld_ok (k d : Z) (f : fld) : Prop :=
  f_isdec f = 1 /\
  (dval (mkD (f_m f) (f_e f)) == inject_Z (f_t f) * q10 ^ (- d))%Q /\
  Z.abs (f_m f) < 10 ^ k.
Definition rcd_ok (k d : Z) (r : rcd) : Prop := r_da r = r_db r /\ Forall (fld_ok k d) (r_f r).

Lemma fld_clause_ok k d f : 0 <= k -> fld_clause k d f = 0 -> fld_ok k d f.
Proof.
  intros Hk. unfold fld_clause, fld_ok.
  destruct (f_isdec f =? 1) eqn:E1; cbn [negb]; [|discriminate].
  destruct (dec_eqb _ _) eqn:E2; cbn [negb]; [|discriminate].
  destruct (ndigits (f_m f) <=? k) eqn:E3; cbn [negb]; [|discriminate].
  intros _. apply Z.eqb_eq in E1. apply dec_eqb_spec in E2. apply Z.leb_le in E3.
  apply (ndigits_le k _ Hk) in E3. repeat split; try assumption.
Qed.

Lemma flds_clause_ok k d : 0 <= k -> forall l j, flds_clause k d j l = None -> Forall (fld_ok k d) l.
Proof.
  intros Hk. induction l as [|f r IH]; intros j H; [constructor|].
  cbn [flds_clause] in H. destruct (fld_clause k d f =? 0) eqn:E; [|discriminate].
  apply Z.eqb_eq in E. constructor; [apply fld_clause_ok; assumption|eapply IH; eassumption].
Qed.

Lemma replay_ok k d : 0 <= k -> forall rs i, replay k d i rs = None -> Forall (rcd_ok k d) rs.
Proof.
  intros Hk. induction rs as [|r rest IH]; intros i H; [constructor|].
  cbn [replay] in H. destruct (rcd_clause k d r) as [[c j]|] eqn:E; [discriminate|].
  constructor; [|eapply IH; eassumption].
  unfold rcd_clause in E. destruct (list_eqb (r_da r) (r_db r)) eqn:E1; cbn [negb] in E; [|discriminate].
  split; [apply list_eqb_eq; assumption|eapply flds_clause_ok; eassumption].
Qed.

(* T1: in an accepted pair of runs every record of the exact run has the discrete fields of the tick run,
   every date and duration is a Decimal at the context precision whose value is exactly the tick value *)
Theorem C20_sound k d rs st : 0 <= k -> acc k d rs = Accept st -> Forall (rcd_ok k d) rs.
Proof.
  intros Hk H. unfold acc in H. destruct (replay k d 0 rs) as [[[i c] j]|] eqn:E; [discriminate|].
  eapply replay_ok; eassumption.
Qed.

(* consequently two fields of an accepted run with the same tick value are equal Decimals (== is True),
   whatever additions produced them: simultaneous events are simultaneous *)
Corollary C20_coincide k d f g : fld_ok k d f -> fld_ok k d g -> f_t f = f_t g ->
  dec_eqb (mkD (f_m f) (f_e f)) (mkD (f_m g) (f_e g)) = true.
Proof.
  intros [_ [Hf _]] [_ [Hg _]] E. apply dec_eqb_spec. rewrite Hf, Hg, E. reflexivity.
Qed.

(* ---- decoding *)
Definition dec_fld (s : sx) : option fld :=
  match s with L [A i; A m; A e; A t] => Some (mkF i m e t) | _ => None end.
Definition dec_rcd (s : sx) : option rcd :=
  match s with
  | L [a; b; L fs] => do a' <- getZs a; do b' <- getZs b; do fs' <- omap dec_fld fs; Some (mkR a' b' fs')
  | _ => None
  end.

Definition run (s : sx) : verdict :=
  match s with
  | L [A k; A d; L rs] =>
    if k <? 0 then BadInput 2 else
    match omap dec_rcd rs with
    | Some rs' => acc k d rs'
    | None => BadInput 1
    end
  | _ => BadInput 0
  end.

(* ---- model evaluations for the object-level differential against Python's decimal module *)
Definition enc_dec (x : dec) : sx := L [A (dm x); A (de x)].
Definition dec_pair (s : sx) : option dec := match s with L [A m; A e] => Some (mkD m e) | _ => None end.
Fixpoint scan (k : Z) (acc : dec) (l : list dec) : list dec :=
  match l with [] => [] | x :: r => let a := add_k k acc x in a :: scan k a r end.
Lemma scan_last k l : forall acc, last (scan k acc l) acc = fold_left (add_k k) l acc.
Proof.
  induction l as [|x r IH]; intros acc; [reflexivity|].
  cbn [scan fold_left]. rewrite last_cons. apply IH.
Qed.

Definition model (which : Z) (s : sx) : sx :=
  match which with
  | 200 => (* a + b at precision k *)
    match s with L [A k; A m1; A e1; A m2; A e2] => enc_dec (add_k k (mkD m1 e1) (mkD m2 e2)) | _ => L [] end
  | 201 => (* Decimal("literal") *)
    match s with
    | L [A sg; ip; fp; A ex] =>
      match getZs ip, getZs fp with
      | Some ip', Some fp' => enc_dec (of_lit (negb (sg =? 0)) ip' fp' ex)
      | _, _ => L []
      end
    | _ => L []
    end
  | 202 => (* running sums acc + x1, (acc + x1) + x2, ... at precision k *)
    match s with
    | L [A k; a0; L xs] =>
      match dec_pair a0, omap dec_pair xs with
      | Some a, Some l => L (map enc_dec (scan k a l))
      | _, _ => L []
      end
    | _ => L []
    end
  | 203 => (* exact comparison of two decimals: -1, 0, 1 *)
    match s with
    | L [A m1; A e1; A m2; A e2] =>
      A (match dec_cmp (mkD m1 e1) (mkD m2 e2) with Lt => -1 | Eq => 0 | Gt => 1 end)
    | _ => L []
    end
  | _ => L []
  end.

Example acc_example :
  acc 10 2 [mkR [1; 2] [1; 2] [mkF 1 150 (-2) 150; mkF 1 15 (-1) 150; mkF 1 3 0 300]] = Accept [1; 3].
Proof. vm_compute. reflexivity. Qed.
(* Decimal(0.6) = 0.59999999999999997779553950749686919152736663818359375 is not 6 ticks of 1/10 *)
Example rej_binary_expansion :
  acc 12 1 [mkR [] [] [mkF 1 59999999999999997779553950749686919152736663818359375 (-53) 6]] = Reject 0 102 [0].
Proof. vm_compute. reflexivity. Qed.
Example rej_not_decimal : acc 12 1 [mkR [] [] [mkF 0 0 0 6]] = Reject 0 101 [0].
Proof. vm_compute. reflexivity. Qed.
Example rej_discrete : acc 12 1 [mkR [1; 2] [1; 3] []] = Reject 0 100 [0].
Proof. vm_compute. reflexivity. Qed.

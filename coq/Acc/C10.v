(* C10 -- sampled inputs honoured.  The acceptor walks the run's sampling-related events in
   execution order: every draw returned by an arrival / batch / service distribution (logged
   inside the distribution object itself, i.e. the oracle), every arrival event with its date,
   every customer created, every service start, interruption and service record.  Streams are
   numbered s = node * K + class. *)
From Coq Require Import ZArith List Bool Lia.
From CiwV Require Import Sx Prelude Replay.
Import ListNotations.
Open Scope Z_scope.

Inductive ev :=
| ADraw (s : Z) (v : xnum)                 (* inter-arrival sample of stream s                 *)
| AEvent (s d : Z)                         (* arrival event of stream s executed at date d      *)
| BDraw (s : Z) (b : xnum)                 (* batch-size sample (XNone = not an integer)        *)
| Spawn (s : Z)                            (* one customer created for stream s                 *)
| AEnd (s : Z)                             (* the arrival event of stream s is over             *)
| Start (ind node now kind : Z)            (* service start; kind 0 fresh, 1 resume/restart, 2 resample *)
| SDraw (ind node t : Z) (v : xnum) (now : Z)   (* service-time sample for customer ind, passed time t *)
| Int (ind : Z)                            (* the service of ind is interrupted / pre-empted    *)
| SRec (ind node stt stime en : Z)         (* service record written                            *)
| Clock (t : Z).                           (* the clock value at which an event is executed     *)

Definition decode_ev (s : sx) : option ev :=
  match s with
  | L [A 1; A s; v] => do v' <- getX v; Some (ADraw s v')
  | L [A 2; A s; A d] => Some (AEvent s d)
  | L [A 3; A s; b] => do b' <- getX b; Some (BDraw s b')
  | L [A 4; A s] => Some (Spawn s)
  | L [A 5; A s] => Some (AEnd s)
  | L [A 6; A i; A n; A t; A k] => Some (Start i n t k)
  | L [A 7; A i; A n; A t; v; A now] => do v' <- getX v; Some (SDraw i n t v' now)
  | L [A 8; A i] => Some (Int i)
  | L [A 9; A i; A n; A a; A b; A c] => Some (SRec i n a b c)
  | L [A 10; A t] => Some (Clock t)
  | _ => None
  end.

Definition valid (v : xnum) : option Z := match v with XNum z => if 0 <=? z then Some z else None | _ => None end.

(* descriptor of a customer's current service *)
Record sv := mkSv { sv_node : Z; sv_start : Z; sv_draw : option Z; sv_tainted : bool }.
Definition sv0 := mkSv 0 0 None false.

Record st := mkSt {
  asum : list (Z * Z); ndraw : list (Z * Z); narr : list (Z * Z); bsum : list (Z * Z); nsp : list (Z * Z);
  open : option (Z * Z);         (* stream of the arrival event in progress, stage 0 / 1 (batch drawn) / 2 (next date drawn) *)
  svc : list (Z * sv);
  expect : Z                     (* 0 nothing; i > 0: the start of customer i still awaits its draw; -1: an invalid sample was seen *)
}.
Definition st0 := mkSt [] [] [] [] [] None [] 0.
Definition g := aget 0.
Definition gs := aget sv0.

Definition step (m : st) (e : ev) : st + Z :=
  if expect m =? -1 then inr 100 else                       (* the run continued after an invalid sample *)
  match e with
  | ADraw s v =>
    if negb (expect m =? 0) then inr 108 else
    match (match open m with
           | None => if (g (narr m) s =? 0) && (g (ndraw m) s =? 0) then Some None else None
           | Some (s', stage) => if (s' =? s) && (stage =? 1) then Some (Some (s, 2)) else None end) with
    | None => inr 106                                       (* an inter-arrival draw outside "once per arrival event, after the batch" *)
    | Some op =>
      match valid v with
      | None => inl (mkSt (asum m) (ndraw m) (narr m) (bsum m) (nsp m) (open m) (svc m) (-1))
      | Some z => inl (mkSt (aset (asum m) s (g (asum m) s + z)) (aset (ndraw m) s (g (ndraw m) s + 1))
                            (narr m) (bsum m) (nsp m) op (svc m) 0)
      end
    end
  | AEvent s d =>
    if negb (expect m =? 0) then inr 108 else
    match open m with Some _ => inr 106 | None =>
      if negb (g (ndraw m) s =? g (narr m) s + 1) then inr 101     (* exactly one draw per arrival so far *)
      else if negb (d =? g (asum m) s) then inr 102                (* the arrival happens at the partial sum *)
      else inl (mkSt (asum m) (ndraw m) (aset (narr m) s (g (narr m) s + 1)) (bsum m) (nsp m) (Some (s, 0)) (svc m) 0)
    end
  | BDraw s b =>
    if negb (expect m =? 0) then inr 108 else
    match open m with
    | Some (s', 0) =>
      if negb (s' =? s) then inr 103 else
      match valid b with
      | None => inl (mkSt (asum m) (ndraw m) (narr m) (bsum m) (nsp m) (open m) (svc m) (-1))
      | Some z => inl (mkSt (asum m) (ndraw m) (narr m) (aset (bsum m) s (g (bsum m) s + z)) (nsp m) (Some (s, 1)) (svc m) 0)
      end
    | _ => inr 103                                                 (* batch draw not at the head of an arrival event *)
    end
  | Spawn s =>
    match open m with
    | Some (s', 1) =>
      if negb (s' =? s) then inr 104
      else if negb (g (nsp m) s <? g (bsum m) s) then inr 105      (* more customers than the sampled batch *)
      else inl (mkSt (asum m) (ndraw m) (narr m) (bsum m) (aset (nsp m) s (g (nsp m) s + 1)) (open m) (svc m) (expect m))
    | _ => inr 104                                                 (* customer created outside a batch *)
    end
  | AEnd s =>
    if negb (expect m =? 0) then inr 108 else
    match open m with
    | Some (s', 2) =>
      if negb (s' =? s) then inr 106
      else if negb (g (nsp m) s =? g (bsum m) s) then inr 107      (* fewer customers than the sampled batch *)
      else inl (mkSt (asum m) (ndraw m) (narr m) (bsum m) (nsp m) None (svc m) 0)
    | _ => inr 106
    end
  | Start i n t k =>
    if negb (expect m =? 0) then inr 108                           (* the previous start never drew its service time *)
    else if i <=? 0 then inr 108
    else inl (mkSt (asum m) (ndraw m) (narr m) (bsum m) (nsp m) (open m)
                   (aset (svc m) i (mkSv n t None (k =? 1))) (if k =? 1 then 0 else i))
  | SDraw i n t v now =>
    if (i <=? 0) || negb (expect m =? i) then inr 109                           (* a service draw that is not for the customer that just started *)
    else let r := gs (svc m) i in
    if negb (sv_node r =? n) then inr 110
    else if negb ((t =? now) && (sv_start r =? now)) then inr 111  (* sampled at the start instant, for the current time *)
    else match valid v with
         | None => inl (mkSt (asum m) (ndraw m) (narr m) (bsum m) (nsp m) (open m) (svc m) (-1))
         | Some z => inl (mkSt (asum m) (ndraw m) (narr m) (bsum m) (nsp m) (open m)
                               (aset (svc m) i (mkSv n (sv_start r) (Some z) (sv_tainted r))) 0)
         end
  | Int i =>
    if negb (expect m =? 0) then inr 108 else
    let r := gs (svc m) i in
    inl (mkSt (asum m) (ndraw m) (narr m) (bsum m) (nsp m) (open m) (aset (svc m) i (mkSv (sv_node r) (sv_start r) (sv_draw r) true)) 0)
  | SRec i n a b c =>
    if negb (expect m =? 0) then inr 108 else
    let r := gs (svc m) i in
    if sv_tainted r then inl (mkSt (asum m) (ndraw m) (narr m) (bsum m) (nsp m) (open m) (aset (svc m) i sv0) 0)
    else match sv_draw r with
         | None => inr 112                                         (* a service record without a service-time draw *)
         | Some z =>
           if (sv_node r =? n) && (b =? z) && (a =? sv_start r) && (c =? a + z)
           then inl (mkSt (asum m) (ndraw m) (narr m) (bsum m) (nsp m) (open m) (aset (svc m) i sv0) 0)
           else inr 112                                            (* the service did not last exactly the sampled time *)
         end
  | Clock t =>
    (* no arrival is overdue: the pending date of every stream is not before the clock *)
    if forallb (fun s => t <=? g (asum m) s) (map fst (asum m)) then inl m else inr 115
  end.

Definition acc (es : list ev) (raised : bool) : verdict :=
  match replay step st0 0 es with
  | Some (i, c) => Reject i c []
  | None =>
    match state_after step st0 es with
    | Some mf => if (expect mf =? -1) && negb raised then Reject (zlen es) 114 []   (* an invalid sample did not raise *)
                 else Accept [zlen es]
    | None => BadInput 3
    end
  end.

Definition run (s : sx) : verdict :=
  match s with
  | L [e; r] =>
    match (do l <- getL e; omap decode_ev l), getBool r with
    | Some es, Some r' => acc es r'
    | _, _ => BadInput 0
    end
  | _ => BadInput 0
  end.

(* ---------------- the property, on the whole event list ---------------- *)
Definition adraws (s : Z) (es : list ev) : list Z :=
  flat_map (fun e => match e with ADraw s' v => if s' =? s then match valid v with Some z => [z] | None => [] end else [] | _ => [] end) es.
Definition bdraws (s : Z) (es : list ev) : list Z :=
  flat_map (fun e => match e with BDraw s' v => if s' =? s then match valid v with Some z => [z] | None => [] end else [] | _ => [] end) es.
Definition n_aevents (s : Z) (es : list ev) : Z :=
  zlen (filter (fun e => match e with AEvent s' _ => s' =? s | _ => false end) es).
Definition n_spawns (s : Z) (es : list ev) : Z :=
  zlen (filter (fun e => match e with Spawn s' => s' =? s | _ => false end) es).
Definition invalid_draw (e : ev) : bool :=
  match e with
  | ADraw _ v | BDraw _ v | SDraw _ _ _ v _ => match valid v with None => true | Some _ => false end
  | _ => false
  end.

(* the descriptor of customer i's current service, read off the prefix *)
Fixpoint svc_of (i : Z) (es : list ev) (r : sv) : sv :=
  match es with
  | [] => r
  | e :: t =>
    svc_of i t (match e with
                | Start j n now k => if j =? i then mkSv n now None (k =? 1) else r
                | SDraw j n _ v _ => if j =? i then match valid v with Some z => mkSv n (sv_start r) (Some z) (sv_tainted r) | None => r end else r
                | Int j => if j =? i then mkSv (sv_node r) (sv_start r) (sv_draw r) true else r
                | SRec j _ _ _ _ => if j =? i then sv0 else r
                | _ => r
                end)
  end.

Definition P_C10 (es : list ev) (raised : bool) : Prop :=
  (* (a) the j-th arrival event of a stream happens at the sum of the first j+1 inter-arrival samples, one sample per arrival *)
  (forall pre s d post, es = pre ++ AEvent s d :: post ->
     d = zsum (adraws s pre) /\ zlen (adraws s pre) = n_aevents s pre + 1) /\
  (* (b) customers created by a stream = the sampled batch sizes: never more, and exactly that many when the arrival event ends *)
  (forall pre s post, es = pre ++ Spawn s :: post -> n_spawns s pre < zsum (bdraws s pre)) /\
  (forall pre s post, es = pre ++ AEnd s :: post -> n_spawns s pre = zsum (bdraws s pre)) /\
  (* (c) an uninterrupted service lasts exactly the time sampled for that customer at its service start *)
  (forall pre i n a b c post, es = pre ++ SRec i n a b c :: post ->
     let r := svc_of i pre sv0 in
     sv_tainted r = false -> sv_node r = n /\ sv_draw r = Some b /\ a = sv_start r /\ c = a + b) /\
  (forall pre i n t v now post, es = pre ++ SDraw i n t v now :: post ->
     let r := svc_of i pre sv0 in sv_node r = n /\ sv_start r = now /\ t = now /\ sv_draw r = None) /\
  (* (e) no arrival is lost: whenever an event is executed at time t, the pending arrival date (the partial sum) of every stream is >= t *)
  (forall pre t post, es = pre ++ Clock t :: post -> forall s, adraws s pre <> [] -> t <= zsum (adraws s pre)) /\
  (* (d) a sample that is not a non-negative number ends the run with an error *)
  (forall pre e post, es = pre ++ e :: post -> invalid_draw e = true -> post = [] /\ raised = true).

(* ---------------- T1 ---------------- *)
Definition Inv (pre : list ev) (m : st) : Prop :=
  (expect m <> -1 ->
   (forall s, g (asum m) s = zsum (adraws s pre)) /\
   (forall s, g (ndraw m) s = zlen (adraws s pre)) /\
   (forall s, g (narr m) s = n_aevents s pre) /\
   (forall s, g (bsum m) s = zsum (bdraws s pre)) /\
   (forall s, g (nsp m) s = n_spawns s pre) /\
   (forall i, gs (svc m) i = svc_of i pre sv0) /\
   (forall i, 0 < i -> expect m = i -> sv_draw (svc_of i pre sv0) = None) /\
   (forall s, adraws s pre <> [] -> In s (map fst (asum m)))) /\
  (expect m = -1 -> exists p e, pre = p ++ [e] /\ invalid_draw e = true).

Lemma svc_of_app i a b r : svc_of i (a ++ b) r = svc_of i b (svc_of i a r).
Proof. revert r; induction a as [|e a IH]; intros r; cbn; [reflexivity|apply IH]. Qed.

Lemma zlen_app {X} (a b : list X) : zlen (a ++ b) = zlen a + zlen b.
Proof. unfold zlen. rewrite app_length. lia. Qed.

Lemma forallb_app_false {X} (f : X -> bool) a b : forallb f (a ++ b) = forallb f a && forallb f b.
Proof. apply forallb_app. Qed.

Ltac unf := unfold adraws, bdraws, n_aevents, n_spawns in *.

Lemma adraws_app s a b : adraws s (a ++ b) = adraws s a ++ adraws s b.
Proof. unfold adraws. apply flat_map_app. Qed.
Lemma bdraws_app s a b : bdraws s (a ++ b) = bdraws s a ++ bdraws s b.
Proof. unfold bdraws. apply flat_map_app. Qed.
Lemma n_aevents_app s a b : n_aevents s (a ++ b) = n_aevents s a + n_aevents s b.
Proof. unfold n_aevents. rewrite filter_app. apply zlen_app. Qed.
Lemma n_spawns_app s a b : n_spawns s (a ++ b) = n_spawns s a + n_spawns s b.
Proof. unfold n_spawns. rewrite filter_app. apply zlen_app. Qed.

Lemma zsum_single z : zsum [z] = z. Proof. unfold zsum; cbn; lia. Qed.
Lemma zsum_nil : zsum [] = 0. Proof. reflexivity. Qed.

Lemma g_aset m k v k' : g (aset m k v) k' = if k =? k' then v else g m k'.
Proof. reflexivity. Qed.
Lemma gs_aset m k v k' : gs (aset m k v) k' = if k =? k' then v else gs m k'.
Proof. reflexivity. Qed.

Lemma forallb_snoc_false {X} (f : X -> bool) a e : forallb f a = false -> forallb f (a ++ [e]) = false.
Proof. intros H. rewrite forallb_app, H. reflexivity. Qed.

Arguments g : simpl never.
Arguments gs : simpl never.
Arguments aset : simpl never.

(* facts about one event appended to the prefix, used by every case *)
Ltac snoc_simpl :=
  repeat first [ rewrite adraws_app | rewrite bdraws_app | rewrite n_aevents_app | rewrite n_spawns_app
               | rewrite svc_of_app | rewrite zsum_app | rewrite zlen_app ].

Lemma Inv_dead pre m e : invalid_draw e = true -> expect m = -1 -> Inv (pre ++ [e]) m.
Proof. intros H1 H2. split; [congruence|]. intros _. exists pre, e. auto. Qed.

Lemma not_invalid_of_valid v z : valid v = Some z -> (match valid v with None => true | Some _ => false end) = false.
Proof. intros ->. reflexivity. Qed.

Ltac solve_map :=
  rewrite ?g_aset;
  match goal with
  | Ia : forall s, g (asum _) s = _, In_ : forall s, g (ndraw _) s = _, Iv : forall s, g (narr _) s = _,
    Ib : forall s, g (bsum _) s = _, Ip : forall s, g (nsp _) s = _ |- _ =>
    rewrite ?Ia, ?In_, ?Iv, ?Ib, ?Ip
  end;
  unfold n_aevents, n_spawns, zlen, zsum; cbn;
  try match goal with
  | |- context [?a =? ?b] => let E := fresh "E" in destruct (a =? b) eqn:E; [apply Z.eqb_eq in E; subst|]
  end; cbn; lia.

Ltac solve_keys :=
  match goal with
  | H : adraws _ (_ ++ [_]) <> [], If : forall s, adraws s _ <> [] -> In s _ |- _ =>
    rewrite adraws_app in H; cbn in H; unfold aset; cbn [map fst asum];
    first [ rewrite app_nil_r in H; apply If; exact H
          | match type of H with
            | context [?a =? ?b] =>
              let E := fresh "E" in destruct (a =? b) eqn:E;
              [left; apply Z.eqb_eq; exact E | right; rewrite app_nil_r in H; apply If; exact H]
            end ]
  end.

Ltac solve_svc Is :=
  rewrite ?gs_aset;
  try match goal with
  | |- context [?a =? ?b] => let E := fresh "E" in destruct (a =? b) eqn:E; [apply Z.eqb_eq in E; subst|]
  end; rewrite <- ?Is; try reflexivity; try apply Is.

Lemma step_inv pre m e m' : Inv pre m -> step m e = inl m' -> Inv (pre ++ [e]) m'.
Proof.
  intros [HI HD] Hs. unfold step in Hs.
  destruct (expect m =? -1) eqn:Edead; [discriminate|]. apply Z.eqb_neq in Edead.
  destruct (HI Edead) as (Ia & In_ & Iv & Ib & Ip & Is & Ie & If). clear HI HD.
  destruct e as [s v|s d|s b|s|s|i n t k|i n t v now|i|i n a b c|tc].
  - (* ADraw *)
    destruct (expect m =? 0) eqn:E0; cbn in Hs; [|discriminate]. apply Z.eqb_eq in E0.
    destruct (match open m with
              | Some (s', stage) => if (s' =? s) && (stage =? 1) then Some (Some (s, 2)) else None
              | None => if (g (narr m) s =? 0) && (g (ndraw m) s =? 0) then Some None else None end) as [op|]; [|discriminate].
    destruct (valid v) as [z|] eqn:Ev.
    + injection Hs as <-. split; [|cbn; congruence]. intros _. cbn [asum ndraw narr bsum nsp svc expect].
      repeat split; intros; snoc_simpl; cbn; rewrite ?Ev;
        [solve_map|solve_map|solve_map|solve_map|solve_map|apply Is|lia|solve_keys].
    + injection Hs as <-. apply Inv_dead; [cbn; rewrite Ev; reflexivity|reflexivity].
  - (* AEvent *)
    destruct (expect m =? 0) eqn:E0; cbn in Hs; [|discriminate]. apply Z.eqb_eq in E0.
    destruct (open m); [discriminate|].
    destruct (g (ndraw m) s =? g (narr m) s + 1); cbn in Hs; [|discriminate].
    destruct (d =? g (asum m) s); cbn in Hs; [|discriminate].
    injection Hs as <-. split; [|cbn; congruence]. intros _. cbn [asum ndraw narr bsum nsp svc expect].
    repeat split; intros; snoc_simpl; cbn;
      [solve_map|solve_map|solve_map|solve_map|solve_map|apply Is|lia|solve_keys].
  - (* BDraw *)
    destruct (expect m =? 0) eqn:E0; cbn in Hs; [|discriminate]. apply Z.eqb_eq in E0.
    destruct (open m) as [[s' stg]|]; [|discriminate].
    destruct stg; try discriminate.
    destruct (s' =? s); cbn in Hs; [|discriminate].
    destruct (valid b) as [z|] eqn:Ev.
    + injection Hs as <-. split; [|cbn; congruence]. intros _. cbn [asum ndraw narr bsum nsp svc expect].
      repeat split; intros; snoc_simpl; cbn; rewrite ?Ev;
        [solve_map|solve_map|solve_map|solve_map|solve_map|apply Is|lia|solve_keys].
    + injection Hs as <-. apply Inv_dead; [cbn; rewrite Ev; reflexivity|reflexivity].
  - (* Spawn *)
    destruct (open m) as [[s' stg]|]; [|discriminate].
    destruct stg as [|p|p]; try discriminate. destruct p; try discriminate.
    destruct (s' =? s); cbn in Hs; [|discriminate].
    destruct (g (nsp m) s <? g (bsum m) s); cbn in Hs; [|discriminate].
    injection Hs as <-. split; [|cbn; congruence]. intros Hne. cbn [asum ndraw narr bsum nsp svc expect] in *.
    repeat split; intros; snoc_simpl; cbn;
      [solve_map|solve_map|solve_map|solve_map|solve_map|apply Is|apply Ie; assumption|solve_keys].
  - (* AEnd *)
    destruct (expect m =? 0) eqn:E0; cbn in Hs; [|discriminate]. apply Z.eqb_eq in E0.
    destruct (open m) as [[s' stg]|]; [|discriminate].
    destruct stg as [|p|p]; try discriminate. destruct p as [p|p|]; try discriminate. destruct p; try discriminate.
    destruct (s' =? s); cbn in Hs; [|discriminate].
    destruct (g (nsp m) s =? g (bsum m) s); cbn in Hs; [|discriminate].
    injection Hs as <-. split; [|cbn; congruence]. intros _. cbn [asum ndraw narr bsum nsp svc expect].
    repeat split; intros; snoc_simpl; cbn;
      [solve_map|solve_map|solve_map|solve_map|solve_map|apply Is|lia|solve_keys].
  - (* Start *)
    destruct (expect m =? 0) eqn:E0; cbn in Hs; [|discriminate]. apply Z.eqb_eq in E0.
    destruct (i <=? 0) eqn:Ei; [discriminate|]. apply Z.leb_gt in Ei.
    injection Hs as <-. split.
    + intros _. cbn [asum ndraw narr bsum nsp svc expect].
      repeat split; intros; snoc_simpl; cbn;
        [solve_map|solve_map|solve_map|solve_map|solve_map| | |solve_keys].
      * rewrite gs_aset. destruct (i =? i0) eqn:E; [reflexivity|apply Is].
      * destruct (k =? 1); [lia|]. subst i0. rewrite Z.eqb_refl. reflexivity.
    + cbn. destruct (k =? 1); lia.
  - (* SDraw *)
    destruct (i <=? 0) eqn:Ei; cbn in Hs; [discriminate|].
    destruct (expect m =? i) eqn:E0; cbn in Hs; [|discriminate]. apply Z.eqb_eq in E0.
    destruct (sv_node (gs (svc m) i) =? n) eqn:En; cbn in Hs; [|discriminate].
    destruct ((t =? now) && (sv_start (gs (svc m) i) =? now)) eqn:Et; cbn in Hs; [|discriminate].
    destruct (valid v) as [z|] eqn:Ev.
    + injection Hs as <-. split; [|cbn; congruence]. intros _. cbn [asum ndraw narr bsum nsp svc expect].
      repeat split; intros; snoc_simpl; cbn; rewrite ?Ev;
        [solve_map|solve_map|solve_map|solve_map|solve_map| |lia|solve_keys].
      rewrite gs_aset. destruct (i =? i0) eqn:E; [apply Z.eqb_eq in E; subst i0; rewrite <- Is; reflexivity|apply Is].
    + injection Hs as <-. apply Inv_dead; [cbn; rewrite Ev; reflexivity|reflexivity].
  - (* Int *)
    destruct (expect m =? 0) eqn:E0; cbn in Hs; [|discriminate]. apply Z.eqb_eq in E0.
    injection Hs as <-. split; [|cbn; congruence]. intros _. cbn [asum ndraw narr bsum nsp svc expect].
    repeat split; intros; snoc_simpl; cbn;
      [solve_map|solve_map|solve_map|solve_map|solve_map| |lia|solve_keys].
    rewrite gs_aset. destruct (i =? i0) eqn:E; [apply Z.eqb_eq in E; subst i0; rewrite <- Is; reflexivity|apply Is].
  - (* SRec *)
    destruct (expect m =? 0) eqn:E0; cbn in Hs; [|discriminate]. apply Z.eqb_eq in E0.
    assert (Hm' : m' = mkSt (asum m) (ndraw m) (narr m) (bsum m) (nsp m) (open m) (aset (svc m) i sv0) 0).
    { destruct (sv_tainted (gs (svc m) i)); [congruence|].
      destruct (sv_draw (gs (svc m) i)); [|discriminate].
      destruct ((sv_node (gs (svc m) i) =? n) && (b =? z) && (a =? sv_start (gs (svc m) i)) && (c =? a + z)); [congruence|discriminate]. }
    subst m'. split; [|cbn; congruence]. intros _. cbn [asum ndraw narr bsum nsp svc expect].
    repeat split; intros; snoc_simpl; cbn;
      [solve_map|solve_map|solve_map|solve_map|solve_map| |lia|solve_keys].
    rewrite gs_aset. destruct (i =? i0) eqn:E; [reflexivity|apply Is].
  - (* Clock *)
    destruct (forallb (fun s => tc <=? g (asum m) s) (map fst (asum m))); [|discriminate].
    injection Hs as <-. split; [|intros; congruence]. intros _.
    repeat split; intros; snoc_simpl; cbn;
      [solve_map|solve_map|solve_map|solve_map|solve_map|apply Is|apply Ie; assumption|solve_keys].
Qed.

Lemma Inv0 : Inv [] st0.
Proof.
  split; [|cbn; congruence]. intros _. repeat split; intros; try reflexivity. cbn in *. congruence.
Qed.

Lemma invalid_dead m e m' : invalid_draw e = true -> step m e = inl m' -> expect m' = -1.
Proof.
  intros Hi Hs. unfold step in Hs. destruct (expect m =? -1); [discriminate|].
  destruct e as [s v|s d|s b|s|s|i n t k|i n t v now|i|i n a b c|tc]; cbn in Hi; try discriminate.
  - destruct (negb (expect m =? 0)); [discriminate|].
    destruct (match open m with
              | Some (s', stage) => if (s' =? s) && (stage =? 1) then Some (Some (s, 2)) else None
              | None => if (g (narr m) s =? 0) && (g (ndraw m) s =? 0) then Some None else None end); [|discriminate].
    destruct (valid v); [discriminate|]. injection Hs as <-. reflexivity.
  - destruct (negb (expect m =? 0)); [discriminate|].
    destruct (open m) as [[s' stg]|]; [|discriminate]. destruct stg; try discriminate.
    destruct (negb (s' =? s)); [discriminate|].
    destruct (valid b); [discriminate|]. injection Hs as <-. reflexivity.
  - destruct ((i <=? 0) || negb (expect m =? i)); [discriminate|].
    destruct (negb (sv_node (gs (svc m) i) =? n)); [discriminate|].
    destruct (negb ((t =? now) && (sv_start (gs (svc m) i) =? now))); [discriminate|].
    destruct (valid v); [discriminate|]. injection Hs as <-. reflexivity.
Qed.

Theorem C10_sound : forall es raised stt, acc es raised = Accept stt -> P_C10 es raised.
Proof.
  intros es raised stt H. unfold acc in H.
  destruct (replay step st0 0 es) as [[i0 c0]|] eqn:Er; [discriminate|].
  destruct (state_after step st0 es) as [mf|] eqn:Ef; [|discriminate].
  pose proof (replay_sound step Inv st0 Inv0 step_inv es 0 Er) as RS.
  unfold P_C10. split; [|split; [|split; [|split; [|split; [|split]]]]].
  - (* (a) *)
    intros pre s d post E0. destruct (RS _ _ _ E0) as (mp & m' & [HI _] & Hs). unfold step in Hs.
    destruct (expect mp =? -1) eqn:Ed; [discriminate|]. apply Z.eqb_neq in Ed.
    destruct (HI Ed) as (Ia & In_ & Iv & _).
    destruct (negb (expect mp =? 0)); [discriminate|]. destruct (open mp); [discriminate|].
    destruct (g (ndraw mp) s =? g (narr mp) s + 1) eqn:E1; cbn in Hs; [|discriminate].
    destruct (d =? g (asum mp) s) eqn:E2; cbn in Hs; [|discriminate].
    apply Z.eqb_eq in E1, E2. split; [rewrite E2; apply Ia|rewrite <- In_, <- Iv; exact E1].
  - (* (b) Spawn *)
    intros pre s post E0. destruct (RS _ _ _ E0) as (mp & m' & [HI _] & Hs). unfold step in Hs.
    destruct (expect mp =? -1) eqn:Ed; [discriminate|]. apply Z.eqb_neq in Ed.
    destruct (HI Ed) as (_ & _ & _ & Ib & Ip & _).
    destruct (open mp) as [[s' stg]|]; [|discriminate].
    destruct stg as [|p|p]; try discriminate. destruct p; try discriminate.
    destruct (negb (s' =? s)); [discriminate|].
    destruct (g (nsp mp) s <? g (bsum mp) s) eqn:E1; cbn in Hs; [|discriminate].
    apply Z.ltb_lt in E1. rewrite <- Ib, <- Ip. exact E1.
  - (* AEnd *)
    intros pre s post E0. destruct (RS _ _ _ E0) as (mp & m' & [HI _] & Hs). unfold step in Hs.
    destruct (expect mp =? -1) eqn:Ed; [discriminate|]. apply Z.eqb_neq in Ed.
    destruct (HI Ed) as (_ & _ & _ & Ib & Ip & _).
    destruct (negb (expect mp =? 0)); [discriminate|].
    destruct (open mp) as [[s' stg]|]; [|discriminate].
    destruct stg as [|p|p]; try discriminate. destruct p as [p|p|]; try discriminate. destruct p; try discriminate.
    destruct (negb (s' =? s)); [discriminate|].
    destruct (g (nsp mp) s =? g (bsum mp) s) eqn:E1; cbn in Hs; [|discriminate].
    apply Z.eqb_eq in E1. rewrite <- Ib, <- Ip. exact E1.
  - (* (c) SRec *)
    intros pre i n a b c post E0 Ht. set (r := svc_of i pre sv0) in *. destruct (RS _ _ _ E0) as (mp & m' & [HI _] & Hs). unfold step in Hs.
    destruct (expect mp =? -1) eqn:Ed; [discriminate|]. apply Z.eqb_neq in Ed.
    destruct (HI Ed) as (_ & _ & _ & _ & _ & Is & _).
    destruct (negb (expect mp =? 0)); [discriminate|].
    rewrite Is in Hs. fold r in Hs. rewrite Ht in Hs.
    destruct (sv_draw r) as [z|]; [|discriminate].
    destruct ((sv_node r =? n) && (b =? z) && (a =? sv_start r) && (c =? a + z)) eqn:E1; [|discriminate].
    apply andb_true_iff in E1 as [E1 E4]. apply andb_true_iff in E1 as [E1 E3]. apply andb_true_iff in E1 as [E1 E2].
    apply Z.eqb_eq in E1, E2, E3, E4. subst. auto.
  - (* SDraw *)
    intros pre i n t v now post E0. set (r := svc_of i pre sv0) in *. destruct (RS _ _ _ E0) as (mp & m' & [HI _] & Hs). unfold step in Hs.
    destruct (expect mp =? -1) eqn:Ed; [discriminate|]. apply Z.eqb_neq in Ed.
    destruct (HI Ed) as (_ & _ & _ & _ & _ & Is & Ie & _).
    destruct (i <=? 0) eqn:Ei; cbn in Hs; [discriminate|]. apply Z.leb_gt in Ei.
    destruct (expect mp =? i) eqn:E1; cbn in Hs; [|discriminate]. apply Z.eqb_eq in E1.
    rewrite Is in Hs. fold r in Hs.
    destruct (sv_node r =? n) eqn:E2; cbn in Hs; [|discriminate].
    destruct ((t =? now) && (sv_start r =? now)) eqn:E3; cbn in Hs; [|discriminate].
    apply andb_true_iff in E3 as [E3 E4]. apply Z.eqb_eq in E2, E3, E4.
    repeat split; auto. apply Ie; auto.
  - (* (e) no overdue arrival *)
    intros pre t post E0 s Hne. destruct (RS _ _ _ E0) as (mp & m' & [HI _] & Hs). unfold step in Hs.
    destruct (expect mp =? -1) eqn:Ed; [discriminate|]. apply Z.eqb_neq in Ed.
    destruct (HI Ed) as (Ia & _ & _ & _ & _ & _ & _ & Ik).
    destruct (forallb (fun s => t <=? g (asum mp) s) (map fst (asum mp))) eqn:Ef2; [|discriminate].
    rewrite forallb_forall in Ef2. specialize (Ef2 s (Ik s Hne)). apply Z.leb_le in Ef2. rewrite <- Ia. exact Ef2.
  - (* (d) an invalid draw is the last event *)
    intros pre e post E0 Hinv.
    destruct (replay_split step _ _ _ Er _ _ _ E0) as (mp1 & m1 & A1 & B1).
    pose proof (invalid_dead _ _ _ Hinv B1) as Hd1.
    destruct post as [|e2 post'].
    + split; [reflexivity|].
      rewrite E0, state_after_app, A1 in Ef. cbn in Ef. rewrite B1 in Ef. injection Ef as <-.
      rewrite Hd1 in H. cbn in H. destruct raised; [reflexivity|discriminate].
    + exfalso.
      assert (E2 : es = (pre ++ [e]) ++ e2 :: post') by (rewrite E0, <- app_assoc; reflexivity).
      destruct (replay_split step _ _ _ Er _ _ _ E2) as (mp2 & m2 & A & B).
      rewrite state_after_app, A1 in A. cbn in A. rewrite B1 in A. injection A as <-.
      unfold step in B. rewrite Hd1 in B. cbn in B. discriminate.
Qed.

(* non-vacuity: two arrivals of a stream with a batch of 2, a service with its draw and record are
   accepted; an arrival one tick late, a lost batch member, and a service lasting longer than its
   sample are rejected; a negative sample must end the run with an error *)
Example acc_example :
  is_accept (acc [ADraw 3 (XNum 5); AEvent 3 5; BDraw 3 (XNum 2); Spawn 3; Start 1 1 5 0; SDraw 1 1 5 (XNum 7) 5; Spawn 3;
                  ADraw 3 (XNum 4); AEnd 3; SRec 1 1 5 7 12; Start 2 1 12 0; SDraw 2 1 12 (XNum 1) 12;
                  AEvent 3 9; BDraw 3 (XNum 0); ADraw 3 (XNum 6); AEnd 3] false) = true.
Proof. vm_compute. reflexivity. Qed.
Example rej_late : acc [ADraw 3 (XNum 5); AEvent 3 6] false = Reject 1 102 [].
Proof. vm_compute. reflexivity. Qed.
Example rej_lost : acc [ADraw 3 (XNum 5); AEvent 3 5; BDraw 3 (XNum 2); Spawn 3; ADraw 3 (XNum 4); AEnd 3] false = Reject 5 107 [].
Proof. vm_compute. reflexivity. Qed.
Example rej_longer : acc [Start 1 1 5 0; SDraw 1 1 5 (XNum 7) 5; SRec 1 1 5 8 13] false = Reject 2 112 [].
Proof. vm_compute. reflexivity. Qed.
Example rej_silent_negative : acc [ADraw 3 (XNum (-5))] false = Reject 1 114 [].
Proof. vm_compute. reflexivity. Qed.

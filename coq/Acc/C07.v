(* C07 -- Type I blocking, FIFO unblocking.
   Slice per frame: the blocked queues (customer ids per destination node, list
   order), true populations, the capacities the node uses, the customers flagged
   blocked with their destinations, and the ordered events
     Fin x dest pop cap moved   service completion routed to dest (0 = exit) with the
                                 destination's population/capacity at that moment;
                                 moved = 1 released at once, 0 blocked
     Blk d x                    x appended to the blocked queue of d
     Unb d x                    blocked customer x released into d                  *)
From Coq Require Import ZArith List Bool Lia.
From CiwV Require Import Sx Prelude Trace.
Import ListNotations.
Open Scope Z_scope.

Inductive ev :=
| Fin (x dest pop : Z) (cap : option Z) (moved : Z)
| Blk (d x : Z)
| Unb (d x : Z).

Record frame := mkFrame {
  bqs : list (list Z); pops : list Z; caps : list (option Z);
  blocked : list (Z * Z);          (* (customer, destination) for every customer with is_blocked *)
  evs : list ev }.

Definition getO (s : sx) : option (option Z) :=
  match s with A z => Some (Some z) | L [A 0] => Some None | _ => None end.
Definition decode_ev (s : sx) : option ev :=
  match s with
  | L [A 1; A x; A d; A p; c; A m] => do c' <- getO c; Some (Fin x d p c' m)
  | L [A 2; A d; A x] => Some (Blk d x)
  | L [A 3; A d; A x] => Some (Unb d x)
  | _ => None
  end.
Definition decode_pair (s : sx) : option (Z * Z) :=
  match s with L [A a; A b] => Some (a, b) | _ => None end.
Definition decode_frame (s : sx) : option frame :=
  match s with
  | L [q; p; c; b; e] =>
    do q' <- getZss q; do p' <- getZs p; do cl <- getL c; do c' <- omap getO cl;
    do bl <- getL b; do b' <- omap decode_pair bl; do el <- getL e; do e' <- omap decode_ev el;
    Some (mkFrame q' p' c' b' e')
  | _ => None
  end.

Definition lt_cap (x : Z) (c : option Z) : bool := match c with None => true | Some b => x <? b end.

(* queues per destination, destination d >= 1 stored at position d-1 *)
Fixpoint getq (q : list (list Z)) (n : nat) : list Z :=
  match q, n with
  | l :: _, O => l
  | _ :: r, S k => getq r k
  | [], _ => []
  end.
Fixpoint setq (q : list (list Z)) (n : nat) (l : list Z) : option (list (list Z)) :=
  match q, n with
  | _ :: r, O => Some (l :: r)
  | x :: r, S k => match setq r k l with Some r' => Some (x :: r') | None => None end
  | [], _ => None
  end.
Definition idx (d : Z) : nat := Z.to_nat (d - 1).

Lemma getq_setq q n l q' m : setq q n l = Some q' -> getq q' m = if Nat.eqb m n then l else getq q m.
Proof.
  revert n q' m; induction q as [|x r IH]; intros [|n] q' m H; cbn in H; try discriminate.
  - injection H as <-. destruct m; reflexivity.
  - destruct (setq r n l) as [r'|] eqn:E; [|discriminate]. injection H as <-.
    destruct m as [|m]; [reflexivity|]. cbn. apply IH. exact E.
Qed.

Definition step (q : list (list Z)) (e : ev) : list (list Z) + Z :=
  match e with
  | Fin x d p c m =>
    (* (a) moves on at once iff the destination has space; the exit always has *)
    if d <=? 0 then (if m =? 1 then inl q else inr 20)
    else if Bool.eqb (lt_cap p c) (m =? 1) then inl q else inr 21
  | Blk d x =>
    if d <=? 0 then inr 22 else
    match setq q (idx d) (getq q (idx d) ++ [x]) with Some q' => inl q' | None => inr 22 end
  | Unb d x =>
    if d <=? 0 then inr 22 else
    match getq q (idx d) with
    | y :: r => if x =? y then match setq q (idx d) r with Some q' => inl q' | None => inr 22 end
                else inr 23                         (* not the longest-blocked customer *)
    | [] => inr 24
    end
  end.

Fixpoint replay (q : list (list Z)) (es : list ev) : list (list Z) + Z :=
  match es with
  | [] => inl q
  | e :: r => match step q e with inl q' => replay q' r | inr c => inr c end
  end.

Fixpoint qs_eqb (a b : list (list Z)) : bool :=
  match a, b with
  | [], [] => true
  | x :: r, y :: s => list_eqb x y && qs_eqb r s
  | _, _ => false
  end.
Lemma qs_eqb_eq a b : qs_eqb a b = true -> a = b.
Proof.
  revert b; induction a as [|x r IH]; intros [|y s] H; cbn in H; try discriminate; [reflexivity|].
  apply andb_true_iff in H as [H1 H2]. apply list_eqb_eq in H1. apply IH in H2. congruence.
Qed.

(* (b) on the snapshot: a non-empty blocked queue means the destination is full, and the
   blocked queues list exactly the customers flagged blocked, towards that destination *)
Fixpoint state_b (q : list (list Z)) (ps : list Z) (cs : list (option Z)) : bool :=
  match q, ps, cs with
  | [], _, _ => true
  | l :: r, p :: ps', c :: cs' => (match l with [] => true | _ => negb (lt_cap p c) end) && state_b r ps' cs'
  | _, _, _ => false
  end.
Fixpoint count_in (x : Z) (l : list Z) : nat :=
  match l with [] => O | y :: r => (if x =? y then 1 else 0) + count_in x r end.
Definition flags_ok (f : frame) : bool :=
  forallb (fun xd => (1 <=? snd xd) && Nat.eqb (count_in (fst xd) (getq (bqs f) (idx (snd xd)))) 1) (blocked f)
  && Nat.eqb (length (concat (bqs f))) (length (blocked f)).

Definition state_chk (f : frame) : option (Z * list Z) :=
  if negb (state_b (bqs f) (pops f) (caps f)) then Some (25, [])
  else if negb (flags_ok f) then Some (26, [])
  else None.

Definition chk (k : Z) (p f : frame) : option (Z * list Z) :=
  match replay (bqs p) (evs f) with
  | inr c => Some (c, [])
  | inl q => if negb (qs_eqb q (bqs f)) then Some (27, []) else state_chk f
  end.

Definition acc (tr : list frame) : verdict :=
  match tr with
  | [] => BadInput 1
  | f0 :: r =>
    match state_chk f0 with
    | Some (c, i) => Reject 0 c i
    | None =>
      match scan chk 1 f0 r with
      | Some (k, c, info) => Reject k c info
      | None => Accept [zlen tr]
      end
    end
  end.

Definition run (s : sx) : verdict :=
  match (do l <- getL s; omap decode_frame l) with
  | Some tr => acc tr
  | None => BadInput 0
  end.

(* ---- T1 ---- *)
Definition blocked_seq (d : nat) (es : list ev) : list Z :=
  flat_map (fun e => match e with Blk d' x => if (1 <=? d') && Nat.eqb (idx d') d then [x] else [] | _ => [] end) es.
Definition unblocked_seq (d : nat) (es : list ev) : list Z :=
  flat_map (fun e => match e with Unb d' x => if (1 <=? d') && Nat.eqb (idx d') d then [x] else [] | _ => [] end) es.

Lemma step_inv q e q' d : step q e = inl q' ->
  getq q d ++ blocked_seq d [e] = unblocked_seq d [e] ++ getq q' d.
Proof.
  destruct e as [x d0 p c m|d0 x|d0 x]; cbn [step blocked_seq unblocked_seq flat_map app]; intros H.
  - assert (q' = q) as ->.
    { destruct (d0 <=? 0); [destruct (m =? 1); [congruence|discriminate]|].
      destruct (Bool.eqb _ _); [congruence|discriminate]. }
    rewrite app_nil_r. reflexivity.
  - destruct (d0 <=? 0) eqn:E0; [discriminate|].
    destruct (setq q (idx d0) (getq q (idx d0) ++ [x])) as [q1|] eqn:Es; [|discriminate].
    injection H as <-. rewrite (getq_setq _ _ _ _ d Es).
    assert (E1 : (1 <=? d0) = true) by (apply Z.leb_le; apply Z.leb_gt in E0; lia).
    rewrite E1. cbn [andb]. rewrite Nat.eqb_sym.
    destruct (Nat.eqb_spec d (idx d0)) as [->|Hne]; cbn; rewrite ?app_nil_r; reflexivity.
  - destruct (d0 <=? 0) eqn:E0; [discriminate|].
    destruct (getq q (idx d0)) as [|y r] eqn:Eg; [discriminate|].
    destruct (x =? y) eqn:Exy; [|discriminate]. apply Z.eqb_eq in Exy. subst y.
    destruct (setq q (idx d0) r) as [q1|] eqn:Es; [|discriminate].
    injection H as <-. rewrite (getq_setq _ _ _ _ d Es).
    assert (E1 : (1 <=? d0) = true) by (apply Z.leb_le; apply Z.leb_gt in E0; lia).
    rewrite E1. cbn [andb]. rewrite Nat.eqb_sym.
    destruct (Nat.eqb_spec d (idx d0)) as [->|Hne]; cbn; rewrite ?app_nil_r; [rewrite Eg|]; reflexivity.
Qed.

Lemma blocked_seq_app d a b : blocked_seq d (a ++ b) = blocked_seq d a ++ blocked_seq d b.
Proof. unfold blocked_seq. apply flat_map_app. Qed.
Lemma unblocked_seq_app d a b : unblocked_seq d (a ++ b) = unblocked_seq d a ++ unblocked_seq d b.
Proof. unfold unblocked_seq. apply flat_map_app. Qed.

Lemma replay_inv : forall es q q' d, replay q es = inl q' ->
  getq q d ++ blocked_seq d es = unblocked_seq d es ++ getq q' d.
Proof.
  induction es as [|e r IH]; intros q q' d H; cbn [replay] in H.
  - injection H as <-. cbn. rewrite app_nil_r. reflexivity.
  - destruct (step q e) as [q1|c] eqn:E; [|discriminate].
    pose proof (step_inv _ _ _ d E) as H1. pose proof (IH _ _ d H) as H2.
    change (e :: r) with ([e] ++ r). rewrite blocked_seq_app, unblocked_seq_app.
    rewrite app_assoc, H1, <- app_assoc, H2, app_assoc. reflexivity.
Qed.

(* every service completion in an accepted frame obeys "moves on at once iff space" *)
Lemma replay_fin : forall es q q', replay q es = inl q' ->
  forall x d p c m, In (Fin x d p c m) es ->
    (d <= 0 -> m = 1) /\ (0 < d -> (m = 1 <-> lt_cap p c = true)).
Proof.
  induction es as [|e r IH]; intros q q' H x d p c m Hin; [destruct Hin|].
  cbn [replay] in H. destruct (step q e) as [q1|cc] eqn:E; [|discriminate].
  destruct Hin as [->|Hin]; [|eapply IH; eauto].
  cbn [step] in E. destruct (d <=? 0) eqn:Ed.
  - apply Z.leb_le in Ed. destruct (m =? 1) eqn:Em; [|discriminate]. apply Z.eqb_eq in Em.
    split; [auto|lia].
  - apply Z.leb_gt in Ed. destruct (Bool.eqb (lt_cap p c) (m =? 1)) eqn:Eb; [|discriminate].
    apply Bool.eqb_prop in Eb. split; [lia|]. intros _. rewrite Eb. symmetry. apply Z.eqb_eq.
Qed.

Definition all_evs (tr : list frame) : list ev := flat_map evs tr.

Definition P_C07 (tr : list frame) : Prop :=
  match tr with
  | [] => True
  | f0 :: r =>
    (* (c) per destination, customers are released from blocking in the order they were blocked:
       initial queue ++ everything blocked since = everything unblocked since ++ current queue *)
    (forall d, getq (bqs f0) d ++ blocked_seq d (all_evs r)
               = unblocked_seq d (all_evs r) ++ getq (bqs (last r f0)) d) /\
    (* (a) at every service completion the customer moves on at once iff the destination has space *)
    (forall x d p c m, In (Fin x d p c m) (all_evs r) ->
       (d <= 0 -> m = 1) /\ (0 < d -> (m = 1 <-> lt_cap p c = true))) /\
    (* (b) between events nobody is blocked towards a node with space, and the blocked
       queues list exactly the customers flagged blocked *)
    (forall f, In f tr -> state_b (bqs f) (pops f) (caps f) = true /\ flags_ok f = true)
  end.

Lemma chk_inv k p f : chk k p f = None ->
  replay (bqs p) (evs f) = inl (bqs f) /\ state_chk f = None.
Proof.
  unfold chk. destruct (replay (bqs p) (evs f)) as [q|c]; [|discriminate].
  destruct (qs_eqb q (bqs f)) eqn:E; cbn; [|discriminate]. apply qs_eqb_eq in E. subst. auto.
Qed.
Lemma state_chk_ok f : state_chk f = None -> state_b (bqs f) (pops f) (caps f) = true /\ flags_ok f = true.
Proof.
  unfold state_chk. destruct (state_b _ _ _); cbn; [|discriminate].
  destruct (flags_ok f); cbn; [auto|discriminate].
Qed.

Lemma chain_fifo : forall r k p, chain chk k p r ->
  (forall d, getq (bqs p) d ++ blocked_seq d (all_evs r) = unblocked_seq d (all_evs r) ++ getq (bqs (last r p)) d) /\
  (forall x d pp c m, In (Fin x d pp c m) (all_evs r) ->
       (d <= 0 -> m = 1) /\ (0 < d -> (m = 1 <-> lt_cap pp c = true))).
Proof.
  induction r as [|f r IH]; intros k p H.
  - split; [intros d; cbn; rewrite app_nil_r; reflexivity|intros ? ? ? ? ? []].
  - inversion H as [|? ? ? ? Hc Hch]; subst. apply chk_inv in Hc as [Hr _].
    destruct (IH _ _ Hch) as [IH1 IH2]. split.
    + intros d. unfold all_evs. cbn [flat_map]. fold (all_evs r).
      rewrite blocked_seq_app, unblocked_seq_app.
      pose proof (replay_inv _ _ _ d Hr) as H1. specialize (IH1 d).
      assert (El : last (f :: r) p = last r f) by apply last_cons.
      rewrite El, app_assoc, H1, <- app_assoc, IH1, app_assoc. reflexivity.
    + intros x d pp c m Hin. unfold all_evs in Hin. cbn [flat_map] in Hin. apply in_app_or in Hin as [Hin|Hin].
      * eapply replay_fin; eauto.
      * eapply IH2; eauto.
Qed.

Theorem C07_sound : forall tr st, acc tr = Accept st -> P_C07 tr.
Proof.
  intros [|f0 r] st H; [discriminate|]. cbn [acc] in H.
  destruct (state_chk f0) as [[c i]|] eqn:E0; [discriminate|].
  destruct (scan chk 1 f0 r) as [[[k c] info]|] eqn:Es; [discriminate|].
  apply scan_none_chain in Es.
  destruct (chain_fifo _ _ _ Es) as [H1 H2].
  cbn [P_C07]. split; [exact H1|split; [exact H2|]].
  assert (Hall : Forall (fun f => state_chk f = None) r).
  { eapply chain_invariant with (I := fun f => state_chk f = None); [|exact Es|exact E0].
    intros k p f Hc _. apply chk_inv in Hc. tauto. }
  intros f [<-|Hin]; apply state_chk_ok; [exact E0|]. rewrite Forall_forall in Hall; auto.
Qed.

(* non-vacuity: two customers blocked towards node 2 released first-blocked-first is accepted,
   last-blocked-first is rejected *)
Example fifo_accepted :
  is_accept (acc [ mkFrame [[];[]] [1;1] [Some 2; Some 1] [] [];
                   mkFrame [[];[7]] [1;1] [Some 2; Some 1] [(7,2)] [Fin 7 2 1 (Some 1) 0; Blk 2 7];
                   mkFrame [[];[7;9]] [2;1] [Some 2; Some 1] [(7,2);(9,2)] [Fin 9 2 1 (Some 1) 0; Blk 2 9];
                   mkFrame [[];[9]] [1;1] [Some 2; Some 1] [(9,2)] [Fin 3 0 0 None 1; Unb 2 7] ]) = true.
Proof. vm_compute. reflexivity. Qed.
Example lifo_rejected :
  acc [ mkFrame [[];[7;9]] [2;1] [Some 2; Some 1] [(7,2);(9,2)] [];
        mkFrame [[];[7]] [1;1] [Some 2; Some 1] [(7,2)] [Fin 3 0 0 None 1; Unb 2 9] ] = Reject 1 23 [].
Proof. vm_compute. reflexivity. Qed.

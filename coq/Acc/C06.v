(* C06 -- finite capacity and admission.
   Slice: per frame the true populations after the event (lengths of the node's
   lists), and the ordered admission/transfer events of the frame:
     Spawn  node pop_seen cap syspop_seen syscap decision   (decision 0 = rejected)
     Enter  node via        via: 0 transfer, 2 external arrival (scope: networks without reroute)
     Leave  node
     RejRec node q          queue_size_at_arrival shown in a rejection record
   The acceptor replays the events from the previous populations.  bound = true
   capacity (servers + queue capacity) of fixed-c nodes, None = unbounded. *)
From Coq Require Import ZArith List Bool Lia.
From CiwV Require Import Sx Prelude Trace.
Import ListNotations.
Open Scope Z_scope.

Inductive ev :=
| Spawn (node pop_seen : Z) (cap : option Z) (sys_seen : Z) (syscap : option Z) (decision : Z)
| Enter (node via : Z)
| Leave (node : Z)
| RejRec (node q : Z).

Record frame := mkFrame { pops : list Z; evs : list ev }.
Record config := mkCfg { bound : list (option Z); syscap : option Z }.

Definition getO (s : sx) : option (option Z) :=
  match s with A z => Some (Some z) | L [A 0] => Some None | _ => None end.

Definition decode_ev (s : sx) : option ev :=
  match s with
  | L [A 1; A n; A p; c; A sp; sc; A d] => do c' <- getO c; do sc' <- getO sc; Some (Spawn n p c' sp sc' d)
  | L [A 2; A n; A v] => Some (Enter n v)
  | L [A 3; A n] => Some (Leave n)
  | L [A 4; A n; A q] => Some (RejRec n q)
  | _ => None
  end.
Definition decode_frame (s : sx) : option frame :=
  match s with
  | L [ps; es] => do ps' <- getZs ps; do el <- getL es; do es' <- omap decode_ev el; Some (mkFrame ps' es')
  | _ => None
  end.
Definition decode_cfg (s : sx) : option config :=
  match s with
  | L [bs; sc] => do bl <- getL bs; do bs' <- omap getO bl; do sc' <- getO sc; Some (mkCfg bs' sc')
  | _ => None
  end.

(* populations as a list indexed by node number 1..n *)
Fixpoint get (l : list Z) (n : nat) : option Z :=
  match l, n with
  | x :: _, O => Some x
  | _ :: r, S k => get r k
  | [], _ => None
  end.
Fixpoint upd (l : list Z) (n : nat) (d : Z) : list Z :=
  match l, n with
  | x :: r, O => (x + d) :: r
  | x :: r, S k => x :: upd r k d
  | [], _ => []
  end.
Definition idx (node : Z) : nat := Z.to_nat (node - 1).

Definition lt_cap (x : Z) (c : option Z) : bool := match c with None => true | Some b => x <? b end.
Definition le_cap (x : Z) (c : option Z) : bool := match c with None => true | Some b => x <=? b end.

Fixpoint getb (l : list (option Z)) (n : nat) : option Z :=
  match l, n with
  | x :: _, O => x
  | _ :: r, S k => getb r k
  | [], _ => None
  end.

(* one event; None = rejected by the acceptor (with clause) *)
Definition step (cf : config) (ps : list Z) (e : ev) : list Z + Z :=
  match e with
  | Spawn n p c sp sc d =>
    if negb (1 <=? n) then inr 10 else
    match get ps (idx n) with
    | None => inr 10
    | Some x =>
      if negb (x =? p) then inr 11                      (* population shown to the admission test is the true one *)
      else if negb (zsum ps =? sp) then inr 12           (* system population likewise *)
      else
        let full := negb (lt_cap x c) || negb (lt_cap sp sc) in
        if Bool.eqb full (d =? 0) then inl ps else inr 13 (* rejected iff full *)
    end
  | Enter n v =>
    if negb (1 <=? n) then inr 10 else
    match get ps (idx n) with
    | None => inr 10
    | Some x =>
      if negb (lt_cap x (getb (bound cf) (idx n))) then inr 14   (* entering a full node *)
      else if negb (lt_cap (zsum ps) (syscap cf)) then inr 15     (* entering a full system *)
      else inl (upd ps (idx n) 1)
    end
  | Leave n =>
    if negb (1 <=? n) then inr 10 else
    match get ps (idx n) with
    | None => inr 10
    | Some x => if x <=? 0 then inr 16 else inl (upd ps (idx n) (-1))
    end
  | RejRec n q =>
    if negb (1 <=? n) then inr 10 else
    match get ps (idx n) with
    | None => inr 10
    | Some x => if x =? q then inl ps else inr 17
    end
  end.

Fixpoint replay (cf : config) (ps : list Z) (es : list ev) : list Z + Z :=
  match es with
  | [] => inl ps
  | e :: r => match step cf ps e with inl ps' => replay cf ps' r | inr c => inr c end
  end.

Definition chk (cf : config) (k : Z) (p f : frame) : option (Z * list Z) :=
  match replay cf (pops p) (evs f) with
  | inr c => Some (c, [])
  | inl ps => if list_eqb ps (pops f) then None else Some (18, [])
  end.

(* the invariant *)
Fixpoint within (ps : list Z) (bs : list (option Z)) : bool :=
  match ps, bs with
  | [], _ => true
  | x :: r, [] => within r []
  | x :: r, b :: s => le_cap x b && within r s
  end.
Definition inv (cf : config) (ps : list Z) : bool :=
  within ps (bound cf) && le_cap (zsum ps) (syscap cf).

Definition acc (cf : config) (tr : list frame) : verdict :=
  match tr with
  | [] => BadInput 1
  | f0 :: r =>
    if negb (inv cf (pops f0)) then Reject 0 19 [] else
    match scan (chk cf) 1 f0 r with
    | Some (k, c, info) => Reject k c info
    | None => Accept [zlen tr]
    end
  end.

Definition run (s : sx) : verdict :=
  match s with
  | L [c; t] =>
    match decode_cfg c, (do l <- getL t; omap decode_frame l) with
    | Some cf, Some tr => acc cf tr
    | _, _ => BadInput 0
    end
  | _ => BadInput 0
  end.

(* ---- T1 ---- *)
(* all intermediate population vectors while replaying a frame *)
Fixpoint states (cf : config) (ps : list Z) (es : list ev) : list (list Z) :=
  ps :: match es with
        | [] => []
        | e :: r => match step cf ps e with inl ps' => states cf ps' r | inr _ => [] end
        end.

Lemma zsum_upd ps n d x : get ps n = Some x -> zsum (upd ps n d) = zsum ps + d.
Proof.
  revert n; induction ps as [|y r IH]; intros [|n] H; cbn in *; try discriminate.
  - unfold zsum; cbn. lia.
  - unfold zsum in *; cbn. rewrite (IH n H). lia.
Qed.

Lemma within_upd_dec ps bs n x : within ps bs = true -> get ps n = Some x ->
  within (upd ps n (-1)) bs = true.
Proof.
  revert bs n; induction ps as [|y r IH]; intros bs [|n] H G; cbn in *; try discriminate.
  - destruct bs as [|b s]; [exact H|]. apply andb_true_iff in H as [H1 H2].
    apply andb_true_iff; split; [|exact H2]. destruct b; cbn in *; lia.
  - destruct bs as [|b s]; [eapply IH; eauto|].
    apply andb_true_iff in H as [H1 H2]. apply andb_true_iff; split; [exact H1|eapply IH; eauto].
Qed.

Lemma within_upd_inc ps bs n x : within ps bs = true -> get ps n = Some x ->
  lt_cap x (getb bs n) = true -> within (upd ps n 1) bs = true.
Proof.
  revert bs n; induction ps as [|y r IH]; intros bs [|n] H G Hl; cbn in *; try discriminate.
  - injection G as ->. destruct bs as [|b s]; [exact H|]. apply andb_true_iff in H as [H1 H2].
    apply andb_true_iff; split; [|exact H2]. destruct b; cbn in *; lia.
  - destruct bs as [|b s].
    + eapply IH; eauto; try (destruct n; reflexivity).
    + apply andb_true_iff in H as [H1 H2]. apply andb_true_iff; split; [exact H1|eapply IH; eauto].
Qed.

Lemma step_inv cf ps e ps' : inv cf ps = true -> step cf ps e = inl ps' -> inv cf ps' = true.
Proof.
  unfold inv. intros H Hs. apply andb_true_iff in H as [Hw Hsys].
  destruct e as [n p c sp sc d|n v|n|n q]; cbn [step] in Hs.
  - destruct (negb (1 <=? n)); [discriminate|]. destruct (get ps (idx n)) as [x|]; [|discriminate].
    destruct (negb (x =? p)); [discriminate|]. destruct (negb (zsum ps =? sp)); [discriminate|].
    destruct (Bool.eqb _ _); [|discriminate]. injection Hs as <-. rewrite Hw, Hsys. reflexivity.
  - destruct (negb (1 <=? n)); [discriminate|]. destruct (get ps (idx n)) as [x|] eqn:G; [|discriminate].
    destruct (lt_cap x (getb (bound cf) (idx n))) eqn:El; cbn in Hs; [|discriminate].
    destruct (lt_cap (zsum ps) (syscap cf)) eqn:E2; cbn in Hs; [|discriminate].
    injection Hs as <-. rewrite (within_upd_inc _ _ _ _ Hw G El). cbn.
    rewrite (zsum_upd _ _ _ _ G).
    destruct (syscap cf) as [b|]; [|reflexivity]. cbn in *. lia.
  - destruct (negb (1 <=? n)); [discriminate|]. destruct (get ps (idx n)) as [x|] eqn:G; [|discriminate].
    destruct (x <=? 0) eqn:E0; [discriminate|]. injection Hs as <-.
    rewrite (within_upd_dec _ _ _ _ Hw G). cbn. rewrite (zsum_upd _ _ _ _ G).
    destruct (syscap cf); cbn in *; [lia|reflexivity].
  - destruct (negb (1 <=? n)); [discriminate|]. destruct (get ps (idx n)) as [x|]; [|discriminate].
    destruct (x =? q); [|discriminate]. injection Hs as <-. rewrite Hw, Hsys. reflexivity.
Qed.

Lemma replay_states_inv cf : forall es ps fin, inv cf ps = true -> replay cf ps es = inl fin ->
  Forall (fun q => inv cf q = true) (states cf ps es) /\ inv cf fin = true.
Proof.
  induction es as [|e r IH]; intros ps fin Hi Hr; cbn in *.
  - injection Hr as <-. split; [repeat constructor|]; assumption.
  - destruct (step cf ps e) as [ps'|c] eqn:Es; [|discriminate].
    pose proof (step_inv _ _ _ _ Hi Es) as Hi'.
    destruct (IH _ _ Hi' Hr) as [Hf Hfin]. split; [constructor; assumption|assumption].
Qed.

(* admission decision: an arrival is rejected exactly when its node or the system is full,
   "full" being evaluated on the true populations at that member's turn *)
Lemma spawn_iff cf ps n p c sp sc d ps' :
  step cf ps (Spawn n p c sp sc d) = inl ps' ->
  get ps (idx n) = Some p /\ zsum ps = sp /\ ps' = ps /\
  (d = 0 <-> (lt_cap p c = false \/ lt_cap sp sc = false)).
Proof.
  cbn [step]. destruct (negb (1 <=? n)); [discriminate|].
  destruct (get ps (idx n)) as [x|]; [|discriminate].
  destruct (x =? p) eqn:E1; cbn; [|discriminate]. apply Z.eqb_eq in E1. subst x.
  destruct (zsum ps =? sp) eqn:E2; cbn; [|discriminate]. apply Z.eqb_eq in E2.
  destruct (Bool.eqb _ _) eqn:E3; [|discriminate]. intros H. injection H as <-.
  apply Bool.eqb_prop in E3. repeat split; auto.
  - intros ->. rewrite Z.eqb_refl in E3. apply orb_true_iff in E3 as [E|E]; apply negb_true_iff in E; auto.
  - intros Hf. apply Z.eqb_eq. rewrite <- E3. apply orb_true_iff.
    destruct Hf as [Hf|Hf]; rewrite Hf; auto.
Qed.

Definition frame_ok (cf : config) (p f : frame) : Prop :=
  replay cf (pops p) (evs f) = inl (pops f) /\
  Forall (fun q => inv cf q = true) (states cf (pops p) (evs f)).

(* the property: starting within capacity, every instant of every frame (also inside
   frames) is within node and system capacity, the replayed populations are the observed
   ones, and every admission decision was "rejected iff full" (spawn_iff) *)
Definition P_C06 (cf : config) (tr : list frame) : Prop :=
  (forall f, In f tr -> inv cf (pops f) = true) /\
  (forall i a b, nth_error tr i = Some a -> nth_error tr (S i) = Some b -> frame_ok cf a b).

Lemma chk_ok cf k p f : chk cf k p f = None -> replay cf (pops p) (evs f) = inl (pops f).
Proof.
  unfold chk. destruct (replay cf (pops p) (evs f)) as [ps|c]; [|discriminate].
  destruct (list_eqb ps (pops f)) eqn:E; [|discriminate]. apply list_eqb_eq in E. congruence.
Qed.

Theorem C06_sound : forall cf tr st, acc cf tr = Accept st -> P_C06 cf tr.
Proof.
  intros cf [|f0 r] st H; [discriminate|]. cbn [acc] in H.
  destruct (inv cf (pops f0)) eqn:E0; cbn in H; [|discriminate].
  destruct (scan (chk cf) 1 f0 r) as [[[k c] info]|] eqn:Es; [discriminate|].
  apply scan_none_chain in Es.
  assert (Hall : Forall (fun f => inv cf (pops f) = true) r).
  { eapply chain_invariant with (I := fun f => inv cf (pops f) = true); [|exact Es|exact E0].
    intros k p f Hc Hp. apply chk_ok in Hc. eapply replay_states_inv in Hc; [tauto|exact Hp]. }
  assert (Hin : forall f, In f (f0 :: r) -> inv cf (pops f) = true).
  { intros f [<-|Hf]; [exact E0|]. rewrite Forall_forall in Hall; auto. }
  split; [exact Hin|].
  intros i a b Ha Hb.
  destruct (chain_consecutive (chk cf) _ _ _ Es i a b Ha Hb) as [k' Hc].
  apply chk_ok in Hc. split; [exact Hc|].
  eapply replay_states_inv in Hc; [tauto|]. apply Hin. eapply nth_error_In; eauto.
Qed.

Example acc_example :
  is_accept (acc (mkCfg [Some 2; None] (Some 3))
    [ mkFrame [1; 0] [];
      mkFrame [2; 0] [Spawn 1 1 (Some 2) 1 (Some 3) 1; Enter 1 2];
      mkFrame [2; 0] [Spawn 1 2 (Some 2) 2 (Some 3) 0; RejRec 1 2];
      mkFrame [1; 1] [Leave 1; Enter 2 0] ]) = true.
Proof. vm_compute. reflexivity. Qed.
Example rej_wrong_admission :
  acc (mkCfg [Some 2] None) [ mkFrame [2] []; mkFrame [3] [Spawn 1 2 (Some 2) 2 None 1; Enter 1 2] ]
  = Reject 1 13 [].
Proof. vm_compute. reflexivity. Qed.

(* C18 -- deadlock detection.  Per frame of a simulate_until_deadlock run: the server
   vertices V, the TRUE wait-for edges W recomputed by the observer from the raw
   configuration (server of a blocked customer -> every server of its destination), the
   detector's own digraph G, the verdict nx of detect_deadlock on G, the tracker state
   (numbered by first occurrence) and the clock.  At the end: whether the loop stopped by
   itself, the deadlock time and the reported times_to_deadlock. *)
From Coq Require Import ZArith List Bool Lia.
From CiwV Require Import Sx Prelude Trace Deadlock.
Import ListNotations.
Open Scope Z_scope.

Record frame := mkFrame { V : list Z; W : graph; G : graph; nx : bool; st : Z; now : Z }.
Record final := mkFinal { stopped_itself : bool; t_dead : Z; ttd : list (Z * Z) }.

Definition decode_edge (s : sx) : option (Z * Z) := match s with L [A a; A b] => Some (a, b) | _ => None end.
Definition decode_frame (s : sx) : option frame :=
  match s with
  | L [v; w; g; x; A s0; A t] =>
    do v' <- getZs v; do wl <- getL w; do w' <- omap decode_edge wl; do gl <- getL g; do g' <- omap decode_edge gl;
    do x' <- getBool x; Some (mkFrame v' w' g' x' s0 t)
  | _ => None
  end.
Definition decode_final (s : sx) : option final :=
  match s with
  | L [b; A t; l] => do b' <- getBool b; do ll <- getL l; do l' <- omap decode_edge ll; Some (mkFinal b' t l')
  | _ => None
  end.

Definition edge_mem (e : Z * Z) (g : graph) : bool := existsb (fun x => (fst x =? fst e) && (snd x =? snd e)) g.
Definition same_edges (a b : graph) : bool := forallb (fun e => edge_mem e b) a && forallb (fun e => edge_mem e a) b.

(* frame-local checks; last = is this the final frame of a run that stopped by itself *)
(* strict = also check the mechanism (clauses 90, 91); with strict = false only the
   property's own clauses (92, 93) are checked, which is what the harness uses to look for
   a genuine failing input after a mechanism clause has failed *)
Definition frame_clause (strict : bool) (f : frame) (last : bool) : option Z :=
  if strict && negb (same_edges (G f) (W f)) then Some 90        (* the maintained digraph is the true wait-for relation *)
  else if strict && negb (Bool.eqb (deadlocked (G f) (V f)) (nx f)) then Some 91  (* knot search (networkx) = structural definition *)
  else if last && negb (deadlocked (W f) (V f)) then Some 92    (* sound: stopped => genuine deadlock *)
  else if negb last && deadlocked (W f) (V f) then Some 93      (* complete: never runs past a deadlock *)
  else None.

Fixpoint scan_frames (strict : bool) (k : Z) (l : list frame) (stopped : bool) : option (Z * Z) :=
  match l with
  | [] => None
  | f :: r =>
    let last := stopped && match r with [] => true | _ => false end in
    match frame_clause strict f last with
    | Some c => Some (k, c)
    | None => scan_frames strict (k + 1) r stopped
    end
  end.

(* first visit time of a tracker state *)
Fixpoint first_visit (s : Z) (l : list frame) : option Z :=
  match l with [] => None | f :: r => if st f =? s then Some (now f) else first_visit s r end.

Definition ttd_ok (tr : list frame) (fin : final) : bool :=
  forallb (fun sv => match first_visit (fst sv) tr with
                     | Some t0 => (snd sv =? t_dead fin - t0) && (0 <=? snd sv)
                     | None => false end) (ttd fin)
  && forallb (fun f => existsb (fun sv => fst sv =? st f) (ttd fin)) tr.

Definition acc (strict : bool) (f0 : frame) (tr : list frame) (fin : final) : verdict :=
  match scan_frames strict 1 tr (stopped_itself fin) with
  | Some (k, c) => Reject k c []
  | None =>
    if deadlocked (W f0) (V f0) then Reject 0 93 []
    else if stopped_itself fin && negb (ttd_ok (f0 :: tr) fin) then Reject (zlen tr) 94 []
    else if stopped_itself fin && negb (t_dead fin =? now (last tr f0)) then Reject (zlen tr) 95 []
    else Accept [zlen tr; if stopped_itself fin then 1 else 0]
  end.

Definition run (s : sx) : verdict :=
  match s with
  | L [A mode; f0; t; fin] =>
    match decode_frame f0, (do l <- getL t; omap decode_frame l), decode_final fin with
    | Some f0', Some tr, Some fin' => acc (mode =? 0) f0' tr fin'
    | _, _, _ => BadInput 0
    end
  | _ => BadInput 0
  end.

(* ---- T1 ---- *)
Lemma scan_frames_ok : forall strict l k stopped, scan_frames strict k l stopped = None ->
  forall pre f post, l = pre ++ f :: post ->
    (strict = true -> same_edges (G f) (W f) = true /\ deadlocked (G f) (V f) = nx f) /\
    (stopped = true -> post = [] -> deadlocked (W f) (V f) = true) /\
    ((stopped = false \/ post <> []) -> deadlocked (W f) (V f) = false).
Proof.
  intros strict. induction l as [|x r IH]; intros k stopped H pre f post E; [destruct pre; discriminate|].
  cbn [scan_frames] in H.
  destruct (frame_clause strict x (stopped && match r with [] => true | _ => false end)) eqn:Ec; [discriminate|].
  destruct pre as [|p pre]; cbn in E.
  - injection E as -> ->. unfold frame_clause in Ec.
    assert (Hm : strict = true -> same_edges (G f) (W f) = true /\ deadlocked (G f) (V f) = nx f).
    { intros ->. cbn in Ec. destruct (same_edges (G f) (W f)); cbn in Ec; [|discriminate].
      destruct (Bool.eqb (deadlocked (G f) (V f)) (nx f)) eqn:E2; cbn in Ec; [|discriminate].
      apply Bool.eqb_prop in E2. auto. }
    assert (Ec' : (if stopped && match post with [] => true | _ => false end && negb (deadlocked (W f) (V f)) then Some 92
                   else if negb (stopped && match post with [] => true | _ => false end) && deadlocked (W f) (V f) then Some 93
                   else None) = None).
    { destruct strict; cbn in Ec.
      - destruct (same_edges (G f) (W f)); cbn in Ec; [|discriminate].
        destruct (Bool.eqb (deadlocked (G f) (V f)) (nx f)); cbn in Ec; [|discriminate]. exact Ec.
      - exact Ec. }
    split; [exact Hm|].
    destruct (deadlocked (W f) (V f)) eqn:Ed.
    + split; [auto|]. intros Hc. destruct stopped; cbn in Ec'.
      * destruct post; cbn in Ec'; [destruct Hc; congruence|discriminate].
      * discriminate.
    + split; [|auto]. intros -> ->. cbn in Ec'. discriminate.
  - injection E as -> ->. eapply IH; eauto.
Qed.

(* an accepted run of simulate_until_deadlock (any mode): the run never continues past a state
   with a genuine deadlock (Deadlock.D on the TRUE wait-for relation W) and, when it stops by
   itself, stops in one; every reported time to deadlock is deadlock time - first visit,
   non-negative.  In strict mode additionally: at every frame the detector's digraph is the true
   wait-for relation and the knot search agrees with the structural definition. *)
Theorem C18_sound : forall strict f0 tr fin stt, acc strict f0 tr fin = Accept stt ->
  (forall pre f post, tr = pre ++ f :: post ->
     (strict = true -> same_edges (G f) (W f) = true /\ deadlocked (G f) (V f) = nx f) /\
     (stopped_itself fin = true -> post = [] -> D (W f) (V f)) /\
     ((stopped_itself fin = false \/ post <> []) -> ~ D (W f) (V f))) /\
  ~ D (W f0) (V f0) /\
  (stopped_itself fin = true -> forall s v, In (s, v) (ttd fin) ->
     exists t0, first_visit s (f0 :: tr) = Some t0 /\ v = t_dead fin - t0 /\ 0 <= v).
Proof.
  intros strict f0 tr fin stt H. unfold acc in H.
  destruct (scan_frames strict 1 tr (stopped_itself fin)) as [[k c]|] eqn:Es; [discriminate|].
  destruct (deadlocked (W f0) (V f0)) eqn:E0; [discriminate|].
  split; [|split].
  - intros pre f post E. destruct (scan_frames_ok _ _ _ _ Es pre f post E) as (A1 & A3 & A4).
    split; [exact A1|split].
    + intros Hs Hp. apply deadlocked_iff_D. auto.
    + intros Hc HD. apply deadlocked_iff_D in HD. rewrite (A4 Hc) in HD. discriminate.
  - intros HD. apply deadlocked_iff_D in HD. congruence.
  - intros Hs s v Hin. rewrite Hs in H. cbn in H.
    destruct (ttd_ok (f0 :: tr) fin) eqn:Et; cbn in H; [|discriminate].
    unfold ttd_ok in Et. apply andb_true_iff in Et as [Et _]. rewrite forallb_forall in Et.
    specialize (Et (s, v) Hin). cbn [fst snd] in Et.
    destruct (first_visit s (f0 :: tr)) as [t0|]; [|discriminate].
    apply andb_true_iff in Et as [E1 E2]. apply Z.eqb_eq in E1. apply Z.leb_le in E2. eauto.
Qed.

Example acc_example :
  is_accept (acc true (mkFrame [11;21] [] [] false 0 0)
    [ mkFrame [11;21] [(11,21)] [(11,21)] false 1 4;
      mkFrame [11;21] [(11,21);(21,11)] [(21,11);(11,21)] true 2 6 ]
    (mkFinal true 6 [(0,6);(1,2);(2,0)])) = true.
Proof. vm_compute. reflexivity. Qed.
Example rej_missed :
  acc true (mkFrame [11;21] [] [] false 0 0)
    [ mkFrame [11;21] [(11,21);(21,11)] [(21,11);(11,21)] true 2 6; mkFrame [11;21] [(11,21);(21,11)] [(21,11);(11,21)] true 2 7 ]
    (mkFinal true 7 []) = Reject 1 93 [].
Proof. vm_compute. reflexivity. Qed.

(* C19 -- processor sharing.  The "acceptor" is the model of Sub/PS.v itself: one case is
   the input of a single PS node (capacity, threshold, arrival list with exact rational
   requirements) together with what the real ciw.PSNode did on it (one record per customer,
   the PS node's state after the last event of every instant) and, for capacity = infinity
   and threshold = 1, what a plain single-server ciw.Node did on the same input.  The
   acceptor runs the model and compares exactly (Qeq_bool, no rounding anywhere).

   The same acceptor also serves PS nodes inside observed networks (arrivals = the node's
   accept log, one id per visit; horizon = the simulated time, customers still present then
   have no record).

   wire format   L [K; A rn; A rd; arrs; recs; snaps; fifo; horizon]
     K        A k | L [A 0] (infinite)
     arrs     L [A id; A tn; A td; A wn; A wd] ...            (in arrival order)
     recs     L [A id; arr; start; exit] ...                   (dates as L [A n; A d]; any order)
     snaps    L [] | L [L [now; A last_occupancy; L [L [A id; A ws; start; time_left; end; last_update] ...]] ...]
     fifo     L [] | L [recs of the FIFO twin]
     horizon  L [] (run to completion: one record per arrival) | L [h] (every model departure before h has a record) *)
From Coq Require Import QArith Qminmax Qreduction ZArith List Bool Lia.
From CiwV Require Import Sx Prelude PS.
Import ListNotations.
Open Scope Q_scope.

Definition getQ (s : sx) : option Q :=
  match s with
  | L [A n; A d] => if (0 <? d)%Z then Some (Qmake n (Z.to_pos d)) else None
  | _ => None
  end.
Definition encQ (q : Q) : sx := let r := Qred q in L [A (Qnum r); A (Zpos (Qden r))].

Definition decode_arrival (s : sx) : option arrival :=
  match s with
  | L [A i; A tn; A td; A wn; A wd] =>
    do t <- getQ (L [A tn; A td]); do w <- getQ (L [A wn; A wd]); Some (i, t, w)
  | _ => None
  end.
Record rec := mkRec { r_id : Z; r_arr : Q; r_start : Q; r_exit : Q }.
Definition decode_rec (s : sx) : option rec :=
  match s with
  | L [A i; a; b; e] => do a' <- getQ a; do b' <- getQ b; do e' <- getQ e; Some (mkRec i a' b' e')
  | _ => None
  end.
Record scust := mkSC { sc_id : Z; sc_ws : bool; sc_start : Q; sc_tl : Q; sc_end : Q; sc_dlu : Q }.
Record snap := mkSnap { sn_now : Q; sn_locc : Z; sn_inds : list scust }.
Definition decode_scust (s : sx) : option scust :=
  match s with
  | L [A i; A w; b; tl; e; u] =>
    do b' <- getQ b; do tl' <- getQ tl; do e' <- getQ e; do u' <- getQ u; Some (mkSC i (negb (w =? 0)%Z) b' tl' e' u')
  | _ => None
  end.
Definition decode_snap (s : sx) : option snap :=
  match s with
  | L [t; A lo; cs] => do t' <- getQ t; do l <- getL cs; do cs' <- omap decode_scust l; Some (mkSnap t' lo cs')
  | _ => None
  end.
Definition decode_K (s : sx) : option (option nat) :=
  match s with
  | A k => if (1 <=? k)%Z then Some (Some (Z.to_nat k)) else None
  | L [A 0%Z] => Some None
  | _ => None
  end.

(* ---- the model's side ---- *)
(* all states of the run, initial state first *)
Fixpoint trace (R : Q) (K : option nat) (fuel : nat) (s : st) : list st :=
  s :: match fuel with
       | O => []
       | S f => match step R K s with None => [] | Some s' => trace R K f s' end
       end.
(* the state after the last event of every instant *)
Fixpoint settled (l : list st) : list st :=
  match l with
  | [] => []
  | s :: r => match r with
              | [] => [s]
              | s' :: _ => if Qeq_bool (now s) (now s') then settled r else s :: settled r
              end
  end.

Fixpoint find_dep (id : Z) (l : list dep) : option dep :=
  match l with [] => None | d :: r => if (d_id d =? id)%Z then Some d else find_dep id r end.

(* clauses *)
Definition rec_clause (ds : list dep) (r : rec) : option Z :=
  match find_dep (r_id r) ds with
  | None => Some 190%Z                                             (* a customer the model does not know / never leaves *)
  | Some d =>
    if negb (Qeq_bool (r_arr r) (d_arr d)) then Some 191%Z         (* arrival date *)
    else if negb (Qeq_bool (r_start r) (d_start d)) then Some 192%Z (* service start date *)
    else if negb (Qeq_bool (r_exit r) (d_exit d)) then Some 193%Z  (* exit date *)
    else None
  end.
Fixpoint scan_recs (ds : list dep) (l : list rec) : option (Z * Z) :=
  match l with
  | [] => None
  | r :: t => match rec_clause ds r with Some c => Some (r_id r, c) | None => scan_recs ds t end
  end.

Definition cust_eqb (c : cust) (o : scust) : bool :=
  (cid c =? sc_id o)%Z && Bool.eqb (c_ws c) (sc_ws o) &&
  (if c_ws c then Qeq_bool (c_start c) (sc_start o) && Qeq_bool (c_tl c) (sc_tl o) &&
                  Qeq_bool (c_end c) (sc_end o) && Qeq_bool (c_dlu c) (sc_dlu o)
   else true).
Fixpoint custs_eqb (a : list cust) (b : list scust) : bool :=
  match a, b with
  | [], [] => true
  | c :: r, o :: t => cust_eqb c o && custs_eqb r t
  | _, _ => false
  end.
Definition snap_eqb (s : st) (o : snap) : bool :=
  Qeq_bool (now s) (sn_now o) && (Z.of_nat (locc s) =? sn_locc o)%Z && custs_eqb (inds s) (sn_inds o).
Fixpoint scan_snaps (k : Z) (a : list st) (b : list snap) : option (Z * Z) :=
  match a, b with
  | [], [] => None
  | s :: r, o :: t => if snap_eqb s o then scan_snaps (k + 1) r t else Some (k, 197%Z)
  | _, _ => Some (k, 198%Z)
  end.

(* instants at which a node empties, from its records: exit dates e with
   #{arrivals <= e} = #{exits <= e} *)
Definition count_le (f : rec -> Q) (e : Q) (l : list rec) : nat := length (filter (fun r => Qle_bool (f r) e) l).
Definition empties (l : list rec) : list Q :=
  map r_exit (filter (fun r => (count_le r_arr (r_exit r) l =? count_le r_exit (r_exit r) l)%nat) l).
Definition qmem (x : Q) (l : list Q) : bool := existsb (Qeq_bool x) l.
Definition same_instants (a b : list Q) : bool := forallb (fun x => qmem x b) a && forallb (fun x => qmem x a) b.

Definition sorted_arrs (l : list arrival) : bool :=
  (fix go (t : Q) (l : list arrival) : bool :=
     match l with [] => true | a :: r => Qle_bool t (a_t a) && Qle_bool 0 (a_w a) && go (a_t a) r end) 0 l.

Definition has_rec (recs : list rec) (d : dep) : bool := existsb (fun r => (r_id r =? d_id d)%Z) recs.

Definition count_clause (hz : option Q) (arrs : list arrival) (recs : list rec) (ds : list dep) : bool :=
  match hz with
  | None => (length recs =? length arrs)%nat
  | Some h => forallb (fun d => Qle_bool h (d_exit d) || has_rec recs d) ds
  end.

Definition acc (K : option nat) (R : Q) (arrs : list arrival) (recs : list rec) (snaps : option (list snap))
               (fifo : option (list rec)) (hz : option Q) : verdict :=
  if Qle_bool R 0 || negb (sorted_arrs arrs) then BadInput 2
  else
    let fuel := (2 * length arrs)%nat in
    let tr := trace R K fuel (init arrs) in
    let fin := last tr (init arrs) in
    let ds := deps fin in
    match inds fin, pend fin with
    | [], [] =>
      if negb (count_clause hz arrs recs ds) then Reject 0 190 [Z.of_nat (length recs); Z.of_nat (length arrs)]
      else match scan_recs ds recs with
      | Some (i, c) => Reject i c []
      | None =>
        match (match snaps with Some sn => scan_snaps 0 (settled tr) sn | None => None end) with
        | Some (k, c) => Reject k c []
        | None =>
          match fifo with
          | None => Accept [Z.of_nat (length ds); Z.of_nat (length tr); 0%Z]
          | Some frecs =>
            match scan_recs (fifo_run arrs) frecs with
            | Some (i, c) => Reject i 194 [c]                                    (* FIFO twin vs Lindley model *)
            | None =>
              if negb (length frecs =? length arrs)%nat then Reject 0 194 [190%Z]
              else if same_instants (empties recs) (empties frecs) then
                Accept [Z.of_nat (length ds); Z.of_nat (length tr); Z.of_nat (length (empties recs))]
              else Reject 0 195 []                                               (* emptying instants differ *)
            end
          end
        end
      end
    | _, _ => Reject 0 196 []                                                    (* model run incomplete *)
    end.

Definition opt_list {X} (f : sx -> option X) (s : sx) : option (option (list X)) :=
  match s with
  | L [] => Some None
  | L [x] => match (do l <- getL x; omap f l) with Some v => Some (Some v) | None => None end
  | _ => None
  end.
Definition opt_Q (s : sx) : option (option Q) :=
  match s with
  | L [] => Some None
  | L [x] => match getQ x with Some v => Some (Some v) | None => None end
  | _ => None
  end.

Definition run (s : sx) : verdict :=
  match s with
  | L [k; A rn; A rd; a; r; sn; f; hz] =>
    match decode_K k, getQ (L [A rn; A rd]), (do l <- getL a; omap decode_arrival l),
          (do l <- getL r; omap decode_rec l) with
    | Some K, Some R, Some arrs, Some recs =>
      match opt_list decode_snap sn, opt_list decode_rec f, opt_Q hz with
      | Some snaps, Some fifo, Some h => acc K R arrs recs snaps fifo h
      | _, _, _ => BadInput 1
      end
    | _, _, _, _ => BadInput 0
    end
  | _ => BadInput 0
  end.

(* model evaluations for the harness (replay details, samples) *)
Definition enc_dep (d : dep) : sx := L [A (d_id d); encQ (d_arr d); encQ (d_start d); encQ (d_exit d)].
Definition enc_cust (c : cust) : sx :=
  L [A (cid c); A (if c_ws c then 1 else 0)%Z; encQ (c_start c); encQ (c_tl c); encQ (c_end c); encQ (c_dlu c)].
Definition enc_st (s : st) : sx := L [encQ (now s); A (Z.of_nat (locc s)); L (map enc_cust (inds s))].

Definition model_ps (s : sx) : sx :=
  match s with
  | L [k; A rn; A rd; a] =>
    match decode_K k, getQ (L [A rn; A rd]), (do l <- getL a; omap decode_arrival l) with
    | Some K, Some R, Some arrs =>
      let tr := trace R K (2 * length arrs) (init arrs) in
      let fin := last tr (init arrs) in
      L [L (map enc_dep (rev (deps fin))); L (map (fun p => L [A (fst p); encQ (snd p)]) (rev (starts fin)));
         L (map enc_st (settled tr))]
    | _, _, _ => L []
    end
  | _ => L []
  end.
Definition model_fifo (s : sx) : sx :=
  match (do l <- getL s; omap decode_arrival l) with
  | Some arrs => L (map enc_dep (fifo_run arrs))
  | None => L []
  end.

(* ---- what acceptance means ---- *)
Lemma scan_recs_None ds l : scan_recs ds l = None ->
  forall r, In r l -> exists d, find_dep (r_id r) ds = Some d /\
    r_arr r == d_arr d /\ r_start r == d_start d /\ r_exit r == d_exit d.
Proof.
  induction l as [|x t IH]; cbn; intros H r Hin; [contradiction|].
  destruct (rec_clause ds x) eqn:E; [discriminate|].
  destruct Hin as [->|Hin]; [|apply IH; assumption].
  unfold rec_clause in E. destruct (find_dep (r_id r) ds) as [d|]; [|discriminate].
  exists d. split; [reflexivity|].
  destruct (Qeq_bool (r_arr r) (d_arr d)) eqn:E1; cbn in E; [|discriminate].
  destruct (Qeq_bool (r_start r) (d_start d)) eqn:E2; cbn in E; [|discriminate].
  destruct (Qeq_bool (r_exit r) (d_exit d)) eqn:E3; cbn in E; [|discriminate].
  repeat split; apply Qeq_bool_iff; assumption.
Qed.

Lemma trace_last R K f : forall s d, last (trace R K f s) d = PS.run R K f s.
Proof.
  induction f as [|f IH]; intros s d; [reflexivity|].
  cbn [trace PS.run]. destruct (step R K s) as [s'|]; [|reflexivity].
  rewrite last_cons. apply IH.
Qed.

(* an accepted case: every record of the real PS node carries exactly the dates of the model's run
   (PS.ps_run, the function the theorems of Sub/PS.v are about) *)
Theorem C19_accept_sound K R arrs recs snaps fifo hz stt :
  acc K R arrs recs snaps fifo hz = Accept stt ->
  let fin := PS.ps_run R K arrs in
  inds fin = [] /\ pend fin = [] /\
  (hz = None -> length recs = length arrs) /\
  (forall h d, hz = Some h -> In d (deps fin) -> d_exit d < h -> exists r, In r recs /\ r_id r = d_id d) /\
  forall r, In r recs -> exists d, find_dep (r_id r) (deps fin) = Some d /\
    r_arr r == d_arr d /\ r_start r == d_start d /\ r_exit r == d_exit d.
Proof.
  intros H fin. unfold acc in H.
  destruct (Qle_bool R 0 || negb (sorted_arrs arrs)); [discriminate|].
  cbv zeta in H. rewrite trace_last in H. fold (PS.ps_run R K arrs) in H. fold fin in H.
  destruct (inds fin) eqn:Ei; [|discriminate]. destruct (pend fin) eqn:Ep; [|discriminate].
  destruct (count_clause hz arrs recs (deps fin)) eqn:El; cbn [negb] in H; [|discriminate].
  destruct (scan_recs (deps fin) recs) as [[i c]|] eqn:Es; [discriminate|].
  split; [reflexivity|]. split; [reflexivity|]. split; [|split].
  - intros ->. cbn in El. apply Nat.eqb_eq; assumption.
  - intros h d -> Hd Hlt. cbn in El. rewrite forallb_forall in El. specialize (El d Hd).
    apply orb_true_iff in El as [El|El].
    + apply Qle_bool_iff in El. exfalso. apply (Qlt_not_le _ _ Hlt El).
    + unfold has_rec in El. apply existsb_exists in El as (r & Hr & E). exists r. split; [exact Hr|]. apply Z.eqb_eq. exact E.
  - apply scan_recs_None; assumption.
Qed.

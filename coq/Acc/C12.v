(* C12 -- server schedules and slotted services follow the declared cyclic timetable.
   The acceptor walks the run's schedule-related events, keeping one counter per node
   (shift changes / slots executed so far), and compares each event with the model
   of Sub/Sched.v. *)
From Coq Require Import ZArith List Bool Lia Arith.
From CiwV Require Import Sx Prelude Trace Sched.
Import ListNotations.
Open Scope Z_scope.

Record ncfg := mkN { nid : Z; kind : Z; bnd : list Z; vals : list Z; offs : Z; capd : bool; pre : bool }.

Inductive ev :=
| Shift (node date c_after onduty : Z)
| Slot (node date size nstarts before after : Z)
| Start (node date c_on skind n_int in_slot : Z)
| IntRec (node exit_date shift_date : Z)
| Snap (node now onduty : Z)
| EndSvc (node date : Z).        (* the node executed an end of service as ITS next event at that date *)

Definition decode_ncfg (s : sx) : option ncfg :=
  match s with
  | L [A i; A k; b; v; A o; c; p] =>
    do b' <- getZs b; do v' <- getZs v; do c' <- getBool c; do p' <- getBool p; Some (mkN i k b' v' o c' p')
  | _ => None
  end.
Definition decode_ev (s : sx) : option ev :=
  match s with
  | L [A 1; A n; A d; A c; A o] => Some (Shift n d c o)
  | L [A 2; A n; A d; A sz; A ns; A b; A a] => Some (Slot n d sz ns b a)
  | L [A 3; A n; A d; A c; A k; A ni; A sl] => Some (Start n d c k ni sl)
  | L [A 4; A n; A x; A sd] => Some (IntRec n x sd)
  | L [A 5; A n; A t; A o] => Some (Snap n t o)
  | L [A 6; A n; A d] => Some (EndSvc n d)
  | _ => None
  end.

Definition cfg_of (cs : list ncfg) (n : Z) : option ncfg := find (fun c => nid c =? n) cs.

Fixpoint cnt (m : list (Z * nat)) (n : Z) : nat :=
  match m with [] => O | (k, v) :: r => if k =? n then v else cnt r n end.
Definition bump (m : list (Z * nat)) (n : Z) : list (Z * nat) := (n, S (cnt m n)) :: m.

Definition step (cs : list ncfg) (m : list (Z * nat)) (e : ev) : list (Z * nat) + Z :=
  match e with
  | Shift n d c o =>
    match cfg_of cs n with
    | None => inr 60
    | Some cf =>
      let k := cnt m n in
      if negb (kind cf =? 0) then inr 60
      else if negb (d =? D (bnd cf) (offs cf) k) then inr 61         (* shift change at the timetable's date *)
      else if negb (c =? C (bnd cf) (vals cf) k) then inr 62         (* with the timetable's number of servers *)
      else if negb (o =? c) then inr 63                              (* that many servers on duty afterwards *)
      else inl (bump m n)
    end
  | Slot n d sz ns bf af =>
    match cfg_of cs n with
    | None => inr 60
    | Some cf =>
      let k := cnt m n in
      if negb (kind cf =? 1) then inr 60
      else if negb (d =? slot_date (bnd cf) (offs cf) k) then inr 64
      else if negb (sz =? slot_size (vals cf) k) then inr 65
      else if negb (ns <=? sz) then inr 66                           (* at most the slot size starts per slot *)
      else if capd cf && negb (ns <=? Z.max (sz - bf) 0) then inr 67 (* capacitated: only the free part of the slot *)
      else if capd cf && pre cf && negb (af <=? sz) then inr 68      (* capacitated + pre-emptive: at most size in service *)
      else inl (bump m n)
    end
  | Start n d c sk ni sl =>
    match cfg_of cs n with
    | None => inr 60
    | Some cf =>
      if kind cf =? 0 then
        if negb (0 <? c) then inr 69                                 (* no service starts while zero servers are scheduled *)
        else if (sk =? 0) && negb (ni =? 0) then inr 70              (* interrupted customers restart before fresh ones *)
        else inl m
      else if negb (sl =? 1) then inr 71                             (* slotted: services start only at slot instants *)
      else inl m
    end
  | IntRec n x sd => if x =? sd then inl m else inr 72               (* interrupted exactly at the shift end *)
  | Snap n t o =>
    match cfg_of cs n with
    | None => inr 60
    | Some cf =>
      let k := cnt m n in
      if negb (kind cf =? 0) then inl m
      else if negb (o =? match k with O => 0 | S j => C (bnd cf) (vals cf) j end) then inr 73
      else if negb (t <=? D (bnd cf) (offs cf) k) then inr 74        (* the next shift change is not overdue *)
      else inl m
    end
  | EndSvc n d =>
    match cfg_of cs n with
    | None => inr 60
    | Some cf =>
      let k := cnt m n in
      (* at a tie the node's shift change / slot goes first: an end of service is the node's next event only strictly before it *)
      if negb (d <? (if kind cf =? 0 then D (bnd cf) (offs cf) k else slot_date (bnd cf) (offs cf) k)) then inr 75
      else inl m
    end
  end.

Fixpoint replay (cs : list ncfg) (m : list (Z * nat)) (i : Z) (es : list ev) : option (Z * Z) :=
  match es with
  | [] => None
  | e :: r => match step cs m e with inl m' => replay cs m' (i + 1) r | inr c => Some (i, c) end
  end.

Definition cfg_ok (c : ncfg) : bool :=
  if kind c =? 0 then wf_sched (bnd c) (vals c) (offs c)
  else (0 <=? offs c) && Nat.eqb (length (bnd c)) (length (vals c)) && negb (Nat.eqb (length (bnd c)) 0) && increasing_pos 0 (bnd c).

Definition acc (cs : list ncfg) (es : list ev) : verdict :=
  if negb (forallb cfg_ok cs) then BadInput 2 else
  match replay cs [] 0 es with
  | Some (i, c) => Reject i c []
  | None => Accept [zlen es]
  end.

Definition run (s : sx) : verdict :=
  match s with
  | L [c; e] =>
    match (do l <- getL c; omap decode_ncfg l), (do l <- getL e; omap decode_ev l) with
    | Some cs, Some es => acc cs es
    | _, _ => BadInput 0
    end
  | _ => BadInput 0
  end.

(* ---- T1 ---- *)
Definition is_tick (n : Z) (e : ev) : bool :=
  match e with Shift n' _ _ _ => n' =? n | Slot n' _ _ _ _ _ => n' =? n | _ => false end.
Definition nticks (n : Z) (es : list ev) : nat := length (filter (is_tick n) es).

Lemma cnt_bump m n n' : cnt (bump m n) n' = if n =? n' then S (cnt m n) else cnt m n'.
Proof. unfold bump. cbn. destruct (n =? n') eqn:E; [apply Z.eqb_eq in E; subst|]; reflexivity. Qed.

Lemma step_cnt cs m e m' n : step cs m e = inl m' -> cnt m' n = (cnt m n + (if is_tick n e then 1 else 0))%nat.
Proof.
  destruct e as [nd d c o|nd d sz ns bf af|nd d c sk ni sl|nd x sd|nd t o|nd d]; cbn [step is_tick]; intros H.
  6: { destruct (cfg_of cs nd); [|discriminate]. destruct (negb _); [discriminate|]. injection H as <-. lia. }
  - destruct (cfg_of cs nd); [|discriminate].
    repeat match type of H with (if ?b then _ else _) = _ => destruct b; [discriminate|] end.
    injection H as <-. rewrite cnt_bump. destruct (nd =? n) eqn:E; [apply Z.eqb_eq in E; subst; lia|lia].
  - destruct (cfg_of cs nd); [|discriminate].
    repeat match type of H with (if ?b then _ else _) = _ => destruct b; [discriminate|] end.
    injection H as <-. rewrite cnt_bump. destruct (nd =? n) eqn:E; [apply Z.eqb_eq in E; subst; lia|lia].
  - destruct (cfg_of cs nd); [|discriminate].
    destruct (kind n0 =? 0).
    + repeat match type of H with (if ?b then _ else _) = _ => destruct b; [discriminate|] end. injection H as <-. lia.
    + destruct (negb (sl =? 1)); [discriminate|]. injection H as <-. lia.
  - destruct (x =? sd); [|discriminate]. injection H as <-. lia.
  - destruct (cfg_of cs nd); [|discriminate].
    destruct (negb (kind n0 =? 0)); [injection H as <-; lia|].
    repeat match type of H with (if ?b then _ else _) = _ => destruct b; [discriminate|] end. injection H as <-. lia.
Qed.

(* every shift change of an accepted run is the timetable's: the j-th shift change of a node
   (j = number of earlier ones) happens at D j, sets v[j mod n] servers, and that many are on
   duty afterwards; every slot likewise; every service start obeys the schedule *)
Definition ev_ok (cs : list ncfg) (j : nat) (e : ev) : Prop :=
  match e with
  | Shift n d c o => exists cf, cfg_of cs n = Some cf /\ kind cf = 0 /\
      d = D (bnd cf) (offs cf) j /\ c = C (bnd cf) (vals cf) j /\ o = c
  | Slot n d sz ns bf af => exists cf, cfg_of cs n = Some cf /\ kind cf = 1 /\
      d = slot_date (bnd cf) (offs cf) j /\ sz = slot_size (vals cf) j /\ ns <= sz /\
      (capd cf = true -> ns <= Z.max (sz - bf) 0) /\ (capd cf = true -> pre cf = true -> af <= sz)
  | Start n d c sk ni sl => exists cf, cfg_of cs n = Some cf /\
      (kind cf = 0 -> 0 < c /\ (sk = 0 -> ni = 0)) /\ (kind cf <> 0 -> sl = 1)
  | IntRec n x sd => x = sd
  | Snap n t o => exists cf, cfg_of cs n = Some cf /\
      (kind cf = 0 -> o = match j with O => 0 | S i => C (bnd cf) (vals cf) i end /\ t <= D (bnd cf) (offs cf) j)
  | EndSvc n d => exists cf, cfg_of cs n = Some cf /\
      (kind cf = 0 -> d < D (bnd cf) (offs cf) j) /\ (kind cf <> 0 -> d < slot_date (bnd cf) (offs cf) j)
  end.

Definition node_of (e : ev) : Z :=
  match e with Shift n _ _ _ | Slot n _ _ _ _ _ | Start n _ _ _ _ _ | IntRec n _ _ | Snap n _ _ | EndSvc n _ => n end.

Lemma step_ok cs m e m' : step cs m e = inl m' -> ev_ok cs (cnt m (node_of e)) e.
Proof.
  destruct e as [nd d c o|nd d sz ns bf af|nd d c sk ni sl|nd x sd|nd t o|nd d]; cbn [step ev_ok node_of]; intros H.
  6: { destruct (cfg_of cs nd) as [cf|]; [|discriminate]. exists cf. split; [reflexivity|].
       destruct (kind cf =? 0) eqn:E1; [apply Z.eqb_eq in E1|apply Z.eqb_neq in E1];
       (destruct (d <? _) eqn:E2; cbn in H; [|discriminate]); apply Z.ltb_lt in E2; split; intros; [exact E2|congruence|congruence|exact E2]. }
  - destruct (cfg_of cs nd) as [cf|]; [|discriminate]. exists cf. split; [reflexivity|].
    destruct (kind cf =? 0) eqn:E1; cbn in H; [|discriminate].
    destruct (d =? _) eqn:E2; cbn in H; [|discriminate].
    destruct (c =? _) eqn:E3; cbn in H; [|discriminate].
    destruct (o =? c) eqn:E4; cbn in H; [|discriminate].
    apply Z.eqb_eq in E1, E2, E3, E4. auto.
  - destruct (cfg_of cs nd) as [cf|]; [|discriminate]. exists cf. split; [reflexivity|].
    destruct (kind cf =? 1) eqn:E1; cbn in H; [|discriminate].
    destruct (d =? _) eqn:E2; cbn in H; [|discriminate].
    destruct (sz =? _) eqn:E3; cbn in H; [|discriminate].
    destruct (ns <=? sz) eqn:E4; cbn in H; [|discriminate].
    apply Z.eqb_eq in E1, E2, E3. apply Z.leb_le in E4.
    destruct (capd cf) eqn:Ec; cbn in H.
    + destruct (ns <=? Z.max (sz - bf) 0) eqn:E5; cbn in H; [|discriminate]. apply Z.leb_le in E5.
      destruct (pre cf) eqn:Ep; cbn in H.
      * destruct (af <=? sz) eqn:E6; cbn in H; [|discriminate]. apply Z.leb_le in E6. repeat split; auto.
      * repeat split; auto. discriminate.
    + repeat split; auto; discriminate.
  - destruct (cfg_of cs nd) as [cf|]; [|discriminate]. exists cf. split; [reflexivity|].
    destruct (kind cf =? 0) eqn:E1.
    + apply Z.eqb_eq in E1. destruct (0 <? c) eqn:E2; cbn in H; [|discriminate]. apply Z.ltb_lt in E2.
      destruct ((sk =? 0) && negb (ni =? 0)) eqn:E3; [discriminate|].
      split; [|intros; congruence]. intros _. split; [exact E2|].
      intros ->. cbn in E3. apply negb_false_iff in E3. apply Z.eqb_eq in E3. exact E3.
    + apply Z.eqb_neq in E1. destruct (sl =? 1) eqn:E2; cbn in H; [|discriminate]. apply Z.eqb_eq in E2.
      split; [intros; congruence|auto].
  - destruct (x =? sd) eqn:E; [|discriminate]. apply Z.eqb_eq in E. exact E.
  - destruct (cfg_of cs nd) as [cf|]; [|discriminate]. exists cf. split; [reflexivity|].
    intros Hk. rewrite Hk in H. cbn in H.
    destruct (o =? _) eqn:E1; cbn in H; [|discriminate].
    destruct (t <=? _) eqn:E2; cbn in H; [|discriminate].
    apply Z.eqb_eq in E1. apply Z.leb_le in E2. auto.
Qed.

Lemma replay_ok cs : forall es m i, replay cs m i es = None ->
  forall pre0 e post, es = pre0 ++ e :: post ->
    ev_ok cs (cnt m (node_of e) + nticks (node_of e) pre0) e.
Proof.
  induction es as [|e0 r IH]; intros m i H pre0 e post E; [destruct pre0; discriminate|].
  cbn [replay] in H. destruct (step cs m e0) as [m'|c] eqn:Es; [|discriminate].
  destruct pre0 as [|p0 pre1]; cbn in E.
  - injection E as -> ->. unfold nticks. cbn. rewrite Nat.add_0_r. eapply step_ok; eauto.
  - injection E as -> ->. specialize (IH _ _ H pre1 e post eq_refl).
    rewrite (step_cnt _ _ _ _ (node_of e) Es) in IH.
    unfold nticks in *. cbn [filter]. destruct (is_tick (node_of e) p0); cbn [length] in *.
    + replace (cnt m (node_of e) + S (length (filter (is_tick (node_of e)) pre1)))%nat
        with (cnt m (node_of e) + 1 + length (filter (is_tick (node_of e)) pre1))%nat by lia. exact IH.
    + rewrite Nat.add_0_r in IH. exact IH.
Qed.

Theorem C12_sound : forall cs es st, acc cs es = Accept st ->
  forall pre0 e post, es = pre0 ++ e :: post -> ev_ok cs (nticks (node_of e) pre0) e.
Proof.
  intros cs es st H pre0 e post E. unfold acc in H.
  destruct (forallb cfg_ok cs); cbn in H; [|discriminate].
  destruct (replay cs [] 0 es) as [[i c]|] eqn:Er; [discriminate|].
  apply (replay_ok cs es [] 0 Er pre0 e post E).
Qed.

(* together with Sched.wf_dates_increasing: in an accepted run the shift changes of a node are at
   strictly increasing dates D 0 < D 1 < ... and between D j and D (j+1) exactly C j servers are
   on duty (Sched.timetable_spec) *)
Example acc_example :
  is_accept (acc [mkN 1 0 [10;30;100] [2;0;1] 7 false false]
    [Snap 1 0 0; Shift 1 7 2 2; Start 1 7 2 0 0 0; Snap 1 7 2; Snap 1 12 2; Shift 1 17 0 0; Snap 1 17 0; Shift 1 37 1 1]) = true.
Proof. vm_compute. reflexivity. Qed.
Example rej_end_at_shift :    (* an end of service executed as the node's event AT the date of its due shift change *)
  acc [mkN 1 0 [10;30;100] [2;0;1] 7 false false] [Shift 1 7 2 2; EndSvc 1 12; EndSvc 1 17] = Reject 2 75 [].
Proof. vm_compute. reflexivity. Qed.
Example rej_start_zero :
  acc [mkN 1 0 [10;30;100] [2;0;1] 7 false false] [Shift 1 7 2 2; Shift 1 17 0 0; Start 1 20 0 0 0 0] = Reject 2 69 [].
Proof. vm_compute. reflexivity. Qed.

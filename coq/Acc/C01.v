(* C01 -- customer conservation.  Observation slice: per frame the number of
   customers created so far, the ids found in each service node (all priority
   queues, in list order), the ids at the exit node (in list order), and the
   cached population counters. *)
From Coq Require Import ZArith List Bool Lia Permutation.
From CiwV Require Import Sx Prelude Trace.
Import ListNotations.
Open Scope Z_scope.

Record frame := mkFrame {
  created : Z;                 (* ArrivalNode.number_of_individuals            *)
  queues : list (list Z);      (* ids in node 1..n (flattened priority queues) *)
  exitl : list Z;              (* ids in ExitNode.all_individuals, list order  *)
  counters : list Z;           (* Node.number_of_individuals per node          *)
  exit_counter : Z             (* ExitNode.number_of_individuals               *)
}.

Definition decode_frame (s : sx) : option frame :=
  match s with
  | L [A cr; qs; ex; cs; A ec] =>
    do qs' <- getZss qs; do ex' <- getZs ex; do cs' <- getZs cs;
    Some (mkFrame cr qs' ex' cs' ec)
  | _ => None
  end.

Definition all_ids (f : frame) : list Z := concat (queues f) ++ exitl f.

(* ---- the property, stated on the whole trace ---- *)
Definition located_once (f : frame) : Prop :=
  Permutation (all_ids f) (zseq 1 (Z.to_nat (created f))).
Definition counts_ok (f : frame) : Prop :=
  Forall2 (fun q c => zlen q = c) (queues f) (counters f) /\ zlen (exitl f) = exit_counter f.
Definition balance (f : frame) : Prop :=
  created f = zsum (counters f) + exit_counter f.

Definition P_C01 (tr : list frame) : Prop :=
  (* at every instant between events: ids are exactly 1..N, each in exactly one
     place; reported populations are the true ones; arrivals = in nodes + exit *)
  (forall f, In f tr -> 0 <= created f /\ located_once f /\ counts_ok f /\ balance f) /\
  (* a customer that has reached the exit never reappears *)
  (forall i j a b x, (i <= j)%nat -> nth_error tr i = Some a -> nth_error tr j = Some b ->
     In x (exitl a) -> In x (exitl b) /\ forall q, In q (queues b) -> ~ In x q) /\
  (* customers are never un-created *)
  (forall i j a b, (i <= j)%nat -> nth_error tr i = Some a -> nth_error tr j = Some b ->
     created a <= created b).

(* ---- the executable acceptor: local checks only ---- *)
Definition state_ok (f : frame) : bool :=
  (0 <=? created f)
  && list_eqb (isort (all_ids f)) (zseq 1 (Z.to_nat (created f)))
  && forallb2 (fun q c => zlen q =? c) (queues f) (counters f)
  && (zlen (exitl f) =? exit_counter f).

Definition state_clause (f : frame) : option Z :=
  first_fail [ (1, 0 <=? created f);
               (2, list_eqb (isort (all_ids f)) (zseq 1 (Z.to_nat (created f))));
               (3, forallb2 (fun q c => zlen q =? c) (queues f) (counters f));
               (4, zlen (exitl f) =? exit_counter f) ].

Definition chk (k : Z) (p f : frame) : option (Z * list Z) :=
  match state_clause f with
  | Some c => Some (c, [created f])
  | None =>
    if negb (is_prefix (exitl p) (exitl f)) then Some (5, [created f])
    else if negb (created p <=? created f) then Some (6, [created p; created f])
    else None
  end.

Definition acc (tr : list frame) : verdict :=
  match tr with
  | [] => BadInput 1
  | f0 :: r =>
    match state_clause f0 with
    | Some c => Reject 0 c [created f0]
    | None =>
      match scan chk 1 f0 r with
      | Some (k, c, info) => Reject k c info
      | None => Accept [zlen tr; created (last tr f0)]
      end
    end
  end.

Definition run (s : sx) : verdict :=
  match (do l <- getL s; omap decode_frame l) with
  | Some tr => acc tr
  | None => BadInput 0
  end.

(* ---- T1: soundness of the acceptor ---- *)
Lemma state_clause_ok f : state_clause f = None ->
  0 <= created f /\ located_once f /\ counts_ok f /\ balance f.
Proof.
  intros H. unfold state_clause in H.
  pose proof (first_fail_none _ H) as Hall.
  assert (H1 : (0 <=? created f) = true) by (apply (Hall 1); cbn; auto).
  assert (H2 : list_eqb (isort (all_ids f)) (zseq 1 (Z.to_nat (created f))) = true)
    by (apply (Hall 2); cbn; auto).
  assert (H3 : forallb2 (fun q c => zlen q =? c) (queues f) (counters f) = true)
    by (apply (Hall 3); cbn; auto).
  assert (H4 : (zlen (exitl f) =? exit_counter f) = true) by (apply (Hall 4); cbn; auto 6).
  apply Z.leb_le in H1. apply list_eqb_eq in H2. apply Z.eqb_eq in H4.
  apply forallb2_Forall2 in H3.
  assert (Hloc : located_once f).
  { unfold located_once. rewrite <- H2. symmetry. apply isort_perm. }
  assert (Hcnt : Forall2 (fun q c => zlen q = c) (queues f) (counters f)).
  { clear -H3. induction H3 as [|a b l l' E _ IH]; constructor; auto. apply Z.eqb_eq. exact E. }
  repeat split; auto.
  (* balance: length of a permutation of 1..N *)
  unfold balance.
  assert (Hlen : zlen (all_ids f) = created f).
  { unfold zlen. rewrite (Permutation_length Hloc), zseq_length. lia. }
  unfold all_ids in Hlen. unfold zlen in Hlen. rewrite app_length, Nat2Z.inj_add in Hlen.
  fold (zlen (concat (queues f))) in Hlen. rewrite length_concat_zsum in Hlen.
  assert (Hs : zsum (map (fun l => zlen l) (queues f)) = zsum (counters f)).
  { clear -Hcnt. unfold zsum in *. induction Hcnt as [|q c qs cs E _ IH]; cbn; [reflexivity|]. rewrite E, IH. reflexivity. }
  unfold zlen in H4. lia.
Qed.

Definition Rel (a b : frame) : Prop :=
  (exists t, exitl b = exitl a ++ t) /\ created a <= created b.

Lemma chk_rel k p f : chk k p f = None -> Rel p f.
Proof.
  unfold chk. destruct (state_clause f); [discriminate|].
  destruct (is_prefix (exitl p) (exitl f)) eqn:E1; cbn; [|discriminate].
  destruct (created p <=? created f) eqn:E2; cbn; [|discriminate].
  intros _. split; [apply is_prefix_spec; exact E1|apply Z.leb_le; exact E2].
Qed.

Lemma chk_state k p f : chk k p f = None -> state_clause f = None.
Proof. unfold chk. destruct (state_clause f); [discriminate|reflexivity]. Qed.

Lemma Rel_refl x : Rel x x.
Proof. split; [exists []; rewrite app_nil_r; reflexivity|lia]. Qed.
Lemma Rel_trans x y z : Rel x y -> Rel y z -> Rel x z.
Proof.
  intros [[t1 E1] L1] [[t2 E2] L2]. split; [|lia].
  exists (t1 ++ t2). rewrite E2, E1, app_assoc. reflexivity.
Qed.

Theorem C01_sound : forall tr st, acc tr = Accept st -> P_C01 tr.
Proof.
  intros [|f0 r] st H; [discriminate|].
  cbn [acc] in H.
  destruct (state_clause f0) eqn:E0; [discriminate|].
  destruct (scan chk 1 f0 r) as [[[k c] info]|] eqn:Es; [discriminate|].
  apply scan_none_chain in Es.
  assert (Hall : Forall (fun f => state_clause f = None) r).
  { eapply chain_invariant with (I := fun f => state_clause f = None); [|exact Es|exact E0].
    intros k p f Hc _. eapply chk_state; eauto. }
  assert (Hrel : forall i j, (i <= j)%nat -> forall a b,
             nth_error (f0 :: r) i = Some a -> nth_error (f0 :: r) j = Some b -> Rel a b).
  { eapply chain_rel with (chk := chk); eauto using Rel_refl, Rel_trans, chk_rel. }
  assert (Hst : forall f, In f (f0 :: r) -> state_clause f = None).
  { intros f [<-|Hin]; [exact E0|]. rewrite Forall_forall in Hall. auto. }
  split; [|split].
  - intros f Hin. apply state_clause_ok. auto.
  - intros i j a b x Hij Ha Hb Hx.
    destruct (Hrel i j Hij a b Ha Hb) as [[t Et] _].
    assert (Hxb : In x (exitl b)) by (rewrite Et; apply in_or_app; auto).
    split; [exact Hxb|].
    intros q Hq Hxq.
    assert (Hb' : In b (f0 :: r)) by (eapply nth_error_In; eauto).
    destruct (state_clause_ok b (Hst b Hb')) as (_ & Hloc & _).
    assert (Hnd : NoDup (all_ids b)).
    { eapply Permutation_NoDup; [symmetry; exact Hloc|apply zseq_NoDup]. }
    unfold all_ids in Hnd.
    (* x occurs both in concat queues and in exit: contradiction with NoDup *)
    assert (Hxc : In x (concat (queues b))) by (apply in_concat; eauto).
    apply in_split in Hxc as (l1 & l2 & El). rewrite El in Hnd.
    rewrite <- app_assoc in Hnd. cbn in Hnd.
    apply NoDup_remove_2 in Hnd. apply Hnd.
    apply in_or_app. right. apply in_or_app. right. exact Hxb.
  - intros i j a b Hij Ha Hb. destruct (Hrel i j Hij a b Ha Hb). assumption.
Qed.

(* non-vacuity: a small trace with a transfer to the exit is accepted, and one
   in which a customer vanishes is rejected *)
Example acc_example :
  is_accept (acc [ mkFrame 0 [[];[]] [] [0;0] 0;
                   mkFrame 2 [[1;2];[]] [] [2;0] 0;
                   mkFrame 2 [[2];[1]] [] [1;1] 0;
                   mkFrame 3 [[2;3];[]] [1] [2;0] 1 ]) = true.
Proof. vm_compute. reflexivity. Qed.
Example rej_example :
  acc [ mkFrame 2 [[1;2];[]] [] [2;0] 0; mkFrame 2 [[2];[]] [] [1;0] 0 ] = Reject 1 2 [2].
Proof. vm_compute. reflexivity. Qed.

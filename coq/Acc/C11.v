(* C11 -- pre-emptive priorities (and the same resume / restart / resample bookkeeping after a
   pre-emptive shift change).  Event list in execution order:
     Begin i node now stime    a service of customer i begins; stime = the service time the engine assigned
                               (service_end_date - service_start_date as written by the engine)
     Pre node v by now vprio bprio vstart vend opt ctx
                               customer v is pre-empted by customer [by] (by = 0: interruption by a shift change);
                               ctx = (customer, priority, service start) of every server's customer at that moment;
                               opt = the node's option: 1 resume, 2 restart, 3 resample, 4 reroute
     IntRec i node exit now    an interrupted-service record of i
     SvcRec i node st stime en a service record of i
     Leave i                   i leaves its node
     NoInv node waiting insvc  after a frame: priorities of the waiting and of the in-service customers of a pre-emptive node *)
From Coq Require Import ZArith List Bool Lia.
From CiwV Require Import Sx Prelude Replay.
Import ListNotations.
Open Scope Z_scope.

Inductive ev :=
| Begin (i node now stime : Z)
| Pre (node v byc now vprio bprio vstart vend opt : Z) (ctx : list (Z * Z * Z))
| IntRec (i node ex now : Z)
| SvcRec (i node st stime en : Z)
| Leave (i : Z)
| NoInv (node : Z) (waiting insvc : list Z).

Definition decode_c (s : sx) : option (Z * Z * Z) := match s with L [A a; A b; A c] => Some (a, b, c) | _ => None end.
Definition decode_ev (s : sx) : option ev :=
  match s with
  | L [A 1; A i; A n; A t; A x] => Some (Begin i n t x)
  | L [A 2; A n; A v; A b; A t; A vp; A bp; A vs; A ve; A o; c] => do cl <- getL c; do c' <- omap decode_c cl; Some (Pre n v b t vp bp vs ve o c')
  | L [A 3; A i; A n; A x; A t] => Some (IntRec i n x t)
  | L [A 4; A i; A n; A a; A b; A c] => Some (SvcRec i n a b c)
  | L [A 5; A i] => Some (Leave i)
  | L [A 6; A n; w; s0] => do w' <- getZs w; do s' <- getZs s0; Some (NoInv n w' s')
  | _ => None
  end.

Record ps := mkP { p_orig : Z; p_served : Z; p_start : Z; p_stime : Z; p_insvc : bool;
                   p_pend : option (Z * Z); p_needrec : bool; p_resonly : bool }.
Definition ps0 := mkP 0 0 0 0 false None false true.
Definition st := list (Z * ps).
Definition gp := aget ps0.

Definition step (m : st) (e : ev) : st + Z :=
  match e with
  | Begin i n t x =>
    let r := gp m i in
    if p_insvc r then inr 169                                      (* a second start without the first service ending *)
    else if p_needrec r then inr 163                               (* restarted although no interrupted record was written *)
    else if x <? 0 then inr 169
    else match p_pend r with
         | None => inl (aset m i (mkP x 0 t x true None false true))
         | Some (o, rem) =>
           if o =? 1 then (if x =? rem then inl (aset m i (mkP (p_orig r) (p_served r) t x true None false (p_resonly r))) else inr 161)   (* resume: the remaining time *)
           else if o =? 2 then (if x =? p_orig r then inl (aset m i (mkP (p_orig r) (p_served r) t x true None false false)) else inr 162) (* restart: the same time again *)
           else inl (aset m i (mkP x 0 t x true None false true))                                                                         (* resample: a fresh requirement *)
         end
  | Pre n v b t vp bp vs ve o ctx =>
    let r := gp m v in
    if negb (p_insvc r && (p_start r =? vs) && (ve =? vs + p_stime r) && (vs <=? t)) then inr 164   (* the victim's dates are not those of its service in progress *)
    else if negb (existsb (fun c => (fst (fst c) =? v) && (snd (fst c) =? vp) && (snd c =? vs)) ctx) then inr 165   (* the victim is not in service *)
    else if negb (forallb (fun c => (snd (fst c) <? vp) || ((snd (fst c) =? vp) && (snd c <=? vs))) ctx) then inr 166  (* not a lowest-priority, most recently started customer *)
    else if negb (b =? 0) && negb (bp <? vp) then inr 167           (* pre-empted by a customer that is not of strictly higher priority *)
    else if negb ((1 <=? o) && (o <=? 4)) then inr 164
    else inl (aset m v (mkP (p_orig r) (p_served r + (t - vs)) (p_start r) (p_stime r) false (Some (o, ve - t)) true (p_resonly r)))
  | IntRec i n x t =>
    let r := gp m i in
    if p_needrec r && (x =? t) then inl (aset m i (mkP (p_orig r) (p_served r) (p_start r) (p_stime r) (p_insvc r) (p_pend r) false (p_resonly r)))
    else inr 168                                                    (* interrupted record not dated at the interruption (or without one) *)
  | SvcRec i n a b c =>
    let r := gp m i in
    if p_insvc r && (a =? p_start r) && (b =? p_stime r) && (c =? a + b) then inl m else inr 169   (* the record does not show the service in progress *)
  | Leave i =>
    let r := gp m i in
    if p_needrec r then inr 163 else inl (aset m i ps0)
  | NoInv n w s =>
    if forallb (fun pw => forallb (fun pq => pq <=? pw) s) w then inl m else inr 171   (* a customer waits while one of strictly lower priority is served *)
  end.

Definition acc (es : list ev) : verdict :=
  match replay step [] 0 es with
  | Some (i, c) => Reject i c []
  | None => Accept [zlen es]
  end.
Definition run (s : sx) : verdict :=
  match (do l <- getL s; omap decode_ev l) with Some es => acc es | None => BadInput 0 end.

(* ---------------- the property ---------------- *)
(* the bookkeeping of customer i's current visit, read off the prefix:
   p_orig   = the service time assigned at the first start of the visit (or at the last resample)
   p_served = the time spent in service during the stints that were interrupted so far
   p_pend   = after an interruption: the node's option and the remaining time (end date - interruption time) *)
Fixpoint ps_of (i : Z) (es : list ev) (r : ps) : ps :=
  match es with
  | [] => r
  | e :: t =>
    ps_of i t (match e with
               | Begin j n now x =>
                 if j =? i then
                   match p_pend r with
                   | None => mkP x 0 now x true None false true
                   | Some (o, rem) => if o =? 1 then mkP (p_orig r) (p_served r) now x true None false (p_resonly r)
                                      else if o =? 2 then mkP (p_orig r) (p_served r) now x true None false false
                                      else mkP x 0 now x true None false true
                   end
                 else r
               | Pre n v b now vp bp vs ve o ctx =>
                 if v =? i then mkP (p_orig r) (p_served r + (now - vs)) (p_start r) (p_stime r) false (Some (o, ve - now)) true (p_resonly r) else r
               | IntRec j n x now => if j =? i then mkP (p_orig r) (p_served r) (p_start r) (p_stime r) (p_insvc r) (p_pend r) false (p_resonly r) else r
               | Leave j => if j =? i then ps0 else r
               | _ => r
               end)
  end.

Definition P_C11 (es : list ev) : Prop :=
  (* (b) the victim is in service, of the lowest priority in service and the most recently started among those; the
         pre-empting customer has strictly higher priority *)
  (forall pre n v b t vp bp vs ve o ctx post, es = pre ++ Pre n v b t vp bp vs ve o ctx :: post ->
     In (v, vp, vs) ctx /\ (forall c p s, In (c, p, s) ctx -> p < vp \/ (p = vp /\ s <= vs)) /\ (b <> 0 -> bp < vp) /\
     let r := ps_of v pre ps0 in p_insvc r = true /\ p_start r = vs /\ ve = vs + p_stime r /\ vs <= t) /\
  (* (c) every interruption is recorded before the victim is served again or leaves *)
  (forall pre i n t x post, es = pre ++ Begin i n t x :: post -> p_needrec (ps_of i pre ps0) = false) /\
  (forall pre i post, es = pre ++ Leave i :: post -> p_needrec (ps_of i pre ps0) = false) /\
  (forall pre i n x t post, es = pre ++ IntRec i n x t :: post -> x = t) /\
  (* (d) when served again: resume -> the remaining time, restart -> the same time again *)
  (forall pre i n t x post, es = pre ++ Begin i n t x :: post ->
     forall o rem, p_pend (ps_of i pre ps0) = Some (o, rem) -> (o = 1 -> x = rem) /\ (o = 2 -> x = p_orig (ps_of i pre ps0))) /\
  (* (d) resume, telescoped: under resume the time spent in service over all stints of the visit equals the original requirement *)
  (forall pre i n a b c post, es = pre ++ SvcRec i n a b c :: post ->
     let r := ps_of i pre ps0 in c = a + b /\ (p_resonly r = true -> p_served r + (c - a) = p_orig r)) /\
  (* (a) no priority inversion after any event *)
  (forall pre n w s post, es = pre ++ NoInv n w s :: post -> forall pw pq, In pw w -> In pq s -> pq <= pw).

(* ---------------- T1 ---------------- *)
Local Arguments Z.add : simpl never.
Local Arguments Z.sub : simpl never.

Lemma ps_of_app i a b r : ps_of i (a ++ b) r = ps_of i b (ps_of i a r).
Proof. revert r; induction a as [|e a IH]; intros r; cbn; [reflexivity|apply IH]. Qed.
Lemma gp_aset m k v k' : gp (aset m k v) k' = if k =? k' then v else gp m k'.
Proof. reflexivity. Qed.

(* state = spec function, plus the telescoping invariant *)
Definition tele (r : ps) : Prop :=
  p_resonly r = true ->
  (p_insvc r = true -> p_served r + p_stime r = p_orig r) /\
  (forall o rem, p_pend r = Some (o, rem) -> o = 1 -> p_served r + rem = p_orig r).
Definition Inv (pre : list ev) (m : st) : Prop := forall i, gp m i = ps_of i pre ps0 /\ tele (gp m i).

Lemma tele0 : tele ps0.
Proof. intros _. split; [discriminate|]. intros o rem H; discriminate. Qed.

Lemma step_inv pre m e m' : Inv pre m -> step m e = inl m' -> Inv (pre ++ [e]) m'.
Proof.
  intros HI Hs j. rewrite ps_of_app. cbn [ps_of]. destruct (HI j) as [Hj Tj]. rewrite <- Hj.
  destruct e as [i n t x|n v b t vp bp vs ve o ctx|i n x t|i n a b c|i|n w s]; cbn [step] in Hs.
  - (* Begin *)
    destruct (HI i) as [Hi Ti].
    destruct (p_insvc (gp m i)) eqn:E1; [discriminate|]. destruct (p_needrec (gp m i)) eqn:E2; [discriminate|].
    destruct (x <? 0) eqn:E3; [discriminate|].
    destruct (p_pend (gp m i)) as [[o rem]|] eqn:Ep.
    + destruct (o =? 1) eqn:Eo1.
      * destruct (x =? rem) eqn:Ex; [|discriminate]. apply Z.eqb_eq in Ex, Eo1. subst x o. injection Hs as <-.
        rewrite gp_aset. destruct (i =? j) eqn:E; [apply Z.eqb_eq in E; subst j|split; [reflexivity|exact Tj]].
        rewrite Ep. cbn. split; [reflexivity|]. intros Hr. cbn in *. split; [|intros ? ? H; discriminate].
        intros _. destruct (Ti Hr) as [_ T2]. apply (T2 1 rem); auto.
      * destruct (o =? 2) eqn:Eo2.
        -- destruct (x =? p_orig (gp m i)) eqn:Ex; [|discriminate]. injection Hs as <-.
           rewrite gp_aset. destruct (i =? j) eqn:E; [apply Z.eqb_eq in E; subst j|split; [reflexivity|exact Tj]].
           rewrite Ep, Eo1, Eo2. split; [reflexivity|]. intros Hr. discriminate.
        -- injection Hs as <-. rewrite gp_aset. destruct (i =? j) eqn:E; [apply Z.eqb_eq in E; subst j|split; [reflexivity|exact Tj]].
           rewrite Ep, Eo1, Eo2. split; [reflexivity|]. intros _. cbn. split; [intros _; lia|intros ? ? H; discriminate].
    + injection Hs as <-. rewrite gp_aset. destruct (i =? j) eqn:E; [apply Z.eqb_eq in E; subst j|split; [reflexivity|exact Tj]].
      rewrite Ep. split; [reflexivity|]. intros _. cbn. split; [intros _; lia|intros ? ? H; discriminate].
  - (* Pre *)
    destruct (HI v) as [Hv Tv].
    destruct (p_insvc (gp m v) && (p_start (gp m v) =? vs) && (ve =? vs + p_stime (gp m v)) && (vs <=? t)) eqn:E1; cbn [negb] in Hs; [|discriminate].
    repeat match type of Hs with (if ?b then _ else _) = _ => destruct b; [discriminate|] end.
    injection Hs as <-. rewrite gp_aset. destruct (v =? j) eqn:E; [apply Z.eqb_eq in E; subst j|split; [reflexivity|exact Tj]].
    split; [reflexivity|]. intros Hr. cbn in *.
    apply andb_true_iff in E1 as [E1 E4]. apply andb_true_iff in E1 as [E1 E3]. apply andb_true_iff in E1 as [E1 E2].
    apply Z.eqb_eq in E2, E3. destruct (Tv Hr) as [T1 _]. specialize (T1 E1).
    split; [discriminate|]. intros o' rem' H Ho. injection H as <- <-. lia.
  - (* IntRec *)
    destruct (HI i) as [Hi Ti].
    destruct (p_needrec (gp m i) && (x =? t)); [|discriminate]. injection Hs as <-.
    rewrite gp_aset. destruct (i =? j) eqn:E; [apply Z.eqb_eq in E; subst j|split; [reflexivity|exact Tj]].
    split; [reflexivity|]. intros Hr. cbn in *. apply (Ti Hr).
  - (* SvcRec *)
    destruct (_ && _ && _ && _); [|discriminate]. injection Hs as <-. split; [reflexivity|exact Tj].
  - (* Leave *)
    destruct (p_needrec (gp m i)); [discriminate|]. injection Hs as <-.
    rewrite gp_aset. destruct (i =? j) eqn:E; [split; [reflexivity|apply tele0]|split; [reflexivity|exact Tj]].
  - destruct (forallb _ w); [|discriminate]. injection Hs as <-. split; [reflexivity|exact Tj].
Qed.

Theorem C11_sound : forall es stt, acc es = Accept stt -> P_C11 es.
Proof.
  intros es stt H. unfold acc in H.
  destruct (replay step [] 0 es) as [[i0 c0]|] eqn:Er; [discriminate|].
  assert (I0 : Inv [] []) by (intros i; split; [reflexivity|apply tele0]).
  pose proof (replay_sound step Inv [] I0 step_inv es 0 Er) as RS.
  unfold P_C11. split; [|split; [|split; [|split; [|split; [|split]]]]].
  - intros pre n v b t vp bp vs ve o ctx post E0. destruct (RS _ _ _ E0) as (mp & m' & HI & Hs). cbn [step] in Hs.
    destruct (HI v) as [Hv _]. rewrite Hv in Hs. set (r := ps_of v pre ps0) in *.
    destruct (p_insvc r && (p_start r =? vs) && (ve =? vs + p_stime r) && (vs <=? t)) eqn:E1; cbn [negb] in Hs; [|discriminate].
    destruct (existsb _ ctx) eqn:E2; cbn [negb] in Hs; [|discriminate].
    destruct (forallb _ ctx) eqn:E3; cbn [negb] in Hs; [|discriminate].
    destruct (negb (b =? 0) && negb (bp <? vp)) eqn:E4; [discriminate|].
    apply andb_true_iff in E1 as [E1 E1d]. apply andb_true_iff in E1 as [E1 E1c]. apply andb_true_iff in E1 as [E1a E1b].
    apply Z.eqb_eq in E1b, E1c. apply Z.leb_le in E1d.
    split.
    { apply existsb_exists in E2. destruct E2 as [[[c p] s] [Hin Hc]]. cbn in Hc.
      apply andb_true_iff in Hc as [Hc H3]. apply andb_true_iff in Hc as [H1 H2]. apply Z.eqb_eq in H1, H2, H3. subst. exact Hin. }
    split.
    { intros c p s Hin. rewrite forallb_forall in E3. specialize (E3 _ Hin). cbn in E3.
      apply orb_true_iff in E3. destruct E3 as [E3|E3]; [left; apply Z.ltb_lt; exact E3|right].
      apply andb_true_iff in E3 as [A B]. apply Z.eqb_eq in A. apply Z.leb_le in B. auto. }
    split.
    { intros Hb. apply andb_false_iff in E4. destruct E4 as [E4|E4].
      - apply negb_false_iff in E4. apply Z.eqb_eq in E4. congruence.
      - apply negb_false_iff in E4. apply Z.ltb_lt. exact E4. }
    auto.
  - intros pre i n t x post E0. destruct (RS _ _ _ E0) as (mp & m' & HI & Hs). cbn [step] in Hs.
    destruct (HI i) as [Hi _]. rewrite Hi in Hs.
    destruct (p_insvc (ps_of i pre ps0)); [discriminate|]. destruct (p_needrec (ps_of i pre ps0)); [discriminate|reflexivity].
  - intros pre i post E0. destruct (RS _ _ _ E0) as (mp & m' & HI & Hs). cbn [step] in Hs.
    destruct (HI i) as [Hi _]. rewrite Hi in Hs. destruct (p_needrec (ps_of i pre ps0)); [discriminate|reflexivity].
  - intros pre i n x t post E0. destruct (RS _ _ _ E0) as (mp & m' & HI & Hs). cbn [step] in Hs.
    destruct (p_needrec (gp mp i) && (x =? t)) eqn:E; [|discriminate]. apply andb_true_iff in E as [_ E]. apply Z.eqb_eq in E. exact E.
  - intros pre i n t x post E0 o rem Hp. destruct (RS _ _ _ E0) as (mp & m' & HI & Hs). cbn [step] in Hs.
    destruct (HI i) as [Hi _]. rewrite Hi in Hs. set (r := ps_of i pre ps0) in *.
    destruct (p_insvc r); [discriminate|]. destruct (p_needrec r); [discriminate|]. destruct (x <? 0); [discriminate|].
    rewrite Hp in Hs. split.
    + intros ->. cbn in Hs. destruct (x =? rem) eqn:E; [apply Z.eqb_eq; exact E|discriminate].
    + intros ->. cbn in Hs. destruct (x =? p_orig r) eqn:E; [apply Z.eqb_eq; exact E|discriminate].
  - intros pre i n a b c post E0. destruct (RS _ _ _ E0) as (mp & m' & HI & Hs). cbn [step] in Hs.
    destruct (HI i) as [Hi Ti]. rewrite Hi in Hs, Ti. set (r := ps_of i pre ps0) in *.
    destruct (p_insvc r && (a =? p_start r) && (b =? p_stime r) && (c =? a + b)) eqn:E; [|discriminate].
    apply andb_true_iff in E as [E E4]. apply andb_true_iff in E as [E E3]. apply andb_true_iff in E as [E1 E2].
    apply Z.eqb_eq in E2, E3, E4. split; [exact E4|]. intros Hr. destruct (Ti Hr) as [T1 _]. specialize (T1 E1). lia.
  - intros pre n w s post E0 pw pq Hw Hq. destruct (RS _ _ _ E0) as (mp & m' & HI & Hs). cbn [step] in Hs.
    destruct (forallb _ w) eqn:E; [|discriminate]. rewrite forallb_forall in E. specialize (E _ Hw).
    rewrite forallb_forall in E. specialize (E _ Hq). apply Z.leb_le. exact E.
Qed.

(* non-vacuity: a customer interrupted twice under resume is served for exactly its requirement in total; a wrong victim,
   a resumed service that is too long, and a priority inversion are rejected *)
Example acc_example :
  is_accept (acc [Begin 1 1 0 10; NoInv 1 [] [1]; Pre 1 1 2 4 1 0 0 10 1 [(1, 1, 0)]; IntRec 1 1 4 4; Begin 2 1 4 3; NoInv 1 [1] [0];
                  SvcRec 2 1 4 3 7; Leave 2; Begin 1 1 7 6; Pre 1 1 3 9 1 0 7 13 1 [(1, 1, 7)]; IntRec 1 1 9 9; Begin 3 1 9 1;
                  SvcRec 3 1 9 1 10; Leave 3; Begin 1 1 10 4; SvcRec 1 1 10 4 14; Leave 1]) = true.
Proof. vm_compute. reflexivity. Qed.
Example rej_wrong_victim : acc [Begin 1 1 0 10; Begin 2 1 2 10; Pre 1 1 3 4 1 0 0 10 1 [(1, 1, 0); (2, 1, 2)]] = Reject 2 166 [].
Proof. vm_compute. reflexivity. Qed.
Example rej_resume_too_long : acc [Begin 1 1 0 10; Pre 1 1 2 4 1 0 0 10 1 [(1, 1, 0)]; IntRec 1 1 4 4; Begin 1 1 7 10] = Reject 3 161 [].
Proof. vm_compute. reflexivity. Qed.
Example rej_inversion : acc [NoInv 1 [0] [1]] = Reject 0 171 [].
Proof. vm_compute. reflexivity. Qed.

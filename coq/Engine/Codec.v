(* Codec.v -- integer-tree encoding of configuration, state, draws and records, and the entry point the OCaml driver
   calls for the stepwise correspondence check: one event of the model from the implementation's own previous snapshot. *)
From Coq Require Import ZArith List Bool Lia.
From RecordUpdate Require Import RecordUpdate.
From CiwV Require Import Sx Prelude.
From CiwV.Engine Require Import State Engine.
Import ListNotations.
Open Scope Z_scope.

Definition eo (o : option Z) : sx := match o with Some z => A z | None => L [] end.
Definition eb (b : bool) : sx := A (if b then 1 else 0).
Definition ezs (l : list Z) : sx := L (map A l).
Definition do_ (s : sx) : option (option Z) := match s with A z => Some (Some z) | L [] => Some None | _ => None end.
Definition db (s : sx) : option bool := match s with A 0 => Some false | A 1 => Some true | _ => None end.
Definition dos (s : sx) : option (list (option Z)) := do l <- getL s; omap do_ l.

Definition enc_ind (x : ind) : sx :=
  L [A (i_id x); A (i_cls x); A (i_pcls x); A (i_ocls x); A (i_prio x); A (i_pprio x); eo (i_node x); eo (i_arr x); eo (i_sst x);
     eo (i_stime x); eo (i_send x); eo (i_exit x); eb (i_blocked x); eo (i_server x); eo (i_dest x); eo (i_qa x); eo (i_qd x); A (i_nrec x)].
Definition dec_ind (s : sx) : option ind :=
  match s with
  | L [A a; A b; A c; A d; A e; A f; g; h; i; j; k; l; m; n; o; p; q; A r] =>
    do g' <- do_ g; do h' <- do_ h; do i' <- do_ i; do j' <- do_ j; do k' <- do_ k; do l' <- do_ l; do m' <- db m;
    do n' <- do_ n; do o' <- do_ o; do p' <- do_ p; do q' <- do_ q;
    Some (mkInd a b c d e f g' h' i' j' k' l' m' n' o' p' q' r)
  | _ => None
  end.
Definition enc_server (x : server) : sx :=
  L [A (sv_id x); eo (sv_cust x); eb (sv_busy x); eo (sv_next_end x); A (sv_busy_time x); eo (sv_total_time x); A (sv_wrapped x)].
Definition dec_server (s : sx) : option server :=
  match s with
  | L [A a; b; c; d; A e; f; A w] => do b' <- do_ b; do c' <- db c; do d' <- do_ d; do f' <- do_ f; Some (mkServer a b' c' d' e f' w)
  | _ => None
  end.
Definition enc_pair (p : Z * Z) : sx := L [A (fst p); A (snd p)].
Definition dec_pair (s : sx) : option (Z * Z) := match s with L [A a; A b] => Some (a, b) | _ => None end.
Definition enc_node (x : node) : sx :=
  L [A (n_id x); A (n_pop x); A (n_insvc x); L (map ezs (n_queues x)); L (map enc_server (n_servers x)); L (map enc_pair (n_bq x));
     A (n_lenbq x); eo (n_next_date x); ezs (n_next_inds x)].
Definition dec_node (s : sx) : option node :=
  match s with
  | L [A a; A b; A c; q; sv; bq; A l; nd; ni] =>
    do q' <- getZss q; do svl <- getL sv; do sv' <- omap dec_server svl; do bql <- getL bq; do bq' <- omap dec_pair bql;
    do nd' <- do_ nd; do ni' <- getZs ni; Some (mkNode a b c q' sv' bq' l nd' ni')
  | _ => None
  end.
Definition enc_arr (a : arrst) : sx :=
  L [A (a_created a); A (a_accepted a); L (map (fun r => L (map eo r)) (a_dates a)); A (a_next_node a); A (a_next_cls a); eo (a_next_date a)].
Definition dec_arr (s : sx) : option arrst :=
  match s with
  | L [A a; A b; d; A n; A c; nd] => do dl <- getL d; do d' <- omap dos dl; do nd' <- do_ nd; Some (mkArr a b d' n c nd')
  | _ => None
  end.

Fixpoint ins_ind (x : ind) (l : list ind) : list ind :=
  match l with [] => [x] | y :: r => if i_id x <=? i_id y then x :: l else y :: ins_ind x r end.
Definition sort_inds (l : list ind) : list ind := fold_right ins_ind [] l.

Definition enc_sim (s : sim) : sx :=
  L [A (now s); A (next_active s); enc_arr (arr s); L (map enc_node (nodes s)); ezs (exit_ids s); A (exit_n s); A (exit_completed s);
     L (map enc_ind (sort_inds (inds s)))].
Definition dec_draws (s : sx) : option draws :=
  match s with L [a; b; c; d] => do a' <- getZs a; do b' <- getZs b; do c' <- getZs c; do d' <- getZs d; Some (mkDraws a' b' c' d') | _ => None end.
Definition dec_sim (s d : sx) : option sim :=
  match s with
  | L [A t; A na; a; n; e; A en; A ec; i] =>
    do a' <- dec_arr a; do nl <- getL n; do n' <- omap dec_node nl; do e' <- getZs e; do il <- getL i; do i' <- omap dec_ind il;
    do d' <- dec_draws d; Some (mkSim t na a' n' e' en ec i' d' [])
  | _ => None
  end.

Definition enc_rec (r : rec) : sx :=
  L [A (r_id r); A (r_cls r); A (r_ocls r); A (r_node r); A (r_type r); eo (r_arr r); eo (r_wait r); eo (r_sst r); eo (r_stime r); eo (r_send r);
     eo (r_blocked r); eo (r_exit r); eo (r_dest r); eo (r_qa r); eo (r_qd r); eo (r_server r)].

Definition dec_oll (s : sx) : option (option (list (list Z))) :=
  match s with L [] => Some None | L [m] => do m' <- getZss m; Some (Some m') | _ => None end.
Definition dec_ncfg (s : sx) : option ncfg :=
  match s with L [c; cap; ccm; A d] => do c' <- do_ c; do cap' <- do_ cap; do m <- dec_oll ccm; Some (mkNcfg c' cap' m d) | _ => None end.
Definition dec_otab (s : sx) : option (option (list Z)) :=
  match s with L [] => Some None | L [t] => do t' <- getZs t; Some (Some t') | _ => None end.
Definition dec_cfg (s : sx) : option config :=
  match s with
  | L [A k; n; p; A np; sc; tm; bk] =>
    do nl <- getL n; do n' <- omap dec_ncfg nl; do p' <- getZs p; do sc' <- do_ sc;
    do tml <- getL tm; do tm' <- omap getZss tml;
    do bkl <- getL bk; do bk' <- omap (fun r => do rl <- getL r; omap dec_otab rl) bkl;
    Some (mkCfg k n' p' np sc' tm' bk')
  | _ => None
  end.

(* L [cfg; state; draws]  ->  L [A 0; state'; records; unused draws]  |  L [A 1; A site]  |  L [A 2]  (out of fuel)  |  L [A 3] (undecodable) *)
Definition run_step (inp : sx) : sx :=
  match inp with
  | L [c; s; d] =>
    match dec_cfg c, dec_sim s d with
    | Some cf, Some st =>
      match event_step cf st with
      | Ok (_, st') => L [A 0; enc_sim st'; L (map enc_rec (log st'));
                          L [ezs (d_arr (dr st')); ezs (d_batch (dr st')); ezs (d_svc (dr st')); ezs (d_unif (dr st'))]]
      | Err e => L [A 1; A e]
      | OutOfFuel => L [A 2]
      end
    | _, _ => L [A 3]
    end
  | _ => L [A 3]
  end.

(* L [cfg; state; A T] -> L [A 0; state after Simulation.wrap_up_servers(T)] *)
Definition run_wrap (inp : sx) : sx :=
  match inp with
  | L [c; s; A t] =>
    match dec_cfg c, dec_sim s (L [L []; L []; L []; L []]) with
    | Some cf, Some st =>
      match wrap_up_servers t st with
      | Ok (_, st') => L [A 0; enc_sim st']
      | Err e => L [A 1; A e]
      | OutOfFuel => L [A 2]
      end
    | _, _ => L [A 3]
    end
  | _ => L [A 3]
  end.

(* several events in a row from one state, each with its own draws: L [cfg; state; L [draws ...]] -> final state (or error) *)
Fixpoint run_many (cf : config) (st : sim) (ds : list draws) : res sim :=
  match ds with
  | [] => Ok st
  | d :: r => match event_step cf (st <| dr := d |>) with Ok (_, st') => run_many cf st' r | Err e => Err e | OutOfFuel => OutOfFuel end
  end.

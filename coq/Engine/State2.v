(* State2.v -- configuration, state and observation types of the engine model, stage 2.  Stage 1 (State.v) plus:
   every routing object (node routers Direct/Leave/Probabilistic/JoinShortestQueue/LoadBalancing/Cycle, the jockeying
   Direct, ProcessBased and FlexibleProcessBased routes), reneging, priority pre-emption (resume/restart/resample/reroute),
   server schedules (non-pre-emptive and pre-emptive, with overtime and retired servers), slotted services and class change
   while waiting.  The file is independent of State.v (same names, own module).
   Times are integer ticks; option = Python's False / None; None in a date that Python holds as float('inf') where noted;
   xz = an attribute that may not exist yet (XU), be float('inf') (XI) or a number. *)
From Coq Require Import ZArith List Bool Lia.
From RecordUpdate Require Import RecordUpdate.
From CiwV Require Import Sx.
Import ListNotations.
Open Scope Z_scope.

Inductive xz := XU | XI | XV (z : Z).

(* ---------------- configuration ---------------- *)
(* the router object of one node (ciw.routing.NodeRouting subclasses); destinations: 1..n = node, -1 = exit *)
Inductive nrouter :=
| RDirect (to : Z)
| RLeave
| RProb (dests probs : list Z)                        (* probabilities in eighths; the remainder goes to the exit   *)
| RJsq (lb : bool) (dests : list Z) (order : bool)    (* JoinShortestQueue / LoadBalancing; tie_break order/random *)
| RCycle (cyc : list Z)
| RJockey (to jock : Z).                              (* Direct whose reneging customers jockey to node jock        *)
(* the routing object of one customer class *)
Inductive routing :=
| RtNR (rs : list nrouter)                            (* NetworkRouting; a TransitionMatrix is one RProb per node    *)
| RtPB (routes : list (list (list Z)))                (* ProcessBased: route of customer i = routes[i mod len], each step a singleton *)
| RtFPB (routes : list (list (list Z))) (all : bool) (choice : Z).  (* FlexibleProcessBased; choice 0 random 1 jsq 2 lb *)

(* pre-emption options: 0 False, 1 resume, 2 restart, 3 resample, 4 reroute *)
Record schedcfg := mkSched { sc_b : list Z; sc_v : list Z; sc_off : Z; sc_pre : Z }.
Record slotcfg := mkSlot { sl_b : list Z; sl_v : list Z; sl_off : Z; sl_cap : bool; sl_pre : Z }.
Inductive srvcfg := SFixed | SSched (s : schedcfg) | SSlot (s : slotcfg).

Record ncfg := mkNcfg {
  nc_cap : option Z;                  (* node_capacity as computed ONCE by Node.__init__ (c = 0 for schedules); None = infinite *)
  nc_ccm : option (list (list Z));    (* class-change matrix in eighths, None = no matrix         *)
  nc_disc : Z;                        (* 0 FIFO, 1 LIFO, 2 SIRO                                    *)
  nc_srv : srvcfg;
  nc_preempt : Z;                     (* priority_preempt option                                   *)
  nc_reneging : bool;                 (* node.reneging: some class has a reneging distribution here *)
  nc_ren : list bool;                 (* class -> has a reneging distribution at this node         *)
  nc_spf : Z                          (* server_priority_function: 0 None; the harness's three functions (netbuild.SPF): 1 'hi' key = -id,
                                         2 'idle' key = (busy_time, id), 3 'cls' key = ((id + class index) mod 2, id) *)
}.
Record config := mkCfg {
  cf_k : Z;
  cf_nodes : list ncfg;
  cf_prio : list Z;
  cf_nprio : Z;
  cf_syscap : option Z;
  cf_routing : list routing;                  (* class -> routing object                                  *)
  cf_baulk : list (list (option (list Z)));   (* class -> node -> baulking table in quarters              *)
  cf_dyn : bool;                              (* node.class_change_time (the same flag on every node)     *)
  cf_cct : list (list bool)                   (* class -> class -> has a class-change-time distribution   *)
}.

(* ---------------- state ---------------- *)
Record ind := mkInd {
  i_id : Z; i_cls : Z; i_pcls : Z; i_ocls : Z; i_prio : Z; i_pprio : Z;
  i_node : option Z; i_arr : option Z; i_sst : option Z; i_stime : option Z; i_send : option Z; i_exit : option Z;
  i_blocked : bool; i_server : option Z (* -1 = True (slotted) *); i_dest : option Z; i_qa : option Z; i_qd : option Z; i_nrec : Z;
  i_smark : Z;                          (* service_time is the string: 0 no (see i_stime), 1 resume, 2 restart, 3 resample *)
  i_interrupted : bool;
  i_ren : xz;                           (* reneging_date *)
  i_ccd : xz; i_ncls : option Z;        (* class_change_date, next_class *)
  i_tleft : option Z; i_ost : option Z; i_osst : option Z;   (* time_left, original_service_time, original_service_start_date (None = unset) *)
  i_route : option (list (list Z))      (* route attribute (None = no attribute); ProcessBased steps are singletons *)
}.
#[export] Instance eta_ind : Settable _ :=
  settable! mkInd <i_id; i_cls; i_pcls; i_ocls; i_prio; i_pprio; i_node; i_arr; i_sst; i_stime; i_send; i_exit;
                   i_blocked; i_server; i_dest; i_qa; i_qd; i_nrec; i_smark; i_interrupted; i_ren; i_ccd; i_ncls;
                   i_tleft; i_ost; i_osst; i_route>.

Record server := mkServer {
  sv_id : Z; sv_cust : option Z; sv_busy : bool; sv_next_end : option Z (* None = inf *);
  sv_busy_time : Z; sv_total_time : option Z; sv_wrapped : Z;
  sv_offduty : bool; sv_start : Z; sv_shift_end : option Z
}.
#[export] Instance eta_server : Settable _ :=
  settable! mkServer <sv_id; sv_cust; sv_busy; sv_next_end; sv_busy_time; sv_total_time; sv_wrapped; sv_offduty; sv_start; sv_shift_end>.

Record node := mkNode {
  n_id : Z; n_pop : Z; n_insvc : Z; n_queues : list (list Z); n_servers : list server;
  n_bq : list (Z * Z); n_lenbq : Z; n_next_date : option Z (* None = inf *); n_next_inds : list Z;
  n_c : option Z;                        (* the node's current c; None = infinite                                     *)
  n_highest : Z;                         (* highest_id                                                                *)
  n_interrupted : list Z; n_nint : Z;
  n_overtime : list Z; n_all_busy : list Z; n_all_total : list Z;
  n_next_type : Z;                       (* 0 end_service 1 shift_change 2 renege 3 class_change 4 slotted_service 5 None *)
  n_next_shift : option Z;               (* next_shift_change; None = inf                                             *)
  n_spos : Z;                            (* number of values already taken from the schedule generator               *)
  n_nccd : option Z;                     (* next_class_change_date; None = inf                                        *)
  n_ncci : option Z                      (* next_class_change_ind                                                     *)
}.
#[export] Instance eta_node : Settable _ :=
  settable! mkNode <n_id; n_pop; n_insvc; n_queues; n_servers; n_bq; n_lenbq; n_next_date; n_next_inds; n_c; n_highest;
                    n_interrupted; n_nint; n_overtime; n_all_busy; n_all_total; n_next_type; n_next_shift; n_spos; n_nccd; n_ncci>.

Record arrst := mkArr {
  a_created : Z; a_accepted : Z;
  a_dates : list (list (option Z));
  a_next_node : Z; a_next_cls : Z; a_next_date : option Z
}.
#[export] Instance eta_arr : Settable _ := settable! mkArr <a_created; a_accepted; a_dates; a_next_node; a_next_cls; a_next_date>.

(* the draws of one frame, in the order in which each kind is consumed *)
Record draws := mkDraws { d_arr : list Z; d_batch : list Z; d_svc : list Z; d_unif : list Z; d_ren : list Z; d_cct : list Z }.
#[export] Instance eta_draws : Settable _ := settable! mkDraws <d_arr; d_batch; d_svc; d_unif; d_ren; d_cct>.

(* a data record as the engine writes it (type 0 service, 1 interrupted service, 2 renege, 3 baulk, 4 rejection) *)
Record rec := mkRec {
  r_id : Z; r_cls : Z; r_ocls : Z; r_node : Z; r_type : Z;
  r_arr : option Z; r_wait : option Z; r_sst : option Z; r_stime : option Z; r_send : option Z; r_blocked : option Z; r_exit : option Z;
  r_dest : option Z; r_qa : option Z; r_qd : option Z; r_server : option Z
}.

Record sim := mkSim {
  now : Z;
  next_active : Z;
  arr : arrst; nodes : list node;
  exit_ids : list Z; exit_n : Z; exit_completed : Z;
  inds : list ind;
  dr : draws;
  log : list rec;
  cyc : list (list Z)                    (* class -> node -> number of destinations already taken from the Cycle router's generator *)
}.
#[export] Instance eta_sim : Settable _ := settable! mkSim <now; next_active; arr; nodes; exit_ids; exit_n; exit_completed; inds; dr; log; cyc>.

(* ---------------- results ---------------- *)
Inductive res (A : Type) := Ok (a : A) | Err (site : Z) | OutOfFuel.
Arguments Ok {A}. Arguments Err {A}. Arguments OutOfFuel {A}.

(* error sites (each a place where Python would raise) *)
Definition E_NoNode : Z := 1.          (* index into nodes out of range / attribute of the exit node that does not exist *)
Definition E_NoInd : Z := 2.           (* attribute access on a customer that is not there *)
Definition E_Remove : Z := 3.          (* list.remove(x): x not in list             *)
Definition E_Index : Z := 4.           (* list.index(x): x not in list / [0] of an empty list *)
Definition E_NoServer : Z := 5.        (* attribute access on False where a server is expected *)
Definition E_Draw : Z := 6.            (* the oracle has no further draw of that kind (model/implementation diverged) *)
Definition E_Choice : Z := 7.          (* random_choice ran off the end / index out of range *)
Definition E_Config : Z := 8.          (* configuration table lookup failed          *)
Definition E_Batch : Z := 9.           (* invalid batch size                          *)
Definition E_MaxEmpty : Z := 10.       (* max() of an empty sequence (decide_preempt) *)
Definition E_Type : Z := 11.           (* arithmetic on a string (service_time marker) *)
Definition E_Attr : Z := 12.           (* attribute that was never set (reneging_date, class_change_date, route, original_service_time ...) *)
Definition E_BqRemove : Z := 13.       (* blocked_queue.remove: entry not there *)
Definition E_KillIndex : Z := 14.      (* kill_server: servers.index(srvr) of a server that is not in the list *)
Definition E_IntRemove : Z := 15.      (* interrupted_individuals.remove / [0]: not there *)
Definition E_Inf : Z := 16.            (* a date that the model cannot represent (arithmetic on float('inf')) *)
Definition E_Route : Z := 17.          (* route step: pop from / remove in a malformed route *)

(* State.v -- configuration, state and observation types of the engine model (stage 1: ordinary nodes with fixed
   finite or infinite servers, queue and system capacities with blocking, non-pre-emptive priorities, FIFO/LIFO/SIRO,
   batching, baulking tables, class-change matrices, transition-matrix routing).  First-order data only, so the same
   types are the engine's state, the snapshot format of the Python observer and what invariants talk about.
   Times are integer ticks; option = Python's False / None; None in a date that Python holds as float('inf') where noted. *)
From Coq Require Import ZArith List Bool Lia.
From RecordUpdate Require Import RecordUpdate.
From CiwV Require Import Sx.
Import ListNotations.
Open Scope Z_scope.

(* ---------------- configuration ---------------- *)
Record ncfg := mkNcfg {
  nc_c : option Z;                    (* number of servers; None = infinite                       *)
  nc_cap : option Z;                  (* node_capacity = queue capacity + c; None = infinite      *)
  nc_ccm : option (list (list Z));    (* class-change matrix in eighths, None = no matrix         *)
  nc_disc : Z                         (* 0 FIFO, 1 LIFO, 2 SIRO                                    *)
}.
Record config := mkCfg {
  cf_k : Z;                                   (* number of customer classes                               *)
  cf_nodes : list ncfg;
  cf_prio : list Z;                           (* priority class of each customer class                    *)
  cf_nprio : Z;                               (* number of priority classes                               *)
  cf_syscap : option Z;                       (* system capacity; None = infinite                         *)
  cf_tm : list (list (list Z));               (* class -> node -> routing row in eighths                  *)
  cf_baulk : list (list (option (list Z)))    (* class -> node -> baulking table in quarters              *)
}.

(* ---------------- state ---------------- *)
Record ind := mkInd {
  i_id : Z; i_cls : Z; i_pcls : Z; i_ocls : Z; i_prio : Z; i_pprio : Z;
  i_node : option Z; i_arr : option Z; i_sst : option Z; i_stime : option Z; i_send : option Z; i_exit : option Z;
  i_blocked : bool; i_server : option Z; i_dest : option Z; i_qa : option Z; i_qd : option Z; i_nrec : Z
}.
#[export] Instance eta_ind : Settable _ :=
  settable! mkInd <i_id; i_cls; i_pcls; i_ocls; i_prio; i_pprio; i_node; i_arr; i_sst; i_stime; i_send; i_exit;
                   i_blocked; i_server; i_dest; i_qa; i_qd; i_nrec>.

Record server := mkServer {
  sv_id : Z; sv_cust : option Z; sv_busy : bool; sv_next_end : option Z (* None = inf *);
  sv_busy_time : Z; sv_total_time : option Z;
  sv_wrapped : Z                        (* busy time provisionally credited by wrap_up_servers at the end of the previous call *)
}.
#[export] Instance eta_server : Settable _ := settable! mkServer <sv_id; sv_cust; sv_busy; sv_next_end; sv_busy_time; sv_total_time; sv_wrapped>.

Record node := mkNode {
  n_id : Z; n_pop : Z; n_insvc : Z; n_queues : list (list Z); n_servers : list server;
  n_bq : list (Z * Z); n_lenbq : Z; n_next_date : option Z (* None = inf *); n_next_inds : list Z
}.
#[export] Instance eta_node : Settable _ := settable! mkNode <n_id; n_pop; n_insvc; n_queues; n_servers; n_bq; n_lenbq; n_next_date; n_next_inds>.

Record arrst := mkArr {
  a_created : Z; a_accepted : Z;
  a_dates : list (list (option Z));      (* node -> class -> date of the next arrival; None = inf / no stream *)
  a_next_node : Z; a_next_cls : Z; a_next_date : option Z
}.
#[export] Instance eta_arr : Settable _ := settable! mkArr <a_created; a_accepted; a_dates; a_next_node; a_next_cls; a_next_date>.

(* the draws of one frame, in the order in which each kind is consumed *)
Record draws := mkDraws { d_arr : list Z; d_batch : list Z; d_svc : list Z; d_unif : list Z }.
#[export] Instance eta_draws : Settable _ := settable! mkDraws <d_arr; d_batch; d_svc; d_unif>.

(* a data record as the engine writes it (type 0 service, 3 baulk, 4 rejection) *)
Record rec := mkRec {
  r_id : Z; r_cls : Z; r_ocls : Z; r_node : Z; r_type : Z;
  r_arr : option Z; r_wait : option Z; r_sst : option Z; r_stime : option Z; r_send : option Z; r_blocked : option Z; r_exit : option Z;
  r_dest : option Z; r_qa : option Z; r_qd : option Z; r_server : option Z
}.

Record sim := mkSim {
  now : Z;
  next_active : Z;                       (* 0 = arrival node, j = service node j: whose event is next *)
  arr : arrst; nodes : list node;
  exit_ids : list Z; exit_n : Z; exit_completed : Z;
  inds : list ind;                       (* every customer currently in a service node, keyed by i_id *)
  dr : draws;
  log : list rec                         (* records written during the current frame *)
}.
#[export] Instance eta_sim : Settable _ := settable! mkSim <now; next_active; arr; nodes; exit_ids; exit_n; exit_completed; inds; dr; log>.

(* ---------------- results ---------------- *)
Inductive res (A : Type) := Ok (a : A) | Err (site : Z) | OutOfFuel.
Arguments Ok {A}. Arguments Err {A}. Arguments OutOfFuel {A}.

(* error sites (each a place where Python would raise) *)
Definition E_NoNode : Z := 1.          (* index into nodes out of range            *)
Definition E_NoInd : Z := 2.           (* attribute access on a customer that is not there *)
Definition E_Remove : Z := 3.          (* list.remove(x): x not in list             *)
Definition E_Index : Z := 4.           (* list.index(x): x not in list              *)
Definition E_NoServer : Z := 5.        (* attribute access on False where a server is expected *)
Definition E_Draw : Z := 6.            (* the oracle has no further draw of that kind (model/implementation diverged) *)
Definition E_Choice : Z := 7.          (* random_choice ran off the end / index out of range *)
Definition E_Config : Z := 8.          (* configuration table lookup failed          *)
Definition E_Batch : Z := 9.           (* invalid batch size                          *)

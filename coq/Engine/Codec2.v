(* Codec2.v -- integer-tree encoding of configuration, state, draws and records of the stage-2 engine model, and the entry
   points the OCaml driver calls for the stepwise correspondence check (one event of the model from the implementation's
   own previous snapshot; wrap_up_servers).  Independent of Codec.v. *)
From Coq Require Import ZArith List Bool Lia.
From RecordUpdate Require Import RecordUpdate.
From CiwV Require Import Sx Prelude Sched.
From CiwV.Engine Require Import State2 Engine2.
Import ListNotations.
Open Scope Z_scope.

Definition eo (o : option Z) : sx := match o with Some z => A z | None => L [] end.
Definition eb (b : bool) : sx := A (if b then 1 else 0).
Definition ezs (l : list Z) : sx := L (map A l).
Definition ex (x : xz) : sx := match x with XU => L [] | XI => L [A 0] | XV z => A z end.
Definition do_ (s : sx) : option (option Z) := match s with A z => Some (Some z) | L [] => Some None | _ => None end.
Definition db (s : sx) : option bool := match s with A 0 => Some false | A 1 => Some true | _ => None end.
Definition dx (s : sx) : option xz := match s with A z => Some (XV z) | L [] => Some XU | L [A 0] => Some XI | _ => None end.
Definition dos (s : sx) : option (list (option Z)) := do l <- getL s; omap do_ l.
Definition dbs (s : sx) : option (list bool) := do l <- getL s; omap db l.

(* route: L [] = no attribute, L [steps] = the list of steps *)
Definition eroute (r : option (list (list Z))) : sx := match r with None => L [] | Some l => L [L (map ezs l)] end.
Definition droute (s : sx) : option (option (list (list Z))) :=
  match s with L [] => Some None | L [r] => do r' <- getZss r; Some (Some r') | _ => None end.

Definition enc_ind (x : ind) : sx :=
  L [A (i_id x); A (i_cls x); A (i_pcls x); A (i_ocls x); A (i_prio x); A (i_pprio x); eo (i_node x); eo (i_arr x); eo (i_sst x);
     eo (i_stime x); eo (i_send x); eo (i_exit x); eb (i_blocked x); eo (i_server x); eo (i_dest x); eo (i_qa x); eo (i_qd x); A (i_nrec x);
     A (i_smark x); eb (i_interrupted x); ex (i_ren x); ex (i_ccd x); eo (i_ncls x); eo (i_tleft x); eo (i_ost x); eo (i_osst x); eroute (i_route x)].
Definition dec_ind (s : sx) : option ind :=
  match s with
  | L [A a; A b; A c; A d; A e; A f; g; h; i; j; k; l; m; n; o; p; q; A r; A sm; it; rn; cd; nc; tl; ot; os; rt] =>
    do g' <- do_ g; do h' <- do_ h; do i' <- do_ i; do j' <- do_ j; do k' <- do_ k; do l' <- do_ l; do m' <- db m;
    do n' <- do_ n; do o' <- do_ o; do p' <- do_ p; do q' <- do_ q;
    do it' <- db it; do rn' <- dx rn; do cd' <- dx cd; do nc' <- do_ nc; do tl' <- do_ tl; do ot' <- do_ ot; do os' <- do_ os; do rt' <- droute rt;
    Some (mkInd a b c d e f g' h' i' j' k' l' m' n' o' p' q' r sm it' rn' cd' nc' tl' ot' os' rt')
  | _ => None
  end.
Definition enc_server (x : server) : sx :=
  L [A (sv_id x); eo (sv_cust x); eb (sv_busy x); eo (sv_next_end x); A (sv_busy_time x); eo (sv_total_time x); A (sv_wrapped x);
     eb (sv_offduty x); A (sv_start x); eo (sv_shift_end x)].
Definition dec_server (s : sx) : option server :=
  match s with
  | L [A a; b; c; d; A e; f; A w; od; A st; se] =>
    do b' <- do_ b; do c' <- db c; do d' <- do_ d; do f' <- do_ f; do od' <- db od; do se' <- do_ se;
    Some (mkServer a b' c' d' e f' w od' st se')
  | _ => None
  end.
Definition enc_pair (p : Z * Z) : sx := L [A (fst p); A (snd p)].
Definition dec_pair (s : sx) : option (Z * Z) := match s with L [A a; A b] => Some (a, b) | _ => None end.

(* the schedule object's visible state as a function of the generator position (closed form of Sub/Sched.v):
   Schedule: [schedule.c; next_shift_change_date]   Slotted: [slot_size; next_slot_date]   fixed servers: [] *)
Definition sched_view (nc : option ncfg) (pos : Z) : sx :=
  match nc with
  | Some c =>
    match nc_srv c with
    | SFixed => L []
    | SSched sc =>
      let k := Z.to_nat pos in
      L [A (match k with O => 0 | S m => nth (m mod length (sc_b sc)) (sc_v sc) 0 end);
         A (match k with O => sc_off sc | S m => gen_date (sc_b sc) (sc_off sc) m end)]
    | SSlot sl => let v := slot_values sl (Z.to_nat pos) in L [A (fst v); A (snd v)]
    end
  | None => L []
  end.

Definition enc_node (cf : config) (x : node) : sx :=
  L [A (n_id x); A (n_pop x); A (n_insvc x); L (map ezs (n_queues x)); L (map enc_server (n_servers x)); L (map enc_pair (n_bq x));
     A (n_lenbq x); eo (n_next_date x); ezs (n_next_inds x);
     eo (n_c x); A (n_highest x); ezs (n_interrupted x); A (n_nint x); ezs (n_overtime x); ezs (n_all_busy x); ezs (n_all_total x);
     A (n_next_type x); eo (n_next_shift x); A (n_spos x); eo (n_nccd x); eo (n_ncci x);
     sched_view (nthZ (cf_nodes cf) (n_id x - 1)) (n_spos x)].
Definition dec_node (s : sx) : option node :=
  match s with
  | L [A a; A b; A c; q; sv; bq; A l; nd; ni; cc; A hi; it; A nit; ov; ab; att; A ty; ns; A sp; ncd; nci; _] =>
    do q' <- getZss q; do svl <- getL sv; do sv' <- omap dec_server svl; do bql <- getL bq; do bq' <- omap dec_pair bql;
    do nd' <- do_ nd; do ni' <- getZs ni;
    do cc' <- do_ cc; do it' <- getZs it; do ov' <- getZs ov; do ab' <- getZs ab; do att' <- getZs att; do ns' <- do_ ns;
    do ncd' <- do_ ncd; do nci' <- do_ nci;
    Some (mkNode a b c q' sv' bq' l nd' ni' cc' hi it' nit ov' ab' att' ty ns' sp ncd' nci')
  | _ => None
  end.
Definition enc_arr (a : arrst) : sx :=
  L [A (a_created a); A (a_accepted a); L (map (fun r => L (map eo r)) (a_dates a)); A (a_next_node a); A (a_next_cls a); eo (a_next_date a)].
Definition dec_arr (s : sx) : option arrst :=
  match s with
  | L [A a; A b; d; A n; A c; nd] => do dl <- getL d; do d' <- omap dos dl; do nd' <- do_ nd; Some (mkArr a b d' n c nd')
  | _ => None
  end.

Fixpoint ins_ind (x : ind) (l : list ind) : list ind :=
  match l with [] => [x] | y :: r => if i_id x <=? i_id y then x :: l else y :: ins_ind x r end.
Definition sort_inds (l : list ind) : list ind := fold_right ins_ind [] l.

Definition enc_sim (cf : config) (s : sim) : sx :=
  L [A (now s); A (next_active s); enc_arr (arr s); L (map (enc_node cf) (nodes s)); ezs (exit_ids s); A (exit_n s); A (exit_completed s);
     L (map enc_ind (sort_inds (inds s))); L (map ezs (cyc s))].
Definition dec_draws (s : sx) : option draws :=
  match s with
  | L [a; b; c; d; e; f] =>
    do a' <- getZs a; do b' <- getZs b; do c' <- getZs c; do d' <- getZs d; do e' <- getZs e; do f' <- getZs f; Some (mkDraws a' b' c' d' e' f')
  | _ => None end.
Definition dec_sim (s d : sx) : option sim :=
  match s with
  | L [A t; A na; a; n; e; A en; A ec; i; cy] =>
    do a' <- dec_arr a; do nl <- getL n; do n' <- omap dec_node nl; do e' <- getZs e; do il <- getL i; do i' <- omap dec_ind il;
    do cy' <- getZss cy;
    do d' <- dec_draws d; Some (mkSim t na a' n' e' en ec i' d' [] cy')
  | _ => None
  end.

Definition enc_rec (r : rec) : sx :=
  L [A (r_id r); A (r_cls r); A (r_ocls r); A (r_node r); A (r_type r); eo (r_arr r); eo (r_wait r); eo (r_sst r); eo (r_stime r); eo (r_send r);
     eo (r_blocked r); eo (r_exit r); eo (r_dest r); eo (r_qa r); eo (r_qd r); eo (r_server r)].

Definition dec_oll (s : sx) : option (option (list (list Z))) :=
  match s with L [] => Some None | L [m] => do m' <- getZss m; Some (Some m') | _ => None end.
Definition dec_srv (s : sx) : option srvcfg :=
  match s with
  | L [] => Some SFixed
  | L [A 1; b; v; A off; A pre] => do b' <- getZs b; do v' <- getZs v; Some (SSched (mkSched b' v' off pre))
  | L [A 2; b; v; A off; cap; A pre] => do b' <- getZs b; do v' <- getZs v; do cap' <- db cap; Some (SSlot (mkSlot b' v' off cap' pre))
  | _ => None
  end.
Definition dec_ncfg (s : sx) : option ncfg :=
  match s with
  | L [cap; ccm; A d; srv; A pre; rg; rn; A sp] =>
    do cap' <- do_ cap; do m <- dec_oll ccm; do srv' <- dec_srv srv; do rg' <- db rg; do rn' <- dbs rn;
    Some (mkNcfg cap' m d srv' pre rg' rn' sp)
  | _ => None end.
Definition dec_otab (s : sx) : option (option (list Z)) :=
  match s with L [] => Some None | L [t] => do t' <- getZs t; Some (Some t') | _ => None end.
Definition dec_router (s : sx) : option nrouter :=
  match s with
  | L [A 0; A to] => Some (RDirect to)
  | L [A 1] => Some RLeave
  | L [A 2; ds; ps] => do ds' <- getZs ds; do ps' <- getZs ps; Some (RProb ds' ps')
  | L [A 3; lb; ds; od] => do lb' <- db lb; do ds' <- getZs ds; do od' <- db od; Some (RJsq lb' ds' od')
  | L [A 4; cy] => do cy' <- getZs cy; Some (RCycle cy')
  | L [A 5; A to; A jk] => Some (RJockey to jk)
  | _ => None
  end.
Definition dec_routes (s : sx) : option (list (list (list Z))) := do l <- getL s; omap getZss l.
Definition dec_routing (s : sx) : option routing :=
  match s with
  | L [A 0; rs] => do l <- getL rs; do rs' <- omap dec_router l; Some (RtNR rs')
  | L [A 1; rt] => do rt' <- dec_routes rt; Some (RtPB rt')
  | L [A 2; rt; al; A ch] => do rt' <- dec_routes rt; do al' <- db al; Some (RtFPB rt' al' ch)
  | _ => None
  end.
Definition dec_cfg (s : sx) : option config :=
  match s with
  | L [A k; n; p; A np; sc; rt; bk; dy; ct] =>
    do nl <- getL n; do n' <- omap dec_ncfg nl; do p' <- getZs p; do sc' <- do_ sc;
    do rtl <- getL rt; do rt' <- omap dec_routing rtl;
    do bkl <- getL bk; do bk' <- omap (fun r => do rl <- getL r; omap dec_otab rl) bkl;
    do dy' <- db dy; do ctl <- getL ct; do ct' <- omap dbs ctl;
    Some (mkCfg k n' p' np sc' rt' bk' dy' ct')
  | _ => None
  end.

Definition enc_left (d : draws) : sx :=
  L [ezs (d_arr d); ezs (d_batch d); ezs (d_svc d); ezs (d_unif d); ezs (d_ren d); ezs (d_cct d)].

(* L [cfg; state; draws]  ->  L [A 0; state'; records; unused draws]  |  L [A 1; A site]  |  L [A 2]  (out of fuel)  |  L [A 3] (undecodable) *)
Definition run_step (inp : sx) : sx :=
  match inp with
  | L [c; s; d] =>
    match dec_cfg c, dec_sim s d with
    | Some cf, Some st =>
      match event_step cf st with
      | Ok (_, st') => L [A 0; enc_sim cf st'; L (map enc_rec (log st')); enc_left (dr st')]
      | Err e => L [A 1; A e]
      | OutOfFuel => L [A 2]
      end
    | None, _ => L [A 3; A 0]
    | _, None => L [A 3; A 1]
    end
  | _ => L [A 3; A 2]
  end.

(* L [cfg; state; A T] -> L [A 0; state after Simulation.wrap_up_servers(T)] *)
Definition run_wrap (inp : sx) : sx :=
  match inp with
  | L [c; s; A t] =>
    match dec_cfg c, dec_sim s (L [L []; L []; L []; L []; L []; L []]) with
    | Some cf, Some st =>
      match wrap_up_servers t st with
      | Ok (_, st') => L [A 0; enc_sim cf st']
      | Err e => L [A 1; A e]
      | OutOfFuel => L [A 2]
      end
    | None, _ => L [A 3; A 0]
    | _, None => L [A 3; A 1]
    end
  | _ => L [A 3; A 2]
  end.

(* several events in a row from one state, each with its own draws *)
Fixpoint run_many (cf : config) (st : sim) (ds : list draws) : res sim :=
  match ds with
  | [] => Ok st
  | d :: r => match event_step cf (st <| dr := d |>) with Ok (_, st') => run_many cf st' r | Err e => Err e | OutOfFuel => OutOfFuel end
  end.
